/* C02 word level: the division macros of gmp-impl.h / longlong.h (instantiated in tiny wrapper
   functions) and the one-limb division kernels.  Every op refuses (-> "?args") inputs outside the
   documented preconditions whose violation would fault (divq overflow) rather than return a value. */
#include "harness.h"
#include "gmp-impl.h"
#include "longlong.h"
#define NEED(c) do { if (!(c)) return -1; } while (0)
#define FIN(rp, n) do { if (!dst_ok(rp, n)) out_err(o, "oob"); dst_free(rp); } while (0)
#define LIMB(t) ((t).kind == T_NUM && (t).n <= 1 && !(t).neg)
#define HB ((mp_limb_t)1 << 63)

static int nlimbs(int argc, tok_t *a, int k) {
  if (argc != k) return 0;
  for (int i = 0; i < k; i++) if (!LIMB(a[i])) return 0;
  return 1;
}

/* ---- trusted primitives, exercised directly */
static int op_udiv_qrnnd(int argc, tok_t *a, out_t *o) {
  NEED(nlimbs(argc, a, 3));
  mp_limb_t n1 = tok_ulong(&a[0]), n0 = tok_ulong(&a[1]), d = tok_ulong(&a[2]), q, r;
  NEED(n1 < d);
  udiv_qrnnd(q, r, n1, n0, d);
  out_ulong(o, q); out_ulong(o, r); return 0;
}
static int op_add_ssaaaa(int argc, tok_t *a, out_t *o) {
  NEED(nlimbs(argc, a, 4));
  mp_limb_t sh, sl;
  add_ssaaaa(sh, sl, tok_ulong(&a[0]), tok_ulong(&a[1]), tok_ulong(&a[2]), tok_ulong(&a[3]));
  out_ulong(o, sh); out_ulong(o, sl); return 0;
}
static int op_sub_ddmmss(int argc, tok_t *a, out_t *o) {
  NEED(nlimbs(argc, a, 4));
  mp_limb_t sh, sl;
  sub_ddmmss(sh, sl, tok_ulong(&a[0]), tok_ulong(&a[1]), tok_ulong(&a[2]), tok_ulong(&a[3]));
  out_ulong(o, sh); out_ulong(o, sl); return 0;
}
static int op_clz(int argc, tok_t *a, out_t *o) {
  NEED(nlimbs(argc, a, 1)); mp_limb_t x = tok_ulong(&a[0]); NEED(x != 0);
  int c; count_leading_zeros(c, x); out_long(o, c); return 0;
}
static int op_ctz(int argc, tok_t *a, out_t *o) {
  NEED(nlimbs(argc, a, 1)); mp_limb_t x = tok_ulong(&a[0]); NEED(x != 0);
  int c; count_trailing_zeros(c, x); out_long(o, c); return 0;
}

/* ---- gmp-impl.h macros */
static mp_limb_t w_invert_limb(mp_limb_t d) { mp_limb_t di; invert_limb(di, d); return di; }
static int op_invert_limb(int argc, tok_t *a, out_t *o) {
  NEED(nlimbs(argc, a, 1)); mp_limb_t d = tok_ulong(&a[0]); NEED(d & HB);
  out_ulong(o, w_invert_limb(d)); return 0;
}
static void w_preinv(mp_limb_t *q, mp_limb_t *r, mp_limb_t nh, mp_limb_t nl, mp_limb_t d, mp_limb_t di) {
  mp_limb_t qq, rr; udiv_qrnnd_preinv(qq, rr, nh, nl, d, di); *q = qq; *r = rr;
}
static void w_preinv1(mp_limb_t *q, mp_limb_t *r, mp_limb_t nh, mp_limb_t nl, mp_limb_t d, mp_limb_t di) {
  mp_limb_t qq, rr; udiv_qrnnd_preinv1(qq, rr, nh, nl, d, di); *q = qq; *r = rr;
}
static void w_preinv2(mp_limb_t *q, mp_limb_t *r, mp_limb_t nh, mp_limb_t nl, mp_limb_t d, mp_limb_t di) {
  mp_limb_t qq, rr; udiv_qrnnd_preinv2(qq, rr, nh, nl, d, di); *q = qq; *r = rr;
}
static int do_preinv(void (*f)(mp_limb_t *, mp_limb_t *, mp_limb_t, mp_limb_t, mp_limb_t, mp_limb_t), int argc, tok_t *a, out_t *o) {
  NEED(nlimbs(argc, a, 3));
  mp_limb_t nh = tok_ulong(&a[0]), nl = tok_ulong(&a[1]), d = tok_ulong(&a[2]), q, r;
  NEED((d & HB) && nh < d);
  f(&q, &r, nh, nl, d, w_invert_limb(d));
  out_ulong(o, q); out_ulong(o, r); return 0;
}
static int op_preinv(int c, tok_t *a, out_t *o) { return do_preinv(w_preinv, c, a, o); }
static int op_preinv1(int c, tok_t *a, out_t *o) { return do_preinv(w_preinv1, c, a, o); }
static int op_preinv2(int c, tok_t *a, out_t *o) { return do_preinv(w_preinv2, c, a, o); }

static mp_limb_t w_invert_pi1(mp_limb_t d1, mp_limb_t d0) { mp_limb_t dinv; mpir_invert_pi1(dinv, d1, d0); return dinv; }
static int op_invert_pi1(int argc, tok_t *a, out_t *o) {
  NEED(nlimbs(argc, a, 2)); mp_limb_t d1 = tok_ulong(&a[0]), d0 = tok_ulong(&a[1]); NEED(d1 & HB);
  out_ulong(o, w_invert_pi1(d1, d0)); return 0;
}
static void w_3by2(mp_limb_t *qo, mp_limb_t *r1o, mp_limb_t *r0o, mp_limb_t n2, mp_limb_t n1, mp_limb_t n0,
                   mp_limb_t d1, mp_limb_t d0, mp_limb_t dinv) {
  mp_limb_t q, r1, r0;
  udiv_qr_3by2(q, r1, r0, n2, n1, n0, d1, d0, dinv);
  *qo = q; *r1o = r1; *r0o = r0;
}
static int op_3by2(int argc, tok_t *a, out_t *o) {
  NEED(nlimbs(argc, a, 5));
  mp_limb_t n2 = tok_ulong(&a[0]), n1 = tok_ulong(&a[1]), n0 = tok_ulong(&a[2]), d1 = tok_ulong(&a[3]), d0 = tok_ulong(&a[4]);
  NEED((d1 & HB) && (n2 < d1 || (n2 == d1 && n1 < d0)));
  mp_limb_t q, r1, r0;
  w_3by2(&q, &r1, &r0, n2, n1, n0, d1, d0, w_invert_pi1(d1, d0));
  out_ulong(o, q); out_ulong(o, r1); out_ulong(o, r0); return 0;
}
static int op_modlimb_invert(int argc, tok_t *a, out_t *o) {
  NEED(nlimbs(argc, a, 1)); mp_limb_t n = tok_ulong(&a[0]), inv; NEED(n & 1);
  modlimb_invert(inv, n); out_ulong(o, inv); return 0;
}

/* ---- one-limb kernels */
/* mpn_divrem_1 [limbs] d qxn ; _ip: quotient written over the dividend (qp + qxn == up) */
static int do_divrem_1(int ip, int argc, tok_t *a, out_t *o) {
  NEED(argc == 3 && a[0].kind == T_VEC && LIMB(a[1]) && LIMB(a[2]));
  long un = a[0].n, qxn = tok_ulong(&a[2]); mp_limb_t d = tok_ulong(&a[1]);
  NEED(d != 0 && qxn >= 0 && qxn <= 4096 && un + qxn >= 1);
  long n = un + qxn; mp_limb_t *qp = dst_new(n), r;
  if (ip) { memcpy(qp + qxn, a[0].d, un * 8); r = mpn_divrem_1(qp, qxn, qp + qxn, un, d); }
  else r = mpn_divrem_1(qp, qxn, a[0].d, un, d);
  out_vec(o, qp, n); out_ulong(o, r); FIN(qp, n); return 0;
}
static int op_divrem_1(int c, tok_t *a, out_t *o) { return do_divrem_1(0, c, a, o); }
static int op_divrem_1_ip(int c, tok_t *a, out_t *o) { return do_divrem_1(1, c, a, o); }

static int op_divrem_euclidean_qr_1(int argc, tok_t *a, out_t *o) {
  NEED(argc == 2 && a[0].kind == T_VEC && LIMB(a[1]) && a[0].n >= 1);
  long n = a[0].n; mp_limb_t d = tok_ulong(&a[1]); NEED(d != 0);
  mp_limb_t *qp = dst_new(n), r = mpn_divrem_euclidean_qr_1(qp, 0, a[0].d, n, d);
  out_vec(o, qp, n); out_ulong(o, r); FIN(qp, n); return 0;
}
static int op_divrem_euclidean_r_1(int argc, tok_t *a, out_t *o) {
  NEED(argc == 2 && a[0].kind == T_VEC && LIMB(a[1]) && a[0].n >= 1);
  mp_limb_t d = tok_ulong(&a[1]); NEED(d != 0);
  out_ulong(o, mpn_divrem_euclidean_r_1(a[0].d, a[0].n, d)); return 0;
}
typedef mp_limb_t (*hensel_t)(mp_ptr, mp_srcptr, mp_size_t, mp_limb_t, int, mp_limb_t);
static int do_hensel(hensel_t f, long minn, int argc, tok_t *a, out_t *o) {
  NEED(argc == 4 && a[0].kind == T_VEC && LIMB(a[1]) && LIMB(a[2]) && LIMB(a[3]) && a[0].n >= minn);
  long n = a[0].n; mp_limb_t d = tok_ulong(&a[1]), s = tok_ulong(&a[2]), cin = tok_ulong(&a[3]);
  NEED((d & 1) && s <= 63);
  mp_limb_t *qp = dst_new(n), r = f(qp, a[0].d, n, d, (int)s, cin);
  out_vec(o, qp, n); out_ulong(o, r); FIN(qp, n); return 0;
}
static int op_hensel(int c, tok_t *a, out_t *o) { return do_hensel(mpn_rsh_divrem_hensel_qr_1, 1, c, a, o); }
static int op_hensel_1(int c, tok_t *a, out_t *o) { return do_hensel(mpn_rsh_divrem_hensel_qr_1_1, 1, c, a, o); }
static int op_hensel_2(int c, tok_t *a, out_t *o) { return do_hensel(mpn_rsh_divrem_hensel_qr_1_2, 2, c, a, o); }

static int op_mod_1(int argc, tok_t *a, out_t *o) {
  NEED(argc == 2 && a[0].kind == T_VEC && LIMB(a[1]));
  mp_limb_t d = tok_ulong(&a[1]); NEED(d != 0);
  out_ulong(o, mpn_mod_1(a[0].d, a[0].n, d)); return 0;
}
static int op_preinv_mod_1(int argc, tok_t *a, out_t *o) {
  NEED(argc == 2 && a[0].kind == T_VEC && LIMB(a[1]) && a[0].n >= 1);
  mp_limb_t d = tok_ulong(&a[1]); NEED(d & HB);
  out_ulong(o, mpn_preinv_mod_1(a[0].d, a[0].n, d, w_invert_limb(d))); return 0;
}
static int do_divexact_1(int ip, int argc, tok_t *a, out_t *o) {
  NEED(argc == 2 && a[0].kind == T_VEC && LIMB(a[1]) && a[0].n >= 1);
  long n = a[0].n; mp_limb_t d = tok_ulong(&a[1]); NEED(d != 0);
  mp_limb_t *qp = dst_new(n);
  if (ip) { memcpy(qp, a[0].d, n * 8); mpn_divexact_1(qp, qp, n, d); }
  else mpn_divexact_1(qp, a[0].d, n, d);
  out_vec(o, qp, n); FIN(qp, n); return 0;
}
static int op_divexact_1(int c, tok_t *a, out_t *o) { return do_divexact_1(0, c, a, o); }
static int op_divexact_1_ip(int c, tok_t *a, out_t *o) { return do_divexact_1(1, c, a, o); }
static int do_by3c(int ip, int argc, tok_t *a, out_t *o) {
  NEED(argc == 2 && a[0].kind == T_VEC && LIMB(a[1]) && a[0].n >= 1);
  long n = a[0].n; mp_limb_t c = tok_ulong(&a[1]);
  mp_limb_t *qp = dst_new(n), r;
  if (ip) { memcpy(qp, a[0].d, n * 8); r = mpn_divexact_by3c(qp, qp, n, c); }
  else r = mpn_divexact_by3c(qp, a[0].d, n, c);
  out_vec(o, qp, n); out_ulong(o, r); FIN(qp, n); return 0;
}
static int op_by3c(int c, tok_t *a, out_t *o) { return do_by3c(0, c, a, o); }
static int op_by3c_ip(int c, tok_t *a, out_t *o) { return do_by3c(1, c, a, o); }
static int op_modexact_1c_odd(int argc, tok_t *a, out_t *o) {
  NEED(argc == 3 && a[0].kind == T_VEC && LIMB(a[1]) && LIMB(a[2]) && a[0].n >= 1);
  mp_limb_t d = tok_ulong(&a[1]), c = tok_ulong(&a[2]); NEED(d & 1);
  out_ulong(o, mpn_modexact_1c_odd(a[0].d, a[0].n, d, c)); return 0;
}

const opdef_t ops_divw[] = {
  {"udiv_qrnnd", op_udiv_qrnnd}, {"add_ssaaaa", op_add_ssaaaa}, {"sub_ddmmss", op_sub_ddmmss},
  {"count_leading_zeros", op_clz}, {"count_trailing_zeros", op_ctz},
  {"invert_limb", op_invert_limb}, {"udiv_qrnnd_preinv", op_preinv}, {"udiv_qrnnd_preinv1", op_preinv1},
  {"udiv_qrnnd_preinv2", op_preinv2}, {"invert_pi1", op_invert_pi1}, {"udiv_qr_3by2", op_3by2},
  {"modlimb_invert", op_modlimb_invert},
  {"mpn_divrem_1", op_divrem_1}, {"mpn_divrem_1_ip", op_divrem_1_ip},
  {"mpn_divrem_euclidean_qr_1", op_divrem_euclidean_qr_1}, {"mpn_divrem_euclidean_r_1", op_divrem_euclidean_r_1},
  {"mpn_rsh_divrem_hensel_qr_1", op_hensel}, {"mpn_rsh_divrem_hensel_qr_1_1", op_hensel_1},
  {"mpn_rsh_divrem_hensel_qr_1_2", op_hensel_2},
  {"mpn_mod_1", op_mod_1}, {"mpn_preinv_mod_1", op_preinv_mod_1},
  {"mpn_divexact_1", op_divexact_1}, {"mpn_divexact_1_ip", op_divexact_1_ip},
  {"mpn_divexact_by3c", op_by3c}, {"mpn_divexact_by3c_ip", op_by3c_ip},
  {"mpn_modexact_1c_odd", op_modexact_1c_odd},
  /* predicate ops: same calls, the driver evaluates the property on the output instead of comparing with the model */
  {"modlimb_invert_ok", op_modlimb_invert}, {"mpn_divexact_1_ok", op_divexact_1},
  {0, 0}
};
