/* FFT ring layer (property C01): residues modulo 2^(64*limbs)+1 held in limbs+1 limbs (top limb = signed carry),
   their shifts/twiddles/butterflies, the bit splitting/recombination and the basecase pointwise product.
   Every op calls the real exported function of libmpir.a on guard-limbed private copies; all outputs are
   printed bit-exact (all limbs+1 limbs), including inputs that the C modifies in place.
   A residue argument [r] has limbs+1 entries, limbs = n-1 >= 1. */
#include "harness.h"
#include "gmp-impl.h"
#define NEED(c) do { if (!(c)) return -1; } while (0)
#define ISV(t) ((t).kind == T_VEC)
#define ISN(t) ((t).kind == T_NUM && !(t).neg)

static mp_limb_t *cp(const tok_t *t) {            /* guard-limbed private copy */
  mp_limb_t *p = dst_new(t->n); memcpy(p, t->d, t->n * sizeof(mp_limb_t)); return p;
}
static void fin(out_t *o, mp_limb_t *p, long n) { if (!dst_ok(p, n)) out_err(o, "oob"); dst_free(p); }
static int same(const mp_limb_t *p, const tok_t *t) { return memcmp(p, t->d, t->n * sizeof(mp_limb_t)) == 0; }

/* fft_normmod [r] -> [r]   (normmod_2expp1.c; top limb != LONG_MIN: -hi must not overflow) */
static int op_normmod(int argc, tok_t *a, out_t *o) {
  NEED(argc == 1 && ISV(a[0]) && a[0].n >= 2);
  long n = a[0].n, limbs = n - 1; NEED(a[0].d[limbs] != (mp_limb_t)1 << 63);
  mp_limb_t *r = cp(&a[0]);
  mpn_normmod_2expp1(r, limbs);
  out_vec(o, r, n); fin(o, r, n); return 0;
}
/* fft_mul_2expmod [r] d -> [t]   (mul_2expmod_2expp1.c; d < 64; separate destination) */
static int op_mul_2expmod(int argc, tok_t *a, out_t *o) {
  NEED(argc == 2 && ISV(a[0]) && ISN(a[1]) && a[0].n >= 2);
  long n = a[0].n; unsigned long d = tok_ulong(&a[1]); NEED(d < 64);
  mp_limb_t *i1 = cp(&a[0]), *t = dst_new(n);
  mpn_mul_2expmod_2expp1(t, i1, n - 1, d);
  out_vec(o, t, n); if (!same(i1, &a[0])) out_err(o, "inputmod");
  fin(o, t, n); fin(o, i1, n); return 0;
}
/* fft_mul_2expmod_ip [r] d: t == i1 (how adjust.c and the butterflies call it) */
static int op_mul_2expmod_ip(int argc, tok_t *a, out_t *o) {
  NEED(argc == 2 && ISV(a[0]) && ISN(a[1]) && a[0].n >= 2);
  long n = a[0].n; unsigned long d = tok_ulong(&a[1]); NEED(d < 64);
  mp_limb_t *t = cp(&a[0]);
  mpn_mul_2expmod_2expp1(t, t, n - 1, d);
  out_vec(o, t, n); fin(o, t, n); return 0;
}
/* fft_div_2expmod [r] d -> [t]   (div_2expmod_2expp1.c; d < 64) */
static int op_div_2expmod(int argc, tok_t *a, out_t *o) {
  NEED(argc == 2 && ISV(a[0]) && ISN(a[1]) && a[0].n >= 2);
  long n = a[0].n; unsigned long d = tok_ulong(&a[1]); NEED(d < 64);
  mp_limb_t *i1 = cp(&a[0]), *t = dst_new(n);
  mpn_div_2expmod_2expp1(t, i1, n - 1, d);
  out_vec(o, t, n); if (!same(i1, &a[0])) out_err(o, "inputmod");
  fin(o, t, n); fin(o, i1, n); return 0;
}
static int op_div_2expmod_ip(int argc, tok_t *a, out_t *o) {
  NEED(argc == 2 && ISV(a[0]) && ISN(a[1]) && a[0].n >= 2);
  long n = a[0].n; unsigned long d = tok_ulong(&a[1]); NEED(d < 64);
  mp_limb_t *t = cp(&a[0]);
  mpn_div_2expmod_2expp1(t, t, n - 1, d);
  out_vec(o, t, n); fin(o, t, n); return 0;
}
/* fft_adjust [i1] i w -> [r]   (adjust.c: x = i*w/64 <= limbs; r != i1; top limb != LONG_MIN) */
static int op_adjust(int argc, tok_t *a, out_t *o) {
  NEED(argc == 3 && ISV(a[0]) && ISN(a[1]) && ISN(a[2]) && a[0].n >= 2);
  long n = a[0].n, limbs = n - 1; unsigned long i = tok_ulong(&a[1]), w = tok_ulong(&a[2]);
  NEED(i < (1UL << 24) && w < (1UL << 24) && (long)(i * w / 64) <= limbs && a[0].d[limbs] != (mp_limb_t)1 << 63);
  mp_limb_t *i1 = cp(&a[0]), *r = dst_new(n);
  mpir_fft_adjust(r, i1, i, limbs, w);
  out_vec(o, r, n); if (!same(i1, &a[0])) out_err(o, "inputmod");
  fin(o, r, n); fin(o, i1, n); return 0;
}
/* fft_adjust_sqrt2 [i1] i w -> [r]   (adjust_sqrt2.c: b1 = i/2 + wn/4 + i*(w/2) < 2*wn) */
static int op_adjust_sqrt2(int argc, tok_t *a, out_t *o) {
  NEED(argc == 3 && ISV(a[0]) && ISN(a[1]) && ISN(a[2]) && a[0].n >= 2);
  long n = a[0].n, limbs = n - 1; unsigned long i = tok_ulong(&a[1]), w = tok_ulong(&a[2]);
  NEED(i < (1UL << 24) && w < (1UL << 24) && a[0].d[limbs] != (mp_limb_t)1 << 63);
  unsigned long wn = limbs * 64UL, b1 = i / 2 + wn / 4 + i * (w / 2); NEED(b1 < 2 * wn);
  mp_limb_t *i1 = cp(&a[0]), *r = dst_new(n), *temp = dst_new(n);
  mpir_fft_adjust_sqrt2(r, i1, i, limbs, w, temp);
  out_vec(o, r, n); if (!same(i1, &a[0])) out_err(o, "inputmod");
  fin(o, r, n); fin(o, temp, n); fin(o, i1, n); return 0;
}

#define RES2(a) (ISV((a)[0]) && ISV((a)[1]) && (a)[0].n >= 2 && (a)[0].n == (a)[1].n)
/* fft_butterfly_lshB [i1] [i2] x y -> [t] [u]   (butterfly_lshB.c; x, y <= limbs; outputs separate) */
static int op_lshB(int argc, tok_t *a, out_t *o) {
  NEED(argc == 4 && RES2(a) && ISN(a[2]) && ISN(a[3]));
  long n = a[0].n, limbs = n - 1, x = tok_long(&a[2]), y = tok_long(&a[3]); NEED(x >= 0 && y >= 0 && x <= limbs && y <= limbs);
  mp_limb_t *i1 = cp(&a[0]), *i2 = cp(&a[1]), *t = dst_new(n), *u = dst_new(n);
  mpir_butterfly_lshB(t, u, i1, i2, limbs, x, y);
  out_vec(o, t, n); out_vec(o, u, n);
  if (!same(i1, &a[0]) || !same(i2, &a[1])) out_err(o, "inputmod");
  fin(o, t, n); fin(o, u, n); fin(o, i1, n); fin(o, i2, n); return 0;
}
/* fft_butterfly_rshB [i1] [i2] x y -> [t] [u] [i1'] [i2']   (butterfly_rshB.c negates low limbs of an input in place) */
static int op_rshB(int argc, tok_t *a, out_t *o) {
  NEED(argc == 4 && RES2(a) && ISN(a[2]) && ISN(a[3]));
  long n = a[0].n, limbs = n - 1, x = tok_long(&a[2]), y = tok_long(&a[3]); NEED(x >= 0 && y >= 0 && x <= limbs && y <= limbs);
  mp_limb_t *i1 = cp(&a[0]), *i2 = cp(&a[1]), *t = dst_new(n), *u = dst_new(n);
  mpir_butterfly_rshB(t, u, i1, i2, limbs, x, y);
  out_vec(o, t, n); out_vec(o, u, n); out_vec(o, i1, n); out_vec(o, i2, n);
  fin(o, t, n); fin(o, u, n); fin(o, i1, n); fin(o, i2, n); return 0;
}
/* fft_butterfly [i1] [i2] i w -> [s] [t]   (fft_radix2.c:34; y = i*w/64 <= limbs) */
static int op_fft_butterfly(int argc, tok_t *a, out_t *o) {
  NEED(argc == 4 && RES2(a) && ISN(a[2]) && ISN(a[3]));
  long n = a[0].n, limbs = n - 1; unsigned long i = tok_ulong(&a[2]), w = tok_ulong(&a[3]);
  NEED(i < (1UL << 24) && w < (1UL << 24) && (long)(i * w / 64) <= limbs);
  mp_limb_t *i1 = cp(&a[0]), *i2 = cp(&a[1]), *s = dst_new(n), *t = dst_new(n);
  mpir_fft_butterfly(s, t, i1, i2, i, limbs, w);
  out_vec(o, s, n); out_vec(o, t, n);
  if (!same(i1, &a[0]) || !same(i2, &a[1])) out_err(o, "inputmod");
  fin(o, s, n); fin(o, t, n); fin(o, i1, n); fin(o, i2, n); return 0;
}
/* ifft_butterfly [i1] [i2] i w -> [s] [t] [i2']   (ifft_radix2.c:34; i2 is divided in place) */
static int op_ifft_butterfly(int argc, tok_t *a, out_t *o) {
  NEED(argc == 4 && RES2(a) && ISN(a[2]) && ISN(a[3]));
  long n = a[0].n, limbs = n - 1; unsigned long i = tok_ulong(&a[2]), w = tok_ulong(&a[3]);
  NEED(i < (1UL << 24) && w < (1UL << 24) && (long)(i * w / 64) <= limbs);
  mp_limb_t *i1 = cp(&a[0]), *i2 = cp(&a[1]), *s = dst_new(n), *t = dst_new(n);
  mpir_ifft_butterfly(s, t, i1, i2, i, limbs, w);
  out_vec(o, s, n); out_vec(o, t, n); out_vec(o, i2, n);
  if (!same(i1, &a[0])) out_err(o, "inputmod");
  fin(o, s, n); fin(o, t, n); fin(o, i1, n); fin(o, i2, n); return 0;
}
/* fft_butterfly_sqrt2 [i1] [i2] i w -> [s] [t]   (fft_trunc_sqrt2.c:34; b1 = i/2 + wn/4 + i*(w/2) < 2*wn) */
static int op_fft_butterfly_sqrt2(int argc, tok_t *a, out_t *o) {
  NEED(argc == 4 && RES2(a) && ISN(a[2]) && ISN(a[3]));
  long n = a[0].n, limbs = n - 1; unsigned long i = tok_ulong(&a[2]), w = tok_ulong(&a[3]);
  NEED(i < (1UL << 24) && w < (1UL << 24));
  unsigned long wn = limbs * 64UL, b1 = i / 2 + wn / 4 + i * (w / 2); NEED(b1 < 2 * wn);
  mp_limb_t *i1 = cp(&a[0]), *i2 = cp(&a[1]), *s = dst_new(n), *t = dst_new(n), *temp = dst_new(n);
  mpir_fft_butterfly_sqrt2(s, t, i1, i2, i, limbs, w, temp);
  out_vec(o, s, n); out_vec(o, t, n);
  if (!same(i1, &a[0]) || !same(i2, &a[1])) out_err(o, "inputmod");
  fin(o, s, n); fin(o, t, n); fin(o, temp, n); fin(o, i1, n); fin(o, i2, n); return 0;
}
/* ifft_butterfly_sqrt2 [i1] [i2] i w -> [s] [t] [i2']   (ifft_trunc_sqrt2.c:34; i/2 + i*(w/2) + 1 <= wn) */
static int op_ifft_butterfly_sqrt2(int argc, tok_t *a, out_t *o) {
  NEED(argc == 4 && RES2(a) && ISN(a[2]) && ISN(a[3]));
  long n = a[0].n, limbs = n - 1; unsigned long i = tok_ulong(&a[2]), w = tok_ulong(&a[3]);
  NEED(i < (1UL << 24) && w < (1UL << 24));
  unsigned long wn = limbs * 64UL; NEED(i / 2 + i * (w / 2) + 1 <= wn);
  mp_limb_t *i1 = cp(&a[0]), *i2 = cp(&a[1]), *s = dst_new(n), *t = dst_new(n), *temp = dst_new(n);
  mpir_ifft_butterfly_sqrt2(s, t, i1, i2, i, limbs, w, temp);
  out_vec(o, s, n); out_vec(o, t, n); out_vec(o, i2, n);
  if (!same(i1, &a[0])) out_err(o, "inputmod");
  fin(o, s, n); fin(o, t, n); fin(o, temp, n); fin(o, i1, n); fin(o, i2, n); return 0;
}
/* fft_butterfly_twiddle [s] [t] b1 b2 -> [u] [v]   (fft_mfa_trunc_sqrt2.c:34; b1, b2 < 2*nw) */
static int op_fft_twiddle(int argc, tok_t *a, out_t *o) {
  NEED(argc == 4 && RES2(a) && ISN(a[2]) && ISN(a[3]));
  long n = a[0].n, limbs = n - 1; unsigned long b1 = tok_ulong(&a[2]), b2 = tok_ulong(&a[3]), nw = limbs * 64UL;
  NEED(b1 < 2 * nw && b2 < 2 * nw);
  mp_limb_t *s = cp(&a[0]), *t = cp(&a[1]), *u = dst_new(n), *v = dst_new(n);
  mpir_fft_butterfly_twiddle(u, v, s, t, limbs, b1, b2);
  out_vec(o, u, n); out_vec(o, v, n);
  if (!same(s, &a[0]) || !same(t, &a[1])) out_err(o, "inputmod");
  fin(o, u, n); fin(o, v, n); fin(o, s, n); fin(o, t, n); return 0;
}
/* ifft_butterfly_twiddle [s] [t] b1 b2 -> [u] [v] [s'] [t'] */
static int op_ifft_twiddle(int argc, tok_t *a, out_t *o) {
  NEED(argc == 4 && RES2(a) && ISN(a[2]) && ISN(a[3]));
  long n = a[0].n, limbs = n - 1; unsigned long b1 = tok_ulong(&a[2]), b2 = tok_ulong(&a[3]), nw = limbs * 64UL;
  NEED(b1 < 2 * nw && b2 < 2 * nw);
  mp_limb_t *s = cp(&a[0]), *t = cp(&a[1]), *u = dst_new(n), *v = dst_new(n);
  mpir_ifft_butterfly_twiddle(u, v, s, t, limbs, b1, b2);
  out_vec(o, u, n); out_vec(o, v, n); out_vec(o, s, n); out_vec(o, t, n);
  fin(o, u, n); fin(o, v, n); fin(o, s, n); fin(o, t, n); return 0;
}

/* fft_split_bits [x] bits ol -> length [c0] [c1] ...   (split_bits.c; coefficient buffers of ol+1 limbs;
   a coefficient spans coeff_limbs = ceil(bits/64) limbs, which must fit: coeff_limbs <= ol + 1) */
static int op_split_bits(int argc, tok_t *a, out_t *o) {
  NEED(argc == 3 && ISV(a[0]) && ISN(a[1]) && ISN(a[2]) && a[0].n >= 1);
  long total = a[0].n; unsigned long bits = tok_ulong(&a[1]); long ol = tok_long(&a[2]);
  NEED(bits >= 1 && bits < (1UL << 24) && ol >= 0 && ol < (1L << 20));
  long coeff = (bits + 63) / 64; NEED(coeff <= ol + 1);
  long length = (64 * total - 1) / bits + 1; NEED(length * (ol + 1) < (1L << 24));
  mp_limb_t *x = cp(&a[0]);
  mp_limb_t **poly = malloc(length * sizeof *poly);
  for (long i = 0; i < length; i++) { poly[i] = dst_new(ol + 1); }
  long r = mpir_fft_split_bits(poly, x, total, bits, ol);
  out_long(o, r);
  for (long i = 0; i < length; i++) out_vec(o, poly[i], ol + 1);
  if (!same(x, &a[0])) out_err(o, "inputmod");
  for (long i = 0; i < length; i++) fin(o, poly[i], ol + 1);
  free(poly); fin(o, x, total); return 0;
}
/* fft_combine_bits [res] bits ol [c0] [c1] ... -> [res]   (combine_bits.c; each c has ol+1 limbs; res += sum c_i 2^(i*bits)) */
static int op_combine_bits(int argc, tok_t *a, out_t *o) {
  NEED(argc >= 3 && argc <= 63 && ISV(a[0]) && ISN(a[1]) && ISN(a[2]) && a[0].n >= 1);     /* main.c keeps at most 64 tokens */
  long total = a[0].n; unsigned long bits = tok_ulong(&a[1]); long ol = tok_long(&a[2]); long length = argc - 3;
  NEED(bits >= 1 && bits < (1UL << 24) && ol >= 1 && ol < (1L << 20));
  for (long i = 0; i < length; i++) NEED(ISV(a[3 + i]) && a[3 + i].n == ol + 1);
  mp_limb_t *res = cp(&a[0]);
  mp_limb_t **poly = malloc((length + 1) * sizeof *poly);
  for (long i = 0; i < length; i++) poly[i] = cp(&a[3 + i]);
  mpir_fft_combine_bits(res, poly, length, bits, ol, total);
  out_vec(o, res, total);
  for (long i = 0; i < length; i++) { if (!same(poly[i], &a[3 + i])) out_err(o, "inputmod"); fin(o, poly[i], ol + 1); }
  free(poly); fin(o, res, total); return 0;
}

/* fft_mulmod_2expp1 c b [y] [z] -> [x] ret   (mulmod_2expp1_basecase.c) restricted to the branch that does not
   enter mpir_fft_mulmod_2expp1: k != 0 or n <= FFT_MULMOD_2EXPP1_CUTOFF */
static int op_mulmod_2expp1(int argc, tok_t *a, out_t *o) {
  NEED(argc == 4 && ISN(a[0]) && ISN(a[1]) && ISV(a[2]) && ISV(a[3]));
  long c = tok_long(&a[0]); unsigned long b = tok_ulong(&a[1]); NEED(c >= 0 && c <= 3 && b >= 1 && b < (1UL << 24));
  long n = (b + 63) / 64, k = 64 * n - b; NEED(a[2].n == n && a[3].n == n);
  NEED(k != 0 || n <= FFT_MULMOD_2EXPP1_CUTOFF);
  NEED(k == 0 || (a[2].d[n - 1] >> (64 - k) == 0 && a[3].d[n - 1] >> (64 - k) == 0));
  if (c & 2) for (long i = 0; i < n; i++) NEED(a[2].d[i] == 0);
  if (c & 1) for (long i = 0; i < n; i++) NEED(a[3].d[i] == 0);
  mp_limb_t *y = cp(&a[2]), *z = cp(&a[3]), *xp = dst_new(n), *tp = dst_new(2 * n);
  int r = mpn_mulmod_2expp1_basecase(xp, y, z, (int)c, b, tp);
  out_vec(o, xp, n); out_long(o, r);
  if (!same(y, &a[2]) || !same(z, &a[3])) out_err(o, "inputmod");
  fin(o, xp, n); fin(o, tp, 2 * n); fin(o, y, n); fin(o, z, n); return 0;
}
/* fft_mulmod_Bexpp1 [i1] [i2] -> [r] ret   (mulmod_bexpp1.c; normalised inputs, limbs <= FFT_MULMOD_2EXPP1_CUTOFF) */
static int op_mulmod_Bexpp1(int argc, tok_t *a, out_t *o) {
  NEED(argc == 2 && RES2(a));
  long n = a[0].n, limbs = n - 1; NEED(limbs <= FFT_MULMOD_2EXPP1_CUTOFF);
  for (int j = 0; j < 2; j++) {                   /* normalised: top 0, or top 1 with all low limbs 0 */
    NEED(a[j].d[limbs] <= 1);
    if (a[j].d[limbs]) for (long i = 0; i < limbs; i++) NEED(a[j].d[i] == 0);
  }
  mp_limb_t *i1 = cp(&a[0]), *i2 = cp(&a[1]), *r = dst_new(n), *tt = dst_new(2 * limbs);
  int ret = mpn_mulmod_Bexpp1(r, i1, i2, limbs, tt);
  out_vec(o, r, n); out_long(o, ret);
  if (!same(i1, &a[0]) || !same(i2, &a[1])) out_err(o, "inputmod");
  fin(o, r, n); fin(o, tt, 2 * limbs); fin(o, i1, n); fin(o, i2, n); return 0;
}

const opdef_t ops_fft[] = {
  {"fft_normmod", op_normmod},
  {"fft_mul_2expmod", op_mul_2expmod}, {"fft_mul_2expmod_ip", op_mul_2expmod_ip},
  {"fft_div_2expmod", op_div_2expmod}, {"fft_div_2expmod_ip", op_div_2expmod_ip},
  {"fft_adjust", op_adjust}, {"fft_adjust_sqrt2", op_adjust_sqrt2},
  {"fft_butterfly_lshB", op_lshB}, {"fft_butterfly_rshB", op_rshB},
  {"fft_butterfly", op_fft_butterfly}, {"ifft_butterfly", op_ifft_butterfly},
  {"fft_butterfly_sqrt2", op_fft_butterfly_sqrt2}, {"ifft_butterfly_sqrt2", op_ifft_butterfly_sqrt2},
  {"fft_butterfly_twiddle", op_fft_twiddle}, {"ifft_butterfly_twiddle", op_ifft_twiddle},
  {"fft_split_bits", op_split_bits}, {"fft_combine_bits", op_combine_bits},
  {"fft_mulmod_2expp1", op_mulmod_2expp1}, {"fft_mulmod_Bexpp1", op_mulmod_Bexpp1},
  {0, 0}
};
