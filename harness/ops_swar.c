/* C10 part swar — mpn_popcount / mpn_hamdist (mpn/generic/popcount.c, hamdist.c) against the statement-level
   SWAR model.  gmp-impl.h is not included: the ops call the library's entry points. */
#include "harness.h"
#define NEED(c) do { if (!(c)) return -1; } while (0)

static int op_sw_popcount(int argc, tok_t *a, out_t *o) {
  NEED(argc == 1 && a[0].kind == T_VEC && a[0].n >= 1);
  out_ulong(o, mpn_popcount(a[0].d, a[0].n)); return 0;
}
static int op_sw_hamdist(int argc, tok_t *a, out_t *o) {
  NEED(argc == 2 && a[0].kind == T_VEC && a[1].kind == T_VEC && a[0].n == a[1].n && a[0].n >= 1);
  out_ulong(o, mpn_hamdist(a[0].d, a[1].d, a[0].n)); return 0;
}
const opdef_t ops_swar[] = { {"sw_popcount", op_sw_popcount}, {"sw_hamdist", op_sw_hamdist}, {0, 0} };
