/* Generic calls into every public mpz/mpq/mpf function (table generated from mpir.h):
     api_alias  — C05: the call with an output variable that is also an input must equal the call with
                  distinct variables holding the same values; inputs that are not outputs are unchanged.
     @-ops      — C04: histories over a pool of variables, executed twice (pool A generously allocated,
                  pool B pre-shrunk to the minimum before every call); well-formedness after every call,
                  allocator contract (main.c ledger), values must not depend on allocation history. */
#include "harness.h"
#include "api.h"
#include <math.h>

static const apidesc_t *find_api(const char *name) {
  for (const apidesc_t *d = api_table; d->name; d++) if (!strcmp(d->name, name)) return d;
  return 0;
}
static int is_obj(char c) { return c == 'Z' || c == 'z' || c == 'Q' || c == 'q' || c == 'F' || c == 'f'; }
static int is_ptr(char c) { return c == 'Z' || c == 'Q' || c == 'F'; }
static int ntoks(char c) { return (c == 'Q' || c == 'q') ? 2 : (c == 'F' || c == 'f') ? 4 : 1; }

static void load_f(mpf_ptr f, tok_t *t) {   /* prec size exp [limbs]; f initialised here */
  long prec = tok_long(&t[0]), size = tok_long(&t[1]), n = size < 0 ? -size : size;
  mpf_init2(f, 64 * (prec > 1 ? prec - 1 : 1));
  f->_mp_prec = (int) prec;                 /* prec+1 limbs are allocated by mpf_init2 for that precision */
  if (n > prec + 1) n = prec + 1;
  for (long i = 0; i < n && i < t[3].n; i++) f->_mp_d[i] = t[3].d[i];
  f->_mp_size = (int) (size < 0 ? -n : n); f->_mp_exp = n ? tok_long(&t[2]) : 0;
}
static double tok_double(tok_t *t) { unsigned long b = tok_ulong(t); double d; memcpy(&d, &b, 8); return d; }

typedef struct { mpz_t z[8]; mpq_t q[6]; mpf_t f[6]; int nz, nq, nf; } vars_t;
static void vars_clear(vars_t *v) {
  for (int i = 0; i < v->nz; i++) mpz_clear(v->z[i]);
  for (int i = 0; i < v->nq; i++) mpq_clear(v->q[i]);
  for (int i = 0; i < v->nf; i++) mpf_clear(v->f[i]);
}
/* snapshot of one object as text (for comparison) */
static void snap(out_t *o, char c, apicall_t *call, int idx) {
  if (c == 'Z' || c == 'z') out_mpz(o, call->z[idx]);
  else if (c == 'Q' || c == 'q') out_mpq(o, call->q[idx]);
  else out_mpf(o, call->f[idx]);
}

/* api_alias fname P mask args...            one alias group
   api_alias2 fname P1 mask1 P2 mask2 args...  two groups (two outputs, each the same variable as some inputs)
   (P = index of the aliased output parameter, mask = bitmask of the input parameters of the same kind that
   are the same variable as it) */
static int alias_run(const apidesc_t *d, int ng, const int *P, const unsigned long *mask, tok_t *a, int argc0, out_t *o) {
  int np = strlen(d->sig);
  int grp_of[16], first[2] = {-1, -1};
  for (int i = 0; i < np; i++) grp_of[i] = -1;
  for (int g = 0; g < ng; g++) {
    if (P[g] < 0 || P[g] >= np || !is_ptr(d->sig[P[g]]) || grp_of[P[g]] >= 0) return -1;
    char kind = d->sig[P[g]] | 0x20; grp_of[P[g]] = g;
    for (int i = 0; i < np; i++) if (mask[g] >> i & 1) {
      if (d->sig[i] != kind || grp_of[i] >= 0) return -1;
      grp_of[i] = g; if (first[g] < 0) first[g] = i;
    }
    if (first[g] < 0) return -1;
  }
  int need = 0; for (int i = 0; i < np; i++) need += ntoks(d->sig[i]);
  if (argc0 != need) return -1;
  int off[16], t = 0; for (int i = 0; i < np; i++) { off[i] = t; t += ntoks(d->sig[i]); }
  char *res[2] = {0, 0}; int exc[2] = {0, 0};
  for (int run = 0; run < 2; run++) {           /* 0 = distinct variables, 1 = aliased */
    vars_t v; memset(&v, 0, sizeof v); apicall_t c; memset(&c, 0, sizeof c);
    int zi = 0, qi = 0, fi = 0, ui = 0, si = 0, di = 0, bi = 0, ii = 0, ni = 0, have_rs = 0;
    int shared[2] = {-1, -1};
    for (int i = 0; i < np; i++) {
      char s = d->sig[i]; int g = grp_of[i];
      tok_t *tk = &a[g >= 0 ? off[first[g]] : off[i]];
      if (s == 'Z' || s == 'z') {
        if (run == 1 && g >= 0 && shared[g] >= 0) c.z[zi++] = v.z[shared[g]];
        else { mpz_init(v.z[v.nz]); tok_mpz(v.z[v.nz], tk); if (g >= 0 && shared[g] < 0) shared[g] = v.nz; c.z[zi++] = v.z[v.nz++]; }
      } else if (s == 'Q' || s == 'q') {
        if (run == 1 && g >= 0 && shared[g] >= 0) c.q[qi++] = v.q[shared[g]];
        else { mpq_init(v.q[v.nq]); tok_mpz(mpq_numref(v.q[v.nq]), tk); tok_mpz(mpq_denref(v.q[v.nq]), tk + 1); if (g >= 0 && shared[g] < 0) shared[g] = v.nq; c.q[qi++] = v.q[v.nq++]; }
      } else if (s == 'F' || s == 'f') {
        if (run == 1 && g >= 0 && shared[g] >= 0) c.f[fi++] = v.f[shared[g]];
        else { load_f(v.f[v.nf], tk); if (g >= 0 && shared[g] < 0) shared[g] = v.nf; c.f[fi++] = v.f[v.nf++]; }
      } else if (s == 'u') c.u[ui++] = tok_ulong(tk);
      else if (s == 's') c.s[si++] = tok_long(tk);
      else if (s == 'd') c.d[di++] = tok_double(tk);
      else if (s == 'b') c.b[bi++] = tok_ulong(tk);
      else if (s == 'i') c.i[ii++] = tok_long(tk);
      else if (s == 'n') c.n[ni++] = tok_long(tk);
      else if (s == 'r') { gmp_randinit_default(c.rs); gmp_randseed_ui(c.rs, tok_ulong(tk)); have_rs = 1; }
    }
    exc[run] = GUARD(d->fn(&c));
    out_t r = {0};
    if (exc[run]) out_exc(&r, exc[run]);
    else {
      if (d->ret == 'd') { unsigned long bb; memcpy(&bb, &c.rd, 8); out_ulong(&r, bb); }
      else if (d->ret == 'u') out_ulong(&r, c.ru);
      else if (d->ret != 'v') out_long(&r, c.rs_);
      zi = qi = fi = 0;
      for (int i = 0; i < np; i++) {
        char s = d->sig[i]; if (!is_obj(s)) continue;
        int idx = (s | 0x20) == 'z' ? zi++ : (s | 0x20) == 'q' ? qi++ : fi++;
        int g = grp_of[i];
        if (g >= 0 && !is_ptr(s)) {      /* an input in an alias group: unchanged in the distinct run */
          if (run == 0) {
            out_t before = {0}, after = {0};
            snap(&after, s, &c, idx);
            apicall_t tmp; memset(&tmp, 0, sizeof tmp);
            tok_t *tk = &a[off[first[g]]];
            if (s == 'z') { mpz_t e; mpz_init(e); tok_mpz(e, tk); tmp.z[0] = e; snap(&before, s, &tmp, 0); mpz_clear(e); }
            else if (s == 'q') { mpq_t e; mpq_init(e); tok_mpz(mpq_numref(e), tk); tok_mpz(mpq_denref(e), tk + 1); tmp.q[0] = e; snap(&before, s, &tmp, 0); mpq_clear(e); }
            else { mpf_t e; load_f(e, tk); tmp.f[0] = e; snap(&before, s, &tmp, 0); mpf_clear(e); }
            if (strcmp(before.buf, after.buf)) { out_err(&r, "input-modified"); }
            free(before.buf); free(after.buf);
          }
          continue;
        }
        snap(&r, s, &c, idx);
      }
    }
    res[run] = r.buf ? r.buf : strdup("");
    if (have_rs) gmp_randclear(c.rs);
    if (!exc[run]) vars_clear(&v);     /* after an exception temporaries may be inconsistent: leak rather than crash */
  }
  if (!strcmp(res[0], res[1])) out_long(o, 0);
  else { out_err(o, "alias-differs"); out_bytes(o, res[0], strlen(res[0])); out_bytes(o, res[1], strlen(res[1])); }
  free(res[0]); free(res[1]);
  return 0;
}
static int op_api_alias(int argc, tok_t *a, out_t *o) {
  if (argc < 3 || a[0].kind != T_STR) return -1;
  const apidesc_t *d = find_api((char *) a[0].s); if (!d) return -1;
  int P[2] = { (int) tok_long(&a[1]), -1 }; unsigned long m[2] = { tok_ulong(&a[2]), 0 };
  return alias_run(d, 1, P, m, a + 3, argc - 3, o);
}
static int op_api_alias2(int argc, tok_t *a, out_t *o) {
  if (argc < 5 || a[0].kind != T_STR) return -1;
  const apidesc_t *d = find_api((char *) a[0].s); if (!d) return -1;
  int P[2] = { (int) tok_long(&a[1]), (int) tok_long(&a[3]) }; unsigned long m[2] = { tok_ulong(&a[2]), tok_ulong(&a[4]) };
  return alias_run(d, 2, P, m, a + 5, argc - 5, o);
}

static int op_api_count(int argc, tok_t *a, out_t *o) {
  (void) argc; (void) a; long n = 0; for (const apidesc_t *d = api_table; d->name; d++) n++;
  out_long(o, n); return 0;
}

/* ------------------------------------------------------------------ histories (C04) */
#define NZ 6
#define NQ 3
#define NF 3
typedef struct { mpz_t z[NZ]; mpq_t q[NQ]; mpf_t f[NF]; gmp_randstate_t r; int live; } pool_t;
static pool_t pool[2];
#define ABSZ(z) ((z)->_mp_size < 0 ? -(z)->_mp_size : (z)->_mp_size)
static long base_blocks = -1;
static long calls_since_reset;
static void pool_free(void) {
  for (int p = 0; p < 2; p++) if (pool[p].live) {
    for (int i = 0; i < NZ; i++) mpz_clear(pool[p].z[i]);
    for (int i = 0; i < NQ; i++) mpq_clear(pool[p].q[i]);
    for (int i = 0; i < NF; i++) mpf_clear(pool[p].f[i]);
    gmp_randclear(pool[p].r); pool[p].live = 0;
  }
}
static int op_reset(int argc, tok_t *a, out_t *o) {
  (void) argc; (void) a; (void) o;
  pool_free();
  mpf_set_default_prec(64);
  base_blocks = h_live_blocks; calls_since_reset = 0;
  for (int p = 0; p < 2; p++) {
    for (int i = 0; i < NZ; i++) mpz_init(pool[p].z[i]);
    for (int i = 0; i < NQ; i++) mpq_init(pool[p].q[i]);
    for (int i = 0; i < NF; i++) mpf_init2(pool[p].f[i], 64);
    gmp_randinit_default(pool[p].r); gmp_randseed_ui(pool[p].r, 12345); pool[p].live = 1;
  }
  return 0;
}
/* @done : clear everything; the ledger must be back to where it was at @reset */
static int op_done(int argc, tok_t *a, out_t *o) {
  (void) argc; (void) a; pool_free();
  out_long(o, h_live_blocks - base_blocks); return 0;
}
static void shrink_z(mpz_ptr z) { mpz_realloc2(z, mpz_sizeinbase(z, 2)); }          /* minimum legal allocation */
static void grow_z(mpz_ptr z, unsigned k) { mpz_realloc2(z, mpz_sizeinbase(z, 2) + 64 * (1 + k % 5)); }
static int same_z(mpz_srcptr x, mpz_srcptr y) {
  if (x->_mp_size != y->_mp_size) return 0;
  long n = x->_mp_size < 0 ? -x->_mp_size : x->_mp_size;
  return memcmp(x->_mp_d, y->_mp_d, n * 8) == 0;
}
static int same_f(mpf_srcptr x, mpf_srcptr y) {
  if (x->_mp_size != y->_mp_size || (x->_mp_size && x->_mp_exp != y->_mp_exp)) return 0;
  long n = x->_mp_size < 0 ? -x->_mp_size : x->_mp_size;
  return memcmp(x->_mp_d, y->_mp_d, n * 8) == 0;
}
/* @setz k v | @setq k n d | @setf k prec size exp [limbs] | @init2 k bits | @realloc2 k bits | @seed ui */
static int op_setz(int argc, tok_t *a, out_t *o) {
  if (argc != 2 || !pool[0].live) return -1; int k = tok_long(&a[0]); if (k < 0 || k >= NZ) return -1;
  for (int p = 0; p < 2; p++) { mpz_t t; mpz_init(t); tok_mpz(t, &a[1]); mpz_set(pool[p].z[k], t); mpz_clear(t); }
  out_mpz(o, pool[1].z[k]); if (!calls_since_reset) out_long(o, pool[1].z[k]->_mp_alloc); return 0;
}
static int op_setq(int argc, tok_t *a, out_t *o) {
  if (argc != 3 || !pool[0].live) return -1; int k = tok_long(&a[0]); if (k < 0 || k >= NQ) return -1;
  for (int p = 0; p < 2; p++) { mpz_t t; mpz_init(t); tok_mpz(t, &a[1]); mpq_set_num(pool[p].q[k], t); tok_mpz(t, &a[2]); mpq_set_den(pool[p].q[k], t); mpz_clear(t); }
  out_mpq(o, pool[1].q[k]); return 0;
}
static int op_setf(int argc, tok_t *a, out_t *o) {
  if (argc != 5 || !pool[0].live) return -1; int k = tok_long(&a[0]); if (k < 0 || k >= NF) return -1;
  for (int p = 0; p < 2; p++) { mpf_clear(pool[p].f[k]); load_f(pool[p].f[k], &a[1]); }
  out_mpf(o, pool[1].f[k]); return 0;
}
static int op_init2(int argc, tok_t *a, out_t *o) {
  if (argc != 2 || !pool[0].live) return -1; int k = tok_long(&a[0]); if (k < 0 || k >= NZ) return -1;
  for (int p = 0; p < 2; p++) { mpz_clear(pool[p].z[k]); mpz_init2(pool[p].z[k], tok_ulong(&a[1])); }
  out_mpz(o, pool[1].z[k]); if (!calls_since_reset) out_long(o, pool[1].z[k]->_mp_alloc); return 0;
}
static int op_realloc2(int argc, tok_t *a, out_t *o) {
  if (argc != 2 || !pool[0].live) return -1; int k = tok_long(&a[0]); if (k < 0 || k >= NZ) return -1;
  for (int p = 0; p < 2; p++) mpz_realloc2(pool[p].z[k], tok_ulong(&a[1]));
  out_mpz(o, pool[1].z[k]); if (!calls_since_reset) out_long(o, pool[1].z[k]->_mp_alloc); return 0;
}
static int op_seed(int argc, tok_t *a, out_t *o) {
  if (argc != 1 || !pool[0].live) return -1;
  for (int p = 0; p < 2; p++) gmp_randseed_ui(pool[p].r, tok_ulong(&a[0]));
  out_long(o, 0); return 0;
}
/* @call fname args...  object parameters are slot numbers, scalars are values */
static int op_call(int argc, tok_t *a, out_t *o) {
  if (argc < 1 || a[0].kind != T_STR || !pool[0].live) return -1;
  const apidesc_t *d = find_api((char *) a[0].s); if (!d) return -1;
  int np = strlen(d->sig); if (argc != 1 + np) return -1;
  /* two ptr parameters must not be the same slot (the manual excludes it) */
  for (int i = 0; i < np; i++) for (int j = i + 1; j < np; j++)
    if (is_ptr(d->sig[i]) && d->sig[i] == d->sig[j] && tok_long(&a[1 + i]) == tok_long(&a[1 + j])) return -1;
  apicall_t c[2]; int exc[2]; static unsigned salt;
  /* keep operand sizes bounded so that long histories stay fast (tdiv_r_2exp is itself an API call) */
  for (int p = 0; p < 2; p++) {
    for (int i = 0; i < NZ; i++) if (ABSZ(pool[p].z[i]) > 48) mpz_tdiv_r_2exp(pool[p].z[i], pool[p].z[i], 64 * 8);
    for (int i = 0; i < NQ; i++) if (ABSZ(mpq_numref(pool[p].q[i])) > 48 || ABSZ(mpq_denref(pool[p].q[i])) > 48) {
      mpz_tdiv_r_2exp(mpq_numref(pool[p].q[i]), mpq_numref(pool[p].q[i]), 64 * 4);
      mpz_tdiv_r_2exp(mpq_denref(pool[p].q[i]), mpq_denref(pool[p].q[i]), 64 * 4);
      if (mpz_sgn(mpq_denref(pool[p].q[i])) == 0) mpz_set_ui(mpq_denref(pool[p].q[i]), 1);
      mpq_canonicalize(pool[p].q[i]);
    }
  }
  for (int p = 0; p < 2; p++) {
    memset(&c[p], 0, sizeof c[p]);
    int zi = 0, qi = 0, fi = 0, ui = 0, si = 0, di = 0, bi = 0, ii = 0, ni = 0;
    for (int i = 0; i < np; i++) {
      char s = d->sig[i]; tok_t *tk = &a[1 + i]; long k = tok_long(tk);
      if (s == 'Z' || s == 'z') { if (k < 0 || k >= NZ) return -1; c[p].z[zi++] = pool[p].z[k]; if (p == 1) shrink_z(pool[p].z[k]); else if (s == 'Z') grow_z(pool[p].z[k], salt++); }
      else if (s == 'Q' || s == 'q') { if (k < 0 || k >= NQ) return -1; c[p].q[qi++] = pool[p].q[k]; if (p == 1) { shrink_z(mpq_numref(pool[p].q[k])); shrink_z(mpq_denref(pool[p].q[k])); } }
      else if (s == 'F' || s == 'f') { if (k < 0 || k >= NF) return -1; c[p].f[fi++] = pool[p].f[k]; }
      else if (s == 'u') c[p].u[ui++] = tok_ulong(tk);
      else if (s == 's') c[p].s[si++] = tok_long(tk);
      else if (s == 'd') c[p].d[di++] = tok_double(tk);
      else if (s == 'b') c[p].b[bi++] = tok_ulong(tk);
      else if (s == 'i') c[p].i[ii++] = tok_long(tk);
      else if (s == 'n') c[p].n[ni++] = tok_long(tk);
      else if (s == 'r') memcpy(c[p].rs, pool[p].r, sizeof(gmp_randstate_t));
    }
    exc[p] = GUARD(d->fn(&c[p]));
    for (int i = 0; i < np; i++) if (d->sig[i] == 'r') memcpy(pool[p].r, c[p].rs, sizeof(gmp_randstate_t));
  }
  if (exc[0] != exc[1]) { out_err(o, "history-dependent-exception"); return 0; }
  calls_since_reset++;
  if (exc[0]) { out_long(o, 0); return 0; }      /* same exception in both pools: a legal outcome */
  if (d->ret == 'd') { if (memcmp(&c[0].rd, &c[1].rd, 8)) out_err(o, "history-dependent-return"); }
  else if (c[0].ru != c[1].ru || c[0].rs_ != c[1].rs_) out_err(o, "history-dependent-return");
  /* all pool objects: well formed, and equal in both pools */
  for (int i = 0; i < NZ; i++) {
    if (!mpz_wf(pool[0].z[i]) || !mpz_wf(pool[1].z[i])) { out_err(o, "malformed"); out_long(o, i); }
    else if (!same_z(pool[0].z[i], pool[1].z[i])) { out_err(o, "history-dependent"); out_long(o, i); }
  }
  for (int i = 0; i < NQ; i++) {
    mpz_srcptr n0 = mpq_numref(pool[0].q[i]), n1 = mpq_numref(pool[1].q[i]), d0 = mpq_denref(pool[0].q[i]), d1 = mpq_denref(pool[1].q[i]);
    if (!mpz_wf(n0) || !mpz_wf(n1) || !mpz_wf(d0) || !mpz_wf(d1)) { out_err(o, "malformed-q"); out_long(o, i); }
    else if (!same_z(n0, n1) || !same_z(d0, d1)) { out_err(o, "history-dependent-q"); out_long(o, i); }
  }
  for (int i = 0; i < NF; i++) {
    if (!mpf_wf(pool[0].f[i]) || !mpf_wf(pool[1].f[i])) { out_err(o, "malformed-f"); out_long(o, i); }
    else if (!same_f(pool[0].f[i], pool[1].f[i])) { out_err(o, "history-dependent-f"); out_long(o, i); }
  }
  if (!o->len) out_long(o, 0);
  return 0;
}
/* @limbs k mode n [limbs] size : limb-level access.  mode 0 = mpz_limbs_write (n limbs), 1 = mpz_limbs_modify; the limbs are
   stored, then mpz_limbs_finish (z, size) with |size| <= n (high limbs may be zero: finish must normalise) */
static int op_limbs(int argc, tok_t *a, out_t *o) {
  if (argc != 5 || !pool[0].live) return -1;
  int k = tok_long(&a[0]); long mode = tok_long(&a[1]), n = tok_long(&a[2]), size = tok_long(&a[4]);
  long as = size < 0 ? -size : size;
  if (k < 0 || k >= NZ || n < 1 || n > 4000 || a[3].n != n || as > n) return -1;
  for (int p = 0; p < 2; p++) {
    mp_ptr lp = mode ? mpz_limbs_modify(pool[p].z[k], n) : mpz_limbs_write(pool[p].z[k], n);
    for (long i = 0; i < n; i++) lp[i] = a[3].d[i];
    mpz_limbs_finish(pool[p].z[k], size);
  }
  calls_since_reset++;
  if (!mpz_wf(pool[0].z[k]) || !mpz_wf(pool[1].z[k])) { out_err(o, "malformed"); return 0; }
  out_mpz(o, pool[1].z[k]);
  /* read back through the read-only accessors */
  { mpz_srcptr z = pool[1].z[k]; long zs = mpz_size(z); mp_srcptr rp = mpz_limbs_read(z);
    for (long i = 0; i < zs; i++) if (rp[i] != z->_mp_d[i]) out_err(o, "limbs_read"); }
  return 0;
}
/* @init_set kind dst src|value : clear dst, then mpz_init_set (kind 0, src slot), mpz_init_set_ui (1), mpz_init_set_si (2),
   mpf_init_set (3, src slot; uses the CURRENT default precision), mpf_init_set_ui (4), mpf_init_set_si (5) */
static int op_init_set(int argc, tok_t *a, out_t *o) {
  if (argc != 3 || !pool[0].live) return -1;
  long kind = tok_long(&a[0]); int d = tok_long(&a[1]); long s = tok_long(&a[2]);
  if (kind < 0 || kind > 5) return -1;
  if (kind <= 2 ? (d < 0 || d >= NZ) : (d < 0 || d >= NF)) return -1;
  if ((kind == 0 && (s < 0 || s >= NZ || s == d)) || (kind == 3 && (s < 0 || s >= NF || s == d))) return -1;
  for (int p = 0; p < 2; p++) {
    if (kind <= 2) mpz_clear(pool[p].z[d]); else mpf_clear(pool[p].f[d]);
    switch (kind) {
    case 0: mpz_init_set(pool[p].z[d], pool[p].z[s]); break;
    case 1: mpz_init_set_ui(pool[p].z[d], tok_ulong(&a[2])); break;
    case 2: mpz_init_set_si(pool[p].z[d], tok_long(&a[2])); break;
    case 3: mpf_init_set(pool[p].f[d], pool[p].f[s]); break;
    case 4: mpf_init_set_ui(pool[p].f[d], tok_ulong(&a[2])); break;
    case 5: mpf_init_set_si(pool[p].f[d], tok_long(&a[2])); break;
    }
  }
  calls_since_reset++;
  if (kind <= 2) { if (!mpz_wf(pool[0].z[d]) || !mpz_wf(pool[1].z[d]) || !same_z(pool[0].z[d], pool[1].z[d])) out_err(o, "malformed"); }
  else { if (!mpf_wf(pool[0].f[d]) || !mpf_wf(pool[1].f[d]) || !same_f(pool[0].f[d], pool[1].f[d])) out_err(o, "malformed-f"); }
  if (!o->len) out_long(o, 0);
  return 0;
}
/* @defprec bits : mpf_set_default_prec (documented shared state; restored by @reset) */
static int op_defprec(int argc, tok_t *a, out_t *o) {
  if (argc != 1) return -1;
  mpf_set_default_prec(tok_ulong(&a[0])); out_long(o, 0); return 0;
}
/* @getz k -> value (so that the model can follow values of the lifecycle ops) */
static int op_getz(int argc, tok_t *a, out_t *o) {
  if (argc != 1 || !pool[0].live) return -1; int k = tok_long(&a[0]); if (k < 0 || k >= NZ) return -1;
  out_mpz(o, pool[1].z[k]); return 0;
}

const opdef_t ops_api[] = {
  {"api_alias", op_api_alias}, {"api_alias2", op_api_alias2}, {"api_count", op_api_count},
  {"@reset", op_reset}, {"@done", op_done}, {"@setz", op_setz}, {"@setq", op_setq}, {"@setf", op_setf},
  {"@init2", op_init2}, {"@realloc2", op_realloc2}, {"@seed", op_seed}, {"@call", op_call}, {"@getz", op_getz}, {"@limbs", op_limbs}, {"@init_set", op_init_set}, {"@defprec", op_defprec},
  {0, 0}
};
