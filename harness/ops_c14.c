/* C14: ops for (a) the optional / internal mpn kernels that CPU directories ship in assembly (`k_*`: in the default
   build they call the portable C routine or the gmp-impl.h fallback macro, in a directory harness built by
   tools/asmkern.py the same source line calls that directory's kernel), and (b) value-level entry points whose
   algorithm choice is steered by the tuning thresholds (`c14_*`: re-run on libraries rebuilt with every shipped
   gmp-mparam.h and with WANT_ASSERT).  Kernels that exist only natively (no C version, no fallback macro) answer
   `!nokernel` in a build that does not have them; the generators never send those lines to such a build. */
#include "harness.h"
#include "gmp-impl.h"
#include "longlong.h"
#define NEED(c) do { if (!(c)) return -1; } while (0)
#define V(i) (a[i].kind == T_VEC)
#define N(i) (a[i].kind == T_NUM && !a[i].neg && a[i].n <= 1)
#define FIN(rp, n) do { if (!dst_ok(rp, n)) out_err(o, "oob"); dst_free(rp); } while (0)
static int nok(out_t *o) { out_err(o, "nokernel"); return 0; }

/* destination for a 2-source op: mode 0 separate, 1 rp==up, 2 rp==vp */
static mp_limb_t *dst3(long mode, long n, const mp_limb_t **up, const mp_limb_t **vp) {
  mp_limb_t *rp = dst_new(n);
  if (mode == 1) { memcpy(rp, *up, n * 8); *up = rp; }
  else if (mode == 2) { memcpy(rp, *vp, n * 8); *vp = rp; }
  return rp;
}
#define ARGS3 NEED(argc == 3 && N(0) && V(1) && V(2) && a[1].n == a[2].n && a[1].n >= 1 && tok_ulong(&a[0]) <= 2); \
  long n = a[1].n; const mp_limb_t *up = a[1].d, *vp = a[2].d; mp_limb_t *rp = dst3(tok_long(&a[0]), n, &up, &vp); mp_limb_t c
#define ARGS3S NEED(argc == 4 && N(0) && V(1) && V(2) && N(3) && a[1].n == a[2].n && a[1].n >= 1 && tok_ulong(&a[0]) <= 2 && tok_ulong(&a[3]) >= 1 && tok_ulong(&a[3]) <= 63); \
  long n = a[1].n; const mp_limb_t *up = a[1].d, *vp = a[2].d; mp_limb_t *rp = dst3(tok_long(&a[0]), n, &up, &vp); mp_limb_t c; unsigned sh = tok_ulong(&a[3])
#define RET3 out_vec(o, rp, n); out_ulong(o, c); FIN(rp, n); return 0

static int op_addlsh1_n(int argc, tok_t *a, out_t *o) {
#if HAVE_NATIVE_mpn_addlsh1_n
  ARGS3; c = mpn_addlsh1_n(rp, up, vp, n); RET3;
#else
  return nok(o);
#endif
}
static int op_sublsh1_n(int argc, tok_t *a, out_t *o) {
#if HAVE_NATIVE_mpn_sublsh1_n
  ARGS3; c = mpn_sublsh1_n(rp, up, vp, n); RET3;
#else
  return nok(o);
#endif
}
static int op_addlsh_n(int argc, tok_t *a, out_t *o) {
#if HAVE_NATIVE_mpn_addlsh_n
  ARGS3S; c = mpn_addlsh_n(rp, up, vp, n, sh); RET3;
#else
  return nok(o);
#endif
}
static int op_sublsh_n(int argc, tok_t *a, out_t *o) {
#if HAVE_NATIVE_mpn_sublsh_n
  ARGS3S; c = mpn_sublsh_n(rp, up, vp, n, sh); RET3;
#else
  return nok(o);
#endif
}
static int op_rsh1add_n(int argc, tok_t *a, out_t *o) {
#if HAVE_NATIVE_mpn_rsh1add_n
  ARGS3; c = mpn_rsh1add_n(rp, up, vp, n); RET3;
#else
  return nok(o);
#endif
}
static int op_rsh1sub_n(int argc, tok_t *a, out_t *o) {
#if HAVE_NATIVE_mpn_rsh1sub_n
  ARGS3; c = mpn_rsh1sub_n(rp, up, vp, n); RET3;
#else
  return nok(o);
#endif
}
/* carry-in variants: last token = carry in (0/1) */
static int op_add_nc(int argc, tok_t *a, out_t *o) {
#if HAVE_NATIVE_mpn_add_nc
  NEED(argc == 4 && N(3) && tok_ulong(&a[3]) <= 1); argc = 3; { ARGS3; c = mpn_add_nc(rp, up, vp, n, tok_ulong(&a[3])); RET3; }
#else
  return nok(o);
#endif
}
static int op_sub_nc(int argc, tok_t *a, out_t *o) {
#if HAVE_NATIVE_mpn_sub_nc
  NEED(argc == 4 && N(3) && tok_ulong(&a[3]) <= 1); argc = 3; { ARGS3; c = mpn_sub_nc(rp, up, vp, n, tok_ulong(&a[3])); RET3; }
#else
  return nok(o);
#endif
}

/* one-source shifts by a constant; mode 0 separate / 1 in place */
#define ARGS2 NEED(argc == 2 && N(0) && V(1) && a[1].n >= 1 && tok_ulong(&a[0]) <= 1); \
  long n = a[1].n; const mp_limb_t *up = a[1].d; mp_limb_t *rp = dst_new(n), c; if (tok_ulong(&a[0])) { memcpy(rp, up, n * 8); up = rp; }
static int op_lshift1(int argc, tok_t *a, out_t *o) { ARGS2; c = mpn_lshift1(rp, up, n); RET3; }
static int op_lshift2(int argc, tok_t *a, out_t *o) { ARGS2; c = mpn_lshift2(rp, up, n); RET3; }
static int op_rshift1(int argc, tok_t *a, out_t *o) { ARGS2; c = mpn_rshift1(rp, up, n); RET3; }
static int op_rshift2(int argc, tok_t *a, out_t *o) { ARGS2; c = mpn_rshift2(rp, up, n); RET3; }
static int op_lshiftc(int argc, tok_t *a, out_t *o) {
#if HAVE_NATIVE_mpn_lshiftc
  NEED(argc == 3 && N(2) && tok_ulong(&a[2]) >= 1 && tok_ulong(&a[2]) <= 63); argc = 2; { ARGS2; c = mpn_lshiftc(rp, up, n, tok_ulong(&a[2])); RET3; }
#else
  return nok(o);
#endif
}
#define ARGS1 NEED(argc == 1 && V(0) && a[0].n >= 1); long n = a[0].n; mp_limb_t *rp = dst_new(n); memcpy(rp, a[0].d, n * 8)
static int op_not(int argc, tok_t *a, out_t *o) { ARGS1; mpn_not(rp, n); out_vec(o, rp, n); FIN(rp, n); return 0; }
static int op_double(int argc, tok_t *a, out_t *o) { ARGS1; mp_limb_t c = mpn_double(rp, n); RET3; }
static int op_half(int argc, tok_t *a, out_t *o) { ARGS1; mp_limb_t c = mpn_half(rp, n); RET3; }
static int op_store(int argc, tok_t *a, out_t *o) {
  NEED(argc == 2 && N(0) && N(1)); long n = tok_long(&a[0]); NEED(n >= 1 && n < 100000);
  mp_limb_t *rp = dst_new(n); mp_limb_t v = tok_ulong(&a[1]); for (long i = 0; i < n; i++) rp[i] = ~v;
  mpn_store(rp, n, v); out_vec(o, rp, n); FIN(rp, n); return 0;
}
static int op_popcount(int argc, tok_t *a, out_t *o) { NEED(argc == 1 && V(0) && a[0].n >= 1); out_ulong(o, mpn_popcount(a[0].d, a[0].n)); return 0; }
static int op_hamdist(int argc, tok_t *a, out_t *o) { NEED(argc == 2 && V(0) && V(1) && a[0].n == a[1].n && a[0].n >= 1); out_ulong(o, mpn_hamdist(a[0].d, a[1].d, a[0].n)); return 0; }

/* three sources: mode 0 separate, 1 t==x, 2 t==y, 3 t==z */
#define ARGS4 NEED(argc == 4 && N(0) && V(1) && V(2) && V(3) && a[1].n == a[2].n && a[1].n == a[3].n && a[1].n >= 1 && tok_ulong(&a[0]) <= 3); \
  long n = a[1].n, mode = tok_long(&a[0]); const mp_limb_t *xp = a[1].d, *yp = a[2].d, *zp = a[3].d; mp_limb_t *tp = dst_new(n); \
  if (mode == 1) { memcpy(tp, xp, n * 8); xp = tp; } else if (mode == 2) { memcpy(tp, yp, n * 8); yp = tp; } else if (mode == 3) { memcpy(tp, zp, n * 8); zp = tp; }
static int op_addadd_n(int argc, tok_t *a, out_t *o) { ARGS4; mp_limb_t c = mpn_addadd_n(tp, xp, yp, zp, n); out_vec(o, tp, n); out_ulong(o, c); FIN(tp, n); return 0; }
static int op_addsub_n(int argc, tok_t *a, out_t *o) { ARGS4; int c = mpn_addsub_n(tp, xp, yp, zp, n); out_vec(o, tp, n); out_long(o, c); FIN(tp, n); return 0; }
static int op_subadd_n(int argc, tok_t *a, out_t *o) { ARGS4; mp_limb_t c = mpn_subadd_n(tp, xp, yp, zp, n); out_vec(o, tp, n); out_ulong(o, c); FIN(tp, n); return 0; }
/* sumdiff: mode 0 separate, 1 s==x, 2 s==y, 3 d==x, 4 d==y, 5 s==x&&d==y, 6 s==y&&d==x */
/* (two separate bodies on purpose: tools/asmkern.py attributes an op to the kernels its C function can reach) */
#define SUMDIFF_BODY(CALL) \
  NEED(argc == 3 && N(0) && V(1) && V(2) && a[1].n == a[2].n && a[1].n >= 1 && tok_ulong(&a[0]) <= 6); \
  long n = a[1].n, mode = tok_long(&a[0]); const mp_limb_t *xp = a[1].d, *yp = a[2].d; mp_limb_t *sp = dst_new(n), *dp = dst_new(n); \
  if (mode == 1 || mode == 5) { memcpy(sp, xp, n * 8); xp = sp; } \
  if (mode == 2 || mode == 6) { memcpy(sp, yp, n * 8); yp = sp; } \
  if (mode == 3 || mode == 6) { memcpy(dp, a[1].d, n * 8); xp = dp; } \
  if (mode == 4 || mode == 5) { memcpy(dp, a[2].d, n * 8); yp = dp; } \
  mp_limb_t c = CALL(sp, dp, xp, yp, n); \
  out_vec(o, sp, n); out_vec(o, dp, n); out_ulong(o, c); \
  if (!dst_ok(sp, n) || !dst_ok(dp, n)) out_err(o, "oob"); \
  dst_free(sp); dst_free(dp); return 0
static int op_sumdiff_n(int argc, tok_t *a, out_t *o) { SUMDIFF_BODY(mpn_sumdiff_n); }
static int op_nsumdiff_n(int argc, tok_t *a, out_t *o) { SUMDIFF_BODY(mpn_nsumdiff_n); }

/* {rp,n+1} = {up,n} * {vp,2}, returns limb n+2 */
static int op_mul_2(int argc, tok_t *a, out_t *o) {
#if HAVE_NATIVE_mpn_mul_2
  NEED(argc == 2 && V(0) && V(1) && a[0].n >= 1 && a[1].n == 2); long n = a[0].n; mp_limb_t *rp = dst_new(n + 1);
  mp_limb_t c = mpn_mul_2(rp, a[0].d, n, a[1].d); out_vec(o, rp, n + 1); out_ulong(o, c); FIN(rp, n + 1); return 0;
#else
  return nok(o);
#endif
}
/* {rp,n+1} = {rp,n} + {up,n} * {vp,2} (rp[n] is written, not read), returns limb n+2 */
static int op_addmul_2(int argc, tok_t *a, out_t *o) {
#if HAVE_NATIVE_mpn_addmul_2
  NEED(argc == 3 && V(0) && V(1) && V(2) && a[0].n >= 1 && a[0].n == a[1].n && a[2].n == 2); long n = a[0].n; mp_limb_t *rp = dst_new(n + 1);
  memcpy(rp, a[0].d, n * 8); rp[n] = 0x6b6b6b6b6b6b6b6bUL;
  mp_limb_t c = mpn_addmul_2(rp, a[1].d, n, a[2].d); out_vec(o, rp, n + 1); out_ulong(o, c); FIN(rp, n + 1); return 0;
#else
  return nok(o);
#endif
}
static int op_addmul_1c(int argc, tok_t *a, out_t *o) {
#if HAVE_NATIVE_mpn_addmul_1c
  NEED(argc == 4 && V(0) && V(1) && N(2) && N(3) && a[0].n == a[1].n && a[0].n >= 1); long n = a[0].n; mp_limb_t *rp = dst_new(n); memcpy(rp, a[0].d, n * 8);
  mp_limb_t c = mpn_addmul_1c(rp, a[1].d, n, tok_ulong(&a[2]), tok_ulong(&a[3])); RET3;
#else
  return nok(o);
#endif
}
static int op_submul_1c(int argc, tok_t *a, out_t *o) {
#if HAVE_NATIVE_mpn_submul_1c
  NEED(argc == 4 && V(0) && V(1) && N(2) && N(3) && a[0].n == a[1].n && a[0].n >= 1); long n = a[0].n; mp_limb_t *rp = dst_new(n); memcpy(rp, a[0].d, n * 8);
  mp_limb_t c = mpn_submul_1c(rp, a[1].d, n, tok_ulong(&a[2]), tok_ulong(&a[3])); RET3;
#else
  return nok(o);
#endif
}
static int op_sqr_basecase(int argc, tok_t *a, out_t *o) {
  NEED(argc == 1 && V(0) && a[0].n >= 1 && a[0].n <= 200); long n = a[0].n; mp_limb_t *rp = dst_new(2 * n);
  mpn_sqr_basecase(rp, a[0].d, n); out_vec(o, rp, 2 * n); FIN(rp, 2 * n); return 0;
}
/* low n limbs of the product; the routine may use rp[n..2n) as scratch (ASSERT (! MPN_OVERLAP_P (rp, 2*n, ...))) */
static int op_mullow_n_basecase(int argc, tok_t *a, out_t *o) {
  NEED(argc == 2 && V(0) && V(1) && a[0].n == a[1].n && a[0].n >= 1); long n = a[0].n; mp_limb_t *rp = dst_new(2 * n);
  mpn_mullow_n_basecase(rp, a[0].d, a[1].d, n); out_vec(o, rp, n); FIN(rp, 2 * n); return 0;
}
/* middle product: rp[0..un-vn+3) = sum over vn-1 <= i+j <= un-1 of up[i]*vp[j]*B^(i+j-vn+1) */
static int op_mulmid_basecase(int argc, tok_t *a, out_t *o) {
  NEED(argc == 2 && V(0) && V(1) && a[0].n >= a[1].n && a[1].n >= 1); long un = a[0].n, vn = a[1].n, rn = un - vn + 3; mp_limb_t *rp = dst_new(rn);
  mpn_mulmid_basecase(rp, a[0].d, un, a[1].d, vn); out_vec(o, rp, rn); FIN(rp, rn); return 0;
}
/* add/sub with error terms: mode 0 separate / 1 rp==up / 2 rp==vp */
typedef mp_limb_t (*err1_t)(mp_ptr, mp_srcptr, mp_srcptr, mp_ptr, mp_srcptr, mp_size_t, mp_limb_t);
static int do_err1(err1_t f, int argc, tok_t *a, out_t *o) {
  NEED(argc == 5 && N(0) && V(1) && V(2) && V(3) && N(4) && a[1].n == a[2].n && a[1].n == a[3].n && a[1].n >= 1 && tok_ulong(&a[0]) <= 2 && tok_ulong(&a[4]) <= 1);
  long n = a[1].n; const mp_limb_t *up = a[1].d, *vp = a[2].d; mp_limb_t *rp = dst3(tok_long(&a[0]), n, &up, &vp), *ep = dst_new(2);
  mp_limb_t c = f(rp, up, vp, ep, a[3].d, n, tok_ulong(&a[4]));
  out_vec(o, rp, n); out_vec(o, ep, 2); out_ulong(o, c); if (!dst_ok(rp, n) || !dst_ok(ep, 2)) out_err(o, "oob"); dst_free(rp); dst_free(ep); return 0;
}
typedef mp_limb_t (*err2_t)(mp_ptr, mp_srcptr, mp_srcptr, mp_ptr, mp_srcptr, mp_srcptr, mp_size_t, mp_limb_t);
static int do_err2(err2_t f, int argc, tok_t *a, out_t *o) {
  NEED(argc == 6 && N(0) && V(1) && V(2) && V(3) && V(4) && N(5) && a[1].n == a[2].n && a[1].n == a[3].n && a[1].n == a[4].n && a[1].n >= 1 && tok_ulong(&a[0]) <= 2 && tok_ulong(&a[5]) <= 1);
  long n = a[1].n; const mp_limb_t *up = a[1].d, *vp = a[2].d; mp_limb_t *rp = dst3(tok_long(&a[0]), n, &up, &vp), *ep = dst_new(4);
  mp_limb_t c = f(rp, up, vp, ep, a[3].d, a[4].d, n, tok_ulong(&a[5]));
  out_vec(o, rp, n); out_vec(o, ep, 4); out_ulong(o, c); if (!dst_ok(rp, n) || !dst_ok(ep, 4)) out_err(o, "oob"); dst_free(rp); dst_free(ep); return 0;
}
static int op_add_err1_n(int c, tok_t *a, out_t *o) { return do_err1(mpn_add_err1_n, c, a, o); }
static int op_sub_err1_n(int c, tok_t *a, out_t *o) { return do_err1(mpn_sub_err1_n, c, a, o); }
static int op_add_err2_n(int c, tok_t *a, out_t *o) { return do_err2(mpn_add_err2_n, c, a, o); }
static int op_sub_err2_n(int c, tok_t *a, out_t *o) { return do_err2(mpn_sub_err2_n, c, a, o); }
/* exact division by B-1 and by a factor f of B-1; mode 0 separate / 1 in place */
static int op_divexact_byff(int argc, tok_t *a, out_t *o) { ARGS2; c = mpn_divexact_byff(rp, up, n); RET3; }
static int op_divexact_byfobm1(int argc, tok_t *a, out_t *o) {
  NEED(argc == 3 && N(2)); mp_limb_t f = tok_ulong(&a[2]); NEED(f >= 1 && (~(mp_limb_t)0) % f == 0); argc = 2;
  { ARGS2; c = mpn_divexact_byfobm1(rp, up, n, f, (~(mp_limb_t)0) / f); RET3; }
}
/* Montgomery reduction: {tp,2n} -> tp / B^n mod m, m odd; the inverse limb is computed here as powm.c does */
static int op_redc_1(int argc, tok_t *a, out_t *o) {
  NEED(argc == 2 && V(0) && V(1) && a[1].n >= 1 && a[0].n == 2 * a[1].n && (a[1].d[0] & 1)); long n = a[1].n;
  mp_limb_t *tp = dst_new(2 * n), *rp = dst_new(n), inv; memcpy(tp, a[0].d, 2 * n * 8);
  modlimb_invert(inv, a[1].d[0]); mpn_redc_1(rp, tp, a[1].d, n, -inv);
  out_vec(o, rp, n); if (!dst_ok(rp, n) || !dst_ok(tp, 2 * n)) out_err(o, "oob"); dst_free(rp); dst_free(tp); return 0;
}
/* Karatsuba interpolation helpers: rp[0..2n) = L (2*n2 limbs) | H (2*n3 limbs), tp[0..2*n3) = M; rp += (L + H +- M) * B^n2.
   tp is scratch afterwards; 2 spare limbs are provided behind both buffers as the callers (mul_n.c) do via their workspace. */
#define KARA_ARGS NEED(argc == 2 && V(0) && V(1) && a[0].n >= 4 && a[0].n % 2 == 0); long n = a[0].n / 2, n3 = n - n / 2; NEED(a[1].n == 2 * n3); \
  mp_limb_t *rp = dst_new(2 * n), *tp = dst_new(2 * n3 + 2); memcpy(rp, a[0].d, 2 * n * 8); memcpy(tp, a[1].d, 2 * n3 * 8); tp[2 * n3] = tp[2 * n3 + 1] = 0
#define KARA_RET out_vec(o, rp, 2 * n); if (!dst_ok(rp, 2 * n) || !dst_ok(tp, 2 * n3 + 2)) out_err(o, "oob"); dst_free(rp); dst_free(tp); return 0
static int op_karaadd(int argc, tok_t *a, out_t *o) {
#if HAVE_NATIVE_mpn_karaadd
  KARA_ARGS; mpn_karaadd(rp, tp, n); KARA_RET;
#else
  return nok(o);
#endif
}
static int op_karasub(int argc, tok_t *a, out_t *o) {
#if HAVE_NATIVE_mpn_karasub
  KARA_ARGS; mpn_karasub(rp, tp, n); KARA_RET;
#else
  return nok(o);
#endif
}

/* mpn_mod_1_k (k = 1,2,3): {rem,2} = a two-limb value congruent to {xp,xn} mod d, from the table db[i] = B^(i+1) mod d that
   the wrappers in divrem_euclidean_r_1.c build.  Preconditions as there: xn >= k+2; d-1 <= B/2 (k=1), d <= B/3+1 (k=2), d <= B/4+1 (k=3). */
typedef void (*mod1k_t)(mp_ptr, mp_srcptr, mp_size_t, mp_srcptr);
static int do_mod_1_k(mod1k_t f, int k, int argc, tok_t *a, out_t *o) {
  NEED(argc == 2 && V(0) && N(1) && a[0].n >= k + 2); mp_limb_t d = tok_ulong(&a[1]), db[4], lim = k == 1 ? GMP_LIMB_HIGHBIT + 1 : k == 2 ? MP_LIMB_T_MAX / 3 + 1 : GMP_LIMB_HIGHBIT / 2 + 1;
  NEED(d >= 1 && d <= lim);
  unsigned __int128 p = 1; for (int i = 0; i < 4; i++) { p = (p << 64) % d; db[i] = (mp_limb_t) p; }
  mp_limb_t *rem = dst_new(2); f(rem, a[0].d, a[0].n, db); out_vec(o, rem, 2); FIN(rem, 2); return 0;
}
static int op_mod_1_1(int c, tok_t *a, out_t *o) { return do_mod_1_k(mpn_mod_1_1, 1, c, a, o); }
static int op_mod_1_2(int c, tok_t *a, out_t *o) { return do_mod_1_k(mpn_mod_1_2, 2, c, a, o); }
static int op_mod_1_3(int c, tok_t *a, out_t *o) { return do_mod_1_k(mpn_mod_1_3, 3, c, a, o); }
/* Hensel (2-adic) division by an odd limb: {xp,n} = {qp,n}*d - ret*B^n; mode 0 separate / 1 in place */
static int op_hensel_qr_1_1(int argc, tok_t *a, out_t *o) {
  NEED(argc == 3 && N(2) && (tok_ulong(&a[2]) & 1)); argc = 2; { ARGS2; c = mpn_divrem_hensel_qr_1_1(rp, up, n, tok_ulong(&a[2])); RET3; }
}
static int op_hensel_qr_1_2(int argc, tok_t *a, out_t *o) {
  NEED(argc == 3 && N(2) && (tok_ulong(&a[2]) & 1) && V(1) && a[1].n >= 2); argc = 2; { ARGS2; c = mpn_divrem_hensel_qr_1_2(rp, up, n, tok_ulong(&a[2])); RET3; }
}
static int op_hensel_r_1(int argc, tok_t *a, out_t *o) {
  NEED(argc == 2 && V(0) && N(1) && a[0].n >= 1 && (tok_ulong(&a[1]) & 1)); out_ulong(o, mpn_divrem_hensel_r_1(a[0].d, a[0].n, tok_ulong(&a[1]))); return 0;
}
/* the same with the quotient shifted right by s bits and a carry-in limb subtracted first: tokens mode [x] d s cin */
static int op_rsh_hensel_qr_1_1(int argc, tok_t *a, out_t *o) {
  NEED(argc == 5 && N(2) && N(3) && N(4) && (tok_ulong(&a[2]) & 1) && tok_ulong(&a[3]) <= 63); argc = 2;
  { ARGS2; c = mpn_rsh_divrem_hensel_qr_1_1(rp, up, n, tok_ulong(&a[2]), (int) tok_ulong(&a[3]), tok_ulong(&a[4])); RET3; }
}
static int op_rsh_hensel_qr_1_2(int argc, tok_t *a, out_t *o) {
  NEED(argc == 5 && N(2) && N(3) && N(4) && (tok_ulong(&a[2]) & 1) && tok_ulong(&a[3]) <= 63 && V(1) && a[1].n >= 2); argc = 2;
  { ARGS2; c = mpn_rsh_divrem_hensel_qr_1_2(rp, up, n, tok_ulong(&a[2]), (int) tok_ulong(&a[3]), tok_ulong(&a[4])); RET3; }
}
/* mpn_lshift3..6: shipped for k8 only, entry point is the plain symbol (not renamed by asm-defs.m4, not declared anywhere) */
#define LSHK(K) static int op_lshift##K(int argc, tok_t *a, out_t *o) { ARGS2; c = mpn_lshift##K(rp, up, n); RET3; }
#if HAVE_NATIVE_mpn_lshift3
mp_limb_t mpn_lshift3(mp_ptr, mp_srcptr, mp_size_t);
#else
#define mpn_lshift3(r, u, n) mpn_lshift(r, u, n, 3)
#endif
#if HAVE_NATIVE_mpn_lshift4
mp_limb_t mpn_lshift4(mp_ptr, mp_srcptr, mp_size_t);
#else
#define mpn_lshift4(r, u, n) mpn_lshift(r, u, n, 4)
#endif
#if HAVE_NATIVE_mpn_lshift5
mp_limb_t mpn_lshift5(mp_ptr, mp_srcptr, mp_size_t);
#else
#define mpn_lshift5(r, u, n) mpn_lshift(r, u, n, 5)
#endif
#if HAVE_NATIVE_mpn_lshift6
mp_limb_t mpn_lshift6(mp_ptr, mp_srcptr, mp_size_t);
#else
#define mpn_lshift6(r, u, n) mpn_lshift(r, u, n, 6)
#endif
LSHK(3) LSHK(4) LSHK(5) LSHK(6)

/* ---------------------------------------------------------------- value level (threshold-steered entry points) */
static int op_v_mul(int argc, tok_t *a, out_t *o) {
  NEED(argc == 2 && V(0) && V(1) && a[0].n >= a[1].n && a[1].n >= 1); long un = a[0].n, vn = a[1].n; mp_limb_t *rp = dst_new(un + vn);
  mp_limb_t c = mpn_mul(rp, a[0].d, un, a[1].d, vn); out_vec(o, rp, un + vn); out_ulong(o, c); FIN(rp, un + vn); return 0;
}
static int op_v_mul_n(int argc, tok_t *a, out_t *o) {
  NEED(argc == 2 && V(0) && V(1) && a[0].n == a[1].n && a[1].n >= 1); long n = a[0].n; mp_limb_t *rp = dst_new(2 * n);
  mpn_mul_n(rp, a[0].d, a[1].d, n); out_vec(o, rp, 2 * n); FIN(rp, 2 * n); return 0;
}
static int op_v_sqr(int argc, tok_t *a, out_t *o) {
  NEED(argc == 1 && V(0) && a[0].n >= 1); long n = a[0].n; mp_limb_t *rp = dst_new(2 * n);
  mpn_sqr(rp, a[0].d, n); out_vec(o, rp, 2 * n); FIN(rp, 2 * n); return 0;
}
static int op_v_mullow_n(int argc, tok_t *a, out_t *o) {
  NEED(argc == 2 && V(0) && V(1) && a[0].n == a[1].n && a[1].n >= 1); long n = a[0].n; mp_limb_t *rp = dst_new(2 * n);
  mpn_mullow_n(rp, a[0].d, a[1].d, n); out_vec(o, rp, n); FIN(rp, 2 * n); return 0;
}
static int op_v_tdiv_qr(int argc, tok_t *a, out_t *o) {
  NEED(argc == 2 && V(0) && V(1) && a[0].n >= a[1].n && a[1].n >= 1 && a[1].d[a[1].n - 1] != 0); long nn = a[0].n, dn = a[1].n;
  mp_limb_t *qp = dst_new(nn - dn + 1), *rp = dst_new(dn);
  mpn_tdiv_qr(qp, rp, 0, a[0].d, nn, a[1].d, dn); out_vec(o, qp, nn - dn + 1); out_vec(o, rp, dn);
  if (!dst_ok(qp, nn - dn + 1) || !dst_ok(rp, dn)) out_err(o, "oob"); dst_free(qp); dst_free(rp); return 0;
}
static int op_v_divrem_1(int argc, tok_t *a, out_t *o) {
  NEED(argc == 2 && V(0) && N(1) && a[0].n >= 1 && tok_ulong(&a[1]) != 0); long n = a[0].n; mp_limb_t *qp = dst_new(n);
  mp_limb_t r = mpn_divrem_1(qp, 0, a[0].d, n, tok_ulong(&a[1])); out_vec(o, qp, n); out_ulong(o, r); FIN(qp, n); return 0;
}
static int op_v_mod_1(int argc, tok_t *a, out_t *o) {
  NEED(argc == 2 && V(0) && N(1) && a[0].n >= 1 && tok_ulong(&a[1]) != 0); out_ulong(o, mpn_mod_1(a[0].d, a[0].n, tok_ulong(&a[1]))); return 0;
}
static int op_v_divexact_1(int argc, tok_t *a, out_t *o) {   /* dividend must be a multiple of the divisor */
  NEED(argc == 2 && V(0) && N(1) && a[0].n >= 1 && tok_ulong(&a[1]) != 0); long n = a[0].n; mp_limb_t *qp = dst_new(n);
  mpn_divexact_1(qp, a[0].d, n, tok_ulong(&a[1])); out_vec(o, qp, n); FIN(qp, n); return 0;
}
static int zz(int argc, tok_t *a, int k) { if (argc != k) return 0; for (int i = 0; i < k; i++) if (a[i].kind != T_NUM) return 0; return 1; }
static int op_v_gcd(int argc, tok_t *a, out_t *o) {
  NEED(zz(argc, a, 2)); mpz_t x, y, g; mpz_init(x); mpz_init(y); mpz_init2(g, 1); tok_mpz(x, &a[0]); tok_mpz(y, &a[1]);
  mpz_gcd(g, x, y); out_mpz(o, g); mpz_clear(x); mpz_clear(y); mpz_clear(g); return 0;
}
/* g and the Bezout identity: prints g and s*a + t*b (must equal g) */
static int op_v_gcdext(int argc, tok_t *a, out_t *o) {
  NEED(zz(argc, a, 2)); mpz_t x, y, g, s, t, w; mpz_init(x); mpz_init(y); mpz_init2(g, 1); mpz_init2(s, 1); mpz_init2(t, 1); mpz_init(w); tok_mpz(x, &a[0]); tok_mpz(y, &a[1]);
  mpz_gcdext(g, s, t, x, y); out_mpz(o, g); mpz_mul(w, s, x); mpz_addmul(w, t, y); out_mpz(o, w);
  mpz_clear(x); mpz_clear(y); mpz_clear(g); mpz_clear(s); mpz_clear(t); mpz_clear(w); return 0;
}
static int op_v_powm(int argc, tok_t *a, out_t *o) {
  NEED(zz(argc, a, 3) && !a[1].neg && a[2].n >= 1); mpz_t b, e, m, r; mpz_init(b); mpz_init(e); mpz_init(m); mpz_init2(r, 1); tok_mpz(b, &a[0]); tok_mpz(e, &a[1]); tok_mpz(m, &a[2]);
  int x = GUARD(mpz_powm(r, b, e, m)); if (x) out_exc(o, x); else out_mpz(o, r); mpz_clear(b); mpz_clear(e); mpz_clear(m); mpz_clear(r); return 0;
}
static int op_v_divexact(int argc, tok_t *a, out_t *o) {
  NEED(zz(argc, a, 2) && a[1].n >= 1); mpz_t x, y, q; mpz_init(x); mpz_init(y); mpz_init2(q, 1); tok_mpz(x, &a[0]); tok_mpz(y, &a[1]);
  mpz_divexact(q, x, y); out_mpz(o, q); mpz_clear(x); mpz_clear(y); mpz_clear(q); return 0;
}
static int op_v_get_str(int argc, tok_t *a, out_t *o) {
  NEED(argc == 2 && N(0) && a[1].kind == T_NUM); long base = tok_long(&a[0]); NEED(base >= 2 && base <= 62);
  mpz_t x; mpz_init(x); tok_mpz(x, &a[1]); size_t need = mpz_sizeinbase(x, base) + 2; char *s = malloc(need + 1);
  mpz_get_str(s, base, x); out_bytes(o, s, strlen(s)); free(s); mpz_clear(x); return 0;
}
static int op_v_set_str(int argc, tok_t *a, out_t *o) {
  NEED(argc == 2 && N(0) && a[1].kind == T_STR); long base = tok_long(&a[0]); NEED(base >= 2 && base <= 62);
  mpz_t x; mpz_init2(x, 1); int r = mpz_set_str(x, (char *) a[1].s, base); out_long(o, r); out_mpz(o, x); mpz_clear(x); return 0;
}
static int op_v_fac_ui(int argc, tok_t *a, out_t *o) {
  NEED(argc == 1 && N(0) && tok_ulong(&a[0]) <= 200000); mpz_t x; mpz_init2(x, 1); mpz_fac_ui(x, tok_ulong(&a[0])); out_mpz(o, x); mpz_clear(x); return 0;
}
static int op_v_invert(int argc, tok_t *a, out_t *o) {
  NEED(zz(argc, a, 2) && a[1].n >= 1); mpz_t x, y, r; mpz_init(x); mpz_init(y); mpz_init2(r, 1); tok_mpz(x, &a[0]); tok_mpz(y, &a[1]);
  int ok = mpz_invert(r, x, y); out_long(o, ok != 0); if (ok) out_mpz(o, r); mpz_clear(x); mpz_clear(y); mpz_clear(r); return 0;
}

const opdef_t ops_c14[] = {
  {"k_addlsh1_n", op_addlsh1_n}, {"k_sublsh1_n", op_sublsh1_n}, {"k_addlsh_n", op_addlsh_n}, {"k_sublsh_n", op_sublsh_n},
  {"k_rsh1add_n", op_rsh1add_n}, {"k_rsh1sub_n", op_rsh1sub_n}, {"k_add_nc", op_add_nc}, {"k_sub_nc", op_sub_nc},
  {"k_lshift1", op_lshift1}, {"k_lshift2", op_lshift2}, {"k_rshift1", op_rshift1}, {"k_rshift2", op_rshift2}, {"k_lshiftc", op_lshiftc},
  {"k_not", op_not}, {"k_double", op_double}, {"k_half", op_half}, {"k_store", op_store}, {"k_popcount", op_popcount}, {"k_hamdist", op_hamdist},
  {"k_addadd_n", op_addadd_n}, {"k_addsub_n", op_addsub_n}, {"k_subadd_n", op_subadd_n}, {"k_sumdiff_n", op_sumdiff_n}, {"k_nsumdiff_n", op_nsumdiff_n},
  {"k_mul_2", op_mul_2}, {"k_addmul_2", op_addmul_2}, {"k_addmul_1c", op_addmul_1c}, {"k_submul_1c", op_submul_1c},
  {"k_sqr_basecase", op_sqr_basecase}, {"k_mullow_n_basecase", op_mullow_n_basecase}, {"k_mulmid_basecase", op_mulmid_basecase},
  {"k_add_err1_n", op_add_err1_n}, {"k_sub_err1_n", op_sub_err1_n}, {"k_add_err2_n", op_add_err2_n}, {"k_sub_err2_n", op_sub_err2_n},
  {"k_divexact_byff", op_divexact_byff}, {"k_divexact_byfobm1", op_divexact_byfobm1}, {"k_redc_1", op_redc_1},
  {"k_karaadd", op_karaadd}, {"k_karasub", op_karasub},
  {"k_mod_1_1", op_mod_1_1}, {"k_mod_1_2", op_mod_1_2}, {"k_mod_1_3", op_mod_1_3},
  {"k_divrem_hensel_qr_1_1", op_hensel_qr_1_1}, {"k_divrem_hensel_qr_1_2", op_hensel_qr_1_2}, {"k_divrem_hensel_r_1", op_hensel_r_1},
  {"k_rsh_divrem_hensel_qr_1_1", op_rsh_hensel_qr_1_1}, {"k_rsh_divrem_hensel_qr_1_2", op_rsh_hensel_qr_1_2},
  {"k_lshift3", op_lshift3}, {"k_lshift4", op_lshift4}, {"k_lshift5", op_lshift5}, {"k_lshift6", op_lshift6},
  {"c14_mul", op_v_mul}, {"c14_mul_n", op_v_mul_n}, {"c14_sqr", op_v_sqr}, {"c14_mullow_n", op_v_mullow_n}, {"c14_tdiv_qr", op_v_tdiv_qr},
  {"c14_divrem_1", op_v_divrem_1}, {"c14_mod_1", op_v_mod_1}, {"c14_divexact_1", op_v_divexact_1},
  {"c14_gcd", op_v_gcd}, {"c14_gcdext", op_v_gcdext}, {"c14_powm", op_v_powm}, {"c14_divexact", op_v_divexact},
  {"c14_get_str", op_v_get_str}, {"c14_set_str", op_v_set_str}, {"c14_fac_ui", op_v_fac_ui}, {"c14_invert", op_v_invert},
  {0, 0}
};
