/* Float layout of formatted output (property C18, part c18_flayout).

     gmp_snprintf_Fspec size s<fmt> [star...] precbits exp nsize [limbs]   -> ret sBYTES
         gmp_snprintf (buf, size, fmt, [int star arguments,] f) with one %F conversion; the Lean side answers from the
         C99-style specification function specF applied to the digits of its bit-exact mpf_get_str model.
     doprnt_mpf_direct base conv exphex expupper exptimes4 fill justify prec showbase showpoint showtrailing sign width
                       precbits exp nsize [limbs]                           -> ret sBYTES
         __gmp_doprnt_mpf (= __gmp_doprnt_mpf2, printf/doprntf.c) called directly with this struct doprnt_params_t and the
         sprintf callbacks; fill and sign are character codes (sign 0 = none).                                     */
#include <stdarg.h>
#include <stdio.h>
#include <stdlib.h>
#include <string.h>
#include "harness.h"
#include "gmp-impl.h"

#define NEED(c) do { if (!(c)) return -1; } while (0)
#define FBIG 16384

/* mpf from tokens precbits exp nsize [limbs]; returns 0 on success */
static int tok_mpf(mpf_t f, tok_t *a) {
  if (!(a[0].kind == T_NUM && a[1].kind == T_NUM && a[2].kind == T_NUM && a[3].kind == T_VEC)) return -1;
  mpf_init2(f, tok_ulong(&a[0]));
  long sz = tok_long(&a[2]), n = sz < 0 ? -sz : sz;
  if (n != a[3].n || n > f->_mp_prec + 1 || (n > 0 && a[3].d[n - 1] == 0)) { mpf_clear(f); return -1; }
  for (long i = 0; i < n; i++) f->_mp_d[i] = a[3].d[i];
  f->_mp_size = (int)sz; f->_mp_exp = n ? tok_long(&a[1]) : 0;
  return 0;
}

static int op_sn_Fspec(int argc, tok_t *a, out_t *o) {
  NEED(argc >= 6 && argc <= 8 && a[0].kind == T_NUM && !a[0].neg && a[0].n <= 1 && a[1].kind == T_STR);
  size_t size = tok_ulong(&a[0]); NEED(size <= FBIG);
  const char *fmt = (char *)a[1].s; int ns = 0;
  for (const char *p = fmt; *p; p++) if (*p == '*') ns++;
  NEED(ns == argc - 6);
  for (int j = 0; j < ns; j++) NEED(a[2 + j].kind == T_NUM);
  mpf_t f; NEED(tok_mpf(f, a + 2 + ns) == 0);
  unsigned char *raw = malloc(size + 64); memset(raw, 0xA7, size + 64);
  char *buf = (char *)raw + 32; int ret;
  int s0 = ns > 0 ? (int)(a[2].neg ? -(long)(a[2].n ? a[2].d[0] : 0) : (long)(a[2].n ? a[2].d[0] : 0)) : 0;
  int s1 = ns > 1 ? (int)(a[3].neg ? -(long)(a[3].n ? a[3].d[0] : 0) : (long)(a[3].n ? a[3].d[0] : 0)) : 0;
  if (ns == 0) ret = gmp_snprintf(buf, size, fmt, f);
  else if (ns == 1) ret = gmp_snprintf(buf, size, fmt, s0, f);
  else ret = gmp_snprintf(buf, size, fmt, s0, s1, f);
  out_long(o, ret);
  if (size == 0) out_bytes(o, "", 0);
  else {
    char *e = memchr(buf, 0, size);
    if (e) out_bytes(o, buf, e - buf); else { out_bytes(o, buf, size); out_err(o, "nonul"); }
  }
  int ok = 1;
  for (int i = 0; i < 32; i++) if (raw[i] != 0xA7 || raw[32 + size + i] != 0xA7) ok = 0;
  if (!ok) out_err(o, "oob");
  free(raw); mpf_clear(f); return 0;
}

static int op_doprnt_mpf_direct(int argc, tok_t *a, out_t *o) {
  NEED(argc == 17);
  for (int i = 0; i < 13; i++) NEED(a[i].kind == T_NUM);
  struct doprnt_params_t p;
  p.base = (int)tok_long(&a[0]); p.conv = (int)tok_long(&a[1]);
  int hex = (int)tok_long(&a[2]), up = (int)tok_long(&a[3]);
  p.expfmt = hex ? (up ? "P%c%ld" : "p%c%ld") : (up ? "E%c%02ld" : "e%c%02ld");
  p.exptimes4 = (int)tok_long(&a[4]); p.fill = (char)tok_long(&a[5]); p.justify = (int)tok_long(&a[6]);
  p.prec = (int)tok_long(&a[7]); p.showbase = (int)tok_long(&a[8]); p.showpoint = (int)tok_long(&a[9]);
  p.showtrailing = (int)tok_long(&a[10]); p.sign = (char)tok_long(&a[11]); p.width = (int)tok_long(&a[12]);
  NEED(p.conv >= 1 && p.conv <= 3 && p.justify >= 0 && p.justify <= 3 && p.showbase >= 1 && p.showbase <= 3);
  NEED(p.base >= -36 && p.base <= 36 && (p.base >= 2 || p.base <= -2) && p.width >= 0 && p.width < 4000 && p.prec >= -1 && p.prec < 4000);
  mpf_t f; NEED(tok_mpf(f, a + 13) == 0);
  NEED(f->_mp_exp > -150 && f->_mp_exp < 150);
  char *buf = malloc(FBIG + 64); memset(buf, 0, FBIG + 64);
  char *bp = buf;
  int ret = __gmp_doprnt_mpf(&__gmp_sprintf_funs, &bp, &p, ".", f);
  out_long(o, ret); out_bytes(o, buf, bp - buf);
  free(buf); mpf_clear(f); return 0;
}

const opdef_t ops_flayout[] = {
  {"gmp_snprintf_Fspec", op_sn_Fspec}, {"doprnt_mpf_direct", op_doprnt_mpf_direct},
  {0, 0}
};
