/* C08, limb level: mpn_redc_n with arbitrary inverse argument, mpn_powm against the memory model,
   and the footprint of mpn_powm in its scratch area. */
#include "harness.h"
#include "gmp-impl.h"
#define NEED(c) do { if (!(c)) return -1; } while (0)
static int isvec(const tok_t *t) { return t->kind == T_VEC; }

/* mpn_redc_n_l [u: 2n limbs] [m: n limbs] [ip: n limbs], n > 8; ip need not be the inverse */
static int op_redc_n_l(int argc, tok_t *a, out_t *o) {
  NEED(argc == 3 && isvec(&a[0]) && isvec(&a[1]) && isvec(&a[2]));
  long n = a[1].n; NEED(n > 8 && a[0].n == 2 * n && a[2].n == n);
  mp_limb_t *rp = dst_new(n), *up = dst_new(2 * n);
  memcpy(up, a[0].d, 16 * n);
  mpn_redc_n(rp, up, a[1].d, n, a[2].d);
  out_vec(o, rp, n);
  if (!dst_ok(up, 2 * n) || memcmp(up, a[0].d, 16 * n)) out_err(o, "oob");   /* redc_n does not write up */
  dst_free(up);
  if (!dst_ok(rp, n)) out_err(o, "oob");
  dst_free(rp); return 0;
}

static int powm_pre(tok_t *a) {
  long bn = a[0].n, en = a[1].n, n = a[2].n;
  if (!(n >= 1 && (a[2].d[0] & 1) && a[2].d[n - 1] != 0 && bn >= 1 && en >= 1 && a[1].d[en - 1] != 0)) return 0;
  if (!(en > 1 || a[1].d[0] > 1)) return 0;
  return 1;
}

/* mpn_powm_m [b] [e] [m]: scratch of exactly MAX (mpn_binvert_itch (n), 2n) limbs (powm.c:157) between guards */
static int op_powm_m(int argc, tok_t *a, out_t *o) {
  NEED(argc == 3 && isvec(&a[0]) && isvec(&a[1]) && isvec(&a[2]) && a[2].n >= 1 && a[1].n >= 1 && powm_pre(a));
  long n = a[2].n;
  long itch = mpn_binvert_itch(n); if (itch < 2 * n) itch = 2 * n;
  mp_limb_t *rp = dst_new(n), *tp = dst_new(itch);
  mpn_powm(rp, a[0].d, a[0].n, a[1].d, a[1].n, a[2].d, n, tp);
  out_vec(o, rp, n);
  if (!dst_ok(tp, itch) || !dst_ok(rp, n)) out_err(o, "oob");
  dst_free(tp); dst_free(rp); return 0;
}

/* mpn_powm_fp [b] [e] [m]: prints the result and the footprint = 1 + highest index of the scratch area
   whose limb changed (the area is pre-filled with an index-dependent pattern and is 64 limbs longer than
   documented, so that an overrun is measured, not suffered). */
#define FPAT(i) (0x9e3779b97f4a7c15UL * (mp_limb_t)((i) + 1) ^ 0xa5a5a5a5a5a5a5a5UL)
static int op_powm_fp(int argc, tok_t *a, out_t *o) {
  NEED(argc == 3 && isvec(&a[0]) && isvec(&a[1]) && isvec(&a[2]) && a[2].n >= 1 && a[1].n >= 1 && powm_pre(a));
  long n = a[2].n;
  long itch = mpn_binvert_itch(n); if (itch < 2 * n) itch = 2 * n;
  long big = itch + 64;
  mp_limb_t *rp = dst_new(n), *tp = dst_new(big);
  for (long i = 0; i < big; i++) tp[i] = FPAT(i);
  mpn_powm(rp, a[0].d, a[0].n, a[1].d, a[1].n, a[2].d, n, tp);
  long fp = 0;
  for (long i = big - 1; i >= 0; i--) if (tp[i] != FPAT(i)) { fp = i + 1; break; }
  out_vec(o, rp, n);
  out_long(o, fp);
  if (!dst_ok(tp, big) || !dst_ok(rp, n)) out_err(o, "oob");
  dst_free(tp); dst_free(rp); return 0;
}

/* mpn_powlo_m [b] [e] n: b has at least n limbs; scratch of exactly 3n limbs between guards (powlo.c:84) */
static int op_powlo_m(int argc, tok_t *a, out_t *o) {
  NEED(argc == 3 && isvec(&a[0]) && isvec(&a[1]) && a[2].kind == T_NUM && !a[2].neg);
  long n = tok_long(&a[2]), en = a[1].n;
  NEED(n >= 1 && a[0].n >= n && en >= 1 && a[1].d[en - 1] != 0 && (en > 1 || a[1].d[0] > 1));
  mp_limb_t *rp = dst_new(n), *tp = dst_new(3 * n);
  mpn_powlo(rp, a[0].d, a[1].d, en, n, tp);
  out_vec(o, rp, n);
  if (!dst_ok(tp, 3 * n) || !dst_ok(rp, n)) out_err(o, "oob");
  dst_free(tp); dst_free(rp); return 0;
}

const opdef_t ops_powmlimb[] = {
  {"mpn_redc_n_l", op_redc_n_l}, {"mpn_powm_m", op_powm_m},
  /* the same calls answered by the model with the real mpn_mulmod_bnm1 inside (Mpir/Model/PowmReal.lean) */
  {"mpn_redc_n_r", op_redc_n_l}, {"mpn_powm_r", op_powm_m}, {"mpn_powm_fp", op_powm_fp}, {"mpn_powlo_m", op_powlo_m},
  {0, 0}
};
