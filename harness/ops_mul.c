/* Multiplication entry points and algorithm layer (property C01): mpn_mul, mpn_mul_n, mpn_sqr and every
   internal algorithm exported by libmpir.a (Karatsuba, Toom-3/3.2/4.2/4/5.3/8.5, FFT drivers with implicit
   and explicit (depth, w), mulmod 2^b-1 / 2^b+1, low/high/middle products).  Each op checks the callee's
   own size preconditions (cited) and answers ?args outside them; destinations are guard-limbed and sized
   exactly as documented; scratch sizes are the library's own macros. */
#include "harness.h"
#include "gmp-impl.h"
#define NEED(c) do { if (!(c)) return -1; } while (0)
#define FIN(rp, n) do { if (!dst_ok(rp, n)) out_err(o, "oob"); dst_free(rp); } while (0)
#define VEC2(a) (argc == 2 && (a)[0].kind == T_VEC && (a)[1].kind == T_VEC)
#define VEC1(a) (argc == 1 && (a)[0].kind == T_VEC)

static mp_limb_t *scratch(long n) { mp_limb_t *p = dst_new(n); return p; }

/* mpn_mul [u] [v]: un >= vn >= 1 (mul.c:59-60) -> product (un+vn limbs), returned limb */
static int op_mul(int argc, tok_t *a, out_t *o) {
  NEED(VEC2(a) && a[0].n >= a[1].n && a[1].n >= 1);
  long n = a[0].n + a[1].n; mp_limb_t *rp = dst_new(n);
  mp_limb_t r = mpn_mul(rp, a[0].d, a[0].n, a[1].d, a[1].n);
  out_vec(o, rp, n); out_ulong(o, r); FIN(rp, n); return 0;
}
/* mpn_mul_same [u]: up == vp (the squaring detection of mul.c:66) */
static int op_mul_same(int argc, tok_t *a, out_t *o) {
  NEED(VEC1(a) && a[0].n >= 1);
  long n = 2 * a[0].n; mp_limb_t *rp = dst_new(n);
  mp_limb_t r = mpn_mul(rp, a[0].d, a[0].n, a[0].d, a[0].n);
  out_vec(o, rp, n); out_ulong(o, r); FIN(rp, n); return 0;
}
/* mpn_mul_ov [u] k: vp = up + k inside the same object, vn = un - k (overlapping *sources* are permitted) */
static int op_mul_ov(int argc, tok_t *a, out_t *o) {
  NEED(argc == 2 && a[0].kind == T_VEC && a[1].kind == T_NUM && a[0].n >= 1);
  long k = tok_long(&a[1]); NEED(k >= 0 && k < a[0].n);
  long un = a[0].n, vn = un - k, n = un + vn; mp_limb_t *rp = dst_new(n);
  mp_limb_t r = mpn_mul(rp, a[0].d, un, a[0].d + k, vn);
  out_vec(o, rp, n); out_ulong(o, r); FIN(rp, n); return 0;
}
static int op_mul_n(int argc, tok_t *a, out_t *o) {
  NEED(VEC2(a) && a[0].n == a[1].n && a[0].n >= 1);
  long n = 2 * a[0].n; mp_limb_t *rp = dst_new(n);
  mpn_mul_n(rp, a[0].d, a[1].d, a[0].n);
  out_vec(o, rp, n); FIN(rp, n); return 0;
}
static int op_mul_n_same(int argc, tok_t *a, out_t *o) {
  NEED(VEC1(a) && a[0].n >= 1);
  long n = 2 * a[0].n; mp_limb_t *rp = dst_new(n);
  mpn_mul_n(rp, a[0].d, a[0].d, a[0].n);
  out_vec(o, rp, n); FIN(rp, n); return 0;
}
static int op_sqr(int argc, tok_t *a, out_t *o) {
  NEED(VEC1(a) && a[0].n >= 1);
  long n = 2 * a[0].n; mp_limb_t *rp = dst_new(n);
  mpn_sqr(rp, a[0].d, a[0].n);
  out_vec(o, rp, n); FIN(rp, n); return 0;
}

/* balanced algorithms with caller-supplied scratch */
typedef void (*fn_ws_t)(mp_ptr, mp_srcptr, mp_srcptr, mp_size_t, mp_ptr);
static int do_n_ws(fn_ws_t f, long minn, long ws_n, int argc, tok_t *a, out_t *o) {
  NEED(VEC2(a) && a[0].n == a[1].n && a[0].n >= minn);
  long n = 2 * a[0].n; mp_limb_t *rp = dst_new(n), *ws = scratch(ws_n);
  f(rp, a[0].d, a[1].d, a[0].n, ws);
  out_vec(o, rp, n); if (!dst_ok(ws, ws_n)) out_err(o, "oob"); dst_free(ws); FIN(rp, n); return 0;
}
/* mpn_kara_mul_n: n >= MPN_KARA_MUL_N_MINSIZE; scratch MPN_KARA_MUL_N_TSIZE(n) (gmp-impl.h) */
static int op_kara_mul_n(int argc, tok_t *a, out_t *o) {
  NEED(argc >= 1 && a[0].kind == T_VEC);
  return do_n_ws(mpn_kara_mul_n, MPN_KARA_MUL_N_MINSIZE, MPN_KARA_MUL_N_TSIZE(a[0].n), argc, a, o);
}
/* mpn_toom3_mul_n: ASSERT(n >= 17) (toom3_mul_n.c:92); scratch MPN_TOOM3_MUL_N_TSIZE(n) */
static int op_toom3_mul_n(int argc, tok_t *a, out_t *o) {
  NEED(argc >= 1 && a[0].kind == T_VEC);
  return do_n_ws(mpn_toom3_mul_n, MPN_TOOM3_MUL_N_MINSIZE, MPN_TOOM3_MUL_N_TSIZE(a[0].n), argc, a, o);
}
typedef void (*fn_sq_ws_t)(mp_ptr, mp_srcptr, mp_size_t, mp_ptr);
static int do_sq_ws(fn_sq_ws_t f, long minn, long ws_n, int argc, tok_t *a, out_t *o) {
  NEED(VEC1(a) && a[0].n >= minn);
  long n = 2 * a[0].n; mp_limb_t *rp = dst_new(n), *ws = scratch(ws_n);
  f(rp, a[0].d, a[0].n, ws);
  out_vec(o, rp, n); if (!dst_ok(ws, ws_n)) out_err(o, "oob"); dst_free(ws); FIN(rp, n); return 0;
}
static int op_kara_sqr_n(int argc, tok_t *a, out_t *o) {
  NEED(argc >= 1 && a[0].kind == T_VEC);
  return do_sq_ws(mpn_kara_sqr_n, MPN_KARA_SQR_N_MINSIZE, MPN_KARA_SQR_N_TSIZE(a[0].n), argc, a, o);
}
static int op_toom3_sqr_n(int argc, tok_t *a, out_t *o) {
  NEED(argc >= 1 && a[0].kind == T_VEC);
  return do_sq_ws(mpn_toom3_sqr_n, MPN_TOOM3_SQR_N_MINSIZE, MPN_TOOM3_SQR_N_TSIZE(a[0].n), argc, a, o);
}
/* balanced algorithms allocating their own scratch */
typedef void (*fn_n_t)(mp_ptr, mp_srcptr, mp_srcptr, mp_size_t);
static int do_n(fn_n_t f, long minn, int argc, tok_t *a, out_t *o) {
  NEED(VEC2(a) && a[0].n == a[1].n && a[0].n >= minn);
  long n = 2 * a[0].n; mp_limb_t *rp = dst_new(n);
  f(rp, a[0].d, a[1].d, a[0].n);
  out_vec(o, rp, n); FIN(rp, n); return 0;
}
typedef void (*fn_sq_t)(mp_ptr, mp_srcptr, mp_size_t);
static int do_sq(fn_sq_t f, long minn, int argc, tok_t *a, out_t *o) {
  NEED(VEC1(a) && a[0].n >= minn);
  long n = 2 * a[0].n; mp_limb_t *rp = dst_new(n);
  f(rp, a[0].d, a[0].n);
  out_vec(o, rp, n); FIN(rp, n); return 0;
}
static int op_toom4_mul_n(int c, tok_t *a, out_t *o) { return do_n(mpn_toom4_mul_n, MPN_TOOM4_MUL_N_MINSIZE, c, a, o); }
static int op_toom4_sqr_n(int c, tok_t *a, out_t *o) { return do_sq(mpn_toom4_sqr_n, MPN_TOOM4_SQR_N_MINSIZE, c, a, o); }
/* mpn_toom8_sqr_n: ASSERT(an >= 40) (toom8_sqr_n.c); documented minimum MPN_TOOM8_SQR_N_MINSIZE */
static int op_toom8_sqr_n(int c, tok_t *a, out_t *o) { return do_sq(mpn_toom8_sqr_n, MPN_TOOM8_SQR_N_MINSIZE, c, a, o); }

/* unbalanced algorithms */
typedef void (*fn_u_ws_t)(mp_ptr, mp_srcptr, mp_size_t, mp_srcptr, mp_size_t, mp_ptr);
static int do_u_ws(fn_u_ws_t f, int argc, tok_t *a, out_t *o) {
  long an = a[0].n, bn = a[1].n, n = an + bn, ws_n = MPN_TOOM3_MUL_TSIZE(an);   /* what mul.c:188-203 allocates */
  mp_limb_t *rp = dst_new(n), *ws = scratch(ws_n);
  f(rp, a[0].d, an, a[1].d, bn, ws);
  out_vec(o, rp, n); if (!dst_ok(ws, ws_n)) out_err(o, "oob"); dst_free(ws); FIN(rp, n); return 0;
}
/* mpn_toom3_mul: ASSERT(bn > 2*k); ASSERT(an >= 20), k = ceil(an/3) (toom3_mul.c:255-257); an >= bn */
static int op_toom3_mul(int argc, tok_t *a, out_t *o) {
  NEED(VEC2(a)); long an = a[0].n, bn = a[1].n, k = (an + 2) / 3;
  NEED(an >= 20 && an >= bn && bn > 2 * k); return do_u_ws(mpn_toom3_mul, argc, a, o);
}
/* mpn_toom42_mul: ASSERT(bn > k); ASSERT(bn <= 2*k); ASSERT(an >= 20), k = ceil(an/4) (toom3_mul.c:428-431) */
static int op_toom42_mul(int argc, tok_t *a, out_t *o) {
  NEED(VEC2(a)); long an = a[0].n, bn = a[1].n, k = (an + 3) / 4;
  NEED(an >= 20 && bn > k && bn <= 2 * k); return do_u_ws(mpn_toom42_mul, argc, a, o);
}
/* mpn_toom32_mul: ASSERT(bn > k); ASSERT(an >= 20), k = ceil(an/3) (toom3_mul.c:629-631); bn <= 2k (b1 has bn-k <= k limbs) */
static int op_toom32_mul(int argc, tok_t *a, out_t *o) {
  NEED(VEC2(a)); long an = a[0].n, bn = a[1].n, k = (an + 2) / 3;
  NEED(an >= 20 && bn > k && bn <= 2 * k); return do_u_ws(mpn_toom32_mul, argc, a, o);
}
typedef void (*fn_u_t)(mp_ptr, mp_srcptr, mp_size_t, mp_srcptr, mp_size_t);
static int do_u(fn_u_t f, int argc, tok_t *a, out_t *o) {
  long n = a[0].n + a[1].n; mp_limb_t *rp = dst_new(n);
  f(rp, a[0].d, a[0].n, a[1].d, a[1].n);
  out_vec(o, rp, n); FIN(rp, n); return 0;
}
/* mpn_toom4_mul: ASSERT (vn > 3*sn), sn = ceil(un/4) (toom4_mul.c:138-143); un >= vn */
static int op_toom4_mul(int argc, tok_t *a, out_t *o) {
  NEED(VEC2(a)); long un = a[0].n, vn = a[1].n, sn = (un + 3) / 4;
  NEED(un >= MPN_TOOM4_MUL_N_MINSIZE && un >= vn && vn > 3 * sn); return do_u(mpn_toom4_mul, argc, a, o);
}
/* mpn_toom53_mul: ASSERT (vn > 2*sn), sn = ceil(un/5) (toom4_mul.c:324-326); vn <= 3*sn; a4 non-empty */
static int op_toom53_mul(int argc, tok_t *a, out_t *o) {
  NEED(VEC2(a)); long un = a[0].n, vn = a[1].n, sn = (un + 4) / 5;
  NEED(un >= MPN_TOOM4_MUL_N_MINSIZE && vn > 2 * sn && vn <= 3 * sn && un > 4 * sn); return do_u(mpn_toom53_mul, argc, a, o);
}
/* mpn_toom8h_mul: ASSERT (an >= bn); ASSERT (bn >= 86); ASSERT (an*4 <= bn*13) (toom8h_mul.c) */
static int op_toom8h_mul(int argc, tok_t *a, out_t *o) {
  NEED(VEC2(a)); long an = a[0].n, bn = a[1].n;
  NEED(an >= bn && bn >= MPN_TOOM8H_MUL_MINSIZE && an * 4 <= bn * 13); return do_u(mpn_toom8h_mul, argc, a, o);
}
/* mpn_mul_fft_main: ASSERT(n1 > 0); ASSERT(n2 > 0); ASSERT(j1 + j2 - 1 > 2*n) at the initial depth 6, w 1
   (mul_fft_main.c:40-53): operands of at least ~57 limbs in total */
static int fft_main_domain(long n1, long n2) {
  long depth = 6, w = 1, n = 1L << depth, bits = (n * w - (depth + 1)) / 2;
  long j1 = (n1 * GMP_LIMB_BITS - 1) / bits + 1, j2 = (n2 * GMP_LIMB_BITS - 1) / bits + 1;
  return n1 >= 1 && n2 >= 1 && j1 + j2 - 1 > 2 * n;
}
static int op_mul_fft_main(int argc, tok_t *a, out_t *o) {
  NEED(VEC2(a) && fft_main_domain(a[0].n, a[1].n)); return do_u(mpn_mul_fft_main, argc, a, o);
}
static int op_mul_fft_main_same(int argc, tok_t *a, out_t *o) {
  NEED(VEC1(a) && fft_main_domain(a[0].n, a[0].n));
  long n = 2 * a[0].n; mp_limb_t *rp = dst_new(n);
  mpn_mul_fft_main(rp, a[0].d, a[0].n, a[0].d, a[0].n);
  out_vec(o, rp, n); FIN(rp, n); return 0;
}
/* explicit transform parameters: <op> same depth w [u] [v].  Requirements read off mul_trunc_sqrt2.c /
   mul_mfa_trunc_sqrt2.c: limbs = n*w/GMP_LIMB_BITS exact, bits1 >= 1, j1 + j2 - 1 <= 4n (ii[] has 4n entries). */
typedef void (*fn_fft_t)(mp_ptr, mp_srcptr, mp_size_t, mp_srcptr, mp_size_t, mp_bitcnt_t, mp_bitcnt_t);
static int do_fft(fn_fft_t f, int mfa, int argc, tok_t *a, out_t *o) {
  NEED(argc == 5 && a[0].kind == T_NUM && a[1].kind == T_NUM && a[2].kind == T_NUM && a[3].kind == T_VEC && a[4].kind == T_VEC);
  long same = tok_long(&a[0]), depth = tok_long(&a[1]), w = tok_long(&a[2]), n1 = a[3].n, n2 = a[4].n;
  NEED(depth >= (mfa ? 2 : 1) && depth <= 24 && w >= 1 && w < (1L << 20) && n1 >= 1 && n2 >= 1 && (same == 0 || same == 1));
  long n = 1L << depth; NEED((n * w) % GMP_LIMB_BITS == 0 && n * w > depth + 1);
  long bits1 = (n * w - (depth + 1)) / 2; NEED(bits1 >= 1);
  long j1 = (n1 * GMP_LIMB_BITS - 1) / bits1 + 1, j2 = (n2 * GMP_LIMB_BITS - 1) / bits1 + 1;
  NEED(j1 + j2 - 1 <= 4 * n);
  if (same) NEED(n1 == n2);
  long rn = n1 + n2; mp_limb_t *rp = dst_new(rn);
  f(rp, a[3].d, n1, same ? a[3].d : a[4].d, n2, depth, w);
  out_vec(o, rp, rn); FIN(rp, rn); return 0;
}
static int op_mul_trunc_sqrt2(int c, tok_t *a, out_t *o) { return do_fft(mpn_mul_trunc_sqrt2, 0, c, a, o); }
static int op_mul_mfa_trunc_sqrt2(int c, tok_t *a, out_t *o) { return do_fft(mpn_mul_mfa_trunc_sqrt2, 1, c, a, o); }

/* mpn_mulmod_2expm1 b [y] [z]: x = y*z mod 2^b-1, n = ceil(b/64) limbs, inputs below 2^b (mulmod_2expm1.c:44-54);
   scratch 5(n + lg b) limbs (comment above the function); yp, zp are temporarily modified, so copies are passed.
   The result is "not fully reduced" (0 may come back as 2^b-1): a predicate op. */
static int op_mulmod_2expm1(int argc, tok_t *a, out_t *o) {
  NEED(argc == 3 && a[0].kind == T_NUM && a[1].kind == T_VEC && a[2].kind == T_VEC);
  unsigned long b = tok_ulong(&a[0]); NEED(b >= 1 && b < (1UL << 30));
  long n = (b + 63) / 64, k = 64 * n - b; NEED(a[1].n == n && a[2].n == n);
  NEED(k == 0 || (a[1].d[n - 1] >> (64 - k) == 0 && a[2].d[n - 1] >> (64 - k) == 0));
  long tn = 5 * (n + 64); mp_limb_t *xp = dst_new(n), *yp = dst_new(n), *zp = dst_new(n), *tp = scratch(tn);
  memcpy(yp, a[1].d, n * 8); memcpy(zp, a[2].d, n * 8);
  mpn_mulmod_2expm1(xp, yp, zp, b, tp);
  out_vec(o, xp, n);
  if (memcmp(yp, a[1].d, n * 8) || memcmp(zp, a[2].d, n * 8)) out_err(o, "inputmod");
  if (!dst_ok(tp, tn) || !dst_ok(yp, n) || !dst_ok(zp, n)) out_err(o, "oob");
  dst_free(tp); dst_free(yp); dst_free(zp); FIN(xp, n); return 0;
}
/* mpn_mulmod_2expp1 c b [y] [z]: ret*2^b + x = y*z mod 2^b+1, fully reduced; c&2 / c&1 = the 2^b bit of y / z
   (then the limbs are zero); scratch 2n (mulmod_2expp1_basecase.c:30-36) */
static int op_mulmod_2expp1(int argc, tok_t *a, out_t *o) {
  NEED(argc == 4 && a[0].kind == T_NUM && a[1].kind == T_NUM && a[2].kind == T_VEC && a[3].kind == T_VEC);
  long c = tok_long(&a[0]); unsigned long b = tok_ulong(&a[1]); NEED(c >= 0 && c <= 3 && b >= 1 && b < (1UL << 30));
  long n = (b + 63) / 64, k = 64 * n - b; NEED(a[2].n == n && a[3].n == n);
  NEED(k == 0 || (a[2].d[n - 1] >> (64 - k) == 0 && a[3].d[n - 1] >> (64 - k) == 0));
  if (c & 2) for (long i = 0; i < n; i++) NEED(a[2].d[i] == 0);
  if (c & 1) for (long i = 0; i < n; i++) NEED(a[3].d[i] == 0);
  long tn = 2 * n; mp_limb_t *xp = dst_new(n), *tp = scratch(tn);
  int r = mpn_mulmod_2expp1_basecase(xp, a[2].d, a[3].d, (int)c, b, tp);
  out_vec(o, xp, n); out_long(o, r);
  if (!dst_ok(tp, tn)) out_err(o, "oob");
  dst_free(tp); FIN(xp, n); return 0;
}
/* mpn_mullow_n: low n limbs of the product; the function "sets 2n limbs" (mullow_n.c) */
static int op_mullow_n(int argc, tok_t *a, out_t *o) {
  NEED(VEC2(a) && a[0].n == a[1].n && a[0].n >= 1);
  long n = a[0].n; mp_limb_t *rp = dst_new(2 * n);
  mpn_mullow_n(rp, a[0].d, a[1].d, n);
  out_vec(o, rp, n); FIN(rp, 2 * n); return 0;
}
/* mpn_mulhigh_n: high n limbs rp[n..2n) of the product are exact (mulhigh_n.c "Theorem") */
static int op_mulhigh_n(int argc, tok_t *a, out_t *o) {
  NEED(VEC2(a) && a[0].n == a[1].n && a[0].n >= 1);
  long n = a[0].n; mp_limb_t *rp = dst_new(2 * n);
  mpn_mulhigh_n(rp, a[0].d, a[1].d, n);
  out_vec(o, rp + n, n); FIN(rp, 2 * n); return 0;
}
/* mpn_mulmid_n [a: 2n-1 limbs] [b: n limbs] -> n+2 limbs (mulmid_n.c) */
static int op_mulmid_n(int argc, tok_t *a, out_t *o) {
  NEED(VEC2(a) && a[1].n >= 1 && a[0].n == 2 * a[1].n - 1);
  long n = a[1].n; mp_limb_t *rp = dst_new(n + 2);
  mpn_mulmid_n(rp, a[0].d, a[1].d, n);
  out_vec(o, rp, n + 2); FIN(rp, n + 2); return 0;
}
/* mpn_mulmid [a: an] [b: bn], an >= bn >= 1 -> an-bn+3 limbs (mulmid.c) */
static int op_mulmid(int argc, tok_t *a, out_t *o) {
  NEED(VEC2(a) && a[1].n >= 1 && a[0].n >= a[1].n);
  long rn = a[0].n - a[1].n + 3; mp_limb_t *rp = dst_new(rn);
  mpn_mulmid(rp, a[0].d, a[0].n, a[1].d, a[1].n);
  out_vec(o, rp, rn); FIN(rp, rn); return 0;
}

const opdef_t ops_mul[] = {
  {"mpn_mul", op_mul}, {"mpn_mul_same", op_mul_same}, {"mpn_mul_ov", op_mul_ov},
  {"mpn_mul_n", op_mul_n}, {"mpn_mul_n_same", op_mul_n_same}, {"mpn_sqr", op_sqr},
  {"mpn_kara_mul_n", op_kara_mul_n}, {"mpn_kara_sqr_n", op_kara_sqr_n},
  {"mpn_toom3_mul_n", op_toom3_mul_n}, {"mpn_toom3_sqr_n", op_toom3_sqr_n},
  {"mpn_toom3_mul", op_toom3_mul}, {"mpn_toom42_mul", op_toom42_mul}, {"mpn_toom32_mul", op_toom32_mul},
  {"mpn_toom4_mul_n", op_toom4_mul_n}, {"mpn_toom4_sqr_n", op_toom4_sqr_n}, {"mpn_toom4_mul", op_toom4_mul},
  {"mpn_toom53_mul", op_toom53_mul}, {"mpn_toom8h_mul", op_toom8h_mul}, {"mpn_toom8_sqr_n", op_toom8_sqr_n},
  {"mpn_mul_fft_main", op_mul_fft_main}, {"mpn_mul_fft_main_same", op_mul_fft_main_same},
  {"mpn_mul_trunc_sqrt2", op_mul_trunc_sqrt2}, {"mpn_mul_mfa_trunc_sqrt2", op_mul_mfa_trunc_sqrt2},
  {"mpn_mulmod_2expm1", op_mulmod_2expm1}, {"mpn_mulmod_2expp1", op_mulmod_2expp1},
  {"mpn_mullow_n", op_mullow_n}, {"mpn_mulhigh_n", op_mulhigh_n}, {"mpn_mulmid_n", op_mulmid_n}, {"mpn_mulmid", op_mulmid},
  {0, 0}
};
