/* mpf <-> string: property C13 (mpf_set_str accuracy / exactness / format rules, mpf_get_str digit count and
   "within one unit of the last requested digit").
   An mpf operand is the token group `prec size exp [limbs]` as in ops_mpf.c.

   mpf_set_str13 rprec base s<string>
       destination with _mp_prec = rprec (>= 2), exactly rprec+1 limbs, PRE-SET to the value {5,7} exp -3 (size 2)
       so that "destination untouched on error" is observable;  ->  ret size exp [limbs]
   mpf_get_str13 base ndigits A
       mpf_get_str (NULL, &e, base, ndigits, A): the block must have exactly strlen+1 bytes (ledger size, and it is
       released with that size);  if ndigits > 0 the call is repeated with a caller buffer of exactly ndigits+2
       bytes between canaries (`!oob` when damaged, `!differ` when the two calls disagree)  ->  s<string> exp
   mpf_str_roundtrip13 base A
       s = mpf_get_str (NULL, &e, base, 0, A); t = [-]0.<digits>@<e in decimal>; mpf_set_str (r, t, -|base|) with
       r of A.prec+2 limbs precision  ->  s<t> ret size exp [limbs]
   Every op is registered twice (`name` compared with the bit-exact model, `name?` judged by the predicate). */
#include "harness.h"
#include "gmp-impl.h"
#define NEED(c) do { if (!(c)) return -1; } while (0)

typedef struct { mpf_t f; mp_size_t real_prec; } sv_t;

static void sv_new(sv_t *x, long prec, long n) {
  long p0 = prec; if (n - 1 > p0) p0 = n - 1; if (p0 < 2) p0 = 2;
  mpf_init2(x->f, (mp_bitcnt_t)64 * (p0 - 1));       /* __GMPF_BITS_TO_PREC(64*(p0-1)) == p0 for p0 >= 2 */
  x->real_prec = x->f->_mp_prec;
  x->f->_mp_prec = prec;
  for (long i = 0; i <= x->real_prec; i++) x->f->_mp_d[i] = 0xDEADBEEFCAFEF00DUL;   /* stale data */
}
static void sv_free(sv_t *x) { x->f->_mp_prec = x->real_prec; mpf_clear(x->f); }
static int is_opnd(const tok_t *a) {
  if (!(a[0].kind == T_NUM && a[1].kind == T_NUM && a[2].kind == T_NUM && a[3].kind == T_VEC)) return 0;
  long s = tok_long(&a[1]); if (s < 0) s = -s;
  return a[1].n <= 1 && a[2].n <= 1 && s == a[3].n && !a[0].neg && a[0].n <= 1 && tok_ulong(&a[0]) >= 2
         && (a[3].n == 0 || a[3].d[a[3].n - 1] != 0) && (a[3].n != 0 || tok_long(&a[2]) == 0);
}
static void sv_opnd(sv_t *x, const tok_t *a) {
  long n = a[3].n;
  sv_new(x, (long)tok_ulong(&a[0]), n);
  for (long i = 0; i < n; i++) x->f->_mp_d[i] = a[3].d[i];
  x->f->_mp_size = (int)tok_long(&a[1]);
  x->f->_mp_exp = tok_long(&a[2]);
}
static int base_ok_get(long b) { return (b >= 2 && b <= 62) || (b <= -2 && b >= -36); }

/* ---------------- mpf_set_str ---------------- */
static int op_set_str(int argc, tok_t *a, out_t *o) {
  NEED(argc == 3 && a[0].kind == T_NUM && a[1].kind == T_NUM && a[1].n <= 1 && a[2].kind == T_STR);
  long rprec = tok_long(&a[0]), base = tok_long(&a[1]);
  NEED(rprec >= 2 && rprec <= 4096 && base >= -1000 && base <= 1000);
  sv_t r; sv_new(&r, rprec, 0);
  r.f->_mp_d[0] = 5; r.f->_mp_d[1] = 7; r.f->_mp_size = 2; r.f->_mp_exp = -3;
  char *s = malloc(a[2].slen + 1);                    /* exact size: an over-read is visible to ASan */
  memcpy(s, a[2].s, a[2].slen); s[a[2].slen] = 0;
  int ret = 0, e = GUARD(ret = mpf_set_str(r.f, s, (int)base));
  if (e) out_exc(o, e); else { out_long(o, ret); out_mpf(o, r.f); }
  free(s); sv_free(&r); return 0;
}

/* ---------------- mpf_get_str ---------------- */
#define CAN 16
static void release_block(char *p, size_t len, out_t *o) {
  void (*fr)(void *, size_t);
  size_t sz = h_block_size(p);
  if (sz != len + 1) {
    char t[96]; snprintf(t, sizeof t, "alloc:getstr-block:%zu:%zu", sz, len + 1); out_err(o, t);
  }
  mp_get_memory_functions(NULL, NULL, &fr);
  fr(p, len + 1);                                     /* the recording allocator checks this size too */
}
static int op_get_str(int argc, tok_t *a, out_t *o) {
  NEED(argc == 6 && a[0].kind == T_NUM && a[0].n <= 1 && a[1].kind == T_NUM && !a[1].neg && a[1].n <= 1 && is_opnd(a + 2));
  long base = tok_long(&a[0]); unsigned long nd = tok_ulong(&a[1]);
  NEED(base_ok_get(base) && nd <= 1000000);
  sv_t u; sv_opnd(&u, a + 2);
  mp_exp_t e1 = 0x5a5a5a5a, e2 = 0x5a5a5a5a;
  char *p = mpf_get_str(NULL, &e1, (int)base, nd, u.f);
  if (!p) { out_err(o, "null"); sv_free(&u); return 0; }
  size_t len = strlen(p);
  out_bytes(o, p, len); out_long(o, e1);
  if (nd > 0) {
    unsigned char *raw = malloc(nd + 2 + 2 * CAN);
    memset(raw, 0xC3, nd + 2 + 2 * CAN);
    char *q = mpf_get_str((char *)raw + CAN, &e2, (int)base, nd, u.f);
    int oob = 0;
    for (int i = 0; i < CAN; i++) if (raw[i] != 0xC3 || raw[CAN + nd + 2 + i] != 0xC3) oob = 1;
    if (oob) out_err(o, "oob");
    else if (q != (char *)raw + CAN || e2 != e1 || memchr(q, 0, nd + 2) == NULL || strcmp(q, p) != 0) out_err(o, "differ");
    free(raw);
  }
  release_block(p, len, o);
  sv_free(&u); return 0;
}

/* ---------------- get_str -> set_str ---------------- */
static int op_roundtrip(int argc, tok_t *a, out_t *o) {
  NEED(argc == 5 && a[0].kind == T_NUM && a[0].n <= 1 && is_opnd(a + 1));
  long base = tok_long(&a[0]); NEED(base_ok_get(base));
  long ab = base < 0 ? -base : base;
  sv_t u; sv_opnd(&u, a + 1);
  mp_exp_t e = 0;
  char *p = mpf_get_str(NULL, &e, (int)base, 0, u.f);
  if (!p) { out_err(o, "null"); sv_free(&u); return 0; }
  size_t len = strlen(p);
  char *t = malloc(len + 40), *w = t;                 /* [-]0.<digits>@<decimal exponent> */
  const char *dg = p;
  if (*dg == '-') { *w++ = '-'; dg++; }
  *w++ = '0'; *w++ = '.';
  if (*dg == 0) *w++ = '0';
  while (*dg) *w++ = *dg++;
  *w++ = '@';
  { unsigned long m = e < 0 ? 0UL - (unsigned long)e : (unsigned long)e; char d[24]; int k = 0;
    if (e < 0) *w++ = '-';
    do { d[k++] = (char)('0' + m % 10); m /= 10; } while (m);
    while (k) *w++ = d[--k]; }
  *w = 0;
  release_block(p, len, o);
  char *t2 = malloc(strlen(t) + 1); strcpy(t2, t);    /* exact size */
  sv_t r; sv_new(&r, u.f->_mp_prec + 2, 0);
  r.f->_mp_d[0] = 5; r.f->_mp_d[1] = 7; r.f->_mp_size = 2; r.f->_mp_exp = -3;
  int ret = 0, ex = GUARD(ret = mpf_set_str(r.f, t2, (int)-ab));
  out_bytes(o, t2, strlen(t2));
  if (ex) out_exc(o, ex); else { out_long(o, ret); out_mpf(o, r.f); }
  free(t); free(t2); sv_free(&r); sv_free(&u); return 0;
}

#define BOTH(n, f) {n, f}, {n "?", f}
const opdef_t ops_mpfstr[] = {
  BOTH("mpf_set_str13", op_set_str), BOTH("mpf_get_str13", op_get_str), BOTH("mpf_str_roundtrip13", op_roundtrip),
  {0, 0}
};
