/* mpf layer: property C13 (accuracy to the destination precision, exactness, format rules).
   An mpf operand is the token group `prec size exp [limbs]` (|size| == number of limbs; the operand
   may have more than prec+1 limbs: that is the state mpf_set_prec_raw leaves behind).
   Binary ops:  op rprec mode A B      mode 0: r,u,v distinct   1: r==u   2: r==v   3: u==v   4: r==u==v
   Unary ops:   op rprec mode A [arg]  mode 0: distinct         1: r==u
   rprec = destination precision in limbs (the _mp_prec field); the destination is allocated with
   exactly rprec+1 limbs (red-zoned by the recording allocator) unless it is also an operand.
   Every op is registered twice: `name` (answer compared bit for bit with the model) and `name?`
   (the driver evaluates the property's own predicate on the answer).  Same C function. */
#include "harness.h"
#include "gmp-impl.h"
#define NEED(c) do { if (!(c)) return -1; } while (0)

typedef struct { mpf_t f; mp_size_t real_prec; } fv_t;

/* variable with `prec` in the _mp_prec field and room for max(prec+1, n) limbs */
static void fv_new(fv_t *x, long prec, long n) {
  long p0 = prec; if (n - 1 > p0) p0 = n - 1; if (p0 < 2) p0 = 2;
  mpf_init2(x->f, (mp_bitcnt_t)64 * (p0 - 1));       /* __GMPF_BITS_TO_PREC(64*(p0-1)) == p0 for p0 >= 2 */
  x->real_prec = x->f->_mp_prec;
  x->f->_mp_prec = prec;
  for (long i = 0; i <= x->real_prec; i++) x->f->_mp_d[i] = 0xDEADBEEFCAFEF00DUL;   /* stale data */
}
static void fv_free(fv_t *x) { x->f->_mp_prec = x->real_prec; mpf_clear(x->f); }
static int is_opnd(const tok_t *a) {
  if (!(a[0].kind == T_NUM && a[1].kind == T_NUM && a[2].kind == T_NUM && a[3].kind == T_VEC)) return 0;
  long s = tok_long(&a[1]); if (s < 0) s = -s;
  return a[1].n <= 1 && a[2].n <= 1 && s == a[3].n && !a[0].neg && a[0].n <= 1;
}
/* build the operand; if rprec >= 0 the variable doubles as destination with that precision */
static void fv_opnd(fv_t *x, const tok_t *a, long rprec) {
  long n = a[3].n;
  fv_new(x, rprec >= 0 ? rprec : (long)tok_ulong(&a[0]), n);
  for (long i = 0; i < n; i++) x->f->_mp_d[i] = a[3].d[i];
  x->f->_mp_size = (int)tok_long(&a[1]);
  x->f->_mp_exp = tok_long(&a[2]);
}
/* MPIR's __gmp_exception ignores its error_bit argument (gmp_errno stays 0), so the kind of exception is
   not observable through gmp_errno; the SIGFPE raised inside a division op is reported as `!div0`, inside
   a square root as `!sqrtneg`, anything else through the shared out_exc (`!fpe`). */
static const char *exc_kind;
static void emit(out_t *o, int e, mpf_srcptr r) {
  if (!e) { out_mpf(o, r); return; }
  if (exc_kind && !(e & ~(GMP_ERROR_UNSUPPORTED_ARGUMENT | GMP_ERROR_DIVISION_BY_ZERO | GMP_ERROR_SQRT_OF_NEGATIVE))) out_err(o, exc_kind);
  else out_exc(o, e);
}

/* ---------------- binary mpf x mpf ---------------- */
typedef void (*fbin_t)(mpf_ptr, mpf_srcptr, mpf_srcptr);
static int do_bin(fbin_t f, int argc, tok_t *a, out_t *o) {
  NEED(argc == 10 && a[0].kind == T_NUM && a[1].kind == T_NUM && is_opnd(a + 2) && is_opnd(a + 6));
  long rprec = tok_long(&a[0]), mode = tok_long(&a[1]); NEED(rprec >= 2 && mode >= 0 && mode <= 4);
  fv_t r, u, v; int e;
  switch (mode) {
  case 0: fv_new(&r, rprec, 0); fv_opnd(&u, a + 2, -1); fv_opnd(&v, a + 6, -1);
          e = GUARD(f(r.f, u.f, v.f)); emit(o, e, r.f); fv_free(&r); fv_free(&u); fv_free(&v); break;
  case 1: fv_opnd(&u, a + 2, rprec); fv_opnd(&v, a + 6, -1);
          e = GUARD(f(u.f, u.f, v.f)); emit(o, e, u.f); fv_free(&u); fv_free(&v); break;
  case 2: fv_opnd(&u, a + 2, -1); fv_opnd(&v, a + 6, rprec);
          e = GUARD(f(v.f, u.f, v.f)); emit(o, e, v.f); fv_free(&u); fv_free(&v); break;
  case 3: fv_new(&r, rprec, 0); fv_opnd(&u, a + 2, -1);
          e = GUARD(f(r.f, u.f, u.f)); emit(o, e, r.f); fv_free(&r); fv_free(&u); break;
  default: fv_opnd(&u, a + 2, rprec);
          e = GUARD(f(u.f, u.f, u.f)); emit(o, e, u.f); fv_free(&u); break;
  }
  return 0;
}
static int op_add(int c, tok_t *a, out_t *o) { exc_kind = 0; return do_bin(mpf_add, c, a, o); }
static int op_sub(int c, tok_t *a, out_t *o) { exc_kind = 0; return do_bin(mpf_sub, c, a, o); }
static int op_mul(int c, tok_t *a, out_t *o) { exc_kind = 0; return do_bin(mpf_mul, c, a, o); }
static int op_div(int c, tok_t *a, out_t *o) { exc_kind = "div0"; return do_bin(mpf_div, c, a, o); }

/* ---------------- unary mpf -> mpf ---------------- */
typedef void (*fun_t)(mpf_ptr, mpf_srcptr);
static int do_un(fun_t f, int argc, tok_t *a, out_t *o) {
  NEED(argc == 6 && a[0].kind == T_NUM && a[1].kind == T_NUM && is_opnd(a + 2));
  long rprec = tok_long(&a[0]), mode = tok_long(&a[1]); NEED(rprec >= 2 && mode >= 0 && mode <= 1);
  fv_t r, u; int e;
  if (mode == 0) { fv_new(&r, rprec, 0); fv_opnd(&u, a + 2, -1); e = GUARD(f(r.f, u.f)); emit(o, e, r.f); fv_free(&r); fv_free(&u); }
  else { fv_opnd(&u, a + 2, rprec); e = GUARD(f(u.f, u.f)); emit(o, e, u.f); fv_free(&u); }
  return 0;
}
static int op_sqrt(int c, tok_t *a, out_t *o) { exc_kind = "sqrtneg"; return do_un(mpf_sqrt, c, a, o); }
static int op_neg(int c, tok_t *a, out_t *o) { exc_kind = 0; return do_un(mpf_neg, c, a, o); }
static int op_abs(int c, tok_t *a, out_t *o) { exc_kind = 0; return do_un(mpf_abs, c, a, o); }
static int op_floor(int c, tok_t *a, out_t *o) { exc_kind = 0; return do_un(mpf_floor, c, a, o); }
static int op_ceil(int c, tok_t *a, out_t *o) { exc_kind = 0; return do_un(mpf_ceil, c, a, o); }
static int op_trunc(int c, tok_t *a, out_t *o) { exc_kind = 0; return do_un(mpf_trunc, c, a, o); }
static int op_set(int c, tok_t *a, out_t *o) { exc_kind = 0; return do_un(mpf_set, c, a, o); }

/* ---------------- mpf x ui -> mpf (ui is the last token; `rev` = ui is the first C operand) ---------------- */
typedef void (*fui_t)(mpf_ptr, mpf_srcptr, mpir_ui);
typedef void (*fuir_t)(mpf_ptr, mpir_ui, mpf_srcptr);
typedef void (*f2e_t)(mpf_ptr, mpf_srcptr, mp_bitcnt_t);
static int do_ui(fui_t f, fuir_t fr, int argc, tok_t *a, out_t *o) {
  NEED(argc == 7 && a[0].kind == T_NUM && a[1].kind == T_NUM && is_opnd(a + 2) && a[6].kind == T_NUM && !a[6].neg && a[6].n <= 1);
  long rprec = tok_long(&a[0]), mode = tok_long(&a[1]); NEED(rprec >= 2 && mode >= 0 && mode <= 1);
  mpir_ui w = tok_ulong(&a[6]);
  fv_t r, u; int e;
  if (mode == 0) {
    fv_new(&r, rprec, 0); fv_opnd(&u, a + 2, -1);
    e = f ? GUARD(f(r.f, u.f, w)) : GUARD(fr(r.f, w, u.f));
    emit(o, e, r.f); fv_free(&r); fv_free(&u);
  } else {
    fv_opnd(&u, a + 2, rprec);
    e = f ? GUARD(f(u.f, u.f, w)) : GUARD(fr(u.f, w, u.f));
    emit(o, e, u.f); fv_free(&u);
  }
  return 0;
}
static int op_add_ui(int c, tok_t *a, out_t *o) { exc_kind = 0; return do_ui(mpf_add_ui, 0, c, a, o); }
static int op_sub_ui(int c, tok_t *a, out_t *o) { exc_kind = 0; return do_ui(mpf_sub_ui, 0, c, a, o); }
static int op_mul_ui(int c, tok_t *a, out_t *o) { exc_kind = 0; return do_ui(mpf_mul_ui, 0, c, a, o); }
static int op_div_ui(int c, tok_t *a, out_t *o) { exc_kind = "div0"; return do_ui(mpf_div_ui, 0, c, a, o); }
static int op_ui_sub(int c, tok_t *a, out_t *o) { exc_kind = 0; return do_ui(0, mpf_ui_sub, c, a, o); }
static int op_ui_div(int c, tok_t *a, out_t *o) { exc_kind = "div0"; return do_ui(0, mpf_ui_div, c, a, o); }
static int op_mul_2exp(int c, tok_t *a, out_t *o) { exc_kind = 0; return do_ui((fui_t)mpf_mul_2exp, 0, c, a, o); }
static int op_div_2exp(int c, tok_t *a, out_t *o) { exc_kind = 0; return do_ui((fui_t)mpf_div_2exp, 0, c, a, o); }

/* ---------------- constructors: op rprec value ---------------- */
static int op_sqrt_ui(int argc, tok_t *a, out_t *o) {
  NEED(argc == 2 && a[0].kind == T_NUM && a[1].kind == T_NUM && !a[1].neg && a[1].n <= 1);
  long rprec = tok_long(&a[0]); NEED(rprec >= 2);
  exc_kind = 0; fv_t r; fv_new(&r, rprec, 0); int e = GUARD(mpf_sqrt_ui(r.f, tok_ulong(&a[1]))); emit(o, e, r.f); fv_free(&r); return 0;
}
static int op_set_ui(int argc, tok_t *a, out_t *o) {
  NEED(argc == 2 && a[0].kind == T_NUM && a[1].kind == T_NUM && !a[1].neg && a[1].n <= 1);
  long rprec = tok_long(&a[0]); NEED(rprec >= 2);
  fv_t r; fv_new(&r, rprec, 0); mpf_set_ui(r.f, tok_ulong(&a[1])); out_mpf(o, r.f); fv_free(&r); return 0;
}
static int op_set_si(int argc, tok_t *a, out_t *o) {
  NEED(argc == 2 && a[0].kind == T_NUM && a[1].kind == T_NUM && a[1].n <= 1);
  long rprec = tok_long(&a[0]); NEED(rprec >= 2);
  mp_limb_t m = tok_ulong(&a[1]); NEED(m <= (a[1].neg ? 0x8000000000000000UL : 0x7fffffffffffffffUL));
  mpir_si v = a[1].neg ? (mpir_si)(0UL - m) : (mpir_si)m;
  fv_t r; fv_new(&r, rprec, 0); mpf_set_si(r.f, v); out_mpf(o, r.f); fv_free(&r); return 0;
}
static int op_set_z(int argc, tok_t *a, out_t *o) {
  NEED(argc == 2 && a[0].kind == T_NUM && a[1].kind == T_NUM);
  long rprec = tok_long(&a[0]); NEED(rprec >= 2);
  mpz_t z; mpz_init(z); tok_mpz(z, &a[1]);
  fv_t r; fv_new(&r, rprec, 0); mpf_set_z(r.f, z); out_mpf(o, r.f); fv_free(&r); mpz_clear(z); return 0;
}
static int op_set_q(int argc, tok_t *a, out_t *o) {
  NEED(argc == 3 && a[0].kind == T_NUM && a[1].kind == T_NUM && a[2].kind == T_NUM && !a[2].neg && a[2].n >= 1);
  long rprec = tok_long(&a[0]); NEED(rprec >= 2);
  mpq_t q; mpq_init(q); tok_mpz(mpq_numref(q), &a[1]); tok_mpz(mpq_denref(q), &a[2]);
  exc_kind = "div0"; fv_t r; fv_new(&r, rprec, 0); int e = GUARD(mpf_set_q(r.f, q)); emit(o, e, r.f); fv_free(&r); mpq_clear(q); return 0;
}
static int op_set_d(int argc, tok_t *a, out_t *o) {
  NEED(argc == 2 && a[0].kind == T_NUM && a[1].kind == T_NUM && !a[1].neg && a[1].n <= 1);
  long rprec = tok_long(&a[0]); NEED(rprec >= 2);
  uint64_t bits = tok_ulong(&a[1]); double d; memcpy(&d, &bits, 8);
  exc_kind = 0; fv_t r; fv_new(&r, rprec, 0); int e = GUARD(mpf_set_d(r.f, d)); emit(o, e, r.f); fv_free(&r); return 0;
}

/* ---------------- observers ---------------- */
static int op_integer_p(int argc, tok_t *a, out_t *o) {
  NEED(argc == 4 && is_opnd(a));
  fv_t u; fv_opnd(&u, a, -1); out_long(o, mpf_integer_p(u.f) != 0); fv_free(&u); return 0;
}
static int op_cmp(int argc, tok_t *a, out_t *o) {
  NEED(argc == 8 && is_opnd(a) && is_opnd(a + 4));
  fv_t u, v; fv_opnd(&u, a, -1); fv_opnd(&v, a + 4, -1);
  int c = mpf_cmp(u.f, v.f); out_long(o, c > 0 ? 1 : c < 0 ? -1 : 0); fv_free(&u); fv_free(&v); return 0;
}
static int op_eq(int argc, tok_t *a, out_t *o) {
  NEED(argc == 9 && is_opnd(a) && is_opnd(a + 4) && a[8].kind == T_NUM && !a[8].neg && a[8].n <= 1);
  NEED(tok_long(&a[1]) == 0 || a[3].d[a[3].n - 1] != 0); NEED(tok_long(&a[5]) == 0 || a[7].d[a[7].n - 1] != 0);
  fv_t u, v; fv_opnd(&u, a, -1); fv_opnd(&v, a + 4, -1);
  out_long(o, mpf_eq(u.f, v.f, tok_ulong(&a[8])) != 0); fv_free(&u); fv_free(&v); return 0;
}

/* ---------------- precision: bits <-> limbs, set_prec (reallocating), set_prec_raw ---------------- */
/* mpf_prec_rt bits : mpf_init2(bits); mpf_get_prec  ->  limbs bits' */
static int op_prec_rt(int argc, tok_t *a, out_t *o) {
  NEED(argc == 1 && a[0].kind == T_NUM && !a[0].neg && a[0].n <= 1 && tok_ulong(&a[0]) <= 100000);
  mpf_t x; mpf_init2(x, tok_ulong(&a[0]));
  out_long(o, x->_mp_prec); out_ulong(o, mpf_get_prec(x)); mpf_clear(x); return 0;
}
/* mpf_set_prec A bits : A held by a variable of precision A.prec (|size| <= A.prec+1 required);
   mpf_set_prec(x, bits)  ->  get_prec size exp [limbs] */
static int op_set_prec(int argc, tok_t *a, out_t *o) {
  NEED(argc == 5 && is_opnd(a) && a[4].kind == T_NUM && !a[4].neg && a[4].n <= 1 && tok_ulong(&a[4]) <= 100000);
  long p = tok_ulong(&a[0]); NEED(p >= 2 && a[3].n <= p + 1);
  fv_t u; fv_opnd(&u, a, -1);
  mpf_set_prec(u.f, tok_ulong(&a[4])); u.real_prec = u.f->_mp_prec;
  out_ulong(o, mpf_get_prec(u.f)); out_mpf(o, u.f); fv_free(&u); return 0;
}
/* mpf_set_prec_raw A bits k : variable of precision A.prec; set_prec_raw(bits) (bits' <= original);
   get_prec; then k selects an in-place op run at the lowered precision: 0 none, 1 mul x,x,x  2 add x,x,x  3 sqrt x,x
   4 mul_ui x,x,3  5 div_ui x,x,3;  finally set_prec_raw back.  ->  get_prec size exp [limbs] */
static int op_set_prec_raw(int argc, tok_t *a, out_t *o) {
  NEED(argc == 6 && is_opnd(a) && a[4].kind == T_NUM && !a[4].neg && a[4].n <= 1 && a[5].kind == T_NUM);
  long p = tok_ulong(&a[0]); NEED(p >= 2 && a[3].n <= p + 1);
  unsigned long bits = tok_ulong(&a[4]); NEED(__GMPF_BITS_TO_PREC(bits) <= p);
  fv_t u; fv_opnd(&u, a, -1);
  mpf_set_prec_raw(u.f, bits);
  out_ulong(o, mpf_get_prec(u.f));
  int e = 0; exc_kind = 0;
  switch (tok_long(&a[5])) {
  case 1: e = GUARD(mpf_mul(u.f, u.f, u.f)); break;
  case 2: e = GUARD(mpf_add(u.f, u.f, u.f)); break;
  case 3: e = GUARD(mpf_sqrt(u.f, u.f)); break;
  case 4: e = GUARD(mpf_mul_ui(u.f, u.f, 3)); break;
  case 5: e = GUARD(mpf_div_ui(u.f, u.f, 3)); break;
  default: u.f->_mp_prec = u.real_prec; break;    /* nothing written at the lowered precision: judge the format at the real one */
  }
  emit(o, e, u.f); fv_free(&u); return 0;
}

#define BOTH(n, f) {n, f}, {n "?", f}
const opdef_t ops_mpf[] = {
  BOTH("mpf_add", op_add), BOTH("mpf_sub", op_sub), BOTH("mpf_mul", op_mul), BOTH("mpf_div", op_div),
  BOTH("mpf_sqrt", op_sqrt), BOTH("mpf_neg", op_neg), BOTH("mpf_abs", op_abs), BOTH("mpf_floor", op_floor),
  BOTH("mpf_ceil", op_ceil), BOTH("mpf_trunc", op_trunc), BOTH("mpf_set", op_set),
  BOTH("mpf_add_ui", op_add_ui), BOTH("mpf_sub_ui", op_sub_ui), BOTH("mpf_mul_ui", op_mul_ui), BOTH("mpf_div_ui", op_div_ui),
  BOTH("mpf_ui_sub", op_ui_sub), BOTH("mpf_ui_div", op_ui_div), BOTH("mpf_mul_2exp", op_mul_2exp), BOTH("mpf_div_2exp", op_div_2exp),
  BOTH("mpf_sqrt_ui", op_sqrt_ui), BOTH("mpf_set_ui", op_set_ui), BOTH("mpf_set_si", op_set_si), BOTH("mpf_set_z", op_set_z),
  BOTH("mpf_set_q", op_set_q), BOTH("mpf_set_d13", op_set_d),
  BOTH("mpf_integer_p13", op_integer_p), BOTH("mpf_cmp13", op_cmp), {"mpf_eq", op_eq},
  {"mpf_prec_rt", op_prec_rt}, {"mpf_set_prec", op_set_prec}, {"mpf_set_prec_raw", op_set_prec_raw},
  {0, 0}
};
