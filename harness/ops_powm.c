/* C08 — powers and modular powers: mpz_powm, mpz_powm_ui, mpz_pow_ui, mpz_ui_pow_ui and the internal
   entry points mpn_powm, mpn_powlo, mpn_redc_1/2/n, mpn_binvert, mpn_pow_1. */
#include "harness.h"
#include "gmp-impl.h"
#define NEED(c) do { if (!(c)) return -1; } while (0)
#define FIN(rp, n) do { if (!dst_ok(rp, n)) out_err(o, "oob"); dst_free(rp); } while (0)

/* MPIR's __gmp_exception (errno.c) does not record the error bit in gmp_errno, so the harness cannot
   tell the exceptions apart; the only one mpz_powm / mpz_powm_ui can raise is DIVIDE_BY_ZERO. */
static int isnum(const tok_t *t) { return t->kind == T_NUM; }
static int isvec(const tok_t *t) { return t->kind == T_VEC; }

/* mode: 0 = r distinct, 1 = r is the same variable as b, 2 = same as e, 3 = same as m.
   The inputs are checked afterwards: input-only operands must be unchanged (printed as !clobber). */
static int op_mpz_powm(int argc, tok_t *a, out_t *o) {
  NEED(argc == 4 && isnum(&a[0]) && isnum(&a[1]) && isnum(&a[2]) && isnum(&a[3]));
  long mode = tok_long(&a[0]); NEED(mode >= 0 && mode <= 3);
  mpz_t b, e, m, r, b0, e0, m0;
  mpz_init(b); mpz_init(e); mpz_init(m); mpz_init2(r, 1); mpz_init(b0); mpz_init(e0); mpz_init(m0);
  tok_mpz(b, &a[1]); tok_mpz(e, &a[2]); tok_mpz(m, &a[3]);
  tok_mpz(b0, &a[1]); tok_mpz(e0, &a[2]); tok_mpz(m0, &a[3]);
  mpz_ptr rr = mode == 1 ? b : mode == 2 ? e : mode == 3 ? m : r;
  int x = GUARD(mpz_powm(rr, b, e, m));
  if (x) out_err(o, "div0");
  else {
    out_mpz(o, rr);
    int bad = 0;
    if (mode != 1 && (b->_mp_size != b0->_mp_size || memcmp(b->_mp_d, b0->_mp_d, 8 * a[1].n))) bad = 1;
    if (mode != 2 && (e->_mp_size != e0->_mp_size || memcmp(e->_mp_d, e0->_mp_d, 8 * a[2].n))) bad = 1;
    if (mode != 3 && (m->_mp_size != m0->_mp_size || memcmp(m->_mp_d, m0->_mp_d, 8 * a[3].n))) bad = 1;
    if (bad) out_err(o, "clobber");
  }
  mpz_clear(b); mpz_clear(e); mpz_clear(m); mpz_clear(r); mpz_clear(b0); mpz_clear(e0); mpz_clear(m0);
  return 0;
}

/* mode: 0 distinct, 1 r==b, 3 r==m */
static int op_mpz_powm_ui(int argc, tok_t *a, out_t *o) {
  NEED(argc == 4 && isnum(&a[0]) && isnum(&a[1]) && isnum(&a[2]) && isnum(&a[3]) && !a[2].neg && a[2].n <= 1);
  long mode = tok_long(&a[0]); NEED(mode == 0 || mode == 1 || mode == 3);
  mpz_t b, m, r, b0, m0;
  mpz_init(b); mpz_init(m); mpz_init2(r, 1); mpz_init(b0); mpz_init(m0);
  tok_mpz(b, &a[1]); tok_mpz(m, &a[3]); tok_mpz(b0, &a[1]); tok_mpz(m0, &a[3]);
  mpz_ptr rr = mode == 1 ? b : mode == 3 ? m : r;
  int x = GUARD(mpz_powm_ui(rr, b, tok_ulong(&a[2]), m));
  if (x) out_err(o, "div0");
  else {
    out_mpz(o, rr);
    int bad = 0;
    if (mode != 1 && (b->_mp_size != b0->_mp_size || memcmp(b->_mp_d, b0->_mp_d, 8 * a[1].n))) bad = 1;
    if (mode != 3 && (m->_mp_size != m0->_mp_size || memcmp(m->_mp_d, m0->_mp_d, 8 * a[3].n))) bad = 1;
    if (bad) out_err(o, "clobber");
  }
  mpz_clear(b); mpz_clear(m); mpz_clear(r); mpz_clear(b0); mpz_clear(m0);
  return 0;
}

/* mpz_pow_ui b e  (optional third token 1: r is the same variable as b) */
static int op_mpz_pow_ui(int argc, tok_t *a, out_t *o) {
  NEED((argc == 2 || argc == 3) && isnum(&a[0]) && isnum(&a[1]) && !a[1].neg && a[1].n <= 1);
  mpz_t b, r; mpz_init(b); mpz_init2(r, 1); tok_mpz(b, &a[0]);
  mpz_ptr rr = (argc == 3 && tok_long(&a[2]) == 1) ? b : r;
  mpz_pow_ui(rr, b, tok_ulong(&a[1]));
  out_mpz(o, rr);
  mpz_clear(b); mpz_clear(r); return 0;
}

static int op_mpz_ui_pow_ui(int argc, tok_t *a, out_t *o) {
  NEED(argc == 2 && isnum(&a[0]) && isnum(&a[1]) && !a[0].neg && a[0].n <= 1 && !a[1].neg && a[1].n <= 1);
  mpz_t r; mpz_init2(r, 1);
  mpz_ui_pow_ui(r, tok_ulong(&a[0]), tok_ulong(&a[1]));
  out_mpz(o, r);
  mpz_clear(r); return 0;
}

/* mpn_powm [b] [e] [m]: m odd and normalised, e > 1 normalised, bn >= 1.
   Scratch: MAX (mpn_binvert_itch (n), 2n) limbs (powm.c:157). */
static int op_mpn_powm(int argc, tok_t *a, out_t *o) {
  NEED(argc == 3 && isvec(&a[0]) && isvec(&a[1]) && isvec(&a[2]));
  long bn = a[0].n, en = a[1].n, n = a[2].n;
  NEED(n >= 1 && (a[2].d[0] & 1) && a[2].d[n - 1] != 0 && bn >= 1 && en >= 1 && a[1].d[en - 1] != 0);
  NEED(en > 1 || a[1].d[0] > 1);
  long itch = mpn_binvert_itch(n); if (itch < 2 * n) itch = 2 * n;
  mp_limb_t *rp = dst_new(n), *tp = dst_new(itch);
  mpn_powm(rp, a[0].d, bn, a[1].d, en, a[2].d, n, tp);
  out_vec(o, rp, n);
  if (!dst_ok(tp, itch)) out_err(o, "oob");
  dst_free(tp); FIN(rp, n); return 0;
}

/* mpn_powlo [b] [e] n: b has at least n limbs; scratch 3n limbs (powlo.c:80) */
static int op_mpn_powlo(int argc, tok_t *a, out_t *o) {
  NEED(argc == 3 && isvec(&a[0]) && isvec(&a[1]) && isnum(&a[2]) && !a[2].neg);
  long n = tok_long(&a[2]), en = a[1].n;
  NEED(n >= 1 && a[0].n >= n && en >= 1 && a[1].d[en - 1] != 0 && (en > 1 || a[1].d[0] > 1));
  mp_limb_t *rp = dst_new(n), *tp = dst_new(3 * n);
  mpn_powlo(rp, a[0].d, a[1].d, en, n, tp);
  out_vec(o, rp, n);
  if (!dst_ok(tp, 3 * n)) out_err(o, "oob");
  dst_free(tp); FIN(rp, n); return 0;
}

/* mpn_redc_1 [u: 2n limbs] [m: n limbs] invm */
static int op_mpn_redc_1(int argc, tok_t *a, out_t *o) {
  NEED(argc == 3 && isvec(&a[0]) && isvec(&a[1]) && isnum(&a[2]) && !a[2].neg && a[2].n <= 1);
  long n = a[1].n; NEED(n >= 1 && a[0].n == 2 * n);
  mp_limb_t *rp = dst_new(n), *up = dst_new(2 * n);
  memcpy(up, a[0].d, 16 * n);
  mpn_redc_1(rp, up, a[1].d, n, tok_ulong(&a[2]));
  out_vec(o, rp, n);
  if (!dst_ok(up, 2 * n)) out_err(o, "oob");
  dst_free(up); FIN(rp, n); return 0;
}

/* mpn_redc_2 [u: 2n limbs] [m: n limbs] [mip: 2 limbs] */
static int op_mpn_redc_2(int argc, tok_t *a, out_t *o) {
  NEED(argc == 3 && isvec(&a[0]) && isvec(&a[1]) && isvec(&a[2]) && a[2].n == 2);
  long n = a[1].n; NEED(n >= 1 && a[0].n == 2 * n);
  mp_limb_t *rp = dst_new(n), *up = dst_new(2 * n);
  memcpy(up, a[0].d, 16 * n);
  mpn_redc_2(rp, up, a[1].d, n, a[2].d);
  out_vec(o, rp, n);
  if (!dst_ok(up, 2 * n)) out_err(o, "oob");
  dst_free(up); FIN(rp, n); return 0;
}

/* mpn_redc_n [u: 2n limbs] [m: n limbs, odd] [ip: n limbs, ip*m == 1 mod B^n], n > 8 */
static int op_mpn_redc_n(int argc, tok_t *a, out_t *o) {
  NEED(argc == 3 && isvec(&a[0]) && isvec(&a[1]) && isvec(&a[2]));
  long n = a[1].n; NEED(n > 8 && a[0].n == 2 * n && a[2].n == n && (a[1].d[0] & 1));
  mp_limb_t *rp = dst_new(n), *up = dst_new(2 * n);
  memcpy(up, a[0].d, 16 * n);
  mpn_redc_n(rp, up, a[1].d, n, a[2].d);
  out_vec(o, rp, n);
  if (!dst_ok(up, 2 * n)) out_err(o, "oob");
  dst_free(up); FIN(rp, n); return 0;
}

/* mpn_binvert [d] n: inverse of the odd {d,n} modulo B^n */
static int op_mpn_binvert(int argc, tok_t *a, out_t *o) {
  NEED(argc == 2 && isvec(&a[0]) && isnum(&a[1]) && !a[1].neg);
  long n = tok_long(&a[1]); NEED(n >= 1 && a[0].n >= n && (a[0].d[0] & 1));
  long itch = mpn_binvert_itch(n);
  mp_limb_t *rp = dst_new(n), *tp = dst_new(itch);
  mpn_binvert(rp, a[0].d, n, tp);
  out_vec(o, rp, n);
  if (!dst_ok(tp, itch)) out_err(o, "oob");
  dst_free(tp); FIN(rp, n); return 0;
}

/* mpn_pow_1 [b] e: b normalised; rp and tp get bn*e + 2 limbs */
static int op_mpn_pow_1(int argc, tok_t *a, out_t *o) {
  NEED(argc == 2 && isvec(&a[0]) && isnum(&a[1]) && !a[1].neg && a[1].n <= 1);
  long bn = a[0].n; unsigned long e = tok_ulong(&a[1]);
  NEED(bn >= 1 && a[0].d[bn - 1] != 0 && e <= 4096 && bn * (long)e <= 100000);
  long sz = bn * (long)e + 2; if (sz < bn + 2) sz = bn + 2;
  mp_limb_t *rp = dst_new(sz), *tp = dst_new(sz);
  mp_size_t rn = mpn_pow_1(rp, a[0].d, bn, e, tp);
  if (rn < 0 || rn > sz) out_err(o, "oob"); else out_vec(o, rp, rn);
  if (!dst_ok(tp, sz)) out_err(o, "oob");
  dst_free(tp); FIN(rp, sz); return 0;
}

const opdef_t ops_powm[] = {
  {"mpz_powm", op_mpz_powm}, {"mpz_powm_ui", op_mpz_powm_ui},
  /* the same call answered by the model together with its memory-level flags (Mpir/Model/PowmUiMem.lean) */
  {"mpz_powm_ui_m", op_mpz_powm_ui}, {"mpz_powm_m", op_mpz_powm},
  {"mpz_pow_ui", op_mpz_pow_ui}, {"mpz_ui_pow_ui", op_mpz_ui_pow_ui},
  {"mpn_powm", op_mpn_powm}, {"mpn_powlo", op_mpn_powlo},
  {"mpn_redc_1", op_mpn_redc_1}, {"mpn_redc_2", op_mpn_redc_2}, {"mpn_redc_n", op_mpn_redc_n},
  {"mpn_binvert", op_mpn_binvert}, {"mpn_pow_1", op_mpn_pow_1},
  {0, 0}
};
