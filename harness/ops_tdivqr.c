/* C02, part c02_tdivqr: the real mpn_tdiv_qr / mpn_divrem / mpn_divrem_2 for the limb-level model
   lean/Mpir/Model/TdivQr.lean (Lean side: lean/Mpir/Ops/TdivQr.lean).

   tdiv_qr_model [n] [d]         -> [q: nn-dn+1 limbs] [r: dn limbs] branch      (!div0 for dn = 0)
   divrem_model [n] [d] qxn      -> [q: nn-dn+qxn limbs] [np[0..dn-1]] returned-limb
   divrem_2_contract [n] [d] qxn -> [q: nn-2+qxn limbs] [np[0],np[1]] returned-limb

   `branch` is recomputed here from the sizes and the top limbs only (tdiv_qr.c:49, :66, :105, :106, :113, :199-203), the
   same way as Mpir.TdivQr.branchCode, so that a disagreement about WHICH branch an input takes is a disagreement too.
   Inputs outside the ASSERTed preconditions are rejected ("?args").  Destinations have guard limbs (`!oob`), read-only
   operands are compared with a copy afterwards (`!modified`). */
#include "harness.h"
#include "gmp-impl.h"
#define NEED(c) do { if (!(c)) return -1; } while (0)
#define VEC2 (argc >= 2 && a[0].kind == T_VEC && a[1].kind == T_VEC)
#define IS_UI(t) ((t).kind == T_NUM && !(t).neg && (t).n <= 1)
#define TOPNZ(t) ((t).n >= 1 && (t).d[(t).n - 1] != 0)
#define NORMD(t) ((t).n >= 1 && ((t).d[(t).n - 1] >> 63))
static mp_limb_t *dcopy(const mp_limb_t *p, long n) { mp_limb_t *r = dst_new(n); memcpy(r, p, n * sizeof *r); return r; }
static void fin(out_t *o, mp_limb_t *p, long n) { if (!dst_ok(p, n)) out_err(o, "oob"); dst_free(p); }
static void unchanged(out_t *o, const mp_limb_t *p, const tok_t *t) { if (memcmp(p, t->d, t->n * sizeof *p)) out_err(o, "modified"); }

static unsigned long branch_code(const mp_limb_t *np, long nn, const mp_limb_t *dp, long dn) {
  if (dn == 0) return 0;
  if (dn == 1) return 1;
  unsigned long unnorm = (dp[dn - 1] >> 63) ? 0 : 1;
  if (dn == 2) return 2 + (1 - unnorm);
  unsigned long adjust = np[nn - 1] >= dp[dn - 1];
  if (nn + (long) adjust >= 2 * dn) return 0x10 + 2 * unnorm + adjust;
  long qn = nn - dn + (long) adjust;
  if (qn == 0) return 0x20;
  return 0x100 + 0x10 * (qn < 3 ? qn : 3) + 2 * unnorm + adjust;
}

static int op_tdiv_qr_model(int argc, tok_t *a, out_t *o) {
  NEED(VEC2 && argc == 2);
  long nn = a[0].n, dn = a[1].n;
  if (dn == 0) {                                       /* case 0: DIVIDE_BY_ZERO */
    mp_limb_t *qp = dst_new(nn + 1), *rp = dst_new(1);
    int e = GUARD(mpn_tdiv_qr(qp, rp, 0, a[0].d, nn, a[1].d, 0));
    if (e) out_err(o, "div0"); else out_err(o, "noexc");
    dst_free(qp); dst_free(rp); return 0;
  }
  NEED(TOPNZ(a[1]) && nn >= dn);
  mp_limb_t *np = dcopy(a[0].d, nn), *dp = dcopy(a[1].d, dn), *qp = dst_new(nn - dn + 1), *rp = dst_new(dn);
  memset(qp, 0x5a, (nn - dn + 1) * sizeof *qp); memset(rp, 0xa5, dn * sizeof *rp);   /* nothing may depend on the old contents */
  mpn_tdiv_qr(qp, rp, 0, np, nn, dp, dn);
  out_vec(o, qp, nn - dn + 1); out_vec(o, rp, dn); out_ulong(o, branch_code(a[0].d, nn, a[1].d, dn));
  unchanged(o, np, &a[0]); unchanged(o, dp, &a[1]);
  fin(o, qp, nn - dn + 1); fin(o, rp, dn); fin(o, np, nn); fin(o, dp, dn); return 0;
}

static int op_divrem_model(int argc, tok_t *a, out_t *o) {
  NEED(VEC2 && argc == 3 && IS_UI(a[2]) && NORMD(a[1]) && a[0].n >= a[1].n);
  long nn = a[0].n, dn = a[1].n, qxn = tok_long(&a[2]); NEED(qxn <= 4096);
  long qn = nn - dn + qxn;
  mp_limb_t *np = dcopy(a[0].d, nn), *dp = dcopy(a[1].d, dn), *qp = dst_new(qn);
  memset(qp, 0x5a, qn * sizeof *qp);
  mp_limb_t qh = mpn_divrem(qp, qxn, np, nn, dp, dn);
  out_vec(o, qp, qn); out_vec(o, np, dn); out_ulong(o, qh);
  unchanged(o, dp, &a[1]);
  fin(o, qp, qn); fin(o, np, nn); fin(o, dp, dn); return 0;
}

static int op_divrem_2_contract(int argc, tok_t *a, out_t *o) {
  NEED(VEC2 && argc == 3 && IS_UI(a[2]) && a[1].n == 2 && NORMD(a[1]) && a[0].n >= 2);
  long nn = a[0].n, qxn = tok_long(&a[2]); NEED(qxn <= 4096);
  long qn = nn - 2 + qxn;
  mp_limb_t *np = dcopy(a[0].d, nn), *dp = dcopy(a[1].d, 2), *qp = dst_new(qn);
  memset(qp, 0x5a, qn * sizeof *qp);
  mp_limb_t qh = mpn_divrem_2(qp, qxn, np, nn, dp);
  out_vec(o, qp, qn); out_vec(o, np, 2); out_ulong(o, qh);
  unchanged(o, dp, &a[1]);
  fin(o, qp, qn); fin(o, np, nn); fin(o, dp, 2); return 0;
}

const opdef_t ops_tdivqr[] = {
  {"tdiv_qr_model", op_tdiv_qr_model}, {"divrem_model", op_divrem_model}, {"divrem_2_contract", op_divrem_2_contract},
  {0, 0}
};
