/* C02 part c02_dcappr: the real mpn_dc_divappr_q against the value-level model lean/Mpir/Model/DcDivappr.lean
   (handler lean/Mpir/Ops/DcDivappr.lean).

     dc_divappr_q_model T C rep [np, nn limbs] [dp, dn limbs]   prints [q, nn-dn limbs] [np[dn-2 .. dn] after the call] qh
   T must be the DC_DIV_QR_THRESHOLD this library was compiled with (the generator reads gmp-mparam.h of the tree under
   test), otherwise `!invalid`.  C = SB_DIVAPPR_Q_CUTOFF is a #define local to dc_divappr_q.c; it cannot be checked here
   (the generator reads it from the source; the source pin of the file covers it).  rep (0/1) tells the MODEL whether the
   source is the repaired C (`while` at :105, sign test in the rare case); it is not used here. */
#include "harness.h"
#include "gmp-impl.h"
#include "longlong.h"

#define NEED(c) do { if (!(c)) return -1; } while (0)
#define IS_UI(t) ((t).kind == T_NUM && !(t).neg && (t).n <= 1)
#define NORMD(t) ((t).n >= 1 && ((t).d[(t).n - 1] >> 63))
static mp_limb_t *dcopy(const mp_limb_t *p, long n) { mp_limb_t *r = dst_new(n); memcpy(r, p, n * sizeof *r); return r; }
static void fin(out_t *o, mp_limb_t *p, long n) { if (!dst_ok(p, n)) out_err(o, "oob"); dst_free(p); }

static int op_dc_divappr_q_model(int argc, tok_t *a, out_t *o) {
  NEED(argc == 5 && IS_UI(a[0]) && IS_UI(a[1]) && IS_UI(a[2]) && a[3].kind == T_VEC && a[4].kind == T_VEC);
  long T = tok_long(&a[0]), C = tok_long(&a[1]), nn = a[3].n, dn = a[4].n, qn = nn - dn;
  NEED(T >= 6 && C >= 3 && dn >= 6 && qn >= 3 && NORMD(a[4]) && tok_long(&a[2]) <= 1);     /* dc_divappr_q.c:44-46 */
  if (T != (long) DC_DIV_QR_THRESHOLD) { out_err(o, "invalid"); return 0; }
  mp_limb_t *np = dcopy(a[3].d, nn), *dp = dcopy(a[4].d, dn), *qp = dst_new(qn), dinv;
  mpir_invert_pi1(dinv, dp[dn - 1], dp[dn - 2]);
  mp_limb_t qh = mpn_dc_divappr_q(qp, np, nn, dp, dn, dinv);
  out_vec(o, qp, qn); out_vec(o, np + dn - 2, 3); out_ulong(o, qh);
  if (memcmp(dp, a[4].d, dn * sizeof *dp)) out_err(o, "modified");
  fin(o, qp, qn); fin(o, np, nn); fin(o, dp, dn); return 0;
}

const opdef_t ops_dcdivappr[] = { {"dc_divappr_q_model", op_dc_divappr_q_model}, {0, 0} };
