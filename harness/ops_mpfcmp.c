/* C13 part c13_cmp: mpf_eq, mpf_reldiff, mpf_sgn on operands given as `prec size exp [limbs]` (|size| == number
   of limbs; an operand may have more than prec+1 limbs, the state mpf_set_prec_raw leaves).
   mpf_eq13 A B nbits            -> 0/1
   mpf_sgn13 A                   -> -1/0/1
   mpf_reldiff rprec mode A B    -> size exp [limbs]   mode 0: r,x,y distinct  1: r==x  2: r==y  3: x==y  4: r==x==y
   The destination has exactly rprec+1 limbs (red-zoned by the recording allocator) unless it is an operand. */
#include "harness.h"
#include "gmp-impl.h"
#define NEED(c) do { if (!(c)) return -1; } while (0)

typedef struct { mpf_t f; mp_size_t real_prec; } fv_t;
static void fv_new(fv_t *x, long prec, long n) {
  long p0 = prec; if (n - 1 > p0) p0 = n - 1; if (p0 < 2) p0 = 2;
  mpf_init2(x->f, (mp_bitcnt_t)64 * (p0 - 1));
  x->real_prec = x->f->_mp_prec;
  x->f->_mp_prec = prec;
  for (long i = 0; i <= x->real_prec; i++) x->f->_mp_d[i] = 0xDEADBEEFCAFEF00DUL;   /* stale data */
}
static void fv_free(fv_t *x) { x->f->_mp_prec = x->real_prec; mpf_clear(x->f); }
static int is_opnd(const tok_t *a) {
  if (!(a[0].kind == T_NUM && a[1].kind == T_NUM && a[2].kind == T_NUM && a[3].kind == T_VEC)) return 0;
  long s = tok_long(&a[1]); if (s < 0) s = -s;
  if (!(a[1].n <= 1 && a[2].n <= 1 && s == a[3].n && !a[0].neg && a[0].n <= 1)) return 0;
  return s == 0 ? tok_long(&a[2]) == 0 : a[3].d[s - 1] != 0;      /* operand rules: top limb non-zero, zero has exponent 0 */
}
static void fv_opnd(fv_t *x, const tok_t *a, long rprec) {
  long n = a[3].n;
  fv_new(x, rprec >= 0 ? rprec : (long)tok_ulong(&a[0]), n);
  for (long i = 0; i < n; i++) x->f->_mp_d[i] = a[3].d[i];
  x->f->_mp_size = (int)tok_long(&a[1]);
  x->f->_mp_exp = tok_long(&a[2]);
}
static void emit(out_t *o, int e, mpf_srcptr r) {
  if (!e) { out_mpf(o, r); return; }
  if (!(e & ~(GMP_ERROR_UNSUPPORTED_ARGUMENT | GMP_ERROR_DIVISION_BY_ZERO | GMP_ERROR_SQRT_OF_NEGATIVE))) out_err(o, "div0");
  else out_exc(o, e);
}

static int op_sgn(int argc, tok_t *a, out_t *o) {
  NEED(argc == 4 && is_opnd(a));
  fv_t u; fv_opnd(&u, a, -1); out_long(o, mpf_sgn(u.f)); fv_free(&u); return 0;
}
/* any n_bits up to ULONG_MAX (before /repo b2b40d5 values between about 2^30 and ULONG_MAX-63 made eq.c loop for up to
   2^58 iterations and larger ones wrapped) */
static int op_eq(int argc, tok_t *a, out_t *o) {
  NEED(argc == 9 && is_opnd(a) && is_opnd(a + 4) && a[8].kind == T_NUM && !a[8].neg && a[8].n <= 1);
  mp_bitcnt_t nb = tok_ulong(&a[8]);
  fv_t u, v; fv_opnd(&u, a, -1); fv_opnd(&v, a + 4, -1);
  out_long(o, mpf_eq(u.f, v.f, nb) != 0); fv_free(&u); fv_free(&v); return 0;
}
static int op_reldiff(int argc, tok_t *a, out_t *o) {
  NEED(argc == 10 && a[0].kind == T_NUM && a[1].kind == T_NUM && is_opnd(a + 2) && is_opnd(a + 6));
  long rprec = tok_long(&a[0]), mode = tok_long(&a[1]); NEED(rprec >= 2 && mode >= 0 && mode <= 4);
  fv_t r, u, v; int e;
  switch (mode) {
  case 0: fv_new(&r, rprec, 0); fv_opnd(&u, a + 2, -1); fv_opnd(&v, a + 6, -1);
          e = GUARD(mpf_reldiff(r.f, u.f, v.f)); emit(o, e, r.f); fv_free(&r); fv_free(&u); fv_free(&v); break;
  case 1: fv_opnd(&u, a + 2, rprec); fv_opnd(&v, a + 6, -1);
          e = GUARD(mpf_reldiff(u.f, u.f, v.f)); emit(o, e, u.f); fv_free(&u); fv_free(&v); break;
  case 2: fv_opnd(&u, a + 2, -1); fv_opnd(&v, a + 6, rprec);
          e = GUARD(mpf_reldiff(v.f, u.f, v.f)); emit(o, e, v.f); fv_free(&u); fv_free(&v); break;
  case 3: fv_new(&r, rprec, 0); fv_opnd(&u, a + 2, -1);
          e = GUARD(mpf_reldiff(r.f, u.f, u.f)); emit(o, e, r.f); fv_free(&r); fv_free(&u); break;
  default: fv_opnd(&u, a + 2, rprec);
          e = GUARD(mpf_reldiff(u.f, u.f, u.f)); emit(o, e, u.f); fv_free(&u); break;
  }
  return 0;
}
const opdef_t ops_mpfcmp[] = {
  {"mpf_sgn13", op_sgn}, {"mpf_eq13", op_eq}, {"mpf_reldiff", op_reldiff}, {0, 0}
};
