/* C08: mpn_binvert (mpn/generic/binvert.c) compared EXACTLY with the limb-level model lean/Mpir/Model/Binvert.lean
   (bi_binvert), checked against the predicate R*U mod B^n = 1 (bi_binvert_p), and mpn_binvert_itch (bi_itch). */
#include "harness.h"
#include "gmp-impl.h"
#define NEED(c) do { if (!(c)) return -1; } while (0)

static int run_binvert(tok_t *u, out_t *o) {
  long n = u->n; NEED(n >= 1 && n < (1L << 20) && (u->d[0] & 1));
  long tn = mpn_binvert_itch(n);
  mp_limb_t *rp = dst_new(n), *up = dst_new(n), *tp = dst_new(tn);
  memcpy(up, u->d, n * 8);
  mpn_binvert(rp, up, n, tp);
  out_vec(o, rp, n);
  if (memcmp(up, u->d, n * 8)) out_err(o, "inputmod");
  if (!dst_ok(tp, tn) || !dst_ok(rp, n) || !dst_ok(up, n)) out_err(o, "oob");
  dst_free(tp); dst_free(up); dst_free(rp); return 0;
}

/* bi_binvert thr dcthr [u]: thr, dcthr must be the BINV_NEWTON_THRESHOLD / DC_BDIV_Q_THRESHOLD this library was built with */
static int op_binvert(int argc, tok_t *a, out_t *o) {
  NEED(argc == 3 && a[0].kind == T_NUM && a[1].kind == T_NUM && a[2].kind == T_VEC);
  NEED(tok_long(&a[0]) == BINV_NEWTON_THRESHOLD && tok_long(&a[1]) == DC_BDIV_Q_THRESHOLD);
  return run_binvert(&a[2], o);
}

/* bi_binvert_p [u] */
static int op_binvert_p(int argc, tok_t *a, out_t *o) {
  NEED(argc == 1 && a[0].kind == T_VEC);
  return run_binvert(&a[0], o);
}

/* bi_itch n */
static int op_itch(int argc, tok_t *a, out_t *o) {
  NEED(argc == 1 && a[0].kind == T_NUM);
  long n = tok_long(&a[0]); NEED(n >= 1 && n < (1L << 40));
  out_long(o, mpn_binvert_itch(n)); return 0;
}

const opdef_t ops_binvert[] = {
  {"bi_binvert", op_binvert}, {"bi_binvert_p", op_binvert_p}, {"bi_itch", op_itch}, {0, 0}
};
