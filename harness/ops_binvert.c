/* C08: mpn_binvert (mpn/generic/binvert.c) compared EXACTLY with the limb-level model lean/Mpir/Model/Binvert.lean
   (bi_binvert), checked against the predicate R*U mod B^n = 1 (bi_binvert_p), and mpn_binvert_itch (bi_itch). */
#include "harness.h"
#include "gmp-impl.h"
#define NEED(c) do { if (!(c)) return -1; } while (0)

static int run_binvert(tok_t *u, out_t *o) {
  long n = u->n; NEED(n >= 1 && n < (1L << 20) && (u->d[0] & 1));
  long tn = mpn_binvert_itch(n);
  mp_limb_t *rp = dst_new(n), *up = dst_new(n), *tp = dst_new(tn);
  memcpy(up, u->d, n * 8);
  mpn_binvert(rp, up, n, tp);
  out_vec(o, rp, n);
  if (memcmp(up, u->d, n * 8)) out_err(o, "inputmod");
  if (!dst_ok(tp, tn) || !dst_ok(rp, n) || !dst_ok(up, n)) out_err(o, "oob");
  dst_free(tp); dst_free(up); dst_free(rp); return 0;
}

/* bi_binvert thr dcthr [u]: thr, dcthr must be the BINV_NEWTON_THRESHOLD / DC_BDIV_Q_THRESHOLD this library was built with */
static int op_binvert(int argc, tok_t *a, out_t *o) {
  NEED(argc == 3 && a[0].kind == T_NUM && a[1].kind == T_NUM && a[2].kind == T_VEC);
  NEED(tok_long(&a[0]) == BINV_NEWTON_THRESHOLD && tok_long(&a[1]) == DC_BDIV_Q_THRESHOLD);
  return run_binvert(&a[2], o);
}

/* bi_binvert_p [u] */
static int op_binvert_p(int argc, tok_t *a, out_t *o) {
  NEED(argc == 1 && a[0].kind == T_VEC);
  return run_binvert(&a[0], o);
}

/* bi_itch n */
static int op_itch(int argc, tok_t *a, out_t *o) {
  NEED(argc == 1 && a[0].kind == T_NUM);
  long n = tok_long(&a[0]); NEED(n >= 1 && n < (1L << 40));
  out_long(o, mpn_binvert_itch(n)); return 0;
}

/* bi_dc_bdiv_q [n] [d]: mpn_dc_bdiv_q (qp, np, nn, dp, dn, dinv): dn >= 6 (its ASSERT), nn >= dn, d odd; N is destroyed: a copy */
static int op_dc_bdiv_q(int argc, tok_t *a, out_t *o) {
  NEED(argc == 2 && a[0].kind == T_VEC && a[1].kind == T_VEC);
  long nn = a[0].n, dn = a[1].n; NEED(dn >= 6 && nn >= dn && nn < (1L << 16) && (a[1].d[0] & 1));
  mp_limb_t dinv; modlimb_invert(dinv, a[1].d[0]);
  mp_limb_t *qp = dst_new(nn), *np = dst_new(nn), *dp = dst_new(dn);
  memcpy(np, a[0].d, nn * 8); memcpy(dp, a[1].d, dn * 8);
  mpn_dc_bdiv_q(qp, np, nn, dp, dn, dinv);
  out_vec(o, qp, nn);
  if (memcmp(dp, a[1].d, dn * 8)) out_err(o, "inputmod");
  if (!dst_ok(qp, nn) || !dst_ok(np, nn) || !dst_ok(dp, dn)) out_err(o, "oob");
  dst_free(dp); dst_free(np); dst_free(qp); return 0;
}

/* bi_dc_bdiv_qr_n thr [n] [d]: mpn_dc_bdiv_qr_n (qp, np, dp, k, dinv, tp), N of 2k limbs, D of k >= 2 limbs, odd;
   thr must be DC_BDIV_QR_THRESHOLD; prints qp[0..k), np[k..2k), return value */
static int op_dc_bdiv_qr_n(int argc, tok_t *a, out_t *o) {
  NEED(argc == 3 && a[0].kind == T_NUM && a[1].kind == T_VEC && a[2].kind == T_VEC);
  NEED(tok_long(&a[0]) == DC_BDIV_QR_THRESHOLD);
  long k = a[2].n; NEED(k >= 2 && k < (1L << 15) && a[1].n == 2 * k && (a[2].d[0] & 1));
  mp_limb_t dinv; modlimb_invert(dinv, a[2].d[0]);
  mp_limb_t *qp = dst_new(k), *np = dst_new(2 * k), *dp = dst_new(k), *tp = dst_new(k);
  memcpy(np, a[1].d, 2 * k * 8); memcpy(dp, a[2].d, k * 8);
  mp_limb_t rh = mpn_dc_bdiv_qr_n(qp, np, dp, k, dinv, tp);
  out_vec(o, qp, k); out_vec(o, np + k, k); out_ulong(o, rh);
  if (memcmp(dp, a[2].d, k * 8)) out_err(o, "inputmod");
  if (!dst_ok(qp, k) || !dst_ok(np, 2 * k) || !dst_ok(dp, k) || !dst_ok(tp, k)) out_err(o, "oob");
  dst_free(tp); dst_free(dp); dst_free(np); dst_free(qp); return 0;
}

const opdef_t ops_binvert[] = {
  {"bi_binvert", op_binvert}, {"bi_binvert_p", op_binvert_p}, {"bi_itch", op_itch},
  {"bi_dc_bdiv_q", op_dc_bdiv_q}, {"bi_dc_bdiv_qr_n", op_dc_bdiv_qr_n}, {0, 0}
};
