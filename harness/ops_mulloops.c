/* The combining loops of mpn_mul (property C01, part c01_loops): both ops call the real mpn_mul; the Lean side
   answers with the limbs computed by its LIMB-LEVEL MODEL of the loops (lean/Mpir/Model/MulLoops.lean), not by Nat
   multiplication, so an agreement ties the model the theorems are about.
     mpn_mul_chunkmodel [u] [v]   model = mulChunked MUL_BASECASE_MAX_UN (mul.c:108-137; un > MUL_BASECASE_MAX_UN)
     mpn_mul_model [u] [v]        model = mpnMulModel (dispatch by the generated skeleton; chunk loop, slide loop
                                  mul.c:210-277, single basecase/Karatsuba/Toom calls)
   Output: the un+vn product limbs, then the returned limb (mul.c:139 / :279 index it with the advanced prodp/un). */
#include "harness.h"
#include "gmp-impl.h"

static int op_mul_loops(int argc, tok_t *a, out_t *o) {
  if (!(argc == 2 && a[0].kind == T_VEC && a[1].kind == T_VEC && a[0].n >= a[1].n && a[1].n >= 1)) return -1;  /* mul.c:59-60 */
  long n = a[0].n + a[1].n; mp_limb_t *rp = dst_new(n);
  mp_limb_t r = mpn_mul(rp, a[0].d, a[0].n, a[1].d, a[1].n);
  out_vec(o, rp, n); out_ulong(o, r);
  if (!dst_ok(rp, n)) out_err(o, "oob");
  dst_free(rp); return 0;
}

const opdef_t ops_mulloops[] = { {"mpn_mul_chunkmodel", op_mul_loops}, {"mpn_mul_model", op_mul_loops}, {0, 0} };
