/* C05 part c05_ptr: pointer-level alias model (lean/Mpir/Model/AliasMem.lean).
   alias_<fn> <i0> <i1> <i2> <i3> <v0> <v1> <v2> <v3>
     four variables holding v0..v3 in exact-size blocks; mpz_<fn> is called with
     the variables numbered i0.. as its arguments in prototype order (the same index twice = the same variable;
     functions with three mpz arguments ignore i3).  Output, for each of the four variables: value, ALLOC, and
     1 if PTR moved (the allocator of the harness always moves on realloc), or the exception marker. */
#include "harness.h"

typedef void (*f3_t)(mpz_ptr, mpz_srcptr, mpz_srcptr);
typedef void (*f4_t)(mpz_ptr, mpz_ptr, mpz_srcptr, mpz_srcptr);

static int run(int argc, tok_t *a, out_t *o, f3_t f3, f4_t f4) {
  if (argc != 8) return -1;
  for (int i = 0; i < 8; i++) if (a[i].kind != T_NUM) return -1;
  long ix[4];
  for (int i = 0; i < 4; i++) { ix[i] = tok_long(&a[i]); if (ix[i] < 0 || ix[i] > 3) return -1; }
  if (f4 && ix[0] == ix[1]) return -1;                          /* the manual forbids quot == rem */
  mpz_t v[4]; mp_limb_t *p0[4];
  for (int i = 0; i < 4; i++) { mpz_init(v[i]); tok_mpz(v[i], &a[4 + i]); p0[i] = v[i]->_mp_d; }
  int e;
  if (f4) e = GUARD(f4(v[ix[0]], v[ix[1]], v[ix[2]], v[ix[3]]));
  else e = GUARD(f3(v[ix[0]], v[ix[1]], v[ix[2]]));
  if (e) out_err(o, "div0");      /* MPIR's __gmp_exception raises SIGFPE without setting gmp_errno: in a division op it is DIVIDE_BY_ZERO */
  else
    for (int i = 0; i < 4; i++) {
      out_mpz(o, v[i]); out_long(o, v[i]->_mp_alloc); out_long(o, v[i]->_mp_d != p0[i]);
    }
  for (int i = 0; i < 4; i++) mpz_clear(v[i]);
  return 0;
}
/* alias_<fn> <w> <u> <cnt> <v0> <v1> <v2> <v3>: mpz_<fn> (var w, var u, cnt) */
typedef void (*fb_t)(mpz_ptr, mpz_srcptr, mp_bitcnt_t);
static int runb(int argc, tok_t *a, out_t *o, fb_t f) {
  if (argc != 7) return -1;
  for (int i = 0; i < 7; i++) if (a[i].kind != T_NUM) return -1;
  long w = tok_long(&a[0]), u = tok_long(&a[1]);
  unsigned long cnt = tok_ulong(&a[2]);
  if (w < 0 || w > 3 || u < 0 || u > 3 || cnt > 100000) return -1;
  mpz_t v[4]; mp_limb_t *p0[4];
  for (int i = 0; i < 4; i++) { mpz_init(v[i]); tok_mpz(v[i], &a[3 + i]); p0[i] = v[i]->_mp_d; }
  f(v[w], v[u], cnt);
  for (int i = 0; i < 4; i++) {
    out_mpz(o, v[i]); out_long(o, v[i]->_mp_alloc); out_long(o, v[i]->_mp_d != p0[i]);
  }
  for (int i = 0; i < 4; i++) mpz_clear(v[i]);
  return 0;
}
#define OPB(fn) static int op_##fn(int argc, tok_t *a, out_t *o) { return runb(argc, a, o, mpz_##fn); }
OPB(mul_2exp) OPB(tdiv_q_2exp) OPB(cdiv_q_2exp) OPB(fdiv_q_2exp) OPB(tdiv_r_2exp) OPB(cdiv_r_2exp) OPB(fdiv_r_2exp)
/* alias_<fn> <q> <n> <d> <v0..v3>: mpz_<fn> (var q, var n, d); output: return value, then the four variables */
typedef mpir_ui (*fu_t)(mpz_ptr, mpz_srcptr, mpir_ui);
static int runu(int argc, tok_t *a, out_t *o, fu_t f) {
  if (argc != 7) return -1;
  for (int i = 0; i < 7; i++) if (a[i].kind != T_NUM) return -1;
  long w = tok_long(&a[0]), u = tok_long(&a[1]);
  if (w < 0 || w > 3 || u < 0 || u > 3 || a[2].neg || a[2].n > 1) return -1;
  unsigned long d = tok_ulong(&a[2]);
  mpz_t v[4]; mp_limb_t *p0[4];
  for (int i = 0; i < 4; i++) { mpz_init(v[i]); tok_mpz(v[i], &a[3 + i]); p0[i] = v[i]->_mp_d; }
  mpir_ui ret = 0;
  int e = GUARD(ret = f(v[w], v[u], d));
  if (e) out_err(o, "div0");
  else {
    out_ulong(o, ret);
    for (int i = 0; i < 4; i++) {
      out_mpz(o, v[i]); out_long(o, v[i]->_mp_alloc); out_long(o, v[i]->_mp_d != p0[i]);
    }
  }
  for (int i = 0; i < 4; i++) mpz_clear(v[i]);
  return 0;
}
#define OPU(fn) static int op_##fn(int argc, tok_t *a, out_t *o) { return runu(argc, a, o, mpz_##fn); }
OPU(tdiv_q_ui) OPU(fdiv_q_ui) OPU(cdiv_q_ui) OPU(tdiv_r_ui) OPU(fdiv_r_ui) OPU(cdiv_r_ui)
/* alias_<fn> <q> <r> <n> <d> <v0..v3>: mpz_<fn> (var q, var r, var n, d), q != r */
typedef mpir_ui (*fu2_t)(mpz_ptr, mpz_ptr, mpz_srcptr, mpir_ui);
static int runu2(int argc, tok_t *a, out_t *o, fu2_t f) {
  if (argc != 8) return -1;
  for (int i = 0; i < 8; i++) if (a[i].kind != T_NUM) return -1;
  long q = tok_long(&a[0]), r = tok_long(&a[1]), u = tok_long(&a[2]);
  if (q < 0 || q > 3 || r < 0 || r > 3 || u < 0 || u > 3 || q == r || a[3].neg || a[3].n > 1) return -1;
  unsigned long d = tok_ulong(&a[3]);
  mpz_t v[4]; mp_limb_t *p0[4];
  for (int i = 0; i < 4; i++) { mpz_init(v[i]); tok_mpz(v[i], &a[4 + i]); p0[i] = v[i]->_mp_d; }
  mpir_ui ret = 0;
  int e = GUARD(ret = f(v[q], v[r], v[u], d));
  if (e) out_err(o, "div0");
  else {
    out_ulong(o, ret);
    for (int i = 0; i < 4; i++) {
      out_mpz(o, v[i]); out_long(o, v[i]->_mp_alloc); out_long(o, v[i]->_mp_d != p0[i]);
    }
  }
  for (int i = 0; i < 4; i++) mpz_clear(v[i]);
  return 0;
}
#define OPU2(fn) static int op_##fn(int argc, tok_t *a, out_t *o) { return runu2(argc, a, o, mpz_##fn); }
OPU2(tdiv_qr_ui) OPU2(fdiv_qr_ui) OPU2(cdiv_qr_ui)
/* alias_divexact_ui <dst> <src> <d> v0..v3 (inside the documented domain: d != 0, d | src); no return value */
static int op_divexact_ui(int argc, tok_t *a, out_t *o) {
  if (argc != 7) return -1;
  for (int i = 0; i < 7; i++) if (a[i].kind != T_NUM) return -1;
  long w = tok_long(&a[0]), u = tok_long(&a[1]);
  if (w < 0 || w > 3 || u < 0 || u > 3 || a[2].neg || a[2].n != 1) return -1;
  unsigned long d = tok_ulong(&a[2]);
  mpz_t v[4]; mp_limb_t *p0[4];
  for (int i = 0; i < 4; i++) { mpz_init(v[i]); tok_mpz(v[i], &a[3 + i]); p0[i] = v[i]->_mp_d; }
  mpz_divexact_ui(v[w], v[u], d);
  for (int i = 0; i < 4; i++) {
    out_mpz(o, v[i]); out_long(o, v[i]->_mp_alloc); out_long(o, v[i]->_mp_d != p0[i]);
  }
  for (int i = 0; i < 4; i++) mpz_clear(v[i]);
  return 0;
}
#define OP4(fn) static int op_##fn(int argc, tok_t *a, out_t *o) { return run(argc, a, o, 0, mpz_##fn); }
#define OP3(fn) static int op_##fn(int argc, tok_t *a, out_t *o) { return run(argc, a, o, mpz_##fn, 0); }
OP4(tdiv_qr) OP4(fdiv_qr) OP4(cdiv_qr)
OP3(tdiv_q) OP3(tdiv_r) OP3(fdiv_q) OP3(fdiv_r) OP3(cdiv_q) OP3(cdiv_r) OP3(mod) OP3(divexact) OP3(and) OP3(ior) OP3(xor) OP3(gcd)
typedef void (*f2_t)(mpz_ptr, mpz_srcptr);
static void com3(mpz_ptr w, mpz_srcptr u, mpz_srcptr unused) { (void)unused; mpz_com(w, u); }
static int op_com(int argc, tok_t *a, out_t *o) { return run(argc, a, o, com3, 0); }
static void neg3(mpz_ptr w, mpz_srcptr u, mpz_srcptr unused) { (void)unused; mpz_neg(w, u); }
static void abs3(mpz_ptr w, mpz_srcptr u, mpz_srcptr unused) { (void)unused; mpz_abs(w, u); }
static void set3(mpz_ptr w, mpz_srcptr u, mpz_srcptr unused) { (void)unused; mpz_set(w, u); }
static int op_neg(int argc, tok_t *a, out_t *o) { return run(argc, a, o, neg3, 0); }
static int op_abs(int argc, tok_t *a, out_t *o) { return run(argc, a, o, abs3, 0); }
static int op_set(int argc, tok_t *a, out_t *o) { return run(argc, a, o, set3, 0); }

/* alias_sqrtrem <root> <rem> <op> 0 v0..v3 */
static int op_sqrtrem(int argc, tok_t *a, out_t *o) {
  if (argc != 8) return -1;
  for (int i = 0; i < 8; i++) if (a[i].kind != T_NUM) return -1;
  long ix[3];
  for (int i = 0; i < 3; i++) { ix[i] = tok_long(&a[i]); if (ix[i] < 0 || ix[i] > 3) return -1; }
  if (ix[0] == ix[1]) return -1;
  mpz_t v[4]; mp_limb_t *p0[4]; int a0[4];
  for (int i = 0; i < 4; i++) { mpz_init(v[i]); tok_mpz(v[i], &a[4 + i]); p0[i] = v[i]->_mp_d; a0[i] = v[i]->_mp_alloc; }
  int e = GUARD(mpz_sqrtrem(v[ix[0]], v[ix[1]], v[ix[2]]));
  if (e) out_err(o, "sqrtneg");
  else
    for (int i = 0; i < 4; i++) {
      /* the root block is replaced by free + allocate (sqrtrem.c:64-69): the allocator may hand the same address back,
         so for root "moved" is reported as "ALLOC changed" */
      out_mpz(o, v[i]); out_long(o, v[i]->_mp_alloc);
      out_long(o, i == ix[0] ? v[i]->_mp_alloc != a0[i] : v[i]->_mp_d != p0[i]);
    }
  for (int i = 0; i < 4; i++) mpz_clear(v[i]);
  return 0;
}

/* alias_rootrem <root> <rem> <u> <nth> v0..v3 (root != rem) */
static int op_rootrem(int argc, tok_t *a, out_t *o) {
  if (argc != 8) return -1;
  for (int i = 0; i < 8; i++) if (a[i].kind != T_NUM) return -1;
  long ix[3];
  for (int i = 0; i < 3; i++) { ix[i] = tok_long(&a[i]); if (ix[i] < 0 || ix[i] > 3) return -1; }
  if (ix[0] == ix[1] || a[3].neg || a[3].n > 1) return -1;
  unsigned long nth = tok_ulong(&a[3]);
  mpz_t v[4]; mp_limb_t *p0[4];
  for (int i = 0; i < 4; i++) { mpz_init(v[i]); tok_mpz(v[i], &a[4 + i]); p0[i] = v[i]->_mp_d; }
  int neg_even = v[ix[2]]->_mp_size < 0 && (nth & 1) == 0;
  int e = GUARD(mpz_rootrem(v[ix[0]], v[ix[1]], v[ix[2]], nth));
  if (e) out_err(o, neg_even ? "sqrtneg" : "div0");    /* rootrem.c:38-44: the even root of a negative is tested first */
  else
    for (int i = 0; i < 4; i++) {
      out_mpz(o, v[i]); out_long(o, v[i]->_mp_alloc); out_long(o, v[i]->_mp_d != p0[i]);
    }
  for (int i = 0; i < 4; i++) mpz_clear(v[i]);
  return 0;
}

const opdef_t ops_alias[] = {
  {"alias_rootrem", op_rootrem},
  {"alias_sqrtrem", op_sqrtrem},
  {"alias_tdiv_qr", op_tdiv_qr}, {"alias_fdiv_qr", op_fdiv_qr}, {"alias_cdiv_qr", op_cdiv_qr},
  {"alias_tdiv_q", op_tdiv_q}, {"alias_tdiv_r", op_tdiv_r}, {"alias_fdiv_q", op_fdiv_q}, {"alias_fdiv_r", op_fdiv_r},
  {"alias_cdiv_q", op_cdiv_q}, {"alias_cdiv_r", op_cdiv_r}, {"alias_mod", op_mod},
  {"alias_gcd", op_gcd}, {"alias_and", op_and}, {"alias_ior", op_ior}, {"alias_xor", op_xor}, {"alias_com", op_com}, {"alias_neg", op_neg}, {"alias_abs", op_abs}, {"alias_set", op_set},   /* alias_com w u _ _ … */
  {"alias_tdiv_r_ui", op_tdiv_r_ui}, {"alias_fdiv_r_ui", op_fdiv_r_ui}, {"alias_cdiv_r_ui", op_cdiv_r_ui},
  {"alias_tdiv_qr_ui", op_tdiv_qr_ui}, {"alias_fdiv_qr_ui", op_fdiv_qr_ui}, {"alias_cdiv_qr_ui", op_cdiv_qr_ui},
  {"alias_divexact_ui", op_divexact_ui},
  {"alias_tdiv_q_ui", op_tdiv_q_ui}, {"alias_fdiv_q_ui", op_fdiv_q_ui}, {"alias_cdiv_q_ui", op_cdiv_q_ui},
  {"alias_mul_2exp", op_mul_2exp}, {"alias_tdiv_q_2exp", op_tdiv_q_2exp},
  {"alias_tdiv_r_2exp", op_tdiv_r_2exp}, {"alias_cdiv_r_2exp", op_cdiv_r_2exp}, {"alias_fdiv_r_2exp", op_fdiv_r_2exp}, {"alias_cdiv_q_2exp", op_cdiv_q_2exp}, {"alias_fdiv_q_2exp", op_fdiv_q_2exp},
  {"alias_divexact", op_divexact},      /* the generator keeps to the documented domain: den != 0 and den | num */
  {0, 0}
};
