/* C02, part c02_sbq: mpn_sb_divappr_q and mpn_sb_div_q with full outputs, compared verbatim with the limb-level
   models of lean/Mpir/Model/SbDivQ.lean.
     sb_divappr_q n d  ->  q (nn-dn limbs)  np[dn-2 .. dn] after the call  qh
     sb_div_q     n d  ->  q (nn-dn limbs)  qh
   Preconditions checked here (NEED -> "?args"): dn > 2, d normalised, nn >= dn (sb_divappr_q: nn > dn, it always stores qp[0]).
   dinv = mpir_invert_pi1 (dp[dn-1], dp[dn-2]). */
#include "harness.h"
#include "gmp-impl.h"
#include "longlong.h"
#define NEED(c) do { if (!(c)) return -1; } while (0)
#define NORMD(t) ((t).n >= 1 && ((t).d[(t).n - 1] >> 63))
static mp_limb_t *dcopy(const mp_limb_t *p, long n) { mp_limb_t *r = dst_new(n); memcpy(r, p, n * sizeof *r); return r; }
static void fin(out_t *o, mp_limb_t *p, long n) { if (!dst_ok(p, n)) out_err(o, "oob"); dst_free(p); }

static int op_sb_divappr_q(int argc, tok_t *a, out_t *o) {
  NEED(argc == 2 && a[0].kind == T_VEC && a[1].kind == T_VEC && NORMD(a[1]) && a[1].n >= 3 && a[0].n > a[1].n);
  long nn = a[0].n, dn = a[1].n, qn = nn - dn;
  mp_limb_t *np = dcopy(a[0].d, nn), *dp = dcopy(a[1].d, dn), *qp = dst_new(qn), dinv;
  mpir_invert_pi1(dinv, dp[dn - 1], dp[dn - 2]);
  mp_limb_t qh = mpn_sb_divappr_q(qp, np, nn, dp, dn, dinv);
  out_vec(o, qp, qn); out_vec(o, np + dn - 2, 3); out_ulong(o, qh);
  if (memcmp(dp, a[1].d, dn * sizeof *dp)) out_err(o, "modified");
  fin(o, qp, qn); fin(o, np, nn); fin(o, dp, dn); return 0;
}
static int op_sb_div_q(int argc, tok_t *a, out_t *o) {
  NEED(argc == 2 && a[0].kind == T_VEC && a[1].kind == T_VEC && NORMD(a[1]) && a[1].n >= 3 && a[0].n >= a[1].n);
  long nn = a[0].n, dn = a[1].n, qn = nn - dn;
  mp_limb_t *np = dcopy(a[0].d, nn), *dp = dcopy(a[1].d, dn), *qp = dst_new(qn), dinv;
  mpir_invert_pi1(dinv, dp[dn - 1], dp[dn - 2]);
  mp_limb_t qh = mpn_sb_div_q(qp, np, nn, dp, dn, dinv);
  out_vec(o, qp, qn); out_ulong(o, qh);
  if (memcmp(dp, a[1].d, dn * sizeof *dp)) out_err(o, "modified");
  fin(o, qp, qn); fin(o, np, nn); fin(o, dp, dn); return 0;
}
const opdef_t ops_sbdivq[] = { {"sb_divappr_q", op_sb_divappr_q}, {"sb_div_q", op_sb_div_q}, {0, 0} };
