/* C06 — radix conversion ops.  Strings travel hex-encoded (`s…` tokens).
     mpz_get_str base x            -> s<string> | !null ; flags !oversize !differ !oob !notrealloc
     mpz_set_str base s            -> rc [value]          (value only when rc == 0)
     mpz_init_set_str base s       -> rc [value]
     mpz_sizeinbase x base         -> count
     mpn_get_str base [limbs]      -> s<raw digit values, leading zeros stripped>   (input top limb non-zero)
     mpn_set_str base s<digits>    -> magnitude (high zero limbs stripped); !hizero if the first digit is
                                      non-zero and the returned size includes a zero high limb
     mpn_set_str_raw base s<digits>-> [limbs] exactly as returned
     mpz_out_str base x            -> ret s<bytes written>
     mpz_inp_str base s<stream>    -> ret [value] pos     (value when ret != 0; pos = ftell afterwards)
     mpq_set_str base s            -> rc [num den]
     mpq_get_str base num den      -> s<string>
     mpq_out_str base num den      -> ret s<bytes>
     mpq_inp_str base s<stream>    -> ret [num den] pos */
#include "harness.h"
#include "gmp-impl.h"
#define NEED(c) do { if (!(c)) return -1; } while (0)

static int op_mpz_get_str(int argc, tok_t *a, out_t *o) {
  NEED(argc == 2 && a[0].kind == T_NUM && a[1].kind == T_NUM);
  long base = tok_long(&a[0]);
  mpz_t x; mpz_init(x); tok_mpz(x, &a[1]);
  /* 1. library-allocated result: the block must be exactly strlen+1 bytes (the ledger checks the size we free) */
  char *r1 = mpz_get_str(NULL, (int) base, x);
  if (r1 == NULL) {
    out_err(o, "null");
  } else {
    size_t len = strlen(r1);
    out_bytes(o, r1, len);
    long ab = base < 0 ? -base : base; if (ab < 2) ab = 10;
    size_t sib = mpz_sizeinbase(x, (int) ab);
    if (len + 1 > sib + 2) out_err(o, "oversize");
    /* 2. caller-provided buffer of the documented size sizeinbase+2, with guard bytes behind it */
    size_t bs = sib + 2;
    unsigned char *buf = malloc(bs + 16);
    memset(buf, 0x7e, bs + 16);
    char *r2 = mpz_get_str((char *) buf, (int) base, x);
    if (r2 != (char *) buf) out_err(o, "retptr");
    else if (strcmp(r1, r2) != 0) out_err(o, "differ");
    for (int i = 0; i < 16; i++) if (buf[bs + i] != 0x7e) { out_err(o, "oob"); break; }
    free(buf);
    void (*ff)(void *, size_t); mp_get_memory_functions(NULL, NULL, &ff);
    ff(r1, len + 1);
  }
  mpz_clear(x); return 0;
}

static int do_set_str(int init, int argc, tok_t *a, out_t *o) {
  NEED(argc == 2 && a[0].kind == T_NUM && a[1].kind == T_STR);
  long base = tok_long(&a[0]);
  /* exact-size copy so that a read past the terminator is visible to the sanitizer builds */
  char *s = malloc(a[1].slen + 1); memcpy(s, a[1].s, a[1].slen); s[a[1].slen] = 0;
  mpz_t x; int rc;
  if (init) rc = mpz_init_set_str(x, s, (int) base);
  else { mpz_init2(x, 1); mpz_set_si(x, -77); rc = mpz_set_str(x, s, (int) base); }
  out_long(o, rc);
  if (rc == 0) out_mpz(o, x);
  else if (!init && mpz_cmp_si(x, -77) != 0) out_err(o, "clobbered");   /* informational: a rejected string leaves x alone */
  else if (init && !mpz_wf(x)) out_err(o, "malformed");
  mpz_clear(x); free(s); return 0;
}
static int op_mpz_set_str(int c, tok_t *a, out_t *o) { return do_set_str(0, c, a, o); }
static int op_mpz_init_set_str(int c, tok_t *a, out_t *o) { return do_set_str(1, c, a, o); }

static int op_mpz_sizeinbase(int argc, tok_t *a, out_t *o) {
  NEED(argc == 2 && a[0].kind == T_NUM && a[1].kind == T_NUM);
  long base = tok_long(&a[1]); NEED(base >= 2 && base <= 62);
  mpz_t x; mpz_init(x); tok_mpz(x, &a[0]);
  out_ulong(o, mpz_sizeinbase(x, (int) base));
  mpz_clear(x); return 0;
}

static int op_mpn_get_str(int argc, tok_t *a, out_t *o) {
  NEED(argc == 2 && a[0].kind == T_NUM && a[1].kind == T_VEC);
  long base = tok_long(&a[0]); long n = a[1].n;
  NEED(base >= 2 && base <= 62 && n >= 1 && a[1].d[n - 1] != 0);
  /* "space for the largest possible number represented by a s1n long limb array, plus one extra character" */
  mp_limb_t *top = malloc(n * sizeof *top); for (long i = 0; i < n; i++) top[i] = ~(mp_limb_t) 0;
  size_t need = mpn_sizeinbase(top, n, (int) base) + 1; free(top);
  unsigned char *buf = malloc(need + 16); memset(buf, 0x7e, need + 16);
  mp_limb_t *up = vec_copy(&a[1], 1);                    /* clobbered; one spare limb */
  size_t len = mpn_get_str(buf, (int) base, up, n);
  int oob = 0; for (int i = 0; i < 16; i++) if (buf[need + i] != 0x7e) oob = 1;
  if (len > need) oob = 1;
  if (oob) out_err(o, "oob");
  else {
    size_t z = 0; while (z + 1 < len && buf[z] == 0) z++;     /* the manual allows leading zeros */
    out_bytes(o, buf + z, len - z);
  }
  free(up); free(buf); return 0;
}

static int do_mpn_set_str(int raw, int argc, tok_t *a, out_t *o) {
  NEED(argc == 2 && a[0].kind == T_NUM && a[1].kind == T_STR);
  long base = tok_long(&a[0]); long len = a[1].slen;
  NEED(base >= 2 && base <= 62 && len >= 1);
  for (long i = 0; i < len; i++) NEED(a[1].s[i] < base);
  /* limbs needed: the bound mpz_set_str uses */
  long rn = (long) (len / mp_bases[base].chars_per_bit_exactly) / GMP_NUMB_BITS + 2;
  mp_limb_t *rp = dst_new(rn);
  unsigned char *s = malloc(len); memcpy(s, a[1].s, len);
  mp_size_t n = mpn_set_str(rp, s, len, (int) base);
  if (n < 0 || n > rn || !dst_ok(rp, rn)) out_err(o, "oob");
  else if (raw) out_vec(o, rp, n);
  else {
    out_mag(o, 0, rp, n);
    if (s[0] != 0 && n > 0 && rp[n - 1] == 0) out_err(o, "hizero");
  }
  free(s); dst_free(rp); return 0;
}
static int op_mpn_set_str(int c, tok_t *a, out_t *o) { return do_mpn_set_str(0, c, a, o); }
static int op_mpn_set_str_raw(int c, tok_t *a, out_t *o) { return do_mpn_set_str(1, c, a, o); }

static int op_mpz_out_str(int argc, tok_t *a, out_t *o) {
  NEED(argc == 2 && a[0].kind == T_NUM && a[1].kind == T_NUM);
  long base = tok_long(&a[0]);
  mpz_t x; mpz_init(x); tok_mpz(x, &a[1]);
  char *mem = NULL; size_t msz = 0; FILE *f = open_memstream(&mem, &msz);
  size_t ret = mpz_out_str(f, (int) base, x);
  fclose(f);
  out_ulong(o, ret); out_bytes(o, mem, msz);
  free(mem); mpz_clear(x); return 0;
}

static FILE *mem_in(const tok_t *t, char **keep) {
  /* fmemopen rejects size 0: use a one-byte buffer and an empty read window via "r" on length 0 workaround */
  if (t->slen == 0) { *keep = NULL; FILE *f = tmpfile(); return f; }
  *keep = malloc(t->slen); memcpy(*keep, t->s, t->slen);
  return fmemopen(*keep, t->slen, "r");
}

static int op_mpz_inp_str(int argc, tok_t *a, out_t *o) {
  NEED(argc == 2 && a[0].kind == T_NUM && a[1].kind == T_STR);
  long base = tok_long(&a[0]);
  char *keep; FILE *f = mem_in(&a[1], &keep); NEED(f != NULL);
  mpz_t x; mpz_init2(x, 1); mpz_set_si(x, -77);
  size_t ret = mpz_inp_str(x, f, (int) base);
  out_ulong(o, ret);
  if (ret != 0) out_mpz(o, x);
  else if (mpz_cmp_si(x, -77) != 0) out_err(o, "clobbered");
  out_long(o, ftell(f));
  fclose(f); free(keep); mpz_clear(x); return 0;
}

static int op_mpq_set_str(int argc, tok_t *a, out_t *o) {
  NEED(argc == 2 && a[0].kind == T_NUM && a[1].kind == T_STR);
  long base = tok_long(&a[0]);
  char *s = malloc(a[1].slen + 1); memcpy(s, a[1].s, a[1].slen); s[a[1].slen] = 0;
  mpq_t q; mpq_init(q);
  int rc = mpq_set_str(q, s, (int) base);
  out_long(o, rc);
  if (rc == 0) out_mpq(o, q);
  else if (!mpz_wf(mpq_numref(q)) || !mpz_wf(mpq_denref(q))) out_err(o, "malformed");
  mpq_clear(q); free(s); return 0;
}

static void tok_mpq(mpq_ptr q, const tok_t *n, const tok_t *d) {
  tok_mpz(mpq_numref(q), n); tok_mpz(mpq_denref(q), d);
}

static int op_mpq_get_str(int argc, tok_t *a, out_t *o) {
  NEED(argc == 3 && a[0].kind == T_NUM && a[1].kind == T_NUM && a[2].kind == T_NUM && a[2].n >= 1 && !a[2].neg);
  long base = tok_long(&a[0]); long ab = base < 0 ? -base : base; NEED(ab >= 2 && ab <= 36);
  mpq_t q; mpq_init(q); tok_mpq(q, &a[1], &a[2]);
  char *r1 = mpq_get_str(NULL, (int) base, q);
  if (!r1) out_err(o, "null");
  else {
    size_t len = strlen(r1);
    out_bytes(o, r1, len);
    size_t bs = mpz_sizeinbase(mpq_numref(q), (int) ab) + mpz_sizeinbase(mpq_denref(q), (int) ab) + 3;
    if (len + 1 > bs) out_err(o, "oversize");
    unsigned char *buf = malloc(bs + 16); memset(buf, 0x7e, bs + 16);
    char *r2 = mpq_get_str((char *) buf, (int) base, q);
    if (r2 != (char *) buf) out_err(o, "retptr"); else if (strcmp(r1, r2)) out_err(o, "differ");
    for (int i = 0; i < 16; i++) if (buf[bs + i] != 0x7e) { out_err(o, "oob"); break; }
    free(buf);
    void (*ff)(void *, size_t); mp_get_memory_functions(NULL, NULL, &ff);
    ff(r1, len + 1);
  }
  mpq_clear(q); return 0;
}

static int op_mpq_out_str(int argc, tok_t *a, out_t *o) {
  NEED(argc == 3 && a[0].kind == T_NUM && a[1].kind == T_NUM && a[2].kind == T_NUM && a[2].n >= 1 && !a[2].neg);
  long base = tok_long(&a[0]);
  mpq_t q; mpq_init(q); tok_mpq(q, &a[1], &a[2]);
  char *mem = NULL; size_t msz = 0; FILE *f = open_memstream(&mem, &msz);
  size_t ret = mpq_out_str(f, (int) base, q);
  fclose(f);
  out_ulong(o, ret); out_bytes(o, mem, msz);
  free(mem); mpq_clear(q); return 0;
}

static int op_mpq_inp_str(int argc, tok_t *a, out_t *o) {
  NEED(argc == 2 && a[0].kind == T_NUM && a[1].kind == T_STR);
  long base = tok_long(&a[0]);
  char *keep; FILE *f = mem_in(&a[1], &keep); NEED(f != NULL);
  mpq_t q; mpq_init(q);
  size_t ret = mpq_inp_str(q, f, (int) base);
  out_ulong(o, ret);
  if (ret != 0) out_mpq(o, q);
  else if (!mpz_wf(mpq_numref(q)) || !mpz_wf(mpq_denref(q))) out_err(o, "malformed");
  out_long(o, ftell(f));
  fclose(f); free(keep); mpq_clear(q); return 0;
}

/* mpz_roundtrip base x: mpz_get_str, then mpz_set_str of exactly those bytes (base |base|)      -> rc value
   mpz_io_roundtrip base x: mpz_out_str to a memory stream, then mpz_inp_str from it           -> wrote read value */
static int op_mpz_roundtrip(int argc, tok_t *a, out_t *o) {
  NEED(argc == 2 && a[0].kind == T_NUM && a[1].kind == T_NUM);
  long base = tok_long(&a[0]); long ab = base < 0 ? -base : base;
  mpz_t x, y; mpz_init(x); mpz_init2(y, 1); tok_mpz(x, &a[1]);
  char *r = mpz_get_str(NULL, (int) base, x);
  if (!r) out_err(o, "null");
  else {
    int rc = mpz_set_str(y, r, (int) ab);
    out_long(o, rc); if (rc == 0) out_mpz(o, y);
    void (*ff)(void *, size_t); mp_get_memory_functions(NULL, NULL, &ff);
    ff(r, strlen(r) + 1);
  }
  mpz_clear(x); mpz_clear(y); return 0;
}
static int op_mpz_io_roundtrip(int argc, tok_t *a, out_t *o) {
  NEED(argc == 2 && a[0].kind == T_NUM && a[1].kind == T_NUM);
  long base = tok_long(&a[0]); long ab = base < 0 ? -base : base;
  mpz_t x, y; mpz_init(x); mpz_init2(y, 1); tok_mpz(x, &a[1]);
  char *mem = NULL; size_t msz = 0; FILE *f = open_memstream(&mem, &msz);
  size_t w = mpz_out_str(f, (int) base, x);
  fclose(f);
  out_ulong(o, w);
  if (msz > 0) {
    FILE *g = fmemopen(mem, msz, "r");
    size_t rd = mpz_inp_str(y, g, (int) ab);
    out_ulong(o, rd); if (rd) out_mpz(o, y);
    fclose(g);
  }
  free(mem); mpz_clear(x); mpz_clear(y); return 0;
}
static int op_mpq_roundtrip(int argc, tok_t *a, out_t *o) {
  NEED(argc == 3 && a[0].kind == T_NUM && a[1].kind == T_NUM && a[2].kind == T_NUM && a[2].n >= 1 && !a[2].neg);
  long base = tok_long(&a[0]); long ab = base < 0 ? -base : base; NEED(ab >= 2 && ab <= 36);
  mpq_t q, r; mpq_init(q); mpq_init(r); tok_mpq(q, &a[1], &a[2]);
  char *s = mpq_get_str(NULL, (int) base, q);
  if (!s) out_err(o, "null");
  else {
    int rc = mpq_set_str(r, s, (int) ab);
    out_long(o, rc); if (rc == 0) out_mpq(o, r);
    void (*ff)(void *, size_t); mp_get_memory_functions(NULL, NULL, &ff);
    ff(s, strlen(s) + 1);
  }
  mpq_clear(q); mpq_clear(r); return 0;
}

/* compact forms for very large operands: x = b^n + d is built here (mpz_ui_pow_ui), so the op line stays short.
     mpz_sizeinbase_pow b n d     -> mpz_sizeinbase (x, b)
     mpz_get_str_pow_len b n d    -> strlen of mpz_get_str (NULL, b, x), mpz_sizeinbase (x, b); the allocator ledger
                                     reports a block overrun by itself (`!alloc:overrun...`) */
static void pow_operand(mpz_ptr x, tok_t *a) {
  mpz_ui_pow_ui(x, tok_ulong(&a[0]), tok_ulong(&a[1]));
  long d = tok_long(&a[2]);
  if (d >= 0) mpz_add_ui(x, x, (unsigned long) d); else mpz_sub_ui(x, x, (unsigned long) -d);
}
static int op_mpz_sizeinbase_pow(int argc, tok_t *a, out_t *o) {
  NEED(argc == 3 && a[0].kind == T_NUM && a[1].kind == T_NUM && a[2].kind == T_NUM && !a[0].neg && !a[1].neg);
  unsigned long b = tok_ulong(&a[0]); NEED(b >= 2 && b <= 62 && a[1].n <= 1 && a[2].n <= 1);
  mpz_t x; mpz_init(x); pow_operand(x, a);
  out_ulong(o, mpz_sizeinbase(x, (int) b));
  mpz_clear(x); return 0;
}
static int op_mpz_get_str_pow_len(int argc, tok_t *a, out_t *o) {
  NEED(argc == 3 && a[0].kind == T_NUM && a[1].kind == T_NUM && a[2].kind == T_NUM && !a[0].neg && !a[1].neg);
  unsigned long b = tok_ulong(&a[0]); NEED(b >= 2 && b <= 62 && a[1].n <= 1 && a[2].n <= 1);
  mpz_t x; mpz_init(x); pow_operand(x, a);
  char *r = mpz_get_str(NULL, (int) b, x);
  size_t len = strlen(r);
  out_ulong(o, len); out_ulong(o, mpz_sizeinbase(x, (int) b));
  void (*ff)(void *, size_t); mp_get_memory_functions(NULL, NULL, &ff);
  ff(r, len + 1);
  mpz_clear(x); return 0;
}

const opdef_t ops_radix[] = {
  {"mpz_sizeinbase_pow", op_mpz_sizeinbase_pow}, {"mpz_get_str_pow_len", op_mpz_get_str_pow_len},
  {"mpz_roundtrip", op_mpz_roundtrip}, {"mpz_io_roundtrip", op_mpz_io_roundtrip}, {"mpq_roundtrip", op_mpq_roundtrip},
  {"mpz_get_str", op_mpz_get_str}, {"mpz_set_str", op_mpz_set_str}, {"mpz_init_set_str", op_mpz_init_set_str},
  {"mpz_sizeinbase", op_mpz_sizeinbase}, {"mpn_get_str", op_mpn_get_str},
  {"mpn_set_str", op_mpn_set_str}, {"mpn_set_str_raw", op_mpn_set_str_raw},
  {"mpz_out_str", op_mpz_out_str}, {"mpz_inp_str", op_mpz_inp_str},
  {"mpq_set_str", op_mpq_set_str}, {"mpq_get_str", op_mpq_get_str},
  {"mpq_out_str", op_mpq_out_str}, {"mpq_inp_str", op_mpq_inp_str},
  {0, 0}
};
