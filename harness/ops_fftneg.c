/* Negacyclic transforms and mpir_fft_mulmod_2expp1 (property C01): the real mpir_fft_negacyclic / mpir_ifft_negacyclic
   on a private coefficient array (conventions of ops_fftx.c: ONE limb vector of 2n residues of limbs+1 limbs, every
   entry normalised with mpn_normmod_2expp1 on output), mpir_fft_naive_convolution_1, and mpn_mulmod_Bexpp1 in its
   FFT branch (limbs > FFT_MULMOD_2EXPP1_CUTOFF: mpir_fft_mulmod_2expp1). */
#include "harness.h"
#include "gmp-impl.h"
#define NEED(c) do { if (!(c)) return -1; } while (0)
#define ISV(t) ((t).kind == T_VEC)
#define ISN(t) ((t).kind == T_NUM && !(t).neg)

/* fftx_negacyclic / fftx_inegacyclic d w [flat(2n)]: 1 <= d <= 8 (n >= 2: the row transforms are called with n/2),
   1 <= w < 2^20, limbs = n*w/64 exact, 1 <= limbs <= 64 */
typedef void (*fn_neg_t)(mp_ptr *, mp_size_t, mp_bitcnt_t, mp_ptr *, mp_ptr *, mp_ptr *);
static int do_neg(fn_neg_t f, int argc, tok_t *a, out_t *o) {
  NEED(argc == 3 && ISN(a[0]) && ISN(a[1]) && ISV(a[2]));
  unsigned long d = tok_ulong(&a[0]), w = tok_ulong(&a[1]);
  NEED(d >= 1 && d <= 8 && w >= 1 && w < (1UL << 20));
  long n = 1L << d, nw = n * (long)w;
  NEED(nw % 64 == 0 && nw / 64 >= 1 && nw / 64 <= 64);
  long limbs = nw / 64, size = limbs + 1, cnt = 2 * n;
  NEED(a[2].n == cnt * size);
  mp_limb_t **ii = malloc(cnt * sizeof *ii), *bufs[3];
  for (long i = 0; i < cnt; i++) { ii[i] = dst_new(size); memcpy(ii[i], a[2].d + i * size, size * sizeof(mp_limb_t)); }
  for (int k = 0; k < 3; k++) { bufs[k] = dst_new(size); memset(bufs[k], 0x5a, size * sizeof(mp_limb_t)); }
  mp_limb_t *t1 = bufs[0], *t2 = bufs[1], *s1 = bufs[2];
  f(ii, n, w, &t1, &t2, &s1);
  long total = cnt * size; int bad = 0;
  mp_limb_t *flat = malloc(total * sizeof *flat);
  for (long i = 0; i < cnt; i++) {
    if (ii[i][limbs] == (mp_limb_t)1 << 63) bad = 1; else mpn_normmod_2expp1(ii[i], limbs);
    memcpy(flat + i * size, ii[i], size * sizeof(mp_limb_t));
  }
  out_vec(o, flat, total); free(flat);
  if (bad) out_err(o, "topmin");
  bad = 0;
  for (long i = 0; i < cnt; i++) { if (!dst_ok(ii[i], size)) bad = 1; dst_free(ii[i]); }
  if (!dst_ok(t1, size) || !dst_ok(t2, size) || !dst_ok(s1, size)) bad = 1;
  dst_free(t1); dst_free(t2); dst_free(s1); free(ii);
  if (bad) out_err(o, "oob");
  return 0;
}
static int op_negacyclic(int c, tok_t *a, out_t *o) { return do_neg(mpir_fft_negacyclic, c, a, o); }
static int op_inegacyclic(int c, tok_t *a, out_t *o) { return do_neg(mpir_ifft_negacyclic, c, a, o); }

/* fftx_naive_convolution_1 [ii] [jj]: equal lengths m >= 1 */
static int op_naive(int argc, tok_t *a, out_t *o) {
  NEED(argc == 2 && ISV(a[0]) && ISV(a[1]) && a[0].n == a[1].n && a[0].n >= 1);
  long m = a[0].n; mp_limb_t *r = dst_new(m);
  mpir_fft_naive_convolution_1(r, a[0].d, a[1].d, m);
  out_vec(o, r, m); if (!dst_ok(r, m)) out_err(o, "oob"); dst_free(r); return 0;
}

/* fftx_mulmod_Bexpp1_fft same [a] [b]: mpn_mulmod_Bexpp1 on normalised residues of limbs+1 limbs with top limb 0,
   limbs > FFT_MULMOD_2EXPP1_CUTOFF and limbs == mpir_fft_adjust_limbs(limbs) (what every caller arranges): the branch
   through mpir_fft_mulmod_2expp1; same = 1 passes i2 = i1.  tt: 2*limbs limbs (mulmod_2expp1.c:205). */
static int op_mulmod_fft(int argc, tok_t *a, out_t *o) {
  NEED(argc == 3 && ISN(a[0]) && tok_ulong(&a[0]) <= 1 && ISV(a[1]) && ISV(a[2]) && a[1].n == a[2].n && a[1].n >= 2);
  long limbs = a[1].n - 1; int same = tok_ulong(&a[0]) == 1;
  NEED(limbs > FFT_MULMOD_2EXPP1_CUTOFF && limbs <= 4096 && mpir_fft_adjust_limbs(limbs) == limbs);
  NEED(a[1].d[limbs] == 0 && a[2].d[limbs] == 0);
  mp_limb_t *r = dst_new(limbs + 1), *tt = dst_new(2 * limbs);
  int ret = mpn_mulmod_Bexpp1(r, a[1].d, same ? a[1].d : a[2].d, limbs, tt);
  out_vec(o, r, limbs + 1); out_long(o, ret);
  if (!dst_ok(r, limbs + 1) || !dst_ok(tt, 2 * limbs)) out_err(o, "oob");
  dst_free(r); dst_free(tt); return 0;
}

const opdef_t ops_fftneg[] = {
  {"fftx_negacyclic", op_negacyclic}, {"fftx_inegacyclic", op_inegacyclic},
  {"fftx_naive_convolution_1", op_naive}, {"fftx_mulmod_Bexpp1_fft", op_mulmod_fft},
  {0, 0}
};
