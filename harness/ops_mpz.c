/* mpz object layer: C03 (add/sub/add_ui/sub_ui/ui_sub/neg/abs/mul_2exp/set/swap), C01 (mul, mul_ui,
   mul_si, addmul, submul, addmul_ui, submul_ui), C05 (alias patterns).
   Every op has a leading alias-mode token:
     0 all variables distinct        1 rop is the 1st input      2 rop is the 2nd input
     3 the two inputs are one variable (rop distinct)            4 all one variable
   Inputs are built with exact-size blocks (tok_mpz); a distinct destination is mpz_init2 (r, 1) holding a stale
   non-zero one-limb value, so the call itself must size it and store its size.  Output: the result (`!malformed` if not well formed), then the values of
   the input variables that are not the output (must be unchanged). */
#include "harness.h"
#define NEED(c) do { if (!(c)) return -1; } while (0)
#define ISNUM(k) (a[k].kind == T_NUM)
#define ISUI(k) (a[k].kind == T_NUM && !a[k].neg && a[k].n <= 1)

static int same_val(const tok_t *x, const tok_t *y) {
  if (x->n != y->n || (x->n && x->neg != y->neg)) return 0;
  for (long i = 0; i < x->n; i++) if (x->d[i] != y->d[i]) return 0;
  return 1;
}
/* a distinct destination: minimal allocation AND a stale non-zero value (-0x5a5a5a5a5a5a5a5a), so that a path which forgets to
   store SIZ (rop) — e.g. an early return for a zero operand (seed C03_d_1) — is visible; the result must not depend on it */
static void dst_stale(mpz_ptr r) { mpz_init2(r, 1); r->_mp_d[0] = 0x5a5a5a5a5a5a5a5aUL; r->_mp_size = -1; }
static long mode_of(const tok_t *t) { return (t->kind == T_NUM && !t->neg && t->n <= 1) ? (long)tok_ulong(t) : -1; }

/* f (w, u, v) */
typedef void (*f3_t)(mpz_ptr, mpz_srcptr, mpz_srcptr);
static int do_bin(f3_t f, int argc, tok_t *a, out_t *o) {
  NEED(argc == 3 && ISNUM(0) && ISNUM(1) && ISNUM(2));
  long m = mode_of(&a[0]); NEED(m >= 0 && m <= 4);
  if (m >= 3) NEED(same_val(&a[1], &a[2]));
  mpz_t r, x, y; dst_stale(r); mpz_init(x); mpz_init(y);
  tok_mpz(x, &a[1]); tok_mpz(y, &a[2]);
  switch (m) {
    case 0: f(r, x, y); out_mpz(o, r); out_mpz(o, x); out_mpz(o, y); break;
    case 1: f(x, x, y); out_mpz(o, x); out_mpz(o, y); break;
    case 2: f(y, x, y); out_mpz(o, y); out_mpz(o, x); break;
    case 3: f(r, x, x); out_mpz(o, r); out_mpz(o, x); break;
    case 4: f(x, x, x); out_mpz(o, x); break;
  }
  mpz_clear(r); mpz_clear(x); mpz_clear(y); return 0;
}
static int op_add(int c, tok_t *a, out_t *o) { return do_bin(mpz_add, c, a, o); }
static int op_sub(int c, tok_t *a, out_t *o) { return do_bin(mpz_sub, c, a, o); }
static int op_mul(int c, tok_t *a, out_t *o) { return do_bin(mpz_mul, c, a, o); }

/* f (w, u, v), w read and written: tokens mode w u v (w ignored when aliased) */
static int do_acc(f3_t f, int argc, tok_t *a, out_t *o) {
  NEED(argc == 4 && ISNUM(0) && ISNUM(1) && ISNUM(2) && ISNUM(3));
  long m = mode_of(&a[0]); NEED(m >= 0 && m <= 4);
  if (m >= 3) NEED(same_val(&a[2], &a[3]));
  mpz_t w, x, y; mpz_init(w); mpz_init(x); mpz_init(y);
  tok_mpz(w, &a[1]); tok_mpz(x, &a[2]); tok_mpz(y, &a[3]);
  switch (m) {
    case 0: f(w, x, y); out_mpz(o, w); out_mpz(o, x); out_mpz(o, y); break;
    case 1: f(x, x, y); out_mpz(o, x); out_mpz(o, y); break;
    case 2: f(y, x, y); out_mpz(o, y); out_mpz(o, x); break;
    case 3: f(w, x, x); out_mpz(o, w); out_mpz(o, x); break;
    case 4: f(x, x, x); out_mpz(o, x); break;
  }
  mpz_clear(w); mpz_clear(x); mpz_clear(y); return 0;
}
static int op_addmul(int c, tok_t *a, out_t *o) { return do_acc(mpz_addmul, c, a, o); }
static int op_submul(int c, tok_t *a, out_t *o) { return do_acc(mpz_submul, c, a, o); }

/* f (w, u): tokens mode u */
typedef void (*f2_t)(mpz_ptr, mpz_srcptr);
static int do_un(f2_t f, int argc, tok_t *a, out_t *o) {
  NEED(argc == 2 && ISNUM(0) && ISNUM(1));
  long m = mode_of(&a[0]); NEED(m == 0 || m == 1);
  mpz_t r, x; dst_stale(r); mpz_init(x); tok_mpz(x, &a[1]);
  if (m == 0) { f(r, x); out_mpz(o, r); out_mpz(o, x); }
  else { f(x, x); out_mpz(o, x); }
  mpz_clear(r); mpz_clear(x); return 0;
}
static int op_neg(int c, tok_t *a, out_t *o) { return do_un(mpz_neg, c, a, o); }
static int op_abs(int c, tok_t *a, out_t *o) { return do_un(mpz_abs, c, a, o); }
static int op_set(int c, tok_t *a, out_t *o) { return do_un(mpz_set, c, a, o); }

/* f (w, u, ui): tokens mode u ui */
typedef void (*fui_t)(mpz_ptr, mpz_srcptr, mpir_ui);
static int do_ui(fui_t f, int argc, tok_t *a, out_t *o) {
  NEED(argc == 3 && ISNUM(0) && ISNUM(1) && ISUI(2));
  long m = mode_of(&a[0]); NEED(m == 0 || m == 1);
  mpir_ui v = tok_ulong(&a[2]);
  mpz_t r, x; dst_stale(r); mpz_init(x); tok_mpz(x, &a[1]);
  if (m == 0) { f(r, x, v); out_mpz(o, r); out_mpz(o, x); }
  else { f(x, x, v); out_mpz(o, x); }
  mpz_clear(r); mpz_clear(x); return 0;
}
static int op_add_ui(int c, tok_t *a, out_t *o) { return do_ui(mpz_add_ui, c, a, o); }
static int op_sub_ui(int c, tok_t *a, out_t *o) { return do_ui(mpz_sub_ui, c, a, o); }
static int op_mul_ui(int c, tok_t *a, out_t *o) { return do_ui(mpz_mul_ui, c, a, o); }
static int op_mul_2exp(int c, tok_t *a, out_t *o) {
  NEED(c == 3 && ISUI(2) && tok_ulong(&a[2]) <= (1UL << 24));   /* keep the result below 2^24 bits + operand */
  return do_ui(mpz_mul_2exp, c, a, o);
}

/* mpz_ui_sub (w, ui, v): tokens mode ui v */
static int op_ui_sub(int argc, tok_t *a, out_t *o) {
  NEED(argc == 3 && ISNUM(0) && ISUI(1) && ISNUM(2));
  long m = mode_of(&a[0]); NEED(m == 0 || m == 1);
  mpir_ui u = tok_ulong(&a[1]);
  mpz_t r, x; dst_stale(r); mpz_init(x); tok_mpz(x, &a[2]);
  if (m == 0) { mpz_ui_sub(r, u, x); out_mpz(o, r); out_mpz(o, x); }
  else { mpz_ui_sub(x, u, x); out_mpz(o, x); }
  mpz_clear(r); mpz_clear(x); return 0;
}

/* mpz_mul_si (w, u, si): tokens mode u si, si in [-2^63, 2^63) */
static int op_mul_si(int argc, tok_t *a, out_t *o) {
  NEED(argc == 3 && ISNUM(0) && ISNUM(1) && ISNUM(2) && a[2].n <= 1);
  long m = mode_of(&a[0]); NEED(m == 0 || m == 1);
  mp_limb_t mag = tok_ulong(&a[2]);
  NEED(a[2].neg ? mag <= ((mp_limb_t)1 << 63) : mag < ((mp_limb_t)1 << 63));
  mpir_si s = a[2].neg ? (mpir_si)(0 - mag) : (mpir_si)mag;
  mpz_t r, x; dst_stale(r); mpz_init(x); tok_mpz(x, &a[1]);
  if (m == 0) { mpz_mul_si(r, x, s); out_mpz(o, r); out_mpz(o, x); }
  else { mpz_mul_si(x, x, s); out_mpz(o, x); }
  mpz_clear(r); mpz_clear(x); return 0;
}

/* mpz_swap (u, v): tokens mode u v; mode 0 distinct, 3 the same variable */
static int op_swap(int argc, tok_t *a, out_t *o) {
  NEED(argc == 3 && ISNUM(0) && ISNUM(1) && ISNUM(2));
  long m = mode_of(&a[0]); NEED(m == 0 || m == 3);
  if (m == 3) NEED(same_val(&a[1], &a[2]));
  mpz_t x, y; mpz_init(x); mpz_init(y); tok_mpz(x, &a[1]); tok_mpz(y, &a[2]);
  if (m == 0) { mpz_swap(x, y); out_mpz(o, x); out_mpz(o, y); }
  else { mpz_swap(x, x); out_mpz(o, x); }
  mpz_clear(x); mpz_clear(y); return 0;
}

/* mpz_addmul_ui / mpz_submul_ui (w, u, ui): tokens mode w u ui; mode 1: w is u (w token ignored) */
static int do_acc_ui(fui_t f, int argc, tok_t *a, out_t *o) {
  NEED(argc == 4 && ISNUM(0) && ISNUM(1) && ISNUM(2) && ISUI(3));
  long m = mode_of(&a[0]); NEED(m == 0 || m == 1);
  mpir_ui v = tok_ulong(&a[3]);
  mpz_t w, x; mpz_init(w); mpz_init(x); tok_mpz(w, &a[1]); tok_mpz(x, &a[2]);
  if (m == 0) { f(w, x, v); out_mpz(o, w); out_mpz(o, x); }
  else { f(x, x, v); out_mpz(o, x); }
  mpz_clear(w); mpz_clear(x); return 0;
}
static int op_addmul_ui(int c, tok_t *a, out_t *o) { return do_acc_ui(mpz_addmul_ui, c, a, o); }
static int op_submul_ui(int c, tok_t *a, out_t *o) { return do_acc_ui(mpz_submul_ui, c, a, o); }

const opdef_t ops_mpz[] = {
  {"mpz_add", op_add}, {"mpz_sub", op_sub}, {"mpz_add_ui", op_add_ui}, {"mpz_sub_ui", op_sub_ui},
  {"mpz_ui_sub", op_ui_sub}, {"mpz_neg", op_neg}, {"mpz_abs", op_abs}, {"mpz_mul_2exp", op_mul_2exp},
  {"mpz_set", op_set}, {"mpz_swap", op_swap},
  {"mpz_mul", op_mul}, {"mpz_mul_ui", op_mul_ui}, {"mpz_mul_si", op_mul_si},
  {"mpz_addmul", op_addmul}, {"mpz_submul", op_submul},
  {"mpz_addmul_ui", op_addmul_ui}, {"mpz_submul_ui", op_submul_ui},
  {0, 0}
};
