/* The matrix Fourier multiplication (property C01): the real mpir_fft_mfa_trunc_sqrt2_outer /
   mpir_fft_mfa_trunc_sqrt2_inner / mpir_ifft_mfa_trunc_sqrt2_outer on a private coefficient array, and
   mpn_mul_mfa_trunc_sqrt2 / mpn_mul_fft_main as a whole.  Conventions of ops_fftx.c: the array travels as ONE limb
   vector (count residues of limbs+1 limbs, concatenated); the whole array is printed after the call, every entry
   normalised with mpn_normmod_2expp1.  n = 2^d, limbs = n*w/64 (must be exact, as in every caller). */
#include "harness.h"
#include "gmp-impl.h"
#define NEED(c) do { if (!(c)) return -1; } while (0)
#define ISV(t) ((t).kind == T_VEC)
#define ISN(t) ((t).kind == T_NUM && !(t).neg)

typedef struct { long d, w, n, limbs, size, cnt; mp_limb_t **ii, *t1, *t2, *s1; mp_limb_t *bufs[3]; } marr_t;

/* d <= 8, 1 <= w < 2^20, limbs = n*w/64 exact, 1 <= limbs <= 64; flat vector of 4n residues */
static int marr_init(marr_t *A, tok_t *td, tok_t *tw, tok_t *flat) {
  if (!(ISN(*td) && ISN(*tw) && ISV(*flat))) return -1;
  unsigned long d = tok_ulong(td), w = tok_ulong(tw);
  if (!(d <= 8 && w >= 1 && w < (1UL << 20))) return -1;
  long n = 1L << d, nw = n * (long)w;
  if (!(nw % 64 == 0 && nw / 64 >= 1 && nw / 64 <= 64)) return -1;
  A->d = d; A->w = w; A->n = n; A->limbs = nw / 64; A->size = A->limbs + 1; A->cnt = 4 * n;
  if (flat->n != A->cnt * A->size) return -1;
  A->ii = malloc(A->cnt * sizeof *A->ii);
  for (long i = 0; i < A->cnt; i++) {
    A->ii[i] = dst_new(A->size);
    memcpy(A->ii[i], flat->d + i * A->size, A->size * sizeof(mp_limb_t));
  }
  for (int k = 0; k < 3; k++) { A->bufs[k] = dst_new(A->size); memset(A->bufs[k], 0x5a, A->size * sizeof(mp_limb_t)); }
  A->t1 = A->bufs[0]; A->t2 = A->bufs[1]; A->s1 = A->bufs[2];
  return 0;
}
/* print (when o != 0) and release; returns 1 = a top limb at the minimum, 2 = a guard limb damaged */
static int marr_fin(marr_t *A, out_t *o) {
  long total = A->cnt * A->size; int bad = 0;
  if (o) {
    mp_limb_t *flat = malloc(total * sizeof *flat);
    for (long i = 0; i < A->cnt; i++) {
      if ((A->ii[i][A->limbs] == (mp_limb_t)1 << 63)) bad = 1; else mpn_normmod_2expp1(A->ii[i], A->limbs);
      memcpy(flat + i * A->size, A->ii[i], A->size * sizeof(mp_limb_t));
    }
    out_vec(o, flat, total); free(flat);
    if (bad) out_err(o, "topmin");
  }
  for (long i = 0; i < A->cnt; i++) { if (!dst_ok(A->ii[i], A->size)) bad = 2; dst_free(A->ii[i]); }
  if (!dst_ok(A->t1, A->size) || !dst_ok(A->t2, A->size) || !dst_ok(A->s1, A->size)) bad = 2;
  dst_free(A->t1); dst_free(A->t2); dst_free(A->s1);
  free(A->ii);
  return bad;
}
static int trunc_ok(tok_t *t, long lo, long hi, long *out) {
  if (!ISN(*t)) return 0;
  long v = tok_long(t); *out = v;
  return v % 2 == 0 && lo < v && v <= hi;
}
/* n1 a power of two, 2 <= n1 <= n (n2 = 2n/n1 >= 2), 2n < trunc <= 4n, trunc a multiple of 2*n1 */
static int mfa_args(tok_t *a, long *n1, long *trunc) {
  if (!(ISN(a[0]) && tok_ulong(&a[0]) <= 8 && ISN(a[2]))) return 0;
  long n = 1L << tok_ulong(&a[0]); *n1 = tok_long(&a[2]);
  if (!(*n1 >= 2 && *n1 <= n && (*n1 & (*n1 - 1)) == 0)) return 0;
  return trunc_ok(&a[3], 2 * n, 4 * n, trunc) && *trunc % (2 * *n1) == 0;
}

/* fftx_mfa_outer / fftx_imfa_outer d w n1 trunc [flat(4n)] */
typedef void (*fn_mfa_t)(mp_ptr *, mp_size_t, mp_bitcnt_t, mp_ptr *, mp_ptr *, mp_ptr *, mp_size_t, mp_size_t);
static int do_outer(fn_mfa_t f, int argc, tok_t *a, out_t *o) {
  long n1, trunc; NEED(argc == 5 && mfa_args(a, &n1, &trunc));
  marr_t A; NEED(marr_init(&A, &a[0], &a[1], &a[4]) == 0);
  f(A.ii, A.n, A.w, &A.t1, &A.t2, &A.s1, n1, trunc);
  if (marr_fin(&A, o) == 2) out_err(o, "oob");
  return 0;
}
static int op_mfa_outer(int c, tok_t *a, out_t *o) { return do_outer(mpir_fft_mfa_trunc_sqrt2_outer, c, a, o); }
static int op_imfa_outer(int c, tok_t *a, out_t *o) { return do_outer(mpir_ifft_mfa_trunc_sqrt2_outer, c, a, o); }

/* fftx_mfa_inner d w n1 trunc same [flat ii] [flat jj]: same = 1 passes jj = ii (the squaring; [flat jj] is ignored
   but must be present).  tt: 2*(limbs+1) limbs as in mul_mfa_trunc_sqrt2.c:49-58. */
static int op_mfa_inner(int argc, tok_t *a, out_t *o) {
  long n1, trunc; NEED(argc == 7 && mfa_args(a, &n1, &trunc) && ISN(a[4]) && tok_ulong(&a[4]) <= 1);
  int same = tok_ulong(&a[4]) == 1;
  marr_t A, C; NEED(marr_init(&A, &a[0], &a[1], &a[5]) == 0);
  if (marr_init(&C, &a[0], &a[1], &a[6]) != 0) { marr_fin(&A, 0); return -1; }
  mp_limb_t *tt = dst_new(2 * A.size);
  mpir_fft_mfa_trunc_sqrt2_inner(A.ii, same ? A.ii : C.ii, A.n, A.w, &A.t1, &A.t2, &A.s1, n1, trunc, tt);
  int bad = marr_fin(&A, o), bad2 = marr_fin(&C, 0);
  if (bad == 2 || bad2 == 2 || !dst_ok(tt, 2 * A.size)) out_err(o, "oob");
  dst_free(tt); return 0;
}

/* fftx_mul_mfa same depth w [u] [v]: the real mpn_mul_mfa_trunc_sqrt2 answered by the transform-level model
   (requirements read off mul_mfa_trunc_sqrt2.c: depth >= 2 so that sqrt = 2^(depth/2) >= 2 columns, limbs = n*w/64
   exact, bits1 >= 1, j1 + j2 - 1 <= 4n; same = 1 passes i2 = i1, n2 = n1: the squaring path jj = ii) */
static int op_mul_mfa(int argc, tok_t *a, out_t *o) {
  NEED(argc == 5 && ISN(a[0]) && ISN(a[1]) && ISN(a[2]) && ISV(a[3]) && ISV(a[4]));
  long same = tok_long(&a[0]), depth = tok_long(&a[1]), w = tok_long(&a[2]), n1 = a[3].n, n2 = a[4].n;
  NEED((same == 0 || same == 1) && depth >= 2 && depth <= 8 && w >= 1 && w < (1L << 20) && n1 >= 1 && n2 >= 1);
  long n = 1L << depth; NEED((n * w) % GMP_LIMB_BITS == 0 && n * w > depth + 1 && n * w / GMP_LIMB_BITS <= 64);
  long bits1 = (n * w - (depth + 1)) / 2; NEED(bits1 >= 1);
  long j1 = (n1 * GMP_LIMB_BITS - 1) / bits1 + 1, j2 = (n2 * GMP_LIMB_BITS - 1) / bits1 + 1;
  NEED(j1 + j2 - 1 <= 4 * n);
  if (same) NEED(n1 == n2);
  long rn = n1 + n2; mp_limb_t *rp = dst_new(rn);
  mpn_mul_mfa_trunc_sqrt2(rp, a[3].d, n1, same ? a[3].d : a[4].d, n2, depth, w);
  out_vec(o, rp, rn); if (!dst_ok(rp, rn)) out_err(o, "oob"); dst_free(rp); return 0;
}

/* fftx_mul_fft_main [u] [v]: the real mpn_mul_fft_main answered by the model (parameter choice of
   Model/FftParams.lean, then the transform-level multiplier it selects); ASSERT(j1 + j2 - 1 > 2*n) at depth 6, w 1;
   n1 + n2 <= 4096 limbs (the driver executes the transforms on exact integers) */
static int op_mul_fft_main(int argc, tok_t *a, out_t *o) {
  NEED(argc == 2 && ISV(a[0]) && ISV(a[1]));
  long n1 = a[0].n, n2 = a[1].n; NEED(n1 >= 1 && n2 >= 1 && n1 + n2 <= 4096);
  long bits = (64 - 7) / 2, j1 = (n1 * GMP_LIMB_BITS - 1) / bits + 1, j2 = (n2 * GMP_LIMB_BITS - 1) / bits + 1;
  NEED(j1 + j2 - 1 > 2 * 64);
  long rn = n1 + n2; mp_limb_t *rp = dst_new(rn);
  mpn_mul_fft_main(rp, a[0].d, n1, a[1].d, n2);
  out_vec(o, rp, rn); if (!dst_ok(rp, rn)) out_err(o, "oob"); dst_free(rp); return 0;
}

const opdef_t ops_fftmfa[] = {
  {"fftx_mfa_outer", op_mfa_outer}, {"fftx_imfa_outer", op_imfa_outer}, {"fftx_mfa_inner", op_mfa_inner},
  {"fftx_mul_mfa", op_mul_mfa}, {"fftx_mul_fft_main", op_mul_fft_main},
  {0, 0}
};
