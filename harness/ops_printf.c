/* Formatted output / input (property C18): gmp_*printf family, gmp_sscanf / gmp_fscanf.

   Every op calls the real library function.  Variable argument lists are built at run time: each
   argument occupies one 64-bit slot and the call passes twelve slots; on the pinned x86-64 SysV ABI
   an `int`, `long`, pointer, `size_t` or `mp_limb_t` va_arg reads exactly one such slot, surplus slots
   are ignored (no floating point arguments are ever passed this way).

   Ops with a glibc column print, after the implementation's answer, what glibc's snprintf gives for
   the equal `long` (type letter replaced by `l`/`ll`) and a flag "both columns equal":
       gmp_snprintf_Z size s<fmt> [star...] x         -> ret sBYTES [gret sGBYTES eq]
       gmp_snprintf_Q size s<fmt> [star...] num den   -> ... (glibc column only when den == 1)
       gmp_snprintf_N size s<fmt> [star...] nsize [limbs]
       gmp_snprintf_M size s<fmt> [star...] limb
       gmp_snprintf_F size s<fmt> [star...] precbits exp nsize [limbs]   -> ret sBYTES   (no glibc column)
   General form (types: one letter per argument, see build_args):
       gmp_snprintf / gmp_vsnprintf size s<fmt> s<types> args...    -> ret sBYTES stores...
       gmp_sprintf gmp_vsprintf gmp_asprintf gmp_vasprintf gmp_fprintf gmp_vfprintf gmp_printf gmp_vprintf
       gmp_obstack_printf gmp_obstack_vprintf   s<fmt> s<types> args...
       gmp_asprintf additionally prints the ledger size of the returned block.
       gmp_sscanf s<fmt> s<types> s<input>   -> ret targets...
       gmp_fscanf s<fmt> s<types> s<input>   -> ret targets... stream-position                       */
#define _GNU_SOURCE
#include <stdarg.h>
#include <stdio.h>
#include <stdlib.h>
#include <obstack.h>
#include "harness.h"
#include <limits.h>
#include <unistd.h>

#define obstack_chunk_alloc malloc
#define obstack_chunk_free free
#define NEED(c) do { if (!(c)) return -1; } while (0)

/* ---------- guarded byte buffers ---------- */
#define CG 32
static unsigned char *cb_new(size_t n) {
  unsigned char *raw = malloc(n + 2 * CG + 1);
  memset(raw, 0xA7, CG); memset(raw + CG, 0xEE, n); memset(raw + CG + n, 0xA7, CG);
  return raw + CG;
}
static int cb_ok(const unsigned char *p, size_t n) {
  for (int i = 1; i <= CG; i++) if (p[-i] != 0xA7) return 0;
  for (int i = 0; i < CG; i++) if (p[n + i] != 0xA7) return 0;
  return 1;
}
static void cb_free(unsigned char *p) { free(p - CG); }

/* ---------- run-time argument lists ---------- */
#define NS 12
#define SLOTS(pa) (pa)->s[0], (pa)->s[1], (pa)->s[2], (pa)->s[3], (pa)->s[4], (pa)->s[5], (pa)->s[6], (pa)->s[7], (pa)->s[8], (pa)->s[9], (pa)->s[10], (pa)->s[11]
typedef struct {
  long s[NS]; int ns;
  mpz_t z[8]; int nz;
  mpq_t q[4]; int nq;
  mpf_t f[2]; int nf;
  mp_limb_t *v[4]; int nv;
  long cell[6]; int ncell;
  char *sbuf[4]; int nsbuf;
  char kind[16]; void *ptr[16]; int nstore;   /* what to print after the call, in order */
} pa_t;

static long num_slot(const tok_t *t) {           /* 64-bit two's complement of the token */
  unsigned long m = t->n ? t->d[0] : 0; return (long)(t->neg ? 0UL - m : m);
}
static int fits_long(const tok_t *t) {
  if (t->n == 0) return 1;
  if (t->n > 1) return 0;
  return t->d[0] <= (mp_limb_t)LONG_MAX || (t->neg && t->d[0] == (mp_limb_t)1 << 63);
}
#define SENTINEL 0x7e57L
/* types, one letter per argument (tokens consumed):
     i  integer scalar: int, long, size_t, char ...  (num)          s  string (str)
     Z  mpz_t (num)     Q  mpq_t (num den, not canonicalised)       M  mp_limb_t (num)
     N  limb array + size (vec, num)                                F  mpf_t (precbits exp size vec)
     n  int-like cell for %n (no token; printed after the call)     z  mpz_t target   q  mpq_t target
     b  char buffer target of 64 bytes (scanf %s / %c)                                             */
static int build_args(pa_t *pa, const char *types, int argc, tok_t *a) {
  memset(pa, 0, sizeof *pa);
  int k = 0;
  for (const char *t = types; *t; t++) {
    if (pa->ns >= NS) return -1;
    switch (*t) {
    case 'i': if (k >= argc || a[k].kind != T_NUM) return -1; pa->s[pa->ns++] = num_slot(&a[k++]); break;
    case 'M': if (k >= argc || a[k].kind != T_NUM || a[k].neg || a[k].n > 1) return -1; pa->s[pa->ns++] = (long)tok_ulong(&a[k++]); break;
    case 's': if (k >= argc || a[k].kind != T_STR) return -1; pa->s[pa->ns++] = (long)a[k++].s; break;
    case 'Z': if (k >= argc || a[k].kind != T_NUM || pa->nz >= 8) return -1;
      mpz_init(pa->z[pa->nz]); tok_mpz(pa->z[pa->nz], &a[k++]); pa->s[pa->ns++] = (long)pa->z[pa->nz++]; break;
    case 'Q': if (k + 1 >= argc || a[k].kind != T_NUM || a[k + 1].kind != T_NUM || pa->nq >= 4) return -1;
      mpq_init(pa->q[pa->nq]); tok_mpz(mpq_numref(pa->q[pa->nq]), &a[k]); tok_mpz(mpq_denref(pa->q[pa->nq]), &a[k + 1]); k += 2;
      pa->s[pa->ns++] = (long)pa->q[pa->nq++]; break;
    case 'N': if (k + 1 >= argc || a[k].kind != T_VEC || a[k + 1].kind != T_NUM || pa->nv >= 4 || pa->ns + 2 > NS) return -1;
      pa->v[pa->nv] = vec_copy(&a[k], 2); pa->s[pa->ns++] = (long)pa->v[pa->nv++]; pa->s[pa->ns++] = num_slot(&a[k + 1]); k += 2; break;
    case 'F': {                                   /* mpf_t: precision in bits, exponent, signed size, limbs */
      if (k + 3 >= argc || a[k].kind != T_NUM || a[k + 1].kind != T_NUM || a[k + 2].kind != T_NUM || a[k + 3].kind != T_VEC || pa->nf >= 2) return -1;
      mpf_init2(pa->f[pa->nf], tok_ulong(&a[k])); mpf_ptr f = pa->f[pa->nf];
      long sz = tok_long(&a[k + 2]), n = sz < 0 ? -sz : sz;
      if (n != a[k + 3].n || n > f->_mp_prec + 1 || (n > 0 && a[k + 3].d[n - 1] == 0)) { mpf_clear(f); return -1; }
      for (long i = 0; i < n; i++) f->_mp_d[i] = a[k + 3].d[i];
      f->_mp_size = (int)sz; f->_mp_exp = n ? tok_long(&a[k + 1]) : 0;
      pa->s[pa->ns++] = (long)f; pa->nf++; k += 4; break; }
    case 'n': if (pa->ncell >= 6) return -1; pa->cell[pa->ncell] = 0; pa->s[pa->ns++] = (long)&pa->cell[pa->ncell];
      pa->kind[pa->nstore] = 'n'; pa->ptr[pa->nstore++] = &pa->cell[pa->ncell++]; break;
    case 'l': if (pa->ncell >= 6) return -1; pa->cell[pa->ncell] = SENTINEL; pa->s[pa->ns++] = (long)&pa->cell[pa->ncell];
      pa->kind[pa->nstore] = 'n'; pa->ptr[pa->nstore++] = &pa->cell[pa->ncell++]; break;
    case 'z': if (pa->nz >= 8) return -1; mpz_init_set_si(pa->z[pa->nz], SENTINEL); pa->s[pa->ns++] = (long)pa->z[pa->nz];
      pa->kind[pa->nstore] = 'z'; pa->ptr[pa->nstore++] = pa->z[pa->nz++]; break;
    case 'q': if (pa->nq >= 4) return -1; mpq_init(pa->q[pa->nq]); mpq_set_si(pa->q[pa->nq], SENTINEL, 1); pa->s[pa->ns++] = (long)pa->q[pa->nq];
      pa->kind[pa->nstore] = 'q'; pa->ptr[pa->nstore++] = pa->q[pa->nq++]; break;
    case 'b': if (pa->nsbuf >= 4) return -1; pa->sbuf[pa->nsbuf] = calloc(1, 64); pa->s[pa->ns++] = (long)pa->sbuf[pa->nsbuf];
      pa->kind[pa->nstore] = 'b'; pa->ptr[pa->nstore++] = pa->sbuf[pa->nsbuf++]; break;
    default: return -1;
    }
  }
  return k;
}
static void out_stores(pa_t *pa, out_t *o) {
  for (int i = 0; i < pa->nstore; i++) {
    if (pa->kind[i] == 'n') out_long(o, *(long *)pa->ptr[i]);
    else if (pa->kind[i] == 'z') out_mpz(o, (mpz_srcptr)pa->ptr[i]);
    else if (pa->kind[i] == 'q') out_mpq(o, (mpq_srcptr)pa->ptr[i]);
    else if (pa->kind[i] == 'b') out_bytes(o, pa->ptr[i], strnlen(pa->ptr[i], 64));
  }
}
static void free_args(pa_t *pa) {
  for (int i = 0; i < pa->nz; i++) mpz_clear(pa->z[i]);
  for (int i = 0; i < pa->nq; i++) mpq_clear(pa->q[i]);
  for (int i = 0; i < pa->nf; i++) mpf_clear(pa->f[i]);
  for (int i = 0; i < pa->nv; i++) free(pa->v[i]);
  for (int i = 0; i < pa->nsbuf; i++) free(pa->sbuf[i]);
}

/* ---------- the output family ---------- */
enum { K_SN, K_VSN, K_S, K_VS, K_AS, K_VAS, K_F, K_VF, K_P, K_VP, K_OB, K_VOB };
static int vcall(int k, void *a, size_t size, const char *fmt, ...) {
  va_list ap; va_start(ap, fmt); int r = -99;
  switch (k) {
  case K_VSN: r = gmp_vsnprintf(a, size, fmt, ap); break;
  case K_VS: r = gmp_vsprintf(a, fmt, ap); break;
  case K_VAS: r = gmp_vasprintf(a, fmt, ap); break;
  case K_VF: r = gmp_vfprintf(a, fmt, ap); break;
  case K_VP: r = gmp_vprintf(fmt, ap); break;
  case K_VOB: r = gmp_obstack_vprintf(a, fmt, ap); break;
  }
  va_end(ap); return r;
}
/* bounded output: ret, bytes up to the terminator, !nonul / !oob */
static void out_bounded(out_t *o, int ret, unsigned char *buf, size_t size) {
  out_long(o, ret);
  if (size == 0) out_bytes(o, "", 0);
  else {
    unsigned char *e = memchr(buf, 0, size);
    if (e) out_bytes(o, buf, e - buf); else { out_bytes(o, buf, size); out_err(o, "nonul"); }
  }
  if (!cb_ok(buf, size)) out_err(o, "oob");
}
#define BIG 8192
static int run_fam(int k, size_t size, const char *fmt, pa_t *pa, out_t *o) {
  int ret;
  switch (k) {
  case K_SN: case K_VSN: {
    unsigned char *buf = cb_new(size);
    ret = k == K_SN ? gmp_snprintf((char *)buf, size, fmt, SLOTS(pa)) : vcall(k, buf, size, fmt, SLOTS(pa));
    out_bounded(o, ret, buf, size); cb_free(buf); break; }
  case K_S: case K_VS: {
    unsigned char *buf = cb_new(BIG);
    ret = k == K_S ? gmp_sprintf((char *)buf, fmt, SLOTS(pa)) : vcall(k, buf, 0, fmt, SLOTS(pa));
    out_bounded(o, ret, buf, BIG); cb_free(buf); break; }
  case K_AS: case K_VAS: {
    char *p = NULL;
    ret = k == K_AS ? gmp_asprintf(&p, fmt, SLOTS(pa)) : vcall(k, &p, 0, fmt, SLOTS(pa));
    out_long(o, ret);
    if (!p) { out_err(o, "null"); break; }
    size_t blk = h_block_size(p);
    if (blk == (size_t)-1) { out_err(o, "notablock"); break; }
    size_t len = strnlen(p, blk);
    out_bytes(o, p, len); out_ulong(o, blk);
    void (*ff)(void *, size_t); mp_get_memory_functions(NULL, NULL, &ff);
    ff(p, len + 1);                                   /* what the manual tells the caller to do; a wrong block size shows as !alloc:free-size */
    break; }
  case K_F: case K_VF: {
    char *mp = NULL; size_t ml = 0; FILE *fp = open_memstream(&mp, &ml);
    ret = k == K_F ? gmp_fprintf(fp, fmt, SLOTS(pa)) : vcall(k, fp, 0, fmt, SLOTS(pa));
    fclose(fp); out_long(o, ret); out_bytes(o, mp, ml); free(mp); break; }
  case K_P: case K_VP: {
    fflush(stdout); int save = dup(1); FILE *t = tmpfile(); dup2(fileno(t), 1);
    ret = k == K_P ? gmp_printf(fmt, SLOTS(pa)) : vcall(k, 0, 0, fmt, SLOTS(pa));
    fflush(stdout); dup2(save, 1); close(save);
    rewind(t); static char tb[BIG]; size_t n = fread(tb, 1, BIG, t); fclose(t);
    out_long(o, ret); out_bytes(o, tb, n); break; }
  case K_OB: case K_VOB: {
    struct obstack ob; obstack_init(&ob);
    obstack_grow(&ob, "ab", 2);                        /* the call appends to the current object */
    ret = k == K_OB ? gmp_obstack_printf(&ob, fmt, SLOTS(pa)) : vcall(k, &ob, 0, fmt, SLOTS(pa));
    size_t n = obstack_object_size(&ob); char *p = obstack_finish(&ob);
    out_long(o, ret); out_bytes(o, p, n); obstack_free(&ob, NULL); break; }
  default: return -1;
  }
  return 0;
}
static int gen_fam(int k, int sized, int argc, tok_t *a, out_t *o) {
  int b = sized ? 1 : 0;
  NEED(argc >= b + 2 && a[b].kind == T_STR && a[b + 1].kind == T_STR);
  if (sized) NEED(a[0].kind == T_NUM && !a[0].neg && a[0].n <= 1);
  size_t size = sized ? tok_ulong(&a[0]) : 0; NEED(size <= 1 << 20);
  pa_t pa; int used = build_args(&pa, (char *)a[b + 1].s, argc - b - 2, a + b + 2);
  if (used != argc - b - 2) { free_args(&pa); return -1; }
  int r = run_fam(k, size, (char *)a[b].s, &pa, o);
  out_stores(&pa, o); free_args(&pa); return r;
}
#define FAM(name, k, sized) static int name(int c, tok_t *a, out_t *o) { return gen_fam(k, sized, c, a, o); }
FAM(op_snprintf, K_SN, 1) FAM(op_vsnprintf, K_VSN, 1) FAM(op_sprintf, K_S, 0) FAM(op_vsprintf, K_VS, 0)
FAM(op_asprintf, K_AS, 0) FAM(op_vasprintf, K_VAS, 0) FAM(op_fprintf, K_F, 0) FAM(op_vfprintf, K_VF, 0)
FAM(op_printf, K_P, 0) FAM(op_vprintf, K_VP, 0) FAM(op_obprintf, K_OB, 0) FAM(op_obvprintf, K_VOB, 0)

/* ---------- single MPIR conversion with the glibc column ---------- */
static int count_stars(const char *f) { int n = 0; for (; *f; f++) if (*f == '*') n++; return n; }
/* ty: 'Z','Q','N','M'.  Tokens after the stars: Z: x | Q: num den | N: nsize [limbs] | M: limb */
static int one_conv(int ty, int argc, tok_t *a, out_t *o) {
  NEED(argc >= 3 && a[0].kind == T_NUM && !a[0].neg && a[0].n <= 1 && a[1].kind == T_STR);
  size_t size = tok_ulong(&a[0]); NEED(size <= 1 << 16);
  const char *fmt = (char *)a[1].s; int ns = count_stars(fmt); NEED(ns <= 2);
  char types[8]; int i = 0; for (; i < ns; i++) types[i] = 'i';
  types[i++] = ty; types[i] = 0;
  tok_t *v = a + 2 + ns; int nv = argc - 2 - ns;
  tok_t args[6]; int na = 0;
  for (int j = 0; j < ns; j++) args[na++] = a[2 + j];
  int cmp = 0; long lv = 0;
  if (ty == 'Z') { NEED(nv == 1 && v[0].kind == T_NUM); args[na++] = v[0]; cmp = fits_long(&v[0]); lv = num_slot(&v[0]); }
  else if (ty == 'M') { NEED(nv == 1 && v[0].kind == T_NUM); args[na++] = v[0]; cmp = 1; lv = num_slot(&v[0]); }
  else if (ty == 'Q') { NEED(nv == 2 && v[0].kind == T_NUM && v[1].kind == T_NUM); args[na++] = v[0]; args[na++] = v[1];
    cmp = fits_long(&v[0]) && v[1].n == 1 && v[1].d[0] == 1 && !v[1].neg; lv = num_slot(&v[0]); }
  else { NEED(nv == 2 && v[0].kind == T_NUM && v[1].kind == T_VEC); args[na++] = v[1]; args[na++] = v[0];
    long sz = tok_long(&v[0]), n = sz < 0 ? -sz : sz; NEED(n == v[1].n);
    while (n > 0 && v[1].d[n - 1] == 0) n--;
    tok_t t = { T_NUM, sz < 0, v[1].d, n, 0, 0 }; cmp = fits_long(&t); lv = num_slot(&t); }
  pa_t pa; int used = build_args(&pa, types, na, args);
  if (used != na) { free_args(&pa); return -1; }
  unsigned char *buf = cb_new(size);
  int ret = gmp_snprintf((char *)buf, size, fmt, SLOTS(&pa));
  out_bounded(o, ret, buf, size);
  if (cmp) {
    char lf[80]; NEED(strlen(fmt) < 70);
    const char *p = strchr(fmt, ty); NEED(p);
    size_t pre = p - fmt; memcpy(lf, fmt, pre); strcpy(lf + pre, ty == 'M' ? "ll" : "l"); strcat(lf, p + 1);
    unsigned char *gb = cb_new(size); long s0 = pa.s[0], s1 = pa.s[1]; int gret;
    if (ns == 0) gret = snprintf((char *)gb, size, lf, lv);
    else if (ns == 1) gret = snprintf((char *)gb, size, lf, (int)s0, lv);
    else gret = snprintf((char *)gb, size, lf, (int)s0, (int)s1, lv);
    out_bounded(o, gret, gb, size);
    size_t l1 = size ? strnlen((char *)buf, size) : 0, l2 = size ? strnlen((char *)gb, size) : 0;
    out_long(o, ret == gret && l1 == l2 && memcmp(buf, gb, l1) == 0);
    cb_free(gb);
  }
  cb_free(buf); free_args(&pa); return 0;
}
/* gmp_snprintf_F size s<fmt> [star...] precbits exp nsize [limbs] : the general op with types "i..F" */
static int op_sn_F(int argc, tok_t *a, out_t *o) {
  NEED(argc >= 6 && argc <= 8 && a[1].kind == T_STR);
  int ns = count_stars((char *)a[1].s); NEED(ns == argc - 6);
  unsigned char ty[8]; int i = 0; for (; i < ns; i++) ty[i] = 'i';
  ty[i++] = 'F'; ty[i] = 0;
  tok_t b[12]; b[0] = a[0]; b[1] = a[1]; memset(&b[2], 0, sizeof b[2]); b[2].kind = T_STR; b[2].s = ty; b[2].slen = i;
  for (int j = 2; j < argc; j++) b[j + 1] = a[j];
  return gen_fam(K_SN, 1, argc + 1, b, o);
}
static int op_sn_Z(int c, tok_t *a, out_t *o) { return one_conv('Z', c, a, o); }
static int op_sn_Q(int c, tok_t *a, out_t *o) { return one_conv('Q', c, a, o); }
static int op_sn_N(int c, tok_t *a, out_t *o) { return one_conv('N', c, a, o); }
static int op_sn_M(int c, tok_t *a, out_t *o) { return one_conv('M', c, a, o); }

/* ---------- input ---------- */
static int vscan(int file, void *src, const char *fmt, ...) {
  va_list ap; va_start(ap, fmt);
  int r = file ? gmp_vfscanf(src, fmt, ap) : gmp_vsscanf(src, fmt, ap);
  va_end(ap); return r;
}
/* mode 0: gmp_sscanf, 1: gmp_fscanf on fmemopen, 2: gmp_vsscanf, 3: gmp_vfscanf */
static int do_scan(int mode, int argc, tok_t *a, out_t *o) {
  NEED(argc == 3 && a[0].kind == T_STR && a[1].kind == T_STR && a[2].kind == T_STR);
  NEED((long)strlen((char *)a[2].s) == a[2].slen);          /* no embedded NUL: the string functions stop there */
  pa_t pa; NEED(build_args(&pa, (char *)a[1].s, 0, a) == 0);
  int ret; long pos = -1;
  if (mode == 0) ret = gmp_sscanf((char *)a[2].s, (char *)a[0].s, SLOTS(&pa));
  else if (mode == 2) ret = vscan(0, a[2].s, (char *)a[0].s, SLOTS(&pa));
  else {
    static char one[1] = { 0 };
    FILE *fp = a[2].slen ? fmemopen(a[2].s, a[2].slen, "r") : fmemopen(one, 1, "r");
    if (!a[2].slen) fgetc(fp);                               /* empty input: a stream already at EOF */
    ret = mode == 1 ? gmp_fscanf(fp, (char *)a[0].s, SLOTS(&pa)) : vscan(1, fp, (char *)a[0].s, SLOTS(&pa));
    pos = a[2].slen ? ftell(fp) : 0; fclose(fp);
  }
  out_long(o, ret); out_stores(&pa, o);
  if (pos >= 0) out_long(o, pos);
  free_args(&pa); return 0;
}
static int op_sscanf(int c, tok_t *a, out_t *o) { return do_scan(0, c, a, o); }
static int op_fscanf(int c, tok_t *a, out_t *o) { return do_scan(1, c, a, o); }
static int op_vsscanf(int c, tok_t *a, out_t *o) { return do_scan(2, c, a, o); }
static int op_vfscanf(int c, tok_t *a, out_t *o) { return do_scan(3, c, a, o); }

/* gmp_print_scan_Z s<pfmt> s<sfmt> x : gmp_snprintf (pfmt, x), then gmp_sscanf (that text, sfmt, y)
   -> sTEXT ret y (y == x).      gmp_print_scan_Q s<pfmt> s<sfmt> num den -> sTEXT ret ynum yden equal */
static int print_scan(int q, int argc, tok_t *a, out_t *o) {
  NEED(argc == (q ? 4 : 3) && a[0].kind == T_STR && a[1].kind == T_STR && a[2].kind == T_NUM && (!q || a[3].kind == T_NUM));
  unsigned char *buf = cb_new(BIG);
  if (!q) {
    mpz_t x, y; mpz_init(x); tok_mpz(x, &a[2]); mpz_init_set_si(y, SENTINEL);
    int r = gmp_snprintf((char *)buf, BIG, (char *)a[0].s, x);
    if (r < 0 || r >= BIG) { out_err(o, "toolong"); }
    else {
      out_bytes(o, buf, strlen((char *)buf));
      int k = gmp_sscanf((char *)buf, (char *)a[1].s, y);
      out_long(o, k); out_mpz(o, y); out_long(o, mpz_cmp(x, y) == 0);
    }
    mpz_clear(x); mpz_clear(y);
  } else {
    mpq_t x, y; mpq_init(x); mpq_init(y); tok_mpz(mpq_numref(x), &a[2]); tok_mpz(mpq_denref(x), &a[3]); mpq_set_si(y, SENTINEL, 1);
    int r = gmp_snprintf((char *)buf, BIG, (char *)a[0].s, x);
    if (r < 0 || r >= BIG) { out_err(o, "toolong"); }
    else {
      out_bytes(o, buf, strlen((char *)buf));
      int k = gmp_sscanf((char *)buf, (char *)a[1].s, y);
      out_long(o, k); out_mpq(o, y);
      out_long(o, mpz_cmp(mpq_numref(x), mpq_numref(y)) == 0 && mpz_cmp(mpq_denref(x), mpq_denref(y)) == 0);
    }
    mpq_clear(x); mpq_clear(y);
  }
  if (!cb_ok(buf, BIG)) out_err(o, "oob");
  cb_free(buf); return 0;
}
static int op_ps_Z(int c, tok_t *a, out_t *o) { return print_scan(0, c, a, o); }
static int op_ps_Q(int c, tok_t *a, out_t *o) { return print_scan(1, c, a, o); }

const opdef_t ops_printf[] = {
  {"gmp_print_scan_Z", op_ps_Z}, {"gmp_print_scan_Q", op_ps_Q},
  {"gmp_snprintf_Z", op_sn_Z}, {"gmp_snprintf_Q", op_sn_Q}, {"gmp_snprintf_N", op_sn_N}, {"gmp_snprintf_M", op_sn_M}, {"gmp_snprintf_F", op_sn_F},
  {"gmp_snprintf", op_snprintf}, {"gmp_snprintf_mixed", op_snprintf}, {"gmp_vsnprintf", op_vsnprintf},
  {"gmp_sprintf", op_sprintf}, {"gmp_vsprintf", op_vsprintf}, {"gmp_asprintf", op_asprintf}, {"gmp_vasprintf", op_vasprintf},
  {"gmp_fprintf", op_fprintf}, {"gmp_vfprintf", op_vfprintf}, {"gmp_printf", op_printf}, {"gmp_vprintf", op_vprintf},
  {"gmp_obstack_printf", op_obprintf}, {"gmp_obstack_vprintf", op_obvprintf},
  {"gmp_sscanf", op_sscanf}, {"gmp_fscanf", op_fscanf}, {"gmp_vsscanf", op_vsscanf}, {"gmp_vfscanf", op_vfscanf},
  {0, 0}
};
