/* Property C16: factorials, binomials, Fibonacci/Lucas numbers, mpz_remove, primality.
   Exact ops print the value(s) the library produced; primality ops print the returned code / value and
   are judged by the property's predicate in lean/Mpir/Ops/Numth.lean.
   Random states are gmp_randinit_default + gmp_randseed_ui (seed token), so every run is reproducible. */
#include "harness.h"
#include "gmp-impl.h"
#define NEED(c) do { if (!(c)) return -1; } while (0)
#define IS_UI(t) ((t).kind == T_NUM && !(t).neg && (t).n <= 1)

typedef void (*f_ui_t)(mpz_ptr, mpir_ui);
static int do_ui(f_ui_t f, int argc, tok_t *a, out_t *o) {
  NEED(argc == 1 && IS_UI(a[0]));
  mpz_t r; mpz_init2(r, 1);                       /* pre-shrunk: the call must size it */
  f(r, tok_ulong(&a[0]));
  out_mpz(o, r); mpz_clear(r); return 0;
}
static int op_fac_ui(int c, tok_t *a, out_t *o) { return do_ui(mpz_fac_ui, c, a, o); }
static int op_2fac_ui(int c, tok_t *a, out_t *o) { return do_ui(mpz_2fac_ui, c, a, o); }
static int op_primorial_ui(int c, tok_t *a, out_t *o) { return do_ui(mpz_primorial_ui, c, a, o); }
static int op_fib_ui(int c, tok_t *a, out_t *o) { return do_ui(mpz_fib_ui, c, a, o); }
static int op_lucnum_ui(int c, tok_t *a, out_t *o) { return do_ui(mpz_lucnum_ui, c, a, o); }

typedef void (*f_uiui_t)(mpz_ptr, mpir_ui, mpir_ui);
static int do_uiui(f_uiui_t f, int argc, tok_t *a, out_t *o) {
  NEED(argc == 2 && IS_UI(a[0]) && IS_UI(a[1]));
  mpz_t r; mpz_init2(r, 1);
  f(r, tok_ulong(&a[0]), tok_ulong(&a[1]));
  out_mpz(o, r); mpz_clear(r); return 0;
}
static int op_mfac_uiui(int c, tok_t *a, out_t *o) { return do_uiui(mpz_mfac_uiui, c, a, o); }
static int op_bin_uiui(int c, tok_t *a, out_t *o) { return do_uiui(mpz_bin_uiui, c, a, o); }

static int op_bin_ui(int argc, tok_t *a, out_t *o) {
  NEED(argc == 2 && a[0].kind == T_NUM && IS_UI(a[1]));
  mpz_t n, r; mpz_init(n); mpz_init2(r, 1); tok_mpz(n, &a[0]);
  mpz_bin_ui(r, n, tok_ulong(&a[1]));
  out_mpz(o, r); mpz_clear(n); mpz_clear(r); return 0;
}

typedef void (*f2_ui_t)(mpz_ptr, mpz_ptr, mpir_ui);
static int do2_ui(f2_ui_t f, int argc, tok_t *a, out_t *o) {
  NEED(argc == 1 && IS_UI(a[0]));
  mpz_t r, s; mpz_init2(r, 1); mpz_init2(s, 1);
  f(r, s, tok_ulong(&a[0]));
  out_mpz(o, r); out_mpz(o, s); mpz_clear(r); mpz_clear(s); return 0;
}
static int op_fib2_ui(int c, tok_t *a, out_t *o) { return do2_ui(mpz_fib2_ui, c, a, o); }
static int op_lucnum2_ui(int c, tok_t *a, out_t *o) { return do2_ui(mpz_lucnum2_ui, c, a, o); }

/* mpn_fib2_ui n -> [fp limbs] [f1p limbs] size ; both destinations have MPN_FIB2_SIZE(n) limbs between guards */
static int op_mpn_fib2_ui(int argc, tok_t *a, out_t *o) {
  NEED(argc == 1 && IS_UI(a[0]));
  mpir_ui n = tok_ulong(&a[0]); long alloc = MPN_FIB2_SIZE(n);
  mp_limb_t *fp = dst_new(alloc), *f1p = dst_new(alloc);
  mp_size_t size = mpn_fib2_ui(fp, f1p, n);
  if (size < 1 || size > alloc) out_err(o, "oob");
  else { out_vec(o, fp, size); out_vec(o, f1p, size); out_long(o, size); }
  if (!dst_ok(fp, alloc) || !dst_ok(f1p, alloc)) out_err(o, "oob");
  dst_free(fp); dst_free(f1p); return 0;
}

/* mpz_remove x f -> value count | !fpe (DIVIDE_BY_ZERO for f <= 1) */
static int op_remove(int argc, tok_t *a, out_t *o) {
  NEED(argc == 2 && a[0].kind == T_NUM && a[1].kind == T_NUM);
  mpz_t x, f, r; mpz_init(x); mpz_init(f); mpz_init2(r, 1); tok_mpz(x, &a[0]); tok_mpz(f, &a[1]);
  mp_bitcnt_t c = 0;
  int e = GUARD(c = mpz_remove(r, x, f));
  if (e) out_exc(o, e); else { out_mpz(o, r); out_ulong(o, c); }
  mpz_clear(x); mpz_clear(f); mpz_clear(r); return 0;
}

/* ---- primality (predicate ops) ---- */
static void rs_init(gmp_randstate_t st, const tok_t *seed) { gmp_randinit_default(st); gmp_randseed_ui(st, tok_ulong(seed)); }

static int op_probab_prime_p(int argc, tok_t *a, out_t *o) {      /* n reps */
  NEED(argc == 2 && a[0].kind == T_NUM && IS_UI(a[1]));
  mpz_t n; mpz_init(n); tok_mpz(n, &a[0]);
  out_long(o, mpz_probab_prime_p(n, (int)tok_ulong(&a[1])));
  mpz_clear(n); return 0;
}
static int op_probable_prime_p(int argc, tok_t *a, out_t *o) {    /* n prob seed */
  NEED(argc == 3 && a[0].kind == T_NUM && IS_UI(a[1]) && IS_UI(a[2]));
  mpz_t n; mpz_init(n); tok_mpz(n, &a[0]); gmp_randstate_t st; rs_init(st, &a[2]);
  out_long(o, mpz_probable_prime_p(n, st, (int)tok_ulong(&a[1]), 0));
  gmp_randclear(st); mpz_clear(n); return 0;
}
static int op_likely_prime_p(int argc, tok_t *a, out_t *o) {      /* n seed */
  NEED(argc == 2 && a[0].kind == T_NUM && IS_UI(a[1]));
  mpz_t n; mpz_init(n); tok_mpz(n, &a[0]); gmp_randstate_t st; rs_init(st, &a[1]);
  out_long(o, mpz_likely_prime_p(n, st, 0));
  gmp_randclear(st); mpz_clear(n); return 0;
}
static int op_miller_rabin(int argc, tok_t *a, out_t *o) {        /* n reps seed */
  NEED(argc == 3 && a[0].kind == T_NUM && !a[0].neg && IS_UI(a[1]) && IS_UI(a[2]));
  mpz_t n; mpz_init(n); tok_mpz(n, &a[0]); gmp_randstate_t st; rs_init(st, &a[2]);
  int r = 0, e = GUARD(r = mpz_miller_rabin(n, (int)tok_ulong(&a[1]), st));
  if (e) out_exc(o, e); else out_long(o, r);
  gmp_randclear(st); mpz_clear(n); return 0;
}
static int op_millerrabin(int argc, tok_t *a, out_t *o) {         /* n reps : the wrapper with its own default state */
  NEED(argc == 2 && a[0].kind == T_NUM && !a[0].neg && IS_UI(a[1]));
  mpz_t n; mpz_init(n); tok_mpz(n, &a[0]);
  int r = 0, e = GUARD(r = mpz_millerrabin(n, (int)tok_ulong(&a[1])));
  if (e) out_exc(o, e); else out_long(o, r);
  mpz_clear(n); return 0;
}
static int op_nextprime(int argc, tok_t *a, out_t *o) {           /* n */
  NEED(argc == 1 && a[0].kind == T_NUM);
  mpz_t n, r; mpz_init(n); mpz_init2(r, 1); tok_mpz(n, &a[0]);
  mpz_nextprime(r, n);
  out_mpz(o, r); mpz_clear(n); mpz_clear(r); return 0;
}
static int op_next_prime_candidate(int argc, tok_t *a, out_t *o) {  /* n seed */
  NEED(argc == 2 && a[0].kind == T_NUM && IS_UI(a[1]));
  mpz_t n, r; mpz_init(n); mpz_init2(r, 1); tok_mpz(n, &a[0]); gmp_randstate_t st; rs_init(st, &a[1]);
  mpz_next_prime_candidate(r, n, st);
  out_mpz(o, r); gmp_randclear(st); mpz_clear(n); mpz_clear(r); return 0;
}

const opdef_t ops_numth[] = {
  {"mpz_fac_ui", op_fac_ui}, {"mpz_2fac_ui", op_2fac_ui}, {"mpz_mfac_uiui", op_mfac_uiui}, {"mpz_primorial_ui", op_primorial_ui},
  {"mpz_bin_ui", op_bin_ui}, {"mpz_bin_uiui", op_bin_uiui},
  {"mpz_fib_ui", op_fib_ui}, {"mpz_fib2_ui", op_fib2_ui}, {"mpz_lucnum_ui", op_lucnum_ui}, {"mpz_lucnum2_ui", op_lucnum2_ui},
  {"mpn_fib2_ui", op_mpn_fib2_ui}, {"mpz_remove", op_remove},
  {"mpz_probab_prime_p", op_probab_prime_p}, {"mpz_probable_prime_p", op_probable_prime_p}, {"mpz_likely_prime_p", op_likely_prime_p},
  {"mpz_miller_rabin", op_miller_rabin}, {"mpz_millerrabin", op_millerrabin},
  {"mpz_nextprime", op_nextprime}, {"mpz_next_prime_candidate", op_next_prime_candidate},
  {0, 0}
};
