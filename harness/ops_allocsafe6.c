/* C04 part allocsafe6 (conventions of ops_allocsafe4.c): the mpq arithmetic on variables whose two fields are mpz objects of
   GIVEN allocations (token pair `alloc value`, alloc >= max (limbs of value, 1): the block has exactly alloc limbs, the unused
   ones poisoned by the recording allocator).
     as6_add / as6_sub / as6_mul / as6_div   mode  rn rd  an ad  bn bd     (six token pairs; dens > 0)
        mode 0 rop, op1, op2 distinct   1 rop is op1   2 rop is op2   3 op1 is op2 (rop distinct)   4 all one variable
     as6_mul_2exp / as6_div_2exp   mode  dn dd  sn sd  n                  mode 0 distinct, 1 dst is src
   Output: ALLOC SIZ value of NUM (rop), then of DEN (rop) — compared exactly with the size-aware models of
   lean/Mpir/Model/AllocSafeMpq6.lean; the recording allocator / red zones turn an overrun into a marker. */
#include <string.h>
#include "harness.h"
#include "gmp-impl.h"
#define NEED(c) do { if (!(c)) return -1; } while (0)

static int mk(mpz_ptr z, const tok_t *al, const tok_t *v) {
  if (!(al->kind == T_NUM && !al->neg && al->n <= 1 && v->kind == T_NUM)) return -1;
  unsigned long alloc = tok_ulong(al);
  if (alloc < 1 || alloc > (1UL << 20) || (unsigned long)v->n > alloc) return -1;
  mpz_init2(z, alloc * GMP_NUMB_BITS);
  if ((unsigned long)ALLOC(z) != alloc) { mpz_clear(z); return -1; }
  for (long i = 0; i < v->n; i++) PTR(z)[i] = v->d[i];
  SIZ(z) = v->neg ? -(int)v->n : (int)v->n;
  return 0;
}
static void outw(out_t *o, mpz_srcptr w) { out_long(o, ALLOC(w)); out_long(o, SIZ(w)); out_mpz(o, w); }
static long mode_of(const tok_t *t) { return (t->kind == T_NUM && !t->neg && t->n <= 1) ? (long)tok_ulong(t) : -1; }

/* builds k mpq variables from 2k token pairs starting at a[1]; every den must be > 0 */
static int mkq(mpq_t *q, int k, tok_t *a) {
  mpz_t z[6]; int i, n = 2 * k, bad = 0;
  for (i = 0; i < n; i++) if (mk(z[i], &a[1 + 2 * i], &a[2 + 2 * i])) { while (i--) mpz_clear(z[i]); return -1; }
  for (i = 0; i < k; i++) if (SIZ(z[2 * i + 1]) <= 0) bad = 1;
  if (bad) { for (i = 0; i < n; i++) mpz_clear(z[i]); return -1; }
  for (i = 0; i < k; i++) { *mpq_numref(q[i]) = *z[2 * i]; *mpq_denref(q[i]) = *z[2 * i + 1]; }
  return 0;
}

typedef void (*q3_t)(mpq_ptr, mpq_srcptr, mpq_srcptr);
static int do3(q3_t f, int argc, tok_t *a, out_t *o) {
  NEED(argc == 13); long m = mode_of(&a[0]); NEED(m >= 0 && m <= 4);
  mpq_t q[3]; int e;
  NEED(mkq(q, 3, a) == 0);
  mpq_ptr R = q[0], A = q[1], B = q[2];
  switch (m) {
    case 1: R = A; break;
    case 2: R = B; break;
    case 3: B = A; break;
    case 4: R = A; B = A; break;
  }
  e = GUARD(f(R, A, B));
  if (e) out_err(o, "div0"); else { outw(o, mpq_numref(R)); outw(o, mpq_denref(R)); }
  mpq_clear(q[0]); mpq_clear(q[1]); mpq_clear(q[2]); return 0;
}
static int op_add(int argc, tok_t *a, out_t *o) { return do3(mpq_add, argc, a, o); }
static int op_sub(int argc, tok_t *a, out_t *o) { return do3(mpq_sub, argc, a, o); }
static int op_mul(int argc, tok_t *a, out_t *o) { return do3(mpq_mul, argc, a, o); }
static int op_div(int argc, tok_t *a, out_t *o) { return do3(mpq_div, argc, a, o); }

typedef void (*q2e_t)(mpq_ptr, mpq_srcptr, mp_bitcnt_t);
static int do2e(q2e_t f, int argc, tok_t *a, out_t *o) {
  NEED(argc == 10); long m = mode_of(&a[0]); NEED(m == 0 || m == 1);
  NEED(a[9].kind == T_NUM && !a[9].neg && a[9].n <= 1);
  unsigned long n = tok_ulong(&a[9]); NEED(n < (1UL << 24));
  mpq_t q[2];
  NEED(mkq(q, 2, a) == 0);
  mpq_ptr D = m == 1 ? q[1] : q[0];
  f(D, q[1], n);
  outw(o, mpq_numref(D)); outw(o, mpq_denref(D));
  mpq_clear(q[0]); mpq_clear(q[1]); return 0;
}
static int op_mul_2exp(int argc, tok_t *a, out_t *o) { return do2e(mpq_mul_2exp, argc, a, o); }
static int op_div_2exp(int argc, tok_t *a, out_t *o) { return do2e(mpq_div_2exp, argc, a, o); }

const opdef_t ops_allocsafe6[] = {
  {"as6_add", op_add}, {"as6_sub", op_sub}, {"as6_mul", op_mul}, {"as6_div", op_div},
  {"as6_mul_2exp", op_mul_2exp}, {"as6_div_2exp", op_div_2exp},
  {0, 0}
};
