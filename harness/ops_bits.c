/* C10 — bitwise functions: the mpn logic kernels, popcount/hamdist/scan, and the mpz two's-complement layer.
   gmp-impl.h is deliberately NOT included: it would turn mpn_and_n & co. into inline macros, and the ops must
   call the library's entry points. */
#include "harness.h"
#define NEED(c) do { if (!(c)) return -1; } while (0)
#define FIN(rp, n) do { if (!dst_ok(rp, n)) out_err(o, "oob"); dst_free(rp); } while (0)
#define IS_IDX(t) ((t).kind == T_NUM && !(t).neg && (t).n <= 1)

/* ---- mpn logic: `op [u] [v]` separate destination; `op [u] [v] mode` with mode 1: rp==up, 2: rp==vp,
   3: rp==up==vp (u's data for both) — the overlaps the manual permits */
typedef void (*l3_t)(mp_ptr, mp_srcptr, mp_srcptr, mp_size_t);
static int do_logic(l3_t f, int argc, tok_t *a, out_t *o) {
  NEED((argc == 2 || argc == 3) && a[0].kind == T_VEC && a[1].kind == T_VEC && a[0].n == a[1].n && a[0].n >= 1);
  long n = a[0].n, mode = 0;
  if (argc == 3) { NEED(a[2].kind == T_NUM); mode = tok_long(&a[2]); NEED(mode >= 0 && mode <= 3); }
  mp_limb_t *rp = dst_new(n);
  if (mode == 0) f(rp, a[0].d, a[1].d, n);
  else if (mode == 1) { memcpy(rp, a[0].d, n * 8); f(rp, rp, a[1].d, n); }
  else if (mode == 2) { memcpy(rp, a[1].d, n * 8); f(rp, a[0].d, rp, n); }
  else { memcpy(rp, a[0].d, n * 8); f(rp, rp, rp, n); }
  out_vec(o, rp, n); FIN(rp, n); return 0;
}
static int op_and_n(int c, tok_t *a, out_t *o) { return do_logic(mpn_and_n, c, a, o); }
static int op_andn_n(int c, tok_t *a, out_t *o) { return do_logic(mpn_andn_n, c, a, o); }
static int op_nand_n(int c, tok_t *a, out_t *o) { return do_logic(mpn_nand_n, c, a, o); }
static int op_ior_n(int c, tok_t *a, out_t *o) { return do_logic(mpn_ior_n, c, a, o); }
static int op_iorn_n(int c, tok_t *a, out_t *o) { return do_logic(mpn_iorn_n, c, a, o); }
static int op_nior_n(int c, tok_t *a, out_t *o) { return do_logic(mpn_nior_n, c, a, o); }
static int op_xor_n(int c, tok_t *a, out_t *o) { return do_logic(mpn_xor_n, c, a, o); }
static int op_xnor_n(int c, tok_t *a, out_t *o) { return do_logic(mpn_xnor_n, c, a, o); }

/* `mpn_com_n [u]` / `mpn_com_n [u] 1` (in place) */
static int op_com_n(int argc, tok_t *a, out_t *o) {
  NEED((argc == 1 || argc == 2) && a[0].kind == T_VEC && a[0].n >= 1);
  long n = a[0].n; mp_limb_t *rp = dst_new(n);
  if (argc == 2 && tok_long(&a[1]) == 1) { memcpy(rp, a[0].d, n * 8); mpn_com_n(rp, rp, n); }
  else mpn_com_n(rp, a[0].d, n);
  out_vec(o, rp, n); FIN(rp, n); return 0;
}
static int op_npopcount(int argc, tok_t *a, out_t *o) {
  NEED(argc == 1 && a[0].kind == T_VEC && a[0].n >= 1);
  out_ulong(o, mpn_popcount(a[0].d, a[0].n)); return 0;
}
static int op_nhamdist(int argc, tok_t *a, out_t *o) {
  NEED(argc == 2 && a[0].kind == T_VEC && a[1].kind == T_VEC && a[0].n == a[1].n && a[0].n >= 1);
  out_ulong(o, mpn_hamdist(a[0].d, a[1].d, a[0].n)); return 0;
}
/* mpn_scan0/1 are only called inside their documented precondition: a matching bit exists at or after
   `start` inside the operand (otherwise the C reads past the data). */
static int has_bit(const tok_t *t, unsigned long start, int want) {
  for (unsigned long i = start; i / 64 < (unsigned long)t->n; i++)
    if (((t->d[i / 64] >> (i % 64)) & 1) == (mp_limb_t)want) return 1;
  return 0;
}
static int do_nscan(int want, int argc, tok_t *a, out_t *o) {
  NEED(argc == 2 && a[0].kind == T_VEC && IS_IDX(a[1]));
  unsigned long s = tok_ulong(&a[1]);
  if (!has_bit(&a[0], s, want)) { out_err(o, "precond"); return 0; }
  mp_limb_t *up = vec_copy(&a[0], 2);
  out_ulong(o, want ? mpn_scan1(up, s) : mpn_scan0(up, s)); free(up); return 0;
}
static int op_nscan0(int c, tok_t *a, out_t *o) { return do_nscan(0, c, a, o); }
static int op_nscan1(int c, tok_t *a, out_t *o) { return do_nscan(1, c, a, o); }

/* ---- mpz and/ior/xor: `op mode a b`; mode 0: distinct destination (pre-shrunk), 1: rop is op1's variable,
   2: rop is op2's variable, 3: op1 and op2 are one variable (value a), distinct rop, 4: all three one variable */
typedef void (*z3_t)(mpz_ptr, mpz_srcptr, mpz_srcptr);
static int same(mpz_srcptr z, const tok_t *t) {
  long n = z->_mp_size < 0 ? -(long)z->_mp_size : z->_mp_size;
  if (n != t->n || (n && (z->_mp_size < 0) != t->neg)) return 0;
  return memcmp(z->_mp_d, t->d, n * 8) == 0;
}
static int do_z3(z3_t f, int argc, tok_t *a, out_t *o) {
  NEED(argc == 3 && a[0].kind == T_NUM && a[1].kind == T_NUM && a[2].kind == T_NUM);
  long mode = tok_long(&a[0]); NEED(mode >= 0 && mode <= 4);
  mpz_t x, y, r; mpz_init(x); mpz_init(y); mpz_init2(r, 1);
  tok_mpz(x, &a[1]); tok_mpz(y, &a[2]);
  switch (mode) {
    case 0: f(r, x, y); out_mpz(o, r); if (!same(x, &a[1]) || !same(y, &a[2])) out_err(o, "inputmod"); break;
    case 1: f(x, x, y); out_mpz(o, x); if (!same(y, &a[2])) out_err(o, "inputmod"); break;
    case 2: f(y, x, y); out_mpz(o, y); if (!same(x, &a[1])) out_err(o, "inputmod"); break;
    case 3: f(r, x, x); out_mpz(o, r); if (!same(x, &a[1])) out_err(o, "inputmod"); break;
    default: f(x, x, x); out_mpz(o, x); break;
  }
  mpz_clear(x); mpz_clear(y); mpz_clear(r); return 0;
}
static int op_zand(int c, tok_t *a, out_t *o) { return do_z3(mpz_and, c, a, o); }
static int op_zior(int c, tok_t *a, out_t *o) { return do_z3(mpz_ior, c, a, o); }
static int op_zxor(int c, tok_t *a, out_t *o) { return do_z3(mpz_xor, c, a, o); }

/* `mpz_com mode a`; mode 0: distinct pre-shrunk destination, 1: in place */
static int op_zcom(int argc, tok_t *a, out_t *o) {
  NEED(argc == 2 && a[0].kind == T_NUM && a[1].kind == T_NUM);
  long mode = tok_long(&a[0]); NEED(mode == 0 || mode == 1);
  mpz_t x, r; mpz_init(x); mpz_init2(r, 1); tok_mpz(x, &a[1]);
  if (mode == 0) { mpz_com(r, x); out_mpz(o, r); if (!same(x, &a[1])) out_err(o, "inputmod"); }
  else { mpz_com(x, x); out_mpz(o, x); }
  mpz_clear(x); mpz_clear(r); return 0;
}
/* `mpz_setbit a i` etc.: in place on an exactly-sized variable */
typedef void (*zb_t)(mpz_ptr, mp_bitcnt_t);
static int do_zbit(zb_t f, int argc, tok_t *a, out_t *o) {
  NEED(argc == 2 && a[0].kind == T_NUM && IS_IDX(a[1]));
  mpz_t x; mpz_init(x); tok_mpz(x, &a[0]);
  f(x, tok_ulong(&a[1])); out_mpz(o, x);
  mpz_clear(x); return 0;
}
static int op_zsetbit(int c, tok_t *a, out_t *o) { return do_zbit(mpz_setbit, c, a, o); }
static int op_zclrbit(int c, tok_t *a, out_t *o) { return do_zbit(mpz_clrbit, c, a, o); }
static int op_zcombit(int c, tok_t *a, out_t *o) { return do_zbit(mpz_combit, c, a, o); }

static int op_ztstbit(int argc, tok_t *a, out_t *o) {
  NEED(argc == 2 && a[0].kind == T_NUM && IS_IDX(a[1]));
  mpz_t x; mpz_init(x); tok_mpz(x, &a[0]);
  out_long(o, mpz_tstbit(x, tok_ulong(&a[1])));
  if (!same(x, &a[0])) out_err(o, "inputmod");
  mpz_clear(x); return 0;
}
typedef mp_bitcnt_t (*zs_t)(mpz_srcptr, mp_bitcnt_t);
static int do_zscan(zs_t f, int argc, tok_t *a, out_t *o) {
  NEED(argc == 2 && a[0].kind == T_NUM && IS_IDX(a[1]));
  mpz_t x; mpz_init(x); tok_mpz(x, &a[0]);
  out_ulong(o, f(x, tok_ulong(&a[1])));
  if (!same(x, &a[0])) out_err(o, "inputmod");
  mpz_clear(x); return 0;
}
static int op_zscan0(int c, tok_t *a, out_t *o) { return do_zscan(mpz_scan0, c, a, o); }
static int op_zscan1(int c, tok_t *a, out_t *o) { return do_zscan(mpz_scan1, c, a, o); }

/* mpz_popcount is `extern inline` in mpir.h: the direct call is the header's copy, the call through a
   volatile pointer is the library's (mpz/popcount.c); both must agree. */
static int op_zpopcount(int argc, tok_t *a, out_t *o) {
  NEED(argc == 1 && a[0].kind == T_NUM);
  mpz_t x; mpz_init(x); tok_mpz(x, &a[0]);
  mp_bitcnt_t (*volatile lib)(mpz_srcptr) = mpz_popcount;
  mp_bitcnt_t r1 = mpz_popcount(x), r2 = lib(x);
  out_ulong(o, r2); if (r1 != r2) out_err(o, "inline");
  mpz_clear(x); return 0;
}
static int op_zhamdist(int argc, tok_t *a, out_t *o) {
  NEED(argc == 2 && a[0].kind == T_NUM && a[1].kind == T_NUM);
  mpz_t x, y; mpz_init(x); mpz_init(y); tok_mpz(x, &a[0]); tok_mpz(y, &a[1]);
  out_ulong(o, mpz_hamdist(x, y));
  if (!same(x, &a[0]) || !same(y, &a[1])) out_err(o, "inputmod");
  mpz_clear(x); mpz_clear(y); return 0;
}

const opdef_t ops_bits[] = {
  {"mpn_and_n", op_and_n}, {"mpn_andn_n", op_andn_n}, {"mpn_nand_n", op_nand_n}, {"mpn_ior_n", op_ior_n},
  {"mpn_iorn_n", op_iorn_n}, {"mpn_nior_n", op_nior_n}, {"mpn_xor_n", op_xor_n}, {"mpn_xnor_n", op_xnor_n},
  {"mpn_com_n", op_com_n}, {"mpn_popcount", op_npopcount}, {"mpn_hamdist", op_nhamdist},
  {"mpn_scan0", op_nscan0}, {"mpn_scan1", op_nscan1},
  {"mpz_and", op_zand}, {"mpz_ior", op_zior}, {"mpz_xor", op_zxor}, {"mpz_com", op_zcom},
  {"mpz_setbit", op_zsetbit}, {"mpz_clrbit", op_zclrbit}, {"mpz_combit", op_zcombit}, {"mpz_tstbit", op_ztstbit},
  {"mpz_scan0", op_zscan0}, {"mpz_scan1", op_zscan1}, {"mpz_popcount", op_zpopcount}, {"mpz_hamdist", op_zhamdist},
  {0, 0}
};
