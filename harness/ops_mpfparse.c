/* The accepted input language of mpf_set_str (property C13, part c13_parse).
   fp_accept base s<string>     -> return value of mpf_set_str (0 / -1); compared with the GRAMMAR recogniser
   fp_scan   base s<string>     -> the same call; compared with the scanner MODEL (so all three are tied pairwise)
   fp_set rprec base s<string>  -> ret size exp [limbs]; destination of _mp_prec = rprec pre-set to {5,7} exp -3 */
#include "harness.h"
#include "gmp-impl.h"
#define NEED(c) do { if (!(c)) return -1; } while (0)

static char *cstring(const tok_t *a) {
  char *s = malloc(a->slen + 1);                       /* exact size: an over-read is visible to ASan */
  memcpy(s, a->s, a->slen); s[a->slen] = 0;
  return s;
}
static int op_accept(int argc, tok_t *a, out_t *o) {
  NEED(argc == 2 && a[0].kind == T_NUM && a[0].n <= 1 && a[1].kind == T_STR);
  long base = tok_long(&a[0]);
  NEED(base >= -1000 && base <= 1000);
  mpf_t r; mpf_init2(r, 128);
  char *s = cstring(&a[1]);
  int ret = 0, e = GUARD(ret = mpf_set_str(r, s, (int)base));
  if (e) out_exc(o, e); else out_long(o, ret);
  free(s); mpf_clear(r); return 0;
}
static int op_set(int argc, tok_t *a, out_t *o) {
  NEED(argc == 3 && a[0].kind == T_NUM && a[1].kind == T_NUM && a[1].n <= 1 && a[2].kind == T_STR);
  long rprec = tok_long(&a[0]), base = tok_long(&a[1]);
  NEED(rprec >= 2 && rprec <= 4096 && base >= -1000 && base <= 1000);
  mpf_t r; mpf_init2(r, (mp_bitcnt_t)64 * (rprec - 1));   /* __GMPF_BITS_TO_PREC(64*(p-1)) == p for p >= 2 */
  NEED(r->_mp_prec == rprec);
  for (long i = 0; i <= rprec; i++) r->_mp_d[i] = 0xDEADBEEFCAFEF00DUL;
  r->_mp_d[0] = 5; r->_mp_d[1] = 7; r->_mp_size = 2; r->_mp_exp = -3;
  char *s = cstring(&a[2]);
  int ret = 0, e = GUARD(ret = mpf_set_str(r, s, (int)base));
  if (e) out_exc(o, e); else { out_long(o, ret); out_mpf(o, r); }
  free(s); mpf_clear(r); return 0;
}
const opdef_t ops_mpfparse[] = { {"fp_accept", op_accept}, {"fp_scan", op_accept}, {"fp_set", op_set}, {0, 0} };
