#include "harness.h"
#include <signal.h>
#include <ctype.h>
#include <unistd.h>
#include <pthread.h>
static pthread_mutex_t h_mu = PTHREAD_MUTEX_INITIALIZER;   /* the ledger is shared by the threads of the C15 op */
#define LOCK() pthread_mutex_lock(&h_mu)
#define UNLOCK() pthread_mutex_unlock(&h_mu)

/* ---------- recording allocator (mp_set_memory_functions) ---------- */
#define RZ 32                         /* red zone bytes on each side */
#define HSZ 65536
typedef struct blk { void *p; size_t sz; struct blk *next; } blk_t;
static blk_t *htab[HSZ];
long h_live_blocks, h_alloc_errors, h_alloc_calls, h_realloc_calls, h_free_calls;
char h_alloc_msg[256];
static unsigned hidx(void *p) { return (unsigned)(((uintptr_t)p >> 4) * 2654435761u) % HSZ; }
static void aerr(const char *m, size_t a, size_t b) {
  if (!h_alloc_errors) snprintf(h_alloc_msg, sizeof h_alloc_msg, "%s:%zu:%zu", m, a, b);
  h_alloc_errors++;
}
static void rz_fill(unsigned char *raw, size_t sz) {
  memset(raw, 0xA5, RZ); memset(raw + RZ + sz, 0x5A, RZ);
}
static void rz_check(unsigned char *raw, size_t sz) {
  for (int i = 0; i < RZ; i++) if (raw[i] != 0xA5) { aerr("underrun", sz, i); break; }
  for (int i = 0; i < RZ; i++) if (raw[RZ + sz + i] != 0x5A) { aerr("overrun", sz, i); break; }
}
static void *h_alloc_nl(size_t sz) {
  h_alloc_calls++;
  if (sz == 0) aerr("alloc0", 0, 0);
  unsigned char *raw = malloc(sz + 2 * RZ);
  if (!raw) { fprintf(stderr, "harness: out of memory\n"); _exit(3); }
  rz_fill(raw, sz); memset(raw + RZ, 0xCD, sz);
  blk_t *b = malloc(sizeof *b); b->p = raw + RZ; b->sz = sz;
  unsigned i = hidx(b->p); b->next = htab[i]; htab[i] = b; h_live_blocks++;
  return raw + RZ;
}
static blk_t *h_take(void *p) {
  unsigned i = hidx(p); blk_t **pp = &htab[i];
  while (*pp && (*pp)->p != p) pp = &(*pp)->next;
  if (!*pp) return NULL;
  blk_t *b = *pp; *pp = b->next; h_live_blocks--; return b;
}
/* size the ledger holds for a live block, or (size_t)-1 if `p` is not a live block (used by printf ops:
   gmp_asprintf must hand back a block of exactly length+1 bytes) */
size_t h_block_size(void *p) {
  size_t r = (size_t)-1;
  LOCK();
  for (blk_t *b = htab[hidx(p)]; b; b = b->next) if (b->p == p) { r = b->sz; break; }
  UNLOCK();
  return r;
}
static void h_free_nl(void *p, size_t sz) {
  h_free_calls++;
  blk_t *b = h_take(p);
  if (!b) { aerr("free-unknown", sz, 0); return; }
  if (b->sz != sz) aerr("free-size", b->sz, sz);
  rz_check((unsigned char *)p - RZ, b->sz);
  memset(p, 0xDD, b->sz);
  free((unsigned char *)p - RZ); free(b);
}
static void *h_realloc_nl(void *p, size_t old, size_t new) {
  h_realloc_calls++;
  blk_t *b = h_take(p);
  if (!b) { aerr("realloc-unknown", old, new); return h_alloc_nl(new); }
  if (b->sz != old) aerr("realloc-size", b->sz, old);
  rz_check((unsigned char *)p - RZ, b->sz);
  void *q = h_alloc_nl(new); h_alloc_calls--;
  memcpy(q, p, b->sz < new ? b->sz : new);
  memset(p, 0xDD, b->sz);
  free((unsigned char *)p - RZ); free(b);
  return q;
}

static void *h_alloc(size_t sz) { LOCK(); void *p = h_alloc_nl(sz); UNLOCK(); return p; }
static void h_free(void *p, size_t sz) { LOCK(); h_free_nl(p, sz); UNLOCK(); }
static void *h_realloc(void *p, size_t o, size_t n) { LOCK(); void *q = h_realloc_nl(p, o, n); UNLOCK(); return q; }

/* ---------- exceptions ---------- */
sigjmp_buf h_jmp; volatile int h_armed;
static void on_fpe(int sig) { (void)sig; if (h_armed) siglongjmp(h_jmp, 1); _exit(4); }
int h_exc_happened;
int h_exc_code(void) { int c = gmp_errno; gmp_errno = 0; h_exc_happened = 1; return c ? c : 1; }
void out_exc(out_t *o, int code) {
  if (code & GMP_ERROR_DIVISION_BY_ZERO) out_err(o, "div0");
  else if (code & GMP_ERROR_SQRT_OF_NEGATIVE) out_err(o, "sqrtneg");
  else if (code & GMP_ERROR_INVALID_ARGUMENT) out_err(o, "invalid");
  else out_err(o, "fpe");
}

/* ---------- output ---------- */
static void o_put(out_t *o, const char *s, size_t n) {
  if (o->len + n + 1 > o->cap) { o->cap = (o->len + n + 1) * 2; o->buf = realloc(o->buf, o->cap); }
  memcpy(o->buf + o->len, s, n); o->len += n; o->buf[o->len] = 0;
}
static void o_sep(out_t *o) { if (o->len) o_put(o, " ", 1); }
void out_raw(out_t *o, const char *s) { o_sep(o); o_put(o, s, strlen(s)); }
static void o_hexlimbs(out_t *o, const mp_limb_t *p, long n) {   /* magnitude, n>=0, strips zeros */
  while (n > 0 && p[n - 1] == 0) n--;
  if (n == 0) { o_put(o, "0", 1); return; }
  char t[32]; int k = snprintf(t, sizeof t, "%llx", (unsigned long long)p[n - 1]); o_put(o, t, k);
  for (long i = n - 2; i >= 0; i--) { k = snprintf(t, sizeof t, "%016llx", (unsigned long long)p[i]); o_put(o, t, k); }
}
void out_mag(out_t *o, int neg, const mp_limb_t *p, long n) {
  o_sep(o); while (n > 0 && p[n - 1] == 0) n--;
  if (neg && n > 0) o_put(o, "-", 1);
  o_hexlimbs(o, p, n);
}
void out_vec(out_t *o, const mp_limb_t *p, long n) {
  o_sep(o); o_put(o, "[", 1);
  for (long i = 0; i < n; i++) { char t[32]; int k = snprintf(t, sizeof t, "%s%llx", i ? "," : "", (unsigned long long)p[i]); o_put(o, t, k); }
  o_put(o, "]", 1);
}
void out_long(out_t *o, long v) {
  char t[32]; unsigned long m = v < 0 ? 0UL - (unsigned long)v : (unsigned long)v;
  snprintf(t, sizeof t, "%s%lx", v < 0 ? "-" : "", m); out_raw(o, t);
}
void out_ulong(out_t *o, unsigned long v) { char t[32]; snprintf(t, sizeof t, "%lx", v); out_raw(o, t); }
void out_bytes(out_t *o, const void *p, size_t n) {
  o_sep(o); o_put(o, "s", 1);
  for (size_t i = 0; i < n; i++) { char t[4]; snprintf(t, sizeof t, "%02x", ((const unsigned char *)p)[i]); o_put(o, t, 2); }
}
void out_err(out_t *o, const char *name) { o_sep(o); o_put(o, "!", 1); o_put(o, name, strlen(name)); }
int mpz_wf(mpz_srcptr z) {
  long n = z->_mp_size < 0 ? -(long)z->_mp_size : z->_mp_size;
  if (z->_mp_alloc < 1 && !(z->_mp_alloc == 0 && n == 0)) return 0;
  if (n > z->_mp_alloc) return 0;
  if (n > 0 && z->_mp_d[n - 1] == 0) return 0;
  return 1;
}
int mpf_wf(mpf_srcptr f) {
  long n = f->_mp_size < 0 ? -(long)f->_mp_size : f->_mp_size;
  if (n > f->_mp_prec + 1) return 0;
  if (n > 0 && f->_mp_d[n - 1] == 0) return 0;
  if (n == 0 && f->_mp_exp != 0) return 0;
  return 1;
}
void out_mpz(out_t *o, mpz_srcptr z) {
  long n = z->_mp_size < 0 ? -(long)z->_mp_size : z->_mp_size;
  if (!mpz_wf(z)) { out_err(o, "malformed"); return; }
  out_mag(o, z->_mp_size < 0, z->_mp_d, n);
}
void out_mpq(out_t *o, mpq_srcptr q) { out_mpz(o, mpq_numref(q)); out_mpz(o, mpq_denref(q)); }
void out_mpf(out_t *o, mpf_srcptr f) {
  long n = f->_mp_size < 0 ? -(long)f->_mp_size : f->_mp_size;
  if (!mpf_wf(f)) { out_err(o, "malformed"); return; }
  out_long(o, f->_mp_size); out_long(o, f->_mp_exp); out_vec(o, f->_mp_d, n);
}

/* ---------- parsing ---------- */
static int hexv(int c) { return c >= '0' && c <= '9' ? c - '0' : c >= 'a' && c <= 'f' ? c - 'a' + 10 : c >= 'A' && c <= 'F' ? c - 'A' + 10 : -1; }
static int parse_hex_limbs(const char *s, size_t len, mp_limb_t **dp, long *np) {
  if (len == 0) return -1;
  long n = (len + 15) / 16; mp_limb_t *d = calloc(n + 1, sizeof *d);
  for (size_t i = 0; i < len; i++) {
    int v = hexv((unsigned char)s[len - 1 - i]); if (v < 0) { free(d); return -1; }
    d[i / 16] |= (mp_limb_t)v << (4 * (i % 16));
  }
  while (n > 0 && d[n - 1] == 0) n--;
  *dp = d; *np = n; return 0;
}
static int parse_tok(char *s, tok_t *t) {
  size_t len = strlen(s); memset(t, 0, sizeof *t);
  if (s[0] == 's') {
    if ((len - 1) % 2) return -1;
    t->kind = T_STR; t->slen = (len - 1) / 2; t->s = malloc(t->slen + 1);
    for (long i = 0; i < t->slen; i++) { int a = hexv(s[1 + 2 * i]), b = hexv(s[2 + 2 * i]); if (a < 0 || b < 0) return -1; t->s[i] = a * 16 + b; }
    t->s[t->slen] = 0; return 0;
  }
  if (s[0] == '[') {
    if (s[len - 1] != ']') return -1;
    t->kind = T_VEC; s[len - 1] = 0; s++;
    long cnt = 0; for (char *p = s; *p; p++) if (*p == ',') cnt++;
    t->d = calloc(cnt + 1 > 1 ? cnt + 1 : 1, sizeof(mp_limb_t)); t->n = 0;   /* exact size (cnt+1 limbs): an over-read is visible to ASan */
    if (!*s) return 0;
    char *save, *p = strtok_r(s, ",", &save);
    while (p) { if (strlen(p) > 16 || !*p) return -1; mp_limb_t v = 0; for (; *p; p++) { int h = hexv(*p); if (h < 0) return -1; v = v << 4 | h; } t->d[t->n++] = v; p = strtok_r(NULL, ",", &save); }
    return 0;
  }
  t->kind = T_NUM; if (s[0] == '-') { t->neg = 1; s++; len--; }
  return parse_hex_limbs(s, len, &t->d, &t->n);
}
long tok_long(const tok_t *t) { unsigned long v = t->n ? t->d[0] : 0; return (long)(t->neg ? 0UL - v : v); }
unsigned long tok_ulong(const tok_t *t) { return t->n ? t->d[0] : 0; }
void tok_mpz(mpz_ptr z, const tok_t *t) {
  mpz_realloc2(z, t->n > 0 ? t->n * 64 : 1);
  for (long i = 0; i < t->n; i++) z->_mp_d[i] = t->d[i];
  z->_mp_size = t->neg ? -(int)t->n : (int)t->n;
}
mp_limb_t *vec_copy(const tok_t *t, long extra) {
  mp_limb_t *p = malloc((t->n + extra + 1) * sizeof *p);
  memcpy(p, t->d, t->n * sizeof *p);
  for (long i = 0; i < extra; i++) p[t->n + i] = 0xABABABABABABABABUL;
  return p;
}

/* guarded destination buffers for mpn calls: GUARDL limbs of pattern on both sides */
#define GUARDL 4
#define GPAT 0x5EED5EED5EED5EEDUL
mp_limb_t *dst_new(long n) {
  mp_limb_t *raw = malloc((n + 2 * GUARDL + 1) * sizeof *raw);
  for (long i = 0; i < n + 2 * GUARDL; i++) raw[i] = GPAT;
  return raw + GUARDL;
}
int dst_ok(const mp_limb_t *p, long n) {
  for (int i = 1; i <= GUARDL; i++) if (p[-i] != GPAT) return 0;
  for (int i = 0; i < GUARDL; i++) if (p[n + i] != GPAT) return 0;
  return 1;
}
void dst_free(mp_limb_t *p) { free(p - GUARDL); }

/* ---------- registry / main loop ---------- */
extern const opdef_t *const h_registry[];
static opfn_t find_op(const char *name) {
  for (int i = 0; h_registry[i]; i++)
    for (const opdef_t *d = h_registry[i]; d->name; d++)
      if (!strcmp(d->name, name)) return d->fn;
  return NULL;
}

int main(int argc, char **argv) {
  (void)argc; (void)argv;
  mp_set_memory_functions(h_alloc, h_realloc, h_free);
  signal(SIGFPE, on_fpe);
  setvbuf(stdout, NULL, _IOLBF, 0);   /* a crash must not lose the answers already produced */
  char *line = NULL; size_t cap = 0; ssize_t got;
  out_t o = {0};
  static tok_t toks[64];
  while ((got = getline(&line, &cap, stdin)) > 0) {
    while (got > 0 && isspace((unsigned char)line[got - 1])) line[--got] = 0;
    o.len = 0; if (o.buf) o.buf[0] = 0;
    char *save, *op = strtok_r(line, " ", &save);
    if (!op) { puts(""); continue; }
    int n = 0, bad = 0; char *p;
    while ((p = strtok_r(NULL, " ", &save)) && n < 64) { if (parse_tok(p, &toks[n]) < 0) bad = 1; n++; }
    opfn_t fn = find_op(op);
    if (!bad && !strcmp(op, "@reset")) {          /* every stateful ops file may register its own "@reset" */
      for (int i = 0; h_registry[i]; i++)
        for (const opdef_t *d = h_registry[i]; d->name; d++)
          if (!strcmp(d->name, "@reset")) d->fn(n, toks, &o);
      o.len = 0; if (o.buf) o.buf[0] = 0; out_raw(&o, "ok");
      h_alloc_errors = 0;
    }
    else if (bad) out_raw(&o, "?parse");
    else if (!fn) out_raw(&o, "?op");
    else {
      long live0 = h_live_blocks; h_alloc_errors = 0; h_exc_happened = 0;
      if (fn(n, toks, &o) < 0) { o.len = 0; out_raw(&o, "?args"); }
      if (h_alloc_errors) { out_err(&o, "alloc:"); o_put(&o, h_alloc_msg, strlen(h_alloc_msg)); }
      if (h_live_blocks != live0 && op[0] != '@' && !h_exc_happened) out_err(&o, "leak");   /* ops starting with @ are stateful (object pool) */
    }
    puts(o.buf ? o.buf : "");
    for (int i = 0; i < n; i++) { free(toks[i].d); free(toks[i].s); }
  }
  fflush(stdout);
  return 0;
}
