/* Property C16, part sieve: the prime sieve of primesieve.c.
   gmp_primesieve n          -> [bit array, primesieve_size(n) limbs] count     (the library's __gmp_primesieve)
   first_block_primesieve n  -> [bit array]        } the static functions, reached by compiling the tree's
   block_resieve limbs offset [sieve] sieve_bits -> [block] } primesieve.c into this file under other names
   The destinations lie between guard limbs (dst_new / dst_ok). */
#include "harness.h"
#include "gmp-impl.h"
#define NEED(c) do { if (!(c)) return -1; } while (0)
#define IS_UI(t) ((t).kind == T_NUM && !(t).neg && (t).n <= 1)

/* a private copy of the tree's primesieve.c: gives access to first_block_primesieve / block_resieve */
#undef gmp_primesieve
#define gmp_primesieve sv_copy_gmp_primesieve
#include "primesieve.c"
#undef gmp_primesieve
#define gmp_primesieve __gmp_primesieve

static mp_limb_t sv_n_to_bit(mp_limb_t n) { return ((n - 5) | 1) / 3U; }
#define SV_MAXN 400000000UL

static int op_primesieve(int argc, tok_t *a, out_t *o) {
  NEED(argc == 1 && IS_UI(a[0]));
  mp_limb_t n = tok_ulong(&a[0]); NEED(n > 4 && n <= SV_MAXN);        /* ASSERT (n > 4) */
  long size = sv_n_to_bit(n) / GMP_LIMB_BITS + 1;
  mp_limb_t *bp = dst_new(size);
  mp_limb_t cnt = gmp_primesieve(bp, n);
  out_vec(o, bp, size); out_ulong(o, cnt);
  if (!dst_ok(bp, size)) out_err(o, "oob");
  /* the private copy must agree with the library object */
  { mp_limb_t *cp = dst_new(size); mp_limb_t c2 = sv_copy_gmp_primesieve(cp, n);
    if (c2 != cnt || memcmp(cp, bp, size * sizeof(mp_limb_t)) != 0) out_err(o, "copy-differs");
    if (!dst_ok(cp, size)) out_err(o, "oob");
    dst_free(cp); }
  dst_free(bp); return 0;
}

static int op_first_block(int argc, tok_t *a, out_t *o) {
  NEED(argc == 1 && IS_UI(a[0]));
  mp_limb_t n = tok_ulong(&a[0]); NEED(n > 4 && n <= SV_MAXN);
  long limbs = sv_n_to_bit(n) / GMP_LIMB_BITS + 1;
  mp_limb_t *bp = dst_new(limbs);
  first_block_primesieve(bp, n);
  out_vec(o, bp, limbs);
  if (!dst_ok(bp, limbs)) out_err(o, "oob");
  dst_free(bp); return 0;
}

static int op_block_resieve(int argc, tok_t *a, out_t *o) {
  NEED(argc == 4 && IS_UI(a[0]) && IS_UI(a[1]) && a[2].kind == T_VEC && IS_UI(a[3]));
  long limbs = tok_ulong(&a[0]); mp_limb_t offset = tok_ulong(&a[1]), sieve_bits = tok_ulong(&a[3]);
  NEED(limbs > 0 && limbs <= 100000 && offset <= SV_MAXN);          /* ASSERT (limbs > 0) */
  NEED((long)(sieve_bits / GMP_LIMB_BITS) < a[2].n);                 /* the bits 0..sieve_bits are read */
  mp_limb_t *sv = vec_copy(&a[2], 0);
  mp_limb_t *bp = dst_new(limbs);
  block_resieve(bp, limbs, offset, sv, sieve_bits);
  out_vec(o, bp, limbs);
  if (!dst_ok(bp, limbs)) out_err(o, "oob");
  dst_free(bp); free(sv); return 0;
}

/* npc_walk n seed -> candidate : mpz_next_prime_candidate (library); judged by the Lean side's walk of the residue loop */
static int op_npc_walk(int argc, tok_t *a, out_t *o) {
  NEED(argc == 2 && a[0].kind == T_NUM && IS_UI(a[1]));
  mpz_t n, r; mpz_init(n); mpz_init2(r, 1); tok_mpz(n, &a[0]);
  gmp_randstate_t st; gmp_randinit_default(st); gmp_randseed_ui(st, tok_ulong(&a[1]));
  mpz_next_prime_candidate(r, n, st);
  out_mpz(o, r); gmp_randclear(st); mpz_clear(n); mpz_clear(r); return 0;
}

const opdef_t ops_sieve[] = {
  {"gmp_primesieve", op_primesieve}, {"first_block_primesieve", op_first_block}, {"block_resieve", op_block_resieve},
  {"npc_walk", op_npc_walk},
  {0, 0}
};
