/* C02, mpz layer and multi-limb mpn layer: division with the documented rounding.
   mpz ops carry a leading alias-mode token; variables are N (dividend), D (divisor), Q, R:
     0 all distinct   1 q=N   2 q=D   3 r=N   4 r=D   5 q=N,r=D   6 q=D,r=N
     7 d=N            8 d=N,q=N   9 d=N,r=N          (q and r never the same variable)
   In modes 7-9 the divisor token is ignored.  Destinations are pre-shrunk (mpz_init2 (x, 1)). */
#include "harness.h"
#include "gmp-impl.h"
#include "longlong.h"
#define NEED(c) do { if (!(c)) return -1; } while (0)
/* MPIR's __gmp_exception ignores its error_bit argument (gmp_errno stays 0), so the kind of exception is
   not observable; in a division op the SIGFPE raised by DIVIDE_BY_ZERO is reported as `!div0`. */
static void out_div0(out_t *o) { out_err(o, "div0"); }

typedef struct { mpz_t N, D, Q, R; mpz_ptr n, d, q, r; } vars_t;

static int vars_init(vars_t *V, long mode, const tok_t *tn, const tok_t *td) {
  if (mode < 0 || mode > 9) return -1;
  mpz_init(V->N); mpz_init(V->D); mpz_init2(V->Q, 1); mpz_init2(V->R, 1);
  tok_mpz(V->N, tn); if (td) tok_mpz(V->D, td);
  V->n = V->N; V->d = V->D; V->q = V->Q; V->r = V->R;
  switch (mode) {
    case 1: V->q = V->N; break;
    case 2: V->q = V->D; break;
    case 3: V->r = V->N; break;
    case 4: V->r = V->D; break;
    case 5: V->q = V->N; V->r = V->D; break;
    case 6: V->q = V->D; V->r = V->N; break;
    case 7: V->d = V->N; break;
    case 8: V->d = V->N; V->q = V->N; break;
    case 9: V->d = V->N; V->r = V->N; break;
  }
  return 0;
}
static void vars_clear(vars_t *V) { mpz_clear(V->N); mpz_clear(V->D); mpz_clear(V->Q); mpz_clear(V->R); }
static int in_set(long m, const char *set) { for (; *set; set++) if (*set - '0' == m) return 1; return 0; }
#define ARGS3NUM (argc == 3 && a[0].kind == T_NUM && a[1].kind == T_NUM && a[2].kind == T_NUM && !a[0].neg && a[0].n <= 1)
#define IS_UI(t) ((t).kind == T_NUM && !(t).neg && (t).n <= 1)

/* ---- (q, r) = f (n, d) ---- */
typedef void (*fqr_t)(mpz_ptr, mpz_ptr, mpz_srcptr, mpz_srcptr);
static int do_qr(fqr_t f, int argc, tok_t *a, out_t *o) {
  NEED(ARGS3NUM);
  vars_t V; NEED(vars_init(&V, tok_long(&a[0]), &a[1], &a[2]) == 0);
  int e = GUARD(f(V.q, V.r, V.n, V.d));
  if (e) out_div0(o); else { out_mpz(o, V.q); out_mpz(o, V.r); }
  vars_clear(&V); return 0;
}
static int op_tdiv_qr(int c, tok_t *a, out_t *o) { return do_qr(mpz_tdiv_qr, c, a, o); }
static int op_fdiv_qr(int c, tok_t *a, out_t *o) { return do_qr(mpz_fdiv_qr, c, a, o); }
static int op_cdiv_qr(int c, tok_t *a, out_t *o) { return do_qr(mpz_cdiv_qr, c, a, o); }

/* ---- single destination: which = 'q' (modes 0,1,2,7,8) or 'r' (modes 0,3,4,7,9) ---- */
typedef void (*f1_t)(mpz_ptr, mpz_srcptr, mpz_srcptr);
static int do_1(f1_t f, int which, int argc, tok_t *a, out_t *o) {
  NEED(ARGS3NUM);
  long m = tok_long(&a[0]); NEED(in_set(m, which == 'q' ? "01278" : "03479"));
  vars_t V; NEED(vars_init(&V, m, &a[1], &a[2]) == 0);
  mpz_ptr w = which == 'q' ? V.q : V.r;
  int e = GUARD(f(w, V.n, V.d));
  if (e) out_div0(o); else out_mpz(o, w);
  vars_clear(&V); return 0;
}
static int op_tdiv_q(int c, tok_t *a, out_t *o) { return do_1(mpz_tdiv_q, 'q', c, a, o); }
static int op_fdiv_q(int c, tok_t *a, out_t *o) { return do_1(mpz_fdiv_q, 'q', c, a, o); }
static int op_cdiv_q(int c, tok_t *a, out_t *o) { return do_1(mpz_cdiv_q, 'q', c, a, o); }
static int op_tdiv_r(int c, tok_t *a, out_t *o) { return do_1(mpz_tdiv_r, 'r', c, a, o); }
static int op_fdiv_r(int c, tok_t *a, out_t *o) { return do_1(mpz_fdiv_r, 'r', c, a, o); }
static int op_cdiv_r(int c, tok_t *a, out_t *o) { return do_1(mpz_cdiv_r, 'r', c, a, o); }
static int op_mod(int c, tok_t *a, out_t *o) { return do_1(mpz_mod, 'r', c, a, o); }
/* only called with d | n, d != 0 (the generator guarantees it; the Lean side answers `!undefined` for d = 0) */
static int op_divexact(int c, tok_t *a, out_t *o) {
  NEED(c == 3 && a[2].kind == T_NUM);
  long m = tok_long(&a[0]);
  if ((m >= 7 ? a[1].n : a[2].n) == 0) { out_err(o, "undefined"); return 0; }
  return do_1(mpz_divexact, 'q', c, a, o);
}

/* ---- _ui forms ---- */
typedef mpir_ui (*fqui_t)(mpz_ptr, mpz_srcptr, mpir_ui);
static int do_1ui(fqui_t f, int which, int argc, tok_t *a, out_t *o) {
  NEED(ARGS3NUM && IS_UI(a[2]));
  long m = tok_long(&a[0]); NEED(in_set(m, which == 'q' ? "01" : "03"));
  vars_t V; NEED(vars_init(&V, m, &a[1], NULL) == 0);
  mpz_ptr w = which == 'q' ? V.q : V.r; mpir_ui ret = 0;
  int e = GUARD(ret = f(w, V.n, tok_ulong(&a[2])));
  if (e) out_div0(o); else { out_mpz(o, w); out_ulong(o, ret); }
  vars_clear(&V); return 0;
}
static int op_tdiv_q_ui(int c, tok_t *a, out_t *o) { return do_1ui(mpz_tdiv_q_ui, 'q', c, a, o); }
static int op_fdiv_q_ui(int c, tok_t *a, out_t *o) { return do_1ui(mpz_fdiv_q_ui, 'q', c, a, o); }
static int op_cdiv_q_ui(int c, tok_t *a, out_t *o) { return do_1ui(mpz_cdiv_q_ui, 'q', c, a, o); }
static int op_tdiv_r_ui(int c, tok_t *a, out_t *o) { return do_1ui(mpz_tdiv_r_ui, 'r', c, a, o); }
static int op_fdiv_r_ui(int c, tok_t *a, out_t *o) { return do_1ui(mpz_fdiv_r_ui, 'r', c, a, o); }
static int op_cdiv_r_ui(int c, tok_t *a, out_t *o) { return do_1ui(mpz_cdiv_r_ui, 'r', c, a, o); }
static int op_mod_ui(int c, tok_t *a, out_t *o) { return do_1ui(mpz_mod_ui, 'r', c, a, o); }

typedef mpir_ui (*fqrui_t)(mpz_ptr, mpz_ptr, mpz_srcptr, mpir_ui);
static int do_qrui(fqrui_t f, int argc, tok_t *a, out_t *o) {
  NEED(ARGS3NUM && IS_UI(a[2]));
  long m = tok_long(&a[0]); NEED(in_set(m, "013"));
  vars_t V; NEED(vars_init(&V, m, &a[1], NULL) == 0);
  mpir_ui ret = 0;
  int e = GUARD(ret = f(V.q, V.r, V.n, tok_ulong(&a[2])));
  if (e) out_div0(o); else { out_mpz(o, V.q); out_mpz(o, V.r); out_ulong(o, ret); }
  vars_clear(&V); return 0;
}
static int op_tdiv_qr_ui(int c, tok_t *a, out_t *o) { return do_qrui(mpz_tdiv_qr_ui, c, a, o); }
static int op_fdiv_qr_ui(int c, tok_t *a, out_t *o) { return do_qrui(mpz_fdiv_qr_ui, c, a, o); }
static int op_cdiv_qr_ui(int c, tok_t *a, out_t *o) { return do_qrui(mpz_cdiv_qr_ui, c, a, o); }

typedef mpir_ui (*fui_t)(mpz_srcptr, mpir_ui);
static int do_ui(fui_t f, int argc, tok_t *a, out_t *o) {
  NEED(argc == 2 && a[0].kind == T_NUM && IS_UI(a[1]));
  mpz_t n; mpz_init(n); tok_mpz(n, &a[0]); mpir_ui ret = 0;
  int e = GUARD(ret = f(n, tok_ulong(&a[1])));
  if (e) out_div0(o); else out_ulong(o, ret);
  mpz_clear(n); return 0;
}
static int op_tdiv_ui(int c, tok_t *a, out_t *o) { return do_ui(mpz_tdiv_ui, c, a, o); }
static int op_fdiv_ui(int c, tok_t *a, out_t *o) { return do_ui(mpz_fdiv_ui, c, a, o); }
static int op_cdiv_ui(int c, tok_t *a, out_t *o) { return do_ui(mpz_cdiv_ui, c, a, o); }

static int op_divexact_ui(int argc, tok_t *a, out_t *o) {
  NEED(ARGS3NUM && IS_UI(a[2]));
  long m = tok_long(&a[0]); NEED(in_set(m, "01"));
  vars_t V; NEED(vars_init(&V, m, &a[1], NULL) == 0);
  int e = GUARD(mpz_divexact_ui(V.q, V.n, tok_ulong(&a[2])));
  if (e) out_div0(o); else out_mpz(o, V.q);
  vars_clear(&V); return 0;
}

/* ---- _2exp forms: mode 0, or destination = N (1 for q forms, 3 for r forms) ---- */
typedef void (*f2exp_t)(mpz_ptr, mpz_srcptr, mp_bitcnt_t);
static int do_2exp(f2exp_t f, int which, int argc, tok_t *a, out_t *o) {
  NEED(ARGS3NUM && IS_UI(a[2]));
  long m = tok_long(&a[0]); NEED(in_set(m, which == 'q' ? "01" : "03"));
  vars_t V; NEED(vars_init(&V, m, &a[1], NULL) == 0);
  mpz_ptr w = which == 'q' ? V.q : V.r;
  f(w, V.n, tok_ulong(&a[2]));
  out_mpz(o, w);
  vars_clear(&V); return 0;
}
static int op_tdiv_q_2exp(int c, tok_t *a, out_t *o) { return do_2exp(mpz_tdiv_q_2exp, 'q', c, a, o); }
static int op_fdiv_q_2exp(int c, tok_t *a, out_t *o) { return do_2exp(mpz_fdiv_q_2exp, 'q', c, a, o); }
static int op_cdiv_q_2exp(int c, tok_t *a, out_t *o) { return do_2exp(mpz_cdiv_q_2exp, 'q', c, a, o); }
static int op_tdiv_r_2exp(int c, tok_t *a, out_t *o) { return do_2exp(mpz_tdiv_r_2exp, 'r', c, a, o); }
static int op_fdiv_r_2exp(int c, tok_t *a, out_t *o) { return do_2exp(mpz_fdiv_r_2exp, 'r', c, a, o); }
static int op_cdiv_r_2exp(int c, tok_t *a, out_t *o) { return do_2exp(mpz_cdiv_r_2exp, 'r', c, a, o); }

/* ---- predicates ---- */
static int op_divisible_p(int argc, tok_t *a, out_t *o) {
  NEED(argc == 2 && a[0].kind == T_NUM && a[1].kind == T_NUM);
  mpz_t x, d; mpz_init(x); mpz_init(d); tok_mpz(x, &a[0]); tok_mpz(d, &a[1]);
  out_long(o, mpz_divisible_p(x, d) != 0);
  mpz_clear(x); mpz_clear(d); return 0;
}
static int op_divisible_ui_p(int argc, tok_t *a, out_t *o) {
  NEED(argc == 2 && a[0].kind == T_NUM && IS_UI(a[1]));
  mpz_t x; mpz_init(x); tok_mpz(x, &a[0]);
  out_long(o, mpz_divisible_ui_p(x, tok_ulong(&a[1])) != 0);
  mpz_clear(x); return 0;
}
static int op_divisible_2exp_p(int argc, tok_t *a, out_t *o) {
  NEED(argc == 2 && a[0].kind == T_NUM && IS_UI(a[1]));
  mpz_t x; mpz_init(x); tok_mpz(x, &a[0]);
  out_long(o, mpz_divisible_2exp_p(x, tok_ulong(&a[1])) != 0);
  mpz_clear(x); return 0;
}
static int op_congruent_p(int argc, tok_t *a, out_t *o) {
  NEED(argc == 3 && a[0].kind == T_NUM && a[1].kind == T_NUM && a[2].kind == T_NUM);
  mpz_t x, c, d; mpz_init(x); mpz_init(c); mpz_init(d); tok_mpz(x, &a[0]); tok_mpz(c, &a[1]); tok_mpz(d, &a[2]);
  out_long(o, mpz_congruent_p(x, c, d) != 0);
  mpz_clear(x); mpz_clear(c); mpz_clear(d); return 0;
}
static int op_congruent_ui_p(int argc, tok_t *a, out_t *o) {
  NEED(argc == 3 && a[0].kind == T_NUM && IS_UI(a[1]) && IS_UI(a[2]));
  mpz_t x; mpz_init(x); tok_mpz(x, &a[0]);
  out_long(o, mpz_congruent_ui_p(x, tok_ulong(&a[1]), tok_ulong(&a[2])) != 0);
  mpz_clear(x); return 0;
}
static int op_congruent_2exp_p(int argc, tok_t *a, out_t *o) {
  NEED(argc == 3 && a[0].kind == T_NUM && a[1].kind == T_NUM && IS_UI(a[2]));
  mpz_t x, c; mpz_init(x); mpz_init(c); tok_mpz(x, &a[0]); tok_mpz(c, &a[1]);
  out_long(o, mpz_congruent_2exp_p(x, c, tok_ulong(&a[2])) != 0);
  mpz_clear(x); mpz_clear(c); return 0;
}

const opdef_t ops_divz[] = {
  {"mpz_tdiv_qr", op_tdiv_qr}, {"mpz_fdiv_qr", op_fdiv_qr}, {"mpz_cdiv_qr", op_cdiv_qr},
  {"mpz_tdiv_q", op_tdiv_q}, {"mpz_fdiv_q", op_fdiv_q}, {"mpz_cdiv_q", op_cdiv_q},
  {"mpz_tdiv_r", op_tdiv_r}, {"mpz_fdiv_r", op_fdiv_r}, {"mpz_cdiv_r", op_cdiv_r}, {"mpz_mod", op_mod},
  {"mpz_divexact", op_divexact},
  {"mpz_tdiv_q_ui", op_tdiv_q_ui}, {"mpz_fdiv_q_ui", op_fdiv_q_ui}, {"mpz_cdiv_q_ui", op_cdiv_q_ui},
  {"mpz_tdiv_r_ui", op_tdiv_r_ui}, {"mpz_fdiv_r_ui", op_fdiv_r_ui}, {"mpz_cdiv_r_ui", op_cdiv_r_ui}, {"mpz_mod_ui", op_mod_ui},
  {"mpz_tdiv_qr_ui", op_tdiv_qr_ui}, {"mpz_fdiv_qr_ui", op_fdiv_qr_ui}, {"mpz_cdiv_qr_ui", op_cdiv_qr_ui},
  {"mpz_tdiv_ui", op_tdiv_ui}, {"mpz_fdiv_ui", op_fdiv_ui}, {"mpz_cdiv_ui", op_cdiv_ui},
  {"mpz_divexact_ui", op_divexact_ui},
  {"mpz_tdiv_q_2exp", op_tdiv_q_2exp}, {"mpz_fdiv_q_2exp", op_fdiv_q_2exp}, {"mpz_cdiv_q_2exp", op_cdiv_q_2exp},
  {"mpz_tdiv_r_2exp", op_tdiv_r_2exp}, {"mpz_fdiv_r_2exp", op_fdiv_r_2exp}, {"mpz_cdiv_r_2exp", op_cdiv_r_2exp},
  {"mpz_divisible_p", op_divisible_p}, {"mpz_divisible_ui_p", op_divisible_ui_p}, {"mpz_divisible_2exp_p", op_divisible_2exp_p},
  {"mpz_congruent_p", op_congruent_p}, {"mpz_congruent_ui_p", op_congruent_ui_p}, {"mpz_congruent_2exp_p", op_congruent_2exp_p},
  {0, 0}
};

/* ================= multi-limb mpn layer =================
   Inputs are checked against each function's ASSERTed preconditions (NEED -> "?args" otherwise).
   Destinations have guard limbs (`!oob`); read-only operands are compared with a copy afterwards (`!modified`). */
#define VEC2 (argc >= 2 && a[0].kind == T_VEC && a[1].kind == T_VEC)
static mp_limb_t *dcopy(const mp_limb_t *p, long n) { mp_limb_t *r = dst_new(n); memcpy(r, p, n * sizeof *r); return r; }
static void fin(out_t *o, mp_limb_t *p, long n) { if (!dst_ok(p, n)) out_err(o, "oob"); dst_free(p); }
static void unchanged(out_t *o, const mp_limb_t *p, const tok_t *t) { if (memcmp(p, t->d, t->n * sizeof *p)) out_err(o, "modified"); }
#define TOPNZ(t) ((t).n >= 1 && (t).d[(t).n - 1] != 0)
#define NORMD(t) ((t).n >= 1 && ((t).d[(t).n - 1] >> 63))

static int op_mpn_tdiv_qr(int argc, tok_t *a, out_t *o) {
  NEED(VEC2 && argc == 2);
  long nn = a[0].n, dn = a[1].n;
  if (dn == 0) {                                       /* case 0: DIVIDE_BY_ZERO */
    mp_limb_t *qp = dst_new(nn + 1), *rp = dst_new(1);
    int e = GUARD(mpn_tdiv_qr(qp, rp, 0, a[0].d, nn, a[1].d, 0));
    if (e) out_div0(o); else out_err(o, "noexc");
    dst_free(qp); dst_free(rp); return 0;
  }
  NEED(TOPNZ(a[1]) && nn >= dn);
  mp_limb_t *np = dcopy(a[0].d, nn), *dp = dcopy(a[1].d, dn), *qp = dst_new(nn - dn + 1), *rp = dst_new(dn);
  mpn_tdiv_qr(qp, rp, 0, np, nn, dp, dn);
  out_vec(o, qp, nn - dn + 1); out_vec(o, rp, dn);
  unchanged(o, np, &a[0]); unchanged(o, dp, &a[1]);
  fin(o, qp, nn - dn + 1); fin(o, rp, dn); fin(o, np, nn); fin(o, dp, dn); return 0;
}
static int op_mpn_tdiv_q(int argc, tok_t *a, out_t *o) {
  NEED(VEC2 && argc == 2 && TOPNZ(a[1]) && a[0].n >= a[1].n);
  long nn = a[0].n, dn = a[1].n;
  mp_limb_t *np = dcopy(a[0].d, nn), *dp = dcopy(a[1].d, dn), *qp = dst_new(nn - dn + 1);
  mpn_tdiv_q(qp, np, nn, dp, dn);
  out_vec(o, qp, nn - dn + 1);
  unchanged(o, np, &a[0]); unchanged(o, dp, &a[1]);
  fin(o, qp, nn - dn + 1); fin(o, np, nn); fin(o, dp, dn); return 0;
}
static int op_mpn_divrem(int argc, tok_t *a, out_t *o) {
  NEED(VEC2 && argc == 3 && IS_UI(a[2]) && NORMD(a[1]) && a[0].n >= a[1].n);
  long nn = a[0].n, dn = a[1].n, qxn = tok_long(&a[2]); NEED(qxn <= 4096);
  long qn = nn - dn + qxn;
  mp_limb_t *np = dcopy(a[0].d, nn), *dp = dcopy(a[1].d, dn), *qp = dst_new(qn);
  mp_limb_t qh = mpn_divrem(qp, qxn, np, nn, dp, dn);
  out_vec(o, qp, qn); out_vec(o, np, dn); out_ulong(o, qh);
  unchanged(o, dp, &a[1]);
  fin(o, qp, qn); fin(o, np, nn); fin(o, dp, dn); return 0;
}

/* qh = f (qp, np, nn, dp, dn, dinv) with dinv = mpir_invert_pi1 (dp[dn-1], dp[dn-2]); kind 0: q and r, 1: q only (approx) */
typedef mp_limb_t (*fpi1_t)(mp_ptr, mp_ptr, mp_size_t, mp_srcptr, mp_size_t, mp_limb_t);
static int do_pi1(fpi1_t f, long min_dn, long min_qn, int approx, int argc, tok_t *a, out_t *o) {
  NEED(VEC2 && argc == 2 && NORMD(a[1]) && a[1].n >= min_dn && a[0].n >= a[1].n + min_qn);
  long nn = a[0].n, dn = a[1].n, qn = nn - dn;
  mp_limb_t *np = dcopy(a[0].d, nn), *dp = dcopy(a[1].d, dn), *qp = dst_new(qn), dinv;
  mpir_invert_pi1(dinv, dp[dn - 1], dp[dn - 2]);
  mp_limb_t qh = f(qp, np, nn, dp, dn, dinv);
  out_vec(o, qp, qn); if (!approx) out_vec(o, np, dn); out_ulong(o, qh);
  unchanged(o, dp, &a[1]);
  fin(o, qp, qn); fin(o, np, nn); fin(o, dp, dn); return 0;
}
static int op_sb_div_qr(int c, tok_t *a, out_t *o) { return do_pi1(mpn_sb_div_qr, 3, 0, 0, c, a, o); }
static int op_dc_div_qr(int c, tok_t *a, out_t *o) { return do_pi1(mpn_dc_div_qr, 6, 3, 0, c, a, o); }
static int op_sb_divappr_q(int c, tok_t *a, out_t *o) { return do_pi1(mpn_sb_divappr_q, 3, 1, 1, c, a, o); }   /* nn == dn passes the ASSERT but stores qp[0]: needs nn > dn */
static int op_dc_divappr_q(int c, tok_t *a, out_t *o) { return do_pi1(mpn_dc_divappr_q, 6, 3, 1, c, a, o); }

/* qh = f (qp, np, nn, dp, dn, inv) with {inv, dn} = mpn_invert (dp, dn) */
typedef mp_limb_t (*finv_t)(mp_ptr, mp_ptr, mp_size_t, mp_srcptr, mp_size_t, mp_srcptr);
static int do_inv(finv_t f, long min_qn, int approx, int argc, tok_t *a, out_t *o) {
  NEED(VEC2 && argc == 2 && NORMD(a[1]) && a[1].n >= 6 && a[0].n >= a[1].n + min_qn);
  long nn = a[0].n, dn = a[1].n, qn = nn - dn;
  mp_limb_t *np = dcopy(a[0].d, nn), *dp = dcopy(a[1].d, dn), *qp = dst_new(qn), *inv = dst_new(dn);
  mpn_invert(inv, dp, dn);
  mp_limb_t qh = f(qp, np, nn, dp, dn, inv);
  out_vec(o, qp, qn); if (!approx) out_vec(o, np, dn); out_ulong(o, qh);
  unchanged(o, dp, &a[1]);
  fin(o, qp, qn); fin(o, np, nn); fin(o, dp, dn); fin(o, inv, dn); return 0;
}
static int op_inv_div_qr(int c, tok_t *a, out_t *o) { return do_inv(mpn_inv_div_qr, 3, 0, c, a, o); }
static int op_inv_divappr_q(int c, tok_t *a, out_t *o) { return do_inv(mpn_inv_divappr_q, 1, 1, c, a, o); }

static int op_sb_bdiv_q(int argc, tok_t *a, out_t *o) {
  NEED(VEC2 && argc == 2 && a[1].n >= 1 && (a[1].d[0] & 1) && a[0].n >= a[1].n);
  long nn = a[0].n, dn = a[1].n;
  mp_limb_t *np = dcopy(a[0].d, nn), *dp = dcopy(a[1].d, dn), *qp = dst_new(nn), *wp = dst_new(2), dinv;
  modlimb_invert(dinv, dp[0]);
  mpn_sb_bdiv_q(qp, wp, np, nn, dp, dn, dinv);
  out_vec(o, qp, nn); out_vec(o, wp, 2);
  unchanged(o, dp, &a[1]);
  fin(o, qp, nn); fin(o, wp, 2); fin(o, np, nn); fin(o, dp, dn); return 0;
}
static int op_dc_bdiv_qr(int argc, tok_t *a, out_t *o) {
  NEED(VEC2 && argc == 2 && a[1].n >= 2 && (a[1].d[0] & 1) && a[0].n > a[1].n);
  long nn = a[0].n, dn = a[1].n, qn = nn - dn;
  mp_limb_t *np = dcopy(a[0].d, nn), *dp = dcopy(a[1].d, dn), *qp = dst_new(qn), dinv;
  modlimb_invert(dinv, dp[0]);
  mp_limb_t b = mpn_dc_bdiv_qr(qp, np, nn, dp, dn, dinv);
  out_vec(o, qp, qn); out_vec(o, np + qn, dn); out_ulong(o, b);
  unchanged(o, dp, &a[1]);
  fin(o, qp, qn); fin(o, np, nn); fin(o, dp, dn); return 0;
}
/* only called with d | n */
static int op_mpn_divexact(int argc, tok_t *a, out_t *o) {
  NEED(VEC2 && argc == 2 && TOPNZ(a[1]) && a[0].n >= a[1].n);
  long nn = a[0].n, dn = a[1].n, qn = nn - dn + 1;
  mp_limb_t *np = dcopy(a[0].d, nn), *dp = dcopy(a[1].d, dn), *qp = dst_new(qn);
  mpn_divexact(qp, np, nn, dp, dn);
  out_vec(o, qp, qn);
  unchanged(o, np, &a[0]); unchanged(o, dp, &a[1]);
  fin(o, qp, qn); fin(o, np, nn); fin(o, dp, dn); return 0;
}

const opdef_t ops_divn[] = {
  {"mpn_tdiv_qr", op_mpn_tdiv_qr}, {"mpn_tdiv_q", op_mpn_tdiv_q}, {"mpn_divrem", op_mpn_divrem},
  {"mpn_sb_div_qr", op_sb_div_qr}, {"mpn_dc_div_qr", op_dc_div_qr}, {"mpn_inv_div_qr", op_inv_div_qr},
  {"mpn_sb_divappr_q", op_sb_divappr_q}, {"mpn_dc_divappr_q", op_dc_divappr_q}, {"mpn_inv_divappr_q", op_inv_divappr_q},
  {"mpn_sb_bdiv_q", op_sb_bdiv_q}, {"mpn_dc_bdiv_qr", op_dc_bdiv_qr}, {"mpn_divexact", op_mpn_divexact},
  {0, 0}
};
