/* C02, mpz layer and multi-limb mpn layer: division with the documented rounding.
   mpz ops carry a leading alias-mode token; variables are N (dividend), D (divisor), Q, R:
     0 all distinct   1 q=N   2 q=D   3 r=N   4 r=D   5 q=N,r=D   6 q=D,r=N
     7 d=N            8 d=N,q=N   9 d=N,r=N          (q and r never the same variable)
   In modes 7-9 the divisor token is ignored.  Destinations are pre-shrunk (mpz_init2 (x, 1)). */
#include "harness.h"
#include "gmp-impl.h"
#include "longlong.h"
#define NEED(c) do { if (!(c)) return -1; } while (0)
/* MPIR's __gmp_exception ignores its error_bit argument (gmp_errno stays 0), so the kind of exception is
   not observable; in a division op the SIGFPE raised by DIVIDE_BY_ZERO is reported as `!div0`. */
static void out_div0(out_t *o) { out_err(o, "div0"); }

typedef struct { mpz_t N, D, Q, R; mpz_ptr n, d, q, r; } vars_t;

static int vars_init(vars_t *V, long mode, const tok_t *tn, const tok_t *td) {
  if (mode < 0 || mode > 9) return -1;
  mpz_init(V->N); mpz_init(V->D); mpz_init2(V->Q, 1); mpz_init2(V->R, 1);
  tok_mpz(V->N, tn); if (td) tok_mpz(V->D, td);
  V->n = V->N; V->d = V->D; V->q = V->Q; V->r = V->R;
  switch (mode) {
    case 1: V->q = V->N; break;
    case 2: V->q = V->D; break;
    case 3: V->r = V->N; break;
    case 4: V->r = V->D; break;
    case 5: V->q = V->N; V->r = V->D; break;
    case 6: V->q = V->D; V->r = V->N; break;
    case 7: V->d = V->N; break;
    case 8: V->d = V->N; V->q = V->N; break;
    case 9: V->d = V->N; V->r = V->N; break;
  }
  return 0;
}
static void vars_clear(vars_t *V) { mpz_clear(V->N); mpz_clear(V->D); mpz_clear(V->Q); mpz_clear(V->R); }
static int in_set(long m, const char *set) { for (; *set; set++) if (*set - '0' == m) return 1; return 0; }
#define ARGS3NUM (argc == 3 && a[0].kind == T_NUM && a[1].kind == T_NUM && a[2].kind == T_NUM && !a[0].neg && a[0].n <= 1)
#define IS_UI(t) ((t).kind == T_NUM && !(t).neg && (t).n <= 1)

/* ---- (q, r) = f (n, d) ---- */
typedef void (*fqr_t)(mpz_ptr, mpz_ptr, mpz_srcptr, mpz_srcptr);
static int do_qr(fqr_t f, int argc, tok_t *a, out_t *o) {
  NEED(ARGS3NUM);
  vars_t V; NEED(vars_init(&V, tok_long(&a[0]), &a[1], &a[2]) == 0);
  int e = GUARD(f(V.q, V.r, V.n, V.d));
  if (e) out_div0(o); else { out_mpz(o, V.q); out_mpz(o, V.r); }
  vars_clear(&V); return 0;
}
static int op_tdiv_qr(int c, tok_t *a, out_t *o) { return do_qr(mpz_tdiv_qr, c, a, o); }
static int op_fdiv_qr(int c, tok_t *a, out_t *o) { return do_qr(mpz_fdiv_qr, c, a, o); }
static int op_cdiv_qr(int c, tok_t *a, out_t *o) { return do_qr(mpz_cdiv_qr, c, a, o); }

/* ---- single destination: which = 'q' (modes 0,1,2,7,8) or 'r' (modes 0,3,4,7,9) ---- */
typedef void (*f1_t)(mpz_ptr, mpz_srcptr, mpz_srcptr);
static int do_1(f1_t f, int which, int argc, tok_t *a, out_t *o) {
  NEED(ARGS3NUM);
  long m = tok_long(&a[0]); NEED(in_set(m, which == 'q' ? "01278" : "03479"));
  vars_t V; NEED(vars_init(&V, m, &a[1], &a[2]) == 0);
  mpz_ptr w = which == 'q' ? V.q : V.r;
  int e = GUARD(f(w, V.n, V.d));
  if (e) out_div0(o); else out_mpz(o, w);
  vars_clear(&V); return 0;
}
static int op_tdiv_q(int c, tok_t *a, out_t *o) { return do_1(mpz_tdiv_q, 'q', c, a, o); }
static int op_fdiv_q(int c, tok_t *a, out_t *o) { return do_1(mpz_fdiv_q, 'q', c, a, o); }
static int op_cdiv_q(int c, tok_t *a, out_t *o) { return do_1(mpz_cdiv_q, 'q', c, a, o); }
static int op_tdiv_r(int c, tok_t *a, out_t *o) { return do_1(mpz_tdiv_r, 'r', c, a, o); }
static int op_fdiv_r(int c, tok_t *a, out_t *o) { return do_1(mpz_fdiv_r, 'r', c, a, o); }
static int op_cdiv_r(int c, tok_t *a, out_t *o) { return do_1(mpz_cdiv_r, 'r', c, a, o); }
static int op_mod(int c, tok_t *a, out_t *o) { return do_1(mpz_mod, 'r', c, a, o); }
/* only called with d | n, d != 0 (the generator guarantees it; the Lean side answers `!undefined` for d = 0) */
static int op_divexact(int c, tok_t *a, out_t *o) {
  NEED(c == 3 && a[2].kind == T_NUM);
  long m = tok_long(&a[0]);
  if ((m >= 7 ? a[1].n : a[2].n) == 0) { out_err(o, "undefined"); return 0; }
  return do_1(mpz_divexact, 'q', c, a, o);
}

/* ---- _ui forms ---- */
typedef mpir_ui (*fqui_t)(mpz_ptr, mpz_srcptr, mpir_ui);
static int do_1ui(fqui_t f, int which, int argc, tok_t *a, out_t *o) {
  NEED(ARGS3NUM && IS_UI(a[2]));
  long m = tok_long(&a[0]); NEED(in_set(m, which == 'q' ? "01" : "03"));
  vars_t V; NEED(vars_init(&V, m, &a[1], NULL) == 0);
  mpz_ptr w = which == 'q' ? V.q : V.r; mpir_ui ret = 0;
  int e = GUARD(ret = f(w, V.n, tok_ulong(&a[2])));
  if (e) out_div0(o); else { out_mpz(o, w); out_ulong(o, ret); }
  vars_clear(&V); return 0;
}
static int op_tdiv_q_ui(int c, tok_t *a, out_t *o) { return do_1ui(mpz_tdiv_q_ui, 'q', c, a, o); }
static int op_fdiv_q_ui(int c, tok_t *a, out_t *o) { return do_1ui(mpz_fdiv_q_ui, 'q', c, a, o); }
static int op_cdiv_q_ui(int c, tok_t *a, out_t *o) { return do_1ui(mpz_cdiv_q_ui, 'q', c, a, o); }
static int op_tdiv_r_ui(int c, tok_t *a, out_t *o) { return do_1ui(mpz_tdiv_r_ui, 'r', c, a, o); }
static int op_fdiv_r_ui(int c, tok_t *a, out_t *o) { return do_1ui(mpz_fdiv_r_ui, 'r', c, a, o); }
static int op_cdiv_r_ui(int c, tok_t *a, out_t *o) { return do_1ui(mpz_cdiv_r_ui, 'r', c, a, o); }
static int op_mod_ui(int c, tok_t *a, out_t *o) { return do_1ui(mpz_mod_ui, 'r', c, a, o); }

typedef mpir_ui (*fqrui_t)(mpz_ptr, mpz_ptr, mpz_srcptr, mpir_ui);
static int do_qrui(fqrui_t f, int argc, tok_t *a, out_t *o) {
  NEED(ARGS3NUM && IS_UI(a[2]));
  long m = tok_long(&a[0]); NEED(in_set(m, "013"));
  vars_t V; NEED(vars_init(&V, m, &a[1], NULL) == 0);
  mpir_ui ret = 0;
  int e = GUARD(ret = f(V.q, V.r, V.n, tok_ulong(&a[2])));
  if (e) out_div0(o); else { out_mpz(o, V.q); out_mpz(o, V.r); out_ulong(o, ret); }
  vars_clear(&V); return 0;
}
static int op_tdiv_qr_ui(int c, tok_t *a, out_t *o) { return do_qrui(mpz_tdiv_qr_ui, c, a, o); }
static int op_fdiv_qr_ui(int c, tok_t *a, out_t *o) { return do_qrui(mpz_fdiv_qr_ui, c, a, o); }
static int op_cdiv_qr_ui(int c, tok_t *a, out_t *o) { return do_qrui(mpz_cdiv_qr_ui, c, a, o); }

typedef mpir_ui (*fui_t)(mpz_srcptr, mpir_ui);
static int do_ui(fui_t f, int argc, tok_t *a, out_t *o) {
  NEED(argc == 2 && a[0].kind == T_NUM && IS_UI(a[1]));
  mpz_t n; mpz_init(n); tok_mpz(n, &a[0]); mpir_ui ret = 0;
  int e = GUARD(ret = f(n, tok_ulong(&a[1])));
  if (e) out_div0(o); else out_ulong(o, ret);
  mpz_clear(n); return 0;
}
static int op_tdiv_ui(int c, tok_t *a, out_t *o) { return do_ui(mpz_tdiv_ui, c, a, o); }
static int op_fdiv_ui(int c, tok_t *a, out_t *o) { return do_ui(mpz_fdiv_ui, c, a, o); }
static int op_cdiv_ui(int c, tok_t *a, out_t *o) { return do_ui(mpz_cdiv_ui, c, a, o); }

static int op_divexact_ui(int argc, tok_t *a, out_t *o) {
  NEED(ARGS3NUM && IS_UI(a[2]));
  long m = tok_long(&a[0]); NEED(in_set(m, "01"));
  vars_t V; NEED(vars_init(&V, m, &a[1], NULL) == 0);
  int e = GUARD(mpz_divexact_ui(V.q, V.n, tok_ulong(&a[2])));
  if (e) out_div0(o); else out_mpz(o, V.q);
  vars_clear(&V); return 0;
}

/* ---- _2exp forms: mode 0, or destination = N (1 for q forms, 3 for r forms) ---- */
typedef void (*f2exp_t)(mpz_ptr, mpz_srcptr, mp_bitcnt_t);
static int do_2exp(f2exp_t f, int which, int argc, tok_t *a, out_t *o) {
  NEED(ARGS3NUM && IS_UI(a[2]));
  long m = tok_long(&a[0]); NEED(in_set(m, which == 'q' ? "01" : "03"));
  vars_t V; NEED(vars_init(&V, m, &a[1], NULL) == 0);
  mpz_ptr w = which == 'q' ? V.q : V.r;
  f(w, V.n, tok_ulong(&a[2]));
  out_mpz(o, w);
  vars_clear(&V); return 0;
}
static int op_tdiv_q_2exp(int c, tok_t *a, out_t *o) { return do_2exp(mpz_tdiv_q_2exp, 'q', c, a, o); }
static int op_fdiv_q_2exp(int c, tok_t *a, out_t *o) { return do_2exp(mpz_fdiv_q_2exp, 'q', c, a, o); }
static int op_cdiv_q_2exp(int c, tok_t *a, out_t *o) { return do_2exp(mpz_cdiv_q_2exp, 'q', c, a, o); }
static int op_tdiv_r_2exp(int c, tok_t *a, out_t *o) { return do_2exp(mpz_tdiv_r_2exp, 'r', c, a, o); }
static int op_fdiv_r_2exp(int c, tok_t *a, out_t *o) { return do_2exp(mpz_fdiv_r_2exp, 'r', c, a, o); }
static int op_cdiv_r_2exp(int c, tok_t *a, out_t *o) { return do_2exp(mpz_cdiv_r_2exp, 'r', c, a, o); }

/* ---- predicates ---- */
static int op_divisible_p(int argc, tok_t *a, out_t *o) {
  NEED(argc == 2 && a[0].kind == T_NUM && a[1].kind == T_NUM);
  mpz_t x, d; mpz_init(x); mpz_init(d); tok_mpz(x, &a[0]); tok_mpz(d, &a[1]);
  out_long(o, mpz_divisible_p(x, d) != 0);
  mpz_clear(x); mpz_clear(d); return 0;
}
static int op_divisible_ui_p(int argc, tok_t *a, out_t *o) {
  NEED(argc == 2 && a[0].kind == T_NUM && IS_UI(a[1]));
  mpz_t x; mpz_init(x); tok_mpz(x, &a[0]);
  out_long(o, mpz_divisible_ui_p(x, tok_ulong(&a[1])) != 0);
  mpz_clear(x); return 0;
}
static int op_divisible_2exp_p(int argc, tok_t *a, out_t *o) {
  NEED(argc == 2 && a[0].kind == T_NUM && IS_UI(a[1]));
  mpz_t x; mpz_init(x); tok_mpz(x, &a[0]);
  out_long(o, mpz_divisible_2exp_p(x, tok_ulong(&a[1])) != 0);
  mpz_clear(x); return 0;
}
static int op_congruent_p(int argc, tok_t *a, out_t *o) {
  NEED(argc == 3 && a[0].kind == T_NUM && a[1].kind == T_NUM && a[2].kind == T_NUM);
  mpz_t x, c, d; mpz_init(x); mpz_init(c); mpz_init(d); tok_mpz(x, &a[0]); tok_mpz(c, &a[1]); tok_mpz(d, &a[2]);
  out_long(o, mpz_congruent_p(x, c, d) != 0);
  mpz_clear(x); mpz_clear(c); mpz_clear(d); return 0;
}
static int op_congruent_ui_p(int argc, tok_t *a, out_t *o) {
  NEED(argc == 3 && a[0].kind == T_NUM && IS_UI(a[1]) && IS_UI(a[2]));
  mpz_t x; mpz_init(x); tok_mpz(x, &a[0]);
  out_long(o, mpz_congruent_ui_p(x, tok_ulong(&a[1]), tok_ulong(&a[2])) != 0);
  mpz_clear(x); return 0;
}
static int op_congruent_2exp_p(int argc, tok_t *a, out_t *o) {
  NEED(argc == 3 && a[0].kind == T_NUM && a[1].kind == T_NUM && IS_UI(a[2]));
  mpz_t x, c; mpz_init(x); mpz_init(c); tok_mpz(x, &a[0]); tok_mpz(c, &a[1]);
  out_long(o, mpz_congruent_2exp_p(x, c, tok_ulong(&a[2])) != 0);
  mpz_clear(x); mpz_clear(c); return 0;
}

const opdef_t ops_divz[] = {
  {"mpz_tdiv_qr", op_tdiv_qr}, {"mpz_fdiv_qr", op_fdiv_qr}, {"mpz_cdiv_qr", op_cdiv_qr},
  {"mpz_tdiv_q", op_tdiv_q}, {"mpz_fdiv_q", op_fdiv_q}, {"mpz_cdiv_q", op_cdiv_q},
  {"mpz_tdiv_r", op_tdiv_r}, {"mpz_fdiv_r", op_fdiv_r}, {"mpz_cdiv_r", op_cdiv_r}, {"mpz_mod", op_mod},
  {"mpz_divexact", op_divexact},
  {"mpz_tdiv_q_ui", op_tdiv_q_ui}, {"mpz_fdiv_q_ui", op_fdiv_q_ui}, {"mpz_cdiv_q_ui", op_cdiv_q_ui},
  {"mpz_tdiv_r_ui", op_tdiv_r_ui}, {"mpz_fdiv_r_ui", op_fdiv_r_ui}, {"mpz_cdiv_r_ui", op_cdiv_r_ui}, {"mpz_mod_ui", op_mod_ui},
  {"mpz_tdiv_qr_ui", op_tdiv_qr_ui}, {"mpz_fdiv_qr_ui", op_fdiv_qr_ui}, {"mpz_cdiv_qr_ui", op_cdiv_qr_ui},
  {"mpz_tdiv_ui", op_tdiv_ui}, {"mpz_fdiv_ui", op_fdiv_ui}, {"mpz_cdiv_ui", op_cdiv_ui},
  {"mpz_divexact_ui", op_divexact_ui},
  {"mpz_tdiv_q_2exp", op_tdiv_q_2exp}, {"mpz_fdiv_q_2exp", op_fdiv_q_2exp}, {"mpz_cdiv_q_2exp", op_cdiv_q_2exp},
  {"mpz_tdiv_r_2exp", op_tdiv_r_2exp}, {"mpz_fdiv_r_2exp", op_fdiv_r_2exp}, {"mpz_cdiv_r_2exp", op_cdiv_r_2exp},
  {"mpz_divisible_p", op_divisible_p}, {"mpz_divisible_ui_p", op_divisible_ui_p}, {"mpz_divisible_2exp_p", op_divisible_2exp_p},
  {"mpz_congruent_p", op_congruent_p}, {"mpz_congruent_ui_p", op_congruent_ui_p}, {"mpz_congruent_2exp_p", op_congruent_2exp_p},
  {0, 0}
};
