/* C04 part allocsafe3 (second continuation of ops_allocsafe.c, same conventions): public mpz functions on objects of
   GIVEN allocations.  Every object is a token pair `alloc value` (alloc >= max (limbs of value, 1): the block has exactly
   alloc limbs, the unused ones poisoned by the recording allocator).  Leading alias-mode token where there are several
   variables:  0 all variables distinct   1 w is u   2 w is v   3 u is v (w distinct)   4 all one variable.
   Output: ALLOC (w), SIZ (w), value of w — compared exactly with the size-aware models of
   lean/Mpir/Model/AllocSafeMpz3.lean; the recording allocator / red zones turn an overrun into a marker. */
#include "harness.h"
#include "gmp-impl.h"
#define NEED(c) do { if (!(c)) return -1; } while (0)
#define ISUI(k) (a[k].kind == T_NUM && !a[k].neg && a[k].n <= 1)

static int mk(mpz_ptr z, const tok_t *al, const tok_t *v) {
  if (!(al->kind == T_NUM && !al->neg && al->n <= 1 && v->kind == T_NUM)) return -1;
  unsigned long alloc = tok_ulong(al);
  if (alloc < 1 || alloc > (1UL << 20) || (unsigned long)v->n > alloc) return -1;
  mpz_init2(z, alloc * GMP_NUMB_BITS);
  if ((unsigned long)ALLOC(z) != alloc) { mpz_clear(z); return -1; }
  for (long i = 0; i < v->n; i++) PTR(z)[i] = v->d[i];
  SIZ(z) = v->neg ? -(int)v->n : (int)v->n;
  return 0;
}
static void outw(out_t *o, mpz_srcptr w) { out_long(o, ALLOC(w)); out_long(o, SIZ(w)); out_mpz(o, w); }
static long mode_of(const tok_t *t) { return (t->kind == T_NUM && !t->neg && t->n <= 1) ? (long)tok_ulong(t) : -1; }

/* f (d, bit_index): da dv idx   (idx < 2^26: the result stays below the 2^20-limb bound of the Lean side) */
typedef void (*fbit_t)(mpz_ptr, mp_bitcnt_t);
static int dobit(fbit_t f, int argc, tok_t *a, out_t *o) {
  NEED(argc == 3 && ISUI(2)); unsigned long idx = tok_ulong(&a[2]); NEED(idx < (1UL << 26));
  mpz_t d; NEED(mk(d, &a[0], &a[1]) == 0);
  f(d, idx); outw(o, d);
  mpz_clear(d); return 0;
}
static int op_setbit(int c, tok_t *a, out_t *o) { return dobit(mpz_setbit, c, a, o); }
static int op_clrbit(int c, tok_t *a, out_t *o) { return dobit(mpz_clrbit, c, a, o); }
static int op_combit(int c, tok_t *a, out_t *o) { return dobit(mpz_combit, c, a, o); }

/* f (w, u, cnt): mode wa wv ua uv cnt */
typedef void (*fcnt_t)(mpz_ptr, mpz_srcptr, mp_bitcnt_t);
static int docnt(fcnt_t f, int argc, tok_t *a, out_t *o) {
  NEED(argc == 6 && ISUI(5)); long m = mode_of(&a[0]); NEED(m == 0 || m == 1);
  unsigned long k = tok_ulong(&a[5]); NEED(k < (1UL << 26));
  mpz_t w, u;
  NEED(mk(w, &a[1], &a[2]) == 0);
  if (mk(u, &a[3], &a[4])) { mpz_clear(w); return -1; }
  if (m == 0) { f(w, u, k); outw(o, w); } else { f(u, u, k); outw(o, u); }
  mpz_clear(w); mpz_clear(u); return 0;
}
static int op_cdiv_q_2exp(int c, tok_t *a, out_t *o) { return docnt(mpz_cdiv_q_2exp, c, a, o); }
static int op_fdiv_q_2exp(int c, tok_t *a, out_t *o) { return docnt(mpz_fdiv_q_2exp, c, a, o); }

const opdef_t ops_allocsafe3[] = {
  {"as3_cdiv_q_2exp", op_cdiv_q_2exp}, {"as3_fdiv_q_2exp", op_fdiv_q_2exp},
  {"as3_setbit", op_setbit}, {"as3_clrbit", op_clrbit}, {"as3_combit", op_combit},
  {0, 0}
};
