/* C17 — import/export, raw and text stream I/O, with fault-injecting streams.
   Streams are fopencookie streams made unbuffered with setvbuf, so every fwrite/fputc/getc of the
   library is one callback: the read side ends after `limit` bytes (truncation), the write side fails
   the one write call that contains byte `failat` (one-shot; later writes succeed, so a function that
   forgets the sticky error indicator is caught).  The harness prints how many faults fired. */
#define _GNU_SOURCE
#include "harness.h"
#include <sys/types.h>
#define NEED(c) do { if (!(c)) return -1; } while (0)
#define ISNUM(t) ((t).kind == T_NUM)
#define ISSTR(t) ((t).kind == T_STR)
#define ISVEC(t) ((t).kind == T_VEC)

/* ---------- streams ---------- */
typedef struct { const unsigned char *p; long n, pos; } rd_t;
static ssize_t rd_read(void *c, char *buf, size_t n) {
  rd_t *r = c; long av = r->n - r->pos;
  if (av <= 0) return 0;
  if ((long)n > av) n = av;
  memcpy(buf, r->p + r->pos, n); r->pos += n; return n;
}
static FILE *rd_open(rd_t *r, const unsigned char *p, long n, long limit) {
  r->p = p; r->n = (limit >= 0 && limit < n) ? limit : n; r->pos = 0;
  cookie_io_functions_t io = { rd_read, 0, 0, 0 };
  FILE *f = fopencookie(r, "r", io); setvbuf(f, NULL, _IONBF, 0); return f;
}
typedef struct { unsigned char *buf; size_t len, cap; long pos, failat, fired, dead; } wr_t;
static ssize_t wr_write(void *c, const char *buf, size_t n) {
  wr_t *w = c;
  if (w->failat >= 0 && !w->fired && w->pos <= w->failat && w->failat < w->pos + (long)n) {
    /* the sink accepts the bytes in front of the failing position (a short write, as a full disk or a closed pipe gives)
       and reports the error on the next call */
    size_t k = (size_t)(w->failat - w->pos);
    w->fired++; w->dead = 1;
    if (k == 0) { w->pos += n; return 0; }
    n = k;
  }
  else if (w->dead) return 0;
  if (w->len + n > w->cap) { w->cap = (w->len + n) * 2 + 64; w->buf = realloc(w->buf, w->cap); }
  memcpy(w->buf + w->len, buf, n); w->len += n; w->pos += n; return n;
}
static FILE *wr_open(wr_t *w, long failat) {
  memset(w, 0, sizeof *w); w->failat = failat;
  cookie_io_functions_t io = { 0, wr_write, 0, 0 };
  FILE *f = fopencookie(w, "w", io); setvbuf(f, NULL, _IONBF, 0); return f;
}
static void out_size(out_t *o, size_t v) { out_ulong(o, (unsigned long)v); }

/* ---------- export / import ---------- */
#define GB 64
/* mpz_export order size endian nails align x  ->  count s<bytes>      (align -1: data == NULL) */
static int op_export(int argc, tok_t *a, out_t *o) {
  NEED(argc == 6); for (int i = 0; i < 6; i++) NEED(ISNUM(a[i]));
  long order = tok_long(&a[0]), size = tok_long(&a[1]), endian = tok_long(&a[2]), nails = tok_long(&a[3]), align = tok_long(&a[4]);
  NEED((order == 1 || order == -1) && size >= 1 && size <= 64 && endian >= -1 && endian <= 1 && nails >= 0 && nails < 8 * size && align >= -1 && align <= 7);
  mpz_t x; mpz_init(x); tok_mpz(x, &a[5]);
  /* documented number of words, computed by hand */
  long n = a[5].n, numb = 8 * size - nails, want = 0;
  if (n > 0) { long bits = 64 * n - __builtin_clzl(a[5].d[n - 1]); want = (bits + numb - 1) / numb; }
  size_t cnt = 12345;
  if (align < 0) {
    void *p = mpz_export(NULL, &cnt, order, size, endian, nails, x);
    out_size(o, cnt);
    if (cnt == (size_t)want) out_bytes(o, p ? p : "", cnt * size); else out_err(o, "count");
    if (p) { void (*ff)(void *, size_t); mp_get_memory_functions(NULL, NULL, &ff); ff(p, cnt * size); }
    else if (want) out_err(o, "null");
  } else {
    size_t len = want * size, tot = GB + 8 + len + GB;
    unsigned char *raw = malloc(tot + 16), *base = (unsigned char *)(((uintptr_t)raw + 15) & ~(uintptr_t)15);
    memset(base, 0xEE, tot); unsigned char *data = base + GB + align; memset(data, 0xA7, len);
    void *p = mpz_export(data, &cnt, order, size, endian, nails, x);
    out_size(o, cnt);
    out_bytes(o, data, len);
    int ok = 1;
    for (unsigned char *q = base; q < data; q++) if (*q != 0xEE) ok = 0;
    for (unsigned char *q = data + len; q < base + tot; q++) if (*q != 0xEE) ok = 0;
    if (!ok) out_err(o, "oob");
    if (p != data) out_err(o, "retptr");
    free(raw);
  }
  mpz_clear(x); return 0;
}
/* mpz_import order size endian nails align s<bytes> count  ->  value */
static int op_import(int argc, tok_t *a, out_t *o) {
  NEED(argc == 7 && ISNUM(a[0]) && ISNUM(a[1]) && ISNUM(a[2]) && ISNUM(a[3]) && ISNUM(a[4]) && ISSTR(a[5]) && ISNUM(a[6]));
  long order = tok_long(&a[0]), size = tok_long(&a[1]), endian = tok_long(&a[2]), nails = tok_long(&a[3]), align = tok_long(&a[4]), count = tok_long(&a[6]);
  NEED((order == 1 || order == -1) && size >= 1 && size <= 64 && endian >= -1 && endian <= 1 && nails >= 0 && nails < 8 * size && align >= 0 && align <= 7);
  NEED(count >= 0 && a[5].slen == count * size);
  unsigned char *raw = malloc(a[5].slen + 32), *base = (unsigned char *)(((uintptr_t)raw + 15) & ~(uintptr_t)15);
  unsigned char *data = base + align; memcpy(data, a[5].s, a[5].slen);
  mpz_t r; mpz_init2(r, 1); mpz_set_si(r, -77);           /* old value must be overwritten, destination pre-shrunk */
  mpz_import(r, count, order, size, endian, nails, data);
  if (memcmp(data, a[5].s, a[5].slen)) out_err(o, "srcmod");
  out_mpz(o, r); mpz_clear(r); free(raw); return 0;
}

/* ---------- raw ---------- */
/* mpz_out_raw x -> ret s<bytes> */
static int op_out_raw(int argc, tok_t *a, out_t *o) {
  NEED(argc == 1 && ISNUM(a[0]));
  mpz_t x; mpz_init(x); tok_mpz(x, &a[0]);
  wr_t w; FILE *f = wr_open(&w, -1);
  size_t r = mpz_out_raw(f, x); fclose(f);
  out_size(o, r); out_bytes(o, w.buf ? w.buf : (unsigned char *)"", w.len);
  free(w.buf); mpz_clear(x); return 0;
}
/* destination variants for mpz_inp_raw: 0 = fresh mpz_init (must be reallocated; new limbs hold the
   allocator's fill), 1 = large enough and zero filled, 2 = large enough and 0xff filled */
static void dest_make(mpz_ptr x, int variant, long limbs) {
  if (variant == 0) { mpz_init(x); return; }
  mpz_init2(x, 64 * (limbs + 1));
  memset(x->_mp_d, variant == 1 ? 0 : 0xff, 8 * x->_mp_alloc); x->_mp_size = 0;
}
static int inp_raw_run(const unsigned char *s, long n, long limit, out_t *o) {
  long eff = (limit >= 0 && limit < n) ? limit : n, limbs = 1;
  if (eff >= 4) {
    long c = (long)(int32_t)(((uint32_t)s[0] << 24) | ((uint32_t)s[1] << 16) | ((uint32_t)s[2] << 8) | s[3]);
    unsigned long ac = c < 0 ? 0UL - (unsigned long)c : (unsigned long)c;
    if (ac > (1UL << 20)) { out_err(o, "toobig"); return 0; }     /* the library allocates before it reads */
    limbs = (ac * 8 + 63) / 64;
  }
  mpz_t x[3]; size_t ret[3]; int wf = 1, same = 1;
  for (int v = 0; v < 3; v++) {
    dest_make(x[v], v, limbs);
    rd_t r; FILE *f = rd_open(&r, s, n, limit);
    ret[v] = mpz_inp_raw(x[v], f); fclose(f);
    if (!mpz_wf(x[v])) wf = 0;
  }
  if (ret[0] != ret[1] || ret[0] != ret[2]) same = 0;
  if (wf && (mpz_cmp(x[0], x[1]) || mpz_cmp(x[0], x[2]))) same = 0;
  out_size(o, ret[0]);
  if (!wf) out_err(o, "malformed");
  else if (!same) out_err(o, "uninit");          /* the result depends on memory the call never wrote */
  else if (ret[0] == 0) out_ulong(o, 1);
  else out_mpz(o, x[0]);
  for (int v = 0; v < 3; v++) mpz_clear(x[v]);   /* "can still be cleared": the ledger would show a leak or a bad free */
  return 0;
}
static int op_inp_raw(int argc, tok_t *a, out_t *o) {
  NEED(argc == 1 && ISSTR(a[0])); return inp_raw_run(a[0].s, a[0].slen, -1, o);
}
static int op_inp_raw_trunc(int argc, tok_t *a, out_t *o) {
  NEED(argc == 2 && ISSTR(a[0]) && ISNUM(a[1]) && !a[1].neg); return inp_raw_run(a[0].s, a[0].slen, tok_long(&a[1]), o);
}
/* mpz_out_raw_fail x k -> ret fired */
static int op_out_raw_fail(int argc, tok_t *a, out_t *o) {
  NEED(argc == 2 && ISNUM(a[0]) && ISNUM(a[1]));
  mpz_t x; mpz_init(x); tok_mpz(x, &a[0]);
  wr_t w; FILE *f = wr_open(&w, tok_long(&a[1]));
  size_t r = mpz_out_raw(f, x); fclose(f);
  out_size(o, r); out_long(o, w.fired);
  free(w.buf); mpz_clear(x); return 0;
}
/* mpz_out_inp_raw x -> wret s<bytes> rret value */
static int op_out_inp_raw(int argc, tok_t *a, out_t *o) {
  NEED(argc == 1 && ISNUM(a[0]));
  mpz_t x, y; mpz_init(x); tok_mpz(x, &a[0]); mpz_init(y);
  wr_t w; FILE *f = wr_open(&w, -1);
  size_t wr = mpz_out_raw(f, x); fclose(f);
  rd_t r; f = rd_open(&r, w.buf, w.len, -1);
  size_t rr = mpz_inp_raw(y, f); fclose(f);
  out_size(o, wr); out_bytes(o, w.buf ? w.buf : (unsigned char *)"", w.len); out_size(o, rr); out_mpz(o, y);
  free(w.buf); mpz_clear(x); mpz_clear(y); return 0;
}

/* ---------- text, output faults ---------- */
static int base_ok(long b) { return b == 0 || (b >= 2) || (b <= -2 && b >= -36); }
/* mpz_out_str_fail base x k -> ret fired */
static int op_mpz_out_str_fail(int argc, tok_t *a, out_t *o) {
  NEED(argc == 3 && ISNUM(a[0]) && ISNUM(a[1]) && ISNUM(a[2]) && base_ok(tok_long(&a[0])));
  mpz_t x; mpz_init(x); tok_mpz(x, &a[1]);
  wr_t w; FILE *f = wr_open(&w, tok_long(&a[2]));
  size_t r = mpz_out_str(f, tok_long(&a[0]), x); fclose(f);
  out_size(o, r); out_long(o, w.fired);
  free(w.buf); mpz_clear(x); return 0;
}
static void tok_mpq(mpq_ptr q, tok_t *n, tok_t *d) { mpq_init(q); tok_mpz(mpq_numref(q), n); tok_mpz(mpq_denref(q), d); }
/* mpq_out_str_fail base num den k -> ret fired */
static int op_mpq_out_str_fail(int argc, tok_t *a, out_t *o) {
  NEED(argc == 4 && ISNUM(a[0]) && ISNUM(a[1]) && ISNUM(a[2]) && ISNUM(a[3]) && base_ok(tok_long(&a[0])));
  mpq_t q; tok_mpq(q, &a[1], &a[2]);
  wr_t w; FILE *f = wr_open(&w, tok_long(&a[3]));
  size_t r = mpq_out_str(f, tok_long(&a[0]), q); fclose(f);
  out_size(o, r); out_long(o, w.fired);
  free(w.buf); mpq_clear(q); return 0;
}
/* mpf operand: prec size exp [limbs] (prec = _mp_prec in limbs, >= 2) */
static int tok_mpf(mpf_ptr f, tok_t *a) {
  if (!(ISNUM(a[0]) && ISNUM(a[1]) && ISNUM(a[2]) && ISVEC(a[3]))) return -1;
  long prec = tok_long(&a[0]), size = tok_long(&a[1]), n = size < 0 ? -size : size;
  if (prec < 2 || prec > 4096 || n != a[3].n || n > prec + 1 || (n > 0 && a[3].d[n - 1] == 0)) return -1;
  mpf_init2(f, 64 * (prec - 1));
  if (f->_mp_prec != prec) { mpf_clear(f); return -1; }
  memcpy(f->_mp_d, a[3].d, n * 8); f->_mp_size = size; f->_mp_exp = n ? tok_long(&a[2]) : 0;
  return 0;
}
/* mpf_out_str_fail base ndigits prec size exp [limbs] k -> ret fired s<digits from mpf_get_str> exp */
static int op_mpf_out_str_fail(int argc, tok_t *a, out_t *o) {
  NEED(argc == 7 && ISNUM(a[0]) && ISNUM(a[1]) && ISNUM(a[6]));
  long base = tok_long(&a[0]), nd = tok_long(&a[1]);
  NEED((base == 0 || (base >= 2 && base <= 62) || (base <= -2 && base >= -36)) && nd >= 0);
  mpf_t f; NEED(tok_mpf(f, a + 2) == 0);
  mp_exp_t e = 0; char *ref = mpf_get_str(NULL, &e, base, nd, f);
  wr_t w; FILE *fp = wr_open(&w, tok_long(&a[6]));
  size_t r = mpf_out_str(fp, base, nd, f); fclose(fp);
  out_size(o, r); out_long(o, w.fired); out_bytes(o, ref, strlen(ref)); out_long(o, e);
  void (*ff)(void *, size_t); mp_get_memory_functions(NULL, NULL, &ff); ff(ref, strlen(ref) + 1);
  free(w.buf); mpf_clear(f); return 0;
}
/* gmp_fprintf_fail s<pre> width base x s<post> k -> ret fired      format "<pre>%<width>Z{d,x}<post>" */
static int op_fprintf_fail(int argc, tok_t *a, out_t *o) {
  NEED(argc == 6 && ISSTR(a[0]) && ISNUM(a[1]) && ISNUM(a[2]) && ISNUM(a[3]) && ISSTR(a[4]) && ISNUM(a[5]));
  long width = tok_long(&a[1]), base = tok_long(&a[2]);
  NEED(width >= 0 && width <= 100000 && (base == 10 || base == 16));
  for (long i = 0; i < a[0].slen; i++) NEED(a[0].s[i] != '%' && a[0].s[i] != 0);
  for (long i = 0; i < a[4].slen; i++) NEED(a[4].s[i] != '%' && a[4].s[i] != 0);
  char *fmt = malloc(a[0].slen + a[4].slen + 64), *p = fmt;
  memcpy(p, a[0].s, a[0].slen); p += a[0].slen; *p++ = '%';
  if (width) p += sprintf(p, "%ld", width);
  *p++ = 'Z'; *p++ = base == 16 ? 'x' : 'd';
  memcpy(p, a[4].s, a[4].slen); p += a[4].slen; *p = 0;
  mpz_t x; mpz_init(x); tok_mpz(x, &a[3]);
  wr_t w; FILE *f = wr_open(&w, tok_long(&a[5]));
  int r = gmp_fprintf(f, fmt, x); fclose(f);
  out_long(o, r); out_long(o, w.fired);
  free(w.buf); free(fmt); mpz_clear(x); return 0;
}

/* ---------- text, truncated input ---------- */
static void out_nextc(out_t *o, FILE *f) { int c = getc(f); out_long(o, c == EOF ? -1 : c); }
/* mpz_inp_str_trunc base s<bytes> k -> ret value nextc | 0 1 */
static int op_mpz_inp_str_trunc(int argc, tok_t *a, out_t *o) {
  NEED(argc == 3 && ISNUM(a[0]) && ISSTR(a[1]) && ISNUM(a[2]));
  mpz_t x; mpz_init2(x, 1); mpz_set_ui(x, 7);
  rd_t r; FILE *f = rd_open(&r, a[1].s, a[1].slen, tok_long(&a[2]));
  size_t ret = mpz_inp_str(x, f, tok_long(&a[0]));
  out_size(o, ret);
  if (ret == 0) { if (mpz_wf(x)) out_ulong(o, 1); else out_err(o, "malformed"); }
  else { out_mpz(o, x); out_nextc(o, f); }
  fclose(f); mpz_clear(x); return 0;
}
/* mpq_inp_str_trunc base s<bytes> k -> ret num den nextc | 0 1 */
static int op_mpq_inp_str_trunc(int argc, tok_t *a, out_t *o) {
  NEED(argc == 3 && ISNUM(a[0]) && ISSTR(a[1]) && ISNUM(a[2]));
  mpq_t q; mpq_init(q); mpq_set_si(q, 7, 3);
  rd_t r; FILE *f = rd_open(&r, a[1].s, a[1].slen, tok_long(&a[2]));
  size_t ret = mpq_inp_str(q, f, tok_long(&a[0]));
  out_size(o, ret);
  if (ret == 0) { if (mpz_wf(mpq_numref(q)) && mpz_wf(mpq_denref(q))) out_ulong(o, 1); else out_err(o, "malformed"); }
  else { out_mpq(o, q); out_nextc(o, f); }
  fclose(f); mpq_clear(q); return 0;
}
static int c_isspace(int c) { return c == ' ' || (c >= 9 && c <= 13); }
/* mpf_inp_str_trunc base prec s<bytes> k -> ret res (<mpf> | 1) [<mpf of mpf_set_str on the token>]
   (predicate op: the token is found here by the documented rule, mpf_set_str is called directly on it) */
static int op_mpf_inp_str_trunc(int argc, tok_t *a, out_t *o) {
  NEED(argc == 4 && ISNUM(a[0]) && ISNUM(a[1]) && ISSTR(a[2]) && ISNUM(a[3]));
  long base = tok_long(&a[0]), prec = tok_long(&a[1]), k = tok_long(&a[3]);
  NEED(prec >= 2 && prec <= 4096);
  long n = (k >= 0 && k < a[2].slen) ? k : a[2].slen, i = 0, j;
  while (i < n && c_isspace(a[2].s[i])) i++;
  for (j = i; j < n && !c_isspace(a[2].s[j]); j++) ;
  char *tok = malloc(j - i + 1); memcpy(tok, a[2].s + i, j - i); tok[j - i] = 0;
  mpf_t x, ref; mpf_init2(x, 64 * (prec - 1)); mpf_init2(ref, 64 * (prec - 1)); mpf_set_ui(x, 1);
  int res = mpf_set_str(ref, tok, base);
  rd_t r; FILE *f = rd_open(&r, a[2].s, a[2].slen, k);
  size_t ret = mpf_inp_str(x, f, base); fclose(f);
  out_size(o, ret); out_long(o, res);
  if (ret == 0) { if (mpf_wf(x)) out_ulong(o, 1); else out_err(o, "malformed"); } else out_mpf(o, x);
  if (res == 0) out_mpf(o, ref);
  free(tok); mpf_clear(x); mpf_clear(ref); return 0;
}

/* ---------- text round trips ---------- */
/* mpz_out_inp_str base x -> wret s<text> rret value nextc */
static int op_mpz_out_inp_str(int argc, tok_t *a, out_t *o) {
  NEED(argc == 2 && ISNUM(a[0]) && ISNUM(a[1]) && base_ok(tok_long(&a[0])));
  long base = tok_long(&a[0]);
  mpz_t x, y; mpz_init(x); tok_mpz(x, &a[1]); mpz_init2(y, 1);
  wr_t w; FILE *f = wr_open(&w, -1);
  size_t wr = mpz_out_str(f, base, x); fclose(f);
  rd_t r; f = rd_open(&r, w.buf, w.len, -1);
  size_t rr = mpz_inp_str(y, f, base < 0 ? -base : base);
  out_size(o, wr); out_bytes(o, w.buf ? w.buf : (unsigned char *)"", w.len); out_size(o, rr);
  if (rr == 0) out_ulong(o, mpz_wf(y)); else { out_mpz(o, y); out_nextc(o, f); }
  fclose(f); free(w.buf); mpz_clear(x); mpz_clear(y); return 0;
}
/* mpq_out_inp_str base num den -> wret s<text> rret num den nextc */
static int op_mpq_out_inp_str(int argc, tok_t *a, out_t *o) {
  NEED(argc == 3 && ISNUM(a[0]) && ISNUM(a[1]) && ISNUM(a[2]) && base_ok(tok_long(&a[0])));
  long base = tok_long(&a[0]);
  mpq_t q, y; tok_mpq(q, &a[1], &a[2]); mpq_init(y);
  wr_t w; FILE *f = wr_open(&w, -1);
  size_t wr = mpq_out_str(f, base, q); fclose(f);
  rd_t r; f = rd_open(&r, w.buf, w.len, -1);
  size_t rr = mpq_inp_str(y, f, base < 0 ? -base : base);
  out_size(o, wr); out_bytes(o, w.buf ? w.buf : (unsigned char *)"", w.len); out_size(o, rr);
  if (rr == 0) out_ulong(o, mpz_wf(mpq_numref(y)) && mpz_wf(mpq_denref(y))); else { out_mpq(o, y); out_nextc(o, f); }
  fclose(f); free(w.buf); mpq_clear(q); mpq_clear(y); return 0;
}
/* mpf_out_inp_str base ndigits prec size exp [limbs] -> wret s<text> rret <mpf>   (predicate op; read back with base -|base|) */
static int op_mpf_out_inp_str(int argc, tok_t *a, out_t *o) {
  NEED(argc == 6 && ISNUM(a[0]) && ISNUM(a[1]));
  long base = tok_long(&a[0]), nd = tok_long(&a[1]);
  NEED((base == 0 || (base >= 2 && base <= 62) || (base <= -2 && base >= -36)) && nd >= 0);
  /* mpf_out_str writes the exponent in decimal; mpf_inp_str reads a decimal exponent only for a negative base (manual) */
  long rbase = base == 0 ? -10 : (base > 0 ? -base : base);
  mpf_t x, y; NEED(tok_mpf(x, a + 2) == 0); mpf_init2(y, 64 * (x->_mp_prec - 1));
  wr_t w; FILE *f = wr_open(&w, -1);
  size_t wr = mpf_out_str(f, base, nd, x); fclose(f);
  rd_t r; f = rd_open(&r, w.buf, w.len, -1);
  size_t rr = mpf_inp_str(y, f, rbase); fclose(f);
  out_size(o, wr); out_bytes(o, w.buf ? w.buf : (unsigned char *)"", w.len); out_size(o, rr); out_mpf(o, y);
  free(w.buf); mpf_clear(x); mpf_clear(y); return 0;
}

const opdef_t ops_io[] = {
  {"mpz_export", op_export}, {"mpz_import", op_import},
  {"mpz_out_raw", op_out_raw}, {"mpz_inp_raw", op_inp_raw}, {"mpz_inp_raw_trunc", op_inp_raw_trunc},
  {"mpz_out_raw_fail", op_out_raw_fail}, {"mpz_out_inp_raw", op_out_inp_raw},
  {"mpz_out_str_fail", op_mpz_out_str_fail}, {"mpq_out_str_fail", op_mpq_out_str_fail},
  {"mpf_out_str_fail", op_mpf_out_str_fail}, {"gmp_fprintf_fail", op_fprintf_fail},
  {"mpz_inp_str_trunc", op_mpz_inp_str_trunc}, {"mpq_inp_str_trunc", op_mpq_inp_str_trunc},
  {"mpf_inp_str_trunc", op_mpf_inp_str_trunc},
  {"mpz_out_inp_str", op_mpz_out_inp_str}, {"mpq_out_inp_str", op_mpq_out_inp_str},
  {"mpf_out_inp_str", op_mpf_out_inp_str},
  {0, 0}
};
