/* C02 part c02_dc: the real divide-and-conquer division routines against the value-level models of
   lean/Mpir/Model/DcDiv.lean (handlers lean/Mpir/Ops/DcDiv.lean).

     dc_div_qr_n T [np, 2n limbs] [dp, n limbs]     mpn_dc_div_qr_n:  prints [q, n limbs] [np[0..n)] qh
     dc_div_qr_model T [np, nn limbs] [dp, dn limbs]  mpn_dc_div_qr:    prints [q, nn-dn limbs] [np[0..dn)] qh
     dc_div_q [np] [dp]                             mpn_dc_div_q:     prints [q, nn-dn limbs] qh, then what its callee
                                                    mpn_dc_divappr_q returns on (0 :: np, dp): [wp, nn-dn+1 limbs] wh
   T must be the DC_DIV_QR_THRESHOLD this library was compiled with (the generator reads gmp-mparam.h of the tree under
   test); otherwise `!invalid`: the model would be run with a different recursion shape than the code. */
#include "harness.h"
#include "gmp-impl.h"
#include "longlong.h"

#define NEED(c) do { if (!(c)) return -1; } while (0)
#define IS_UI(t) ((t).kind == T_NUM && !(t).neg && (t).n <= 1)
#define NORMD(t) ((t).n >= 1 && ((t).d[(t).n - 1] >> 63))
static mp_limb_t *dcopy(const mp_limb_t *p, long n) { mp_limb_t *r = dst_new(n); memcpy(r, p, n * sizeof *r); return r; }
static void fin(out_t *o, mp_limb_t *p, long n) { if (!dst_ok(p, n)) out_err(o, "oob"); dst_free(p); }
static void unchanged(out_t *o, const mp_limb_t *p, const tok_t *t) { if (memcmp(p, t->d, t->n * sizeof *p)) out_err(o, "modified"); }

static int op_dc_div_qr_n(int argc, tok_t *a, out_t *o) {
  NEED(argc == 3 && IS_UI(a[0]) && a[1].kind == T_VEC && a[2].kind == T_VEC);
  long T = tok_long(&a[0]), n = a[2].n;
  NEED(T >= 6 && n >= 6 && a[1].n == 2 * n && NORMD(a[2]));
  if (T != (long) DC_DIV_QR_THRESHOLD) { out_err(o, "invalid"); return 0; }
  long itch = DC_DIVAPPR_Q_N_ITCH(n);
  mp_limb_t *np = dcopy(a[1].d, 2 * n), *dp = dcopy(a[2].d, n), *qp = dst_new(n), *tp = dst_new(itch), dinv;
  mpir_invert_pi1(dinv, dp[n - 1], dp[n - 2]);
  mp_limb_t qh = mpn_dc_div_qr_n(qp, np, dp, n, dinv, tp);
  out_vec(o, qp, n); out_vec(o, np, n); out_ulong(o, qh);
  unchanged(o, dp, &a[2]);
  fin(o, qp, n); fin(o, np, 2 * n); fin(o, dp, n); fin(o, tp, itch); return 0;
}

static int op_dc_div_qr_model(int argc, tok_t *a, out_t *o) {
  NEED(argc == 3 && IS_UI(a[0]) && a[1].kind == T_VEC && a[2].kind == T_VEC);
  long T = tok_long(&a[0]), nn = a[1].n, dn = a[2].n, qn = nn - dn;
  NEED(T >= 6 && dn >= 6 && qn >= 3 && NORMD(a[2]));            /* dc_div_qr.c:45-47 */
  if (T != (long) DC_DIV_QR_THRESHOLD) { out_err(o, "invalid"); return 0; }
  mp_limb_t *np = dcopy(a[1].d, nn), *dp = dcopy(a[2].d, dn), *qp = dst_new(qn), dinv;
  mpir_invert_pi1(dinv, dp[dn - 1], dp[dn - 2]);
  mp_limb_t qh = mpn_dc_div_qr(qp, np, nn, dp, dn, dinv);
  out_vec(o, qp, qn); out_vec(o, np, dn); out_ulong(o, qh);
  unchanged(o, dp, &a[2]);
  fin(o, qp, qn); fin(o, np, nn); fin(o, dp, dn); return 0;
}

static int op_dc_div_q(int argc, tok_t *a, out_t *o) {
  NEED(argc == 2 && a[0].kind == T_VEC && a[1].kind == T_VEC);
  long nn = a[0].n, dn = a[1].n, qn = nn - dn;
  NEED(dn >= 6 && qn >= 3 && NORMD(a[1]));                      /* dc_div_q.c:42-44 */
  mp_limb_t *np = dcopy(a[0].d, nn), *dp = dcopy(a[1].d, dn), *qp = dst_new(qn), dinv;
  mpir_invert_pi1(dinv, dp[dn - 1], dp[dn - 2]);
  mp_limb_t qh = mpn_dc_div_q(qp, np, nn, dp, dn, dinv);
  out_vec(o, qp, qn); out_ulong(o, qh);
  unchanged(o, dp, &a[1]);
  /* the callee's answer, recomputed on the same input (dc_div_q.c:46-53): tp = {0, np}, nn + 1 limbs */
  mp_limb_t *tp = dst_new(nn + 1), *wp = dst_new(qn + 1);
  tp[0] = 0; memcpy(tp + 1, a[0].d, nn * sizeof *tp);
  mp_limb_t wh = mpn_dc_divappr_q(wp, tp, nn + 1, dp, dn, dinv);
  out_vec(o, wp, qn + 1); out_ulong(o, wh);
  fin(o, qp, qn); fin(o, np, nn); fin(o, dp, dn); fin(o, tp, nn + 1); fin(o, wp, qn + 1); return 0;
}

const opdef_t ops_dcdiv[] = {
  {"dc_div_qr_n", op_dc_div_qr_n}, {"dc_div_qr_model", op_dc_div_qr_model}, {"dc_div_q", op_dc_div_q},
  {0, 0}
};
