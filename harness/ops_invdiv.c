/* C02 part c02_inv: the real precomputed-inverse division routines against the value-level models of
   lean/Mpir/Model/InvDiv.lean (handlers lean/Mpir/Ops/InvDiv.lean).

     inv_is_invert [xp, n limbs] [ap, n limbs]            mpn_is_invert:    prints 0/1
     inv_invert [ap, n limbs]                             mpn_invert:       prints [xp, n limbs] and mpn_is_invert of it
     inv_div_qr_n [np, 2dn limbs] [dp, dn limbs] [inv, dn limbs]
                                                          mpn_inv_div_qr_n: prints [q, dn limbs] [np, 2dn limbs] ret
     inv_div_qr_n_auto [np, 2dn limbs] [dp, dn limbs]     the same with inv = mpn_invert (dp); prints [inv] first
   dn + 1 must stay below FFT_MULMOD_2EXPP1_CUTOFF (mpir_fft_adjust_limbs is not modelled). */
#include "harness.h"
#include "gmp-impl.h"
#include "longlong.h"

#define NEED(c) do { if (!(c)) return -1; } while (0)
#define NORMD(t) ((t).n >= 1 && ((t).d[(t).n - 1] >> 63))
static mp_limb_t *dcopy(const mp_limb_t *p, long n) { mp_limb_t *r = dst_new(n); memcpy(r, p, n * sizeof *r); return r; }
static void fin(out_t *o, mp_limb_t *p, long n) { if (!dst_ok(p, n)) out_err(o, "oob"); dst_free(p); }
static void unchanged(out_t *o, const mp_limb_t *p, const tok_t *t) { if (memcmp(p, t->d, t->n * sizeof *p)) out_err(o, "modified"); }

static int op_is_invert(int argc, tok_t *a, out_t *o) {
  NEED(argc == 2 && a[0].kind == T_VEC && a[1].kind == T_VEC && a[0].n == a[1].n && a[0].n >= 1);
  long n = a[0].n;
  mp_limb_t *xp = dcopy(a[0].d, n), *ap = dcopy(a[1].d, n);
  out_ulong(o, (unsigned long) mpn_is_invert(xp, ap, n));
  unchanged(o, xp, &a[0]); unchanged(o, ap, &a[1]);
  fin(o, xp, n); fin(o, ap, n); return 0;
}

static int op_invert(int argc, tok_t *a, out_t *o) {
  NEED(argc == 1 && a[0].kind == T_VEC && NORMD(a[0]));
  long n = a[0].n;
  mp_limb_t *xp = dst_new(n), *ap = dcopy(a[0].d, n);
  mpn_invert(xp, ap, n);
  out_vec(o, xp, n); out_ulong(o, (unsigned long) mpn_is_invert(xp, ap, n));
  unchanged(o, ap, &a[0]);
  fin(o, xp, n); fin(o, ap, n); return 0;
}

static int div_qr_n(tok_t *N, tok_t *D, tok_t *I, out_t *o) {
  long dn = D->n;
  NEED(dn >= 1 && N->n == 2 * dn && NORMD(*D) && dn + 1 < FFT_MULMOD_2EXPP1_CUTOFF);
  mp_limb_t *np = dcopy(N->d, 2 * dn), *dp = dcopy(D->d, dn), *qp = dst_new(dn), *ip = dst_new(dn);
  if (I) { NEED(I->n == dn); memcpy(ip, I->d, dn * sizeof *ip); }
  else { mpn_invert(ip, dp, dn); out_vec(o, ip, dn); }
  if (!mpn_is_invert(ip, dp, dn)) out_err(o, "invalid");           /* inv_div_qr_n.c:43 ASSERT */
  else {
    mp_limb_t ret = mpn_inv_div_qr_n(qp, np, dp, dn, ip);
    out_vec(o, qp, dn); out_vec(o, np, 2 * dn); out_ulong(o, ret);
  }
  unchanged(o, dp, D); if (I) unchanged(o, ip, I);
  fin(o, qp, dn); fin(o, np, 2 * dn); fin(o, dp, dn); fin(o, ip, dn); return 0;
}

static int op_div_qr_n(int argc, tok_t *a, out_t *o) {
  NEED(argc == 3 && a[0].kind == T_VEC && a[1].kind == T_VEC && a[2].kind == T_VEC);
  return div_qr_n(&a[0], &a[1], &a[2], o);
}
static int op_div_qr_n_auto(int argc, tok_t *a, out_t *o) {
  NEED(argc == 2 && a[0].kind == T_VEC && a[1].kind == T_VEC);
  return div_qr_n(&a[0], &a[1], 0, o);
}

const opdef_t ops_invdiv[] = {
  {"inv_is_invert", op_is_invert}, {"inv_invert", op_invert},
  {"inv_div_qr_n", op_div_qr_n}, {"inv_div_qr_n_auto", op_div_qr_n_auto},
  {0, 0}
};
