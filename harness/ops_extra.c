/* integrator's directed ops that do not fit a topic file */
#include "harness.h"
/* mpz_mul_view w_mode a k : multiply a by a read-only view of its own low k limbs (mpz_roinit_n over mpz_limbs_read):
   two different mpz objects sharing limb storage.  w_mode 0: fresh destination, 1: destination is a itself */
static int op_mul_view(int argc, tok_t *t, out_t *o) {
  if (argc != 3) return -1;
  long mode = tok_long(&t[0]), k = tok_long(&t[2]);
  mpz_t a, w, v; mpz_init(a); tok_mpz(a, &t[1]);
  long an = a->_mp_size < 0 ? -a->_mp_size : a->_mp_size;
  if (k < 1 || k > an) { mpz_clear(a); return -1; }
  mpz_srcptr view = mpz_roinit_n(v, mpz_limbs_read(a), k);
  if (mode == 1) { mpz_mul(a, a, view); out_mpz(o, a); }
  else { mpz_init2(w, 1); mpz_mul(w, a, view); out_mpz(o, w); mpz_clear(w); }
  mpz_clear(a); return 0;
}
/* mpz_pow_shape base e : r = base^e through mpz_pow_ui (mpz base) — for results too long to print: sign, bit length,
   number of trailing zero bits, low and high 64 bits of the odd part.  The count of trailing zero bits of such a power
   exceeds 2^32 when e * v2(base) does. */
static int op_pow_shape(int argc, tok_t *t, out_t *o) {
  if (argc != 2 || t[0].kind != T_NUM || t[1].kind != T_NUM || t[1].neg) return -1;
  mpz_t b, r, odd; mpz_init(b); tok_mpz(b, &t[0]); mpz_init2(r, 1); mpz_init(odd);
  unsigned long e = tok_ulong(&t[1]);
  mpz_pow_ui(r, b, e);
  if (mpz_sgn(r) == 0) { out_long(o, 0); mpz_clear(b); mpz_clear(r); mpz_clear(odd); return 0; }
  unsigned long bits = mpz_sizeinbase(r, 2), tz = mpz_scan1(r, 0);
  mpz_tdiv_q_2exp(odd, r, tz); mpz_abs(odd, odd);
  unsigned long ob = bits - tz, lo = mpz_getlimbn(odd, 0), hi;
  if (ob > 64) { mpz_tdiv_q_2exp(odd, odd, ob - 64); hi = mpz_getlimbn(odd, 0); } else hi = lo;
  out_long(o, mpz_sgn(r)); out_ulong(o, bits); out_ulong(o, tz); out_ulong(o, lo); out_ulong(o, hi);
  if (r->_mp_d[(r->_mp_size < 0 ? -r->_mp_size : r->_mp_size) - 1] == 0) out_err(o, "malformed");
  mpz_clear(b); mpz_clear(r); mpz_clear(odd); return 0;
}
/* mpn_mod_34lsub1_rep [pattern] reps : the operand is the pattern repeated reps times (least significant first);
   prints the raw return value (any value congruent to the operand modulo 2^48 - 1) */
#include "gmp-impl.h"
static int op_mod34_rep(int argc, tok_t *t, out_t *o) {
  if (argc != 2 || t[0].kind != T_VEC || t[1].kind != T_NUM || t[0].n < 1) return -1;
  long pn = t[0].n, reps = tok_long(&t[1]);
  if (reps < 1 || pn * reps > 4000000) return -1;
  mp_limb_t *p = malloc(sizeof(mp_limb_t) * pn * reps);
  for (long r = 0; r < reps; r++) memcpy(p + r * pn, t[0].d, sizeof(mp_limb_t) * pn);
  mp_limb_t v = mpn_mod_34lsub1(p, pn * reps);
  out_ulong(o, v); free(p); return 0;
}
const opdef_t ops_extra[] = { {"mpz_mul_view", op_mul_view}, {"mpz_pow_shape", op_pow_shape}, {"mpn_mod_34lsub1_rep", op_mod34_rep}, {0, 0} };
