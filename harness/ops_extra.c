/* integrator's directed ops that do not fit a topic file */
#include "harness.h"
/* mpz_mul_view w_mode a k : multiply a by a read-only view of its own low k limbs (mpz_roinit_n over mpz_limbs_read):
   two different mpz objects sharing limb storage.  w_mode 0: fresh destination, 1: destination is a itself */
static int op_mul_view(int argc, tok_t *t, out_t *o) {
  if (argc != 3) return -1;
  long mode = tok_long(&t[0]), k = tok_long(&t[2]);
  mpz_t a, w, v; mpz_init(a); tok_mpz(a, &t[1]);
  long an = a->_mp_size < 0 ? -a->_mp_size : a->_mp_size;
  if (k < 1 || k > an) { mpz_clear(a); return -1; }
  mpz_srcptr view = mpz_roinit_n(v, mpz_limbs_read(a), k);
  if (mode == 1) { mpz_mul(a, a, view); out_mpz(o, a); }
  else { mpz_init2(w, 1); mpz_mul(w, a, view); out_mpz(o, w); mpz_clear(w); }
  mpz_clear(a); return 0;
}
const opdef_t ops_extra[] = { {"mpz_mul_view", op_mul_view}, {0, 0} };
