/* The obstack member of the printf family (property C18, part c18_obstack): gmp_obstack_printf /
   gmp_obstack_vprintf (printf/obprintf.c, obvprintf.c) and their callbacks in printf/obprntffuns.c
   (gmp_obstack_memory = obstack_grow, gmp_obstack_reps = obstack_blank + memset, format = glibc's
   obstack_vprintf), called MANY times on ONE growing object so that the object is moved from chunk to
   chunk in the middle of a padding run, of a digit string and of a C-library piece.

     gmp_obstack_seq  s<fmt> s<types> args... <reps> <chunk> <pre> <stats>
     gmp_obstack_vseq   (the same through gmp_obstack_vprintf)
         the SAME formatted piece appended `reps` times to one object; then obstack_1grow (0)
         -> sum-of-returns [!markers] sOBJECT-WITHOUT-NUL [nalloc nfree] stores...
     gmp_obstack_mix  <chunk> <pre> <stats> <n> { s<fmt> s<types> args... } x n
     gmp_obstack_vmix
         n different pieces appended to one object, one call each (mix: even pieces through
         gmp_obstack_printf, odd ones through gmp_obstack_vprintf; vmix the other way round)
         -> as above (stores of all pieces in order)

   chunk    : obstack_specify_allocation (chunk, default alignment, ob_alloc, ob_free), where ob_alloc is
              malloc + fill with 0xEE and ob_free is fill with 0xDD + free (so ASan and glibc see every
              chunk release, a byte of the object that was never stored shows as ee, a byte read from a
              released chunk as dd; see "chunk functions" below for when the free happens);
              chunk = 0 is glibc's default chunk size (what obstack_init uses: 4096 - 32).
   pre      : bytes of an earlier, finished object in the same obstack (then the growing object does not
              start its chunk and _obstack_newchunk keeps the old chunk instead of freeing it).
   stats = 1: also print the number of chunks allocated and freed up to and including the final 1grow
              (only meaningful, and only generated, for formats made of MPIR conversions alone: how glibc's
              obstack_vprintf asks for room is its own business).
   Markers: !nonul (no terminator at the end of the object), !size (object size != sum of returns + 1),
            !neg (a call returned a negative value), !pre (the earlier object was damaged),
            !chunkleak (obstack_free (ob, NULL) did not release every chunk),
            !stalewrite (plain build: a released chunk was written to afterwards),
            !chunkoob (plain build: bytes just before or after a chunk were written).

   The (fmt, types, args) decoder is the one of harness/ops_printf.c: that file is included below as a
   private copy (its op table renamed, so nothing is registered twice). */
#define ops_printf ops_printf__private_copy_in_ops_obstack
#include "ops_printf.c"
#undef ops_printf

/* ---------- chunk functions ---------- */
/* Plain build: a released chunk is filled with 0xDD and kept until the end of the op, then checked (a store through a
   pointer into it shows as !stalewrite ON THE OP THAT MADE IT instead of as a corrupted heap some ops later) and only
   then handed to free.  AddressSanitizer build: released at once, so that the sanitizer reports the store itself. */
#if defined(__SANITIZE_ADDRESS__)
#define OB_QUARANTINE 0
#else
#define OB_QUARANTINE 1
#endif
#define OB_MAXCHUNKS 256
#define OB_RZ 64                                  /* red zone on both sides of a chunk (plain build; a multiple of the alignment) */
static struct { unsigned char *p; size_t n; int released; } ob_live[OB_MAXCHUNKS];
static long ob_nalloc, ob_nfree, ob_unknown;
static void *ob_alloc(size_t n) {
  size_t rz = OB_QUARANTINE ? OB_RZ : 0;
  unsigned char *raw = malloc(n + 2 * rz);
  if (!raw) abort();
  memset(raw, 0xA7, rz); memset(raw + rz, 0xEE, n); memset(raw + rz + n, 0xA7, rz);
  unsigned char *p = raw + rz;
  ob_nalloc++;
  int i = 0;
  for (; i < OB_MAXCHUNKS; i++) if (!ob_live[i].p) { ob_live[i].p = p; ob_live[i].n = n; ob_live[i].released = 0; break; }
  if (i == OB_MAXCHUNKS) abort();                 /* more live chunks than any op can make (the object grows by 1/8 + 100 bytes per move) */
  return p;
}
static void ob_free(void *p) {
  ob_nfree++;
  for (int i = 0; i < OB_MAXCHUNKS; i++)
    if (ob_live[i].p == p && !ob_live[i].released) {
      memset(p, 0xDD, ob_live[i].n);
      if (OB_QUARANTINE) ob_live[i].released = 1; else { ob_live[i].p = 0; free(p); }
      return;
    }
  ob_unknown++;                                   /* not in the table: not handed to free (its true start is unknown) */
}
/* end of the op: every chunk must have been released; the quarantined ones must still be all 0xDD, their red zones intact */
static int ob_sweep(int *stale, int *oob) {
  int left = 0; *stale = 0; *oob = 0;
  for (int i = 0; i < OB_MAXCHUNKS; i++) if (ob_live[i].p) {
    unsigned char *p = ob_live[i].p; size_t n = ob_live[i].n;
    for (size_t k = 0; k < OB_RZ; k++) if (p[-1 - (long)k] != 0xA7 || p[n + k] != 0xA7) { *oob = 1; break; }
    if (!ob_live[i].released) { left++; continue; }
    for (size_t k = 0; k < n; k++) if (p[k] != 0xDD) { *stale = 1; break; }
    free(p - OB_RZ); ob_live[i].p = 0;
  }
  return left;
}

typedef struct { struct obstack ob; unsigned long chunk, pre; int stats; unsigned char *prep; long sum; int neg; } obs_t;

static int ob_params(obs_t *s, tok_t *t) {     /* t[0..2] = chunk pre stats */
  for (int i = 0; i < 3; i++) NEED(t[i].kind == T_NUM && !t[i].neg && t[i].n <= 1);
  s->chunk = tok_ulong(&t[0]); s->pre = tok_ulong(&t[1]); unsigned long st = tok_ulong(&t[2]);
  NEED(s->chunk == 0 || (s->chunk >= 48 && s->chunk <= 1 << 16));
  NEED(s->chunk == 0 ? s->pre <= 2048 : s->pre + 16 <= s->chunk);      /* the earlier object fits the first chunk (16 = chunk header) */
  NEED(st <= 1);
  s->stats = (int)st; return 0;
}
static void ob_open(obs_t *s) {
  ob_nalloc = ob_nfree = ob_unknown = 0; memset(ob_live, 0, sizeof ob_live);
  s->sum = 0; s->neg = 0; s->prep = 0;
  obstack_specify_allocation(&s->ob, s->chunk, 0, ob_alloc, ob_free);   /* size 0, alignment 0: glibc's defaults, as obstack_init */
  if (s->pre) { obstack_blank(&s->ob, s->pre); memset(obstack_base(&s->ob), 'P', s->pre); s->prep = obstack_finish(&s->ob); }
}
static void ob_call(obs_t *s, int v, const char *fmt, pa_t *pa) {
  int ret = v ? vcall(K_VOB, &s->ob, 0, fmt, SLOTS(pa)) : gmp_obstack_printf(&s->ob, fmt, SLOTS(pa));
  if (ret < 0) s->neg = 1;
  s->sum += ret;
}
static void ob_close(obs_t *s, out_t *o) {
  obstack_1grow(&s->ob, 0);
  size_t n = obstack_object_size(&s->ob);
  long na = ob_nalloc, nf = ob_nfree;
  unsigned char *p = obstack_finish(&s->ob);
  unsigned char *copy = malloc(n + 1); memcpy(copy, p, n);
  int prebad = 0;
  for (unsigned long i = 0; i < s->pre; i++) if (s->prep[i] != 'P') { prebad = 1; break; }
  obstack_free(&s->ob, NULL);
  int stale = 0, oob = 0, left = OB_QUARANTINE ? ob_sweep(&stale, &oob) : 0;
  out_long(o, s->sum);                                  /* the markers come before the (long) object so that reports show them */
  if ((long)n != s->sum + 1) out_err(o, "size");
  if (s->neg) out_err(o, "neg");
  if (prebad) out_err(o, "pre");
  if (stale) out_err(o, "stalewrite");
  if (oob) out_err(o, "chunkoob");
  if (ob_nalloc != ob_nfree || ob_unknown || left) out_err(o, "chunkleak");
  if (n == 0 || copy[n - 1] != 0) { out_err(o, "nonul"); out_bytes(o, copy, n); } else out_bytes(o, copy, n - 1);
  if (s->stats) { out_long(o, na); out_long(o, nf); }
  free(copy);
}

static int ob_seq(int v, int argc, tok_t *a, out_t *o) {
  NEED(argc >= 6 && a[0].kind == T_STR && a[1].kind == T_STR);
  tok_t *t = a + argc - 4;                                             /* reps chunk pre stats */
  NEED(t[0].kind == T_NUM && !t[0].neg && t[0].n <= 1);
  unsigned long reps = tok_ulong(&t[0]); NEED(reps >= 1 && reps <= 4096);
  obs_t s; if (ob_params(&s, t + 1)) return -1;
  pa_t pa; int used = build_args(&pa, (char *)a[1].s, argc - 6, a + 2);
  if (used != argc - 6) { free_args(&pa); return -1; }
  ob_open(&s);
  for (unsigned long r = 0; r < reps; r++) ob_call(&s, v, (char *)a[0].s, &pa);
  ob_close(&s, o);
  out_stores(&pa, o); free_args(&pa); return 0;
}
static int op_ob_seq(int c, tok_t *a, out_t *o) { return ob_seq(0, c, a, o); }
static int op_ob_vseq(int c, tok_t *a, out_t *o) { return ob_seq(1, c, a, o); }

static int ob_mix(int v, int argc, tok_t *a, out_t *o) {
  NEED(argc >= 4 && a[3].kind == T_NUM && !a[3].neg && a[3].n <= 1);
  obs_t s; if (ob_params(&s, a)) return -1;
  unsigned long n = tok_ulong(&a[3]); NEED(n <= 64);
  /* first pass: the token list must split into n well-formed pieces (nothing is called before that is known) */
  int k = 4;
  for (unsigned long i = 0; i < n; i++) {
    NEED(k + 1 < argc && a[k].kind == T_STR && a[k + 1].kind == T_STR);
    pa_t pa; int used = build_args(&pa, (char *)a[k + 1].s, argc - k - 2, a + k + 2);
    free_args(&pa); if (used < 0) return -1;
    k += 2 + used;
  }
  NEED(k == argc);
  out_t so = { 0, 0, 0 };
  ob_open(&s);
  k = 4;
  for (unsigned long i = 0; i < n; i++) {
    pa_t pa; int used = build_args(&pa, (char *)a[k + 1].s, argc - k - 2, a + k + 2);
    ob_call(&s, (int)((i & 1) ^ (unsigned)v), (char *)a[k].s, &pa);
    out_stores(&pa, &so); free_args(&pa);
    k += 2 + used;
  }
  ob_close(&s, o);
  if (so.len) out_raw(o, so.buf);
  free(so.buf); return 0;
}
static int op_ob_mix(int c, tok_t *a, out_t *o) { return ob_mix(0, c, a, o); }
static int op_ob_vmix(int c, tok_t *a, out_t *o) { return ob_mix(1, c, a, o); }

const opdef_t ops_obstack[] = {
  {"gmp_obstack_seq", op_ob_seq}, {"gmp_obstack_vseq", op_ob_vseq},
  {"gmp_obstack_mix", op_ob_mix}, {"gmp_obstack_vmix", op_ob_vmix},
  {0, 0}
};
