/* C04 part allocsafe4 (third continuation of ops_allocsafe.c, same conventions): public mpz functions on objects of
   GIVEN allocations.  Every object is a token pair `alloc value` (alloc >= max (limbs of value, 1): the block has exactly
   alloc limbs, the unused ones poisoned by the recording allocator).  Leading alias-mode token where there are several
   variables:  0 all variables distinct   1 w is u   2 w is v   3 u is v (w distinct)   4 all one variable.
   Output: ALLOC (w), SIZ (w), value of w — compared exactly with the size-aware models of
   lean/Mpir/Model/AllocSafeMpz4.lean; the recording allocator / red zones turn an overrun into a marker. */
#include <string.h>
#include "harness.h"
#include "gmp-impl.h"
#define NEED(c) do { if (!(c)) return -1; } while (0)
#define ISUI(k) (a[k].kind == T_NUM && !a[k].neg && a[k].n <= 1)

static int mk(mpz_ptr z, const tok_t *al, const tok_t *v) {
  if (!(al->kind == T_NUM && !al->neg && al->n <= 1 && v->kind == T_NUM)) return -1;
  unsigned long alloc = tok_ulong(al);
  if (alloc < 1 || alloc > (1UL << 20) || (unsigned long)v->n > alloc) return -1;
  mpz_init2(z, alloc * GMP_NUMB_BITS);
  if ((unsigned long)ALLOC(z) != alloc) { mpz_clear(z); return -1; }
  for (long i = 0; i < v->n; i++) PTR(z)[i] = v->d[i];
  SIZ(z) = v->neg ? -(int)v->n : (int)v->n;
  return 0;
}
static void outw(out_t *o, mpz_srcptr w) { out_long(o, ALLOC(w)); out_long(o, SIZ(w)); out_mpz(o, w); }
static long mode_of(const tok_t *t) { return (t->kind == T_NUM && !t->neg && t->n <= 1) ? (long)tok_ulong(t) : -1; }

/* f (w, u, v): mode wa wv ua uv va vv */
typedef void (*f3_t)(mpz_ptr, mpz_srcptr, mpz_srcptr);
static int do3(f3_t f, int argc, tok_t *a, out_t *o) {
  NEED(argc == 7); long m = mode_of(&a[0]); NEED(m >= 0 && m <= 4);
  mpz_t w, u, v;
  NEED(mk(w, &a[1], &a[2]) == 0);
  if (mk(u, &a[3], &a[4])) { mpz_clear(w); return -1; }
  if (mk(v, &a[5], &a[6])) { mpz_clear(w); mpz_clear(u); return -1; }
  switch (m) {
    case 0: f(w, u, v); outw(o, w); break;
    case 1: f(u, u, v); outw(o, u); break;
    case 2: f(v, u, v); outw(o, v); break;
    case 3: f(w, u, u); outw(o, w); break;
    case 4: f(u, u, u); outw(o, u); break;
  }
  mpz_clear(w); mpz_clear(u); mpz_clear(v); return 0;
}
/* the same for functions that may raise DIVIDE_BY_ZERO */
static int do3g(f3_t f, int argc, tok_t *a, out_t *o) {
  NEED(argc == 7); long m = mode_of(&a[0]); NEED(m >= 0 && m <= 4);
  mpz_t w, u, v; int e = 0;
  NEED(mk(w, &a[1], &a[2]) == 0);
  if (mk(u, &a[3], &a[4])) { mpz_clear(w); return -1; }
  if (mk(v, &a[5], &a[6])) { mpz_clear(w); mpz_clear(u); return -1; }
  switch (m) {
    case 0: e = GUARD(f(w, u, v)); if (e) out_err(o, "div0"); else outw(o, w); break;
    case 1: e = GUARD(f(u, u, v)); if (e) out_err(o, "div0"); else outw(o, u); break;
    case 2: e = GUARD(f(v, u, v)); if (e) out_err(o, "div0"); else outw(o, v); break;
    case 3: e = GUARD(f(w, u, u)); if (e) out_err(o, "div0"); else outw(o, w); break;
    case 4: e = GUARD(f(u, u, u)); if (e) out_err(o, "div0"); else outw(o, u); break;
  }
  mpz_clear(w); mpz_clear(u); mpz_clear(v); return 0;
}
/* f (w, u, ui): mode wa wv ua uv k */
typedef void (*fui_t)(mpz_ptr, mpz_srcptr, mpir_ui);
static int doui(fui_t f, int argc, tok_t *a, out_t *o) {
  NEED(argc == 6 && ISUI(5)); long m = mode_of(&a[0]); NEED(m == 0 || m == 1);
  mpir_ui k = tok_ulong(&a[5]);
  mpz_t w, u;
  NEED(mk(w, &a[1], &a[2]) == 0);
  if (mk(u, &a[3], &a[4])) { mpz_clear(w); return -1; }
  if (m == 0) { f(w, u, k); outw(o, w); } else { f(u, u, k); outw(o, u); }
  mpz_clear(w); mpz_clear(u); return 0;
}
static int op_addmul_ui(int c, tok_t *a, out_t *o) { return doui(mpz_addmul_ui, c, a, o); }
static int op_submul_ui(int c, tok_t *a, out_t *o) { return doui(mpz_submul_ui, c, a, o); }
static int op_addmul(int c, tok_t *a, out_t *o) { return do3(mpz_addmul, c, a, o); }
static int op_submul(int c, tok_t *a, out_t *o) { return do3(mpz_submul, c, a, o); }
static int op_mul(int c, tok_t *a, out_t *o) { return do3(mpz_mul, c, a, o); }
static int op_tdiv_q(int c, tok_t *a, out_t *o) { return do3g(mpz_tdiv_q, c, a, o); }
static int op_tdiv_r(int c, tok_t *a, out_t *o) { return do3g(mpz_tdiv_r, c, a, o); }

/* mpz_tdiv_qr (q, r, n, d): mode qa qv ra rv na nv da dv; q and r always distinct; mode: 0 all distinct, 1 q is n, 2 q is d, 3 r is n,
   4 r is d, 5 q is n and r is d, 6 q is d and r is n, 7 n is d (q, r distinct from it), 8 q is n is d, 9 r is n is d.
   Output: ALLOC SIZ value of q, then of r. */
static int op_tdiv_qr(int argc, tok_t *a, out_t *o) {
  NEED(argc == 9); long m = mode_of(&a[0]); NEED(m >= 0 && m <= 9);
  mpz_t q, r, n, d; int e;
  NEED(mk(q, &a[1], &a[2]) == 0);
  if (mk(r, &a[3], &a[4])) { mpz_clear(q); return -1; }
  if (mk(n, &a[5], &a[6])) { mpz_clear(q); mpz_clear(r); return -1; }
  if (mk(d, &a[7], &a[8])) { mpz_clear(q); mpz_clear(r); mpz_clear(n); return -1; }
  mpz_ptr Q = q, R = r, N = n, D = d;
  switch (m) {
    case 1: Q = n; break;            case 2: Q = d; break;
    case 3: R = n; break;            case 4: R = d; break;
    case 5: Q = n; R = d; break;     case 6: Q = d; R = n; break;
    case 7: D = n; break;            case 8: Q = n; D = n; break;
    case 9: R = n; D = n; break;
  }
  e = GUARD(mpz_tdiv_qr(Q, R, N, D));
  if (e) out_err(o, "div0"); else { outw(o, Q); outw(o, R); }
  mpz_clear(q); mpz_clear(r); mpz_clear(n); mpz_clear(d); return 0;
}

/* mpz_sqrtrem (root, rem, op): mode ra rv ma mv ua uv; mode 0 all distinct, 1 root is op, 2 rem is op; output: root then rem */
static int op_sqrtrem(int argc, tok_t *a, out_t *o) {
  NEED(argc == 7); long m = mode_of(&a[0]); NEED(m >= 0 && m <= 2);
  mpz_t q, r, u; int e;
  NEED(mk(q, &a[1], &a[2]) == 0);
  if (mk(r, &a[3], &a[4])) { mpz_clear(q); return -1; }
  if (mk(u, &a[5], &a[6])) { mpz_clear(q); mpz_clear(r); return -1; }
  mpz_ptr Q = m == 1 ? u : q, R = m == 2 ? u : r;
  e = GUARD(mpz_sqrtrem(Q, R, u));
  if (e) out_err(o, "sqrtneg"); else { outw(o, Q); outw(o, R); }
  mpz_clear(q); mpz_clear(r); mpz_clear(u); return 0;
}

/* mpz_set_d (w, d): wa wv bits (the 64-bit pattern of the double); NaN / Inf raise the invalid-operation exception */
static int op_set_d(int argc, tok_t *a, out_t *o) {
  NEED(argc == 3 && ISUI(2));
  unsigned long b = tok_ulong(&a[2]); double d; memcpy(&d, &b, 8);
  mpz_t w; int e;
  NEED(mk(w, &a[0], &a[1]) == 0);
  e = GUARD(mpz_set_d(w, d));
  if (e) out_err(o, "fpe"); else outw(o, w);
  mpz_clear(w); return 0;
}

/* mpq_inv (dest, src): mode dna dnv dda ddv sna snv sda sdv; mode 0 distinct, 1 dest is src; the mpq fields are mpz objects of the
   given allocations (src must be canonical: den > 0); output: ALLOC SIZ value of num (dest), then of den (dest) */
static int op_mpq_inv(int argc, tok_t *a, out_t *o) {
  NEED(argc == 9); long m = mode_of(&a[0]); NEED(m == 0 || m == 1);
  mpz_t z[4]; int e, i;
  for (i = 0; i < 4; i++) if (mk(z[i], &a[1 + 2 * i], &a[2 + 2 * i])) { while (i--) mpz_clear(z[i]); return -1; }
  NEED(SIZ(z[3]) > 0 || (mpz_clear(z[0]), mpz_clear(z[1]), mpz_clear(z[2]), mpz_clear(z[3]), 0));
  mpq_t d, s;
  *mpq_numref(d) = *z[0]; *mpq_denref(d) = *z[1]; *mpq_numref(s) = *z[2]; *mpq_denref(s) = *z[3];
  mpq_ptr D = m == 1 ? s : d;
  e = GUARD(mpq_inv(D, s));
  if (e) out_err(o, "div0"); else { outw(o, mpq_numref(D)); outw(o, mpq_denref(D)); }
  mpq_clear(d); mpq_clear(s); return 0;
}

/* mpz_sqrt (w, u): mode wa wv ua uv; mode 0 or 1; a negative operand raises SQRT_OF_NEGATIVE */
static int op_sqrt(int argc, tok_t *a, out_t *o) {
  NEED(argc == 5); long m = mode_of(&a[0]); NEED(m == 0 || m == 1);
  mpz_t w, u; int e;
  NEED(mk(w, &a[1], &a[2]) == 0);
  if (mk(u, &a[3], &a[4])) { mpz_clear(w); return -1; }
  if (m == 0) { e = GUARD(mpz_sqrt(w, u)); if (e) out_err(o, "sqrtneg"); else outw(o, w); }
  else { e = GUARD(mpz_sqrt(u, u)); if (e) out_err(o, "sqrtneg"); else outw(o, u); }
  mpz_clear(w); mpz_clear(u); return 0;
}

/* as4_mpf_urandomb seed prec_bits nbits: Mersenne Twister seeded with `seed`, destination of mpf_init2 (prec_bits) (a block of exactly
   PREC + 1 limbs from the recording allocator: a store past it damages the red zone); output PREC + 1, SIZ, EXP, the limbs */
static int op_mpf_urandomb(int argc, tok_t *a, out_t *o) {
  NEED(argc == 3 && ISUI(0) && ISUI(1) && ISUI(2));
  unsigned long pb = tok_ulong(&a[1]), nb = tok_ulong(&a[2]); NEED(pb < (1UL << 20) && nb < (1UL << 20));
  gmp_randstate_t st; gmp_randinit_default(st); gmp_randseed_ui(st, tok_ulong(&a[0]));
  mpf_t f; mpf_init2(f, pb);
  mpf_urandomb(f, st, nb);
  out_long(o, PREC(f) + 1); out_mpf(o, f);
  mpf_clear(f); gmp_randclear(st); return 0;
}

const opdef_t ops_allocsafe4[] = {
  {"as4_addmul_ui", op_addmul_ui}, {"as4_submul_ui", op_submul_ui},
  {"as4_addmul", op_addmul}, {"as4_submul", op_submul}, {"as4_mul", op_mul}, {"as4_mpf_urandomb", op_mpf_urandomb}, {"as4_sqrt", op_sqrt}, {"as4_mpq_inv", op_mpq_inv}, {"as4_set_d", op_set_d}, {"as4_sqrtrem", op_sqrtrem}, {"as4_tdiv_qr", op_tdiv_qr}, {"as4_tdiv_q", op_tdiv_q}, {"as4_tdiv_r", op_tdiv_r},
  {0, 0}
};
