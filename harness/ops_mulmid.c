/* Middle product (property C01, part c01_mulmid): mpn_mulmid_basecase, mpn_mulmid_n, mpn_mulmid answered limb for limb by the
   models of lean/Mpir/Model/MulMid.lean (the ops of the same functions in ops_mul.c are answered by the specification). */
#include "harness.h"
#include "gmp-impl.h"
#define NEED(c) do { if (!(c)) return -1; } while (0)
#define VV(a) (argc == 2 && (a)[0].kind == T_VEC && (a)[1].kind == T_VEC)

/* mm_basecase [a: un] [b: vn], un >= vn >= 1 -> un-vn+3 limbs */
static int op_basecase(int argc, tok_t *a, out_t *o) {
  NEED(VV(a) && a[1].n >= 1 && a[0].n >= a[1].n);
  long rn = a[0].n - a[1].n + 3; mp_limb_t *rp = dst_new(rn);
  mpn_mulmid_basecase(rp, a[0].d, a[0].n, a[1].d, a[1].n);
  out_vec(o, rp, rn); if (!dst_ok(rp, rn)) out_err(o, "oob"); dst_free(rp); return 0;
}
/* mm_mulmid_n [a: 2n-1] [b: n] -> n+2 limbs */
static int op_mulmid_n(int argc, tok_t *a, out_t *o) {
  NEED(VV(a) && a[1].n >= 1 && a[0].n == 2 * a[1].n - 1);
  long n = a[1].n; mp_limb_t *rp = dst_new(n + 2);
  mpn_mulmid_n(rp, a[0].d, a[1].d, n);
  out_vec(o, rp, n + 2); if (!dst_ok(rp, n + 2)) out_err(o, "oob"); dst_free(rp); return 0;
}
/* mm_mulmid [a: an] [b: bn], an >= bn >= 1 -> an-bn+3 limbs */
static int op_mulmid(int argc, tok_t *a, out_t *o) {
  NEED(VV(a) && a[1].n >= 1 && a[0].n >= a[1].n);
  long rn = a[0].n - a[1].n + 3; mp_limb_t *rp = dst_new(rn);
  mpn_mulmid(rp, a[0].d, a[0].n, a[1].d, a[1].n);
  out_vec(o, rp, rn); if (!dst_ok(rp, rn)) out_err(o, "oob"); dst_free(rp); return 0;
}
/* mm_toom42 [a: 2n-1] [b: n], n >= 4 -> n+2 limbs: the internal mpn_toom42_mulmid with its own scratch */
static int op_toom42(int argc, tok_t *a, out_t *o) {
  NEED(VV(a) && a[1].n >= 4 && a[0].n == 2 * a[1].n - 1);
  long n = a[1].n; mp_limb_t *rp = dst_new(n + 2); long k = mpn_toom42_mulmid_itch(n); mp_limb_t *sc = dst_new(k);
  mpn_toom42_mulmid(rp, a[0].d, a[1].d, n, sc);
  out_vec(o, rp, n + 2); if (!dst_ok(rp, n + 2) || !dst_ok(sc, k)) out_err(o, "oob"); dst_free(rp); dst_free(sc); return 0;
}
const opdef_t ops_mulmid[] = { {"mm_basecase", op_basecase}, {"mm_mulmid_n", op_mulmid_n}, {"mm_mulmid", op_mulmid}, {"mm_toom42", op_toom42}, {0, 0} };
