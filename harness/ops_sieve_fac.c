/* Property C16, part sieve: the odd-factorial machinery of mpz/oddfac_1.c.
   mpz_oddfac_1 n flag   -> value        (the library's __gmpz_oddfac_1; flag 1 needs n odd-factorial range, see ASSERT)
   mpz_2multiswing_1 n   -> value        (static: reached by compiling the tree's mpz/oddfac_1.c into this file under
                                           another name; the sieve comes from the library's gmp_primesieve (sieve, n),
                                           the factors buffer has the size the C allocates)
   mpz_prodlimbs [limbs] -> value        (the library's __gmpz_prodlimbs; destroys its input vector) */
#include "harness.h"
#include "gmp-impl.h"
#include "longlong.h"
#define NEED(c) do { if (!(c)) return -1; } while (0)
#define IS_UI(t) ((t).kind == T_NUM && !(t).neg && (t).n <= 1)

#undef mpz_oddfac_1
#define mpz_oddfac_1 sv_copy_mpz_oddfac_1
#include "mpz/oddfac_1.c"
#undef mpz_oddfac_1
#define mpz_oddfac_1 __gmpz_oddfac_1

static mp_limb_t sf_n_to_bit(mp_limb_t n) { return ((n - 5) | 1) / 3U; }
#define SF_MAXN 3000000UL

static int op_oddfac_1(int argc, tok_t *a, out_t *o) {
  NEED(argc == 2 && IS_UI(a[0]) && IS_UI(a[1]));
  mp_limb_t n = tok_ulong(&a[0]); unsigned long flag = tok_ulong(&a[1]);
  NEED(n <= SF_MAXN && flag <= 1);
  mpz_t r, c; mpz_init2(r, 1); mpz_init2(c, 1);
  mpz_oddfac_1(r, n, (unsigned)flag);
  out_mpz(o, r);
  sv_copy_mpz_oddfac_1(c, n, (unsigned)flag);              /* the private copy must agree with the library object */
  if (mpz_cmp(r, c) != 0) out_err(o, "copy-differs");
  mpz_clear(r); mpz_clear(c); return 0;
}

static int op_2multiswing_1(int argc, tok_t *a, out_t *o) {
  NEED(argc == 1 && IS_UI(a[0]));
  mp_limb_t n = tok_ulong(&a[0]); NEED(n >= 26 && n <= SF_MAXN);      /* ASSERT (n >= 26) */
  long ssize = sf_n_to_bit(n) / GMP_LIMB_BITS + 1;
  mp_limb_t *sieve = dst_new(ssize);
  mp_limb_t cnt = gmp_primesieve(sieve, n);
  long fsize = (cnt + 1) / log_n_max(n) + 1;                           /* oddfac_1.c:391 */
  mp_limb_t *factors = dst_new(fsize);
  mpz_t x; mpz_init2(x, (n / GMP_NUMB_BITS + 4) * GMP_NUMB_BITS);     /* oddfac_1.c:381 size */
  mpz_2multiswing_1(x, n, sieve, factors);
  out_mpz(o, x);
  if (!dst_ok(sieve, ssize) || !dst_ok(factors, fsize)) out_err(o, "oob");
  mpz_clear(x); dst_free(sieve); dst_free(factors); return 0;
}

static int op_prodlimbs(int argc, tok_t *a, out_t *o) {
  NEED(argc == 1 && a[0].kind == T_VEC && a[0].n >= 2);           /* ASSERT (j > 1) */
  for (long i = 0; i < a[0].n; i++) NEED(a[0].d[i] != 0);               /* factors are non-zero limbs */
  mp_limb_t *f = dst_new(a[0].n);
  memcpy(f, a[0].d, a[0].n * sizeof(mp_limb_t));
  mpz_t x; mpz_init2(x, 1);
  mpz_prodlimbs(x, f, a[0].n);
  out_mpz(o, x);
  if (!dst_ok(f, a[0].n)) out_err(o, "oob");
  mpz_clear(x); dst_free(f); return 0;
}

const opdef_t ops_sieve_fac[] = {
  {"mpz_oddfac_1", op_oddfac_1}, {"mpz_2multiswing_1", op_2multiswing_1}, {"mpz_prodlimbs", op_prodlimbs},
  {0, 0}
};
