/* C17, stream layer (part c17_stream): mpf text streams on objects (compared with the bit-exact model of
   mpf_get_str / mpf_set_str), mpz_import / mpz_export on objects with every destination / source shape, output
   functions over sinks that accept a PREFIX of a write call (short writes; dead afterwards, recovering, or capping
   every call), and the raw format beyond the 4-byte header.
   Streams are fopencookie streams made unbuffered with setvbuf: every fwrite/fputc/fprintf of the library is one
   callback. */
#define _GNU_SOURCE
#include "harness.h"
#include "gmp-impl.h"
#include <sys/types.h>
#define NEED(c) do { if (!(c)) return -1; } while (0)
#define ISNUM(t) ((t).kind == T_NUM)
#define ISSTR(t) ((t).kind == T_STR)
#define ISVEC(t) ((t).kind == T_VEC)

/* ---------- streams ---------- */
typedef struct { const unsigned char *p; long n, pos; } rd_t;
static ssize_t rd_read(void *c, char *buf, size_t n) {
  rd_t *r = c; long av = r->n - r->pos;
  if (av <= 0) return 0;
  if ((long)n > av) n = av;
  memcpy(buf, r->p + r->pos, n); r->pos += n; return n;
}
static FILE *rd_open(rd_t *r, const unsigned char *p, long n, long limit) {
  r->p = p; r->n = (limit >= 0 && limit < n) ? limit : n; r->pos = 0;
  cookie_io_functions_t io = { rd_read, 0, 0, 0 };
  FILE *f = fopencookie(r, "r", io); setvbuf(f, NULL, _IONBF, 0); return f;
}
/* sink: `pos` counts the bytes the library TRIED to write; accepted bytes are appended to buf.
   mode 0: the call containing byte k takes the bytes in front of k, every later call nothing      (sinkFailAt)
   mode 1: the call containing byte k takes the bytes in front of k, later calls go through again  (sinkOnceAt)
   mode 2: every call takes at most k bytes                                                       (fun _ n => min n k)
   k < 0: healthy */
typedef struct { unsigned char *buf; size_t len, cap; long pos, k, fired; int mode; } sk_t;
static ssize_t sk_write(void *c, const char *buf, size_t n) {
  sk_t *w = c; size_t a = n;
  if (w->k >= 0) {
    if (w->mode == 0) { if (w->k < w->pos) a = 0; else if (w->k < w->pos + (long)n) a = w->k - w->pos; }
    else if (w->mode == 1) { if (w->pos <= w->k && w->k < w->pos + (long)n) a = w->k - w->pos; }
    else { if ((long)n > w->k) a = w->k; }
  }
  w->pos += n;
  if (a < n) w->fired++;
  if (w->len + a > w->cap) { w->cap = (w->len + a) * 2 + 64; w->buf = realloc(w->buf, w->cap); }
  memcpy(w->buf + w->len, buf, a); w->len += a;
  return a;
}
static FILE *sk_open(sk_t *w, int mode, long k) {
  memset(w, 0, sizeof *w); w->mode = mode; w->k = k;
  cookie_io_functions_t io = { 0, sk_write, 0, 0 };
  FILE *f = fopencookie(w, "w", io); setvbuf(f, NULL, _IONBF, 0); return f;
}
static void sk_out(out_t *o, sk_t *w) { out_long(o, w->fired); out_bytes(o, w->buf ? w->buf : (unsigned char *)"", w->len); free(w->buf); }
static int mode_ok(tok_t *m, tok_t *k) { return ISNUM(*m) && ISNUM(*k) && tok_long(m) >= 0 && tok_long(m) <= 2; }
static void out_size(out_t *o, size_t v) { out_ulong(o, (unsigned long)v); }
static void out_nextc(out_t *o, FILE *f) { int c = getc(f); out_long(o, c == EOF ? -1 : c); }

/* mpf operand: prec size exp [limbs] (prec = _mp_prec in limbs, >= 2) */
static int tok_mpf(mpf_ptr f, tok_t *a) {
  if (!(ISNUM(a[0]) && ISNUM(a[1]) && ISNUM(a[2]) && ISVEC(a[3]))) return -1;
  long prec = tok_long(&a[0]), size = tok_long(&a[1]), n = size < 0 ? -size : size;
  if (prec < 2 || prec > 4096 || n != a[3].n || n > prec + 1 || (n > 0 && a[3].d[n - 1] == 0)) return -1;
  mpf_init2(f, 64 * (prec - 1));
  if (f->_mp_prec != prec) { mpf_clear(f); return -1; }
  memcpy(f->_mp_d, a[3].d, n * 8); f->_mp_size = size; f->_mp_exp = n ? tok_long(&a[2]) : 0;
  return 0;
}
static int out_base_ok(long b) { return b == 0 || (b >= 2 && b <= 62) || (b <= -2 && b >= -36); }
/* destination of mpf_inp_str: precision prec, pre-set to {5,7} exp -3 so that "untouched on failure" is observable */
static void dst_mpf(mpf_ptr y, long prec) {
  mpf_init2(y, 64 * (prec - 1)); y->_mp_d[0] = 5; y->_mp_d[1] = 7; y->_mp_size = 2; y->_mp_exp = -3;
}

/* ---------- 1. mpf text streams on objects ---------- */
/* mpf_out_str_x base ndigits prec size exp [limbs] -> ret s<bytes> */
static int op_mpf_out_str_x(int argc, tok_t *a, out_t *o) {
  NEED(argc == 6 && ISNUM(a[0]) && ISNUM(a[1]));
  long base = tok_long(&a[0]), nd = tok_long(&a[1]);
  NEED(out_base_ok(base) && nd >= 0);
  mpf_t x; NEED(tok_mpf(x, a + 2) == 0);
  sk_t w; FILE *f = sk_open(&w, 0, -1);
  size_t r = mpf_out_str(f, base, nd, x); fclose(f);
  out_size(o, r); out_bytes(o, w.buf ? w.buf : (unsigned char *)"", w.len);
  free(w.buf); mpf_clear(x); return 0;
}
/* mpf_inp_str_x base prec s<bytes> k -> ret size exp [limbs] nextc     (k: the stream ends after k bytes; -1: whole) */
static int op_mpf_inp_str_x(int argc, tok_t *a, out_t *o) {
  NEED(argc == 4 && ISNUM(a[0]) && ISNUM(a[1]) && ISSTR(a[2]) && ISNUM(a[3]));
  long base = tok_long(&a[0]), prec = tok_long(&a[1]);
  NEED(prec >= 2 && prec <= 4096);
  mpf_t y; dst_mpf(y, prec);
  rd_t r; FILE *f = rd_open(&r, a[2].s, a[2].slen, tok_long(&a[3]));
  size_t ret = mpf_inp_str(y, f, base);
  out_size(o, ret); out_mpf(o, y); out_nextc(o, f);
  fclose(f); mpf_clear(y); return 0;
}
/* mpf_out_inp_str_x base ndigits rbase prec size exp [limbs] -> wret s<text> rret size exp [limbs]
   (written with `base`, read back with `rbase` into a destination of the same precision) */
static int op_mpf_out_inp_str_x(int argc, tok_t *a, out_t *o) {
  NEED(argc == 7 && ISNUM(a[0]) && ISNUM(a[1]) && ISNUM(a[2]));
  long base = tok_long(&a[0]), nd = tok_long(&a[1]), rbase = tok_long(&a[2]);
  NEED(out_base_ok(base) && nd >= 0);
  mpf_t x, y; NEED(tok_mpf(x, a + 3) == 0); dst_mpf(y, x->_mp_prec);
  sk_t w; FILE *f = sk_open(&w, 0, -1);
  size_t wr = mpf_out_str(f, base, nd, x); fclose(f);
  rd_t r; f = rd_open(&r, w.buf, w.len, -1);
  size_t rr = mpf_inp_str(y, f, rbase); fclose(f);
  out_size(o, wr); out_bytes(o, w.buf ? w.buf : (unsigned char *)"", w.len); out_size(o, rr); out_mpf(o, y);
  free(w.buf); mpf_clear(x); mpf_clear(y); return 0;
}

/* ---------- 2. import / export on objects ---------- */
static int ie_ok(long order, long size, long endian, long nails, long align) {
  return (order == 1 || order == -1) && size >= 1 && size <= 64 && endian >= -1 && endian <= 1 && nails >= 0 && nails < 8 * size
      && align >= 0 && align <= 7;
}
/* mpz_import_obj dvar order size endian nails align s<bytes> count -> value
   dvar 0: fresh mpz_init holding -77 (must be reallocated); 1: room for twice the limbs, all 0xff.., SIZ = -(alloc);
   2: exactly zsize limbs allocated, holding 2^(64*zsize)-1 */
static int op_import_obj(int argc, tok_t *a, out_t *o) {
  NEED(argc == 8 && ISNUM(a[0]) && ISNUM(a[1]) && ISNUM(a[2]) && ISNUM(a[3]) && ISNUM(a[4]) && ISNUM(a[5]) && ISSTR(a[6]) && ISNUM(a[7]));
  long dvar = tok_long(&a[0]), order = tok_long(&a[1]), size = tok_long(&a[2]), endian = tok_long(&a[3]), nails = tok_long(&a[4]),
       align = tok_long(&a[5]), count = tok_long(&a[7]);
  NEED(dvar >= 0 && dvar <= 2 && ie_ok(order, size, endian, nails, align) && count >= 0 && a[6].slen == count * size);
  long zsize = (count * (8 * size - nails) + 63) / 64;
  unsigned char *raw = malloc(a[6].slen + 32), *base = (unsigned char *)(((uintptr_t)raw + 15) & ~(uintptr_t)15);
  unsigned char *data = base + align; memcpy(data, a[6].s, a[6].slen);
  mpz_t r;
  if (dvar == 0) { mpz_init(r); mpz_set_si(r, -77); }
  else {
    long al = dvar == 1 ? 2 * zsize + 1 : (zsize ? zsize : 1);
    mpz_init2(r, 64 * al); memset(r->_mp_d, 0xff, 8 * r->_mp_alloc); r->_mp_size = dvar == 1 ? -r->_mp_alloc : r->_mp_alloc;
  }
  mpz_import(r, count, order, size, endian, nails, data);
  if (memcmp(data, a[6].s, a[6].slen)) out_err(o, "srcmod");
  if (r->_mp_size < 0) out_err(o, "negative");
  out_mpz(o, r); mpz_clear(r); free(raw); return 0;
}
/* mpz_export_obj order size endian nails align extra x -> count s<bytes>
   the source has `extra` allocated limbs above SIZ, all 0xff..; the buffer has exactly count*size bytes between canaries
   (16 bytes for a zero operand, which must stay untouched) */
static int op_export_obj(int argc, tok_t *a, out_t *o) {
  NEED(argc == 7); for (int i = 0; i < 7; i++) NEED(ISNUM(a[i]));
  long order = tok_long(&a[0]), size = tok_long(&a[1]), endian = tok_long(&a[2]), nails = tok_long(&a[3]), align = tok_long(&a[4]),
       extra = tok_long(&a[5]);
  NEED(ie_ok(order, size, endian, nails, align) && extra >= 0 && extra <= 16);
  long n = a[6].n, numb = 8 * size - nails, want = 0;
  if (n > 0) { long bits = 64 * n - __builtin_clzl(a[6].d[n - 1]); want = (bits + numb - 1) / numb; }
  mpz_t x; mpz_init2(x, 64 * (n + extra ? n + extra : 1));
  memset(x->_mp_d, 0xff, 8 * x->_mp_alloc); if (n) memcpy(x->_mp_d, a[6].d, 8 * n);
  x->_mp_size = a[6].neg ? -n : n;
  size_t len = want ? want * size : 16, tot = 64 + 8 + len + 64, cnt = 12345;
  unsigned char *raw = malloc(tot + 16), *base = (unsigned char *)(((uintptr_t)raw + 15) & ~(uintptr_t)15);
  memset(base, 0xEE, tot); unsigned char *data = base + 64 + align; memset(data, 0xA7, len);
  void *p = mpz_export(data, &cnt, order, size, endian, nails, x);
  out_size(o, cnt);
  if (want) out_bytes(o, data, len);
  else { int un = 1; for (size_t i = 0; i < len; i++) if (data[i] != 0xA7) un = 0; out_bytes(o, data, 0); if (!un) out_err(o, "touched"); }
  int ok = 1;
  for (unsigned char *q = base; q < data; q++) if (*q != 0xEE) ok = 0;
  for (unsigned char *q = data + len; q < base + tot; q++) if (*q != 0xEE) ok = 0;
  if (!ok) out_err(o, "oob");
  if (p != data) out_err(o, "retptr");
  free(raw); mpz_clear(x); return 0;
}

/* ---------- 3. sinks that accept a prefix of a write call ---------- */
/* mpz_out_raw_sink x mode k -> ret fired s<accepted> */
static int op_out_raw_sink(int argc, tok_t *a, out_t *o) {
  NEED(argc == 3 && ISNUM(a[0]) && mode_ok(&a[1], &a[2]));
  mpz_t x; mpz_init(x); tok_mpz(x, &a[0]);
  sk_t w; FILE *f = sk_open(&w, tok_long(&a[1]), tok_long(&a[2]));
  size_t r = mpz_out_raw(f, x); fclose(f);
  out_size(o, r); sk_out(o, &w); mpz_clear(x); return 0;
}
static int base_ok(long b) { return b == 0 || (b >= 2) || (b <= -2 && b >= -36); }
/* mpz_out_str_sink base x mode k -> ret fired s<accepted> */
static int op_mpz_out_str_sink(int argc, tok_t *a, out_t *o) {
  NEED(argc == 4 && ISNUM(a[0]) && ISNUM(a[1]) && mode_ok(&a[2], &a[3]) && base_ok(tok_long(&a[0])));
  mpz_t x; mpz_init(x); tok_mpz(x, &a[1]);
  sk_t w; FILE *f = sk_open(&w, tok_long(&a[2]), tok_long(&a[3]));
  size_t r = mpz_out_str(f, tok_long(&a[0]), x); fclose(f);
  out_size(o, r); sk_out(o, &w); mpz_clear(x); return 0;
}
/* mpq_out_str_sink base num den mode k -> ret fired s<accepted> */
static int op_mpq_out_str_sink(int argc, tok_t *a, out_t *o) {
  NEED(argc == 5 && ISNUM(a[0]) && ISNUM(a[1]) && ISNUM(a[2]) && mode_ok(&a[3], &a[4]) && base_ok(tok_long(&a[0])));
  mpq_t q; mpq_init(q); tok_mpz(mpq_numref(q), &a[1]); tok_mpz(mpq_denref(q), &a[2]);
  sk_t w; FILE *f = sk_open(&w, tok_long(&a[3]), tok_long(&a[4]));
  size_t r = mpq_out_str(f, tok_long(&a[0]), q); fclose(f);
  out_size(o, r); sk_out(o, &w); mpq_clear(q); return 0;
}
/* mpf_out_str_sink base ndigits mode k prec size exp [limbs] -> ret fired s<accepted> */
static int op_mpf_out_str_sink(int argc, tok_t *a, out_t *o) {
  NEED(argc == 8 && ISNUM(a[0]) && ISNUM(a[1]) && mode_ok(&a[2], &a[3]));
  long base = tok_long(&a[0]), nd = tok_long(&a[1]);
  NEED(out_base_ok(base) && nd >= 0);
  mpf_t x; NEED(tok_mpf(x, a + 4) == 0);
  sk_t w; FILE *f = sk_open(&w, tok_long(&a[2]), tok_long(&a[3]));
  size_t r = mpf_out_str(f, base, nd, x); fclose(f);
  out_size(o, r); sk_out(o, &w); mpf_clear(x); return 0;
}
/* gmp_fprintf_sink s<pre> width base x s<post> mode k -> ret fired s<accepted>      format "<pre>%<width>Z{d,x}<post>" */
static int op_fprintf_sink(int argc, tok_t *a, out_t *o) {
  NEED(argc == 7 && ISSTR(a[0]) && ISNUM(a[1]) && ISNUM(a[2]) && ISNUM(a[3]) && ISSTR(a[4]) && mode_ok(&a[5], &a[6]));
  long width = tok_long(&a[1]), base = tok_long(&a[2]);
  NEED(width >= 0 && width <= 100000 && (base == 10 || base == 16));
  for (long i = 0; i < a[0].slen; i++) NEED(a[0].s[i] != '%' && a[0].s[i] != 0);
  for (long i = 0; i < a[4].slen; i++) NEED(a[4].s[i] != '%' && a[4].s[i] != 0);
  char *fmt = malloc(a[0].slen + a[4].slen + 64), *p = fmt;
  memcpy(p, a[0].s, a[0].slen); p += a[0].slen; *p++ = '%';
  if (width) p += sprintf(p, "%ld", width);
  *p++ = 'Z'; *p++ = base == 16 ? 'x' : 'd';
  memcpy(p, a[4].s, a[4].slen); p += a[4].slen; *p = 0;
  mpz_t x; mpz_init(x); tok_mpz(x, &a[3]);
  sk_t w; FILE *f = sk_open(&w, tok_long(&a[5]), tok_long(&a[6]));
  int r = gmp_fprintf(f, fmt, x); fclose(f);
  out_long(o, r); sk_out(o, &w); free(fmt); mpz_clear(x); return 0;
}

/* ---------- 4. raw format beyond the 4-byte header ---------- */
/* mpz_raw_big neg nbytes -> wret s<first 4 bytes written> rret rel nread
   x = ±(2^(8*nbytes-1) + 5): mpz_out_raw into a sink that keeps the header and counts the rest, then mpz_inp_raw from a
   stream that replays header + magnitude.  rel: 1 if y == x, -1 if y == -x, 0 otherwise; nread = bytes the reader consumed.
   Needs about 3*nbytes of memory: generated only on request (VERIF_BIGRAW=1). */
typedef struct { unsigned char hdr[4]; unsigned long n; } cnt_t;
static ssize_t cnt_write(void *c, const char *buf, size_t n) {
  cnt_t *w = c;
  for (size_t i = 0; i < n && w->n + i < 4; i++) w->hdr[w->n + i] = buf[i];
  w->n += n; return n;
}
typedef struct { unsigned char hdr[4]; unsigned long n, pos; } gen_t;      /* header, then 0x80 00 .. 00 05 (n bytes) */
static ssize_t gen_read(void *c, char *buf, size_t len) {
  gen_t *g = c; unsigned long tot = 4 + g->n, i;
  if (g->pos >= tot) return 0;
  if (len > tot - g->pos) len = tot - g->pos;
  for (i = 0; i < len; i++) {
    unsigned long p = g->pos + i;
    buf[i] = p < 4 ? g->hdr[p] : p == 4 ? (g->n == 1 ? 0x85 : 0x80) : p == tot - 1 ? 5 : 0;
  }
  g->pos += len; return len;
}
static int op_raw_big(int argc, tok_t *a, out_t *o) {
  NEED(argc == 2 && ISNUM(a[0]) && ISNUM(a[1]));
  unsigned long nb = tok_ulong(&a[1]); long neg = tok_long(&a[0]);
  NEED(nb >= 1 && nb <= (1UL << 33));
  mpz_t x, y; mpz_init(x); mpz_setbit(x, 8 * nb - 1); mpz_add_ui(x, x, 5); if (neg) mpz_neg(x, x);
  cnt_t w; memset(&w, 0, sizeof w);
  cookie_io_functions_t wio = { 0, cnt_write, 0, 0 };
  FILE *f = fopencookie(&w, "w", wio); setvbuf(f, NULL, _IONBF, 0);
  size_t wr = mpz_out_raw(f, x); fclose(f);
  gen_t g; memcpy(g.hdr, w.hdr, 4); g.n = nb; g.pos = 0;
  cookie_io_functions_t rio = { gen_read, 0, 0, 0 };
  f = fopencookie(&g, "r", rio); setvbuf(f, NULL, _IONBF, 0);
  mpz_init(y);
  size_t rr = mpz_inp_raw(y, f); fclose(f);
  out_size(o, wr); out_bytes(o, w.hdr, 4); out_size(o, rr);
  long rel = 0;
  if (mpz_cmp(x, y) == 0) rel = 1; else { mpz_neg(y, y); if (mpz_cmp(x, y) == 0) rel = -1; }
  out_long(o, rel); out_ulong(o, g.pos);
  /* mpz_clear computes `_mp_alloc * BYTES_PER_MP_LIMB` in int: from 2^28 limbs on it hands a wrong size to the free
     function (reported separately; not a C17 matter) — release the big blocks with their true size */
  void (*ff)(void *, size_t); mp_get_memory_functions(NULL, NULL, &ff);
  ff(x->_mp_d, (size_t) x->_mp_alloc * sizeof(mp_limb_t)); ff(y->_mp_d, (size_t) y->_mp_alloc * sizeof(mp_limb_t));
  return 0;
}

const opdef_t ops_io2[] = {
  {"mpf_out_str_x", op_mpf_out_str_x}, {"mpf_inp_str_x", op_mpf_inp_str_x}, {"mpf_out_inp_str_x", op_mpf_out_inp_str_x},
  {"mpz_import_obj", op_import_obj}, {"mpz_export_obj", op_export_obj},
  {"mpz_out_raw_sink", op_out_raw_sink}, {"mpz_out_str_sink", op_mpz_out_str_sink}, {"mpq_out_str_sink", op_mpq_out_str_sink},
  {"mpf_out_str_sink", op_mpf_out_str_sink}, {"gmp_fprintf_sink", op_fprintf_sink},
  {"mpz_raw_big", op_raw_big},
  {0, 0}
};
