/* C04 part allocsafe5 (fourth continuation of ops_allocsafe.c, same conventions): mpz_import, mpz_gcd, mpz_lcm on objects of
   GIVEN allocations.  Every object is a token pair `alloc value` (alloc >= max (limbs of value, 1): the block has exactly
   alloc limbs, the unused ones poisoned by the recording allocator).  Leading alias-mode token where there are several
   variables:  0 all variables distinct   1 w is u   2 w is v   3 u is v (w distinct)   4 all one variable.
   Output: ALLOC (w), SIZ (w), value of w — compared exactly with the size-aware models of
   lean/Mpir/Model/AllocSafeMpz5.lean; the recording allocator / red zones turn an overrun into a marker. */
#include <string.h>
#include <stdlib.h>
#include "harness.h"
#include "gmp-impl.h"
#define NEED(c) do { if (!(c)) return -1; } while (0)
#define ISUI(k) (a[k].kind == T_NUM && !a[k].neg && a[k].n <= 1)

static int mk(mpz_ptr z, const tok_t *al, const tok_t *v) {
  if (!(al->kind == T_NUM && !al->neg && al->n <= 1 && v->kind == T_NUM)) return -1;
  unsigned long alloc = tok_ulong(al);
  if (alloc < 1 || alloc > (1UL << 20) || (unsigned long)v->n > alloc) return -1;
  mpz_init2(z, alloc * GMP_NUMB_BITS);
  if ((unsigned long)ALLOC(z) != alloc) { mpz_clear(z); return -1; }
  for (long i = 0; i < v->n; i++) PTR(z)[i] = v->d[i];
  SIZ(z) = v->neg ? -(int)v->n : (int)v->n;
  return 0;
}
static void outw(out_t *o, mpz_srcptr w) { out_long(o, ALLOC(w)); out_long(o, SIZ(w)); out_mpz(o, w); }
static long mode_of(const tok_t *t) { return (t->kind == T_NUM && !t->neg && t->n <= 1) ? (long)tok_ulong(t) : -1; }

/* f (w, u, v): mode wa wv ua uv va vv */
typedef void (*f3_t)(mpz_ptr, mpz_srcptr, mpz_srcptr);
static int do3(f3_t f, int argc, tok_t *a, out_t *o) {
  NEED(argc == 7); long m = mode_of(&a[0]); NEED(m >= 0 && m <= 4);
  mpz_t w, u, v;
  NEED(mk(w, &a[1], &a[2]) == 0);
  if (mk(u, &a[3], &a[4])) { mpz_clear(w); return -1; }
  if (mk(v, &a[5], &a[6])) { mpz_clear(w); mpz_clear(u); return -1; }
  switch (m) {
    case 0: f(w, u, v); outw(o, w); break;
    case 1: f(u, u, v); outw(o, u); break;
    case 2: f(v, u, v); outw(o, v); break;
    case 3: f(w, u, u); outw(o, w); break;
    case 4: f(u, u, u); outw(o, u); break;
  }
  mpz_clear(w); mpz_clear(u); mpz_clear(v); return 0;
}
static int op_gcd(int c, tok_t *a, out_t *o) { return do3(mpz_gcd, c, a, o); }
static int op_lcm(int c, tok_t *a, out_t *o) { return do3(mpz_lcm, c, a, o); }

/* as5_import wa wv count order size endian nail align sDATA: mpz_import (w, count, order, size, endian, nail, data) with data =
   the count*size bytes placed at an address congruent to `align` mod 8 (align = 0: the three fast paths are reachable), in a
   block of exactly that many bytes behind the offset (the sanitizer build sees a read outside it) */
static int op_import(int argc, tok_t *a, out_t *o) {
  NEED(argc == 9 && ISUI(2) && a[3].kind == T_NUM && a[3].n == 1 && a[3].d[0] == 1 && ISUI(4) && a[5].kind == T_NUM && a[5].n <= 1
       && ISUI(6) && ISUI(7) && a[8].kind == T_STR);
  unsigned long count = tok_ulong(&a[2]), size = tok_ulong(&a[4]), nail = tok_ulong(&a[6]), align = tok_ulong(&a[7]);
  int order = a[3].neg ? -1 : 1;
  int endian = (a[5].n == 0 || a[5].d[0] == 0) ? 0 : (a[5].d[0] == 1 ? (a[5].neg ? -1 : 1) : 2);
  NEED(endian != 2 && count <= 4096 && size >= 1 && size <= 64 && nail <= 8 * size && align < 8);
  NEED((unsigned long)a[8].slen == count * size);
  mpz_t w;
  NEED(mk(w, &a[0], &a[1]) == 0);
  unsigned char *raw = malloc(count * size + 16);
  unsigned long base = (8 - ((unsigned long)raw & 7)) & 7;
  unsigned char *data = raw + base + align;
  memcpy(data, a[8].s, count * size);
  mpz_import(w, count, order, size, endian, nail, data);
  outw(o, w);
  free(raw); mpz_clear(w); return 0;
}

const opdef_t ops_allocsafe5[] = {
  {"as5_gcd", op_gcd}, {"as5_lcm", op_lcm}, {"as5_import", op_import},
  {0, 0}
};
