/* C06 part c06_sib — mpz_sizeinbase on operands given by shape, so that operands of millions of bits travel as a
   short line:
     mpz_sizeinbase_shape b0 n d base   -> mpz_sizeinbase (b0^n + d, base), and the same through the mpn-level
                                           macro MPN_SIZEINBASE (gmp-impl.h:2699) on the limbs of the operand
   b0 in 2..62, n >= 0, d in -1..1 (any small long), base in 2..62.  The operand is built with mpz_ui_pow_ui. */
#include "harness.h"
#include "gmp-impl.h"
#include "longlong.h"
#define NEED(c) do { if (!(c)) return -1; } while (0)

static int op_mpz_sizeinbase_shape(int argc, tok_t *a, out_t *o) {
  NEED(argc == 4 && a[0].kind == T_NUM && a[1].kind == T_NUM && a[2].kind == T_NUM && a[3].kind == T_NUM);
  NEED(!a[0].neg && !a[1].neg && !a[3].neg && a[0].n <= 1 && a[1].n <= 1 && a[2].n <= 1 && a[3].n <= 1);
  unsigned long b0 = tok_ulong(&a[0]), n = tok_ulong(&a[1]), base = tok_ulong(&a[3]);
  long d = tok_long(&a[2]);
  NEED(b0 >= 2 && b0 <= 62 && base >= 2 && base <= 62 && n <= (1UL << 32));
  mpz_t x; mpz_init(x);
  mpz_ui_pow_ui(x, b0, n);
  if (d >= 0) mpz_add_ui(x, x, (unsigned long) d); else mpz_sub_ui(x, x, (unsigned long) -d);
  out_ulong(o, mpz_sizeinbase(x, (int) base));
  size_t r;
  MPN_SIZEINBASE(r, PTR(x), ABSIZ(x), (int) base);
  out_ulong(o, r);
  mpz_clear(x); return 0;
}

const opdef_t ops_radixsib[] = { {"mpz_sizeinbase_shape", op_mpz_sizeinbase_shape}, {0, 0} };
