/* Random-number histories for property C19: four gmp_randstate_t slots kept across lines.
   Every op prints exactly what the library returned (values, limb vectors, mpf fields); the range /
   shape predicates are evaluated on the Lean side on the bit-exact model output.
     @rinit_mt s | @rinit_default s | @rinit_lc s a c m2exp | @rinit_lcsize s size | @rseed s z | @rseed_ui s u
     @rcopy dst src | @rclear s | @urandomb s n | @urandomm s n | @urandomm_alias s n | @urandomb_ui s n
     @urandomm_ui s n | @rrandomb s n | @mpn_urandomb s n | @mpn_urandomm s [limbs] | @mpn_randomb s n
     @mpn_rrandom s n | @mpf_urandomb s prec nbits | @freq s nbits draws | @same s t n
     lc_m2exp1_probe nbits     (stateless; runs the m2exp = 1 generator in a child with a 2 s alarm) */
#include "harness.h"
#include "gmp-impl.h"
#include <unistd.h>
#include <signal.h>
#include <sys/wait.h>
#define NEED(c) do { if (!(c)) return -1; } while (0)
#define NSLOT 4
#define MAXBITS (1L << 24)

static gmp_randstate_t st[NSLOT];
static int live[NSLOT];

static int isnum(const tok_t *t) { return t->kind == T_NUM; }
static int small(const tok_t *t) { return t->kind == T_NUM && !t->neg && t->n <= 1; }
static long slot_any(const tok_t *t) { if (!small(t)) return -1; unsigned long v = tok_ulong(t); return v < NSLOT ? (long)v : -1; }
static long slot_live(const tok_t *t) { long s = slot_any(t); return s < 0 ? -1 : live[s] ? s : -2; }
/* a valid but uninitialised slot answers `!noinit` on both sides (keeps shrunk histories meaningful) */
#define LIVE(s, t) do { (s) = slot_live(t); if ((s) == -1) return -1; if ((s) == -2) { out_err(o, "noinit"); return 0; } } while (0)
static void drop(long s) { if (live[s]) { gmp_randclear(st[s]); live[s] = 0; } }
static int done(out_t *o) { out_ulong(o, 1); return 0; }

static int op_reset(int argc, tok_t *a, out_t *o) { (void)argc; (void)a; (void)o; for (long s = 0; s < NSLOT; s++) drop(s); return 0; }

static int op_rinit_mt(int argc, tok_t *a, out_t *o) {
  long s; NEED(argc == 1 && (s = slot_any(&a[0])) >= 0);
  drop(s); gmp_randinit_mt(st[s]); live[s] = 1; return done(o);
}
static int op_rinit_default(int argc, tok_t *a, out_t *o) {
  long s; NEED(argc == 1 && (s = slot_any(&a[0])) >= 0);
  drop(s); gmp_randinit_default(st[s]); live[s] = 1; return done(o);
}
static int op_rinit_lc(int argc, tok_t *a, out_t *o) {
  long s; NEED(argc == 4 && (s = slot_any(&a[0])) >= 0 && isnum(&a[1]) && small(&a[2]) && small(&a[3]));
  unsigned long m = tok_ulong(&a[3]); NEED(m >= 2 && m <= 100000);   /* m2exp = 1 never terminates: see lc_m2exp1_probe */
  mpz_t z; mpz_init(z); tok_mpz(z, &a[1]);
  drop(s); gmp_randinit_lc_2exp(st[s], z, tok_ulong(&a[2]), m); live[s] = 1;
  mpz_clear(z); return done(o);
}
static int op_rinit_lcsize(int argc, tok_t *a, out_t *o) {
  long s; NEED(argc == 2 && (s = slot_any(&a[0])) >= 0 && small(&a[1]));
  drop(s); int r = gmp_randinit_lc_2exp_size(st[s], tok_ulong(&a[1])); live[s] = r != 0;
  out_long(o, r); return 0;
}
static int op_rseed(int argc, tok_t *a, out_t *o) {
  long s; NEED(argc == 2); LIVE(s, &a[0]); NEED(isnum(&a[1]));
  mpz_t z; mpz_init(z); tok_mpz(z, &a[1]); gmp_randseed(st[s], z); mpz_clear(z); return done(o);
}
static int op_rseed_ui(int argc, tok_t *a, out_t *o) {
  long s; NEED(argc == 2); LIVE(s, &a[0]); NEED(small(&a[1]));
  gmp_randseed_ui(st[s], tok_ulong(&a[1])); return done(o);
}
static int op_rcopy(int argc, tok_t *a, out_t *o) {
  long d, s; NEED(argc == 2 && (d = slot_any(&a[0])) >= 0); LIVE(s, &a[1]); NEED(d != s);
  drop(d); gmp_randinit_set(st[d], st[s]); live[d] = 1; return done(o);
}
static int op_rclear(int argc, tok_t *a, out_t *o) {
  long s; NEED(argc == 1); LIVE(s, &a[0]); drop(s); return done(o);
}

static int op_urandomb(int argc, tok_t *a, out_t *o) {
  long s; NEED(argc == 2); LIVE(s, &a[0]); NEED(small(&a[1]) && tok_ulong(&a[1]) <= MAXBITS);
  mpz_t r; mpz_init2(r, 1); mpz_urandomb(r, st[s], tok_ulong(&a[1])); out_mpz(o, r); mpz_clear(r); return 0;
}
static int do_urandomm(int alias, int argc, tok_t *a, out_t *o) {
  long s; NEED(argc == 2); LIVE(s, &a[0]); NEED(isnum(&a[1]));
  mpz_t r, n; mpz_init2(r, 1); mpz_init(n); tok_mpz(n, &a[1]); int e;
  if (alias) { tok_mpz(r, &a[1]); e = GUARD(mpz_urandomm(r, st[s], r)); }
  else e = GUARD(mpz_urandomm(r, st[s], n));
  if (e) out_exc(o, e); else out_mpz(o, r);
  mpz_clear(r); mpz_clear(n); return 0;
}
static int op_urandomm(int c, tok_t *a, out_t *o) { return do_urandomm(0, c, a, o); }
static int op_urandomm_alias(int c, tok_t *a, out_t *o) { return do_urandomm(1, c, a, o); }
static int op_urandomb_ui(int argc, tok_t *a, out_t *o) {
  long s; NEED(argc == 2); LIVE(s, &a[0]); NEED(small(&a[1]));
  out_ulong(o, gmp_urandomb_ui(st[s], tok_ulong(&a[1]))); return 0;
}
static int op_urandomm_ui(int argc, tok_t *a, out_t *o) {
  long s; NEED(argc == 2); LIVE(s, &a[0]); NEED(small(&a[1]));
  mpir_ui r = 0; int e = GUARD(r = gmp_urandomm_ui(st[s], tok_ulong(&a[1])));
  if (e) out_exc(o, e); else out_ulong(o, r); return 0;
}
static int op_rrandomb(int argc, tok_t *a, out_t *o) {
  long s; NEED(argc == 2); LIVE(s, &a[0]); NEED(small(&a[1]) && tok_ulong(&a[1]) <= MAXBITS);
  mpz_t r; mpz_init2(r, 1); mpz_rrandomb(r, st[s], tok_ulong(&a[1])); out_mpz(o, r); mpz_clear(r); return 0;
}
static int fin(out_t *o, mp_limb_t *rp, long n) { out_vec(o, rp, n); if (!dst_ok(rp, n)) out_err(o, "oob"); dst_free(rp); return 0; }
static int op_mpn_urandomb(int argc, tok_t *a, out_t *o) {
  long s; NEED(argc == 2); LIVE(s, &a[0]); NEED(small(&a[1]) && tok_ulong(&a[1]) >= 1 && tok_ulong(&a[1]) <= MAXBITS);
  unsigned long nb = tok_ulong(&a[1]); long n = (nb + 63) / 64; mp_limb_t *rp = dst_new(n);
  mpn_urandomb(rp, st[s], nb); return fin(o, rp, n);
}
static int op_mpn_urandomm(int argc, tok_t *a, out_t *o) {
  long s; NEED(argc == 2); LIVE(s, &a[0]); NEED(a[1].kind == T_VEC && a[1].n >= 1 && a[1].d[a[1].n - 1] != 0);
  long n = a[1].n; mp_limb_t *rp = dst_new(n);
  mpn_urandomm(rp, st[s], a[1].d, n); return fin(o, rp, n);
}
static int op_mpn_randomb(int argc, tok_t *a, out_t *o) {
  long s; NEED(argc == 2); LIVE(s, &a[0]); NEED(small(&a[1]) && tok_ulong(&a[1]) >= 1 && tok_ulong(&a[1]) <= MAXBITS / 64);
  long n = tok_ulong(&a[1]); mp_limb_t *rp = dst_new(n);
  mpn_randomb(rp, st[s], n); return fin(o, rp, n);
}
static int op_mpn_rrandom(int argc, tok_t *a, out_t *o) {
  long s; NEED(argc == 2); LIVE(s, &a[0]); NEED(small(&a[1]) && tok_ulong(&a[1]) >= 1 && tok_ulong(&a[1]) <= MAXBITS / 64);
  long n = tok_ulong(&a[1]); mp_limb_t *rp = dst_new(n);
  mpn_rrandom(rp, st[s], n); return fin(o, rp, n);
}
static int op_mpf_urandomb(int argc, tok_t *a, out_t *o) {
  long s; NEED(argc == 3); LIVE(s, &a[0]); NEED(small(&a[1]) && small(&a[2]) && tok_ulong(&a[1]) <= MAXBITS && tok_ulong(&a[2]) <= MAXBITS);
  mpf_t f; mpf_init2(f, tok_ulong(&a[1])); mpf_urandomb(f, st[s], tok_ulong(&a[2])); out_mpf(o, f); mpf_clear(f); return 0;
}
/* two slots the history has put in the same state: draw from both, print `1 value` when equal, `0 v1 v2` otherwise */
static int op_same(int argc, tok_t *a, out_t *o) {
  long s, t; NEED(argc == 3); LIVE(s, &a[0]); LIVE(t, &a[1]); NEED(s != t && small(&a[2]) && tok_ulong(&a[2]) <= MAXBITS);
  mpz_t x, y; mpz_init2(x, 1); mpz_init2(y, 1);
  mpz_urandomb(x, st[s], tok_ulong(&a[2])); mpz_urandomb(y, st[t], tok_ulong(&a[2]));
  int eq = mpz_wf(x) && mpz_wf(y) && x->_mp_size == y->_mp_size && memcmp(x->_mp_d, y->_mp_d, (size_t)x->_mp_size * sizeof(mp_limb_t)) == 0;
  out_long(o, eq); out_mpz(o, x); if (!eq) out_mpz(o, y);
  mpz_clear(x); mpz_clear(y); return 0;
}
/* per-bit monobit and byte chi-square over `draws` values of `nbits` bits (exact integers, no floats):
   maxdev = max_j |2*ones_j - draws|,  X = 256*sum c_b^2 - K^2,  K = draws*floor(nbits/8) */
static int op_freq(int argc, tok_t *a, out_t *o) {
  long s; NEED(argc == 3); LIVE(s, &a[0]); NEED(small(&a[1]) && small(&a[2]));
  unsigned long nbits = tok_ulong(&a[1]), draws = tok_ulong(&a[2]); NEED(nbits >= 8 && nbits <= 4096 && draws >= 1 && draws <= 1000000);
  unsigned long *ones = calloc(nbits, sizeof *ones), cnt[256] = {0}, nb = nbits / 8;
  mpz_t r; mpz_init(r);
  for (unsigned long i = 0; i < draws; i++) {
    mpz_urandomb(r, st[s], nbits);
    long sz = r->_mp_size;
    for (unsigned long j = 0; j < nbits; j++) if ((long)(j / 64) < sz && (r->_mp_d[j / 64] >> (j % 64) & 1)) ones[j]++;
    for (unsigned long k = 0; k < nb; k++) { unsigned long bit = 8 * k; mp_limb_t l = (long)(bit / 64) < sz ? r->_mp_d[bit / 64] : 0; cnt[l >> (bit % 64) & 255]++; }
  }
  unsigned long maxdev = 0;
  for (unsigned long j = 0; j < nbits; j++) { unsigned long d = 2 * ones[j] >= draws ? 2 * ones[j] - draws : draws - 2 * ones[j]; if (d > maxdev) maxdev = d; }
  unsigned __int128 sq = 0, K = (unsigned __int128)draws * nb;
  for (int b = 0; b < 256; b++) sq += (unsigned __int128)cnt[b] * cnt[b];
  unsigned __int128 X = 256 * sq - K * K;
  mp_limb_t xl[2] = { (mp_limb_t)X, (mp_limb_t)(X >> 64) }, kl[2] = { (mp_limb_t)K, (mp_limb_t)(K >> 64) };
  out_ulong(o, maxdev); out_mag(o, 0, xl, 2); out_mag(o, 0, kl, 2);
  mpz_clear(r); free(ones); return 0;
}
/* gmp_randinit_lc_2exp with m2exp = 1: chunk_nbits = 0 in randget_lc, the `while (rbitpos + chunk_nbits <= nbits)`
   loop never ends.  Run one draw in a child with alarm(2); `!hang` when the alarm killed it. */
static int op_lc_m2exp1_probe(int argc, tok_t *a, out_t *o) {
  NEED(argc == 1 && small(&a[0]) && tok_ulong(&a[0]) <= 4096);
  int fd[2]; if (pipe(fd)) return -1;
  fflush(stdout);
  pid_t pid = fork(); if (pid < 0) return -1;
  if (pid == 0) {
    close(fd[0]); signal(SIGALRM, SIG_DFL); alarm(2);
    gmp_randstate_t t; mpz_t z, r; mpz_init_set_ui(z, 5); mpz_init(r);
    gmp_randinit_lc_2exp(t, z, 1, 1);
    mpz_urandomb(r, t, tok_ulong(&a[0]));
    out_t c = {0}; out_mpz(&c, r);
    if (c.buf) { ssize_t w = write(fd[1], c.buf, c.len); (void)w; }
    _exit(0);
  }
  close(fd[1]);
  char buf[2048]; ssize_t got = 0, k;
  while (got < (ssize_t)sizeof buf - 1 && (k = read(fd[0], buf + got, sizeof buf - 1 - got)) > 0) got += k;
  buf[got] = 0; close(fd[0]);
  int status = 0; waitpid(pid, &status, 0);
  if (WIFSIGNALED(status) && WTERMSIG(status) == SIGALRM) out_err(o, "hang");
  else if (WIFSIGNALED(status) || got == 0) out_err(o, "crash");
  else out_raw(o, buf);
  return 0;
}

const opdef_t ops_rand[] = {
  {"@reset", op_reset}, {"@rinit_mt", op_rinit_mt}, {"@rinit_default", op_rinit_default}, {"@rinit_lc", op_rinit_lc},
  {"@rinit_lcsize", op_rinit_lcsize}, {"@rseed", op_rseed}, {"@rseed_ui", op_rseed_ui}, {"@rcopy", op_rcopy},
  {"@rclear", op_rclear}, {"@urandomb", op_urandomb}, {"@urandomm", op_urandomm}, {"@urandomm_alias", op_urandomm_alias},
  {"@urandomb_ui", op_urandomb_ui}, {"@urandomm_ui", op_urandomm_ui}, {"@rrandomb", op_rrandomb},
  {"@mpn_urandomb", op_mpn_urandomb}, {"@mpn_urandomm", op_mpn_urandomm}, {"@mpn_randomb", op_mpn_randomb},
  {"@mpn_rrandom", op_mpn_rrandom}, {"@mpf_urandomb", op_mpf_urandomb}, {"@freq", op_freq}, {"@same", op_same},
  {"lc_m2exp1_probe", op_lc_m2exp1_probe}, {0, 0}
};
