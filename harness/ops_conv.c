/* C11: comparisons and C-type conversions (mpz, mpf, doubles).
   Doubles cross the protocol only as 64-bit patterns (memcpy to/from double, never printed as floats).
   mpf operands are four tokens `prec size exp [limbs]` and are built by hand (mpf_init2, then the fields).
   Comparison results are printed as their sign (-1/0/1).  NaN / infinity where the library raises run
   under GUARD and print the marker. */
#include <stdint.h>
#include <sys/mman.h>
#include "harness.h"
#include "gmp-impl.h"
#define NEED(c) do { if (!(c)) return -1; } while (0)

static double d_of(uint64_t b) { double d; memcpy(&d, &b, 8); return d; }
static uint64_t b_of(double d) { uint64_t b; memcpy(&b, &d, 8); return b; }
static int is_u64(const tok_t *t) { return t->kind == T_NUM && !t->neg && t->n <= 1; }
static int is_s64(const tok_t *t) {
  if (t->kind != T_NUM || t->n > 1) return 0;
  if (t->n == 0) return 1;
  return t->neg ? t->d[0] <= 0x8000000000000000UL : t->d[0] < 0x8000000000000000UL;
}
static long tok_s64(const tok_t *t) { unsigned long v = t->n ? t->d[0] : 0; return (long)(t->neg ? 0UL - v : v); }
static void out_sign(out_t *o, long r) { out_long(o, r < 0 ? -1 : r > 0); }

/* a[0..3] = prec size exp [limbs]; 0 on success (f initialised), -1 if the tokens do not describe a
   well-formed mpf that fits prec+1 limbs */
static int tok_mpf(mpf_ptr f, const tok_t *a) {
  if (!(a[0].kind == T_NUM && !a[0].neg && a[0].n <= 1 && is_s64(&a[1]) && is_s64(&a[2]) && a[3].kind == T_VEC)) return -1;
  long size = tok_s64(&a[1]), n = size < 0 ? -size : size;
  if (a[3].n != n || n > 0x7fffffffL) return -1;
  if (n > 0 && a[3].d[n - 1] == 0) return -1;
  if (n == 0 && tok_s64(&a[2]) != 0) return -1;
  mpf_init2(f, tok_ulong(&a[0]));
  if (n > f->_mp_prec + 1) { mpf_clear(f); return -1; }
  for (long i = 0; i < n; i++) f->_mp_d[i] = a[3].d[i];
  f->_mp_size = (int)size; f->_mp_exp = tok_s64(&a[2]);
  return 0;
}

/* ---------------- doubles <- integers ---------------- */
static int op_mpn_get_d(int argc, tok_t *a, out_t *o) {
  NEED(argc == 3 && a[0].kind == T_VEC && a[1].kind == T_NUM && is_s64(&a[2]));
  NEED(a[0].n == 0 || a[0].d[a[0].n - 1] != 0);
  long sign = a[1].neg && a[1].n ? -1 : (a[1].n ? 1 : 0);
  double d = mpn_get_d(a[0].d, a[0].n, sign, tok_s64(&a[2]));
  out_ulong(o, b_of(d)); return 0;
}
static int op_extract_double(int argc, tok_t *a, out_t *o) {
  NEED(argc == 1 && is_u64(&a[0]));
  uint64_t b = tok_ulong(&a[0]);
  NEED(b < 0x7ff0000000000000UL);                      /* d >= 0 and finite, as the callers guarantee */
  mp_limb_t rp[LIMBS_PER_DOUBLE];
  long e = __gmp_extract_double(rp, d_of(b));
  out_vec(o, rp, LIMBS_PER_DOUBLE); out_long(o, e); return 0;
}
static int op_mpz_get_d(int argc, tok_t *a, out_t *o) {
  NEED(argc == 1 && a[0].kind == T_NUM);
  mpz_t x; mpz_init(x); tok_mpz(x, &a[0]);
  out_ulong(o, b_of(mpz_get_d(x))); mpz_clear(x); return 0;
}
static int op_mpz_get_d_2exp(int argc, tok_t *a, out_t *o) {
  NEED(argc == 1 && a[0].kind == T_NUM);
  mpz_t x; mpz_init(x); tok_mpz(x, &a[0]);
  signed long e = 12345; double d = mpz_get_d_2exp(&e, x);
  out_ulong(o, b_of(d)); out_long(o, e); mpz_clear(x); return 0;
}
static int do_mpz_set_d(int init, int argc, tok_t *a, out_t *o) {
  NEED(argc == 1 && is_u64(&a[0]));
  double d = d_of(tok_ulong(&a[0]));
  mpz_t r; int e;
  if (init) { e = GUARD(mpz_init_set_d(r, d)); if (e) { out_exc(o, e); return 0; } }
  else { mpz_init2(r, 1); e = GUARD(mpz_set_d(r, d)); if (e) { out_exc(o, e); mpz_clear(r); return 0; } }
  out_mpz(o, r); mpz_clear(r); return 0;
}
static int op_mpz_set_d(int c, tok_t *a, out_t *o) { return do_mpz_set_d(0, c, a, o); }
static int op_mpz_init_set_d(int c, tok_t *a, out_t *o) { return do_mpz_set_d(1, c, a, o); }

/* ---------------- mpz comparisons ---------------- */
static int op_mpz_cmp(int argc, tok_t *a, out_t *o) {
  NEED(argc == 2 && a[0].kind == T_NUM && a[1].kind == T_NUM);
  mpz_t x, y; mpz_init(x); mpz_init(y); tok_mpz(x, &a[0]); tok_mpz(y, &a[1]);
  out_sign(o, mpz_cmp(x, y)); mpz_clear(x); mpz_clear(y); return 0;
}
static int op_mpz_cmpabs(int argc, tok_t *a, out_t *o) {
  NEED(argc == 2 && a[0].kind == T_NUM && a[1].kind == T_NUM);
  mpz_t x, y; mpz_init(x); mpz_init(y); tok_mpz(x, &a[0]); tok_mpz(y, &a[1]);
  out_sign(o, mpz_cmpabs(x, y)); mpz_clear(x); mpz_clear(y); return 0;
}
static int op_mpz_cmp_ui(int argc, tok_t *a, out_t *o) {
  NEED(argc == 2 && a[0].kind == T_NUM && is_u64(&a[1]));
  mpz_t x; mpz_init(x); tok_mpz(x, &a[0]); unsigned long u = tok_ulong(&a[1]);
  out_sign(o, mpz_cmp_ui(x, u)); mpz_clear(x); return 0;
}
static int op_mpz_cmp_si(int argc, tok_t *a, out_t *o) {
  NEED(argc == 2 && a[0].kind == T_NUM && is_s64(&a[1]));
  mpz_t x; mpz_init(x); tok_mpz(x, &a[0]); long s = tok_s64(&a[1]);
  out_sign(o, mpz_cmp_si(x, s)); mpz_clear(x); return 0;
}
/* the macro forms with literal constants (gcc: __builtin_constant_p true) */
static int op_mpz_cmp_ui_c(int argc, tok_t *a, out_t *o) {
  NEED(argc == 2 && a[0].kind == T_NUM && is_u64(&a[1]));
  mpz_t x; mpz_init(x); tok_mpz(x, &a[0]); int r;
  switch (tok_ulong(&a[1])) {
    case 0: r = mpz_cmp_ui(x, 0); break;
    case 1: r = mpz_cmp_ui(x, 1); break;
    case 2: r = mpz_cmp_ui(x, 0xffff); break;
    case 3: r = mpz_cmp_ui(x, 0xffffffff); break;
    case 4: r = mpz_cmp_ui(x, 0xffffffffffffffffUL); break;
    default: mpz_clear(x); return -1;
  }
  out_sign(o, r); mpz_clear(x); return 0;
}
static int op_mpz_cmp_si_c(int argc, tok_t *a, out_t *o) {
  NEED(argc == 2 && a[0].kind == T_NUM && is_u64(&a[1]));
  mpz_t x; mpz_init(x); tok_mpz(x, &a[0]); int r;
  switch (tok_ulong(&a[1])) {
    case 0: r = mpz_cmp_si(x, 0); break;
    case 1: r = mpz_cmp_si(x, 1); break;
    case 2: r = mpz_cmp_si(x, 2); break;
    case 3: r = mpz_cmp_si(x, 0x7fff); break;
    case 4: r = mpz_cmp_si(x, 0x7fffffff); break;
    case 5: r = mpz_cmp_si(x, 0x7fffffffffffffffL); break;
    case 6: r = mpz_cmp_si(x, -1); break;
    case 7: r = mpz_cmp_si(x, -0x80000000L); break;
    case 8: r = mpz_cmp_si(x, (-0x7fffffffffffffffL - 1)); break;
    default: mpz_clear(x); return -1;
  }
  out_sign(o, r); mpz_clear(x); return 0;
}
static int op_mpz_cmpabs_ui(int argc, tok_t *a, out_t *o) {
  NEED(argc == 2 && a[0].kind == T_NUM && is_u64(&a[1]));
  mpz_t x; mpz_init(x); tok_mpz(x, &a[0]);
  out_sign(o, mpz_cmpabs_ui(x, tok_ulong(&a[1]))); mpz_clear(x); return 0;
}
static int do_mpz_cmp_d(int absf, int argc, tok_t *a, out_t *o) {
  NEED(argc == 2 && a[0].kind == T_NUM && is_u64(&a[1]));
  mpz_t x; mpz_init(x); tok_mpz(x, &a[0]); double d = d_of(tok_ulong(&a[1]));
  volatile int r = 0;
  int e = absf ? GUARD(r = mpz_cmpabs_d(x, d)) : GUARD(r = mpz_cmp_d(x, d));
  if (e) out_exc(o, e); else out_sign(o, r);
  mpz_clear(x); return 0;
}
static int op_mpz_cmp_d(int c, tok_t *a, out_t *o) { return do_mpz_cmp_d(0, c, a, o); }
static int op_mpz_cmpabs_d(int c, tok_t *a, out_t *o) { return do_mpz_cmp_d(1, c, a, o); }
static int op_mpz_sgn(int argc, tok_t *a, out_t *o) {
  NEED(argc == 1 && a[0].kind == T_NUM);
  mpz_t x; mpz_init(x); tok_mpz(x, &a[0]); out_long(o, mpz_sgn(x)); mpz_clear(x); return 0;
}

/* Huge operands given by size only: |size| limbs of lazily mapped zero pages with the high limb set to 1
   (legal mpz objects up to 2^31-1 limbs; only one page each is touched).  The sizes must differ, so that
   no limb is read. */
static mp_limb_t *huge_map(long n) {
  if (n == 0) n = 1;
  mp_limb_t *p = mmap(0, (size_t)n * 8, PROT_READ | PROT_WRITE, MAP_PRIVATE | MAP_ANONYMOUS | MAP_NORESERVE, -1, 0);
  if (p == MAP_FAILED) return NULL;
  p[n - 1] = 1; return p;
}
static void huge_unmap(mp_limb_t *p, long n) { if (n == 0) n = 1; munmap(p, (size_t)n * 8); }
static int op_mpz_cmp_sizes(int argc, tok_t *a, out_t *o) {
  NEED(argc == 2 && is_s64(&a[0]) && is_s64(&a[1]));
  long us = tok_s64(&a[0]), vs = tok_s64(&a[1]), un = labs(us), vn = labs(vs);
  NEED(us != vs && un < 0x80000000L && vn < 0x80000000L);
  mp_limb_t *up = huge_map(un), *vp = huge_map(vn);
  if (!up || !vp) { out_err(o, "nomem"); return 0; }
  mpz_t x, y;
  x->_mp_d = up; x->_mp_alloc = un ? (int)un : 1; x->_mp_size = (int)us;
  y->_mp_d = vp; y->_mp_alloc = vn ? (int)vn : 1; y->_mp_size = (int)vs;
  out_sign(o, mpz_cmp(x, y));
  huge_unmap(up, un); huge_unmap(vp, vn); return 0;
}
static int op_mpz_cmp_si_size(int argc, tok_t *a, out_t *o) {
  NEED(argc == 2 && is_s64(&a[0]) && is_s64(&a[1]));
  long us = tok_s64(&a[0]), un = labs(us);
  NEED(un >= 2 && un < 0x80000000L);
  mp_limb_t *up = huge_map(un);
  if (!up) { out_err(o, "nomem"); return 0; }
  mpz_t x; x->_mp_d = up; x->_mp_alloc = (int)un; x->_mp_size = (int)us;
  long s = tok_s64(&a[1]);
  out_sign(o, mpz_cmp_si(x, s));
  huge_unmap(up, un); return 0;
}

/* ---------------- fits / get / set ---------------- */
static int op_mpz_fits(int argc, tok_t *a, out_t *o) {
  NEED(argc == 1 && a[0].kind == T_NUM);
  mpz_t x; mpz_init(x); tok_mpz(x, &a[0]);
  out_long(o, mpz_fits_ulong_p(x) != 0); out_long(o, mpz_fits_slong_p(x) != 0);
  out_long(o, mpz_fits_uint_p(x) != 0); out_long(o, mpz_fits_sint_p(x) != 0);
  out_long(o, mpz_fits_ushort_p(x) != 0); out_long(o, mpz_fits_sshort_p(x) != 0);
  out_long(o, mpz_fits_ui_p(x) != 0); out_long(o, mpz_fits_si_p(x) != 0);
  mpz_clear(x); return 0;
}
static int op_mpz_get(int argc, tok_t *a, out_t *o) {
  NEED(argc == 1 && a[0].kind == T_NUM);
  mpz_t x; mpz_init(x); tok_mpz(x, &a[0]);
  out_ulong(o, mpz_get_ui(x)); out_long(o, mpz_get_si(x));
  out_ulong(o, (unsigned long)mpz_get_ux(x)); out_long(o, (long)mpz_get_sx(x));
  mpz_clear(x); return 0;
}
/* kind: 0 ui, 1 si, 2 ux, 3 sx; init: use the mpz_init_set_* form */
static int do_mpz_set(int kind, int init, int argc, tok_t *a, out_t *o) {
  NEED(argc == 1 && ((kind & 1) ? is_s64(&a[0]) : is_u64(&a[0])));
  unsigned long u = tok_ulong(&a[0]); long s = tok_s64(&a[0]);
  mpz_t r;
  if (init) {
    switch (kind) { case 0: mpz_init_set_ui(r, u); break; case 1: mpz_init_set_si(r, s); break;
                    case 2: mpz_init_set_ux(r, (uintmax_t)u); break; default: mpz_init_set_sx(r, (intmax_t)s); }
  } else {
    mpz_init2(r, 1);
    r->_mp_d[0] = 0xABABABABABABABABUL; r->_mp_size = 1;          /* stale content must not survive */
    switch (kind) { case 0: mpz_set_ui(r, u); break; case 1: mpz_set_si(r, s); break;
                    case 2: mpz_set_ux(r, (uintmax_t)u); break; default: mpz_set_sx(r, (intmax_t)s); }
  }
  out_mpz(o, r); mpz_clear(r); return 0;
}
static int op_mpz_set_ui(int c, tok_t *a, out_t *o) { return do_mpz_set(0, 0, c, a, o); }
static int op_mpz_set_si(int c, tok_t *a, out_t *o) { return do_mpz_set(1, 0, c, a, o); }
static int op_mpz_set_ux(int c, tok_t *a, out_t *o) { return do_mpz_set(2, 0, c, a, o); }
static int op_mpz_set_sx(int c, tok_t *a, out_t *o) { return do_mpz_set(3, 0, c, a, o); }
static int op_mpz_init_set_ui(int c, tok_t *a, out_t *o) { return do_mpz_set(0, 1, c, a, o); }
static int op_mpz_init_set_si(int c, tok_t *a, out_t *o) { return do_mpz_set(1, 1, c, a, o); }
static int op_mpz_init_set_ux(int c, tok_t *a, out_t *o) { return do_mpz_set(2, 1, c, a, o); }
static int op_mpz_init_set_sx(int c, tok_t *a, out_t *o) { return do_mpz_set(3, 1, c, a, o); }

/* ---------------- mpf ---------------- */
static int op_mpf_cmp(int argc, tok_t *a, out_t *o) {
  NEED(argc == 8);
  mpf_t f, g; NEED(tok_mpf(f, a) == 0);
  if (tok_mpf(g, a + 4) != 0) { mpf_clear(f); return -1; }
  out_sign(o, mpf_cmp(f, g)); mpf_clear(f); mpf_clear(g); return 0;
}
static int op_mpf_cmp_ui(int argc, tok_t *a, out_t *o) {
  NEED(argc == 5 && is_u64(&a[4]));
  mpf_t f; NEED(tok_mpf(f, a) == 0);
  out_sign(o, mpf_cmp_ui(f, tok_ulong(&a[4]))); mpf_clear(f); return 0;
}
static int op_mpf_cmp_si(int argc, tok_t *a, out_t *o) {
  NEED(argc == 5 && is_s64(&a[4]));
  mpf_t f; NEED(tok_mpf(f, a) == 0);
  out_sign(o, mpf_cmp_si(f, tok_s64(&a[4]))); mpf_clear(f); return 0;
}
static int op_mpf_cmp_d(int argc, tok_t *a, out_t *o) {
  NEED(argc == 5 && is_u64(&a[4]));
  mpf_t f; NEED(tok_mpf(f, a) == 0);
  double d = d_of(tok_ulong(&a[4])); volatile int r = 0;
  int e = GUARD(r = mpf_cmp_d(f, d));
  if (e) out_exc(o, e); else out_sign(o, r);
  mpf_clear(f); return 0;
}
static int op_mpf_cmp_z(int argc, tok_t *a, out_t *o) {
  NEED(argc == 5 && a[4].kind == T_NUM);
  mpf_t f; NEED(tok_mpf(f, a) == 0);
  mpz_t z; mpz_init(z); tok_mpz(z, &a[4]);
  out_sign(o, mpf_cmp_z(f, z)); mpz_clear(z); mpf_clear(f); return 0;
}
static int op_mpf_sgn(int argc, tok_t *a, out_t *o) {
  NEED(argc == 4); mpf_t f; NEED(tok_mpf(f, a) == 0);
  out_long(o, mpf_sgn(f)); mpf_clear(f); return 0;
}
static int op_mpf_get_d(int argc, tok_t *a, out_t *o) {
  NEED(argc == 4); mpf_t f; NEED(tok_mpf(f, a) == 0);
  out_ulong(o, b_of(mpf_get_d(f))); mpf_clear(f); return 0;
}
static int op_mpf_get_d_2exp(int argc, tok_t *a, out_t *o) {
  NEED(argc == 4); mpf_t f; NEED(tok_mpf(f, a) == 0);
  signed long e = 12345; double d = mpf_get_d_2exp(&e, f);
  out_ulong(o, b_of(d)); out_long(o, e); mpf_clear(f); return 0;
}
static int op_mpf_get(int argc, tok_t *a, out_t *o) {
  NEED(argc == 4); mpf_t f; NEED(tok_mpf(f, a) == 0);
  out_long(o, mpf_get_si(f)); out_ulong(o, mpf_get_ui(f)); mpf_clear(f); return 0;
}
static int op_mpf_fits(int argc, tok_t *a, out_t *o) {
  NEED(argc == 4); mpf_t f; NEED(tok_mpf(f, a) == 0);
  out_long(o, mpf_fits_ulong_p(f) != 0); out_long(o, mpf_fits_slong_p(f) != 0);
  out_long(o, mpf_fits_uint_p(f) != 0); out_long(o, mpf_fits_sint_p(f) != 0);
  out_long(o, mpf_fits_ushort_p(f) != 0); out_long(o, mpf_fits_sshort_p(f) != 0);
  out_long(o, mpf_fits_ui_p(f) != 0); out_long(o, mpf_fits_si_p(f) != 0);
  mpf_clear(f); return 0;
}
static int op_mpf_integer_p(int argc, tok_t *a, out_t *o) {
  NEED(argc == 4); mpf_t f; NEED(tok_mpf(f, a) == 0);
  out_long(o, mpf_integer_p(f) != 0); mpf_clear(f); return 0;
}
static int op_mpf_set_d(int argc, tok_t *a, out_t *o) {
  NEED(argc == 2 && is_u64(&a[0]) && is_u64(&a[1]));
  mpf_t r; mpf_init2(r, tok_ulong(&a[0]));
  for (long i = 0; i <= r->_mp_prec; i++) r->_mp_d[i] = 0xABABABABABABABABUL;    /* stale content */
  r->_mp_size = 1; r->_mp_exp = 77;
  int e = GUARD(mpf_set_d(r, d_of(tok_ulong(&a[1]))));
  if (e) out_exc(o, e); else out_mpf(o, r);
  mpf_clear(r); return 0;
}

const opdef_t ops_conv[] = {
  {"mpn_get_d", op_mpn_get_d}, {"extract_double", op_extract_double},
  {"mpz_get_d", op_mpz_get_d}, {"mpz_get_d_2exp", op_mpz_get_d_2exp},
  {"mpz_set_d", op_mpz_set_d}, {"mpz_init_set_d", op_mpz_init_set_d},
  {"mpz_cmp", op_mpz_cmp}, {"mpz_cmpabs", op_mpz_cmpabs}, {"mpz_cmp_ui", op_mpz_cmp_ui}, {"mpz_cmp_si", op_mpz_cmp_si},
  {"mpz_cmp_ui_c", op_mpz_cmp_ui_c}, {"mpz_cmp_si_c", op_mpz_cmp_si_c}, {"mpz_cmpabs_ui", op_mpz_cmpabs_ui},
  {"mpz_cmp_d", op_mpz_cmp_d}, {"mpz_cmpabs_d", op_mpz_cmpabs_d}, {"mpz_sgn", op_mpz_sgn},
  {"mpz_cmp_sizes", op_mpz_cmp_sizes}, {"mpz_cmp_si_size", op_mpz_cmp_si_size},
  {"mpz_fits", op_mpz_fits}, {"mpz_get", op_mpz_get},
  {"mpz_set_ui", op_mpz_set_ui}, {"mpz_set_si", op_mpz_set_si}, {"mpz_set_ux", op_mpz_set_ux}, {"mpz_set_sx", op_mpz_set_sx},
  {"mpz_init_set_ui", op_mpz_init_set_ui}, {"mpz_init_set_si", op_mpz_init_set_si},
  {"mpz_init_set_ux", op_mpz_init_set_ux}, {"mpz_init_set_sx", op_mpz_init_set_sx},
  {"mpf_cmp", op_mpf_cmp}, {"mpf_cmp_ui", op_mpf_cmp_ui}, {"mpf_cmp_si", op_mpf_cmp_si}, {"mpf_cmp_d", op_mpf_cmp_d},
  {"mpf_cmp_z", op_mpf_cmp_z}, {"mpf_sgn", op_mpf_sgn}, {"mpf_get_d", op_mpf_get_d}, {"mpf_get_d_2exp", op_mpf_get_d_2exp},
  {"mpf_get", op_mpf_get}, {"mpf_fits", op_mpf_fits}, {"mpf_integer_p", op_mpf_integer_p}, {"mpf_set_d", op_mpf_set_d},
  {0, 0}
};
