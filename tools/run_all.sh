#!/bin/sh
# tools/run_all.sh [tier]: every registered check once on /repo (seed 1), refreshing evidence/*.json; prints one line per check
cd "$(dirname "$0")/.." || exit 1
tier=${1:-quick}
for id in C01 C02 C03 C04 C05 C06 C07 C08 C09 C10 C11 C12 C13 C14 C15 C16 C17 C18 C19 C20; do
  t0=$(date +%s)
  out=$(VERIF_SEED=1 timeout 7200 bin/check $id --tier $tier 2>&1 | grep -E "^(OK|VIOLATION|ERROR|KNOWN)" | tail -2 | tr '\n' ' ')
  echo "$id $(( $(date +%s) - t0 ))s $out" | cut -c1-220
done
