#!/usr/bin/env python3
"""gen_numth_tabs(ctx): regenerate lean/Mpir/Gen/NumthTabs.lean from the source of the scratch copy
`ctx.build` of /repo's working tree.

What is read (64-bit variants are selected by the real preprocessor, never by this script):
  mpn/fib_table.c                 __gmp_fib_table[]            (array initialiser, entry 0 is F[-1])
  gmp-impl.h                      FIB_TABLE_LIMIT, FIB_TABLE_LUCNUM_LIMIT, PP, PP_FIRST_OMITTED,
                                  FAC_ODD_THRESHOLD, FAC_DSC_THRESHOLD (with gmp-mparam.h)
  mpz/fac_ui.c                    ONE_LIMB_FACTORIAL_TABLE, TABLE_LIMIT_2N_MINUS_POPC_2N
  mpn/comb_tables.c               ONE_LIMB_ODD_FACTORIAL_TABLE, ONE_LIMB_ODD_FACTORIAL_EXTTABLE,
                                  ONE_LIMB_ODD_DOUBLEFACTORIAL_TABLE, TABLE_2N_MINUS_POPC_2N, NTH_ROOT_NUMB_MASK_TABLE
  mpz/oddfac_1.c, 2fac_ui.c, bin_uiui.c   the *_LIMIT / *_MAX constants (duplicated in the C: they must agree)
  mpz/bin_uiui.c                  ONE_LIMB_ODD_FACTORIAL_INVERSES_TABLE, ONE_LIMB_ODD_CENTRAL_BINOMIAL_TABLE,
                                  ONE_LIMB_ODD_CENTRAL_BINOMIAL_INVERSE_TABLE, CENTRAL_BINOMIAL_2FAC_TABLE, tcnttab[],
                                  BIN_GOETGHELUCK_THRESHOLD, BIN_UIUI_ENABLE_SMALLDC, BIN_UIUI_RECURSIVE_SMALLDC, SOME_THRESHOLD
  mpz/primorial_ui.c              table[]
  mpz/next_prime_candidate.c      primes[]
  mpz/likely_prime_p.c            mod64[], mod63[], mod65[]

How: `gcc -E -dM` gives the macro bodies that are live at the end of each translation unit, `gcc -E -P`
gives the array initialisers; both are pasted into a small C program that is compiled against the
scratch copy's headers and prints every value, so constant expressions (CNST_LIMB, GMP_NUMB_MASK,
`(GMP_NUMB_BITS > 32)`, ...) are evaluated by the compiler.  Anything missing -> exception
(= "translator failed on the current source")."""
import os, re, subprocess, sys, tempfile
sys.path.insert(0, os.path.dirname(os.path.abspath(__file__)))
import vlib

OUT = os.path.join(vlib.LEAN, "Mpir", "Gen", "NumthTabs.lean")

# (lean name, file, macro, kind)   kind: "tab" = comma list of limbs, "val" = scalar
MACROS = [
    ("FIB_TABLE_LIMIT", "mpn/fib_table.c", "FIB_TABLE_LIMIT", "val"),
    ("FIB_TABLE_LUCNUM_LIMIT", "mpn/fib_table.c", "FIB_TABLE_LUCNUM_LIMIT", "val"),
    ("PP", "mpz/pprime_p.c", "PP", "val"),
    ("PP_FIRST_OMITTED", "mpz/pprime_p.c", "PP_FIRST_OMITTED", "val"),
    ("FAC_ODD_THRESHOLD", "mpz/fac_ui.c", "FAC_ODD_THRESHOLD", "val"),
    ("FAC_DSC_THRESHOLD", "mpz/oddfac_1.c", "FAC_DSC_THRESHOLD", "val"),
    ("facTable", "mpz/fac_ui.c", "ONE_LIMB_FACTORIAL_TABLE", "tab"),
    ("TABLE_LIMIT_2N_MINUS_POPC_2N", "mpz/fac_ui.c", "TABLE_LIMIT_2N_MINUS_POPC_2N", "val"),
    ("oddfacTable", "mpn/comb_tables.c", "ONE_LIMB_ODD_FACTORIAL_TABLE", "tab"),
    ("oddfacExtTable", "mpn/comb_tables.c", "ONE_LIMB_ODD_FACTORIAL_EXTTABLE", "tab"),
    ("odd2facTable", "mpn/comb_tables.c", "ONE_LIMB_ODD_DOUBLEFACTORIAL_TABLE", "tab"),
    ("fac2cntTable", "mpn/comb_tables.c", "TABLE_2N_MINUS_POPC_2N", "tab"),
    ("limbrootsTable", "mpn/comb_tables.c", "NTH_ROOT_NUMB_MASK_TABLE", "tab"),
    ("ODD_FACTORIAL_TABLE_MAX", "mpz/oddfac_1.c", "ODD_FACTORIAL_TABLE_MAX", "val"),
    ("ODD_FACTORIAL_TABLE_LIMIT", "mpz/oddfac_1.c", "ODD_FACTORIAL_TABLE_LIMIT", "val"),
    ("ODD_FACTORIAL_EXTTABLE_LIMIT", "mpz/oddfac_1.c", "ODD_FACTORIAL_EXTTABLE_LIMIT", "val"),
    ("ODD_DOUBLEFACTORIAL_TABLE_MAX", "mpz/oddfac_1.c", "ODD_DOUBLEFACTORIAL_TABLE_MAX", "val"),
    ("ODD_DOUBLEFACTORIAL_TABLE_LIMIT", "mpz/oddfac_1.c", "ODD_DOUBLEFACTORIAL_TABLE_LIMIT", "val"),
    ("facinvTable", "mpz/bin_uiui.c", "ONE_LIMB_ODD_FACTORIAL_INVERSES_TABLE", "tab"),
    ("bin2kkTable", "mpz/bin_uiui.c", "ONE_LIMB_ODD_CENTRAL_BINOMIAL_TABLE", "tab"),
    ("bin2kkinvTable", "mpz/bin_uiui.c", "ONE_LIMB_ODD_CENTRAL_BINOMIAL_INVERSE_TABLE", "tab"),
    ("fac2binTable", "mpz/bin_uiui.c", "CENTRAL_BINOMIAL_2FAC_TABLE", "tab"),
    ("ODD_CENTRAL_BINOMIAL_OFFSET", "mpz/bin_uiui.c", "ODD_CENTRAL_BINOMIAL_OFFSET", "val"),
    ("ODD_CENTRAL_BINOMIAL_TABLE_LIMIT", "mpz/bin_uiui.c", "ODD_CENTRAL_BINOMIAL_TABLE_LIMIT", "val"),
    ("BIN_GOETGHELUCK_THRESHOLD", "mpz/bin_uiui.c", "BIN_GOETGHELUCK_THRESHOLD", "val"),
    ("BIN_UIUI_ENABLE_SMALLDC", "mpz/bin_uiui.c", "BIN_UIUI_ENABLE_SMALLDC", "val"),
    ("BIN_UIUI_RECURSIVE_SMALLDC", "mpz/bin_uiui.c", "BIN_UIUI_RECURSIVE_SMALLDC", "val"),
    ("SOME_THRESHOLD", "mpz/bin_uiui.c", "SOME_THRESHOLD", "val"),
]
# constants the C duplicates in several files: (macro, [files]) -- all live definitions must be equal
DUPLICATED = [
    ("ODD_FACTORIAL_TABLE_MAX", ["mpz/oddfac_1.c", "mpz/bin_uiui.c"]),
    ("ODD_FACTORIAL_TABLE_LIMIT", ["mpz/oddfac_1.c", "mpz/bin_uiui.c"]),
    ("ODD_FACTORIAL_EXTTABLE_LIMIT", ["mpz/oddfac_1.c", "mpz/bin_uiui.c"]),
    ("ODD_DOUBLEFACTORIAL_TABLE_MAX", ["mpz/oddfac_1.c", "mpz/2fac_ui.c"]),
    ("ODD_DOUBLEFACTORIAL_TABLE_LIMIT", ["mpz/oddfac_1.c", "mpz/2fac_ui.c"]),
    ("TABLE_LIMIT_2N_MINUS_POPC_2N", ["mpz/fac_ui.c", "mpz/2fac_ui.c"]),
]
# (lean name, file, C array identifier)
ARRAYS = [
    ("fibTable", "mpn/fib_table.c", "__gmp_fib_table"),
    ("tcnttab", "mpz/bin_uiui.c", "tcnttab"),
    ("primorialTable", "mpz/primorial_ui.c", "table"),
    ("npcPrimes", "mpz/next_prime_candidate.c", "primes"),
    ("mod64", "mpz/likely_prime_p.c", "mod64"),
    ("mod63", "mpz/likely_prime_p.c", "mod63"),
    ("mod65", "mpz/likely_prime_p.c", "mod65"),
]
DOC = {
    "fibTable": "`__gmp_fib_table` (mpn/generic/fib_table.c): entry `i` is F[i-1]; `FIB_TABLE(n) = fibTable[n+1]`",
    "facTable": "`ONE_LIMB_FACTORIAL_TABLE` (mpz/fac_ui.c): 0!,1!,...",
    "oddfacTable": "`ONE_LIMB_ODD_FACTORIAL_TABLE` (comb_tables.c): odd part of i!",
    "oddfacExtTable": "`ONE_LIMB_ODD_FACTORIAL_EXTTABLE`: odd part of i! mod 2^64, continuing `oddfacTable`",
    "odd2facTable": "`ONE_LIMB_ODD_DOUBLEFACTORIAL_TABLE`: (2i+1)!!",
    "fac2cntTable": "`TABLE_2N_MINUS_POPC_2N`: entry i (from 0) is 2(i+1) - popcount(2(i+1))",
    "limbrootsTable": "`NTH_ROOT_NUMB_MASK_TABLE`: entry i (from 0) is the largest x with x^(i+1) < 2^64",
    "facinvTable": "`ONE_LIMB_ODD_FACTORIAL_INVERSES_TABLE` (mpz/bin_uiui.c `facinv`): entry i is (odd part of (i+2)!)^-1 mod 2^64",
    "bin2kkTable": "`ONE_LIMB_ODD_CENTRAL_BINOMIAL_TABLE` (`bin2kk`): entry i is the odd part of binomial(2k,k), k = i + ODD_CENTRAL_BINOMIAL_OFFSET",
    "bin2kkinvTable": "`ONE_LIMB_ODD_CENTRAL_BINOMIAL_INVERSE_TABLE` (`bin2kkinv`): inverses mod 2^64 of `bin2kkTable`",
    "fac2binTable": "`CENTRAL_BINOMIAL_2FAC_TABLE` (`fac2bin`): exponent of 2 in binomial(2k,k)",
    "tcnttab": "`tcnttab` (mpz/bin_uiui.c): factors of 2 removed by mul1..mul8",
    "primorialTable": "`table` of mpz_primorial_ui",
    "npcPrimes": "`primes[]` of mpz/next_prime_candidate.c",
    "mod64": "`mod64[]` of mpz/likely_prime_p.c (quadratic-residue flags)", "mod63": "`mod63[]`", "mod65": "`mod65[]`",
}

def _cc(build, args, src):
    cmd = ["gcc", "-I" + build, "-DHAVE_CONFIG_H", "-D__GMP_WITHIN_GMP"] + args + [src]
    p = subprocess.run(cmd, stdout=subprocess.PIPE, stderr=subprocess.PIPE, cwd=build)
    if p.returncode != 0:
        raise RuntimeError("gcc %s failed on %s: %s" % (" ".join(args), src, p.stderr.decode("utf-8", "replace")[-800:]))
    return p.stdout.decode("utf-8", "replace")

def _src(build, rel):
    p = os.path.join(build, rel)
    if not os.path.exists(p) and rel.startswith("mpn/"):
        p = os.path.join(build, "mpn", "generic", os.path.basename(rel))
    if not os.path.exists(p): raise RuntimeError("source file %s not found in %s" % (rel, build))
    return p

def extract(build):
    """returns ({name: [ints]} , {name: int})"""
    macros, texts = {}, {}
    def dm(rel):
        if rel not in macros:
            d = {}
            for ln in _cc(build, ["-E", "-dM"], _src(build, rel)).split("\n"):
                m = re.match(r"#define\s+(\w+)(\([^)]*\))?\s*(.*)$", ln)
                if m and not m.group(2): d[m.group(1)] = m.group(3).strip()
            macros[rel] = d
        return macros[rel]
    def pp(rel):
        if rel not in texts: texts[rel] = _cc(build, ["-E", "-P"], _src(build, rel))
        return texts[rel]
    def body(rel, mac):
        b = dm(rel).get(mac)
        if b is None or b == "": raise RuntimeError("macro %s is not defined at the end of %s" % (mac, rel))
        return b
    prog = ['#include <stdio.h>', '#include "mpir.h"', '#include "gmp-impl.h"', '#include "longlong.h"',
            'typedef unsigned long long u64;',
            'static void dump(const char *n, const u64 *p, long k) { printf("%s %ld", n, k); for (long i = 0; i < k; i++) printf(" %llx", p[i]); printf("\\n"); }']
    main = []
    for name, rel, mac, kind in MACROS:
        b = body(rel, mac)
        if kind == "tab":
            prog.append("static const u64 T_%s[] = { %s };" % (name, b))
            main.append('dump("%s", T_%s, (long)(sizeof T_%s / sizeof T_%s[0]));' % (name, name, name, name))
        else:
            prog.append("static const u64 V_%s[] = { (u64)(%s) };" % (name, b))
            main.append('dump("%s", V_%s, 1);' % (name, name))
    k = 0
    for mac, files in DUPLICATED:
        for rel in files:
            prog.append("static const u64 D_%d[] = { (u64)(%s) };" % (k, body(rel, mac)))
            main.append('dump("dup:%s:%s", D_%d, 1);' % (mac, rel, k)); k += 1
    for name, rel, ident in ARRAYS:
        m = re.search(r"\b%s\s*\[[^\]]*\]\s*=\s*\{([^{}]*)\}" % re.escape(ident), pp(rel))
        if not m: raise RuntimeError("array %s not found in %s" % (ident, rel))
        init = m.group(1).strip().rstrip(",")
        if not init: raise RuntimeError("array %s in %s is empty" % (ident, rel))
        prog.append("static const u64 A_%s[] = { %s };" % (name, init))
        main.append('dump("%s", A_%s, (long)(sizeof A_%s / sizeof A_%s[0]));' % (name, name, name, name))
    prog.append("int main(void) {\n  " + "\n  ".join(main) + "\n  return 0;\n}")
    with tempfile.TemporaryDirectory(dir=vlib.CACHE if os.path.isdir(vlib.CACHE) else None) as td:
        c = os.path.join(td, "numth_tabs_dump.c"); exe = os.path.join(td, "numth_tabs_dump")
        open(c, "w").write("\n".join(prog) + "\n")
        _cc(build, ["-w", "-o", exe], c)
        p = subprocess.run([exe], stdout=subprocess.PIPE, stderr=subprocess.PIPE)
        if p.returncode != 0: raise RuntimeError("table dump program failed")
        out = p.stdout.decode()
    tabs, vals, dups = {}, {}, {}
    for ln in out.strip().split("\n"):
        f = ln.split(" ")
        xs = [int(x, 16) for x in f[2:]]
        if len(xs) != int(f[1]): raise RuntimeError("bad dump line " + ln[:80])
        if f[0].startswith("dup:"):
            _, mac, rel = f[0].split(":"); dups.setdefault(mac, {})[rel] = xs[0]
        elif f[0] in [m[0] for m in MACROS if m[3] == "val"]: vals[f[0]] = xs[0]
        else: tabs[f[0]] = xs
    for mac, d in dups.items():
        if len(set(d.values())) != 1:
            raise RuntimeError("duplicated constant %s differs between files: %s" % (mac, d))
    return tabs, vals

def render(tabs, vals):
    L = ["-- GENERATED by tools/gen_numth_tabs.py from the /repo working tree (fib_table.c, comb_tables.c, fac_ui.c,",
         "-- oddfac_1.c, 2fac_ui.c, bin_uiui.c, primorial_ui.c, next_prime_candidate.c, likely_prime_p.c, gmp-impl.h).",
         "-- Do not edit: `bin/check C16` regenerates this file and the theorems of MpirProofs/Props/C16.lean are",
         "-- re-checked against it.  64-bit limb variants, selected by the C preprocessor.",
         "namespace Mpir.Gen.NumthTabs", ""]
    for name, _, mac, kind in MACROS:
        if kind == "val":
            L.append("/-- `%s` -/" % mac); L.append("def %s : Nat := %d" % (name, vals[name])); L.append("")
    def tab(name):
        xs = tabs[name]; L.append("/-- %s -/" % DOC.get(name, name))
        rows = []; cur = "  "
        for i, x in enumerate(xs):
            s = ("0x%x" % x if x > 9999 else "%d" % x) + ("," if i + 1 < len(xs) else "")
            if len(cur) + len(s) > 110: rows.append(cur.rstrip()); cur = "  "
            cur += s + " "
        rows.append(cur.rstrip())
        L.append("def %s : List Nat := [" % name); L.extend(rows); L.append("]"); L.append("")
    for name, _, _, kind in MACROS:
        if kind == "tab": tab(name)
    for name, _, _ in ARRAYS: tab(name)
    L.append("end Mpir.Gen.NumthTabs"); L.append("")
    return "\n".join(L)

def gen_numth_tabs(ctx):
    tabs, vals = extract(ctx.build)
    return [os.path.relpath(OUT, vlib.VERIF)] if vlib.write_if_changed(OUT, render(tabs, vals)) else []

if __name__ == "__main__":
    class C: pass
    c = C(); c.build = sys.argv[1] if len(sys.argv) > 1 else vlib.REPO
    print(gen_numth_tabs(c))
