#!/usr/bin/env python3
"""gen_params(ctx) -> lean/Mpir/Gen/Params.lean

Extracts, from the build tree `ctx.build` (the scratch copy of /repo's working tree), every
multiplication-related tuning constant *as the compiler sees it*:

  * `gcc -E -dM -I<build> -DHAVE_CONFIG_H` on a stub including mpir.h + gmp-impl.h lists the macros
    (this resolves the selected gmp-mparam.h and the gmp-impl.h defaults);
  * the same on mpn/generic/mul.c picks up the file-local `MUL_BASECASE_MAX_UN`;
  * a tiny C program compiled against the same headers prints the *values* (so `MUL_FFT_FULL_THRESHOLD/2`,
    `MP_SIZE_T_MAX`, `..._LIMIT = ...` are evaluated by the C compiler, not by this script);
  * `FFT_TAB` and `MULMOD_TAB` are parsed from their brace initialisers and cross-checked against
    `sizeof` of the arrays they initialise (5x2 ints, FFT_N_NUM entries).

Output: a Lean structure `Mpir.Gen.Params` (one field per macro, named exactly like the macro) and the
value `Mpir.Gen.params`.  Raises on anything it cannot parse."""
import os, re, sys, subprocess, tempfile
sys.path.insert(0, os.path.dirname(os.path.abspath(__file__)))
import vlib

# macros the Lean development refers to by name: their absence is a translation failure
REQUIRED = [
    "GMP_LIMB_BITS", "GMP_NUMB_BITS",
    "MUL_KARATSUBA_THRESHOLD", "MUL_TOOM3_THRESHOLD", "MUL_TOOM4_THRESHOLD", "MUL_TOOM8H_THRESHOLD",
    "SQR_BASECASE_THRESHOLD", "SQR_KARATSUBA_THRESHOLD", "SQR_TOOM3_THRESHOLD", "SQR_TOOM4_THRESHOLD", "SQR_TOOM8_THRESHOLD",
    "MUL_FFT_FULL_THRESHOLD", "SQR_FFT_FULL_THRESHOLD",
    "MUL_KARATSUBA_THRESHOLD_LIMIT", "MUL_TOOM3_THRESHOLD_LIMIT", "SQR_TOOM3_THRESHOLD_LIMIT",
    "MUL_BASECASE_MAX_UN", "MP_SIZE_T_MAX", "WANT_FFT",
    "MPN_KARA_MUL_N_MINSIZE", "MPN_TOOM3_MUL_N_MINSIZE", "MPN_TOOM4_MUL_N_MINSIZE", "MPN_TOOM8H_MUL_MINSIZE",
    "MPN_KARA_SQR_N_MINSIZE", "MPN_TOOM3_SQR_N_MINSIZE", "MPN_TOOM4_SQR_N_MINSIZE", "MPN_TOOM8_SQR_N_MINSIZE",
    "FFT_MULMOD_2EXPP1_CUTOFF", "FFT_N_NUM",
]
# every other object-like macro whose name matches is exported too (new tuning knobs show up by themselves)
WANTED = re.compile(r"^(MUL|SQR|MULLOW|MULHIGH|MULMID|MULMOD|MULMOD_2EXPM1|MULMOD_2EXPP1)_\w*THRESHOLD(_LIMIT)?$"
                    r"|^MPN_\w+_MINSIZE$|^MPN_TOOM3_MAX_N$")

def _dm(build, src_text=None, src_path=None):
    with tempfile.TemporaryDirectory(dir=vlib.CACHE) as td:
        if src_path is None:
            src_path = os.path.join(td, "stub.c")
            open(src_path, "w").write(src_text)
        rc, out = vlib.run(["gcc", "-E", "-dM", "-w", "-I" + build, "-I" + os.path.join(build, "mpn"),
                            "-DHAVE_CONFIG_H", "-D__GMP_WITHIN_GMP", src_path])
        if rc != 0: raise RuntimeError("gcc -E -dM failed on %s:\n%s" % (src_path, out[-2000:]))
    macros = {}
    for ln in out.split("\n"):
        m = re.match(r"#define (\w+)(\([^)]*\))? ?(.*)$", ln)
        if m: macros[m.group(1)] = (m.group(2), m.group(3).strip())
    return macros

def macro_table(build):
    """all macros visible to a translation unit of the library (+ mul.c's local ones)"""
    os.makedirs(vlib.CACHE, exist_ok=True)
    macros = _dm(build, src_text='#include "mpir.h"\n#include "gmp-impl.h"\n#include "longlong.h"\n')
    mulc = os.path.join(build, "mpn", "generic", "mul.c")
    if not os.path.exists(mulc): raise RuntimeError("mpn/generic/mul.c not found in the build tree")
    local = _dm(build, src_path=mulc)
    for k in ("MUL_BASECASE_MAX_UN",):
        if k in local: macros[k] = local[k]
    return macros

def parse_braces(txt):
    """`{ { 4, 3 }, { 3, 3 } }` -> nested python lists of ints; raises on anything else"""
    toks = re.findall(r"[{},]|-?\d+", txt)
    if "".join(toks) != re.sub(r"\s+", "", txt): raise RuntimeError("unparsable table initialiser: %r" % txt[:200])
    pos = 0
    def item():
        nonlocal pos
        if toks[pos] == "{":
            pos += 1; out = []
            while toks[pos] != "}":
                out.append(item())
                if toks[pos] == ",": pos += 1
            pos += 1; return out
        v = int(toks[pos]); pos += 1; return v
    r = item()
    if pos != len(toks): raise RuntimeError("trailing tokens in table initialiser")
    return r

def evaluate(build, names, extra_src=""):
    """compile a program against the build's headers printing (long) value of each macro"""
    body = "".join('  printf("%s %%ld\\n", (long)(%s));\n' % (n, n) for n in names)
    src = ('#include <stdio.h>\n#include "mpir.h"\n#include "gmp-impl.h"\n#include "longlong.h"\n%s\n'
           'static int t_fft[5][2] = FFT_TAB;\nstatic mp_size_t t_mm[FFT_N_NUM] = MULMOD_TAB;\n'
           'int main(void) {\n%s  printf("sizeof_FFT_TAB %%ld\\n", (long)(sizeof t_fft / sizeof t_fft[0][0]));\n'
           '  printf("sizeof_MULMOD_TAB %%ld\\n", (long)(sizeof t_mm / sizeof t_mm[0]));\n'
           '  for (int i = 0; i < 5; i++) for (int j = 0; j < 2; j++) printf("FFT_TAB_%%d_%%d %%d\\n", i, j, t_fft[i][j]);\n'
           '  for (int i = 0; i < FFT_N_NUM; i++) printf("MULMOD_TAB_%%d %%ld\\n", i, (long) t_mm[i]);\n'
           '  return 0; }\n') % (extra_src, body)
    with tempfile.TemporaryDirectory(dir=vlib.CACHE) as td:
        c = os.path.join(td, "p.c"); exe = os.path.join(td, "p")
        open(c, "w").write(src)
        rc, out = vlib.run(["gcc", "-w", "-O0", "-I" + build, "-DHAVE_CONFIG_H", "-D__GMP_WITHIN_GMP", c, "-o", exe])
        if rc != 0: raise RuntimeError("cannot compile the constant printer:\n" + out[-3000:])
        rc, out = vlib.run([exe])
        if rc != 0: raise RuntimeError("constant printer failed")
    vals = {}
    for ln in out.split("\n"):
        m = re.match(r"^(\w+) (-?\d+)$", ln.strip())
        if m: vals[m.group(1)] = int(m.group(2))
    return vals

def collect(build):
    macros = macro_table(build)
    for need in ("FFT_TAB", "MULMOD_TAB"):
        if need not in macros: raise RuntimeError("macro %s is not defined by the build's headers" % need)
    names = [n for n in REQUIRED]
    for n, (params, body) in sorted(macros.items()):
        if params is None and WANTED.match(n) and n not in names: names.append(n)
    missing = [n for n in names if n not in macros]
    if missing: raise RuntimeError("macros not defined in this build: %s" % missing)
    extra = "#ifndef MUL_BASECASE_MAX_UN\n#define MUL_BASECASE_MAX_UN %s\n#endif\n" % macros["MUL_BASECASE_MAX_UN"][1]
    vals = evaluate(build, names, extra)
    for n in names:
        if n not in vals: raise RuntimeError("no value printed for %s" % n)
    fft_tab = parse_braces(macros["FFT_TAB"][1]); mm_tab = parse_braces(macros["MULMOD_TAB"][1])
    if not (isinstance(fft_tab, list) and all(isinstance(r, list) and len(r) == 2 and all(isinstance(x, int) for x in r) for r in fft_tab)):
        raise RuntimeError("FFT_TAB is not a list of pairs: %r" % (fft_tab,))
    if not all(isinstance(x, int) for x in mm_tab): raise RuntimeError("MULMOD_TAB is not a flat list")
    # cross-check the textual parse with what the compiler put into the arrays
    if vals["sizeof_FFT_TAB"] != 10 or len(fft_tab) > 5: raise RuntimeError("FFT_TAB does not initialise int[5][2]")
    full = [r for r in fft_tab] + [[0, 0]] * (5 - len(fft_tab))
    for i in range(5):
        for j in range(2):
            if vals["FFT_TAB_%d_%d" % (i, j)] != full[i][j]: raise RuntimeError("FFT_TAB text/compiled mismatch at [%d][%d]" % (i, j))
    nn = vals["FFT_N_NUM"]
    if vals["sizeof_MULMOD_TAB"] != nn or len(mm_tab) > nn: raise RuntimeError("MULMOD_TAB does not initialise mp_size_t[FFT_N_NUM]")
    fullm = mm_tab + [0] * (nn - len(mm_tab))
    for i in range(nn):
        if vals["MULMOD_TAB_%d" % i] != fullm[i]: raise RuntimeError("MULMOD_TAB text/compiled mismatch at [%d]" % i)
    return names, vals, full, fullm, macros

def lean_int(v):
    return str(v) if v >= 0 else "(%d)" % v

def render(names, vals, fft_tab, mm_tab):
    o = ["-- GENERATED by tools/gen_params.py from the build tree's headers (gcc -E -dM + a compiled constant printer).",
         "-- Do not edit: regenerated on every check; a change of any value re-checks every theorem that mentions it.",
         "namespace Mpir.Gen", "",
         "/-- Tuning constants of the build, one field per C macro (same spelling). -/",
         "structure Params where"]
    for n in names: o.append("  %s : Int" % n)
    o += ["  /-- `FFT_TAB` as compiled into `mpir_fft_tuning_table[5][2]` (fft/mul_fft_main.c) -/", "  FFT_TAB : List (List Int)",
          "  /-- `MULMOD_TAB` as compiled into `mulmod_2expp1_table_n[FFT_N_NUM]` -/", "  MULMOD_TAB : List Int",
          "  deriving Repr, DecidableEq", "",
          "/-- The constants of the tree under check. -/", "def params : Params where"]
    for n in names: o.append("  %s := %s" % (n, lean_int(vals[n])))
    o.append("  FFT_TAB := [%s]" % ", ".join("[%s]" % ", ".join(lean_int(x) for x in r) for r in fft_tab))
    o.append("  MULMOD_TAB := [%s]" % ", ".join(lean_int(x) for x in mm_tab))
    o += ["", "end Mpir.Gen", ""]
    return "\n".join(o)

def gen_params(ctx):
    names, vals, fft_tab, mm_tab, _ = collect(ctx.build)
    path = os.path.join(vlib.LEAN, "Mpir", "Gen", "Params.lean")
    return [os.path.relpath(path, vlib.VERIF)] if vlib.write_if_changed(path, render(names, vals, fft_tab, mm_tab)) else []

if __name__ == "__main__":
    class C: pass
    c = C(); c.build = sys.argv[1] if len(sys.argv) > 1 else vlib.get_build("plain")
    print(gen_params(c))
