#!/usr/bin/env python3
"""X translator for C04: for every library function that uses TMP_DECL, extract (with clang's AST, macros
re-pointed at marker calls) the control-flow skeleton over {MARK, ALLOC, FREE, RETURN, NORETURN} and emit it
as Lean data (lean/Mpir/Gen/TmpSkel.lean).  The theorem `tmp_balanced` (Props/C04_tmp.lean) says that on
every path temporary memory is marked before it is allocated and freed before the function returns."""
import os, re, sys, json, subprocess, glob, hashlib
from concurrent.futures import ThreadPoolExecutor
sys.path.insert(0, os.path.dirname(os.path.abspath(__file__)))
import vlib

SHIM = r'''
#include "config.h"
#include <stdio.h>
#include "mpir.h"
#include "gmp-impl.h"
#include "longlong.h"
void __vp_tmp_mark(int *); void *__vp_tmp_alloc(int *, unsigned long); void __vp_tmp_free(int *);
#undef TMP_DECL
#undef TMP_SDECL
#undef TMP_MARK
#undef TMP_SMARK
#undef TMP_ALLOC
#undef TMP_SALLOC
#undef TMP_BALLOC
#undef TMP_FREE
#undef TMP_SFREE
#define TMP_DECL int __vp_tmp_decl
#define TMP_SDECL int __vp_tmp_decl
#define TMP_MARK __vp_tmp_mark(&__vp_tmp_decl)
#define TMP_SMARK __vp_tmp_mark(&__vp_tmp_decl)
#define TMP_ALLOC(n) __vp_tmp_alloc(&__vp_tmp_decl, n)
#define TMP_SALLOC(n) __vp_tmp_alloc(&__vp_tmp_decl, n)
#define TMP_BALLOC(n) __vp_tmp_alloc(&__vp_tmp_decl, n)
#define TMP_FREE __vp_tmp_free(&__vp_tmp_decl)
#define TMP_SFREE __vp_tmp_free(&__vp_tmp_decl)
'''
NORETURN = {"abort", "exit", "__gmp_exception", "__gmp_divide_by_zero", "__gmp_sqrt_of_negative", "__gmp_invalid_operation", "__gmp_assert_fail", "__builtin_unreachable", "__builtin_trap"}
KIND = {"OTHER": 0, "MARK": 1, "ALLOC": 2, "FREE": 3, "RETURN": 4, "NORETURN": 5}

def sources(build):
    pats = ["*.c", "mpz/*.c", "mpq/*.c", "mpf/*.c", "mpn/*.c", "printf/*.c", "scanf/*.c", "fft/*.c"]
    out = []
    for p in pats:
        for f in sorted(glob.glob(os.path.join(build, p))):
            b = os.path.basename(f)
            if b.startswith(("gen-", "t-", "tal-debug", "tal-notreent")) or b in ("api_gen.c", "h_registry.c", "dumbmp.c"): continue
            try: s = open(f, errors="replace").read()
            except OSError: continue
            if re.search(r"\bTMP_S?DECL\b", s): out.append((f, s))
    return out

def functions_with_tmp(src):
    """names of functions (GNU style: name at column 0 followed by '(') whose body contains TMP_DECL"""
    names = []
    for m in re.finditer(r"(?m)^(?:[A-Za-z_][\w \t\*]*?[ \t\*\n])?([A-Za-z_]\w*)[ \t]*\((?:[^;{}()]|\([^()]*\))*\)\s*\{", src):
        name = m.group(1)
        if name in ("if", "while", "for", "switch", "return", "sizeof", "defined", "do", "else", "ASSERT", "ASSERT_ALWAYS"): continue
        i = m.end() - 1
        depth, j = 0, i
        while j < len(src):
            c = src[j]
            if c == "{": depth += 1
            elif c == "}":
                depth -= 1
                if depth == 0: break
            j += 1
        body = src[i:j + 1]
        if re.search(r"\bTMP_S?DECL\b", body): names.append(name)
    return names

class Cfg:
    def __init__(self): self.nodes = []
    def new(self, kind, succs=None):
        self.nodes.append([kind, list(succs or [])]); return len(self.nodes) - 1

def events_in(expr, out):
    """marker calls inside an expression subtree, in source order"""
    if not isinstance(expr, dict): return
    if expr.get("kind") == "CallExpr":
        callee = expr.get("inner", [{}])[0]
        name = None
        def findref(n):
            if not isinstance(n, dict): return None
            if n.get("kind") == "DeclRefExpr": return n.get("referencedDecl", {}).get("name")
            for c in n.get("inner", []):
                r = findref(c)
                if r: return r
            return None
        name = findref(callee)
        args = expr.get("inner", [])[1:]
        if name in ("__vp_tmp_mark", "__vp_tmp_alloc", "__vp_tmp_free"):
            def refid(n):
                if not isinstance(n, dict): return None
                if n.get("kind") == "DeclRefExpr": return n.get("referencedDecl", {}).get("id")
                for c in n.get("inner", []):
                    r = refid(c)
                    if r: return r
                return None
            mid = refid(args[0]) if args else None
            for a in args[1:]: events_in(a, out)
            out.append(({"__vp_tmp_mark": "MARK", "__vp_tmp_alloc": "ALLOC", "__vp_tmp_free": "FREE"}[name], mid))
            return
        for a in args: events_in(a, out)
        if name in NORETURN: out.append(("NORETURN", None))
        return
    for c in expr.get("inner", []): events_in(c, out)

def build_cfg(fn):
    g = Cfg()
    exit_ = g.new(("RETURN", None))              # falling off the end = return
    labels = {}; gotos = []
    def chain(evs, nxt):
        for e in reversed(evs):
            nxt = g.new(e, [nxt] if e[0] != "NORETURN" else [])
        return nxt
    def stmt(s, nxt, brk, cont):
        k = s.get("kind") if isinstance(s, dict) else None
        inner = s.get("inner", []) if isinstance(s, dict) else []
        if k == "CompoundStmt":
            for c in reversed(inner): nxt = stmt(c, nxt, brk, cont)
            return nxt
        if k == "IfStmt":
            cond, then = inner[0], inner[1]
            els = inner[2] if len(inner) > 2 else None
            t = stmt(then, nxt, brk, cont); e = stmt(els, nxt, brk, cont) if els else nxt
            ev = []; events_in(cond, ev)
            return chain(ev, g.new(("OTHER", None), [t, e]))
        if k in ("WhileStmt",):
            cond, body = inner[0], inner[-1]
            head = g.new(("OTHER", None), [])
            b = stmt(body, head, nxt, head)
            g.nodes[head][1] = [b, nxt]
            ev = []; events_in(cond, ev)
            return chain(ev, head) if ev else head
        if k == "DoStmt":
            body, cond = inner[0], inner[1]
            tail = g.new(("OTHER", None), [])
            b = stmt(body, tail, nxt, tail)
            g.nodes[tail][1] = [b, nxt]
            return b
        if k == "ForStmt":
            # inner: init, condvar, cond, inc, body (some may be {} placeholders)
            body = inner[-1]
            head = g.new(("OTHER", None), [])
            incn = g.new(("OTHER", None), [head])
            b = stmt(body, incn, nxt, incn)
            g.nodes[head][1] = [b, nxt]
            ev = []
            for c in inner[:-1]: events_in(c, ev)
            return chain(ev, head)
        if k == "SwitchStmt":
            body = inner[-1]
            head = g.new(("OTHER", None), [])
            cases = []
            def sw(s2, nx):
                kk = s2.get("kind")
                if kk == "CompoundStmt":
                    for c in reversed(s2.get("inner", [])): nx = sw(c, nx)
                    return nx
                if kk in ("CaseStmt", "DefaultStmt"):
                    sub = s2.get("inner", [])[-1]
                    n2 = sw(sub, nx) if sub.get("kind") in ("CaseStmt", "DefaultStmt") else stmt(sub, nx, nxt, cont)
                    cases.append(n2); return n2
                return stmt(s2, nx, nxt, cont)
            sw(body, nxt)
            g.nodes[head][1] = cases + [nxt]
            ev = []; events_in(inner[0], ev)
            return chain(ev, head)
        if k == "ReturnStmt":
            ev = []
            for c in inner: events_in(c, ev)
            return chain(ev, g.new(("RETURN", None)))
        if k == "BreakStmt": return brk if brk is not None else nxt
        if k == "ContinueStmt": return cont if cont is not None else nxt
        if k == "GotoStmt":
            n = g.new(("OTHER", None), []); gotos.append((n, s.get("targetLabelDeclId"))); return n
        if k == "LabelStmt":
            n = stmt(inner[-1], nxt, brk, cont) if inner else nxt
            m = g.new(("OTHER", None), [n]); labels[s.get("declId")] = m; return m
        if k in ("NullStmt", None): return nxt
        ev = []; events_in(s, ev)
        return chain(ev, nxt) if ev else nxt
    body = [c for c in fn.get("inner", []) if c.get("kind") == "CompoundStmt"]
    if not body: return None
    entry = stmt(body[0], exit_, None, None)
    for n, lab in gotos:
        if lab not in labels: raise RuntimeError("goto to unknown label in " + fn.get("name", "?"))
        g.nodes[n][1] = [labels[lab]]
    return g, entry

def clang_fn(build, path, name):
    rel = os.path.relpath(path, build)
    d = os.path.dirname(path)
    src = SHIM + '#include "%s"\n' % os.path.basename(path)
    defs = []
    if os.path.basename(d) == "mpn":
        base = os.path.basename(path)[:-2]
        defs = ["-DOPERATION_" + base]
    cmd = ["clang-14", "-fsyntax-only", "-w", "-x", "c", "-DHAVE_CONFIG_H", "-D__GMP_WITHIN_GMP", "-I" + build, "-I" + d, "-I" + os.path.join(build, "fft")] + defs + \
          ["-Xclang", "-ast-dump=json", "-Xclang", "-ast-dump-filter=" + name.lstrip("_"), "-"]
    p = subprocess.run(cmd, input=src.encode(), stdout=subprocess.PIPE, stderr=subprocess.PIPE, cwd=d)
    txt = p.stdout.decode(errors="replace")
    # the filter prints several JSON documents back to back
    dec = json.JSONDecoder(); i = 0; out = []
    while i < len(txt):
        while i < len(txt) and txt[i] in " \r\n\t": i += 1
        if i >= len(txt): break
        if txt[i] != "{":
            j = txt.find("\n{", i)
            if j < 0: break
            i = j + 1; continue
        obj, i = dec.raw_decode(txt, i); out.append(obj)
    fns = [o for o in out if o.get("kind") == "FunctionDecl" and o.get("name", "").endswith(name.lstrip("_")) and re.match(r"^_*g?_*$", o.get("name", "")[:len(o.get("name", "")) - len(name.lstrip("_"))]) and any(c.get("kind") == "CompoundStmt" for c in o.get("inner", []))]
    if not fns: raise RuntimeError("clang found no definition of %s in %s: %s" % (name, rel, p.stderr.decode(errors="replace")[:300]))
    return fns[-1]

def extract(build):
    jobs = []
    for path, src in sources(build):
        names = functions_with_tmp(src)
        for n in dict.fromkeys(names): jobs.append((path, n))
    def work(job):
        path, name = job
        fn = clang_fn(build, path, name)
        r = build_cfg(fn)
        if r is None: raise RuntimeError("no body: " + name)
        g, entry = r
        ids = sorted({k[1] for k, _ in g.nodes if k[1] is not None})
        out = []
        for n, mid in enumerate(ids):
            nodes = [[(k[0] if (k[1] == mid or k[0] in ("RETURN", "NORETURN", "OTHER")) else "OTHER"), sc] for k, sc in g.nodes]
            out.append((os.path.relpath(path, build), name if len(ids) == 1 else "%s#%d" % (name, n + 1), nodes, entry))
        return out
    with ThreadPoolExecutor(max_workers=vlib.NPROC) as ex: res = [x for r in ex.map(work, jobs) for x in r]
    per_file = {}
    for rel, name, nodes, entry in res: per_file[rel] = per_file.get(rel, 0) + 1
    def count_decls(item):
        path, src = item
        d = os.path.dirname(path); defs = ["-DOPERATION_" + os.path.basename(path)[:-2]] if os.path.basename(d) == "mpn" else []
        p = subprocess.run(["clang-14", "-E", "-P", "-w", "-x", "c", "-DHAVE_CONFIG_H", "-D__GMP_WITHIN_GMP", "-I" + build, "-I" + d, "-I" + os.path.join(build, "fft")] + defs + ["-"],
                           input=(SHIM + '#include "%s"\n' % os.path.basename(path)).encode(), stdout=subprocess.PIPE, stderr=subprocess.PIPE, cwd=d)
        return os.path.relpath(path, build), len(re.findall(r"\bint __vp_tmp_decl\b", p.stdout.decode(errors="replace")))
    with ThreadPoolExecutor(max_workers=vlib.NPROC) as ex: counts = dict(ex.map(count_decls, sources(build)))
    for rel, ndecl in counts.items():
        if per_file.get(rel, 0) < ndecl and not os.path.basename(rel).startswith("tal-"):
            raise RuntimeError("%s: %d TMP_DECL after preprocessing but %d marker skeletons extracted" % (rel, ndecl, per_file.get(rel, 0)))
    return res

def gen_tmpskel(ctx):
    build = ctx.build
    cache = os.path.join(build, ".tmpskel.json")
    if os.path.exists(cache): res = json.load(open(cache))
    else:
        res = extract(build); json.dump(res, open(cache, "w"))
    if len(res) < 100: raise RuntimeError("only %d functions with TMP_DECL found" % len(res))
    rows = []
    for n, (rel, name, nodes, entry) in enumerate(sorted(res, key=lambda r: (r[0], r[1]))):
        ns = ", ".join("(%d, [%s])" % (KIND[k], ", ".join(str(x) for x in dict.fromkeys(s))) for k, s in nodes)
        rows.append('def tmpFn%d : TmpFn := { file := "%s", name := "%s", entry := %d, nodes := [%s] }' % (n, rel, name, entry, ns))
    txt = ("-- GENERATED by tools/gen_tmpskel.py from the working tree (clang AST, TMP_* macros re-pointed at markers) — do not edit.\n"
           "set_option maxRecDepth 100000\n"
           "namespace Mpir.Gen\n/-- node kinds: 0 other, 1 TMP_MARK, 2 TMP_ALLOC, 3 TMP_FREE, 4 return, 5 call that does not return -/\n"
           "structure TmpFn where\n  file : String\n  name : String\n  entry : Nat\n  nodes : List (Nat × List Nat)\n\n"
           + "\n".join(rows) + "\n\ndef tmpFns : List TmpFn := [" + ", ".join("tmpFn%d" % i for i in range(len(rows))) + "]\nend Mpir.Gen\n")
    p = os.path.join(vlib.LEAN, "Mpir", "Gen", "TmpSkel.lean")
    return [p] if vlib.write_if_changed(p, txt) else []

if __name__ == "__main__":
    class C: pass
    c = C(); c.build = sys.argv[1] if len(sys.argv) > 1 else vlib.get_build()
    print(gen_tmpskel(c))
