#!/usr/bin/env python3
"""Source pins: a hand-written Lean model mirrors particular C functions/macros.  The model was validated
(theorems + correspondence) against exactly that source text; when the text of a pinned function changes,
the claim "theorem about the model => statement about the code" has to be re-established, so the check
treats it like a broken proof obligation (search for a failing input, else no-failing-input-found).
Pins are declared by the property parts as  PINS = [("mpn/generic/add_n.c", "mpn_add_n"), ("mpir.h", "__GMPN_AORS_1"), ("mpz/aors.h", None)]
(None = whole file) and the expected fingerprints live in /verif/pins/<ID>.json (tools/pins.py --update)."""
import os, re, sys, json, hashlib
sys.path.insert(0, os.path.dirname(os.path.abspath(__file__)))
import vlib

def strip(src):
    src = re.sub(r"/\*.*?\*/", " ", src, flags=re.S)
    src = re.sub(r"//[^\n]*", " ", src)
    return src

def norm(text):
    return re.sub(r"\s+", " ", text).strip()

def find_function(src, name):
    """text of the C function or macro `name` in (comment-stripped) src; None if absent.
    `NAME#k` selects the k-th `#define NAME` of the file (1-based) where a macro has several conditional variants."""
    if "#" in name:
        name, k = name.split("#"); ms = list(re.finditer(r"(?m)^[ \t]*#[ \t]*define[ \t]+%s\b((?:[^\n\\]|\\\n|\\.)*)" % re.escape(name), src))
        return ms[int(k) - 1].group(0) if len(ms) >= int(k) else None
    m = re.search(r"(?m)^[ \t]*#[ \t]*define[ \t]+%s\b((?:[^\n\\]|\\\n|\\.)*)" % re.escape(name), src)
    if m: return m.group(0)
    for m in re.finditer(r"(?m)^(?:[A-Za-z_][\w \t\*]*?[ \t\*\n])?%s[ \t]*\((?:[^;{}()]|\([^()]*\))*\)\s*\{" % re.escape(name), src):
        i = m.end() - 1; depth = 0; j = i
        while j < len(src):
            if src[j] == "{": depth += 1
            elif src[j] == "}":
                depth -= 1
                if depth == 0: return src[m.start():j + 1]
            j += 1
    # a C++ class / struct definition `class NAME { ... }` (gmp-impl.h: gmp_allocated_string)
    for m in re.finditer(r"(?m)^[ \t]*(?:class|struct)[ \t]+%s\b[^;{]*\{" % re.escape(name), src):
        depth = 0; j = m.end() - 1
        while j < len(src):
            if src[j] == "{": depth += 1
            elif src[j] == "}":
                depth -= 1
                if depth == 0: return src[m.start():j + 1]
            j += 1
    return None

def fingerprint(root, path, name):
    p = os.path.join(root, path)
    if not os.path.exists(p): return "<missing file>"
    src = strip(open(p, errors="replace").read())
    if name is None: text = src
    else:
        text = find_function(src, name)
        if text is None: return "<missing function>"
    return hashlib.sha256(norm(text).encode()).hexdigest()[:20]

def current(root, pins):
    return {"%s:%s" % (f, n or "*"): fingerprint(root, f, n) for f, n in pins}

def expected_path(pid): return os.path.join(vlib.VERIF, "pins", pid + ".json")

def compare(root, pid, pins):
    """returns (list of human-readable changes, number of pins)"""
    try: exp = json.load(open(expected_path(pid)))
    except Exception: exp = {}
    cur = current(root, pins)
    out = []
    for k, v in cur.items():
        if k not in exp: continue                      # not yet pinned: nothing to compare against
        if exp[k] != v: out.append("%s (pinned %s, now %s)" % (k, exp[k], v))
    return out, len([k for k in cur if k in exp])

if __name__ == "__main__":
    import check
    ids = [a for a in sys.argv[1:] if not a.startswith("-")] or ["C%02d" % i for i in range(1, 21)]
    for pid in ids:
        try: mod = check.load_property(pid)
        except Exception as e: print(pid, "skip", e); continue
        pins = getattr(mod, "PINS", [])
        if not pins: continue
        cur = current(vlib.REPO, pins)
        bad = [k for k, v in cur.items() if v.startswith("<")]
        if bad: print(pid, "UNRESOLVED pins:", bad)
        if "--update" in sys.argv:
            os.makedirs(os.path.dirname(expected_path(pid)), exist_ok=True)
            json.dump(cur, open(expected_path(pid), "w"), indent=1, sort_keys=True)
        print(pid, len(cur), "pins")
