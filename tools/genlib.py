"""Input generators shared by the property modules.  Every random choice comes from the `rng` passed in."""
B = 1 << 64
M = B - 1

def hx(n):
    return ("-%x" % -n) if n < 0 else ("%x" % n)

def vec(l):
    return "[" + ",".join("%x" % x for x in l) + "]"

def sbytes(b):
    if isinstance(b, str): b = b.encode()
    return "s" + b.hex()

def limbs_of(v, n=None):
    out = []
    while v: out.append(v & M); v >>= 64
    if n is not None:
        out = (out + [0] * n)[:n]
    return out

def rrandomb(rng, bits):
    """long runs of 0s and 1s, like mpz_rrandomb"""
    v, pos, bit = 0, 0, rng.getrandbits(1)
    while pos < bits:
        run = 1 + int(rng.expovariate(1.0 / max(1, bits / 6)))
        run = min(run, bits - pos)
        if bit: v |= ((1 << run) - 1) << pos
        pos += run; bit ^= 1
    return v

DATA_CLASSES = ["uniform", "runs", "ones", "zero", "onebit", "lowbit", "top", "sparse"]
def rand_limbs(rng, n, cls=None):
    cls = cls or rng.choice(DATA_CLASSES)
    if cls == "uniform": return [rng.getrandbits(64) for _ in range(n)]
    if cls == "runs": return limbs_of(rrandomb(rng, 64 * n), n)
    if cls == "ones": return [M] * n
    if cls == "zero": return [0] * n
    if cls == "onebit": return limbs_of(1 << rng.randrange(64 * n), n)
    if cls == "lowbit": return [1] + [0] * (n - 1)
    if cls == "top": return [0] * (n - 1) + [rng.choice([1, 1 << 63, M])]
    if cls == "sparse": return [rng.choice([0, 0, M, 1, 1 << 63, rng.getrandbits(64)]) for _ in range(n)]
    raise ValueError(cls)

def rand_limb(rng):
    return rng.choice([0, 1, 2, 3, M, M - 1, 1 << 63, (1 << 63) - 1, (1 << 63) + 1, 1 << 32, (1 << 32) - 1,
                       rng.getrandbits(64), rng.getrandbits(64), rng.getrandbits(64), rng.getrandbits(rng.randrange(1, 65))])

def rand_int(rng, maxlimbs=8, signed=True):
    n = rng.randrange(0, maxlimbs + 1)
    if n == 0: return 0
    v = 0
    for i, x in enumerate(rand_limbs(rng, n)): v |= x << (64 * i)
    if signed and rng.random() < 0.45: v = -v
    return v

def sizes(rng, tier, small=70, big=5000, nbig=12):
    """every size 1..small, then log-spaced sizes up to big"""
    s = list(range(1, small + 1))
    if tier == "thorough": nbig *= 3
    for _ in range(nbig):
        s.append(int(small * (big / small) ** rng.random()))
    return s
