#!/usr/bin/env python3
"""Regenerates the machine-derived appendices of DESIGN.md (between the AUTO markers): theorem registry per property,
repaired/known findings, seeded changes and which checks catch them."""
import os, sys, json, glob, re
sys.path.insert(0, os.path.dirname(os.path.abspath(__file__)))
import vlib, check
out = []
out.append("### A.1 Registered theorems and ties per property (from tools/props/*.py)\n")
out.append("| id | theorems | Lean modules | regenerated from source (GEN) | source pins | parts |")
out.append("|---|---|---|---|---|---|")
for i in range(1, 21):
    pid = "C%02d" % i
    try: m = check.load_property(pid)
    except Exception as e: out.append("| %s | (not built: %s) | | | | |" % (pid, e)); continue
    gens = ", ".join(getattr(g, "__name__", str(g)) for g in getattr(m, "GEN", [])) or "—"
    out.append("| %s | %d | %s | %s | %d | %s |" % (pid, len(m.THEOREMS), ", ".join(x.replace("MpirProofs.Props.", "") for x in m.LEAN_MODULES) or "—", gens, len(getattr(m, "PINS", [])), ", ".join(p.replace("props.", "") for p in m.PARTS)))
out.append("")
k = json.load(open(os.path.join(vlib.VERIF, "known_findings.json")))
out.append("### A.2 Genuine defects repaired in /repo (`fix:` commits; from known_findings.json)\n")
for f in k["fixed"]: out.append("* " + f.replace("fixed: ", ""))
out.append("\n### A.3 Known findings (unrepaired)\n")
for f in k["known"]: out.append("* property=%s match=`%s` — %s" % (f["property"], f["match"], f["what"]))
out.append("\n### A.4 Seeded changes (/verif/seeded/*/meta.json)\n")
out.append("| seed | property | files | needs | detected by | how |")
out.append("|---|---|---|---|---|---|")
for d in sorted(glob.glob(os.path.join(vlib.VERIF, "seeded", "*"))):
    try: m = json.load(open(os.path.join(d, "meta.json")))
    except Exception: continue
    cell = lambda s: str(s).replace("|", "/").replace("\n", " ")[:260]
    out.append("| %s | %s | %s | %s | %s | %s |" % (os.path.basename(d), m.get("property", ""), cell(", ".join(m.get("files", [])) if isinstance(m.get("files"), list) else m.get("files", "")), cell(m.get("needs", "")), ", ".join(m.get("detected_by", [])) or "**none**", cell(m.get("detection", "") + ((" — " + m["note"]) if m.get("note") else ""))))
txt = "\n".join(out) + "\n"
p = os.path.join(vlib.VERIF, "DESIGN.md")
s = open(p).read()
a, b = "<!-- AUTO:BEGIN -->", "<!-- AUTO:END -->"
s = s[:s.index(a) + len(a)] + "\n" + txt + s[s.index(b):]
open(p, "w").write(s)
print("tables updated")
