#!/usr/bin/env python3
"""check.py <ID> [--tier quick|thorough] [--seed N] [--replay FILE]
Decides one property on /repo's current working tree.  See DESIGN.md section 1 for the verdict logic."""
import sys, os, time, json, random, importlib, argparse, traceback, collections, re
sys.path.insert(0, os.path.dirname(os.path.abspath(__file__)))
import vlib
from vlib import log

def load_known():
    p = os.path.join(vlib.VERIF, "known_findings.json")
    try: return json.load(open(p))
    except Exception: return {"known": [], "fixed": []}

def segments(lines):
    """split an op stream into replayable units: a stateful history runs from `@reset` to the next `@reset`."""
    segs, cur = [], None
    for ln in lines:
        op = ln.split(" ", 1)[0]
        if op == "@reset":
            if cur: segs.append(cur)
            cur = [ln]
        elif op.startswith("@"):
            if cur is None: cur = ["@reset"]
            cur.append(ln)
        else:
            if cur: segs.append(cur); cur = None
            segs.append([ln])
    if cur: segs.append(cur)
    return segs

class Ctx: pass

class Merged:
    """a property module merged with its parts tools/props/<id>_<topic>.py (lists concatenated, generators chained)"""
    pass

def load_property(pid):
    import glob
    base = importlib.import_module("props." + pid.lower())
    parts = [importlib.import_module("props." + os.path.basename(f)[:-3])
             for f in sorted(glob.glob(os.path.join(os.path.dirname(os.path.abspath(__file__)), "props", pid.lower() + "_*.py")))]
    m = Merged()
    for k in dir(base):
        if not k.startswith("__"): setattr(m, k, getattr(base, k))
    mods = [base] + parts
    for k in ("THEOREMS", "LEAN_MODULES", "GEN", "TRUSTED", "ASSUMPTIONS", "PINS"):
        acc = []
        for x in mods:
            for v in getattr(x, k, []):
                if v not in acc: acc.append(v)
        setattr(m, k, acc)
    gens = [x.gen_ops for x in mods if hasattr(x, "gen_ops")]
    if gens:
        def gen_ops(rng, tier, ctx=None):
            for g in gens:
                yield from g(rng, tier, ctx)
        m.gen_ops = gen_ops
    nts = [x.nontrivial for x in mods if hasattr(x, "nontrivial")]
    if nts:
        m.nontrivial = lambda line: next((k for k in (f(line) for f in nts) if k is not None), None)
    xb = [x.explain_broken for x in mods if hasattr(x, "explain_broken")]
    if xb: m.explain_broken = lambda ctx, pb: "\n".join(filter(None, (f(ctx, pb) for f in xb)))
    exs = [x.extra for x in mods if hasattr(x, "extra")]
    if exs:
        def extra(ctx, cov):
            out = []
            for e in exs: out += e(ctx, cov) or []
            return out
        m.extra = extra
    rules = [getattr(x, "RULE") for x in mods if hasattr(x, "RULE")]
    if rules: m.RULE = " || ".join(rules)
    m.PARTS = [x.__name__ for x in mods]
    return m

def differential(ctx, lines, label=""):
    """run lines through harness and driver; return (bad list, impl outputs, model outputs)"""
    if not lines: return [], [], []
    rc, impl, err = vlib.run_stream(ctx.harness, lines, env=ctx.mod_env, timeout=900 if getattr(ctx, "tier", "quick") == "quick" else 3600)
    if rc != 0 or len(impl) != len(lines):
        # harness died: find the line (sanitizer abort / crash) — the op after the last answered one
        k = len(impl)
        what = "<hang> the call did not return" if rc == vlib.HANG_RC else "<crash rc=%d> %s" % (rc, err.strip().split("\n")[0][:300] if err.strip() else "")
        bad = [(k, lines[k] if k < len(lines) else "<eof>", what, "<no crash>")]
        ctx.crash_stderr = err[-6000:]
        # a disagreement in the answered prefix comes first: the crash may be the late consequence of an earlier wrong store
        if k > 0:
            try:
                rc2, model, err2 = vlib.run_stream(ctx.driver, [a + " => " + b for a, b in zip(lines[:k], impl[:k])])
                if rc2 == 0 and len(model) == k:
                    early = vlib.diff_streams(lines[:k], impl[:k], model)
                    if early: return early + bad, impl, model
            except Exception: pass
        return bad, impl, []
    dl = [a + " => " + b for a, b in zip(lines, impl)]
    rc2, model, err2 = vlib.run_stream(ctx.driver, dl)
    if rc2 != 0 or len(model) != len(lines):
        raise RuntimeError("Lean driver failed (rc=%d) after %d lines: %s" % (rc2, len(model), err2[-2000:]))
    return vlib.diff_streams(lines, impl, model), impl, model

def shrink_segment(ctx, seg):
    """greedy line removal for stateful histories; single ops are returned as is."""
    if len(seg) <= 2: return seg
    bad0, _, _ = differential(ctx, seg)
    if not bad0: return seg
    op0 = bad0[0][1].split(" ", 1)[0]; sig0 = (bad0[0][2].split(" ")[0][:1], bad0[0][3].split(" ")[0][:1])
    def fails(s):
        """still failing in the same way: same op name, same kind of answer on both sides (marker vs value)"""
        try:
            bad, _, _ = differential(ctx, s)
            return bool(bad) and bad[0][1].split(" ", 1)[0] == op0 and (bad[0][2].split(" ")[0][:1] == "!") == (sig0[0] == "!") and not bad[0][2].startswith("?") and not bad[0][3].startswith("?")
        except Exception: return False
    cur = list(seg); changed = True; budget = 200
    # cut everything after the first failing line
    bad, _, _ = differential(ctx, cur)
    if bad: cur = cur[: bad[0][0] + 1]
    while changed and budget > 0:
        changed = False
        i = 1
        while i < len(cur) - 1 and budget > 0:
            cand = cur[:i] + cur[i + 1:]; budget -= 1
            if fails(cand): cur = cand; changed = True
            else: i += 1
    return cur

def main():
    ap = argparse.ArgumentParser()
    ap.add_argument("pid"); ap.add_argument("--tier", default=os.environ.get("VERIF_TIER", "quick"))
    ap.add_argument("--seed", type=int, default=int(os.environ.get("VERIF_SEED", "1")))
    ap.add_argument("--replay")
    a = ap.parse_args()
    pid, tier, seed = a.pid, a.tier, a.seed
    if tier not in ("quick", "thorough"): tier = "quick"
    t0 = time.time()
    mod = load_property(pid)
    rng = random.Random("%s-%d" % (pid, seed))
    ctx = Ctx(); ctx.pid, ctx.tier, ctx.seed, ctx.rng, ctx.mod = pid, tier, seed, rng, mod
    ctx.mod_env = getattr(mod, "ENV", None); ctx.crash_stderr = ""
    known = load_known()
    level = getattr(mod, "LEVEL", "proof")
    if level == "proof" and not getattr(mod, "THEOREMS", []): level = "exploration"   # nothing proved yet: do not claim it
    ev = {"property_id": pid, "tier": tier, "seed": seed, "level": level,
          "coverage": {}, "assumptions": list(getattr(mod, "ASSUMPTIONS", [])), "wall_s": 0.0, "violations": 0}
    cov = ev["coverage"]
    violations = []      # (description, replay_path, has_input)
    proof_broken = []    # reasons

    def finish(code):
        ev["wall_s"] = round(time.time() - t0, 1); ev["violations"] = len(violations)
        os.makedirs(os.path.join(vlib.VERIF, "evidence"), exist_ok=True)
        json.dump(ev, open(os.path.join(vlib.VERIF, "evidence", pid + ".json"), "w"), indent=1)
        sys.exit(code)

    # 1. build the library from the working tree
    try:
        ctx.build = vlib.get_build(getattr(mod, "VARIANT", "plain"))
        ctx.harness = vlib.get_harness(ctx.build, getattr(mod, "VARIANT", "plain"), getattr(mod, "HARNESS_FLAGS", ""))
    except vlib.BuildError as e:
        print("ERROR: cannot build /repo working tree or harness:\n%s" % e); cov["explanation"] = "build failed"; finish(2)

    # 2. regenerate the source-derived Lean files (tables, translated code, skeletons)
    regen = []
    for g in getattr(mod, "GEN", []):
        try:
            regen += g(ctx) or []
        except Exception as e:
            proof_broken.append("translator %s failed on the current source: %s" % (getattr(g, "__name__", g), e))
            log(traceback.format_exc())
    cov["regenerated_files_changed"] = regen
    # source pins of the functions the hand-written models mirror
    import pins as pinsmod
    changed, npinned = pinsmod.compare(ctx.build, pid, [tuple(x) for x in getattr(mod, "PINS", [])])
    cov["source_pins"] = npinned; cov["source_pins_changed"] = changed
    for c in changed: proof_broken.append("the source text of a function mirrored by the Lean model changed: " + c)

    # 3. proofs + audit
    theorems = list(getattr(mod, "THEOREMS", []))
    modules = list(getattr(mod, "LEAN_MODULES", []))
    discharged = 0; thm_status = {}
    driver_ok = True
    try:
        ctx.driver = vlib.get_driver()
    except vlib.BuildError as e:
        driver_ok = False; proof_broken.append("model/driver no longer builds: " + str(e)[-1500:])
    if modules:
        ok, fails = vlib.lean_build(modules)
        if not ok:
            for m, msg in fails.items(): proof_broken.append("Lean module %s no longer checks: %s" % (m, msg[:1500]))
        else:
            res, raw = vlib.axiom_audit(theorems, modules)
            for t, ax in res.items():
                extra = [x for x in ax if x not in vlib.ALLOWED_AXIOMS]
                thm_status[t] = ax
                if extra: proof_broken.append("theorem %s: axioms %s" % (t, extra))
                else: discharged += 1
        if ok and tier == "thorough":
            # independent re-check of the compiled proof modules (and the lemma modules they import from this library) by leanchecker
            lem = sorted("MpirProofs.Lemmas." + os.path.basename(f)[:-5] for f in __import__("glob").glob(os.path.join(vlib.LEAN, "MpirProofs", "Lemmas", "*.lean")))
            imported = set()
            for m in modules:
                try: txt = open(os.path.join(vlib.LEAN, m.replace(".", "/") + ".lean")).read()
                except Exception: txt = ""
                imported |= set(re.findall(r"^import (MpirProofs\.Lemmas\.\w+)", txt, re.M))
            rechecked = []; t0 = time.time()
            for m in list(modules) + sorted(imported & set(lem)):
                rc, out = vlib.lake(["env", "leanchecker", m], timeout=1800)
                rechecked.append(m)
                if rc != 0: proof_broken.append("leanchecker rejects module %s: %s" % (m, out[-800:]))
            cov["leanchecker"] = {"modules": rechecked, "wall_s": round(time.time() - t0, 1)}
        srcs = [os.path.join(vlib.LEAN, m.replace(".", "/") + ".lean") for m in modules]
        srcs += [p for p in __import__("glob").glob(os.path.join(vlib.LEAN, "MpirProofs", "Lemmas", "*.lean"))]
        srcs += [p for p in __import__("glob").glob(os.path.join(vlib.LEAN, "Mpir", "**", "*.lean"), recursive=True)]
        badsrc = vlib.source_audit([s for s in srcs if os.path.exists(s)])
        if badsrc: proof_broken.append("forbidden construct in Lean sources: %s" % badsrc[:5])
    cov["obligations"] = len(theorems); cov["discharged"] = discharged
    cov["theorem_axioms"] = thm_status
    cov["checker_cmd"] = "cd lean && lake build %s && lake env lean <#print axioms file>" % " ".join(modules)
    cov["trusted_base"] = list(getattr(mod, "TRUSTED", [])) + ["Lean 4.33 kernel; axioms propext, Classical.choice, Quot.sound only",
                           "correspondence harness (harness/*.c), generators (tools/props/%s.py), Lean driver compiled by Lean's compiler" % pid.lower()]

    # 4. correspondence
    def corpus_lines():
        out = []
        for f in sorted(__import__("glob").glob(os.path.join(vlib.VERIF, "corpus", pid, "*.ops"))):
            out += [l.rstrip("\n") for l in open(f) if l.strip() and not l.startswith("#")]
        return out
    stats = collections.Counter(); samples = []; evaluations = 0; distinct = set()
    def run_batch(lines, label):
        nonlocal evaluations
        bad, impl, model = differential(ctx, lines, label)
        evaluations += len(lines)
        for i, ln in enumerate(lines):
            op = ln.split(" ", 1)[0]; stats[op] += 1
            k = mod.nontrivial(ln) if hasattr(mod, "nontrivial") else ln
            if k is not None: distinct.add(hash(k))
        if impl and len(samples) < 6:
            for j in sorted(set([0, len(lines) // 2, len(lines) - 1])):
                if j < len(impl): samples.append({"op": lines[j][:300], "impl": impl[j][:200], "model": (model[j][:200] if j < len(model) else "")})
        return bad
    def report(bad, lines):
        """turn the first disagreement into a replay file"""
        segs = segments(lines); idx = bad[0][0]; pos = 0; seg = None
        for s in segs:
            if pos <= idx < pos + len(s): seg = s; break
            pos += len(s)
        seg = seg or [bad[0][1]]
        if bad[0][2].startswith("<hang>"): seg = seg[: idx - pos + 1] if len(seg) > 1 else seg       # every re-run of a hanging history costs a full timeout: cut after the hanging line only
        else: seg = shrink_segment(ctx, seg)
        n = len(__import__("glob").glob(os.path.join(vlib.VERIF, "replay", pid + "-*.ops"))) + 1
        path = os.path.join(vlib.VERIF, "replay", "%s-%d.ops" % (pid, n))
        os.makedirs(os.path.dirname(path), exist_ok=True)
        with open(path, "w") as f:
            f.write("# property %s  seed %d  tier %s\n# op: %s\n# implementation: %s\n# model/spec:     %s\n" % (pid, seed, tier, bad[0][1][:500], bad[0][2][:500], bad[0][3][:500]))
            if ctx.crash_stderr: f.write("".join("# " + l + "\n" for l in ctx.crash_stderr.split("\n")[:60]))
            f.write("\n".join(seg) + "\n")
        return path, bad[0]

    if a.replay:
        lines = [l.rstrip("\n") for l in open(a.replay) if l.strip() and not l.startswith("#")]
        bad, impl, model = differential(ctx, lines)
        for b in bad: print("DISAGREE line %d: %s\n  impl : %s\n  model: %s" % (b[0], b[1][:300], b[2][:300], b[3][:300]))
        if bad: print("VIOLATION property=%s replay=%s" % (pid, a.replay)); sys.exit(1)
        print("replay agrees on %d ops" % len(lines)); sys.exit(0)

    known_printed = set()
    def is_known(desc):
        for k in known.get("known", []):
            if k.get("property") == pid and re.search(k["match"], desc):
                if k["match"] not in known_printed:
                    print("KNOWN-FINDING: property=%s %s" % (pid, k.get("what", k["match"]))); known_printed.add(k["match"])
                return True
        return False
    def run_lines(lines, label):
        """run a batch; disagreements that match a listed known finding are reported as such and skipped
        (the rest of the batch is still examined); returns the first unlisted disagreement as (path, bad) or None"""
        for _ in range(20):
            bad = run_batch(lines, label)
            if not bad: return None
            b = bad[0]
            if is_known("%s | impl=%s | model=%s" % (b[1], b[2], b[3])):
                # drop the history / line that exhibits the known finding and look at the rest
                segs = segments(lines); pos = 0; keep = []
                for sg in segs:
                    if not (pos <= b[0] < pos + len(sg)): keep += sg
                    pos += len(sg)
                lines = keep
                continue
            return report(bad, lines)
        return None
    found = None
    if driver_ok:
        batches = [("corpus", corpus_lines())]
        if hasattr(mod, "gen_ops"): batches.append(("generated", list(mod.gen_ops(rng, tier, ctx))))
        for label, lines in batches:
            if not lines: continue
            found = run_lines(lines, label)
            if found: break
    # the same op stream against an AddressSanitizer build of the working tree (modules opt in with ASAN = True):
    # out-of-bounds reads/writes that leave the values intact are invisible to the comparison above
    if driver_ok and not found and getattr(mod, "ASAN", False):
        try:
            abuild = vlib.get_build("asan"); aexe = vlib.get_harness(abuild, "asan", getattr(mod, "HARNESS_FLAGS", ""))
        except vlib.BuildError as e:
            print("ERROR: sanitizer build failed: %s" % e); finish(2)
        plain = ctx.harness; ctx.harness = aexe
        env0 = ctx.mod_env; ctx.mod_env = dict(env0 or {}, ASAN_OPTIONS="detect_leaks=0:allocator_may_return_null=1")
        frac = getattr(mod, "ASAN_FRACTION", 1.0 if tier == "quick" else 0.5)
        for label, lines in batches:
            if not lines or found: continue
            sub = lines if frac >= 1.0 or label == "corpus" else [l for i, l in enumerate(lines) if (i * 7919) % 1000 < frac * 1000 or l.startswith("@")]
            found = run_lines(sub, "asan-" + label)
        cov["asan_ops"] = True
        ctx.harness = plain; ctx.mod_env = env0
    # property-specific extra monitors (sanitizer builds, thread runs, compiled C++ programs, ...)
    extra_v = []
    if hasattr(mod, "extra") and not found:
        try: extra_v = mod.extra(ctx, cov) or []
        except vlib.BuildError as e:
            print("ERROR: extra stage build failed: %s" % e); finish(2)

    # 5. search when a proof obligation broke and no failing input is known yet
    extra_new = [e for e in extra_v if not is_known(e[0])]          # listed known findings must not mask a broken proof obligation
    if proof_broken and not found and not extra_new and driver_ok and hasattr(mod, "gen_ops"):
        log("proof obligation broken; searching for a failing input")
        budget = time.time() + (240 if tier == "quick" else 1200); s = 0
        while time.time() < budget and not found:
            s += 1
            r2 = random.Random("%s-search-%d-%d" % (pid, seed, s))
            lines = list(mod.gen_ops(r2, "thorough" if s > 1 else tier, ctx))
            if hasattr(mod, "search_ops"): lines = list(mod.search_ops(r2, ctx, proof_broken)) + lines
            found = run_lines(lines, "search")
        cov["search_rounds"] = s

    cov["evaluations"] = evaluations; cov["distinct_nontrivial"] = len(distinct)
    cov["rule"] = getattr(mod, "RULE", "ops generated by tools/props/%s.py from one PRNG seeded by VERIF_SEED; distinct = distinct op lines" % pid.lower())
    cov["samples"] = samples; cov["ops_histogram"] = dict(stats)
    cov["proof_broken"] = proof_broken

    code = 0
    if found:
        path, b = found
        desc = "%s | impl=%s | model=%s" % (b[1], b[2], b[3])
        violations.append(desc)
        print("DISAGREE: %s\n  impl : %s\n  model: %s" % (b[1][:400], b[2][:400], b[3][:400]))
        print("VIOLATION property=%s replay=%s" % (pid, path)); code = 1
    for desc, path in extra_v:
        if not is_known(desc):
            violations.append(desc); print("VIOLATION property=%s replay=%s" % (pid, path)); code = 1
    if proof_broken and code == 0 and not found and not extra_new:
        n = len(__import__("glob").glob(os.path.join(vlib.VERIF, "replay", pid + "-*.txt"))) + 1
        path = os.path.join(vlib.VERIF, "replay", "%s-%d.txt" % (pid, n))
        os.makedirs(os.path.dirname(path), exist_ok=True)
        extra_txt = ""
        if hasattr(mod, "explain_broken"):
            try: extra_txt = "\n\n" + (mod.explain_broken(ctx, proof_broken) or "")
            except Exception as e: extra_txt = "\n\n(explain_broken failed: %s)" % e
        open(path, "w").write("property %s: proof obligation / translation no longer checks on the current tree\n\n" % pid + "\n\n".join(proof_broken) + extra_txt + "\n\nsearch: %d ops evaluated on implementation and model, no failing input found\n" % evaluations)
        if extra_txt.strip(): print("DETAIL: " + extra_txt.strip()[:500])
        violations.append("proof broken")
        for r in proof_broken: print("BROKEN: " + r[:600])
        print("VIOLATION property=%s replay=%s no-failing-input-found" % (pid, path)); code = 1
    for k in known.get("known", []):            # listed findings this run did not exercise are still named on every run
        if k.get("property") == pid and k["match"] not in known_printed:
            print("KNOWN-FINDING: property=%s %s [not exercised in this run: %s]" % (pid, k.get("what", k["match"]), k.get("exercised", "the generated inputs of this tier/seed did not reach it")))
    if code == 0:
        print("OK property=%s tier=%s seed=%d theorems=%d/%d ops=%d wall=%.0fs" % (pid, tier, seed, discharged, len(theorems), evaluations, time.time() - t0))
    finish(code)

if __name__ == "__main__":
    main()
