"""asmkern.py — every x86-64 assembly kernel of the tree as a separately linkable, separately testable object.

  enumerate  : every `.asm` / `.as` under <build>/mpn/x86_64/** (not `fat/`; the Windows tree x86_64w is a sibling
               directory and is never entered)
  assemble   : with the repo's own rules (mpn/Makefile `.asm.o`: m4 -DOPERATION_<base> file | $(CCAS) $(COMPILE_FLAGS);
               `.as.lo`: yasm -I <top> -f elf64 $(GSYM_FLAG)), flags read from <build>/mpn/Makefile
  classify   : entry points = global text symbols `__gmpn_<fn>` of the object; ISA extensions = mnemonics of the
               disassembly mapped to /proc/cpuinfo flags (a kernel the host cannot execute is SKIPPED AND LISTED)
  prefix     : every defined global symbol S of kernel number N is renamed k<N>_S (objcopy --redefine-syms), so all
               kernels of all CPU directories can be linked side by side with the default library
  harness    : one harness binary per CPU directory; harness/ops_*.c are recompiled with
               -D__gmpn_<fn>=k<N>___gmpn_<fn> -DHAVE_NATIVE_mpn_<fn>=1 for every function the directory provides, so every
               op that calls `mpn_<fn>` (directly, through a function pointer or through an mpir.h / gmp-impl.h inline)
               now calls the directory's kernel.  Which ops reach which kernel is read back from the relocations of the
               recompiled objects (function -> static helpers -> k<N>_ symbols), so new ops files are picked up
               without any table here.

Everything is cached under <build>/asmkern keyed by content hashes (<build> itself is keyed by the tree hash).
CLI:  python3 tools/asmkern.py [--dirs]    prints the inventory for the current working tree."""
import os, re, sys, json, glob, hashlib, shutil, subprocess, collections
from concurrent.futures import ThreadPoolExecutor
sys.path.insert(0, os.path.dirname(os.path.abspath(__file__)))
import vlib

TOOLVER = "asmkern-5"
X86 = "mpn/x86_64"
SKIP_DIRS = {"fat"}

def sh(cmd, cwd=None, inp=None, timeout=600):
    p = subprocess.run(cmd, cwd=cwd, input=inp, stdout=subprocess.PIPE, stderr=subprocess.PIPE, shell=isinstance(cmd, str), timeout=timeout)
    return p.returncode, p.stdout.decode("utf-8", "replace"), p.stderr.decode("utf-8", "replace")

def sha(*parts):
    h = hashlib.sha256()
    for p in parts:
        h.update(p if isinstance(p, bytes) else str(p).encode()); h.update(b"\0")
    return h.hexdigest()[:20]

# ------------------------------------------------------------------------------------------------ host
_host = None
def host_flags():
    global _host
    if _host is None:
        _host = set()
        try:
            for ln in open("/proc/cpuinfo"):
                if ln.startswith("flags"):
                    _host = set(ln.split(":", 1)[1].split()); break
        except OSError: pass
        _host -= set(filter(None, os.environ.get("C14_HOST_FLAGS_DROP", "").split(",")))      # testing aid: pretend the host lacks these
    return _host

# mnemonic -> /proc/cpuinfo flag.  Everything x86-64 guarantees (base ISA, cmov, MMX, SSE, SSE2) is BASE.
ISA_EXACT = {
    "mulx": "bmi2", "shlx": "bmi2", "shrx": "bmi2", "sarx": "bmi2", "rorx": "bmi2", "pdep": "bmi2", "pext": "bmi2", "bzhi": "bmi2",
    "adcx": "adx", "adox": "adx",
    "andn": "bmi1", "blsi": "bmi1", "blsr": "bmi1", "blsmsk": "bmi1", "bextr": "bmi1", "tzcnt": "bmi1",
    "lzcnt": "abm", "popcnt": "popcnt", "lahf": "lahf_lm", "sahf": "lahf_lm", "movbe": "movbe",
    "movddup": "pni", "lddqu": "pni", "movshdup": "pni", "movsldup": "pni", "haddpd": "pni", "haddps": "pni", "hsubpd": "pni", "hsubps": "pni",
    "addsubpd": "pni", "addsubps": "pni", "fisttp": "pni",
    "pshufb": "ssse3", "palignr": "ssse3", "pabsb": "ssse3", "pabsw": "ssse3", "pabsd": "ssse3", "phaddw": "ssse3", "phaddd": "ssse3",
    "phsubw": "ssse3", "phsubd": "ssse3", "pmaddubsw": "ssse3", "pmulhrsw": "ssse3", "psignb": "ssse3", "psignw": "ssse3", "psignd": "ssse3",
    "pinsrq": "sse4_1", "pinsrd": "sse4_1", "pinsrb": "sse4_1", "pextrq": "sse4_1", "pextrd": "sse4_1", "pextrb": "sse4_1", "ptest": "sse4_1",
    "pblendw": "sse4_1", "pblendvb": "sse4_1", "blendpd": "sse4_1", "blendps": "sse4_1", "blendvpd": "sse4_1", "blendvps": "sse4_1",
    "pmulld": "sse4_1", "pmuldq": "sse4_1", "pminsd": "sse4_1", "pmaxsd": "sse4_1", "pminud": "sse4_1", "pmaxud": "sse4_1", "pcmpeqq": "sse4_1",
    "movntdqa": "sse4_1", "packusdw": "sse4_1", "pmovzxbw": "sse4_1", "pmovzxdq": "sse4_1", "pmovsxdq": "sse4_1", "roundpd": "sse4_1", "insertps": "sse4_1",
    "pcmpgtq": "sse4_2", "crc32": "sse4_2", "pcmpistri": "sse4_2", "pcmpestri": "sse4_2",
    "prefetchw": "3dnowprefetch", "prefetch": "3dnowprefetch", "femms": "3dnow", "pclmulqdq": "pclmulqdq",
    "extrq": "sse4a", "insertq": "sse4a", "movntsd": "sse4a", "movntss": "sse4a",
}
AVX2_ANY = ("vpbroadcast", "vperm2i128", "vpermq", "vpermd", "vpermpd", "vpermps", "vpsllv", "vpsrlv", "vpsrav", "vpblendd", "vpgather", "vgather",
            "vinserti128", "vextracti128", "vpmaskmov", "vbroadcasti128")
BASE = set("""mov movq movd movabs movl movb movw movzbl movzbq movzwl movzwq movsbl movsbq movswl movswq movslq movsxd movzx movsx
 adc adcq adcl add addq addl sbb sbbq sub subq mul mulq imul imulq div divq idiv lea ret retq je jne jz jnz jae jb ja jbe jg jge jl jle jp jnp jns js jo jno jc jnc
 jmp jmpq jrcxz jecxz call callq pop popq push pushq cmp cmpq cmpl cmpb bt btq btr bts btc xor xorl xorq and andq andl or orq orl not notq neg negq dec decq decl inc incq incl
 shr shrq shl shlq sar sarq sal rcl rclq rcr rcrq rol ror shrd shld test testq testb testl xchg nop nopl nopw nopq data16 es cs ss ds fs gs rep repz repnz lock
 cmovb cmovae cmova cmovbe cmove cmovne cmovg cmovge cmovl cmovle cmovs cmovns cmovc cmovnc cmovz cmovnz cmovp cmovnp cmovo cmovno
 setb setae seta setbe sete setne setg setge setl setle sets setns setc setnc setz setnz setp setnp seto setno
 clc stc cmc cld std bsr bsf bswap cqto cltq cltd cwtl cdq cqo leave xlat movs movsq stos stosq lods lodsq scas cmps cpuid rdtsc pause
 emms movdqu movdqa movapd movaps movupd movups movhpd movlpd movhps movlps movhlps movlhps movsd movss movntdq movntq movnti movntpd movntps movdq2q movq2dq maskmovdqu
 por pxor pand pandn psrlq psllq psrld pslld psrlw psllw psraw psrad psrldq pslldq paddb paddw paddd paddq psubb psubw psubd psubq pmuludq pmullw pmulhw pmulhuw pmaddwd
 pcmpeqb pcmpeqw pcmpeqd pcmpgtb pcmpgtw pcmpgtd pshufd pshufw pshuflw pshufhw shufpd shufps unpcklpd unpckhpd unpcklps unpckhps
 punpcklqdq punpckhqdq punpckldq punpckhdq punpcklbw punpckhbw punpcklwd punpckhwd packsswb packssdw packuswb psadbw pavgb pavgw pmaxub pminub pmaxsw pminsw pmovmskb movmskpd movmskps
 andpd andps andnpd andnps orpd orps xorpd xorps addpd addsd subpd subsd mulpd mulsd divpd divsd sqrtsd cvtsi2sd cvtsi2sdq cvttsd2si cvtsd2si cvtdq2pd cvtpd2dq comisd ucomisd
 prefetcht0 prefetcht1 prefetcht2 prefetchnta sfence lfence mfence pinsrw pextrw ud2 int3 hlt endbr64 cwtd cbtw xadd cmpxchg""".split())

def classify_insn(mn, ops):
    """returns (cpuinfo flag or None, known?)"""
    if mn in ISA_EXACT: return ISA_EXACT[mn], True
    if mn.startswith("v") and mn not in ("verr", "verw"):
        if "zmm" in ops or re.search(r"%k[0-7]\b|\{%?k[0-7]\}", ops): return "avx512f", True
        if mn.startswith("vfm") or mn.startswith("vfnm"): return "fma", True
        if mn.startswith(AVX2_ANY): return "avx2", True
        if mn == "vbroadcastsd" and "(" not in ops: return "avx2", True
        if mn.startswith("vp") and "ymm" in ops: return "avx2", True
        return "avx", True
    if mn in BASE: return None, True
    return None, False

def isa_simd_of(obj):
    rc, out, err = sh(["objdump", "-d", "--no-show-raw-insn", obj])
    a, b = isa_of(obj, out)
    return a, b, bool(re.search(r"%[xyz]mm\d", out))

def isa_of(obj, out=None):
    if out is None: rc, out, err = sh(["objdump", "-d", "--no-show-raw-insn", obj])
    need, unknown = set(), set()
    for ln in out.split("\n"):
        f = ln.split("\t")
        if len(f) < 2 or not f[0].strip().endswith(":"): continue
        ins = f[1].strip().split(None, 1)
        if not ins: continue
        mn = ins[0]; ops = ins[1] if len(ins) > 1 else ""
        if mn in ("(bad)", ".byte"): unknown.add(mn); continue
        while mn in ("rep", "repz", "repnz", "lock", "data16", "es", "cs", "ss", "ds", "fs", "gs", "rex.W", "notrack", "bnd") and ops:
            ins = ops.split(None, 1); mn = ins[0]; ops = ins[1] if len(ins) > 1 else ""
        fl, known = classify_insn(mn, ops)
        if fl: need.add(fl)
        if not known: unknown.add(mn)
    return sorted(need), sorted(unknown)

# ------------------------------------------------------------------------------------------------ enumerate / assemble
def enumerate_kernels(build):
    root = os.path.join(build, X86); out = []
    for d, ds, fs in os.walk(root):
        ds[:] = sorted(x for x in ds if x not in SKIP_DIRS)
        for f in sorted(fs):
            if f.endswith((".asm", ".as")): out.append(os.path.relpath(os.path.join(d, f), build))
    return sorted(out)

def make_var(mk, name):
    m = re.search(r"^%s\s*=\s*(.*)$" % re.escape(name), mk, re.M)
    return m.group(1).strip() if m else ""

def build_rules(build):
    """the flags of the repo's own .asm.o / .as.lo rules, read from the configured mpn/Makefile"""
    mk = open(os.path.join(build, "mpn", "Makefile")).read()
    r = {"M4": make_var(mk, "M4") or "m4", "CCAS": make_var(mk, "CCAS") or "gcc -c", "DEFS": make_var(mk, "DEFS"),
         "YASM": make_var(mk, "MPIR_AS") or "yasm", "OBJECT_FORMAT": make_var(mk, "OBJECT_FORMAT") or "-f elf64", "GSYM_FLAG": make_var(mk, "GSYM_FLAG")}
    if not re.search(r"^\.asm\.o:\n\t\$\(M4\) -DOPERATION_\$\* ", mk, re.M) or ".as.lo:" not in mk:
        raise vlib.BuildError("mpn/Makefile: the .asm.o / .as.lo rules are not the ones tools/asmkern.py reproduces")
    return r

def _inc_hash(build):
    h = hashlib.sha256()
    for f in ("config.m4", "yasm_mac.inc", "mpn/asm-defs.m4", "mpn/x86_64/x86_64-defs.m4", "mpn/Makefile"):
        p = os.path.join(build, f)
        h.update(open(p, "rb").read() if os.path.exists(p) else b"-")
    return h.hexdigest()

def assemble_raw(build, rel, rules, inc_h, cdir):
    """assemble one kernel exactly as the repo's Makefile would; returns dict (cached by content)"""
    src = os.path.join(build, rel); base = os.path.splitext(os.path.basename(rel))[0]
    key = sha(TOOLVER, rel, open(src, "rb").read(), inc_h, json.dumps(rules, sort_keys=True))
    obj = os.path.join(cdir, "raw-%s.o" % key); meta = obj[:-2] + ".json"
    if os.path.exists(meta):
        try: return json.load(open(meta))
        except Exception: pass
    mpn = os.path.join(build, "mpn"); srcrel = os.path.relpath(src, mpn)
    if rel.endswith(".as"):
        cmd = "%s -I .. %s %s -o %s %s" % (rules["YASM"], rules["OBJECT_FORMAT"], rules["GSYM_FLAG"], obj, srcrel)
    else:
        cmd = "set -o pipefail; %s -DOPERATION_%s %s | %s %s -D__GMP_WITHIN_GMP -I.. -DOPERATION_%s -I. -I.. -x assembler - -o %s" % (
            rules["M4"], base, srcrel, rules["CCAS"], rules["DEFS"], base, obj)
    rc, out, err = sh(["bash", "-c", cmd], cwd=mpn)
    r = {"path": rel, "key": key, "cmd": cmd, "obj": None, "error": None}
    if rc != 0 or not os.path.exists(obj) or os.path.getsize(obj) == 0:
        r["error"] = ("rc=%d " % rc) + (err + out).strip()[:600]
        if os.path.exists(obj): os.unlink(obj)
    else:
        rc, out, err = sh(["nm", "-g", obj])
        r["defined"] = sorted(l.split()[2] for l in out.split("\n") if len(l.split()) == 3 and l.split()[1] in "TtDdRrBb" and l.split()[1].isupper())
        r["undefined"] = sorted(l.split()[1] for l in out.split("\n") if len(l.split()) == 2 and l.split()[0] == "U")
        r["funcs"] = sorted(s[len("__gmpn_"):] for s in r["defined"] if s.startswith("__gmpn_"))
        r["plain"] = False
        if not r["funcs"]:       # entry point not renamed by asm-defs.m4 (k8only/lshift3..6): the plain symbol mpn_<fn>
            r["funcs"] = sorted(s[len("mpn_"):] for s in r["defined"] if s.startswith("mpn_")); r["plain"] = bool(r["funcs"])
        r["isa"], r["isa_unknown"], r["simd"] = isa_simd_of(obj)
        r["obj"] = obj
    json.dump(r, open(meta, "w"))
    return r

def header_notes(build, rel):
    """alignment / size assumptions stated in the header comments (evidence only)"""
    notes = []
    try:
        for ln in open(os.path.join(build, rel), errors="replace").read().split("\n")[:120]:
            s = ln.strip()
            if s[:1] in (";", "#") or s.startswith(("dnl", "C ", "C\t")):
                if re.search(r"\balign(ed|ment)?\b.*\b(require|must|assum|need)|\b(require|must|assum|need)\w*\b.*\balign|\bn\s*>=?\s*\d|\bsize\s*>=?\s*\d|\bmust be\b", s, re.I):
                    notes.append(s.lstrip(";#C dnl").strip()[:160])
    except OSError: pass
    return notes[:4]

class Kernel:
    def __init__(self, idx, d):
        self.idx = idx; self.path = d["path"]; self.dir = os.path.dirname(d["path"])[len(X86):].lstrip("/") or "."
        self.error = d.get("error"); self.raw = d.get("obj"); self.key = d["key"]; self.cmd = d["cmd"]
        self.plain = d.get("plain", False); self.funcs = d.get("funcs", []); self.defined = d.get("defined", []); self.undefined = d.get("undefined", [])
        self.isa = d.get("isa", []); self.isa_unknown = d.get("isa_unknown", []); self.simd = d.get("simd", False)
        self.missing = [f for f in self.isa if f not in host_flags()]
        self.prefix = "k%d_" % idx; self.obj = None
    @property
    def assembled(self): return self.error is None
    @property
    def executable(self): return self.assembled and not self.missing
    def csym(self, fn): return ("mpn_%s" if self.plain else "__gmpn_%s") % fn          # the C-level symbol the library headers use
    def sym(self, fn): return self.prefix + self.csym(fn)

def load(build):
    """-> list of Kernel (all of them, also the ones that failed to assemble), prefixed objects built"""
    cdir = os.path.join(build, "asmkern"); os.makedirs(cdir, exist_ok=True)
    rules = build_rules(build); inc_h = _inc_hash(build); rels = enumerate_kernels(build)
    with ThreadPoolExecutor(max_workers=vlib.NPROC) as ex:
        raws = list(ex.map(lambda r: assemble_raw(build, r, rules, inc_h, cdir), rels))
    ks = [Kernel(i, d) for i, d in enumerate(raws)]
    bydir = collections.defaultdict(dict)     # dir -> fn -> kernel (first provider)
    for k in ks:
        if k.executable:
            for f in k.funcs: bydir[k.dir].setdefault(f, k)
    def prefix(k):
        if not k.assembled: return
        # undefined `__gmpn_<fn>` references bind to the same directory's kernel when there is one (as in a build for that CPU), else to the library
        redir = []
        for u in k.undefined:
            fn = u[len("__gmpn_"):] if u.startswith("__gmpn_") else None
            o = bydir[k.dir].get(fn) if fn else None
            if o is not None and o is not k: redir.append((u, o.sym(fn)))
        pairs = [(s, k.prefix + s) for s in k.defined] + redir
        k.obj = os.path.join(cdir, "k%d-%s.o" % (k.idx, sha(k.key, json.dumps(pairs))))
        if os.path.exists(k.obj): return
        mapf = k.obj + ".map"; open(mapf, "w").write("".join("%s %s\n" % p for p in pairs))
        rc, out, err = sh(["objcopy", "--redefine-syms=" + mapf, k.raw, k.obj + ".tmp"])
        os.unlink(mapf)
        if rc != 0: k.error = "objcopy: " + err[:300]; k.obj = None; return
        os.replace(k.obj + ".tmp", k.obj)
    with ThreadPoolExecutor(max_workers=vlib.NPROC) as ex: list(ex.map(prefix, ks))
    return ks

# ------------------------------------------------------------------------------------------------ harness variants
def ops_sources():
    return sorted(glob.glob(os.path.join(vlib.VERIF, "harness", "ops_*.c")))

def harness_hash():
    h = hashlib.sha256()
    for s in vlib.harness_sources() + sorted(glob.glob(os.path.join(vlib.VERIF, "harness", "*.h"))): h.update(open(s, "rb").read())
    return h.hexdigest()

CC_BASE = "gcc -O1 -g -w -ffunction-sections -fdata-sections -DHAVE_CONFIG_H"
ALIGN_C = os.path.join(os.path.dirname(os.path.abspath(__file__)), "asmkern_align.c")      # allocation-alignment control (C14_ALIGN) for the kernel harnesses

def op_table(src, build, dflags):
    """{op name: C function} of an ops file, from the preprocessed text of its `const opdef_t ops_x[] = {...}` table"""
    rc, out, err = sh("gcc -E -P -w -DHAVE_CONFIG_H %s -I%s -I%s/harness %s" % (dflags, build, vlib.VERIF, src))
    if rc != 0: raise vlib.BuildError("cpp %s: %s" % (src, err[-800:]))
    tab = {}
    for m in re.finditer(r"const\s+opdef_t\s+\w+\s*\[\s*\]\s*=\s*\{(.*?)\}\s*;", out, re.S):
        for e in re.finditer(r"\{\s*((?:\"[^\"]*\"\s*)+),\s*\(?\s*(?:opfn_t\s*\)\s*)?&?\s*(\w+)\s*\)?\s*\}", m.group(1)):
            name = "".join(re.findall(r"\"([^\"]*)\"", e.group(1)))
            if name: tab[name] = e.group(2)
    return tab

def reach(obj):
    """{function symbol: set of undefined symbols reachable from it through this object's own sections}"""
    rc, S, _ = sh(["readelf", "-SW", obj]); rc2, sy, _ = sh(["readelf", "-sW", obj]); rc3, rl, _ = sh(["readelf", "-rW", obj])
    secname = {}
    for m in re.finditer(r"^\s*\[\s*(\d+)\]\s+(\S+)", S, re.M): secname[int(m.group(1))] = m.group(2)
    symsec, undef = {}, set()          # symbol name -> section name
    for ln in sy.split("\n"):
        f = ln.split()
        if len(f) >= 8 and f[0].rstrip(":").isdigit():
            name, ndx, typ = f[7], f[6], f[3]
            if ndx == "UND": undef.add(name)
            elif ndx.isdigit():
                symsec[name] = secname.get(int(ndx))
        elif len(f) == 7 and f[0].rstrip(":").isdigit() and f[3] == "SECTION" and f[6].isdigit():
            pass
    edges = collections.defaultdict(set); cur = None
    for ln in rl.split("\n"):
        m = re.match(r"Relocation section '\.rela?(\S+)'", ln)
        if m: cur = m.group(1); continue
        f = ln.split()
        if cur and len(f) >= 5 and re.fullmatch(r"[0-9a-f]{8,16}", f[0]):
            tgt = f[4]
            if tgt in undef: edges[cur].add(("U", tgt))
            elif tgt in symsec and symsec[tgt]: edges[cur].add(("S", symsec[tgt]))
            elif tgt.startswith("."): edges[cur].add(("S", tgt))
    memo = {}
    def closure(sec):
        seen, stack, out = {sec}, [sec], set()
        while stack:
            s = stack.pop()
            for kind, t in edges.get(s, ()):
                if kind == "U": out.add(t)
                elif t not in seen: seen.add(t); stack.append(t)
        return out
    res = {}
    for name, sec in symsec.items():
        if sec and sec.startswith(".text"):
            if sec not in memo: memo[sec] = closure(sec)
            res[name] = memo[sec]
    return res

class DirHarness:
    """one harness binary in which every `mpn_<fn>` the directory provides is that directory's kernel"""
    def __init__(self): self.exe = None; self.dir = None; self.round = 0; self.fnmap = {}; self.opmap = {}; self.error = None
    def kernels(self): return sorted(set(self.fnmap.values()), key=lambda k: k.idx)
    def ops_of(self, k): return sorted(op for op, ks in self.opmap.items() if k in ks)

def _compile(cmd):
    rc, out, err = sh(cmd)
    return rc, (out + err)[-3000:]

def base_objects(build, cdir):
    """main.c, the generated api table and the op registry, compiled once (they never call a kernel under test).  The
    registry and api_gen.c are generated privately here: <build>/h_registry.c is shared with every other check that
    uses the same scratch build."""
    import gen_api
    hh = harness_hash(); gd = os.path.join(cdir, "gen-%s" % hh[:16]); os.makedirs(gd, exist_ok=True)
    reg_c = os.path.join(gd, "h_registry.c"); api_c = os.path.join(gd, "api_gen.c")
    if not os.path.exists(reg_c) or not os.path.exists(api_c):
        regs = []
        for s in vlib.harness_sources(): regs += re.findall(r"^const opdef_t (ops_\w+)\[\]", open(s).read(), re.M)
        try:
            table, skipped = gen_api.classify(gen_api.prototypes(build)); gen_api.emit(table, api_c + ".tmp"); os.replace(api_c + ".tmp", api_c)
        except Exception as e:
            raise vlib.BuildError("gen_api failed on the current mpir.h: %s" % e)
        txt = '#include "harness.h"\n' + "".join("extern const opdef_t %s[];\n" % r for r in regs)
        txt += "const opdef_t *const h_registry[] = {%s 0};\n" % "".join(r + ", " for r in regs)
        open(reg_c + ".tmp", "w").write(txt); os.replace(reg_c + ".tmp", reg_c)
    srcs = [api_c, reg_c] + [s for s in vlib.harness_sources() if not os.path.basename(s).startswith("ops_")]
    objs = []
    for s in srcs:
        o = os.path.join(gd, os.path.basename(s)[:-2] + ".o")
        if not os.path.exists(o):
            rc, msg = _compile("%s -I%s -I%s/harness -c %s -o %s.tmp && mv %s.tmp %s" % (CC_BASE, build, vlib.VERIF, s, o, o, o))
            if rc != 0: raise vlib.BuildError("harness object %s: %s" % (s, msg))
        objs.append(o)
    return objs

def dir_harnesses(build, kernels, dirs=None):
    """-> list of DirHarness for the wanted directories (default all).  Kernels of one directory that provide the same
    function go to different rounds (= different binaries), so each binary maps every function to exactly one kernel."""
    cdir = os.path.join(build, "asmkern"); os.makedirs(cdir, exist_ok=True)
    base = base_objects(build, cdir); hh = harness_hash()
    plan = []
    bydir = collections.defaultdict(list)
    for k in kernels:
        if k.executable and k.funcs and k.obj: bydir[k.dir].append(k)
    for d in sorted(bydir):
        if dirs is not None and d not in dirs: continue
        rounds = []
        for k in bydir[d]:
            for r in rounds:
                if not (set(k.funcs) & set(r)):
                    for f in k.funcs: r[f] = k
                    break
            else:
                rounds.append({f: k for f in k.funcs})
        for i, r in enumerate(rounds):
            h = DirHarness(); h.dir = d; h.round = i; h.fnmap = r; plan.append(h)
    def build_one(h):
        try:
            dflags = " ".join("-D%s=%s -DHAVE_NATIVE_mpn_%s=1" % (k.csym(f), k.sym(f), f) for f, k in sorted(h.fnmap.items()))
            tag = sha(TOOLVER, hh, dflags, CC_BASE, open(ALIGN_C, "rb").read(), *[k.obj for k in h.kernels()])
            wd = os.path.join(cdir, "h-%s" % tag); os.makedirs(wd, exist_ok=True)
            metaf = os.path.join(wd, "meta.json"); exe = os.path.join(wd, "harness")
            ksym = {k.sym(f): k for f, k in h.fnmap.items()}
            if os.path.exists(metaf) and os.path.exists(exe):
                meta = json.load(open(metaf))
            else:
                objs, opsyms = [], {}
                for s in ops_sources():
                    o = os.path.join(wd, os.path.basename(s)[:-2] + ".o")
                    rc, msg = _compile("%s %s -I%s -I%s/harness -c %s -o %s" % (CC_BASE, dflags, build, vlib.VERIF, s, o))
                    if rc != 0: raise vlib.BuildError("compile %s for %s: %s" % (os.path.basename(s), h.dir, msg))
                    objs.append(o)
                    tab = op_table(s, build, dflags); rch = reach(o)
                    for op, fn in tab.items():
                        hit = sorted(x for x in rch.get(fn, ()) if x in ksym)
                        if hit: opsyms[op] = hit
                cmd = "gcc -O1 -g -w -Wl,--wrap=malloc,--wrap=calloc,--wrap=realloc,--wrap=free %s %s %s %s %s/.libs/libmpir.a -lm -lpthread -o %s.tmp && mv %s.tmp %s" % (
                    ALIGN_C, " ".join(base), " ".join(objs), " ".join(k.obj for k in h.kernels()), build, exe, exe, exe)
                rc, msg = _compile(cmd)
                if rc != 0: raise vlib.BuildError("link harness for %s: %s" % (h.dir, msg))
                for o in objs: os.unlink(o)
                meta = {"opsyms": opsyms, "dflags": dflags}
                json.dump(meta, open(metaf, "w"))
            h.exe = exe
            h.opmap = {op: [ksym[s] for s in syms if s in ksym] for op, syms in meta["opsyms"].items()}
        except vlib.BuildError as e:
            h.error = str(e)
        return h
    with ThreadPoolExecutor(max_workers=max(2, vlib.NPROC // 2)) as ex:
        return list(ex.map(build_one, plan))

def default_build_kernels(build, kernels):
    """kernels that are part of the configured (pinned) build: the asm files linked into <build>/mpn/"""
    out = []
    for f in glob.glob(os.path.join(build, "mpn", "*.as")) + glob.glob(os.path.join(build, "mpn", "*.asm")):
        if os.path.islink(f):
            t = os.path.normpath(os.path.join(os.path.dirname(f), os.readlink(f)))
            rel = os.path.relpath(t, build)
            out += [k for k in kernels if k.path == rel]
    return sorted(out, key=lambda k: k.idx)

def main():
    build = vlib.get_build("plain")
    ks = load(build)
    print("kernels found %d, assembled %d, executable on this host %d" % (len(ks), sum(k.assembled for k in ks), sum(k.executable for k in ks)))
    for k in ks:
        if not k.assembled: print("  ASSEMBLE-FAIL %s: %s" % (k.path, k.error))
        elif k.missing: print("  NOT-EXECUTABLE %s needs %s" % (k.path, k.missing))
        if k.isa_unknown: print("  UNCLASSIFIED mnemonics in %s: %s" % (k.path, k.isa_unknown))
    if "--dirs" in sys.argv:
        hs = dir_harnesses(build, ks)
        tested = set()
        for h in hs:
            print("dir %-22s round %d: %d kernels, %d functions, ops redirected: %d %s" % (h.dir, h.round, len(h.kernels()), len(h.fnmap), len(h.opmap), h.error or ""))
            for ks_ in h.opmap.values(): tested |= set(k.idx for k in ks_)
        print("kernels reachable from some op: %d" % len(tested))
        fn_no = collections.Counter(f for k in ks if k.executable for f in k.funcs if k.idx not in tested)
        print("functions without an op:", dict(fn_no))

if __name__ == "__main__":
    main()
