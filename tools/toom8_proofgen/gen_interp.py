# generate the Lean proof of interp16_spec
from fractions import Fraction
G = ["g0","g1","g2","g3","g4","g5","g6"]
def lin(**kw): return dict(kw)
def add(a, b, k=1):
    r = dict(a)
    for x, c in b.items():
        r[x] = r.get(x, 0) + k*c
        if r[x] == 0: del r[x]
    return r
def scale(a, k): return {x: c*k for x, c in a.items() if c*k != 0}
def divex(a, d):
    for x, c in a.items(): assert c % d == 0, (a, d)
    return {x: c//d for x, c in a.items()}
ATOM = {"c15":"c15", "k2":"c15 / 2 ^ 2", "k4":"c15 / 2 ^ 4", "k6":"c15 / 2 ^ 6",
        "z28":"W * (c0 * 2 ^ 28)", "z14":"W * (c0 * 2 ^ 14)", "z42":"W * (c0 * 2 ^ 42)", "z0":"W * c0",
        "y2":"W * (c0 / 2 ^ 2)", "y4":"W * (c0 / 2 ^ 4)", "y6":"W * (c0 / 2 ^ 6)"}
for g in G: ATOM[g] = g
ORDER = G + ["c15","k2","k4","k6","z28","z14","z42","z0","y2","y4","y6"]
def show(a):
    if not a: return "0"
    out = []
    for x in ORDER:
        if x in a:
            c = a[x]
            t = ATOM[x] if c == 1 else ("%d * %s" % (abs(c), ATOM[x]) if abs(c) != 1 else ATOM[x])
            if c < 0: out.append("- " + t)
            else: out.append("+ " + t)
    s = " ".join(out)
    return s[2:] if s.startswith("+ ") else "-" + s[2:]
def poly(u, rev):
    return {G[j]: (u**(6-j) if rev else u**j) for j in range(7)}
def inputs(half):
    r = {}
    r[4] = add(poly(1, False), {"z0":1}); r[3] = add(poly(4, False), {"y2":1}); r[2] = add(poly(16, False), {"y4":1}); r[1] = add(poly(64, False), {"y6":1})
    r[6] = add(poly(4, True), {"z14":1}); r[5] = add(poly(16, True), {"z28":1}); r[7] = add(poly(64, True), {"z42":1})
    if half:
        r[4] = add(r[4], {"c15":1}); r[3] = add(r[3], {"c15":2**14}); r[2] = add(r[2], {"c15":2**28}); r[1] = add(r[1], {"c15":2**42})
        r[6] = add(r[6], {"k2":1}); r[5] = add(r[5], {"k4":1}); r[7] = add(r[7], {"k6":1})
    return r
def run(half):
    r = inputs(half); steps = []   # (name, form)
    def st(name, form): steps.append((name, form)); return form
    r0 = {"c15":1}
    if half:
        r[4] = st("a4", add(r[4], r0, -1)); r[3] = st("a3", add(r[3], r0, -2**14)); r[6] = st("a6", add(r[6], {"k2":1}, -1))
        r[2] = st("a2", add(r[2], r0, -2**28)); r[5] = st("a5", add(r[5], {"k4":1}, -1)); r[1] = st("a1", add(r[1], r0, -2**42)); r[7] = st("a7", add(r[7], {"k6":1}, -1))
    else:
        for nm, i in (("a4",4),("a3",3),("a6",6),("a2",2),("a5",5),("a1",1),("a7",7)): st(nm, r[i])
    r[5] = st("b5", add(r[5], {"z28":1}, -1))
    r[2] = st("b2", add(r[2], {"y4":1}, -1))
    w = st("w1", add(r[5], r[2], -1)); r[2] = st("c2", add(r[2], r[5])); r[5] = st("c5", w)
    r[6] = st("b6", add(r[6], {"z14":1}, -1))
    r[3] = st("b3", add(r[3], {"y2":1}, -1))
    w = st("w2", add(r[3], r[6])); r[6] = st("c6", add(r[6], r[3], -1)); r[3] = st("c3", w)
    r[7] = st("b7", add(r[7], {"z42":1}, -1))
    r[1] = st("b1", add(r[1], {"y6":1}, -1))
    w = st("w3", add(r[7], r[1], -1)); r[1] = st("c1", add(r[1], r[7])); r[7] = st("c7", w)
    r[4] = st("b4", add(r[4], {"z0":1}, -1))
    r[5] = st("d5", add(r[5], r[6], -1028))
    r[7] = st("d7", add(r[7], r[5], -1300))
    r[7] = st("e7", add(r[7], r[6], -1052688))
    st("D1", r[7])
    r[7] = st("f7", divex(r[7], 255*188513325))
    r[5] = st("e5", add(r[5], r[7], -12567555))
    st("D2", r[5])
    r[5] = st("f5", divex(r[5], 2835*64))
    r[6] = st("d6", add(r[6], r[7], -4095))
    r[6] = st("e6", add(r[6], r[5], 240))
    st("D3", r[6])
    r[6] = st("f6", divex(r[6], 255*4))
    r[3] = st("d3", add(r[3], r[4], -2**7))
    r[2] = st("d2", add(r[2], r[4], -2**13))
    r[2] = st("e2", add(r[2], r[3], -400))
    r[1] = st("d1", add(r[1], r[4], -2**19))
    r[1] = st("e1", add(r[1], r[2], -1428))
    r[1] = st("f1", add(r[1], r[3], -112896))
    st("D4", r[1])
    r[1] = st("h1", divex(r[1], 255*182712915))
    r[2] = st("f2", add(r[2], r[1], -15181425))
    st("D5", r[2])
    r[2] = st("h2", divex(r[2], 42525*16))
    r[3] = st("e3", add(r[3], r[1], -3969))
    r[3] = st("f3", add(r[3], r[2], -900))
    st("D6", r[3])
    r[3] = st("h3", divex(r[3], 9*16))
    r[4] = st("c4", add(r[4], r[1], -1)); r[4] = st("d4", add(r[4], r[3], -1)); r[4] = st("e4", add(r[4], r[2], -1))
    d = st("D7", add(r[2], r[6])); r[6] = st("i6", divex(d, 2)); r[2] = st("i2", add(r[2], r[6], -1))
    d = st("D8", add(r[3], r[5], -1)); r[5] = st("i5", divex(d, 2)); r[3] = st("i3", add(r[3], r[5], -1))
    d = st("D9", add(r[1], r[7])); r[7] = st("i7", divex(d, 2)); r[1] = st("i1", add(r[1], r[7], -1))
    assert [r[7], r[6], r[5], r[4], r[3], r[2], r[1]] == [{g:1} for g in G], r
    return steps
if __name__ == "__main__":
    for half in (True, False):
        steps = run(half)
        print("-- half =", half)
        print("  extract_lets " + " ".join(n for n, _ in steps) + " r")
        for n, f in steps:
            print("  have h_%s : %s = %s := by simp only [%s]; omega" % (n, n, show(f), n))
            print("  clear_value %s; subst h_%s" % (n, n))
