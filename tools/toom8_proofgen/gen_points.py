import os
import gen_interp as gi
# atoms: c0..c15, plus floor atoms
def cname(i): return "c%d" % i
def lin_show(d, order, names):
    out = []
    for x in order:
        if x in d and d[x] != 0:
            c = d[x]; t = names[x] if abs(c) == 1 else "%d * %s" % (abs(c), names[x])
            out.append(("- " if c < 0 else "+ ") + t)
    if not out: return "0"
    s = " ".join(out)
    return s[2:] if s.startswith("+ ") else "-" + s[2:]
def target(reg, half):
    # the form of interp16_spec with g_j := (c_{2j+1} + W * c_{2j+2})
    r = gi.inputs(half)[reg]
    names = dict(gi.ATOM)
    for j in range(7): names["g%d" % j] = "(c%d + W * c%d)" % (2*j+1, 2*j+2)
    return lin_show(r, gi.ORDER, names)
POINTS = [  # reg, x expr, y expr, xval, yval, ps(h), ns(h)
    (7, "1", "(2 ^ 3)", 1, 8, lambda h: 3*(1+h), lambda h: 3*h),
    (5, "1", "(2 ^ 2)", 1, 4, lambda h: 2*(1+h), lambda h: 2*h),
    (3, "2", "1", 2, 1, lambda h: 1, lambda h: 2),
    (1, "(2 ^ 3)", "1", 8, 1, lambda h: 3, lambda h: 6),
    (6, "1", "(2 ^ 1)", 1, 2, lambda h: 1+h, lambda h: h),
    (4, "1", "1", 1, 1, lambda h: 0, lambda h: 0),
    (2, "(2 ^ 2)", "1", 4, 1, lambda h: 2, lambda h: 4),
]
def neg(x): return "(-%s)" % x if not x.startswith("(") else "(-%s)" % x
out = '''/- Helper lemmas for Mpir/Model/Toom8.lean (generated closed forms, each re-checked by ring / omega):
   the value toom_couple_handling leaves for every couple of evaluation points, in terms of the coefficients
   c0 … c15 (c14) of the product polynomial. -/
import MpirProofs.Lemmas.Toom8
import MpirProofs.Lemmas.Toom8Interp
namespace Mpir.Toom8

'''
for half in (1, 0):
    D = 14 + half
    cs = [cname(i) for i in range(D + 1)]
    lst = "[" + ", ".join(cs) + "]"
    names = {c: c for c in cs}
    names.update({"k2": "c15 / 2 ^ 2", "k4": "c15 / 2 ^ 4", "k6": "c15 / 2 ^ 6", "y2": "c0 / 2 ^ 2", "y4": "c0 / 2 ^ 4", "y6": "c0 / 2 ^ 6"})
    order = cs + ["k2", "k4", "k6", "y2", "y4", "y6"]
    for reg, xs, ys, xv, yv, psf, nsf in POINTS:
        ps, ns = psf(half), nsf(half)
        FP = {cs[i]: xv**i * yv**(D - i) for i in range(D + 1)}
        FM = {cs[i]: (-xv)**i * yv**(D - i) for i in range(D + 1)}
        E = {c: (FP[c] + FM[c]) // 2 for c in cs}
        O = {c: FP[c] - E[c] for c in cs}
        # O / 2^ps
        def shr(d, s, fl):
            r = {}
            for c, v in d.items():
                if v == 0: continue
                if v % 2**s == 0: r[c] = v // 2**s
                else:
                    assert v == 1 and c in ("c0", "c15"), (c, v, s)
                    r[{("c15", 2): "k2", ("c15", 4): "k4", ("c15", 6): "k6", ("c0", 2): "y2", ("c0", 4): "y4", ("c0", 6): "y6"}[(c, s)]] = 1
            return r
        O2 = shr(O, ps, None); E2 = shr(E, ns, None)
        tgt = target(reg, half)
        fp, fm, e, o, o2, e2 = (lin_show(d, order, names) for d in (FP, FM, E, O, O2, E2))
        out += "theorem couple_r%d_h%d (%s W : Int) :\n" % (reg, half, " ".join(cs))
        out += "    coupleVal (evalH %s %s %s) (evalH (-%s) %s %s) W %d %d\n      = %s := by\n" % (xs, ys, lst, xs, ys, lst, ps, ns, tgt)
        out += "  have hP : evalH %s %s %s = %s := by\n    simp only [evalH, List.length_cons, List.length_nil]; ring\n" % (xs, ys, lst, fp)
        out += "  have hM : evalH (-%s) %s %s = %s := by\n    simp only [evalH, List.length_cons, List.length_nil]; ring\n" % (xs, ys, lst, fm)
        out += "  rw [hP, hM]; unfold coupleVal\n"
        out += "  have h1 : (%s + (%s)) / 2 = %s := by omega\n" % (fp, fm, e)
        out += "  rw [h1]\n"
        out += "  have h2 : (%s - (%s)) / 2 ^ %d = %s := by omega\n" % (fp, e, ps, o2)
        out += "  have h3 : (%s) / 2 ^ %d = %s := by omega\n" % (e, ns, e2)
        out += "  rw [h2, h3]; ring\n\n"
# wrappers
gs = ", ".join("c%d + W * c%d" % (2*j+1, 2*j+2) for j in range(7))
for half in (1, 0):
    hyps = " ".join("(h%d : r%d = %s)" % (reg, reg, target(reg, half)) for reg in (7, 6, 5, 4, 3, 2, 1))
    if half:
        out += "theorem interp16_coeffs_h1 {r8 r7 r6 r5 r4 r3 r2 r1 r0 W c0 c1 c2 c3 c4 c5 c6 c7 c8 c9 c10 c11 c12 c13 c14 c15 : Int}\n"
        out += "    (h8 : r8 = c0) %s (h0 : r0 = c15) :\n" % hyps
        out += "    (interp16 r8 r7 r6 r5 r4 r3 r2 r1 r0 W true).coeffs = [c0, %s, c15] := by\n" % gs
        out += "  rw [h8, h7, h6, h5, h4, h3, h2, h1, h0]\n"
        out += "  exact (interp16_spec c0 c15 %s W true (by simp)).1\n\n" % " ".join("(c%d + W * c%d)" % (2*j+1, 2*j+2) for j in range(7))
    else:
        out += "theorem interp16_coeffs_h0 {r8 r7 r6 r5 r4 r3 r2 r1 W c0 c1 c2 c3 c4 c5 c6 c7 c8 c9 c10 c11 c12 c13 c14 : Int}\n"
        out += "    (h8 : r8 = c0) %s :\n" % hyps
        out += "    (interp16 r8 r7 r6 r5 r4 r3 r2 r1 0 W false).coeffs = [c0, %s, 0] := by\n" % gs
        out += "  have := (interp16_spec c0 0 %s W false (fun _ => rfl)).1\n" % " ".join("(c%d + W * c%d)" % (2*j+1, 2*j+2) for j in range(7))
        out += "  simp only [Int.zero_ediv, mul_zero, add_zero] at this\n"
        out += "  rw [h8, h7, h6, h5, h4, h3, h2, h1]\n  exact this\n\n"
out += "end Mpir.Toom8\n"
open(os.path.join(os.path.dirname(os.path.dirname(os.path.dirname(os.path.abspath(__file__)))), "lean", "MpirProofs", "Lemmas", "Toom8Points.lean"), "w").write(out)
