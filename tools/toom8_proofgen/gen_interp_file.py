import os
from gen_interp import *
def inputs_txt(half):
    r = inputs(True)   # statement always carries the c15 terms
    return r
hdr = '''/- Helper lemma for Mpir/Model/Toom8.lean: the 16-point interpolation sequence (toom_interpolate_16pts.c).
   The step-by-step closed forms below were produced by running the sequence symbolically
   (each `have` is re-checked by `omega`). -/
import MpirProofs.Lemmas.Base
import Mpir.Model.Toom8
import Mathlib.Tactic.Ring
import Mathlib.Tactic.Linarith
namespace Mpir.Toom8
open Mpir.MulAlgo (Interp)

/-- toom_interpolate_16pts.c:273-445.  Write f = Σ c_i x^i (i ≤ 15) and g_j = c_{2j+1} + W·c_{2j+2} (j ≤ 6): the
    "coupled" coefficient pairs.  Given the nine values as toom_couple_handling leaves them —
    r4 = Σ g_j + c15 + W·c0, r3/r2/r1 = Σ g_j u^j + c15·u^7 + W·⌊c0/u⌋ for u = 4, 16, 64,
    r6/r5/r7 = Σ g_j u^(6−j) + ⌊c15/u⌋ + W·c0·u^7, r8 = c0, r0 = c15 (c15 = 0 when half = 0) —
    the sequence returns c0, g0 … g6, c15; each of the nine exact divisions (by 255·188513325, 2835·64, 255·4,
    255·182712915, 42525·16, 9·16, 2, 2, 2) is applied to a multiple of its divisor; the three values shifted right
    LOGICALLY (`mpn_rshift` :436, :440, :444) are 2·g1, 2·g2, 2·g0. -/
theorem interp16_spec (c0 c15 g0 g1 g2 g3 g4 g5 g6 W : Int) (half : Bool) (hh : half = false → c15 = 0) :
    let r := interp16 c0
      (%s)
      (%s)
      (%s)
      (%s)
      (%s)
      (%s)
      (%s)
      c15 W half
    r.coeffs = [c0, g0, g1, g2, g3, g4, g5, g6, c15] ∧ (∀ p ∈ r.divs, p.2 ∣ p.1) ∧
    (0 ≤ g0 → 0 ≤ g1 → 0 ≤ g2 → ∀ p ∈ r.shifts, 0 ≤ p.1) := by
  cases half
'''
r = inputs(True)
out = hdr % tuple(show(r[i]) for i in (7, 6, 5, 4, 3, 2, 1))
for half in (False, True):
    steps = run(half)
    if not half:
        out += "  · have h15 : c15 = 0 := hh rfl\n    subst h15\n"
    else:
        out += "  · clear hh\n"
    out += "    unfold interp16\n"
    out += "    simp (config := { zeta := false }) only [%s]\n" % ("if_true" if half else "Bool.false_eq_true, if_false")
    out += "    extract_lets " + " ".join(n for n, _ in steps) + " r\n"
    for n, f in steps:
        tac = "simp only [%s]" % n if n in ("c5","c3","c7","D1","D2","D3","D4","D5","D6") else "simp only [%s]; omega" % n
        out += "    have h_%s : %s = %s := by %s\n" % (n, n, show(f), tac)
        out += "    clear_value %s; subst h_%s\n" % (n, n)
    out += '''    refine ⟨?_, ?_, ?_⟩
    · simp only [r]%s
    · intro p hp
      simp only [r, List.mem_cons, List.mem_nil_iff, or_false] at hp
      rcases hp with rfl | rfl | rfl | rfl | rfl | rfl | rfl | rfl | rfl <;> simp only [] <;> omega
    · intro p0 p1 p2 p hp
      simp only [r, List.mem_cons, List.mem_nil_iff, or_false] at hp
      rcases hp with rfl | rfl | rfl <;> simp only [] <;> omega
''' % ("")
out += "\nend Mpir.Toom8\n"
open(os.path.join(os.path.dirname(os.path.dirname(os.path.dirname(os.path.abspath(__file__)))), "lean", "MpirProofs", "Lemmas", "Toom8Interp.lean"), "w").write(out)
