#!/bin/sh
# tools/try_seed.sh <seed-dir> <ID> [<ID>...] [-- extra check args]: apply patch.diff to a scratch copy of /repo and run the
# checks against it from a PRIVATE worktree of /verif (regenerated Gen files and lake state of the main tree are not touched;
# /repo itself is not touched either: other work may be using it).
d=$1; shift
W=${SEEDRUN:-/var/tmp/wt/seedrun}
if [ ! -d $W ]; then git -C /verif worktree add -q --detach $W HEAD || exit 1; fi
(cd $W && git checkout -q -f --detach $(git -C /verif rev-parse HEAD) && git checkout -q -- . && python3 tools/gen_registry.py >/dev/null)
S=/var/tmp/seedtry.$$
rsync -a --exclude .git --exclude '*.o' --exclude '*.lo' --exclude '.libs' /repo/ $S/ || exit 1
(cd $S && patch -p1 -s < "$d/patch.diff") || { echo "patch does not apply: $d"; rm -rf $S; exit 1; }
args=""
ids=""
for a in "$@"; do case "$a" in --*) args="$args $a";; thorough|quick) args="$args --tier $a";; *) ids="$ids $a";; esac; done
for id in $ids; do
  echo "== $id on $(basename $d) $args"
  (cd $W && VERIF_REPO=$S timeout 7200 bin/check $id $args 2>&1 | grep -E "^(VIOLATION|KNOWN|OK|ERROR|BROKEN|DISAGREE)" | cut -c1-300 | head -6)
done
rm -rf $S
