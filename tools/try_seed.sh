#!/bin/sh
# tools/try_seed.sh <seed-dir> <ID> [<ID>...]: apply patch.diff to /repo, run the quick checks, undo.
d=$1; shift
cd /repo || exit 1
git diff --quiet || { echo "/repo is dirty"; exit 1; }
git apply "$d/patch.diff" || { echo "patch does not apply"; exit 1; }
for id in "$@"; do
  echo "== $id on $(basename $d)"
  (cd /verif && timeout 3000 bin/check $id 2>&1 | grep -E "^(VIOLATION|KNOWN|OK|ERROR|BROKEN|DISAGREE)" | cut -c1-400 | head -8)
done
git -C /repo checkout -- .
git -C /repo status --short | head -3
