#!/bin/sh
# tools/try_seed.sh <seed-dir> <ID> [<ID>...]: apply patch.diff to a scratch copy of /repo, run the quick checks against it.
# (Other work may be using /repo at the same time, so the patch is never applied to /repo itself here.)
d=$1; shift
S=/var/tmp/seedtry.$$
rsync -a --exclude .git --exclude '*.o' --exclude '*.lo' --exclude '.libs' /repo/ $S/ || exit 1
(cd $S && git init -q . 2>/dev/null; patch -p1 -s < "$d/patch.diff") || { echo "patch does not apply: $d"; rm -rf $S; exit 1; }
rm -rf $S/.git
for id in "$@"; do
  echo "== $id on $(basename $d)"
  (cd /verif && VERIF_REPO=$S timeout 3000 bin/check $id 2>&1 | grep -E "^(VIOLATION|KNOWN|OK|ERROR|BROKEN|DISAGREE)" | cut -c1-300 | head -6)
done
rm -rf $S
