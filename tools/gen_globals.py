#!/usr/bin/env python3
"""X translator for C15 (binary side): every object with static storage in a writable section of the library
built from the working tree — global, file-static and function-static alike (local symbols `l O` of objdump -t,
i.e. nm's `b`/`d`, in ANY section that is ALLOC and not READONLY: .data, .bss, .data.rel.local, .data.rel.ro*,
common) — and, per object, every instruction of the library that stores to it / loads from it / takes its address
(PC-relative, GOT and absolute relocations; section-relative references to local symbols are resolved to the
exact byte with the length of the instruction), attributed to the function that contains the instruction, plus
the addresses placed into initialised data (relocations of data sections).
Output: lean/Mpir/Gen/Globals.lean."""
import os, re, subprocess, sys, bisect
sys.path.insert(0, os.path.dirname(os.path.abspath(__file__)))
import vlib

NOWRITE = re.compile(r"^(cmp|test|ucomis|comis|bt$|btq|btl|btw|push|call|jmp|nop|prefetch|mul|imul|div|idiv|fld|fild|fadd|fsub|fmul|fdiv|fcom|fucom|lea|cvt|vucomis|vcomis|vcvt|pcmp|vpcmp|ptest|vptest)")
RMW1 = re.compile(r"^(inc|dec|neg|not|set|pop|fst|fist|fnst|fxsave|stmxcsr|sh[lr]|sa[lr]|ro[lr]|rc[lr]|lock)")

def _out(cmd):
    return subprocess.run(cmd, stdout=subprocess.PIPE, stderr=subprocess.DEVNULL, check=True).stdout.decode(errors="replace")

def sections(lib):
    """member -> {section name: (size, writable, code)} from objdump -h"""
    res = {}; member = None; cur = None
    for l in _out(["objdump", "-h", lib]).splitlines():
        m = re.match(r"^(\S+\.o):\s+file format", l)
        if m: member = m.group(1); res[member] = {}; continue
        m = re.match(r"^\s*\d+\s+(\S+)\s+([0-9a-f]+)\s", l)
        if m: cur = (m.group(1), int(m.group(2), 16)); continue
        if cur and member and re.match(r"^\s+[A-Z]", l):
            fl = [x.strip() for x in l.split(",")]
            res[member][cur[0]] = (cur[1], "ALLOC" in fl and "READONLY" not in fl and "CODE" not in fl and "DEBUGGING" not in fl, "CODE" in fl)
            cur = None
    return res

def symbols(lib, secs):
    """objects in writable sections: {(member, name): dict(sect, off, size, local)}; also per member the list of
    (section, off, size, name) for section-relative resolution, and the set of function symbols"""
    objs = {}; member = None; funcs = {}
    for l in _out(["objdump", "-t", lib]).splitlines():
        m = re.match(r"^(\S+\.o):\s+file format", l)
        if m: member = m.group(1); continue
        m = re.match(r"^([0-9a-f]{16}) (.{7}) (\S+)\t([0-9a-f]{16}) (?:\.hidden |\.internal |\.protected )?(\S+)$", l)
        if not m or member is None: continue
        val, flags, sec, size, name = int(m.group(1), 16), m.group(2), m.group(3), int(m.group(4), 16), m.group(5)
        if "d" in flags[5:6] or "f" in flags[6:7] and sec == "*ABS*": continue        # section / file symbols
        if "F" in flags: funcs.setdefault(member, set()).add(name); continue
        if sec == "*COM*":
            objs[(member, name)] = dict(sect="*COM*", off=0, size=val, local=False); continue
        if sec in ("*UND*", "*ABS*"): continue
        info = secs.get(member, {}).get(sec)
        if not info or not info[1]: continue
        if name.startswith(".L") and size == 0: continue
        objs[(member, name)] = dict(sect=sec, off=val, size=size, local=(flags[0] == "l"))
    return objs, funcs

def scan2(build):
    """returns (objs, refs, initaddrs, anon):
       refs: list of (member, function, object key, kind) with kind in store/load/addr
       initaddrs: list of (member, holder section+off or holder object name, object key): addresses placed in initialised data
       anon: references into writable sections that no symbol covers (reported; must be empty)"""
    lib = os.path.join(build, ".libs", "libmpir.a")
    secs = sections(lib)
    objs, funcs = symbols(lib, secs)
    by_member = {}
    for (mem, name), o in objs.items(): by_member.setdefault(mem, []).append((o["sect"], o["off"], max(o["size"], 1), name))
    by_name = {}
    for (mem, name), o in objs.items():
        if not o["local"]: by_name.setdefault(name, []).append(mem)
    anon = []
    def resolve(member, target, off):
        """object key for `target` (symbol or section name) at byte offset `off` inside it"""
        if target in secs.get(member, {}):
            if not secs[member][target][1]: return None
            for (sec, o, sz, n) in by_member.get(member, []):
                if sec == target and o <= off < o + sz: return (member, n)
            if target.startswith(".data.rel.ro"):       # an unnamed relocated constant table (assembly kernels' jump tables)
                objs[(member, target)] = dict(sect=target, off=0, size=secs[member][target][0], local=True)
                by_member.setdefault(member, []).append((target, 0, max(secs[member][target][0], 1), target)); return (member, target)
            anon.append("%s:%s+0x%x" % (member, target, off)); return None
        if (member, target) in objs: return (member, target)
        if target in by_name: return (by_name[target][0], target)
        return None
    refs = []; initaddrs = []; calls = set()
    allfuncs = set()
    for fs in funcs.values(): allfuncs |= fs
    # ---- code: disassembly with relocations
    member = None; func = None; insns = []      # insns of the current function: [addr, mnem, ops, [relocs]]
    def flush(next_addr):
        for i, (addr, mnem, ops, rl) in enumerate(insns):
            nxt = insns[i + 1][0] if i + 1 < len(insns) else next_addr
            if not rl and func and mnem.startswith(("call", "jmp")):                  # call of a function in the same section: resolved by the assembler, no relocation
                mm = re.search(r"<([^>+]+)(\+0x[0-9a-f]+)?>", ops)
                if mm and mm.group(1) != func: calls.add((func, mm.group(1)))
            for (roff, rtype, target, addend) in rl:
                if target in allfuncs and func: calls.add((func, target))       # direct call / tail call / address of a function
                if re.match(r"(PLT32|TLS|GOTTPOFF|TPOFF|DTPOFF)", rtype): continue
                if rtype.startswith("PC") and target in secs.get(member, {}):
                    off = addend + ((nxt - roff) if nxt is not None and 0 < nxt - roff <= 12 else 4)
                elif rtype.startswith("PC") or "GOT" in rtype: off = 0          # named symbol: the addend only selects a field
                else: off = addend
                key = resolve(member, target, off)
                if not key: continue
                kind = "load"
                if "GOT" in rtype: kind = "addr"                                # address fetched from the GOT: may be written through
                elif "(%rip)" in ops:
                    parts = [p.strip() for p in re.split(r",(?![^()]*\))", ops.split("#")[0])]
                    last = parts[-1]
                    if mnem.startswith("lea"): kind = "addr"
                    elif "(%rip)" in last and not NOWRITE.match(mnem) and (len(parts) >= 2 or RMW1.match(mnem)): kind = "store"
                    elif mnem.startswith(("xchg", "xadd", "cmpxchg")): kind = "store"
                else: kind = "addr"                                             # absolute address as an immediate
                refs.append((member, func or "?", key, kind))
    for l in _out(["objdump", "-dr", "--no-show-raw-insn", lib]).splitlines():
        m = re.match(r"^(\S+\.o):\s+file format", l)
        if m: flush(None); insns = []; member = m.group(1); func = None; continue
        m = re.match(r"^([0-9a-f]+) <([^>]+)>:$", l)
        if m: flush(int(m.group(1), 16)); insns = []; func = m.group(2); continue
        m = re.match(r"^\s*([0-9a-f]+):\s+R_X86_64_(\w+)\s+(\S+?)([-+]0x[0-9a-f]+)?$", l)
        if m:
            if insns: insns[-1][3].append((int(m.group(1), 16), m.group(2), m.group(3), int(m.group(4) or "0", 16)))
            continue
        m = re.match(r"^\s*([0-9a-f]+):\t(\S+)\s*(.*)$", l)
        if m: insns.append([int(m.group(1), 16), m.group(2), m.group(3), []]); continue
        if l.startswith("Disassembly of section"): flush(None); insns = []; func = None
    flush(None)
    # ---- data: relocations of non-code, non-debug sections (addresses in static initialisers)
    member = None; sec = None
    for l in _out(["objdump", "-r", lib]).splitlines():
        m = re.match(r"^(\S+\.o):\s+file format", l)
        if m: member = m.group(1); sec = None; continue
        m = re.match(r"^RELOCATION RECORDS FOR \[(.*)\]:", l)
        if m: sec = m.group(1); continue
        m = re.match(r"^([0-9a-f]{16}) R_X86_64_(\w+)\s+(\S+?)([-+]0x[0-9a-f]+)?$", l)
        if not m or not member or not sec: continue
        info = secs.get(member, {}).get(sec)
        if not info or info[2] or sec.startswith((".debug", ".eh_frame", ".rela", ".note")): continue
        key = resolve(member, m.group(3), int(m.group(4) or "0", 16))
        if not key: continue
        hoff = int(m.group(1), 16); holder = "%s+0x%x" % (sec, hoff)
        for (s2, o, sz, n) in by_member.get(member, []):
            if s2 == sec and o <= hoff < o + sz: holder = n
        initaddrs.append((member, holder, key))
    scan2.calls = calls
    return objs, refs, initaddrs, sorted(set(anon))

def reach(calls, writers):
    """functions from which one of `writers` is reachable through direct calls (or address-of-function references)"""
    rev = {}
    for a, b in calls: rev.setdefault(b, set()).add(a)
    seen = set(writers); todo = list(writers)
    while todo:
        f = todo.pop()
        for g in rev.get(f, ()):
            if g not in seen: seen.add(g); todo.append(g)
    return seen

def scan(build):
    """compatibility view: (objs {key: (nm-like kind, off)}, written {key: n}, taken {key: n})"""
    objs, refs, initaddrs, anon = scan2(build)
    o2 = {k: (_kind(v), v["off"]) for k, v in objs.items()}
    written, taken = {}, {}
    for (mem, fn, key, kind) in refs:
        if kind == "store": written[key] = written.get(key, 0) + 1
        elif kind == "addr": taken[key] = taken.get(key, 0) + 1
    for (mem, holder, key) in initaddrs: taken[key] = taken.get(key, 0) + 1
    return o2, written, taken

def _kind(v):
    c = "C" if v["sect"] == "*COM*" else ("b" if v["sect"].startswith(".bss") else "d")
    return c if v["local"] or c == "C" else c.upper()

def lean_str(s): return '"' + s.replace("\\", "\\\\").replace('"', '\\"') + '"'

def gen_globals(ctx):
    build = ctx.build
    objs, refs, initaddrs, anon = scan2(build)
    if len(objs) < 5: raise RuntimeError("global scan found only %d writable objects: objdump output not understood" % len(objs))
    if anon: raise RuntimeError("references into writable sections that no symbol covers: %s" % ", ".join(anon[:8]))
    cnt = {}
    for (mem, fn, key, kind) in refs: cnt[(key, kind)] = cnt.get((key, kind), 0) + 1
    for (mem, holder, key) in initaddrs: cnt[(key, "addr")] = cnt.get((key, "addr"), 0) + 1
    rows = []
    for (mem, name), o in sorted(objs.items(), key=lambda x: (x[0][1], x[0][0])):
        k = (mem, name)
        rows.append('  { name := %s, base := %s, file := %s, sect := %s, size := %d, isLocal := %s, relro := %s, stores := %d, loads := %d, addrTaken := %d }' % (
            lean_str(name), lean_str(re.sub(r"\.\d+$", "", name)), lean_str(mem), lean_str(o["sect"]), o["size"], "true" if o["local"] else "false",
            "true" if o["sect"].startswith(".data.rel.ro") else "false", cnt.get((k, "store"), 0), cnt.get((k, "load"), 0), cnt.get((k, "addr"), 0)))
    sf = sorted({(key[1], key[0], fn) for (mem, fn, key, kind) in refs if kind == "store"})
    af = sorted({(key[1], key[0], fn) for (mem, fn, key, kind) in refs if kind == "addr"})
    ia = sorted({(key[1], key[0], "%s:%s" % (mem, holder)) for (mem, holder, key) in initaddrs})
    cells = ["__gmp_allocate_func", "__gmp_reallocate_func", "__gmp_free_func", "__gmp_default_fp_limb_precision", "__gmp_errno", "__gmp_rands", "__gmp_rands_initialized"]
    cr = []
    for c in cells:
        ws = {fn for (mem, fn, key, kind) in refs if key[1] == c and kind in ("store", "addr")}
        cr += [(c, f) for f in sorted(reach(scan2.calls, ws))]
    def tbl(name, doc, xs):
        return "/-- %s -/\ndef %s : List (String × String × String) := [\n%s\n]\n" % (doc, name, ",\n".join("  (%s, %s, %s)" % tuple(lean_str(x) for x in t) for t in xs))
    txt = ("-- GENERATED by tools/gen_globals.py from the library built from the working tree — do not edit.\n"
           "namespace Mpir.Gen\nstructure GlobalObj where\n  name : String\n  base : String   -- source name (gcc appends `.N` to function-statics)\n  file : String\n  sect : String\n  size : Nat\n  isLocal : Bool\n  relro : Bool\n  stores : Nat\n  loads : Nat\n  addrTaken : Nat\n  deriving Repr, DecidableEq\n\n"
           "/-- every object with static storage in a writable section (.data*/.bss/common; global, file-static and\n    function-static) of libmpir.a, with the number of instructions that store to it directly / load from it /\n    take its address (`relro`: section .data.rel.ro*, i.e. a `const` object that only the loader's relocation\n    pass writes, before any thread exists) -/\n"
           "def globals : List GlobalObj := [\n" + ",\n".join(rows) + "\n]\n\n"
           + tbl("storeFuncs", "(object, archive member of the object, function symbol) for every function of the library that contains an instruction storing directly to the object", sf) + "\n"
           + tbl("addrFuncs", "(object, member, function symbol) for every function that materialises the address of the object (lea / GOT / absolute)", af) + "\n"
           + tbl("initAddrs", "(object, member, holder) for every address of a writable object placed in initialised data (static initialiser)", ia)
           + "\n/-- (documented cell, function symbol) for every function of the library from which a function that stores to the cell, or\n    materialises its address, is reachable through direct calls (relocations against function symbols; `__gmp_junk` left out) -/\n"
           + "def cellReach : List (String × String) := [\n" + ",\n".join("  (%s, %s)" % (lean_str(a), lean_str(b)) for a, b in cr) + "\n]\n"
           + "end Mpir.Gen\n")
    p = os.path.join(vlib.LEAN, "Mpir", "Gen", "Globals.lean")
    return [p] if vlib.write_if_changed(p, txt) else []

if __name__ == "__main__":
    objs, refs, initaddrs, anon = scan2(sys.argv[1])
    for k in sorted(objs, key=lambda x: x[1]):
        c = {}
        for (mem, fn, key, kind) in refs:
            if key == k: c.setdefault(kind, set()).add(fn)
        print(k[1], k[0], objs[k]["sect"], objs[k]["size"], "local" if objs[k]["local"] else "global", {a: sorted(b) for a, b in c.items()})
    print("initaddrs", initaddrs); print("anon", anon)
