"""Shared machinery for every check: scratch builds of /repo's working tree, harness/driver builds,
Lean proof builds + axiom audit, the differential runner, replay and evidence writing."""
import os, sys, subprocess, hashlib, json, time, shutil, fcntl, random, re, glob

VERIF = os.path.dirname(os.path.dirname(os.path.abspath(__file__)))
REPO = os.environ.get("VERIF_REPO", "/repo")
CACHE = os.environ.get("VERIF_CACHE", "/var/tmp/mpirvp")
LEAN = os.path.join(VERIF, "lean")
NPROC = os.cpu_count() or 4
ALLOWED_AXIOMS = {"propext", "Classical.choice", "Quot.sound"}

def log(*a):
    print("[check]", *a, file=sys.stderr, flush=True)

def run(cmd, cwd=None, env=None, timeout=None, inp=None, check=False):
    e = dict(os.environ)
    if env: e.update(env)
    p = subprocess.run(cmd, cwd=cwd, env=e, input=inp, stdout=subprocess.PIPE, stderr=subprocess.STDOUT,
                       timeout=timeout, shell=isinstance(cmd, str))
    out = p.stdout.decode("utf-8", "replace")
    if check and p.returncode != 0:
        raise RuntimeError("command failed (%d): %s\n%s" % (p.returncode, cmd, out[-4000:]))
    return p.returncode, out

# ---------------------------------------------------------------- working-tree hash
def repo_files():
    if os.path.isdir(os.path.join(REPO, ".git")) or os.path.isfile(os.path.join(REPO, ".git")):
        rc, out = run(["git", "-C", REPO, "ls-files", "-c", "-o", "--exclude-standard", "-z"])
        files = [f for f in out.split("\0") if f]
        if rc == 0 and files: return sorted(set(files))
    files = []
    for root, ds, fs in os.walk(REPO):
        ds[:] = [d for d in ds if d not in (".git", ".libs", ".deps", "autom4te.cache")]
        for f in fs:
            if f.endswith((".c", ".h", ".asm", ".as", ".cc", ".in", ".am", ".m4", ".ac", ".inc", ".pl", ".sh")) or f in ("configure", "Makefile"):
                files.append(os.path.relpath(os.path.join(root, f), REPO))
    return sorted(files)

_tree_hash = None
def tree_hash():
    global _tree_hash
    if _tree_hash: return _tree_hash
    h = hashlib.sha256()
    for f in repo_files():
        p = os.path.join(REPO, f)
        if not os.path.isfile(p) or os.path.islink(p): continue
        if f.endswith((".o", ".lo", ".la", ".a", ".so")) or "/.libs/" in f or f.startswith(".libs/"): continue
        h.update(f.encode()); h.update(b"\0")
        with open(p, "rb") as fh: h.update(hashlib.sha256(fh.read()).digest())
    _tree_hash = h.hexdigest()[:16]
    return _tree_hash

class Lock:
    def __init__(self, name):
        os.makedirs(CACHE, exist_ok=True)
        self.path = os.path.join(CACHE, name + ".lock")
    def __enter__(self):
        self.fh = open(self.path, "w"); fcntl.flock(self.fh, fcntl.LOCK_EX); return self
    def __exit__(self, *a):
        fcntl.flock(self.fh, fcntl.LOCK_UN); self.fh.close()

VARIANTS = {
    # name: (CC, CFLAGS, extra make vars)
    "plain": ("gcc", "-O1 -g -Wno-error"),
    "asan": ("gcc", "-O1 -g -fsanitize=address,bounds -fno-sanitize-recover=bounds -fno-omit-frame-pointer -Wno-error"),
    "tsan": ("gcc", "-O1 -g -fsanitize=thread -Wno-error"),
    "assert": ("gcc", "-O1 -g -Wno-error -DWANT_ASSERT=1"),
}

def _prune(keep):
    """remove build dirs that have not been used for 3 hours, beyond the 10 most recent (other checks may be using the recent ones)."""
    ds = [d for d in glob.glob(os.path.join(CACHE, "build-*")) if os.path.isdir(d) and d != keep]
    ds.sort(key=lambda d: os.path.getmtime(d), reverse=True)
    now = time.time()
    for d in ds[10:]:
        if now - os.path.getmtime(d) > 3 * 3600: shutil.rmtree(d, ignore_errors=True)

def get_build(variant="plain"):
    """Build libmpir.a from /repo's current working tree (copy -> make clean -> make).  Cached by
    the content hash of the working tree, so an edited tree is always rebuilt."""
    th = tree_hash()
    d = os.path.join(CACHE, "build-%s-%s" % (th, variant))
    with Lock("build-" + variant):
        if os.path.exists(os.path.join(d, ".ok")):
            os.utime(d, None); return d
        shutil.rmtree(d, ignore_errors=True)
        os.makedirs(d)
        t0 = time.time()
        run(["rsync", "-a", "--exclude", ".git", REPO + "/", d + "/"], check=True)
        cc, cflags = VARIANTS[variant]
        rc, out = run("make clean >/dev/null 2>&1; make -j%d CC=%s CFLAGS='%s' 2>&1 | tail -40" % (NPROC, cc, cflags), cwd=d, timeout=1800)
        lib = os.path.join(d, ".libs", "libmpir.a")
        if not os.path.exists(lib):
            shutil.rmtree(d, ignore_errors=True)
            raise BuildError("library build failed for variant %s:\n%s" % (variant, out[-3000:]))
        # drop objects we do not need (keep sources, headers and the archive)
        run("find . \\( -name '*.o' -o -name '*.lo' -o -name '*.so*' \\) -not -path './.libs/libmpir.a' -delete", cwd=d)
        open(os.path.join(d, ".ok"), "w").write("%.1f" % (time.time() - t0))
        log("built %s in %.0fs" % (d, time.time() - t0))
        _prune(d)
    return d

class BuildError(Exception): pass

def harness_sources():
    return sorted(glob.glob(os.path.join(VERIF, "harness", "*.c")))

def get_harness(build, variant="plain", extra_flags=""):
    srcs = harness_sources()
    h = hashlib.sha256()
    for s in srcs + glob.glob(os.path.join(VERIF, "harness", "*.h")):
        h.update(open(s, "rb").read())
    h.update(extra_flags.encode())
    exe = os.path.join(build, "harness-%s" % h.hexdigest()[:12])
    with Lock("harness"):
        if os.path.exists(exe): return exe
        # registry
        regs = []
        for s in srcs:
            regs += re.findall(r"^const opdef_t (ops_\w+)\[\]", open(s).read(), re.M)
        import gen_api
        try:
            gen_api.generate(build); srcs = srcs + [os.path.join(build, "api_gen.c")]
        except Exception as e:
            raise BuildError("gen_api failed on the current mpir.h: %s" % e)
        seen = {}
        for sfile in [x for x in srcs if os.path.basename(x).startswith('ops_')]:
            for m in re.finditer(r'(?:BOTH\s*\(|\{)\s*"([@A-Za-z0-9_?]+)"\s*,', open(sfile).read()):
                if m.group(1) != "@reset" and seen.setdefault(m.group(1), sfile) != sfile:
                    raise BuildError("op name %s is registered by both %s and %s" % (m.group(1), os.path.basename(seen[m.group(1)]), os.path.basename(sfile)))
        reg_c = os.path.join(build, "h_registry.c")
        with open(reg_c, "w") as f:
            f.write('#include "harness.h"\n')
            for r in regs: f.write("extern const opdef_t %s[];\n" % r)
            f.write("const opdef_t *const h_registry[] = {%s 0};\n" % "".join(r + ", " for r in regs))
        san = {"asan": "-fsanitize=address,bounds -fno-sanitize-recover=bounds", "tsan": "-fsanitize=thread"}.get(variant, "")
        cmd = "gcc -O1 -g -w %s %s -I%s -I%s/harness -DHAVE_CONFIG_H %s %s %s/.libs/libmpir.a -lm -lpthread -o %s.tmp && mv %s.tmp %s" % (
            san, extra_flags, build, VERIF, " ".join(srcs), reg_c, build, exe, exe, exe)
        rc, out = run(cmd, timeout=600)
        if rc != 0:
            raise BuildError("harness build failed:\n" + out[-4000:])
    return exe

# ---------------------------------------------------------------- Lean side
def lake(args, timeout=3600):
    with Lock("lake-" + hashlib.sha256(LEAN.encode()).hexdigest()[:8]):
        return run(["lake"] + args, cwd=LEAN, timeout=timeout)

def get_driver():
    rc, out = lake(["build", "driver"])
    exe = os.path.join(LEAN, ".lake", "build", "bin", "driver")
    if rc != 0 or not os.path.exists(exe):
        raise BuildError("driver build failed:\n" + out[-4000:])
    return exe

def write_if_changed(path, text):
    if os.path.exists(path) and open(path).read() == text: return False
    os.makedirs(os.path.dirname(path), exist_ok=True)
    open(path, "w").write(text); return True

def lean_build(modules):
    """Build proof modules.  Returns (ok, failing {module: message})."""
    rc, out = lake(["build"] + modules)
    if rc == 0: return True, {}
    fails = {}
    for m in re.findall(r"^- ([\w.]+)$", out, re.M): fails[m] = ""
    errs = re.findall(r"^error: (.*)$", out, re.M)
    if not fails: fails["<build>"] = ""
    for k in fails: fails[k] = "\n".join(errs[:20])
    return False, fails

def axiom_audit(theorems, imports):
    """#print axioms on each theorem.  Returns {thm: [axioms]} ; missing theorem -> ['<missing>']"""
    src = "".join("import %s\n" % i for i in imports) + "".join("#print axioms %s\n" % t for t in theorems)
    p = os.path.join(CACHE, "audit-%d.lean" % os.getpid())
    open(p, "w").write(src)
    try:
        rc, out = run(["lake", "env", "lean", p], cwd=LEAN, timeout=1800)
    finally:
        os.unlink(p)
    res = {}
    for t in theorems:
        m = re.search(r"'%s' depends on axioms: \[([^\]]*)\]" % re.escape(t), out)
        if m: res[t] = [a.strip() for a in m.group(1).replace("\n", " ").split(",") if a.strip()]
        elif re.search(r"'%s' does not depend on any axioms" % re.escape(t), out): res[t] = []
        else: res[t] = ["<missing>"]
    return res, out

FORBIDDEN = re.compile(r"\b(sorry|admit|native_decide|bv_decide|implemented_by|unsafe|maxHeartbeats 0)\b|^\s*axiom\s", re.M)
def source_audit(paths):
    """grep proof/model sources for forbidden constructs (comments stripped)."""
    bad = []
    for p in paths:
        s = open(p).read()
        s = re.sub(r"/-.*?-/", "", s, flags=re.S); s = re.sub(r"--.*", "", s)
        for m in FORBIDDEN.finditer(s):
            bad.append("%s: %s" % (os.path.relpath(p, VERIF), m.group(0).strip()))
    return bad

# ---------------------------------------------------------------- differential runner
def run_stream(exe, lines, timeout=3600, env=None):
    data = ("\n".join(lines) + "\n").encode()
    e = dict(os.environ)
    if env: e.update(env)
    timeout = min(timeout, int(os.environ.get("VERIF_STREAM_TIMEOUT", timeout)))
    p = subprocess.Popen([exe], stdin=subprocess.PIPE, stdout=subprocess.PIPE, stderr=subprocess.PIPE, env=e)
    try:
        so, se = p.communicate(data, timeout=timeout); rc = p.returncode
    except subprocess.TimeoutExpired:
        # a line that never returns: keep what was answered so far, so that the caller can name the hanging line
        p.kill(); so, se = p.communicate(); rc = HANG_RC
        se = (b"<hang> no answer within %d s\n" % timeout) + se[-4000:]
    out = so.decode("utf-8", "replace").split("\n")
    if out and out[-1] == "": out.pop()
    if rc == HANG_RC and out and len(out) <= len(lines) and not so.endswith(b"\n"): out.pop()      # partial last line
    return rc, out, se.decode("utf-8", "replace")
HANG_RC = -999

def diff_streams(lines, impl, model):
    """returns list of (index, line, impl_out, model_out) for disagreements.  A `~` prefix on a model
    output means 'predicate verdict': `~ok` accepts any implementation output."""
    bad = []
    for i, ln in enumerate(lines):
        a = impl[i] if i < len(impl) else "<no output>"
        b = model[i] if i < len(model) else "<no output>"
        if a.startswith("?") or b.startswith("?"):      # unknown op / unparsable line / bad arguments on either side
            bad.append((i, ln, a, b)); continue
        if b == "~ok": continue
        if a != b: bad.append((i, ln, a, b))
    return bad
