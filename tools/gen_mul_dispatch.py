#!/usr/bin/env python3
"""gen_mul_dispatch(ctx) -> lean/Mpir/Gen/MulDispatch.lean

A TRANSLATOR (not a checker): the integer control flow of

    mpn_mul                      mpn/generic/mul.c
    mpn_mul_n, mpn_sqr           mpn/generic/mul_n.c
    TOOM3_MUL_REC, TOOM3_SQR_REC mpn/generic/toom3_mul_n.c   (macros, wrapped into functions)
    MUL_TC4_UNSIGNED, SQR_TC4_UNSIGNED  mpn/generic/toom4_mul_n.c

is parsed from the build tree's source and emitted as pure Lean functions returning the trace of calls
(`Mpir.Skel.Res`): every `if`/`while`/`return`, every size computation and every pointer increment of
the C is kept; each call becomes an event with its size arguments evaluated and its pointer arguments
as (base id, limb offset); limb *data* is opaque.  The translator refuses (raises) when

  * a condition depends on limb data or on the result of a call,
  * a construct outside the accepted C subset appears (goto, switch, for, nested loops, ...),
  * an identifier is neither a local, a parameter, a `Params` field nor a known macro,
  * ABOVE_THRESHOLD / BELOW_THRESHOLD no longer have the definition `Mpir.Skel.Above` mirrors.

Pipeline: drop #include lines -> prepend the build's configuration macros (HAVE_NATIVE_*, WANT_*,
GMP_*_BITS from `gcc -E -dM`) and the definitions of the few statement macros that change variables
(MPN_SRCPTR_SWAP & co., copied from the same -dM output) -> `gcc -E -P` (resolves #if) -> tokenise ->
parse the C subset -> emit Lean in continuation-passing style: a join point becomes a local `fun`,
a loop becomes a top-level function with a fuel argument and an exit continuation."""
import os, re, sys, tempfile
sys.path.insert(0, os.path.dirname(os.path.abspath(__file__)))
import vlib, gen_params

class Untranslatable(Exception): pass
def bad(msg): raise Untranslatable(msg)

TYPE_KIND = {"mp_size_t": "int", "int": "int", "long": "int", "mp_bitcnt_t": "int", "unsigned": "int",
             "mp_limb_t": "limb", "mp_limb_signed_t": "limb", "mp_ptr": "ptr", "mp_srcptr": "ptr", "void": "void"}
EXPAND = ["MPN_SRCPTR_SWAP", "MP_SRCPTR_SWAP", "MP_SIZE_T_SWAP", "MPN_PTR_SWAP", "MP_PTR_SWAP"]
IGNORED_STMT_IDS = {"TMP_DECL", "TMP_SDECL"}
ABOVE_DEF = "((thresh) == 0 || ((thresh) != MP_SIZE_T_MAX && (size) >= (thresh)))"
BELOW_DEF = "(! ABOVE_THRESHOLD (size, thresh))"
LEAN_KEYWORDS = {"at", "from", "end", "in", "do", "fun", "let", "if", "then", "else", "match", "with", "open", "have", "show", "by", "where", "local", "prefix", "instance", "def", "theorem", "example", "section", "namespace", "variable", "universe", "import", "mutual", "for", "unless", "return", "try", "catch", "finally", "macro", "syntax", "notation", "deriving", "class", "structure", "inductive", "abbrev", "set_option", "attribute", "private", "protected", "partial", "unsafe", "nomatch", "nofun", "calc", "using", "obtain", "exact", "fuel", "tr", "P", "kexit"}

# ------------------------------------------------------------------ lexer
TOKEN_RE = re.compile(r"\s+|([A-Za-z_]\w*)|(0[xX][0-9a-fA-F]+|\d+)[uUlL]*|(<<=|>>=|==|!=|<=|>=|&&|\|\||\+=|-=|\*=|/=|\+\+|--|<<|>>|->|[-+*/%<>=!&|^~?:;,.(){}\[\]])")
def lex(src):
    out, pos = [], 0
    while pos < len(src):
        m = TOKEN_RE.match(src, pos)
        if not m: bad("cannot tokenise near %r" % src[pos:pos + 40])
        pos = m.end()
        if m.group(1): out.append(("id", m.group(1)))
        elif m.group(2): out.append(("num", int(m.group(2), 0)))
        elif m.group(3): out.append(("op", m.group(3)))
    return out

# ------------------------------------------------------------------ parser (C subset)
class Parser:
    def __init__(self, toks): self.t, self.p = toks, 0
    def peek(self, k=0): return self.t[self.p + k] if self.p + k < len(self.t) else ("eof", None)
    def next(self): x = self.peek(); self.p += 1; return x
    def isop(self, v, k=0): return self.peek(k) == ("op", v)
    def expect(self, v):
        if not self.isop(v): bad("expected %r, found %r" % (v, self.peek()))
        self.p += 1
    def accept(self, v):
        if self.isop(v): self.p += 1; return True
        return False
    # expressions, lowest precedence first
    def expr(self): return self.assign()
    def assign(self):
        lhs = self.cond()
        for op in ("=", "+=", "-=", "*=", "/="):
            if self.isop(op):
                self.p += 1; rhs = self.assign(); return ("assign", op, lhs, rhs)
        return lhs
    def cond(self):
        c = self.binary(0)
        if self.accept("?"):
            a = self.expr(); self.expect(":"); b = self.cond(); return ("cond", c, a, b)
        return c
    LEVELS = [["||"], ["&&"], ["|"], ["^"], ["&"], ["==", "!="], ["<", "<=", ">", ">="], ["<<", ">>"], ["+", "-"], ["*", "/", "%"]]
    def binary(self, lvl):
        if lvl == len(self.LEVELS): return self.unary()
        a = self.binary(lvl + 1)
        while self.peek()[0] == "op" and self.peek()[1] in self.LEVELS[lvl]:
            op = self.next()[1]; b = self.binary(lvl + 1); a = ("bin", op, a, b)
        return a
    def unary(self):
        if self.isop("(") and self.peek(1)[0] == "id" and self.peek(1)[1] in TYPE_KIND and self.isop(")", 2):
            ty = self.peek(1)[1]; self.p += 3; return ("cast", ty, self.unary())
        for op in ("-", "!", "~", "+", "*", "&"):
            if self.isop(op): self.p += 1; return ("un", op, self.unary())
        for op in ("++", "--"):
            if self.isop(op): self.p += 1; return ("assign", "+=" if op == "++" else "-=", self.unary(), ("num", 1))
        return self.postfix()
    def postfix(self):
        k, v = self.next()
        if k == "num": e = ("num", v)
        elif k == "id":
            if self.isop("("):
                self.p += 1; args = []
                if not self.isop(")"):
                    args.append(self.assign())
                    while self.accept(","): args.append(self.assign())
                self.expect(")"); e = ("call", v, args)
            else: e = ("id", v)
        elif (k, v) == ("op", "("):
            e = self.expr(); self.expect(")")
        else: bad("unexpected token %r in expression" % ((k, v),))
        while True:
            if self.accept("["): i = self.expr(); self.expect("]"); e = ("idx", e, i)
            elif self.isop("++") or self.isop("--"):
                op = self.next()[1]; e = ("assign", "+=" if op == "++" else "-=", e, ("num", 1))
            else: return e
    # statements
    def stmt(self):
        k, v = self.peek()
        if (k, v) == ("op", "{"):
            self.p += 1; body = []
            while not self.isop("}"): body.append(self.stmt())
            self.p += 1; return ("block", body)
        if (k, v) == ("op", ";"): self.p += 1; return ("block", [])
        if k == "id" and v == "if":
            self.p += 1; self.expect("("); c = self.expr(); self.expect(")"); a = self.stmt(); b = ("block", [])
            if self.peek() == ("id", "else"): self.p += 1; b = self.stmt()
            return ("if", c, a, b)
        if k == "id" and v == "while":
            self.p += 1; self.expect("("); c = self.expr(); self.expect(")"); return ("while", c, self.stmt())
        if k == "id" and v == "do":
            self.p += 1; body = self.stmt()
            if self.next() != ("id", "while"): bad("do without while")
            self.expect("("); c = self.expr(); self.expect(")"); self.expect(";")
            if c == ("num", 0): return body            # the `do { ... } while (0)` macro idiom
            bad("do-while loops are outside the accepted subset")
        if k == "id" and v == "return":
            self.p += 1
            if self.accept(";"): return ("return", None)
            e = self.expr(); self.expect(";"); return ("return", e)
        if k == "id" and v in ("for", "goto", "switch", "break", "continue", "case", "default"):
            bad("`%s` is outside the accepted subset" % v)
        if k == "id" and v in TYPE_KIND and self.peek(1)[0] == "id":
            self.p += 1; ds = []
            while True:
                name = self.next()[1]; size = init = None
                if self.accept("["): size = self.expr(); self.expect("]")
                if self.accept("="): init = self.assign()
                ds.append((name, size, init))
                if not self.accept(","): break
            self.expect(";"); return ("decl", v, ds)
        e = self.expr(); self.expect(";"); return ("expr", e)

def find_function(toks, name):
    depth = 0
    for i, t in enumerate(toks):
        if t == ("op", "{"): depth += 1
        elif t == ("op", "}"): depth -= 1
        elif depth == 0 and t == ("id", name) and i + 1 < len(toks) and toks[i + 1] == ("op", "(") and i > 0 and toks[i - 1][0] == "id" and toks[i - 1][1] in TYPE_KIND:
            j = i + 2; params = []
            while toks[j] != ("op", ")"):
                ty = toks[j][1]; nm = toks[j + 1][1]
                if toks[j][0] != "id" or ty not in TYPE_KIND or toks[j + 1][0] != "id": bad("parameter list of %s not understood" % name)
                params.append((nm, TYPE_KIND[ty])); j += 2
                if toks[j] == ("op", ","): j += 1
            if toks[j + 1] != ("op", "{"): continue      # a prototype
            p = Parser(toks); p.p = j + 1
            return toks[i - 1][1], params, p.stmt()
    bad("definition of %s not found" % name)

# ------------------------------------------------------------------ emitter
def lname(n): return "«%s»" % n if n in LEAN_KEYWORDS else n

class Emitter:
    clobber_fn = None      # set by generate(): (macro name, nargs) -> indices of arguments the expansion assigns to
    def __init__(self, fname, params, macros, pnames, helpers):
        self.fname, self.macros, self.pnames, self.helpers = fname, macros, pnames, helpers
        self.vars = []          # [(name, kind)] in scope, outermost first
        self.declared = set()
        self.loops = []         # emitted top-level loop definitions
        self.nk = 0; self.nbase = 100; self.bases = []
        for i, (n, k) in enumerate(params): self.declare(n, k)
    def declare(self, n, k):
        if any(v == n for v, _ in self.vars): bad("%s: redeclaration/shadowing of %s" % (self.fname, n))
        self.vars.append((n, k))
    def kind(self, n):
        for v, k in self.vars:
            if v == n: return k
        return None
    def taint(self, n):
        """the integer variable n now holds a data-dependent value: it may no longer steer control flow"""
        self.vars = [(v, ("limb" if v == n else k)) for v, k in self.vars]
    def state(self, vars_=None):
        out = []
        for n, k in (vars_ if vars_ is not None else self.vars):
            if k == "int": out.append(lname(n))
            elif k == "ptr": out += [lname(n + "_b"), lname(n + "_o")]
        return out
    # ---- kinds
    def ekind(self, e):
        t = e[0]
        if t == "num": return "int"
        if t == "id":
            k = self.kind(e[1])
            if k: return k
            if e[1] in self.pnames: return "int"
            bad("%s: unknown identifier %s" % (self.fname, e[1]))
        if t == "cast": return TYPE_KIND[e[1]]
        if t == "idx": return "limb"
        if t == "call":
            if e[1] in ("ABOVE_THRESHOLD", "BELOW_THRESHOLD"): return "bool"
            if e[1] in self.macros and self.macros[e[1]][0] is not None and e[1].endswith(("_TSIZE", "_ITCH", "_itch")): return "int"
            if e[1] in ("ABS", "MIN", "MAX"): return "int"
            return "limb"
        if t == "un":
            if e[1] == "!": return "bool"
            return self.ekind(e[2])
        if t == "cond":
            return self.ekind(e[2])
        if t == "bin":
            if e[1] in ("||", "&&", "==", "!=", "<", "<=", ">", ">="): return "bool"
            a, b = self.ekind(e[2]), self.ekind(e[3])
            if "ptr" in (a, b):
                if a == b: return "int"
                return "ptr"
            if "limb" in (a, b): return "limb"
            return "int"
        if t == "assign": return self.ekind(e[2])
        bad("kind of %r" % (e,))
    # ---- pure expressions
    def iexpr(self, e):
        t = e[0]
        if t == "num": return str(e[1])
        if t == "id":
            if self.kind(e[1]) == "int": return lname(e[1])
            if self.kind(e[1]) is None and e[1] in self.pnames: return "P." + e[1]
            bad("%s: `%s` used as an integer but is %s" % (self.fname, e[1], self.kind(e[1])))
        if t == "cast":
            if TYPE_KIND[e[1]] != "int": bad("cast to %s in integer expression" % e[1])
            return self.iexpr(e[2])
        if t == "un" and e[1] in "-+": return "(%s%s)" % (e[1] if e[1] == "-" else "", self.iexpr(e[2]))
        if t == "bin" and e[1] in "+-*":
            if self.ekind(e[2]) != "int" or self.ekind(e[3]) != "int": bad("%s: non-integer operand in %r" % (self.fname, e))
            return "(%s %s %s)" % (self.iexpr(e[2]), e[1], self.iexpr(e[3]))
        if t == "bin" and e[1] == "/": return "(cdiv %s %s)" % (self.iexpr(e[2]), self.iexpr(e[3]))
        if t == "bin" and e[1] == "%": return "(Int.tmod %s %s)" % (self.iexpr(e[2]), self.iexpr(e[3]))
        if t == "cond": return "(if %s then %s else %s)" % (self.bexpr(e[1]), self.iexpr(e[2]), self.iexpr(e[3]))
        if t == "call" and e[1] in self.macros and self.macros[e[1]][0] is not None and self.ekind(e) == "int":
            self.need_macro(e[1]); return "(%s P %s)" % (e[1], " ".join(self.iexpr(a) for a in e[2]))
        bad("%s: integer expression outside the subset (data dependent?): %r" % (self.fname, e))
    def need_macro(self, name):
        if name in self.helpers: return
        params, body = self.macros[name]
        ps = [p.strip() for p in params.strip("()").split(",")]
        sub = Emitter(name, [(p, "int") for p in ps], self.macros, self.pnames, self.helpers)
        ex = Parser(lex(body)).expr()
        self.helpers[name] = None
        self.helpers[name] = "/-- `#define %s%s %s` -/\ndef %s (P : Params) %s : Int := %s\n" % (name, params, body, name, " ".join("(%s : Int)" % lname(p) for p in ps), sub.iexpr(ex))
    def pexpr(self, e):
        """pointer expression -> (base, offset) Lean strings"""
        t = e[0]
        if t == "id" and self.kind(e[1]) == "ptr": return lname(e[1] + "_b"), lname(e[1] + "_o")
        if t == "cast": return self.pexpr(e[2])
        if t == "bin" and e[1] in "+-":
            if self.ekind(e[2]) == "ptr" and self.ekind(e[3]) == "int":
                b, o = self.pexpr(e[2]); return b, "(%s %s %s)" % (o, e[1], self.iexpr(e[3]))
            if e[1] == "+" and self.ekind(e[3]) == "ptr" and self.ekind(e[2]) == "int":
                b, o = self.pexpr(e[3]); return b, "(%s + %s)" % (o, self.iexpr(e[2]))
        bad("%s: pointer expression outside the subset: %r" % (self.fname, e))
    def bexpr(self, e):
        t = e[0]
        if t == "bin" and e[1] in ("||", "&&"):
            return "(%s %s %s)" % (self.bexpr(e[2]), "∨" if e[1] == "||" else "∧", self.bexpr(e[3]))
        if t == "un" and e[1] == "!": return "(¬ %s)" % self.bexpr(e[2])
        if t == "bin" and e[1] in ("==", "!=", "<", "<=", ">", ">="):
            ka, kb = self.ekind(e[2]), self.ekind(e[3])
            if ka == "ptr" and kb == "ptr" and e[1] in ("==", "!="):
                (b1, o1), (b2, o2) = self.pexpr(e[2]), self.pexpr(e[3])
                s = "(%s = %s ∧ %s = %s)" % (b1, b2, o1, o2)
                return s if e[1] == "==" else "(¬ %s)" % s
            if ka != "int" or kb != "int": bad("%s: condition depends on limb data or a call result: %r" % (self.fname, e))
            op = {"==": "=", "!=": "≠", "<": "<", "<=": "≤", ">": ">", ">=": "≥"}[e[1]]
            return "(%s %s %s)" % (self.iexpr(e[2]), op, self.iexpr(e[3]))
        if t == "call" and e[1] in ("ABOVE_THRESHOLD", "BELOW_THRESHOLD"):
            s = "(Above P.MP_SIZE_T_MAX %s %s)" % (self.iexpr(e[2][0]), self.iexpr(e[2][1]))
            return s if e[1] == "ABOVE_THRESHOLD" else "(¬ %s)" % s
        if self.ekind(e) == "int": return "(%s ≠ 0)" % self.iexpr(e)
        bad("%s: condition depends on limb data or a call result: %r" % (self.fname, e))
    # ---- calls inside data expressions become events
    def arg(self, a, pre):
        k = self.ekind(a)
        if k == "int": return ".sz %s" % self.iexpr(a)
        if k == "bool": return ".sz (if %s then 1 else 0)" % self.bexpr(a)
        if k == "ptr": return ".ptr %s %s" % self.pexpr(a)
        self.data(a, pre); return ".data"
    def event(self, name, args, pre):
        for a in args:
            if a[0] == "un" and a[1] == "&": bad("%s: address-of argument in call of %s" % (self.fname, name))
        items = [self.arg(a, pre) for a in args]
        pre.append("let tr := (⟨\"%s\", [%s]⟩ : Ev) :: tr" % (name, ", ".join(items)))
        # a statement macro may assign to its arguments (MPN_NORMALIZE decrements its size argument, ...)
        for i in self.clobbers(name, len(args)):
            a = args[i]
            while a[0] == "cast": a = a[2]
            if a[0] == "id" and self.kind(a[1]) == "int": self.taint(a[1])
            elif a[0] == "id" and self.kind(a[1]) == "ptr": bad("%s: macro %s assigns to pointer argument %s" % (self.fname, name, a[1]))
    def clobbers(self, name, nargs):
        if name not in self.macros or self.macros[name][0] is None: return []
        return self.clobber_fn(name, nargs)
    def data(self, e, pre):
        """evaluate a limb-valued expression for its calls only (left to right, inner first)"""
        t = e[0]
        if t == "call": self.event(e[1], e[2], pre)
        elif t in ("bin",): self.data_or_pure(e[2], pre); self.data_or_pure(e[3], pre)
        elif t in ("un", "cast"): self.data_or_pure(e[2], pre)
        elif t == "idx": pass
        elif t == "cond": bad("conditional expression on data")
        elif t in ("id", "num"): pass
        else: bad("data expression %r" % (e,))
    def data_or_pure(self, e, pre):
        if self.ekind(e) == "limb": self.data(e, pre)
    # ---- statements
    def falls(self, s):
        t = s[0]
        if t == "return": return False
        if t == "block":
            return all(self.falls(x) for x in s[1])
        if t == "if": return self.falls(s[2]) or self.falls(s[3])
        return True
    def has_loop(self, s):
        t = s[0]
        if t == "while": return True
        if t == "block": return any(self.has_loop(x) for x in s[1])
        if t == "if": return self.has_loop(s[2]) or self.has_loop(s[3])
        return False
    def assigned(self, s, acc):
        t = s[0]
        if t == "block":
            for x in s[1]: self.assigned(x, acc)
        elif t == "if": self.assigned(s[2], acc); self.assigned(s[3], acc)
        elif t == "while": self.assigned(s[2], acc)
        elif t == "expr": self.assigned_e(s[1], acc)
        elif t == "decl":
            for n, size, init in s[2]:
                if init: self.assigned_e(init, acc)
        elif t == "return" and s[1]: self.assigned_e(s[1], acc)
    def assigned_e(self, e, acc):
        if e[0] == "assign":
            lhs = e[2]
            while lhs[0] == "cast": lhs = lhs[2]
            if lhs[0] == "id": acc.add(lhs[1])
            self.assigned_e(e[3], acc)
        elif e[0] in ("bin",): self.assigned_e(e[2], acc); self.assigned_e(e[3], acc)
        elif e[0] in ("un", "cast"): self.assigned_e(e[2], acc)
        elif e[0] == "call":
            for a in e[2]: self.assigned_e(a, acc)
        elif e[0] == "cond":
            for a in e[1:]: self.assigned_e(a, acc)
        elif e[0] == "idx": self.assigned_e(e[1], acc); self.assigned_e(e[2], acc)

    def simple(self, s, pre):
        """non-control statement -> list of `let` lines appended to pre"""
        t = s[0]
        if t == "decl":
            kind = TYPE_KIND[s[1]]
            for n, size, init in s[2]:
                if size is not None:
                    if kind != "limb": bad("array of %s" % s[1])
                    self.declare(n, "ptr"); self.nbase += 1; self.bases.append((self.nbase, "%s: local array %s" % (self.fname, n)))
                    pre.append("let tr := (⟨\"array:%s\", [.sz %s]⟩ : Ev) :: tr" % (n, self.iexpr(size)))
                    pre.append("let %s : Int := %d" % (lname(n + "_b"), self.nbase)); pre.append("let %s : Int := 0" % lname(n + "_o"))
                    continue
                if kind == "int":
                    val = self.iexpr(init) if init else "0"      # C leaves it uninitialised; never read before assignment
                    self.declare(n, "int"); pre.append("let %s : Int := %s" % (lname(n), val))
                elif kind == "ptr":
                    self.declare(n, "ptr")
                    if init: self.assign_ptr(n, init, pre)
                    else: pre.append("let %s : Int := -1" % lname(n + "_b")); pre.append("let %s : Int := 0" % lname(n + "_o"))
                elif kind == "limb":
                    self.declare(n, "limb")
                    if init: self.data(init, pre)
                else: bad("declaration of kind %s" % kind)
            return
        if t == "expr":
            e = s[1]
            if e[0] == "id":
                if e[1] in IGNORED_STMT_IDS: return
                pre.append("let tr := (⟨\"%s\", []⟩ : Ev) :: tr" % e[1]); return
            if e[0] == "assign":
                lhs = e[2]
                while lhs[0] == "cast": lhs = lhs[2]
                if lhs[0] == "idx": self.data(e[3], pre); return      # store of a limb
                if lhs[0] != "id": bad("assignment target %r" % (lhs,))
                n, k = lhs[1], self.kind(lhs[1])
                if k == "int" and self.ekind(e[3]) == "limb":
                    self.data(e[3], pre); self.taint(n)
                elif k == "int":
                    rhs = self.iexpr(e[3])
                    if e[1] != "=": rhs = "%s %s %s" % (lname(n), e[1][0], rhs) if e[1][0] != "/" else "cdiv %s %s" % (lname(n), rhs)
                    pre.append("let %s : Int := %s" % (lname(n), rhs))
                elif k == "ptr":
                    if e[1] == "=": self.assign_ptr(n, e[3], pre)
                    elif e[1] in ("+=", "-="): pre.append("let %s : Int := %s %s %s" % (lname(n + "_o"), lname(n + "_o"), e[1][0], self.iexpr(e[3])))
                    else: bad("pointer %s" % e[1])
                elif k == "limb": self.data(e[3], pre)
                else: bad("%s: assignment to unknown %s" % (self.fname, n))
                return
            if e[0] == "call":
                if e[1] in ("ASSERT", "ASSERT_ALWAYS"):
                    try: c = self.bexpr(e[2][0])
                    except Untranslatable: return            # pointer-overlap / data assertions are not part of the skeleton
                    pre.append("let tr := (⟨\"%s\", [.sz (if %s then 1 else 0)]⟩ : Ev) :: tr" % (e[1], c)); return
                self.event(e[1], e[2], pre); return
            bad("%s: expression statement %r" % (self.fname, e))
        bad("simple statement %r" % (s,))
    def assign_ptr(self, n, rhs, pre):
        if rhs[0] == "call":
            self.event(rhs[1], rhs[2], pre); self.nbase += 1; self.bases.append((self.nbase, "%s: %s = %s(...)" % (self.fname, n, rhs[1])))
            pre.append("let %s : Int := %d" % (lname(n + "_b"), self.nbase)); pre.append("let %s : Int := 0" % lname(n + "_o"))
        else:
            b, o = self.pexpr(rhs)
            pre.append("let %s : Int := %s" % ("_tmp_b", b)); pre.append("let %s : Int := %s" % (lname(n + "_o"), o)); pre.append("let %s : Int := _tmp_b" % lname(n + "_b"))

    def seq(self, stmts, kont, ind, inloop=False):
        """Lean term running `stmts` then `kont` (a Lean term over the current variable names)"""
        pad = "  " * ind
        if not stmts: return pad + kont
        s, rest = stmts[0], stmts[1:]
        t = s[0]
        if t == "block":
            # names are unique among the variables in scope (checked in `declare`), so a nested block can be
            # flattened; variables declared inside a branch are dropped when the branch ends (see `if`)
            return self.seq(list(s[1]) + list(rest), kont, ind, inloop)
        if t == "return":
            pre = []
            if s[1] is None: return pad + ".void tr"
            e = s[1]; k = self.ekind(e)
            if e[0] == "idx":
                b, o = self.pexpr(e[1]); val = ".ptr %s (%s + %s)" % (b, o, self.iexpr(e[2]))
            elif k == "int": val = ".sz %s" % self.iexpr(e)
            else: self.data(e, pre); val = ".data"
            return "".join(pad + l + "\n" for l in pre) + pad + ".ret tr (%s)" % val
        if t == "if":
            c = self.bexpr(s[1]); A, B = [s[2]], [s[3]]
            fa, fb = self.falls(s[2]), self.falls(s[3])
            if not rest or not (fa or fb):
                ka = kb = kont; kdef = ""
            elif fa and fb:
                acc = self.assigned_set(s)
                ka, kdef = self.join(rest, kont, ind, inloop, acc); kb = ka
            else:
                # exactly one branch falls through: the rest belongs to that branch
                mark = len(self.vars)
                if fa:
                    ta = self.seq(A + list(rest), kont, ind + 1, inloop); del self.vars[mark:]
                    tb = self.seq(B, kont, ind + 1, inloop); del self.vars[mark:]
                else:
                    ta = self.seq(A, kont, ind + 1, inloop); del self.vars[mark:]
                    tb = self.seq(B + list(rest), kont, ind + 1, inloop); del self.vars[mark:]
                return pad + "if %s then\n%s\n%selse\n%s" % (c, ta, pad, tb)
            mark = len(self.vars)
            ta = self.seq(A, ka, ind + 1, inloop); del self.vars[mark:]
            tb = self.seq(B, kb, ind + 1, inloop); del self.vars[mark:]
            return kdef + pad + "if %s then\n%s\n%selse\n%s" % (c, ta, pad, tb)
        if t == "while":
            if inloop: bad("%s: nested loops are outside the accepted subset" % self.fname)
            self.nk += 1; lname_ = "%s_loop%d" % (self.fname, self.nk)
            st = self.state(); scope = list(self.vars)
            c = self.bexpr(s[1])
            exit_k = "kexit tr %s" % " ".join(st)
            mark = len(self.vars)
            body = self.seq([s[2]], "%s P kexit fuel tr %s" % (lname_, " ".join(st)), 3, True); del self.vars[mark:]
            ty = " → ".join(["Int"] * len(st))
            d = ("/-- loop of `%s`: `while %s`; one unit of fuel per iteration; `kexit` = the code after the loop -/\n"
                 "def %s (P : Params) (kexit : List Ev → %s → Res) : Nat → List Ev → %s → Res\n"
                 "  | 0, tr, %s => .nofuel tr\n  | fuel + 1, tr, %s =>\n    if %s then\n%s\n    else\n      %s\n") % (
                     self.fname, c.replace("-/", "- /"), lname_, ty, ty, ", ".join("_" for _ in st), ", ".join(st), c, body, exit_k)
            self.loops.append(d)
            after = self.seq(list(rest), kont, ind + 2, False)
            return (pad + "%s P\n" % lname_ + pad + "  (fun tr %s =>\n" % " ".join(st) + after + ")\n" + pad + "  fuel tr %s" % " ".join(st))
        pre = []
        self.simple(s, pre)
        return "".join(pad + l + "\n" for l in pre) + self.seq(rest, kont, ind, inloop)
    def assigned_set(self, s):
        acc = set(); self.assigned(s, acc); return acc
    def join(self, rest, kont, ind, inloop, assigned):
        """define a local join point for `rest`; returns (call term, definition text)"""
        pad = "  " * ind
        self.nk += 1; k = "k%d" % self.nk
        vs = [(n, kd) for n, kd in self.vars if n in assigned and kd in ("int", "ptr")]
        st = self.state(vs)
        mark = len(self.vars)
        body = self.seq(list(rest), kont, ind + 1, inloop); del self.vars[mark:]
        args = " ".join(["tr"] + st)
        return "%s %s" % (k, args), pad + "let %s := fun (tr : List Ev) %s =>\n%s\n" % (k, " ".join("(%s : Int)" % x for x in st), body)

def translate_function(toks, name, macros, pnames, helpers, out_name=None):
    rty, params, body = find_function(toks, name)
    out_name = out_name or name
    em = Emitter(out_name, params, macros, pnames, helpers)
    pbases = []
    nb = 0
    for n, k in params:
        if k == "ptr": nb += 1; pbases.append((nb, n))
    st = em.state()
    end = ".void tr" if TYPE_KIND[rty] == "void" else ".nofuel tr"     # falling off a non-void function cannot happen (gcc warns); mark it
    term = em.seq([body], end, 1)
    sig = " ".join("(%s : Int)" % s for s in st)
    doc = "/-- skeleton of `%s %s (%s)`; pointer parameters are (base, offset) pairs, conventional bases: %s -/\n" % (
        rty, name, ", ".join("%s %s" % (k, n) for n, k in params), ", ".join("%s=%d" % (n, b) for b, n in pbases) or "none")
    d = doc + "def %s (P : Params) (fuel : Nat) (tr : List Ev) %s : Res :=\n%s\n" % (out_name, sig, term)
    return "".join(x + "\n" for x in em.loops) + d, em.bases

SOURCES = [
    # (file relative to the build, [(function or macro, kind, wrapper signature)])
    ("mpn/generic/mul.c", [("mpn_mul", "fn", None)]),
    ("mpn/generic/mul_n.c", [("mpn_mul_n", "fn", None), ("mpn_sqr", "fn", None)]),
    ("mpn/generic/toom3_mul_n.c", [("TOOM3_MUL_REC", "macro", "mp_ptr p, mp_srcptr a, mp_srcptr b, mp_size_t n, mp_ptr ws"),
                                   ("TOOM3_SQR_REC", "macro", "mp_ptr p, mp_srcptr a, mp_size_t n, mp_ptr ws")]),
    ("mpn/generic/toom4_mul_n.c", [("MUL_TC4_UNSIGNED", "macro", "mp_ptr r3xx, mp_size_t n3xx, mp_srcptr r1xx, mp_size_t n1xx, mp_srcptr r2xx, mp_size_t n2xx"),
                                   ("SQR_TC4_UNSIGNED", "macro", "mp_ptr r3xx, mp_size_t n3xx, mp_srcptr r1xx, mp_size_t n1xx")]),
]

def preprocess(build, rel, macros, pnames, wrappers):
    src = open(os.path.join(build, rel)).read()
    src = re.sub(r"^[ \t]*#[ \t]*include[^\n]*\n", "\n", src, flags=re.M)
    # file-local defaults of constants that are Params fields stay symbolic
    src = re.sub(r"#ifndef (\w+)\n#define \1 [^\n]*\n#endif", lambda m: "" if m.group(1) in pnames else m.group(0), src)
    head = []
    for n, (params, body) in sorted(macros.items()):
        if params is None and re.match(r"^(HAVE_NATIVE_\w+|WANT_\w+|TUNE_PROGRAM_BUILD|GMP_LIMB_BITS|GMP_NAIL_BITS|GMP_NUMB_BITS)$", n):
            head.append("#define %s %s" % (n, body))
    for n in EXPAND:
        if n in macros and macros[n][0] is not None: head.append("#define %s%s %s" % (n, macros[n][0], macros[n][1]))
    tail = []
    for name, kind, sig in wrappers:
        if kind == "macro":
            args = ", ".join(x.split()[-1] for x in sig.split(","))
            tail.append("void %s_fn (%s) { %s (%s); }" % (name, sig, name, args))
    text = "\n".join(head) + "\n" + src + "\n" + "\n".join(tail) + "\n"
    with tempfile.TemporaryDirectory(dir=vlib.CACHE) as td:
        p = os.path.join(td, "x.c"); open(p, "w").write(text)
        rc, out = vlib.run(["gcc", "-E", "-P", "-undef", "-nostdinc", "-w", p])
        if rc != 0: bad("gcc -E failed on %s: %s" % (rel, out[-1500:]))
    return out

def norm_ws(s): return re.sub(r"\s+", "", s)

def make_clobber_fn(build):
    """expand `MACRO(__a0,...,__ak)` with the build's real headers and look for assignments to an argument"""
    cache = {}
    def f(name, nargs):
        if (name, nargs) in cache: return cache[(name, nargs)]
        with tempfile.TemporaryDirectory(dir=vlib.CACHE) as td:
            p = os.path.join(td, "m.c")
            open(p, "w").write('#include "mpir.h"\n#include "gmp-impl.h"\n#include "longlong.h"\n@@@@ %s(%s)\n' % (name, ", ".join("__a%d" % i for i in range(nargs))))
            rc, out = vlib.run(["gcc", "-E", "-P", "-w", "-I" + build, "-DHAVE_CONFIG_H", "-D__GMP_WITHIN_GMP", p])
        if rc != 0 or "@@@@" not in out: bad("cannot expand macro %s" % name)
        body = out.split("@@@@", 1)[1]
        res = []
        for i in range(nargs):
            a = r"\(*\s*__a%d\s*\)*" % i
            if re.search(a + r"\s*(=[^=]|\+=|-=|\*=|/=|<<=|>>=|\+\+|--)", body) or re.search(r"(\+\+|--)\s*" + a, body): res.append(i)
        cache[(name, nargs)] = res
        return res
    return f

def generate(build):
    names, vals, fft_tab, mm_tab, macros = gen_params.collect(build)
    pnames = set(names)
    for n, want in (("ABOVE_THRESHOLD", ABOVE_DEF), ("BELOW_THRESHOLD", BELOW_DEF)):
        if n not in macros or norm_ws(macros[n][1]) != norm_ws(want):
            bad("%s is no longer defined as %s (found %r): Mpir.Skel.Above must be revisited" % (n, want, macros.get(n)))
    helpers, chunks, bases = {}, [], []
    Emitter.clobber_fn = staticmethod(make_clobber_fn(build))
    for rel, items in SOURCES:
        toks = lex(preprocess(build, rel, macros, pnames, items))
        for name, kind, sig in items:
            txt, bs = translate_function(toks, name + ("_fn" if kind == "macro" else ""), macros, pnames, helpers, out_name=name)
            chunks.append("-- " + "-" * 20 + " %s  (%s)\n" % (name, rel) + txt); bases += bs
    o = ["-- GENERATED by tools/gen_mul_dispatch.py from the build tree's C sources.  Do not edit.",
         "-- Translation of the integer control flow of mpn_mul / mpn_mul_n / mpn_sqr and of the recursion macros",
         "-- of the Toom routines into pure functions returning the trace of calls (see Mpir/Model/Skel.lean).",
         "import Mpir.Model.Skel", "import Mpir.Gen.Params",
         "namespace Mpir.Gen.MulDispatch", "open Mpir.Skel Mpir.Gen", "set_option linter.unusedVariables false", ""]
    o += ["-- base ids of local buffers: " + "; ".join("%d = %s" % b for b in bases), ""]
    o += [h for h in helpers.values() if h]
    o += chunks
    o += ["end Mpir.Gen.MulDispatch", ""]
    return "\n".join(o)

def gen_mul_dispatch(ctx):
    path = os.path.join(vlib.LEAN, "Mpir", "Gen", "MulDispatch.lean")
    try: txt = generate(ctx.build)
    except Untranslatable as e: raise RuntimeError("mul dispatch source left the translatable subset: %s" % e)
    return [os.path.relpath(path, vlib.VERIF)] if vlib.write_if_changed(path, txt) else []

if __name__ == "__main__":
    class C: pass
    c = C(); c.build = sys.argv[1] if len(sys.argv) > 1 else vlib.get_build("plain")
    print(gen_mul_dispatch(c))
