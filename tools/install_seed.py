#!/usr/bin/env python3
"""install_seed.py <srcdir> --by "<ID>[,<ID>]" --how "<what the check printed>" [--missed "<IDs run that passed>"]
copies a confirmed seeded change into /verif/seeded/<name>/ (patch.diff, demo.*, meta.json extended)."""
import sys, os, json, shutil, argparse, glob
ap = argparse.ArgumentParser(); ap.add_argument("src"); ap.add_argument("--by", default=""); ap.add_argument("--how", default=""); ap.add_argument("--missed", default=""); ap.add_argument("--note", default="")
a = ap.parse_args()
name = os.path.basename(a.src.rstrip("/"))
dst = os.path.join("/verif/seeded", name); os.makedirs(dst, exist_ok=True)
for f in glob.glob(os.path.join(a.src, "*")):
    if os.path.isfile(f) and os.path.getsize(f) < 200000 and not f.endswith((".log", ".o")) and os.access(f, os.R_OK) and not os.access(f, os.X_OK) or f.endswith((".c", ".cc", ".sh", ".diff", ".json", ".txt")):
        if os.path.isfile(f): shutil.copy(f, dst)
mp = os.path.join(dst, "meta.json")
try: meta = json.load(open(mp))
except Exception: meta = {}
meta["confirmed_by_integrator"] = "patch applied to a scratch copy of /repo HEAD; bin/check run with VERIF_REPO=<copy> (tools/try_seed.sh); demo and suite results as reported by the seeding agent in how_verified"
meta["detected_by"] = [x for x in a.by.split(",") if x]
meta["detection"] = a.how
if a.missed: meta["checks_that_passed"] = [x for x in a.missed.split(",") if x]
if a.note: meta["note"] = a.note
json.dump(meta, open(mp, "w"), indent=1)
print("installed", dst, meta["detected_by"])
