#!/usr/bin/env python3
"""Translator (G layer) for C06: mp_bases[2..62] (64-bit block), the base-10 constants of gmp-impl.h and
__gmp_digit_value_tab  ->  lean/Mpir/Gen/Bases.lean.

Sources (read from the scratch copy of the working tree, `ctx.build`, else vlib.REPO):
  mpn/generic/mp_bases.c   `const struct bases mp_bases[257]` in the `GMP_NUMB_BITS == 64` block
  gmp-impl.h               MP_BASES_{CHARS_PER_LIMB,BIG_BASE,BIG_BASE_INVERTED,NORMALIZATION_STEPS}_10 (64-bit block)
  mp_dv_tab.c              `const unsigned char __gmp_digit_value_tab[]`

The `double` column chars_per_bit_exactly is stored as the IEEE-754 binary64 bit pattern of the value the C
compiler produces for the decimal literal (correctly rounded decimal->binary64, which is what Python's float()
does as well); the Lean side decodes mantissa and exponent exactly.

Raises if the source can no longer be parsed (the check then reports the translation failure)."""
import os, re, struct, sys
sys.path.insert(0, os.path.dirname(os.path.abspath(__file__)))
import vlib

class BasesParseError(Exception): pass

def _src_root(ctx):
    b = getattr(ctx, "build", None) if ctx is not None else None
    if b and os.path.exists(os.path.join(b, "mp_dv_tab.c")): return b
    return vlib.REPO

def _strip_comments_keep_index(s):
    # keep the /* nnn */ index comments (they are checked), drop nothing else: the block has no other comments
    return s

def parse_mp_bases(root):
    p = None
    for cand in ("mpn/generic/mp_bases.c", "mpn/mp_bases.c"):
        q = os.path.join(root, cand)
        if os.path.exists(q): p = q; break
    if p is None: raise BasesParseError("mp_bases.c not found under %s" % root)
    s = open(p).read()
    m = re.search(r"#\s*elif\s+GMP_NUMB_BITS\s*==\s*64\s*\n(.*?)\n#\s*else", s, re.S)
    if not m: raise BasesParseError("%s: no `#elif GMP_NUMB_BITS == 64` block" % p)
    blk = m.group(1)
    m2 = re.search(r"const\s+struct\s+bases\s+mp_bases\s*\[\s*257\s*\]\s*=\s*\{(.*)\}\s*;", blk, re.S)
    if not m2: raise BasesParseError("%s: no `const struct bases mp_bases[257] = {...};` in the 64-bit block" % p)
    body = m2.group(1)
    limb = r"(?:CNST_LIMB\s*\(\s*(0x[0-9a-fA-F]+)\s*\)|(0x[0-9a-fA-F]+|\d+))"
    ent = re.compile(r"/\*\s*(\d+)\s*\*/\s*\{\s*(\d+)\s*,\s*([0-9]+(?:\.[0-9]*)?(?:[eE][-+]?\d+)?)\s*,\s*" + limb +
                     r"(?:\s*,\s*" + limb + r")?\s*\}\s*,")
    out = {}; pos = 0; idx = 0
    for mm in ent.finditer(body):
        gap = body[pos:mm.start()]
        if gap.strip(): raise BasesParseError("%s: unparsed text before entry %d: %r" % (p, idx, gap.strip()[:80]))
        i = int(mm.group(1))
        if i != idx: raise BasesParseError("%s: entry index comment %d at position %d" % (p, i, idx))
        cpl = int(mm.group(2)); dbl = float(mm.group(3))
        bb = int(mm.group(4) or mm.group(5), 0)
        inv = int(mm.group(6) or mm.group(7), 0) if (mm.group(6) or mm.group(7)) else 0
        out[i] = (cpl, dbl, bb, inv)
        pos = mm.end(); idx += 1
    if body[pos:].strip(): raise BasesParseError("%s: unparsed text after entry %d: %r" % (p, idx - 1, body[pos:].strip()[:80]))
    if idx != 257: raise BasesParseError("%s: %d entries parsed, expected 257" % (p, idx))
    for i in range(2, 63):
        cpl, dbl, bb, inv = out[i]
        if not (0.0 < dbl <= 1.0): raise BasesParseError("base %d: chars_per_bit_exactly %r out of range" % (i, dbl))
        if bb >= 1 << 64 or inv >= 1 << 64: raise BasesParseError("base %d: limb constant does not fit 64 bits" % i)
    return out

def parse_base10_consts(root):
    p = os.path.join(root, "gmp-impl.h")
    s = open(p).read()
    res = {}
    # the constants appear in a 32-bit and a 64-bit block; take the one guarded by GMP_NUMB_BITS == 64
    for m in re.finditer(r"#if\s+GMP_NUMB_BITS\s*==\s*64\s*\n(.*?)#endif", s, re.S):
        blk = m.group(1)
        if "MP_BASES_BIG_BASE_10" not in blk: continue
        for name in ("CHARS_PER_LIMB", "BIG_BASE", "BIG_BASE_INVERTED", "NORMALIZATION_STEPS"):
            mm = re.search(r"#define\s+MP_BASES_%s_10\s+(?:CNST_LIMB\s*\(\s*(0x[0-9a-fA-F]+)\s*\)|(0x[0-9a-fA-F]+|\d+))\s*$" % name, blk, re.M)
            if not mm: raise BasesParseError("%s: MP_BASES_%s_10 not found in the 64-bit block" % (p, name))
            res[name] = int(mm.group(1) or mm.group(2), 0)
        return res
    raise BasesParseError("%s: no 64-bit block defining MP_BASES_*_10" % p)

def parse_digit_tab(root):
    p = os.path.join(root, "mp_dv_tab.c")
    s = open(p).read()
    s = re.sub(r"/\*.*?\*/", "", s, flags=re.S)
    defs = dict((k, int(v, 0)) for k, v in re.findall(r"^\s*#\s*define\s+(\w+)\s+(0x[0-9a-fA-F]+|\d+)\s*$", s, re.M))
    m = re.search(r"const\s+unsigned\s+char\s+__gmp_digit_value_tab\s*\[\s*\d*\s*\]\s*=\s*\{(.*?)\}\s*;", s, re.S)
    if not m: raise BasesParseError("%s: __gmp_digit_value_tab initialiser not found" % p)
    vals = []
    for t in m.group(1).split(","):
        t = t.strip()
        if not t: continue
        if t in defs: v = defs[t]
        elif re.fullmatch(r"0x[0-9a-fA-F]+|\d+", t): v = int(t, 0)
        else: raise BasesParseError("%s: cannot evaluate table element %r" % (p, t))
        if not 0 <= v <= 255: raise BasesParseError("%s: element %r does not fit unsigned char" % (p, t))
        vals.append(v)
    if len(vals) != 480: raise BasesParseError("%s: %d elements, expected 480 (224 + 256)" % (p, len(vals)))
    return vals

def render(bases, b10, dv, thr):
    L = []
    L.append("-- GENERATED by tools/gen_bases.py from mpn/generic/mp_bases.c (64-bit block), gmp-impl.h and mp_dv_tab.c.")
    L.append("-- Do not edit: regenerated on every check; the theorems of MpirProofs/Props/C06.lean are about these values.")
    L.append("namespace Mpir.Gen")
    L.append("")
    L.append("/-- mp_bases[2..62]: (chars_per_limb, chars_per_bit_exactly as IEEE-754 binary64 bit pattern, big_base,")
    L.append("    big_base_inverted).  Entry `i` is base `i + 2`. -/")
    L.append("def mpBases : List (Nat × Nat × Nat × Nat) := [")
    rows = []
    for b in range(2, 63):
        cpl, dbl, bb, inv = bases[b]
        bits = struct.unpack("<Q", struct.pack("<d", dbl))[0]
        rows.append("  (%d, 0x%016x, 0x%x, 0x%x)" % (cpl, bits, bb, inv) + ("," if b < 62 else "") + "  -- %d: %.16f" % (b, dbl))
    L += rows
    L.append("]")
    L.append("")
    L.append("/-- MP_BASES_CHARS_PER_LIMB_10, MP_BASES_BIG_BASE_10, MP_BASES_BIG_BASE_INVERTED_10,")
    L.append("    MP_BASES_NORMALIZATION_STEPS_10 (gmp-impl.h, 64-bit block). -/")
    L.append("def mpBases10 : Nat × Nat × Nat × Nat := (%d, 0x%x, 0x%x, %d)" % (
        b10["CHARS_PER_LIMB"], b10["BIG_BASE"], b10["BIG_BASE_INVERTED"], b10["NORMALIZATION_STEPS"]))
    L.append("")
    L.append("/-- conversion thresholds: gmp-mparam.h of the build, else the gmp-impl.h defaults -/")
    L.append("def getStrDcThreshold : Nat := %d" % thr["GET_STR_DC_THRESHOLD"])
    L.append("def getStrPrecomputeThreshold : Nat := %d" % thr["GET_STR_PRECOMPUTE_THRESHOLD"])
    L.append("def setStrDcThreshold : Nat := %d" % thr["SET_STR_DC_THRESHOLD"])
    L.append("def setStrPrecomputeThreshold : Nat := %d" % thr["SET_STR_PRECOMPUTE_THRESHOLD"])
    L.append("")
    L.append("/-- __gmp_digit_value_tab (mp_dv_tab.c): 224 + 256 entries; the second half starts at offset 224. -/")
    L.append("def digitValueTab : List Nat := [")
    for i in range(0, 480, 16):
        L.append("  " + ",".join("%3d" % v for v in dv[i:i + 16]) + ("," if i + 16 < 480 else ""))
    L.append("]")
    L.append("")
    L.append("end Mpir.Gen")
    return "\n".join(L) + "\n"

def gen_bases(ctx=None):
    """regenerate lean/Mpir/Gen/Bases.lean; returns the list of changed files"""
    root = _src_root(ctx)
    bases = parse_mp_bases(root)
    b10 = parse_base10_consts(root)
    dv = parse_digit_tab(root)
    path = os.path.join(vlib.LEAN, "Mpir", "Gen", "Bases.lean")
    return [os.path.relpath(path, vlib.VERIF)] if vlib.write_if_changed(path, render(bases, b10, dv, read_thresholds(ctx))) else []

def read_thresholds(ctx=None):
    """GET_STR_/SET_STR_ thresholds of the build's gmp-mparam.h with the gmp-impl.h defaults (for the generators)."""
    root = _src_root(ctx)
    dflt = {"GET_STR_DC_THRESHOLD": 18, "GET_STR_PRECOMPUTE_THRESHOLD": 35, "SET_STR_DC_THRESHOLD": 750, "SET_STR_PRECOMPUTE_THRESHOLD": 2000}
    out = {}
    try: gi = open(os.path.join(root, "gmp-impl.h")).read()
    except OSError: gi = ""
    try: mp = open(os.path.join(root, "gmp-mparam.h")).read()
    except OSError: mp = ""
    for k, d in dflt.items():
        m = re.search(r"^\s*#\s*define\s+%s\s+(\d+)" % k, mp, re.M)
        if m: out[k] = int(m.group(1)); continue
        m = re.search(r"#ifndef\s+%s\s*\n\s*#\s*define\s+%s\s+(\d+)" % (k, k), gi)
        out[k] = int(m.group(1)) if m else d
    return out

if __name__ == "__main__":
    print(gen_bases(None), read_thresholds(None))
