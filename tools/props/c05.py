"""C05 — main module (parts: c05_*.py are merged automatically)."""
LEVEL = "proof"
LEAN_MODULES = []
THEOREMS = []
TRUSTED = []
ASSUMPTIONS = []
LEVEL_TEXT = 'Alias-independence: Lean theorems for the id-based object models (result equals the distinct-variable call for every permitted alias pattern) plus a differential aliased-vs-distinct run over every public mpz/mpq/mpf function generated from mpir.h prototypes, with values chosen to force reallocation of the aliased destination.'
LEVEL_NOTE = 'Functions without an object-level model are covered by the differential run only.'
PLACEHOLDER = True
