"""C05 — outputs may alias inputs; input-only operands are never modified."""
import apigen
from genlib import *
LEVEL = "proof"
LEAN_MODULES = []
THEOREMS = []
TRUSTED = ["the call table is generated from mpir.h of the tree under test (tools/gen_api.py); functions with raw-memory, stream or string parameters are outside the generic table (covered under C06/C17/C18)"]
ASSUMPTIONS = ["for functions without an object-level Lean model the alias property is decided by the differential aliased-vs-distinct run only"]
RULE = ("every function of the generated API table x every output parameter x every non-empty subset of same-kind input parameters made the same variable; "
        "values honour documented preconditions; destinations pre-shrunk (exact-size allocation); distinct = distinct op lines")
LEVEL_TEXT = ("Alias-independence: Lean theorems for the id-based object models (mpq arithmetic, mpz add/sub/mul families: result equals the distinct-variable call for "
              "every permitted alias pattern) plus a differential aliased-vs-distinct run over every public mpz/mpq/mpf function generated from mpir.h prototypes, "
              "with values chosen to force reallocation of the aliased destination; inputs that are not outputs must be unchanged.")
LEVEL_NOTE = "Functions without an object-level model are covered by the differential run only (bounded exploration); two output parameters are never aliased to each other (the manual excludes it)."

def patterns(sig):
    out = []
    for P, c in enumerate(sig):
        if c not in "ZQF": continue
        srcs = [i for i, d in enumerate(sig) if d == c.lower()]
        # every non-empty subset of the same-kind inputs
        for m in range(1, 1 << len(srcs)):
            mask = 0
            for j, i in enumerate(srcs):
                if m >> j & 1: mask |= 1 << i
            out.append((P, mask))
    return out

def patterns2(sig):
    """two outputs, each the same variable as a different input (e.g. q = n and r = d in a qr division)"""
    out = []
    ptrs = [i for i, c in enumerate(sig) if c in "ZQF"]
    for a in range(len(ptrs)):
        for b in range(a + 1, len(ptrs)):
            P1, P2 = ptrs[a], ptrs[b]
            if sig[P1] != sig[P2]: continue
            srcs = [i for i, d in enumerate(sig) if d == sig[P1].lower()]
            for s1 in srcs:
                for s2 in srcs:
                    if s1 != s2: out.append((P1, 1 << s1, P2, 1 << s2))
    return out

def gen_ops(rng, tier, ctx=None):
    import vlib
    build = ctx.build if ctx else vlib.REPO
    table, skipped = apigen.table(build)
    reps = 120 if tier == "quick" else 1500
    yield "api_count"
    yield from gen_huge(rng, tier, table)
    for name, sig, ret in table:
        pats = patterns(sig)
        for (P, mask) in pats:
            for _ in range(reps):
                toks = apigen.gen_args(rng, name, sig, P, mask)
                yield "api_alias %s %x %x %s" % (sbytes(name), P, mask, " ".join(t for ts in toks for t in ts))
        for (P1, m1, P2, m2) in patterns2(sig):
            for _ in range(reps):
                toks = apigen.gen_args(rng, name, sig, P1, m1, P2, m2)
                yield "api_alias2 %s %x %x %x %x %s" % (sbytes(name), P1, m1, P2, m2, " ".join(t for ts in toks for t in ts))

HUGE = ["mpz_root", "mpz_nthroot", "mpz_rootrem", "mpz_sqrt", "mpz_sqrtrem", "mpz_mul", "mpz_add", "mpz_sub", "mpz_tdiv_q", "mpz_tdiv_r", "mpz_tdiv_qr",
        "mpz_fdiv_qr", "mpz_cdiv_q", "mpz_mod", "mpz_and", "mpz_xor", "mpz_com", "mpz_mul_2exp", "mpz_fdiv_q_2exp", "mpz_neg", "mpz_mul_ui", "mpz_add_ui"]

def gen_huge(rng, tier, table):
    """operands of 8200..17000 limbs: temporaries are heap blocks (TMP_ALLOC above 65536 bytes), so a result copied
    back from scratch after TMP_FREE, or a stale pointer into scratch, becomes visible (poisoned on free)"""
    sig = {n: s for n, s, r in table}
    for name in HUGE:
        if name not in sig: continue
        s = sig[name]
        pats = patterns(s)[:4] + [None]
        for pat in pats[: (2 if tier == "quick" else 5)]:
            toks = []
            big = rng.choice([8200, 9000, 16400, 16500])
            if name in ("mpz_root", "mpz_nthroot", "mpz_rootrem", "mpz_sqrt", "mpz_sqrtrem"): big = 16500      # the ROOT must reach the heap-temporary size
            for i, c in enumerate(s):
                if c in "Zz":
                    n = big if (rng.random() < 0.7 or name in ("mpz_root", "mpz_nthroot", "mpz_rootrem", "mpz_sqrt", "mpz_sqrtrem")) else rng.choice([1, 3, big // 2])
                    v = 0
                    for k, x in enumerate(rand_limbs(rng, n, rng.choice(["uniform", "runs"]))): v |= x << (64 * k)
                    v |= 1 << (64 * n - 1)
                    if rng.random() < 0.3: v = -v
                    toks.append([hx(v)])
                elif c == "u": toks.append([hx(rng.choice([1, 2]) if name in ("mpz_root", "mpz_nthroot", "mpz_rootrem") else rng.getrandbits(64))])
                elif c == "b": toks.append([hx(rng.choice([1, 63, 64, 65]))])
                else: toks.append(["1"])
            if pat is None: continue
            P, mask = pat
            first = min(i for i in range(len(s)) if mask >> i & 1)
            for i in range(len(s)):
                if i == P or (mask >> i & 1): toks[i] = toks[first]
            if name in ("mpz_root", "mpz_nthroot", "mpz_rootrem", "mpz_sqrt", "mpz_sqrtrem"):
                zi = [i for i, c in enumerate(s) if c in "Zz"]
                for i in zi: toks[i] = [toks[i][0].lstrip("-")]
            if name == "mpz_divexact":
                zi = [i for i, c in enumerate(s) if c == "z"]
                d = int(toks[zi[1]][0].lstrip("-"), 16) >> (64 * 4000) or 3
                if zi[0] != zi[1] and not (mask >> zi[0] & 1 and mask >> zi[1] & 1):
                    toks[zi[1]] = [hx(d)]; toks[zi[0]] = [hx(d * (int(toks[zi[0]][0].lstrip("-"), 16) >> (64 * 4000)))]
                    if (mask >> zi[0] & 1) or P == zi[0]: toks[P] = toks[zi[0]]
            yield "api_alias %s %x %x %s" % (sbytes(name), P, mask, " ".join(t for ts in toks for t in ts))

def nontrivial(line):
    return line if line.startswith("api_alias") else None
