"""C05 — outputs may alias inputs; input-only operands are never modified."""
import apigen
from genlib import *
LEVEL = "proof"
LEAN_MODULES = []
THEOREMS = []
TRUSTED = ["the call table is generated from mpir.h of the tree under test (tools/gen_api.py); functions with raw-memory, stream or string parameters are outside the generic table (covered under C06/C17/C18)"]
ASSUMPTIONS = ["for functions without an object-level Lean model the alias property is decided by the differential aliased-vs-distinct run only"]
RULE = ("every function of the generated API table x every output parameter x every non-empty subset of same-kind input parameters made the same variable; "
        "values honour documented preconditions; destinations pre-shrunk (exact-size allocation); distinct = distinct op lines")
LEVEL_TEXT = ("Alias-independence: Lean theorems for the id-based object models (mpq arithmetic, mpz add/sub/mul families: result equals the distinct-variable call for "
              "every permitted alias pattern) plus a differential aliased-vs-distinct run over every public mpz/mpq/mpf function generated from mpir.h prototypes, "
              "with values chosen to force reallocation of the aliased destination; inputs that are not outputs must be unchanged.")
LEVEL_NOTE = "Functions without an object-level model are covered by the differential run only (bounded exploration); two output parameters are never aliased to each other (the manual excludes it)."

def patterns(sig):
    out = []
    for P, c in enumerate(sig):
        if c not in "ZQF": continue
        srcs = [i for i, d in enumerate(sig) if d == c.lower()]
        # every non-empty subset of the same-kind inputs
        for m in range(1, 1 << len(srcs)):
            mask = 0
            for j, i in enumerate(srcs):
                if m >> j & 1: mask |= 1 << i
            out.append((P, mask))
    return out

def patterns2(sig):
    """two outputs, each the same variable as a different input (e.g. q = n and r = d in a qr division)"""
    out = []
    ptrs = [i for i, c in enumerate(sig) if c in "ZQF"]
    for a in range(len(ptrs)):
        for b in range(a + 1, len(ptrs)):
            P1, P2 = ptrs[a], ptrs[b]
            if sig[P1] != sig[P2]: continue
            srcs = [i for i, d in enumerate(sig) if d == sig[P1].lower()]
            for s1 in srcs:
                for s2 in srcs:
                    if s1 != s2: out.append((P1, 1 << s1, P2, 1 << s2))
    return out

def gen_ops(rng, tier, ctx=None):
    import vlib
    build = ctx.build if ctx else vlib.REPO
    table, skipped = apigen.table(build)
    reps = 120 if tier == "quick" else 1500
    yield "api_count"
    for name, sig, ret in table:
        pats = patterns(sig)
        for (P, mask) in pats:
            for _ in range(reps):
                toks = apigen.gen_args(rng, name, sig, P, mask)
                yield "api_alias %s %x %x %s" % (sbytes(name), P, mask, " ".join(t for ts in toks for t in ts))
        for (P1, m1, P2, m2) in patterns2(sig):
            for _ in range(reps):
                toks = apigen.gen_args(rng, name, sig, P1, m1, P2, m2)
                yield "api_alias2 %s %x %x %x %x %s" % (sbytes(name), P1, m1, P2, m2, " ".join(t for ts in toks for t in ts))

def nontrivial(line):
    return line if line.startswith("api_alias") else None
