"""C02 part (integrator): quotient much shorter than the divisor with a divisor whose top limb is 1 followed by zero limbs
(the truncated-divisor error of the approximate quotient in mpn_tdiv_q is largest there), dividends (q+1)*d - 1; and
mpn_divrem with one-limb divisors in its documented in-place form."""
from genlib import *
B = 1 << 64
def gen_ops(rng, tier, ctx=None):
    for qn in (1, 2, 3):
        for dn in ([qn + 6, qn + 7, qn + 9, 12, 20] if tier == "quick" else [qn + 6, qn + 7, qn + 8, qn + 9, 12, 20, 40, 90]):
            for shift in (0, 1, 31, 63):
                for _ in range(2):
                    low = 0
                    for i, x in enumerate(rand_limbs(rng, dn - qn - 1, rng.choice(["uniform", "ones", "runs"]))): low |= x << (64 * i)
                    d = (1 << (64 * (dn - 1))) | (low or 1)                         # top limb 1, then >= qn zero limbs, then non-zero limbs
                    d = d << shift if shift and d.bit_length() + shift <= 64 * dn else d
                    q = rng.getrandbits(64 * qn) | 1 << (64 * qn - 1)
                    for n in ((q + 1) * d - 1, q * d, q * d + d // 2, (q + 1) * d - rng.randrange(1, 1 << 20)):
                        nl = limbs_of(n); dl = limbs_of(d)
                        yield "mpn_tdiv_q %s %s" % (vec(nl), vec(dl))
                        yield "mpz_tdiv_q 0 %s %s" % (hx(n), hx(d))
                        yield "mpz_fdiv_q 0 %s %s" % (hx(-n), hx(d))

    # the same regime with a NORMALISED divisor 2^(64dn-1) + tail (tail below the top qn+1 limbs, as large as it can be) and the
    # largest quotients 2^(64qn) - 1 - e: the truncated divisor under-estimates d by the largest relative amount and the
    # quotient multiplies that error by almost 2^(64qn), so the guard limb of the approximate quotient is off by more than one unit
    for qn in ([1, 2, 3, 5, 8] if tier == "quick" else [1, 2, 3, 4, 5, 6, 7, 8, 16, 24, 32, 40]):
        for extra in (6, 7, 8, 9):
            dn = qn + extra
            for sh in (0, 7, 63):
                for tailkind in ("ones", "ones-small", "rand-hi"):
                    tb = 64 * (dn - qn - 1)
                    tail = (1 << tb) - 1
                    if tailkind == "ones-small": tail -= rng.randrange(1, 1 << 16)
                    elif tailkind == "rand-hi": tail = rng.getrandbits(tb) | (((1 << 40) - 1) << (tb - 40))
                    d = ((1 << (64 * dn - 1)) + tail) >> sh
                    for e in (0, 1, 2):
                        q = (1 << (64 * qn)) - 1 - e
                        for n in (q * d + d - 1, q * d + d - 1 - rng.randrange(1 << 30), q * d):
                            yield "mpn_tdiv_q %s %s" % (vec(limbs_of(n)), vec(limbs_of(d)))
                            yield "mpz_tdiv_q 0 %s %s" % (hx(n), hx(d))
                            if e == 0: yield "mpz_cdiv_q 0 %s %s" % (hx(-n), hx(d))
