"""C18, obstack member of the printf family — gmp_obstack_printf / gmp_obstack_vprintf appending to ONE growing object that is
moved from chunk to chunk in the middle of padding runs, digit strings and C-library pieces (part of C18, merged by check.py)."""
import os, glob, random
from genlib import *

LEAN_MODULES = ["MpirProofs.Props.C18_obstack"]
THEOREMS = ["Mpir.Obstack.obstack_funs_refine", "Mpir.Obstack.obstack_eq_asprintf", "Mpir.Obstack.obstack_printf_seq",
            "Mpir.Obstack.obstack_doprnt_count", "Mpir.Obstack.obstack_reps_stale_differs"]
TRUSTED = ["hand-written model lean/Mpir/Model/Obstack.lean of printf/obprntffuns.c (gmp_obstack_memory, gmp_obstack_reps, the format slot) on a model of the "
           "part of glibc's struct obstack they touch (obstack_grow / obstack_blank / obstack_next_free / _obstack_newchunk of glibc 2.36 malloc/obstack.c, "
           "default alignment 16, 16-byte chunk header); tied by the ops gmp_obstack_seq / gmp_obstack_vseq / gmp_obstack_mix / gmp_obstack_vmix "
           "(harness/ops_obstack.c, lean/Mpir/Ops/Obstack.lean): bytes of the whole object, sum of the return values, and for formats made of MPIR conversions "
           "alone the number of chunks allocated and freed",
           "glibc's obstack_vprintf (the format slot) appends exactly what vsnprintf would produce for the piece and returns its length; how it asks the obstack "
           "for room is not modelled (no chunk counts are compared when a C-library piece is present)",
           "harness chunk functions (harness/ops_obstack.c): malloc + fill 0xEE / fill 0xDD + free, so a byte of the object that was never stored, or one read back from a "
           "released chunk, is visible in the compared bytes; in the plain build released chunks are kept until the end of the op and checked (marker !stalewrite: written after "
           "release; !chunkoob: red zones of 64 bytes around every chunk), in the AddressSanitizer build they are freed at once; the same generators are replayed on the "
           "AddressSanitizer build in every tier and compared with the model (stage `extra` of this part)"]
ASSUMPTIONS = ["obstack: counts are natural numbers in the model (the C returns `int`: an object or piece of 2^31 bytes or more is outside the statement, as for the "
               "other members of the family); allocation failure ends in obstack_alloc_failed_handler (abort), not in a return value"]
RULE = ("obstack: chunk sizes 64, 128, 4096 and glibc's default, with and without an earlier finished object in the first chunk; the same piece repeated until the object "
        "has crossed at least two chunks for every width 1..300 (right, left, zero, precision, width+precision, # hex, Q, F, %s, %d, literal text, long digit strings); "
        "aimed sequences prefix(room-j) + field + trailer for every offset j of the field (padding run, sign, prefix, precision zeros, digits, C-library piece); random "
        "interleavings of 3..12 pieces of different widths; mixed formats %Zd %Zx %Qd %Fe %s %d %n repeated; both entry points; distinct = distinct op lines")

CHUNKS = [64, 128, 4096]
HDR = 16
def alignup(n): return (n + 15) // 16 * 16
def room0(chunk, pre): return (chunk or 4064) - HDR - alignup(pre)

def fval(m, e2):
    """tokens `exp size [limbs]` of the mpf with value m * 2^e2"""
    neg = m < 0; m = abs(m)
    if m == 0: return "0 0 []"
    sh = e2 % 64; m <<= sh; e2 -= sh
    while m % B == 0: m >>= 64; e2 += 64
    l = limbs_of(m); n = len(l)
    return "%s %s %s" % (hx(e2 // 64 + n), hx(-n if neg else n), vec(l))
FVALS = [(1, 0), (-1, 0), (1, -1), (3, -1), (5, -4), (12345, 0), (12345, -3), (-9999, -2), (999999, -1), (1, 10), (10 ** 15, 0), (255, -8), (7, 3), (0, 0)]

def digits_val(rng, d, neg=False):
    """an integer with exactly d decimal digits"""
    v = rng.randrange(10 ** (d - 1), 10 ** d) if d > 1 else rng.randrange(1, 10)
    return -v if neg else v

# ---- one piece of known length: (fmt, types, [arg tokens], length, mpir_only)
STYLES = ["r", "l", "0", "p", "wp", "x", "x0", "Q", "F", "big", "s", "sl", "d", "d0", "t", "mixlit"]
MPIR_ONLY = {"r", "l", "0", "p", "wp", "x", "x0", "Q", "F", "big"}
def field(rng, style, W):
    """a conversion whose output is exactly W bytes long (W >= 1), padded the way `style` says"""
    D = max(1, min(W, rng.choice([1, 2, 3, 7, 19, 20, 21, 40])))
    if style == "r": return ("%*Zd", "iZ", [hx(W), hx(digits_val(rng, D))], W, True)
    if style == "l": return ("%-*Zd", "iZ", [hx(W), hx(digits_val(rng, D))], W, True)
    if style == "0":
        if W < 2: return field(rng, "r", W)
        D = min(D, W - 1); return ("%0*Zd", "iZ", [hx(W), hx(digits_val(rng, D, True))], W, True)          # '-', zeros, digits
    if style == "p": return ("%.*Zd", "iZ", [hx(W), hx(digits_val(rng, D))], W, True)                       # precision zeros, digits
    if style == "wp":
        if W < 3: return field(rng, "p", W)
        D = min(D, W - 2); P = rng.randrange(D, W - 1)
        return ("%+*.*Zd", "iiZ", [hx(W), hx(P), hx(digits_val(rng, D))], W, True)                           # blanks, '+', zeros, digits
    if style in ("x", "x0"):
        if W < 3: return field(rng, "r", W)
        D = min(D, W - 2); v = rng.randrange(16 ** (D - 1), 16 ** D) if D > 1 else rng.randrange(1, 16)
        return ("%#*Zx" if style == "x" else "%#0*ZX", "iZ", [hx(W), hx(v)], W, True)                        # blanks 0x digits | 0X zeros digits
    if style == "Q":
        if W < 3: return field(rng, "r", W)
        dn = max(1, min(D, W - 2)); dd = max(1, min(rng.choice([1, 2, 5]), W - 1 - dn))
        den = digits_val(rng, dd)
        if den == 1: den = 3
        return (rng.choice(["%*Qd", "%-*Qd"]), "iQ", [hx(W), hx(digits_val(rng, dn, dn + dd + 2 <= W and rng.random() < 0.3)), hx(den)], W, True)
    if style == "F":
        if W < 12: return field(rng, "l", W)
        m, e = rng.choice(FVALS)
        return (rng.choice(["%*.3Fe", "%-*.3Fe", "%0*.3Fe"]), "iF", [hx(W), "80 " + fval(m, e)], W, True)  # [-]d.ddde+XX is at most 10 bytes
    if style == "big": return ("%Zd", "Z", [hx(digits_val(rng, W))], W, True)                              # W digits handed to `memory` in one piece
    if style == "s":
        n = rng.randrange(0, W + 1); return ("%*s", "is", [hx(W), sbytes("".join(rng.choice("abcdefgh") for _ in range(n)))], W, False)
    if style == "sl":
        n = rng.randrange(0, W + 1); return ("%-*s", "is", [hx(W), sbytes("".join(rng.choice("abcdefgh") for _ in range(n)))], W, False)
    if style == "d": return (rng.choice(["%*d", "%-*d"]), "ii", [hx(W), hx(rng.choice([0, 7, -7, 12345, -2 ** 31]) if W >= 11 else rng.randrange(0, 10))], W, False)
    if style == "d0":
        if W < 11: return field(rng, "d", W)
        return ("%0*ld", "ii", [hx(W), hx(rng.choice([-1, 2 ** 31, -12345]))], W, False)
    if style == "t": return ("".join(rng.choice("uvwxyz-") for _ in range(W)), "", [], W, False)           # literal text (C-library piece, no argument)
    if style == "mixlit":                                                                                    # text | MPIR | text in one call
        if W < 5: return field(rng, "t", W)
        f, ty, a, _, _ = field(rng, rng.choice(["r", "l", "0", "p"]), W - 2)
        return ("<" + f + ">", ty, a, W, False)
    raise ValueError(style)

def piece_tokens(p): return " ".join([sbytes(p[0]), sbytes(p[1])] + p[2])

def mix_line(rng, chunk, pre, pieces, stats=None):
    assert chunk == 0 or pre <= chunk - HDR
    if stats is None: stats = int(all(p[4] for p in pieces))
    op = rng.choice(["gmp_obstack_mix", "gmp_obstack_vmix"])
    return " ".join([op, hx(chunk), hx(pre), hx(stats), hx(len(pieces))] + [piece_tokens(p) for p in pieces])

def seq_line(rng, chunk, pre, p, reps, stats=None):
    if stats is None: stats = int(bool(p[4]))
    op = rng.choice(["gmp_obstack_seq", "gmp_obstack_vseq"])
    return " ".join([op, piece_tokens(p), hx(reps), hx(chunk), hx(pre), hx(stats)])

def pick_pre(rng, chunk):
    cap = (chunk or 4064) - HDR
    return rng.choice([0, 0, 0, 5, 16, 17, 32 if cap >= 32 else 0, cap if chunk == 64 and rng.random() < 0.3 else 0])

def trim(pieces, fixed=4):
    """the harness reads at most 64 tokens per line"""
    while len(pieces) > 1 and fixed + sum(len(piece_tokens(p).split()) for p in pieces) > 62: pieces = pieces[:-1]
    return pieces

# ---- A: the same piece until the object has crossed at least two chunks, every width 1..300
def seq_widths(rng, tier):
    quick = tier == "quick"
    for chunk in CHUNKS + [0]:
        ws = list(range(1, 301))
        if quick and chunk == 4096: ws = sorted(rng.sample(ws, 60))
        if quick and chunk == 0: ws = sorted(rng.sample(range(8, 301), 12))
        for W in ws:
            for style in rng.sample(STYLES, (2 if quick else 6) if chunk in (64, 128) else 1):
                pre = pick_pre(rng, chunk)
                if chunk == 4096 and (rng.random() < 0.6 or (quick and W < 8)):
                    pre = rng.choice([3584, 3840, 4000, 4080])      # an earlier object leaves 496, 240, 80, 0 bytes of the first chunk: few calls reach its end
                p = field(rng, style, W)
                need = room0(chunk, pre) + 2 * W + 140 + (chunk if chunk in (64, 128) else 0) // 8     # past the first chunk and past the slack of the second
                reps = min(4096, need // W + 2)
                yield seq_line(rng, chunk, pre, p, reps)

# ---- B: prefix (room - j) + field + trailer: the first move happens at offset j of the field, for every j
def offsets(rng, L, tier, few=False):
    if (L <= 48 and not few) or tier != "quick": return list(range(0, L + 1))
    js = {0, 1, 2, L - 2, L - 1, L}
    while len(js) < min(L + 1, 10 if few else 20): js.add(rng.randrange(0, L + 1))
    return sorted(js)

def aimed(rng, tier):
    quick = tier == "quick"
    # (chunk, pre, widths, few offsets): small chunks reach the low offsets; 512 and 4096-with-an-earlier-object reach every offset of a
    # 300-byte field with a small object (old chunk freed / kept); 4096 alone moves a 4 KB object
    plans = [(64, 0, (5, 17, 40, 100, 300), False), (128, 0, (5, 17, 40, 100, 300), False), (128, 5, (17, 100), False),
             (512, 0, (100, 300), False), (4096, 3760, (40, 100, 300), False), (4096, 0, (17, 300) if quick else (5, 17, 40, 100, 300), quick)]
    if not quick: plans += [(0, 0, (17, 300), False), (0, 1000, (40,), False)]
    for chunk, pre, widths, few in plans:
        R0 = room0(chunk, pre)
        for style in STYLES:
            for W in widths:
                if style in ("F", "d0") and W < 12: continue
                for j in offsets(rng, W, tier, few):
                    if j > R0: continue
                    f = field(rng, style, W)
                    pieces = []
                    if R0 - j > 0:
                        pieces.append(field(rng, "r" if f[4] else rng.choice(["r", "s", "t"]), R0 - j))
                    pieces.append(f)
                    for _ in range(rng.randrange(0, 3)):
                        pieces.append(field(rng, rng.choice(sorted(MPIR_ONLY)) if f[4] and rng.random() < 0.7 else rng.choice(STYLES), rng.randrange(1, 301)))
                    yield mix_line(rng, chunk, pre, trim(pieces))

# ---- C: random interleavings of pieces of different widths
def interleaved(rng, tier):
    n = 800 if tier == "quick" else 10000
    for _ in range(n):
        chunk = rng.choice([64, 128] * 5 + [512, 4096, 0]); pre = pick_pre(rng, chunk)
        k = rng.randrange(3, 13)
        only = rng.random() < 0.4
        pieces = [field(rng, rng.choice(sorted(MPIR_ONLY)) if only else rng.choice(STYLES), rng.choice([rng.randrange(1, 301), rng.randrange(1, 40)])) for _ in range(k)]
        if chunk in (4096, 0):                                  # make sure the big chunk is left at all
            pieces.insert(rng.randrange(0, 2), field(rng, rng.choice(["r", "l", "p", "big", "s", "t"]), room0(chunk, pre) - rng.randrange(0, 300)))
        yield mix_line(rng, chunk, pre, trim(pieces))

# ---- D: formats mixing MPIR and standard conversions, repeated
def rnd_spec(rng):
    kind = rng.choice(["Zd", "Zx", "Qd", "Fe", "s", "d", "lit", "n", "Zd", "Zx"])
    fl = "".join(rng.sample("-+ #0", rng.randrange(0, 3)))
    w = rng.choice(["", "3", "12", "47", "*"]); p = rng.choice(["", "", ".0", ".2", ".9", ".*"])
    ty, args = "", []
    if kind == "lit": return "".join(rng.choice("abc xyz,:;[]()=") for _ in range(rng.randrange(1, 6))), "", []
    if kind == "n": return "%n", "n", []
    if kind in ("Qd", "s"): p = ""
    if kind == "s": fl = "-" if "-" in fl else ""
    if w == "*": ty += "i"; args.append(hx(rng.choice([0, 4, 9, 33, 120, -6, -50])))
    if p == ".*": ty += "i"; args.append(hx(rng.choice([0, 2, 6, 30, -1])))
    pre = "%" + fl + w + p
    if kind == "Zd": return pre + "Zd", ty + "Z", args + [hx(rng.choice([0, 1, -1, 10 ** 40, -2 ** 64, rand_int(rng, 3)]))]
    if kind == "Zx": return pre + "Z" + rng.choice("xXo"), ty + "Z", args + [hx(rng.choice([0, 255, -255, 2 ** 64, rand_int(rng, 3)]))]
    if kind == "Qd": return pre + "Qd", ty + "Q", args + [hx(rng.choice([0, 1, -9, 10 ** 20])), hx(rng.choice([1, 2, 3, 16, 10 ** 20]))]
    if kind == "Fe":
        m, e = rng.choice(FVALS)
        return pre + "F" + rng.choice("eEfg"), ty + "F", args + ["80 " + fval(m, e)]
    if kind == "s": return pre + "s", ty + "s", args + [sbytes("".join(rng.choice("hello, world") for _ in range(rng.randrange(0, 30))))]
    return pre + rng.choice(["d", "ld", "u", "lx", "hhd"]), ty + "i", args + [hx(rng.choice([0, 1, -1, 255, 2 ** 31 - 1, -2 ** 31, 2 ** 63 - 1]))]

def mixed_formats(rng, tier):
    n = 700 if tier == "quick" else 6000
    for _ in range(n):
        f, ty, args, slots = "", "", [], 0
        for _ in range(rng.randrange(1, 6)):
            sf, st, sa = rnd_spec(rng)
            if slots + len(st) > 11 or (ty + st).count("F") > 2 or (ty + st).count("Q") > 4: break
            slots += len(st); f += sf; ty += st; args += sa
        chunk = rng.choice([64, 128] * 6 + [4096, 0]); pre = pick_pre(rng, chunk)
        reps = rng.choice([1, 2, 3, 5, 8, 13, 40]) if chunk in (64, 128) else rng.choice([1, 30, 100])
        yield seq_line(rng, chunk, pre, (f, ty, args, None, False), reps, 0)

# ---- E: corners
def corners(rng, tier):
    for chunk in CHUNKS + [0]:
        yield seq_line(rng, chunk, 0, ("", "", [], 0, True), 3)                                          # nothing appended: the object is the terminator alone
        yield seq_line(rng, chunk, 0, ("%Zd", "Z", ["0"], 1, True), 1)
        yield seq_line(rng, chunk, 0, ("%*Zd", "iZ", [hx(5000), "7"], 5000, True), 2)                    # one run longer than several chunks
        yield seq_line(rng, chunk, 0, ("%-*Zd", "iZ", [hx(5000), "-7"], 5000, True), 2)
        yield seq_line(rng, chunk, 0, ("%.*Zd", "iZ", [hx(5000), "7"], 5000, True), 2)
        yield seq_line(rng, chunk, 0, ("%Zd", "Z", [hx(10 ** 1000)], 1001, True), 5)
        yield seq_line(rng, chunk, 0, ("%Zx", "Z", [hx(-(2 ** 4000))], 1002, True), 5)
        yield seq_line(rng, chunk, 0, ("%s", "s", [sbytes("q" * 1000)], 1000, False), 5)
        yield seq_line(rng, chunk, 0, ("%*d", "ii", [hx(1000), "-5"], 1000, False), 5)
        yield seq_line(rng, chunk, 0, ("%Zd%n%*Zd%ln", "ZniZn", ["-64", hx(90), "ff"], None, False), 3, 0)   # %n stores the count of THIS call
        yield seq_line(rng, chunk, 0, ("a%nb%Znc%Qnd", "nzq", [], None, False), 40, 0)
        yield seq_line(rng, chunk, 0, ("%*Zd", "iZ", ["0", "5"], 1, True), 200)                          # width 0: no padding call at all
        yield seq_line(rng, chunk, 0, ("%.0Zd", "Z", ["0"], 0, True), 7)                                 # no characters
        if chunk:                                                                                         # the first chunk exactly full, then one byte / one blank
            R0 = room0(chunk, 0)
            for style in ("r", "l", "p", "big", "s", "t"):
                for extra in (0, 1, 2):
                    yield mix_line(rng, chunk, 0, [field(rng, style, R0 - 1 + extra), field(rng, "r", 1), field(rng, "l", 2)])
            yield mix_line(rng, chunk, chunk - HDR, [field(rng, "s", 3), field(rng, "r", 9)], 0)         # an earlier object fills the first chunk: room 0 at the first call
            yield mix_line(rng, chunk, chunk - HDR, [field(rng, "r", 9), field(rng, "s", 3)])

def gen_ops(rng, tier, ctx=None):
    yield from corners(rng, tier)
    yield from seq_widths(rng, tier)
    yield from aimed(rng, tier)
    yield from interleaved(rng, tier)
    yield from mixed_formats(rng, tier)

def extra(ctx, cov):
    """the obstack op stream once more on the AddressSanitizer build (vlib variant "asan"), in every tier, compared with the model like the plain run:
    a store through a pointer into a chunk that _obstack_newchunk has released, or past a chunk's end, aborts there even when the bytes read back are right."""
    import vlib
    build = vlib.get_build("asan"); h = vlib.get_harness(build, "asan")
    rng = random.Random("C18-obstack-asan-%d" % ctx.seed)
    lines = list(gen_ops(rng, "quick", ctx))
    if ctx.tier == "quick": lines = [l for i, l in enumerate(lines) if i % 2 == 0 or i < 200]
    env = {"ASAN_OPTIONS": "detect_leaks=0:allocator_may_return_null=1"}
    rc, out, err = vlib.run_stream(h, lines, env=env)
    cov["obstack_asan_ops"] = len(lines)
    bad = None
    if rc != 0 or len(out) != len(lines):
        lo, hi = 0, len(lines)                              # output is block buffered: bisect for the first op on which the process dies
        while hi - lo > 1:
            mid = (lo + hi) // 2
            r2, _, e2 = vlib.run_stream(h, lines[:mid], env=env)
            if r2 != 0: hi = mid; err = e2
            else: lo = mid
        bad = (hi - 1, "sanitizer build: harness exited with %d: %s" % (rc, next((l for l in err.split("\n") if "ERROR" in l or "error" in l), "")))
    else:
        dl = [a + " => " + b for a, b in zip(lines, out)]
        rc2, model, err2 = vlib.run_stream(ctx.driver, dl)
        if rc2 != 0 or len(model) != len(lines): raise RuntimeError("Lean driver failed on the obstack stream: %s" % err2[-1000:])
        d = vlib.diff_streams(lines, out, model)
        if d: bad = (d[0][0], "sanitizer build: impl=%s | model=%s" % (d[0][2][:300], d[0][3][:300])); err = ""
    if bad is None: return []
    os.makedirs(os.path.join(vlib.VERIF, "replay"), exist_ok=True)
    n = len(glob.glob(os.path.join(vlib.VERIF, "replay", "C18-obstack-asan-*.ops"))) + 1
    path = os.path.join(vlib.VERIF, "replay", "C18-obstack-asan-%d.ops" % n)
    with open(path, "w") as f:
        f.write("# property C18 (obstack): the AddressSanitizer build (VARIANT asan) fails on this op: %s\n" % bad[1][:400])
        f.write("".join("# " + l + "\n" for l in err.split("\n")[:60]))
        f.write(lines[bad[0]] + "\n")
    return [("obstack-asan: %s | %s" % (lines[bad[0]][:200], bad[1][:300]), path)]

# source pins: the C the Lean model mirrors (see tools/pins.py)
PINS = [('printf/obprintf.c', None), ('printf/obvprintf.c', None), ('printf/obprntffuns.c', None)]
