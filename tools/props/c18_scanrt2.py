"""C18, scanf side, second part — %Zi (base detection) and %Q round trips, multi-directive counts (part of C18, merged by check.py)."""
import itertools
from genlib import *

LEAN_MODULES = ["MpirProofs.Props.C18_scanrt2", "MpirProofs.Props.C18_scancount"]
THEOREMS = ["Mpir.Scanf.print_scan_roundtrip_Zi", "Mpir.Scanf.print_scan_roundtrip_Q", "Mpir.Scanf.print_scan_roundtrip_Qi",
            "Mpir.Scanf.scan_count_oracle", "Mpir.Scanf.scan_count_spec"]
TRUSTED = []
ASSUMPTIONS = ["%Q with a precision: printf/doprnti.c:89 says `the influence of p->prec on mpq is currently undefined`; the theorems describe what the code "
               "does (zeros = precision - strlen of the whole `num/den` string, put in front of the numerator) and the run pins it",
               "scan_count_spec: the directive type `Dir` has no length modifiers (`%d`, `%n`); the harness stores through 64-bit cells and so runs the "
               "`l` forms (`%ld`, `%ln`) and `%Zn`, which only the character-level model covers; whole-format locality (consumed prefix + one character) "
               "is not proved (single fixed-base %Z field: scan_field_Z_fixed)",
               "print_scan_roundtrip_Zi / _Q: the printed text is assumed shorter than INT_MAX-1 characters (doscan.c:230 cuts a field there; at exactly "
               "INT_MAX-1 the look-ahead GET is the one cut, which the proof does not follow); documented exceptions are hypotheses (no digit "
               "printed; o/x/X of a non-zero value need `#` to be read by %Zi; a zero in front of a decimal number is taken for the octal indicator)"]
RULE = ("%Zi grid: 32 flag subsets x width {none,1,12,*,-*} x precision {none,.0,.1,.7,.*} x conv d i o x X x values (0, 1..9, 8/9-digit octal "
        "traps 19 0o17 190, +-LONG_MAX, +-2^64, +-10^40, random) read by %Zi%n through gmp_sscanf and gmp_fscanf; every line both with and without `#`; "
        "%Q grid: 32 flag subsets x width {none,3,25,*,-*} x precision {none,.,.0,.1,.9,.*} x conv d i o x X x rationals (0/1, 0/5, n/1, 2/4, -10/3, "
        "19/3, 10^40/2^64, -255/16, random) read by the matching conversion and by %Qi; "
        "multi-directive formats: random lists of 1..7 directives (white space, literals, %%, %n, %[*][w]Z/Q d i o x X, %[*][w]l d i o x u, %[w]s, %[w]c) "
        "with inputs built to match and then cut or damaged at every directive boundary (input failure / matching failure at each position)")

FLAGSETS = ["".join(c) for r in range(6) for c in itertools.combinations("-+ #0", r)]
LMAX = 2 ** 63 - 1
ZVALS = [0, 1, -1, 7, -8, 9, 10, -10, 15, 17, 19, -19, 190, 255, -256, 0o777, LMAX, -LMAX - 1, 2 ** 64, -2 ** 64, 10 ** 40, -10 ** 40]

def line(q, pf, sf, stars, v, rng):
    op = ("gmp_rt" if rng.random() < 0.5 else "gmp_rtf") + ("_Q" if q else "_Z")
    st = "".join(hx(s) + " " for s in stars)
    vs = "%s %s" % (hx(v[0]), hx(v[1])) if q else hx(v)
    return "%s %s %s %s%s" % (op, sbytes(pf), sbytes(sf), st, vs)

def zi_grid(rng, tier):
    nv = 1 if tier == "quick" else 6
    for fl in FLAGSETS:
        for (w, ws) in [("", None), (rng.choice(["1", "12"]), None), ("*", rng.choice([3, 30])), ("*", -rng.choice([3, 30]))]:
            for (p, ps) in [("", None), (".0", None), (".1", None), (".7", None), (".*", rng.choice([0, 1, 9, -1]))]:
                stars = [x for x in (ws, ps) if x is not None]
                for c in "dioxX":
                    for v in rng.sample(ZVALS, nv) + [rand_int(rng, rng.choice([1, 2, 5]))]:
                        yield line(False, "%" + fl + w + p + "Z" + c, "%Zi%n", stars, v, rng)

def zi_directed(rng, tier):
    """the exceptions and their neighbours on purpose: zero in front of decimal digits, 0 flag with and without room, value 0 in
    every base, `0x` followed by precision zeros, upper-case prefix, text followed by a literal"""
    for v in [0, 1, 7, 8, 9, 17, 19, 77, 78, 190, -17, -19, 0x1f, -0xabc]:
        for pf in ["%Zd", "%.4Zd", "%04Zd", "%03Zd", "%02Zd", "%-04Zd", "%+04Zd", "% 04Zd", "%04.1Zd", "%#Zo", "%#.6Zo", "%#08Zo", "%Zo", "%.5Zo",
                   "%#Zx", "%#.6Zx", "%#010Zx", "%#ZX", "%#-10ZX", "%Zx", "%#.0Zx", "%#.0Zo", "%.0Zd", "%#+Zx", "%# Zo"]:
            yield line(False, pf, "%Zi%n", [], v, rng)
            yield line(False, pf + "|", "%Zi%n", [], v, rng)
            yield line(False, pf, "%*Zi%n", [], v, rng)

QVALS = [(0, 1), (0, 5), (1, 1), (-9, 1), (LMAX, 1), (1, 2), (-10, 3), (2, 4), (19, 3), (-19, 8), (17, 19), (10 ** 40, 2 ** 64), (-255, 16), (8, 9),
         (-1, 10 ** 20), (7, 1), (0o17, 0o21)]
MATCH = {"d": "d", "i": "d", "o": "o", "x": "x", "X": "X"}

def q_grid(rng, tier):
    nv = 1 if tier == "quick" else 6
    for fl in FLAGSETS:
        for (w, ws) in [("", None), (rng.choice(["3", "25"]), None), ("*", rng.choice([6, 30])), ("*", -rng.choice([6, 30]))]:
            for (p, ps) in [("", None), (".", None), (".0", None), (".1", None), (".9", None), (".*", rng.choice([0, 1, 5, 12, -1]))]:
                stars = [x for x in (ws, ps) if x is not None]
                for c in "dioxX":
                    for v in rng.sample(QVALS, nv) + [(rand_int(rng, rng.choice([1, 3])), abs(rand_int(rng, 2, False)) + 2)]:
                        yield line(True, "%" + fl + w + p + "Q" + c, "%Q" + (MATCH[c] if rng.random() < 0.5 else "i") + "%n", stars, v, rng)

def q_directed(rng, tier):
    """numerator 0 with precision 0, `#` on a zero numerator (mixed bases under %Qi), precision counted on the whole string,
    denominator 1, non-canonical forms, text followed by a literal"""
    for v in [(0, 1), (0, 5), (0, 16), (5, 8), (-5, 8), (2, 4), (19, 3), (17, 1), (-0xff, 0x10), (6, 3), (10, 10)]:
        for pf in ["%Qd", "%.0Qd", "%.Qd", "%.4Qd", "%.5Qd", "%06Qd", "%-6Qd", "%+Qd", "% Qd", "%#Qo", "%#.0Qo", "%#.6Qo", "%#09Qo", "%Qo", "%#Qx",
                   "%#.0Qx", "%#.8Qx", "%#012Qx", "%#-12QX", "%Qx", "%QX", "%#+Qx"]:
            c = pf[-1]
            for sc in (MATCH[c], "i"):
                yield line(True, pf, "%Q" + sc + "%n", [], v, rng)
                yield line(True, pf + "|", "%Q" + sc + "%n", [], v, rng)
            yield line(True, pf, "%*Qi%n", [], v, rng)

def rand_dir(rng):
    """(format text, type letter or '', a matching input text, a text that fails to match)"""
    k = rng.randrange(10)
    w = rng.choice(["", "", "", "1", "2", "3", "7", "12"])
    star = rng.random() < 0.2
    st = "*" if star else ""
    if k == 0: return (rng.choice([" ", "\t", "  "]), "", rng.choice(["", " ", "  \n"]), "")
    if k == 1:
        c = rng.choice(",;=x:")
        return (c, "", c, "?")
    if k == 2: return ("%%", "", "%", "5")
    if k == 3: return ("%" + st + "n", "" if star else "n", "", "")
    if k in (4, 5, 6):
        T = rng.choice("ZQ"); c = rng.choice("dioxX")
        v = rand_int(rng, rng.choice([1, 1, 2])) if rng.random() < 0.8 else rng.choice([0, 7, -8, 19])
        b = {"d": 10, "i": 10, "o": 8, "x": 16, "X": 16}[c]
        def digs(n): return ("-" if n < 0 else rng.choice(["", "", "+"])) + {10: "%d", 8: "%o", 16: "%x"}[b] % abs(n)
        txt = digs(v)
        if T == "Q" and rng.random() < 0.6: txt += "/" + digs(abs(rand_int(rng, 1, False)) + 1).lstrip("+-")
        if c == "i" and rng.random() < 0.5: txt = rng.choice(["0x1f", "-017", "0", "0X7/0x3" if T == "Q" else "0Xa", "08", "0x"])
        return ("%" + st + w + T + c, "" if star else T.lower(), rng.choice(["", " ", "\n "]) + txt, rng.choice(["q", "-", "/", "+-1"]))
    if k in (7, 8):
        c = rng.choice("diuox")
        v = rng.randrange(-10 ** 6, 10 ** 6) if c in "di" else rng.randrange(10 ** 6)
        txt = {"d": "%d", "i": "%d", "u": "%d", "o": "%o", "x": "%x"}[c] % v
        return ("%" + st + w + "l" + c, "" if star else "l", rng.choice(["", " "]) + txt, rng.choice(["q", "-", "zz"]))
    c = rng.choice("sc")
    if c == "s": return ("%" + st + w + "s", "" if star else "b", rng.choice(["", " "]) + rng.choice(["abc", "hello", "x1"]), "")
    return ("%" + st + (w if w not in ("12",) else "2") + "c", "" if star else "b", rng.choice(["ab", "xyz", " q7"]), "")

def multi(rng, tier):
    """multi-directive formats; for each, the input that matches everything, the same cut after every directive's text (input failure
    at each position, also before the first conversion: EOF) and with a non-matching text put in at every directive (matching failure)"""
    esc = lambda t: t.encode().decode("unicode_escape").encode("latin-1") if "\\" in t else t.encode()
    n = 260 if tier == "quick" else 2500
    for _ in range(n):
        ds = [rand_dir(rng) for _ in range(rng.randrange(1, 8))]
        fmt = "".join(d[0] for d in ds); tys = "".join(d[1] for d in ds)
        if len(tys) > 7 or sum(1 for t in tys if t == "z") > 6 or sum(1 for t in tys if t == "q") > 3: continue
        import re
        pieces = [d[2] for d in ds]
        variants = ["".join(pieces)]
        for i in range(len(ds) + 1):
            variants.append("".join(pieces[:i]))
            if i < len(ds) and ds[i][3]: variants.append("".join(pieces[:i]) + ds[i][3] + "".join(pieces[i + 1:]))
        for t in variants:
            # a bare "0x" in front of a C-library conversion is glibc's business: not generated
            if re.search(r"0[xX]([^0-9a-fA-F]|$)", t) and re.search(r"%\*?\d*l[xi]", fmt): continue
            fam = rng.choice(["gmp_sscanf", "gmp_fscanf", "gmp_vsscanf", "gmp_vfscanf"])
            yield "%s %s %s %s" % (fam, sbytes(esc(fmt)), sbytes(tys), sbytes(esc(t)))

def gen_ops(rng, tier, ctx=None):
    yield from multi(rng, tier)
    yield from q_directed(rng, tier)
    yield from q_grid(rng, tier)
    yield from zi_directed(rng, tier)
    yield from zi_grid(rng, tier)

PINS = [('scanf/doscan.c', 'gmpscan'), ('scanf/doscan.c', '__gmp_doscan'), ('mpz/set_str.c', 'mpz_set_str'), ('mpq/set_str.c', 'mpq_set_str')]
