"""C18, scanf side, second part — %Zi (base detection) and %Q round trips, multi-directive counts (part of C18, merged by check.py)."""
import itertools
from genlib import *

LEAN_MODULES = ["MpirProofs.Props.C18_scanrt2"]
THEOREMS = ["Mpir.Scanf.print_scan_roundtrip_Zi", "Mpir.Scanf.print_scan_roundtrip_Q", "Mpir.Scanf.print_scan_roundtrip_Qi"]
TRUSTED = []
ASSUMPTIONS = ["print_scan_roundtrip_Zi / _Q: the printed text is assumed shorter than INT_MAX-1 characters (doscan.c:230 cuts a field there; at exactly "
               "INT_MAX-1 the look-ahead GET is the one cut, which the proof does not follow); documented exceptions are hypotheses (no digit "
               "printed; o/x/X of a non-zero value need `#` to be read by %Zi; a zero in front of a decimal number is taken for the octal indicator)"]
RULE = ("%Zi grid: 32 flag subsets x width {none,1,12,*,-*} x precision {none,.0,.1,.7,.*} x conv d i o x X x values (0, 1..9, 8/9-digit octal "
        "traps 19 0o17 190, +-LONG_MAX, +-2^64, +-10^40, random) read by %Zi%n through gmp_sscanf and gmp_fscanf; every line both with and without `#`; "
        "%Q grid: 32 flag subsets x width {none,3,25,*,-*} x precision {none,.,.0,.1,.9,.*} x conv d i o x X x rationals (0/1, 0/5, n/1, 2/4, -10/3, "
        "19/3, 10^40/2^64, -255/16, random) read by the matching conversion and by %Qi")

FLAGSETS = ["".join(c) for r in range(6) for c in itertools.combinations("-+ #0", r)]
LMAX = 2 ** 63 - 1
ZVALS = [0, 1, -1, 7, -8, 9, 10, -10, 15, 17, 19, -19, 190, 255, -256, 0o777, LMAX, -LMAX - 1, 2 ** 64, -2 ** 64, 10 ** 40, -10 ** 40]

def line(q, pf, sf, stars, v, rng):
    op = ("gmp_rt" if rng.random() < 0.5 else "gmp_rtf") + ("_Q" if q else "_Z")
    st = "".join(hx(s) + " " for s in stars)
    vs = "%s %s" % (hx(v[0]), hx(v[1])) if q else hx(v)
    return "%s %s %s %s%s" % (op, sbytes(pf), sbytes(sf), st, vs)

def zi_grid(rng, tier):
    nv = 2 if tier == "quick" else 6
    for fl in FLAGSETS:
        for (w, ws) in [("", None), ("1", None), ("12", None), ("*", rng.choice([3, 30])), ("*", -rng.choice([3, 30]))]:
            for (p, ps) in [("", None), (".0", None), (".1", None), (".7", None), (".*", rng.choice([0, 1, 9, -1]))]:
                stars = [x for x in (ws, ps) if x is not None]
                for c in "dioxX":
                    for v in rng.sample(ZVALS, nv) + [rand_int(rng, rng.choice([1, 2, 5]))]:
                        yield line(False, "%" + fl + w + p + "Z" + c, "%Zi%n", stars, v, rng)

def zi_directed(rng, tier):
    """the exceptions and their neighbours on purpose: zero in front of decimal digits, 0 flag with and without room, value 0 in
    every base, `0x` followed by precision zeros, upper-case prefix, text followed by a literal"""
    for v in [0, 1, 7, 8, 9, 17, 19, 77, 78, 190, -17, -19, 0x1f, -0xabc]:
        for pf in ["%Zd", "%.4Zd", "%04Zd", "%03Zd", "%02Zd", "%-04Zd", "%+04Zd", "% 04Zd", "%04.1Zd", "%#Zo", "%#.6Zo", "%#08Zo", "%Zo", "%.5Zo",
                   "%#Zx", "%#.6Zx", "%#010Zx", "%#ZX", "%#-10ZX", "%Zx", "%#.0Zx", "%#.0Zo", "%.0Zd", "%#+Zx", "%# Zo"]:
            yield line(False, pf, "%Zi%n", [], v, rng)
            yield line(False, pf + "|", "%Zi%n", [], v, rng)
            yield line(False, pf, "%*Zi%n", [], v, rng)

QVALS = [(0, 1), (0, 5), (1, 1), (-9, 1), (LMAX, 1), (1, 2), (-10, 3), (2, 4), (19, 3), (-19, 8), (17, 19), (10 ** 40, 2 ** 64), (-255, 16), (8, 9),
         (-1, 10 ** 20), (7, 1), (0o17, 0o21)]
MATCH = {"d": "d", "i": "d", "o": "o", "x": "x", "X": "X"}

def q_grid(rng, tier):
    nv = 2 if tier == "quick" else 6
    for fl in FLAGSETS:
        for (w, ws) in [("", None), ("3", None), ("25", None), ("*", rng.choice([6, 30])), ("*", -rng.choice([6, 30]))]:
            for (p, ps) in [("", None), (".", None), (".0", None), (".1", None), (".9", None), (".*", rng.choice([0, 1, 5, 12, -1]))]:
                stars = [x for x in (ws, ps) if x is not None]
                for c in "dioxX":
                    for v in rng.sample(QVALS, nv) + [(rand_int(rng, rng.choice([1, 3])), abs(rand_int(rng, 2, False)) + 2)]:
                        yield line(True, "%" + fl + w + p + "Q" + c, "%Q" + (MATCH[c] if rng.random() < 0.5 else "i") + "%n", stars, v, rng)

def q_directed(rng, tier):
    """numerator 0 with precision 0, `#` on a zero numerator (mixed bases under %Qi), precision counted on the whole string,
    denominator 1, non-canonical forms, text followed by a literal"""
    for v in [(0, 1), (0, 5), (0, 16), (5, 8), (-5, 8), (2, 4), (19, 3), (17, 1), (-0xff, 0x10), (6, 3), (10, 10)]:
        for pf in ["%Qd", "%.0Qd", "%.Qd", "%.4Qd", "%.5Qd", "%06Qd", "%-6Qd", "%+Qd", "% Qd", "%#Qo", "%#.0Qo", "%#.6Qo", "%#09Qo", "%Qo", "%#Qx",
                   "%#.0Qx", "%#.8Qx", "%#012Qx", "%#-12QX", "%Qx", "%QX", "%#+Qx"]:
            c = pf[-1]
            for sc in (MATCH[c], "i"):
                yield line(True, pf, "%Q" + sc + "%n", [], v, rng)
                yield line(True, pf + "|", "%Q" + sc + "%n", [], v, rng)
            yield line(True, pf, "%*Qi%n", [], v, rng)

def gen_ops(rng, tier, ctx=None):
    yield from q_directed(rng, tier)
    yield from q_grid(rng, tier)
    yield from zi_directed(rng, tier)
    yield from zi_grid(rng, tier)

PINS = [('scanf/doscan.c', 'gmpscan'), ('scanf/doscan.c', '__gmp_doscan'), ('mpz/set_str.c', 'mpz_set_str'), ('mpq/set_str.c', 'mpq_set_str')]
