"""C14 part: assembly kernels of every x86-64 CPU directory against the Lean limb-level models, shipped threshold
tables (generated, `Valid` decided by the kernel), per-table / per-option rebuilds of the library (thorough tier).

Kernel stage (`extra`):  tools/asmkern.py assembles every mpn/x86_64/**/*.as{,m} of the tree under test, renames the
symbols of kernel N to k<N>_*, and builds one harness per CPU directory in which every `mpn_<fn>` the directory ships
is that directory's kernel.  Op lines come from the generators of ALL properties (tools/props/c*.py, filtered to the
ops whose C code reaches a redirected kernel — read back from the relocations of the recompiled ops objects) plus the
kernel-shaped generator below; they run through the directory harness and the Lean driver and are compared verbatim.

Replay of a kernel disagreement:  python3 tools/props/c14_asm.py --replay replay/C14-<n>.ops   (the file names the
kernel; `bin/check C14 --replay` would use the default library, whose C routine is not the one that failed)."""
import json, os, sys, re, glob, json, time, math, random, importlib, collections, shutil
sys.path.insert(0, os.path.dirname(os.path.dirname(os.path.abspath(__file__))))
import vlib, asmkern
from gen_mparams import gen_mparams
from vlib import log
from genlib import *

LEAN_MODULES = ["MpirProofs.Props.C14"]
THEOREMS = ["Mpir.Params.all_shipped_params_valid", "Mpir.Params.shipped_params_nonempty", "Mpir.Params.shipped_dispatch_respects_minima"]
def replay_redirect(ctx):
    """`bin/check C14 --replay F` for a replay written by the kernel or rebuild stage: the file names the harness it needs
    (a CPU directory's kernels / a library rebuilt with another table or option); build it and make it the harness under test."""
    if "--replay" not in sys.argv: return []
    path = sys.argv[sys.argv.index("--replay") + 1]
    try: txt = open(path).read()
    except OSError: return []
    m = re.search(r"^# directory-harness: (\S+) round (\d+)", txt, re.M)
    if m:
        ks = asmkern.load(ctx.build)
        hs = [h for h in asmkern.dir_harnesses(ctx.build, ks, [m.group(1)]) if h.round == int(m.group(2))]
        if not hs or hs[0].error: raise vlib.BuildError("cannot build the directory harness %s: %s" % (m.group(1), hs[0].error if hs else "no such directory"))
        ctx.harness = hs[0].exe; log("replay through the kernels of mpn/x86_64/%s" % m.group(1))
        ma = re.search(r"^# align: (\S+)", txt, re.M)
        ctx.mod_env = dict(ctx.mod_env or {}, C14_ALIGN=ma.group(1) if ma else "0")
    m = re.search(r"^# rebuild: table=(\S+)\n# rebuild-cflags: (.*)\n# rebuild-configure: (.*)$", txt, re.M)
    if m:
        import atexit
        if not getattr(ctx, "shipped_vectors", None): gen_mparams(ctx)
        rel = None if m.group(1) == "-" else m.group(1); cfg = None if m.group(3).strip() == "-" else m.group(3).split()
        tree, harness = build_variant(ctx, ("replay", "replay", rel, m.group(2), cfg), vlib.NPROC)
        atexit.register(lambda: shutil.rmtree(tree, ignore_errors=True))
        ctx.harness = harness; log("replay on a library rebuilt with table=%s cflags=%s configure=%s" % (rel, m.group(2), cfg))
    return []

GEN = [gen_mparams, replay_redirect]
TRUSTED = ["tools/gen_mparams.py: threshold vectors are resolved by gcc from each shipped gmp-mparam.h + gmp-impl.h (regenerated every run); "
           "lean/Mpir/Model/ParamsValid.lean: hand-collected list of the requirements the sources state on thresholds (each clause cites file:line) — necessary conditions, not proved sufficient",
           "tools/asmkern.py: the assembly commands are re-read from the configured mpn/Makefile (.asm.o / .as.lo rules); objcopy symbol renaming; "
           "the op -> kernel map is computed from ELF relocations of the recompiled harness/ops_*.c",
           "ISA classification of kernels by disassembly mnemonics against /proc/cpuinfo flags (a misclassified kernel shows up as SIGILL = reported, not hidden)"]
ASSUMPTIONS = ["the assembly mpn_rsh_divrem_hensel_qr_1_2 (bobcat, core2, k8, nehalem, sandybridge) is exercised for n >= 3 only: it faults at n = 2 where the C routine "
               "accepts n >= 2 ('3limb minimum' in its body, 'rdx>=1' in its header); every shipped table keeps RSH_DIVREM_HENSEL_QR_1_THRESHOLD >= 3, which is a clause of Valid (HenselOk)",
               "mpn_sqr_basecase kernels are exercised up to n = 16 (the smallest shipped SQR_KARATSUBA_THRESHOLD), mpn_karaadd/karasub for n >= 8 as their headers require",
               "equivalence of an assembly kernel and the C routine is differential (both against the same Lean model), not a proof about assembly text",
               "only kernels whose entry point has a harness op with the same prototype are executed; the others are listed under coverage.kernels.no_model_op",
               "a kernel is exercised standalone (called from the harness), not as a callee inside a library built for that CPU; "
               "fat-binary dispatch on other CPUs is not executed"]
RULE = ("kernel stage: every mpn/x86_64/**/*.as{,m} is assembled with the repo's own rule; per CPU directory one harness in which each mpn_<fn> the directory ships is its kernel; "
        "lines = every generator of tools/props/c*.py filtered to the ops that reach a redirected kernel (ELF relocations) + kernel-shaped lines (all n 1..140, carry chains, all shift counts, "
        "overlap offsets, mul_basecase all (un,vn) <= 24, k_* optional kernels n 1..80 with aliasing modes, exact/inexact Hensel and B-1 divisions, real Karatsuba steps); kernels that use SSE/AVX "
        "registers are re-run with every allocation at 8 mod 16 / mixed; quick = directory '.' + a VERIF_SEED-rotated tenth of the directories + further directories while the stage is younger than 45 s, "
        "thorough = all directories, 3x the lines, both alignment modes.  main correspondence (pinned build): k_* ops that have a C routine or fallback macro + c14_* entry points at +-2 of every threshold "
        "of the pinned table, at 2x/3x (recursion) and unbalanced shapes at 2*threshold.  thorough only: the library is rebuilt once per shipped gmp-mparam.h with -DWANT_ASSERT=1 and once per "
        "--enable-alloca=malloc-reentrant / --enable-alloca=debug --enable-assert / --enable-fat, and the c14_* crossover lines of THAT table + the value-level lines of the other properties + corpus/C14 run on it.  "
        "every tier: the driver evaluates each clause of Valid on every regenerated table; a violated clause triggers the rebuild of that table with WANT_ASSERT and the same lines (failing-input search).  "
        "distinct = distinct op lines of the main correspondence")

# ------------------------------------------------------------------------------------------------ generators
def harness_op_names():
    names = set()
    for s in asmkern.ops_sources():
        names |= set(re.findall(r"\{\s*\"([^\"]+)\"\s*,", open(s).read()))
    return names

def kernel_lines(rng, tier, have):
    """kernel-shaped inputs for the limb-vector ops (assembly kernels: 4/8-way unrolled loops with separate tails,
    special cases for tiny n, SSE/AVX paths that depend on relative alignment)."""
    def emit(fmt, *a):
        ln = fmt % a
        return [ln] if ln.split(" ", 1)[0] in have else []
    out = []
    ns = list(range(1, 141)) + [rng.randrange(141, 600) for _ in range(6 if tier == "quick" else 30)] + ([1000, 1023, 1024, 1025, 4099] if tier != "quick" else [257])
    reps = 2 if tier == "quick" else 6
    for n in ns:
        for r in range(reps if n <= 140 else 1):
            cls = rng.choice(["uniform", "uniform", "runs", "ones", "sparse"])
            u, v = rand_limbs(rng, n, cls), rand_limbs(rng, n, rng.choice(["uniform", "runs", "ones", "sparse"]))
            out += emit("mpn_add_n %s %s", vec(u), vec(v)); out += emit("mpn_sub_n %s %s", vec(u), vec(v))
            out += emit("mpn_add_n_ov %x %s %s", rng.choice([1, 2]), vec(u), vec(v)); out += emit("mpn_add_n_ov 3 %s %s", vec(u), vec(u))   # mode 3: rp == up == vp
            out += emit("mpn_sub_n_ov %x %s %s", rng.choice([1, 2]), vec(u), vec(v)); out += emit("mpn_sub_n_ov 3 %s %s", vec(u), vec(u))
            c = rng.randrange(1, 64)
            out += emit("mpn_lshift %s %x", vec(u), c); out += emit("mpn_rshift %s %x", vec(u), c)
            k = rng.choice([0, 1, 1, 2, 3, 5, n - 1, n])
            out += emit("mpn_lshift %s %x %s", vec(u), rng.randrange(1, 64), hx(k)); out += emit("mpn_rshift %s %x %s", vec(u), rng.randrange(1, 64), hx(-k))
            out += emit("mpn_copyi %s %s", vec(u), hx(-k)); out += emit("mpn_copyd %s %s", vec(u), hx(k))
            out += emit("mpn_copyi %s", vec(u)); out += emit("mpn_copyd %s", vec(u)); out += emit("mpn_com %s", vec(u))
            x = rand_limb(rng)
            out += emit("mpn_mul_1 %s %x", vec(u), x); out += emit("mpn_mul_1_ip %s %x", vec(u), x)
            out += emit("mpn_addmul_1 %s %s %x", vec(v), vec(u), x); out += emit("mpn_submul_1 %s %s %x", vec(v), vec(u), x)
            out += emit("mpn_neg %s", vec(u)); out += emit("mpn_add %s %s", vec(u), vec(v[: rng.randrange(1, n + 1)])); out += emit("mpn_sub %s %s", vec(u), vec(v[: rng.randrange(1, n + 1)]))
        # carries that run through the whole unrolled loop and stop at every tail position
        for st in ([n] if n > 40 else sorted(set([0, n // 2, n - 1, n]))):
            u = [M] * n; v = [0] * n; v[0] = 1
            if st < n: u[st] = rng.getrandbits(63)
            out += emit("mpn_add_n %s %s", vec(u), vec(v)); out += emit("mpn_add_n %s %s", vec(v), vec(u))
            z = [0] * n
            if st < n: z[st] = 1 + rng.getrandbits(62)
            out += emit("mpn_sub_n %s %s", vec(z), vec(v))
            out += emit("mpn_addmul_1 %s %s %x", vec(u), vec([M] * n), M); out += emit("mpn_submul_1 %s %s %x", vec(z), vec([M] * n), M)
            out += emit("mpn_mul_1 %s %x", vec([M] * n), M)
    for c in range(1, 64):
        for n in (1, 2, 3, 4, 5, 8, 9, 17):
            u = rand_limbs(rng, n, rng.choice(["uniform", "ones", "runs"]))
            out += emit("mpn_lshift %s %x", vec(u), c); out += emit("mpn_rshift %s %x", vec(u), c)
    top = 24 if tier == "quick" else 40
    for un in range(1, top + 1):
        for vn in range(1, un + 1):
            for cls in (["uniform"] if tier == "quick" else ["uniform", "runs", "ones"]):
                out += emit("mpn_mul_basecase %s %s", vec(rand_limbs(rng, un, cls)), vec(rand_limbs(rng, vn, rng.choice(["uniform", "ones", "runs"]))))
    for un in [rng.randrange(top + 1, 90) for _ in range(12 if tier == "quick" else 60)]:
        vn = rng.randrange(1, un + 1)
        out += emit("mpn_mul_basecase %s %s", vec(rand_limbs(rng, un)), vec(rand_limbs(rng, vn)))
    for n in range(1, 34):
        out += emit("mpn_mul_basecase %s %s", vec([M] * n), vec([M] * n))
    return out

def kext_lines(rng, tier, have, sqr_max=16):
    """kernel-shaped inputs for the optional / internal kernels of harness/ops_c14.c (`k_*`)"""
    out = []
    def emit(fmt, *a):
        ln = fmt % a
        if ln.split(" ", 1)[0] in have: out.append(ln)
    ns = list(range(1, 81)) + [rng.randrange(81, 400) for _ in range(5 if tier == "quick" else 25)] + ([1024, 1031] if tier != "quick" else [])
    reps = 1 if tier == "quick" else 4
    fobm1 = [3, 5, 15, 17, 51, 85, 255, 257, 65535, 65537, 641, 6700417, 0xFFFFFFFF, 0x5555555555555555, 0x3333333333333333, M]
    for n in ns:
        for r in range(reps + (1 if n <= 24 else 0)):
            cls = rng.choice(["uniform", "uniform", "runs", "ones", "sparse", "zero" if r else "uniform"])
            u, v, w = rand_limbs(rng, n, cls), rand_limbs(rng, n, rng.choice(["uniform", "runs", "ones", "sparse"])), rand_limbs(rng, n)
            md = rng.choice([0, 0, 1, 2])
            for op in ("k_addlsh1_n", "k_sublsh1_n", "k_rsh1add_n", "k_rsh1sub_n"): emit("%s %x %s %s", op, md, vec(u), vec(v))
            for op in ("k_addlsh_n", "k_sublsh_n"): emit("%s %x %s %s %x", op, md, vec(u), vec(v), rng.randrange(1, 64))
            for op in ("k_add_nc", "k_sub_nc"): emit("%s %x %s %s %x", op, md, vec(u), vec(v), rng.randrange(2))
            for op in ("k_lshift1", "k_lshift2", "k_rshift1", "k_rshift2", "k_divexact_byff", "k_lshift3", "k_lshift4", "k_lshift5", "k_lshift6"): emit("%s %x %s", op, rng.randrange(2), vec(u))
            dd = rng.choice([1, 3, 5, 7, M, M - 2, (1 << 63) + 1, (1 << 32) + 1, rng.getrandbits(64) | 1, rng.getrandbits(64) | 1, rng.getrandbits(rng.randrange(1, 64)) | 1])
            emit("k_divrem_hensel_qr_1_1 %x %s %x", rng.randrange(2), vec(u), dd); emit("k_divrem_hensel_r_1 %s %x", vec(u), dd)
            emit("k_rsh_divrem_hensel_qr_1_1 %x %s %x %x %x", rng.randrange(2), vec(u), dd, rng.randrange(64), rng.choice([0, 0, 1, dd - 1, rng.randrange(dd)]))
            if n >= 2: emit("k_divrem_hensel_qr_1_2 %x %s %x", rng.randrange(2), vec(u), dd)
            if n >= 3:      # the assembly kernels need n >= 3 ("3limb minimum", mpn/x86_64/k8/rsh_divrem_hensel_qr_1_2.asm:33; they fault at n = 2, the C routine accepts 2)
                emit("k_rsh_divrem_hensel_qr_1_2 %x %s %x %x %x", rng.randrange(2), vec(u), dd, rng.randrange(64), rng.choice([0, 0, 1, dd - 1, rng.randrange(dd)]))
            ex = limbs_of(sum(a << (64 * i) for i, a in enumerate(v)) * dd, n)          # exact multiples: ret = high part only
            emit("k_divrem_hensel_qr_1_1 0 %s %x", vec(ex), dd)
            for k, lim in ((1, (1 << 63) + 1), (2, M // 3 + 1), (3, (1 << 62) + 1)):
                if n >= k + 2:
                    d1 = rng.choice([lim, lim - 1, 1, 2, 3, rng.randrange(1, lim + 1), rng.randrange(1, lim + 1), rng.getrandbits(rng.randrange(1, 62)) + 1])
                    emit("k_mod_1_%d %s %x", k, vec(u), d1)
            emit("k_lshiftc %x %s %x", rng.randrange(2), vec(u), rng.randrange(1, 64))
            for op in ("k_not", "k_double", "k_half", "k_popcount", "k_sqr_basecase"):
                if op != "k_sqr_basecase" or n <= sqr_max: emit("%s %s", op, vec(u))
            emit("k_hamdist %s %s", vec(u), vec(v)); emit("k_store %x %x", n, rand_limb(rng))
            for op in ("k_addadd_n", "k_addsub_n", "k_subadd_n"): emit("%s %x %s %s %s", op, rng.choice([0, 0, 1, 2, 3]), vec(u), vec(v), vec(w))
            for op in ("k_sumdiff_n", "k_nsumdiff_n"): emit("%s %x %s %s", op, rng.choice([0, 0, 0, 1, 2, 3, 4, 5, 6]), vec(u), vec(v))
            v2 = rand_limbs(rng, 2, rng.choice(["uniform", "ones", "sparse"]))
            emit("k_mul_2 %s %s", vec(u), vec(v2)); emit("k_addmul_2 %s %s %s", vec(v), vec(u), vec(v2))
            x = rand_limb(rng); c = rand_limb(rng)
            emit("k_addmul_1c %s %s %x %x", vec(v), vec(u), x, c); emit("k_submul_1c %s %s %x %x", vec(v), vec(u), x, c)
            emit("k_mullow_n_basecase %s %s", vec(u), vec(v))
            for op in ("k_add_err1_n", "k_sub_err1_n"): emit("%s %x %s %s %s %x", op, md, vec(u), vec(v), vec(w), rng.randrange(2))
            y2 = rand_limbs(rng, n, rng.choice(["uniform", "ones"]))
            for op in ("k_add_err2_n", "k_sub_err2_n"): emit("%s %x %s %s %s %s %x", op, md, vec(u), vec(v), vec(w), vec(y2), rng.randrange(2))
            f = rng.choice(fobm1)
            q = rand_limbs(rng, n); prod = sum(x << (64 * i) for i, x in enumerate(q)) * f          # an exact multiple, and an arbitrary operand
            emit("k_divexact_byfobm1 %x %s %x", rng.randrange(2), vec(limbs_of(prod, n)), f); emit("k_divexact_byfobm1 0 %s %x", vec(u), f)
            qq = sum(x << (64 * i) for i, x in enumerate(q)) * M
            emit("k_divexact_byff 0 %s", vec(limbs_of(qq, n)))
            m = rand_limbs(rng, n, rng.choice(["uniform", "ones", "runs"])); m[0] |= 1
            if rng.random() < 0.7: m[-1] |= 1 << 63
            mv = sum(x << (64 * i) for i, x in enumerate(m))
            t = rng.randrange(mv << (64 * n)) if rng.random() < 0.8 else (mv << (64 * n)) - 1
            emit("k_redc_1 %s %s", vec(limbs_of(t, 2 * n)), vec(m))
            if n >= 8:       # a real Karatsuba step: L = xl*yl, H = xh*yh, M = |xh-xl|*|yh-yl|
                n2 = n // 2; n3 = n - n2
                xv = sum(a << (64 * i) for i, a in enumerate(u)); yv = sum(a << (64 * i) for i, a in enumerate(v))
                xl, xh, yl, yh = xv & ((1 << (64 * n2)) - 1), xv >> (64 * n2), yv & ((1 << (64 * n2)) - 1), yv >> (64 * n2)
                rp = limbs_of(xl * yl, 2 * n2) + limbs_of(xh * yh, 2 * n3)
                mm = abs(xh - xl) * abs(yh - yl); sgn = (xh >= xl) == (yh >= yl)      # product of differences >= 0 -> subtract
                emit("k_karasub %s %s" if sgn else "k_karaadd %s %s", vec(rp), vec(limbs_of(mm, 2 * n3)))
                if mm == 0: emit("k_karaadd %s %s", vec(rp), vec(limbs_of(0, 2 * n3)))
                # the interpolation carry has to ripple through several limbs: operands with long runs of ones and zeros
                # (and products whose middle limbs are all ones) make the limb after the carry-in position 0xff..f
                for _ in range(12 if n <= 24 else 3):
                    xv = rrandomb(rng, 64 * n) | 1 << (64 * n - 1); yv = rrandomb(rng, 64 * n) | 1
                    xl, xh, yl, yh = xv & ((1 << (64 * n2)) - 1), xv >> (64 * n2), yv & ((1 << (64 * n2)) - 1), yv >> (64 * n2)
                    rp = limbs_of(xl * yl, 2 * n2) + limbs_of(xh * yh, 2 * n3)
                    mm = abs(xh - xl) * abs(yh - yl); sgn = (xh >= xl) == (yh >= yl)
                    emit("k_karasub %s %s" if sgn else "k_karaadd %s %s", vec(rp), vec(limbs_of(mm, 2 * n3)))
                    # the same middle product with the opposite sign choice is also a legal call of the other kernel
                    emit("k_karaadd %s %s" if sgn else "k_karasub %s %s", vec(rp), vec(limbs_of(mm, 2 * n3))) if False else None
        for un in ([n] if n > 30 else [n, n + 1, n + 3, 2 * n, 2 * n + 5]):
            vn = n
            emit("k_mulmid_basecase %s %s", vec(rand_limbs(rng, un, rng.choice(["uniform", "ones", "runs"]))), vec(rand_limbs(rng, vn, rng.choice(["uniform", "ones"]))))
    return out

def sel_vector(ctx):
    """the resolved thresholds of the table the build under test was compiled with"""
    vecs = dict(getattr(ctx, "shipped_vectors", []) or [])
    link = os.path.join(ctx.build, "gmp-mparam.h")
    rel = os.path.relpath(os.path.realpath(link), os.path.realpath(ctx.build)) if os.path.exists(link) else ""
    return dict(vecs.get(rel) or vecs.get("mpn/x86_64/gmp-mparam.h") or [])

NEVER = (1 << 63) - 1
def value_lines(rng, tier, thr, have):
    """crossover-focused inputs for the threshold-steered entry points (`c14_*`): sizes within +-2 of every threshold of
    the table `thr`, the sizes whose halves / thirds land on a threshold (recursion), unbalanced shapes at 2*threshold."""
    out = []
    def emit(fmt, *a):
        ln = fmt % a
        if ln.split(" ", 1)[0] in have: out.append(ln)
    def T(*names):
        return [thr[n] for n in names if n in thr and 0 < thr[n] < NEVER]
    def around(ts, lo=1, hi=12000, mult=(1,)):
        s = set()
        for t in ts:
            for m in mult:
                for d in (-2, -1, 0, 1, 2):
                    if lo <= t * m + d <= hi: s.add(t * m + d)
        return sorted(s)
    big = 2600 if tier == "quick" else 12000
    rl = lambda n, c=None: rand_limbs(rng, n, c or rng.choice(["uniform", "uniform", "runs", "ones", "sparse"]))
    nz = lambda l: l[:-1] + [l[-1] | 1]
    num = lambda l: sum(x << (64 * i) for i, x in enumerate(l))
    # --- multiplication, squaring
    mt = T("MUL_KARATSUBA_THRESHOLD", "MUL_TOOM3_THRESHOLD", "MUL_TOOM4_THRESHOLD", "MUL_TOOM8H_THRESHOLD", "MUL_FFT_FULL_THRESHOLD", "MUL_FFT_THRESHOLD")
    st = T("SQR_BASECASE_THRESHOLD", "SQR_KARATSUBA_THRESHOLD", "SQR_TOOM3_THRESHOLD", "SQR_TOOM4_THRESHOLD", "SQR_TOOM8_THRESHOLD", "SQR_FFT_FULL_THRESHOLD", "SQR_FFT_THRESHOLD")
    for n in around(mt, hi=big, mult=(1, 2, 3)) + list(range(1, 12)):
        emit("c14_mul_n %s %s", vec(rl(n)), vec(rl(n)))
    for n in around(st, hi=big, mult=(1, 2, 3)) + list(range(1, 12)):
        emit("c14_sqr %s", vec(rl(n)))
    for t in mt:
        for ratio in (1.05, 1.3, 1.6, 2.0, 2.7, 3.4, 4.5, 7.0):
            for d in (-1, 0, 1):
                tot = 2 * t + d; vn = max(1, int(tot / (1 + ratio))); un = tot - vn
                if 1 <= vn <= un and un + vn <= 2 * big: emit("c14_mul %s %s", vec(rl(un)), vec(rl(vn)))
        if 6 * t <= 2 * big:
            for tot in (6 * t - 1, 6 * t, 6 * t + 1):
                vn = tot * 2 // 5; emit("c14_mul %s %s", vec(rl(tot - vn)), vec(rl(vn)))
    for vn in around(T("MUL_KARATSUBA_THRESHOLD")):
        for un in (vn + 1, 3 * vn, 9 * vn + 2): emit("c14_mul %s %s", vec(rl(un)), vec(rl(vn)))
    for n in around(T("MULLOW_BASECASE_THRESHOLD", "MULLOW_DC_THRESHOLD", "MULLOW_MUL_THRESHOLD"), hi=big) + [1, 2, 3]:
        emit("c14_mullow_n %s %s", vec(rl(n)), vec(rl(n)))
    # --- division
    dt = T("DC_DIV_QR_THRESHOLD", "INV_DIV_QR_THRESHOLD", "DC_DIV_Q_THRESHOLD", "INV_DIV_Q_THRESHOLD", "DC_DIVAPPR_Q_THRESHOLD", "INV_DIVAPPR_Q_N_THRESHOLD")
    for dn in around(dt, hi=big // 2) + [1, 2, 3, 4, 5, 6, 7]:
        for qn in sorted(set([1, 2, 3, dn - 1, dn, dn + 1, 2 * dn + 1] + ([rng.choice(dt)] if dt else []))):
            if qn < 1 or dn + qn > 2 * big: continue
            d = rl(dn, rng.choice(["uniform", "runs", "ones"])); d[-1] = d[-1] or 1
            if rng.random() < 0.5: d[-1] |= 1 << 63
            n = rl(dn + qn - 1)
            if rng.random() < 0.3:       # built backwards: quotient limbs all ones, remainder d-1
                n = limbs_of(((1 << (64 * (qn - 1))) - 1) * num(d) + num(d) - 1, dn + qn - 1)
            emit("c14_tdiv_qr %s %s", vec(n), vec(d))
    for dn in around(T("INV_DIV_QR_THRESHOLD", "INV_DIV_Q_THRESHOLD"), hi=big // 2):
        d = rl(dn, "uniform"); d[-1] |= 1 << 63
        emit("c14_tdiv_qr %s %s", vec(rl(2 * dn + 3)), vec(d))
    t1 = T("MOD_1_1_THRESHOLD", "MOD_1_2_THRESHOLD", "MOD_1_3_THRESHOLD", "DIVREM_EUCLID_HENSEL_THRESHOLD", "DIVREM_HENSEL_QR_1_THRESHOLD",
           "RSH_DIVREM_HENSEL_QR_1_THRESHOLD", "DIVREM_1_NORM_THRESHOLD", "DIVREM_1_UNNORM_THRESHOLD", "MOD_1_NORM_THRESHOLD", "MOD_1_UNNORM_THRESHOLD", "DIVEXACT_1_THRESHOLD")
    dvals = [1, 2, 3, 7, 10, (1 << 62) + 1, (1 << 62) + 2, M // 3 + 1, M // 3 + 2, (1 << 63), (1 << 63) + 1, (1 << 63) + 2, M, M - 1, (1 << 32) + 15, 1 << 20]
    for n in around(t1, hi=2000) + list(range(1, 9)):
        for d in dvals + [rng.getrandbits(rng.randrange(2, 65)) | 1, rng.getrandbits(64) | (1 << 63), rng.getrandbits(61) << 1 | 2]:
            u = rl(n)
            emit("c14_mod_1 %s %x", vec(u), d); emit("c14_divrem_1 %s %x", vec(u), d)
            emit("c14_divexact_1 %s %x", vec(limbs_of((num(u) >> 64) * d, n)), d)
    # --- gcd, gcdext, invert
    gt = T("GCD_DC_THRESHOLD", "GCDEXT_DC_THRESHOLD", "HGCD_THRESHOLD", "HGCD_APPR_THRESHOLD", "HGCD_REDUCE_THRESHOLD", "MATRIX22_STRASSEN_THRESHOLD", "JACOBI_DC_THRESHOLD")
    for n in around(gt, hi=big // 2, mult=(1, 2)) + [1, 2, 3]:
        a, b = num(rl(n, "uniform")), num(rl(max(1, n - rng.choice([0, 0, 1, 3])), "uniform"))
        g = num(rl(rng.choice([1, 1, 2, max(1, n // 3)]), "uniform")) | 1
        emit("c14_gcd %x %x", a, b); emit("c14_gcd %x %x", a * g, b * g)
        emit("c14_gcdext %x %x", a, b)
        if n <= 1200: emit("c14_invert %x %x", a, b | 1 if b > 1 else 3)
    # --- powm (REDC choice, Karatsuba/sqr thresholds inside the window loop)
    pt = T("REDC_1_TO_REDC_2_THRESHOLD", "REDC_2_TO_REDC_N_THRESHOLD", "REDC_1_TO_REDC_N_THRESHOLD", "MUL_KARATSUBA_THRESHOLD", "SQR_KARATSUBA_THRESHOLD", "SQR_BASECASE_THRESHOLD", "POWM_THRESHOLD")
    for n in around(pt, hi=700) + [1, 2, 8, 9, 10]:
        for odd in (1, 1, 0):
            m = rl(n, rng.choice(["uniform", "runs", "ones"])); m[0] = (m[0] & ~1) | odd; m[-1] = m[-1] or 1
            if num(m) <= 1: continue
            e = rng.getrandbits(rng.choice([3, 17, 70, 130]))
            emit("c14_powm %x %x %x", num(rl(max(1, n - rng.randrange(2)))), e, num(m))
    # --- exact division (Hensel), binvert
    bt = T("DC_BDIV_QR_THRESHOLD", "DC_BDIV_Q_THRESHOLD", "BINV_NEWTON_THRESHOLD", "INV_DIV_QR_THRESHOLD")
    for dn in around(bt, hi=big // 2) + [1, 2, 7]:
        for qn in (1, dn // 2 + 1, dn, dn + 3, 2 * dn + 1):
            d = num(rl(dn, "uniform")) or 1; q = num(rl(qn))
            if rng.random() < 0.5: d <<= rng.randrange(0, 130)
            emit("c14_divexact %x %x", q * d, d)
    for dn in around(T("INV_DIV_QR_THRESHOLD", "INV_DIV_Q_THRESHOLD"), hi=big):       # low limb of n zero, low limb of d nonzero (divexact.c q_even test)
        d = (1 << (64 * dn)) - 1
        emit("c14_divexact %x %x", d << 64, d); emit("c14_divexact %x %x", (d * 6) << 128, d * 2)
    # --- radix conversion
    for un in around(T("GET_STR_DC_THRESHOLD", "GET_STR_PRECOMPUTE_THRESHOLD"), hi=600, mult=(1, 2, 4)) + [1, 2]:
        for base in (10, 3, 7, 36, 62, 2, 16, 32, 45):
            if base in (10, 3) or rng.random() < 0.4: emit("c14_get_str %x %s", base, hx(num(rl(un)) * rng.choice([1, 1, -1])))
    digs = "0123456789ABCDEFGHIJKLMNOPQRSTUVWXYZabcdefghijklmnopqrstuvwxyz"
    for ln in around(T("SET_STR_DC_THRESHOLD", "SET_STR_PRECOMPUTE_THRESHOLD"), hi=30000, mult=(1, 2)) + [1, 2, 19, 20, 21, 40]:
        for base in (10, 3, 36, 62, 16, 7):
            if base == 10 or rng.random() < 0.35:
                dd = digs[:base] if base > 36 else digs[:base].lower()
                emit("c14_set_str %x %s", base, sbytes(rng.choice(["", "-"]) + "".join(rng.choice(dd) for _ in range(ln))))
    for n in around(T("FAC_ODD_THRESHOLD", "FAC_DSC_THRESHOLD"), hi=3000) + [0, 1, 2, 20, 21, 25, 26]:
        emit("c14_fac_ui %x", n)
    return out

def gen_ops(rng, tier, ctx=None):
    """main correspondence (default build): the `k_*` ops that have a C routine or fallback macro in this build, and the
    `c14_*` entry points at the crossovers of the table the build was compiled with."""
    have = harness_op_names()
    if ctx is not None and getattr(ctx, "harness", None):
        probe = {"k_addlsh1_n": "k_addlsh1_n 0 [1] [1]", "k_sublsh1_n": "k_sublsh1_n 0 [1] [1]", "k_addlsh_n": "k_addlsh_n 0 [1] [1] 1", "k_sublsh_n": "k_sublsh_n 0 [1] [1] 1",
                 "k_rsh1add_n": "k_rsh1add_n 0 [1] [1]", "k_rsh1sub_n": "k_rsh1sub_n 0 [1] [1]", "k_add_nc": "k_add_nc 0 [1] [1] 0", "k_sub_nc": "k_sub_nc 0 [1] [1] 0",
                 "k_lshiftc": "k_lshiftc 0 [1] 1", "k_mul_2": "k_mul_2 [1] [1,1]", "k_addmul_2": "k_addmul_2 [1] [1] [1,1]", "k_addmul_1c": "k_addmul_1c [1] [1] 1 1",
                 "k_submul_1c": "k_submul_1c [1] [1] 1 1", "k_karaadd": "k_karaadd [0,0,0,0] [0,0]", "k_karasub": "k_karasub [0,0,0,0] [0,0]"}
        rc, ans, err = vlib.run_stream(ctx.harness, list(probe.values()))
        for (op, _), a in zip(probe.items(), ans):
            if "!nokernel" in a or a.startswith("?"): have.discard(op)
    if ctx is not None: ctx.c14_deferred = []
    for ln in kext_lines(rng, tier, have, sqr_max=min(48, sel_vector(ctx).get("SQR_KARATSUBA_THRESHOLD", 16)) if ctx is not None else 16):
        # ops with a listed known finding run in `extra` (one report per disagreement) so that they cannot mask anything else here
        if ln.split(" ", 1)[0] in DEFERRED_OPS and ctx is not None: ctx.c14_deferred.append(ln)
        else: yield ln
    yield from value_lines(rng, tier, sel_vector(ctx) if ctx is not None else {}, have)

def nontrivial(line):
    return line if ("," in line or len(line) > 40) else None

def pool_lines(ctx, tier, wanted, cov):
    """op lines from every property generator (filtered to `wanted` op names) + kernel_lines"""
    t0 = time.time(); lines = []; srcs = {}
    pdir = os.path.dirname(os.path.abspath(__file__))
    have = harness_op_names()
    mine = kernel_lines(random.Random("C14-kern-%d" % ctx.seed), tier, have & wanted)
    srcs["c14_asm.kernel_lines"] = len(mine); lines += mine
    mine = kext_lines(random.Random("C14-kext-%d" % ctx.seed), tier, have & wanted, sqr_max=48)      # filtered per directory to its own SQR_KARATSUBA_THRESHOLD
    srcs["c14_asm.kext_lines"] = len(mine); lines += mine
    for f in sorted(glob.glob(os.path.join(pdir, "c*.py"))):
        name = os.path.basename(f)[:-3]
        if name.startswith("c14"): continue
        txt = open(f).read()
        if "def gen_ops" not in txt or "mpn_" not in txt: continue
        try:
            m = importlib.import_module("props." + name)
            rng = random.Random("C14-%s-%d" % (name, ctx.seed)); n = 0; tg = time.time()
            for ln in m.gen_ops(rng, tier, ctx):
                # ops of other parts whose expected answer is the bit-exact behaviour of the generic C on inputs outside the
                # routine's value contract (redc with an arbitrary inverse limb) are not kernel-equivalence questions: this
                # part has its own contract-respecting k_redc_1 lines
                opn = ln.split(" ", 1)[0]
                if opn == "mpn_rsh_divrem_hensel_qr_1_2" and ln.split(" ")[1].count(",") < 2: continue   # the assembly versions need n >= 3 (every shipped table keeps the threshold >= 3: clause of Valid)
                if opn in wanted and opn not in ("mpn_redc_1", "mpn_redc_2", "mpn_redc_n"): lines.append(ln); n += 1
                if time.time() - tg > (40 if tier == "quick" else 300): break
            srcs["props." + name] = n
        except Exception as e:
            srcs["props." + name] = "generator failed: %s" % str(e)[:200]
    # drop exact duplicates, keep order
    seen = set(); uniq = []
    for ln in lines:
        if ln not in seen: seen.add(ln); uniq.append(ln)
    cov["kernel_generators"] = srcs; cov["kernel_pool_lines"] = len(uniq); cov["kernel_pool_gen_s"] = round(time.time() - t0, 1)
    return uniq

# ------------------------------------------------------------------------------------------------ kernel stage
def replay_path(pid):
    n = len(glob.glob(os.path.join(vlib.VERIF, "replay", pid + "-*.ops"))) + 1
    os.makedirs(os.path.join(vlib.VERIF, "replay"), exist_ok=True)
    return os.path.join(vlib.VERIF, "replay", "%s-%d.ops" % (pid, n))

def write_kernel_replay(ctx, h, ks, line, impl, model, note="", align="0"):
    p = replay_path(ctx.pid)
    with open(p, "w") as f:
        f.write("# property %s  seed %d  tier %s  stage asm-kernel\n" % (ctx.pid, ctx.seed, ctx.tier))
        for k in ks: f.write("# kernel: %s  (functions %s, symbols prefixed %s)\n" % (k.path, ",".join(k.funcs), k.prefix))
        f.write("# directory-harness: %s round %d\n# align: %s   (environment C14_ALIGN of the kernel harness: allocation alignment 0 / 8 / alt)\n" % (h.dir, h.round, align))
        f.write("# op: %s\n# kernel output: %s\n# model/spec:    %s\n" % (line[:2000], impl[:2000], model[:2000]))
        if note: f.write("".join("# " + l + "\n" for l in note.split("\n")[:40]))
        f.write("# rerun: python3 tools/props/c14_asm.py --replay %s\n" % os.path.relpath(p, vlib.VERIF))
        f.write(line + "\n")
    return p

def run_dir(ctx, h, lines, align="0"):
    """-> (n evaluated, list of (kernels, line, impl, model, note))  — continues past a crashing kernel"""
    bad = []; done = 0; lines = list(lines); rounds = 0
    while lines and rounds < 8:
        rounds += 1
        rc, impl, err = vlib.run_stream(h.exe, lines, timeout=3600, env={"C14_ALIGN": align})
        crashed = rc != 0 or len(impl) != len(lines)
        ok_n = min(len(impl), len(lines))
        if ok_n:
            dl = [a + " => " + b for a, b in zip(lines[:ok_n], impl[:ok_n])]
            rc2, model, err2 = vlib.run_stream(ctx.driver, dl)
            if rc2 != 0 or len(model) != ok_n:
                raise RuntimeError("Lean driver failed (rc=%d) after %d lines: %s" % (rc2, len(model), err2[-1500:]))
            for i, ln, a, b in vlib.diff_streams(lines[:ok_n], impl[:ok_n], model):
                bad.append((h.opmap.get(ln.split(" ", 1)[0], []), ln, a, b, ""))
            done += ok_n
        if not crashed: break
        ln = lines[ok_n] if ok_n < len(lines) else "<eof>"
        op = ln.split(" ", 1)[0]; ks = h.opmap.get(op, [])
        bad.append((ks, ln, "<crash rc=%d>" % rc, "<no crash>", err[-1500:]))
        dead = set(o for o, kk in h.opmap.items() if set(kk) & set(ks)) | {op}
        lines = [l for l in lines[ok_n + 1:] if l.split(" ", 1)[0] not in dead]
    return done, bad

def file_fingerprints(build):
    """comment-insensitive fingerprints of every kernel source and tuning table under mpn/x86_64 (and mpn/generic/gmp-mparam.h)"""
    import hashlib
    out = {}
    for root, ds, fs in os.walk(os.path.join(build, "mpn", "x86_64")):
        for f in fs:
            if f.endswith((".asm", ".as")) or f == "gmp-mparam.h":
                p = os.path.join(root, f)
                try: txt = open(p, errors="replace").read()
                except OSError: continue
                out[os.path.relpath(p, build)] = hashlib.sha256(txt.encode()).hexdigest()[:16]
    p = os.path.join(build, "mpn", "generic", "gmp-mparam.h")
    if os.path.exists(p): out["mpn/generic/gmp-mparam.h"] = hashlib.sha256(open(p, "rb").read()).hexdigest()[:16]
    return out

FILES_PIN = os.path.join(vlib.VERIF, "pins", "C14_files.json")
def changed_files(build):
    """files whose text differs from the fingerprints recorded when the check last passed on the reference tree (pins/C14_files.json):
    their kernels / tables are examined in EVERY tier, whatever the seed rotation"""
    try: exp = json.load(open(FILES_PIN))
    except Exception: return []
    cur = file_fingerprints(build)
    return sorted(f for f in cur if exp.get(f) != cur[f])

QUICK_EXTRA_BUDGET_S = 45      # quick tier: after the mandatory tenth, further directories (same rotation order) while the stage is younger than this

def choose_dirs(all_dirs, tier, seed, changed=()):
    """-> (mandatory, optional): thorough = everything; quick = '.' (pinned build) + directories holding a changed kernel file
    + a seed-rotated tenth, the rest optional in rotation order"""
    if tier != "quick": return list(all_dirs), []
    rest = [d for d in all_dirs if d != "."]
    n = max(1, math.ceil(len(rest) / 10.0)); start = ((seed - 1) * n) % max(1, len(rest))
    order = [rest[(start + j) % len(rest)] for j in range(len(rest))]
    must = [d for d in rest if d in changed]
    mand = (["."] if "." in all_dirs else []) + must + [d for d in order[:n] if d not in must]
    return mand, [d for d in order[n:] if d not in must]

def kernel_stage(ctx, cov):
    t0 = time.time()
    ks = asmkern.load(ctx.build)
    kc = cov.setdefault("kernels", {})
    kc["found"] = len(ks); kc["assembled"] = sum(k.assembled for k in ks); kc["executable_on_host"] = sum(k.executable for k in ks)
    kc["assemble_failures"] = [{"kernel": k.path, "error": k.error} for k in ks if not k.assembled]
    kc["skipped_isa"] = [{"kernel": k.path, "needs": k.missing} for k in ks if k.assembled and k.missing]
    kc["unclassified_mnemonics"] = {k.path: k.isa_unknown for k in ks if k.isa_unknown}
    kc["host_isa_used"] = sorted(set(f for k in ks for f in k.isa))
    kc["simd_kernels_rerun_with_misaligned_operands"] = sorted(k.path for k in ks if k.simd)
    kc["pinned_build_kernels"] = [k.path for k in asmkern.default_build_kernels(ctx.build, ks)]
    out = []
    for k in ks:
        if not k.assembled:
            p = replay_path(ctx.pid)
            open(p, "w").write("# property %s stage asm-kernel\n# kernel: %s does not assemble with the repo's own rule\n# command (cwd <build>/mpn): %s\n# %s\n" % (ctx.pid, k.path, k.cmd, (k.error or "").replace("\n", "\n# ")))
            out.append(("kernel %s does not assemble: %s" % (k.path, (k.error or "")[:200]), p))
    all_dirs = sorted(set(k.dir for k in ks if k.executable and k.funcs))
    chg = changed_files(ctx.build)
    chg_dirs = set()
    for f in chg:
        if f.endswith((".asm", ".as")):
            dd = os.path.relpath(os.path.dirname(f), os.path.join("mpn", "x86_64"))
            chg_dirs.add("." if dd == "." else dd)
    kc["changed_kernel_files"] = [f for f in chg if f.endswith((".asm", ".as"))]
    dirs, optional = choose_dirs(all_dirs, ctx.tier, ctx.seed, chg_dirs)
    kc["directories"] = all_dirs; kc["directories_mandatory"] = list(dirs)
    hs = asmkern.dir_harnesses(ctx.build, ks, dirs + optional)
    for h in hs:
        if h.error: raise vlib.BuildError(h.error)
    hs.sort(key=lambda h: ((dirs + optional).index(h.dir), h.round))
    # map over ALL directories (cheap: cached) is only needed for the inventory in the thorough tier; here: this run's
    wanted = set(op for h in hs for op in h.opmap)
    pool = pool_lines(ctx, ctx.tier, wanted, cov) if wanted else []
    by_op = collections.defaultdict(list)
    for ln in pool: by_op[ln.split(" ", 1)[0]].append(ln)
    kc["ops_without_generated_lines"] = sorted(op for op in wanted if not by_op.get(op))
    tested, per_dir, evals = {}, {}, 0
    from concurrent.futures import ThreadPoolExecutor
    PAR = 4
    vecs = dict(getattr(ctx, "shipped_vectors", []) or [])
    def sqr_limit(d):
        """mpn_sqr_basecase is only ever called below SQR_KARATSUBA_THRESHOLD (mul_n.c:349; the C routine ASSERTs n <= threshold): the limit of the directory's own table"""
        while True:
            v = dict(vecs.get(os.path.normpath(os.path.join(asmkern.X86, d, "gmp-mparam.h")), []))
            if "SQR_KARATSUBA_THRESHOLD" in v: return v["SQR_KARATSUBA_THRESHOLD"]
            if d in (".", ""): return 16
            d = os.path.dirname(d) or "."
    def work(h):
        lim = sqr_limit(h.dir)
        lines = [ln for op in sorted(h.opmap) for ln in by_op.get(op, []) if op != "k_sqr_basecase" or ln.count(",") + 1 <= lim]
        td = time.time()
        n, bad = run_dir(ctx, h, lines) if lines else (0, [])
        bad = [b + ("0",) for b in bad]
        # operand alignment: the kernels that touch SSE/AVX registers again with every allocation at 8 mod 16 / mixed
        simd_ops = sorted(op for op, kk in h.opmap.items() if any(k.simd for k in kk))
        al = [ln for ln in lines if ln.split(" ", 1)[0] in set(simd_ops)]
        for mode in (("alt",) if ctx.tier == "quick" else ("8", "alt")):
            if al:
                n2, bad2 = run_dir(ctx, h, al, mode); n += n2; bad += [b + (mode,) for b in bad2]
        return h, lines, n, bad, time.time() - td
    todo = [h for h in hs if h.dir in dirs]; opt = [h for h in hs if h.dir in optional]
    results = []
    with ThreadPoolExecutor(max_workers=PAR) as ex:
        results += list(ex.map(work, todo))
        while opt and time.time() - t0 <= QUICK_EXTRA_BUDGET_S:          # quick tier only: further directories while the budget lasts
            chunk, opt = opt[:PAR], opt[PAR:]
            for h in chunk:
                if h.dir not in dirs: dirs.append(h.dir)
            results += list(ex.map(work, chunk))
    for h, lines, n, bad, wall in results:
        evals += n
        cnt = collections.Counter(ln.split(" ", 1)[0] for ln in lines)
        per_dir["%s#%d" % (h.dir, h.round)] = {"kernels_linked": len(h.kernels()), "kernels_with_ops": len(set(k for kk in h.opmap.values() for k in kk)),
                                               "lines": n, "ops": dict(cnt), "wall_s": round(wall, 1)}
        for k in h.kernels():
            ops = [op for op in h.ops_of(k) if cnt.get(op)]
            if ops: tested[k.path] = {"ops": ops, "lines": sum(cnt[o] for o in ops)}
        seen = set()
        for kk, ln, a, b, note, mode in sorted(bad, key=lambda t: len(t[1])):      # shortest failing line per (kernel, op)
            key = tuple(k.path for k in kk) + (ln.split(" ", 1)[0],)
            if key in seen: continue
            seen.add(key)
            if a.startswith("<crash rc=-4>") and any(k.isa_unknown for k in kk):
                # SIGILL in a kernel whose disassembly has mnemonics the ISA table does not know: not executable here -> skipped AND listed
                kc.setdefault("skipped_sigill", []).append({"kernels": [k.path for k in kk], "unclassified_mnemonics": sorted(set(m for k in kk for m in k.isa_unknown)), "op": ln[:200]})
                continue
            p = write_kernel_replay(ctx, h, kk, ln, a, b, note, mode)
            names = ", ".join(k.path for k in kk) or ("directory " + h.dir)
            log("KERNEL DISAGREEMENT %s: %s\n  kernel: %s\n  model : %s" % (names, ln[:200], a[:200], b[:200]))
            print("DISAGREE kernel %s: %s\n  kernel: %s\n  model : %s" % (names, ln[:300], a[:300], b[:300]))
            out.append(("asm kernel %s | %s | impl=%s | model=%s" % (names, ln[:300], a[:200], b[:200]), p))
    # inventory over ALL directories (their harnesses are built and cached even when they do not run in this tier)
    with_op = set(k.path for h in hs for kk in h.opmap.values() for k in kk)
    kc["with_model_op_all_directories"] = len(with_op)
    kc["no_model_op_all_directories"] = sorted("%s (%s)" % (k.path, ",".join(k.funcs) or "no __gmpn_ entry point") for k in ks if k.executable and k.path not in with_op)
    kc["directories_this_run"] = dirs
    kc["tested"] = len(tested); kc["tested_detail"] = tested; kc["per_directory"] = per_dir; kc["evaluations"] = evals
    in_run = [k for k in ks if k.executable and k.dir in dirs]
    kc["no_model_op"] = sorted(k.path + " (" + ",".join(k.funcs) + ")" for k in in_run if k.path not in tested)
    kc["not_in_this_run"] = sum(1 for k in ks if k.executable and k.dir not in dirs)
    kc["wall_s"] = round(time.time() - t0, 1)
    log("kernel stage: %d found, %d assembled, %d executable, dirs %s: %d kernels tested on %d lines, %d without op, %d disagreements (%.0fs)" % (
        kc["found"], kc["assembled"], kc["executable_on_host"], dirs, len(tested), evals, len(kc["no_model_op"]), len(out), time.time() - t0))
    return out

DEFERRED_OPS = set()      # ops with a listed known finding (none at present)

def deferred_stage(ctx, cov):
    """default build, ops of DEFERRED_OPS: every distinct (op, mode) disagreement is reported on its own"""
    lines = getattr(ctx, "c14_deferred", None) or []
    if not lines: return []
    rc, impl, err = vlib.run_stream(ctx.harness, lines)
    if rc != 0 or len(impl) != len(lines): raise RuntimeError("harness failed on deferred ops: rc=%d %s" % (rc, err[-500:]))
    rc2, model, err2 = vlib.run_stream(ctx.driver, [a + " => " + b for a, b in zip(lines, impl)])
    if rc2 != 0 or len(model) != len(lines): raise RuntimeError("Lean driver failed on deferred ops: %s" % err2[-500:])
    out = []; seen = set()
    bad = sorted(vlib.diff_streams(lines, impl, model), key=lambda b: len(b[1]))
    for i, ln, a, b in bad:
        key = tuple(ln.split(" ")[:2])
        if key in seen: continue
        seen.add(key)
        p = replay_path(ctx.pid)
        open(p, "w").write("# property %s  seed %d  tier %s  stage default-build\n# op: %s\n# implementation (portable C of the pinned build): %s\n# model/spec: %s\n%s\n" % (ctx.pid, ctx.seed, ctx.tier, ln, a, b, ln))
        out.append(("%s | impl=%s | model=%s" % (ln, a, b), p))
    cov["default_build_deferred_ops"] = {"lines": len(lines), "disagreements": len(bad)}
    return out

# ------------------------------------------------------------------------------------------------ rebuild stage (thorough)
SCRATCH = os.environ.get("VERIF_SCRATCH", "/var/tmp/asm-scratch")
BASE_CFLAGS = "-O1 -g -Wno-error"
VALUE_RE = re.compile(r"^(mpn|mpz|mpq|mpf)_(mul|sqr|tdiv|divrem|div|fdiv|cdiv|mod|gcd|lcm|invert|get_str|set_str|powm|pow|sizeinbase|fac|bin|fib|luc|sqrt|root|jacobi|kronecker|legendre|perfect|remove|divisible|congruent|redc|binvert|mullow|mulhigh|mulmid|toom|kara|dc_|sb_|inv_|hgcd|matrix22|out_str|inp_str|probab)")

def variants(ctx):
    """(tag, description, gmp-mparam.h to substitute or None, CFLAGS, configure arguments or None)"""
    out = []
    for rel, vec_ in getattr(ctx, "shipped_vectors", []):
        out.append(("t%02d" % len(out), "table %s + WANT_ASSERT" % rel, rel, BASE_CFLAGS + " -DWANT_ASSERT=1", None))
    out.append(("reent", "--enable-alloca=malloc-reentrant", None, BASE_CFLAGS, ["--enable-alloca=malloc-reentrant"]))
    out.append(("tdebug", "--enable-alloca=debug --enable-assert", None, BASE_CFLAGS, ["--enable-alloca=debug", "--enable-assert"]))
    out.append(("fat", "--enable-fat", None, BASE_CFLAGS, ["--enable-fat"]))
    # whole per-CPU configurations (the CPU's kernels TOGETHER with its table: e.g. native addmul_2/redc_2 switch on code paths
    # of powm.c that the generic configuration never compiles), for every CPU name whose kernel path this host can execute
    try:
        ks = asmkern.load(ctx.build); bad_dirs = set(k.dir for k in ks if k.funcs and not k.executable)
    except Exception: bad_dirs = None
    if bad_dirs is not None:
        for name, d in CPU_BUILDS:
            path = [d.rsplit("/", i)[0] for i in range(d.count("/"), -1, -1)] if d else []
            path = set(["/".join(d.split("/")[:i + 1]) for i in range(len(d.split("/")))])
            if path & bad_dirs: continue
            out.append(("cpu-" + name, "--build=%s-pc-linux-gnu" % name, None, BASE_CFLAGS, ["--build=%s-pc-linux-gnu" % name]))
    return out

CPU_BUILDS = [("k8", "k8"), ("k10", "k8/k10"), ("k102", "k8/k10/k102"), ("bulldozer", "bulldozer"), ("piledriver", "bulldozer/piledriver"),
              ("bobcat", "bobcat"), ("core2", "core2"), ("penryn", "core2/penryn"), ("nehalem", "nehalem"), ("westmere", "nehalem/westmere"),
              ("sandybridge", "sandybridge"), ("ivybridge", "sandybridge/ivybridge"), ("haswell", "haswell"), ("haswellavx", "haswell/avx"),
              ("broadwell", "haswell/broadwell"), ("skylake", "skylake"), ("skylakeavx", "skylake/avx"), ("atom", "atom"), ("netburst", "netburst")]
def cpu_table(tag):
    d = dict(CPU_BUILDS).get(tag[4:]) if tag.startswith("cpu-") else None
    return "mpn/x86_64/%s/gmp-mparam.h" % d if d else None

def build_variant(ctx, var, jobs):
    """copy the scratch tree, substitute the table / reconfigure, make clean && make, link the standard harness -> (tree, harness)"""
    tag, desc, rel, cflags, cfg = var
    tree = os.path.join(SCRATCH, "c14-%d-%s" % (os.getpid(), tag))
    shutil.rmtree(tree, ignore_errors=True); os.makedirs(SCRATCH, exist_ok=True)
    vlib.run(["rsync", "-a", "--exclude", "asmkern", "--exclude", "harness-*", "--exclude", ".libs", "--exclude", ".ok", ctx.build + "/", tree + "/"], check=True)
    if cfg:
        rc, out = vlib.run("./configure %s > c14-configure.log 2>&1" % " ".join(cfg), cwd=tree, timeout=1800)
        if rc != 0: raise vlib.BuildError("configure %s failed: %s" % (cfg, open(os.path.join(tree, "c14-configure.log")).read()[-1500:]))
    if rel:
        dst = os.path.join(tree, "gmp-mparam.h")
        if os.path.islink(dst) or os.path.exists(dst): os.unlink(dst)      # a symlink into mpn/: replace it, never write through it
        shutil.copy(os.path.join(ctx.build, rel), dst)
    rc, out = vlib.run("make clean >/dev/null 2>&1; make -j%d CC=gcc CFLAGS='%s' 2>&1 | tail -30" % (jobs, cflags), cwd=tree, timeout=3600)
    if not os.path.exists(os.path.join(tree, ".libs", "libmpir.a")):
        raise vlib.BuildError("library build failed for %s:\n%s" % (desc, out[-2500:]))
    return tree, vlib.get_harness(tree, "plain", "-no-pie" if cfg and "--enable-fat" in cfg else "")     # fat_entry.o uses absolute relocations

INTERNAL_RE = re.compile(r"^(mpn_(powm_|powlo_|kara|toom|mulmod|mullow|mulhigh|mulmid|dc_|sb_|inv_|redc|binvert|hgcd|matrix22|sqr_basecase|mul_basecase)|fft|sqrx_|mlx_|toom_|tdiv_q_|tdiv_qr_|dc_|sb_|hgcd_|as\\d?_|alias_)")
# ops whose Lean answer is computed from the DEFAULT build's regenerated tables (they say nothing about another table)
TABLE_BOUND_OPS = {"mpn_mulmod_bnm1_next_size"}

def other_value_lines(ctx, tree, harness, cap=40000):
    """value-level op lines of the other properties' generators (quick tier), generated against the rebuilt tree: an evenly
    spaced sample of every generator's stream (not its first lines: generators emit one operation family after the other)"""
    class C: pass
    c2 = C(); c2.__dict__.update(ctx.__dict__); c2.build = tree; c2.harness = harness
    pdir = os.path.dirname(os.path.abspath(__file__)); have = harness_op_names()
    files = [f for f in sorted(glob.glob(os.path.join(pdir, "c*.py"))) if not os.path.basename(f).startswith("c14") and "def gen_ops" in open(f).read()]
    per = max(200, cap // max(1, len(files))); out = []
    for f in files:
        name = os.path.basename(f)[:-3]
        try:
            m = importlib.import_module("props." + name); tg = time.time(); got = []
            for ln in m.gen_ops(random.Random("C14-%s-%d" % (name, ctx.seed)), "quick", c2):
                op = ln.split(" ", 1)[0]
                if VALUE_RE.match(op) and op in have and len(ln) < 200000 and not op.endswith("model") and op not in TABLE_BOUND_OPS: got.append(ln)     # *model ops mirror the DEFAULT table's dispatch
                if len(got) >= 60000 or time.time() - tg > 45: break
            byop = collections.defaultdict(list)
            for ln in got: byop[ln.split(" ", 1)[0]].append(ln)
            share = max(8, per // max(1, len(byop)))
            for op in sorted(byop):
                v = byop[op]; step = max(1, len(v) // share)
                out += v[::step][:share]
        except Exception as e:
            log("generator props.%s skipped in rebuild stage: %s" % (name, str(e)[:200]))
    return out[:cap]

def fat_dispatch(ctx, tree):
    """which kernels the fat library selects on this CPU: run __gmpn_cpuvec_init, read the function pointers of __gmpn_cpuvec,
    name them through the symbol table; every selected kernel must be one the host can execute (tools/asmkern.py ISA check)"""
    src = os.path.join(tree, "c14_fatprobe.c"); exe = os.path.join(tree, "c14_fatprobe")
    open(src, "w").write('#include <stdio.h>\n#include "mpir.h"\n#include "gmp-impl.h"\nint main(void){ __gmpn_cpuvec_init(); unsigned long *p = (unsigned long *) &__gmpn_cpuvec;\n'
                         ' for (unsigned i = 0; i < sizeof(__gmpn_cpuvec) / 8; i++) printf("%lx\\n", p[i]); return 0; }\n')
    rc, out = vlib.run("gcc -w -no-pie -DHAVE_CONFIG_H -I%s %s %s/.libs/libmpir.a -o %s" % (tree, src, tree, exe))
    if rc != 0: raise vlib.BuildError("fat probe: " + out[-800:])
    rc, words = vlib.run([exe]); rc2, nm = vlib.run(["nm", exe])
    addr = {}
    for ln in nm.split("\n"):
        f = ln.split()
        if len(f) == 3 and f[1] in "Tt" and f[2].startswith("__gmpn_"): addr.setdefault(int(f[0], 16), f[2])
    ks = asmkern.load(ctx.build); dirs = sorted(set(k.dir for k in ks), key=len, reverse=True)
    sel, bad = {}, []
    for w in words.split():
        sym = addr.get(int(w, 16))
        if not sym: continue
        name = sym[len("__gmpn_"):]; d = None
        for cand in dirs:
            suf = "_" + cand.replace("/", "_")
            if cand != "." and name.endswith(suf): d = cand; name = name[: -len(suf)]; break
        if d is None and name.endswith("_fat"): name = name[:-4]; d = "fat (C)"               # mpn/x86_64/fat/*.c: portable C fallbacks
        if d is None and name.endswith("_x86_64"): name = name[:-7]; d = "."                  # top-level mpn/x86_64/*.as{,m}
        sel[name] = "%s [%s]" % (sym, d or "?")
        for k in ks:
            if d and k.dir == d and name in k.funcs and not k.executable: bad.append("%s -> %s needs %s" % (sym, k.path, k.missing))
    return sel, bad

def fat_first_calls(ctx, harness, lines, desc, cflags, cfg, info):
    """fat build: the FIRST dispatched call of a process goes through the initialising stub of fat_entry.asm (save the argument
    registers, run __gmpn_cpuvec_init, restore, jump); every later call jumps straight through the filled vector.  So each
    operation is also run as the only line of a fresh process (three lines per op, shortest first)."""
    byop = collections.defaultdict(list)
    for ln in lines:
        if len(ln) < 4000: byop[ln.split(" ", 1)[0]].append(ln)
    picks = []
    for op in sorted(byop):
        v = sorted(byop[op], key=len); picks += [v[0], v[len(v) // 2], v[-1]] if len(v) >= 3 else v
    impl = []
    for ln in picks:
        rc, o, err = vlib.run_stream(harness, [ln], timeout=120)
        impl.append(o[0] if rc == 0 and len(o) == 1 else "<crash rc=%s> %s" % (rc, (err.strip().split("\n") or [""])[-1][:200]))
    keep = [i for i in range(len(picks)) if "!nokernel" not in impl[i]]
    l2 = [picks[i] for i in keep]; i2 = [impl[i] for i in keep]
    rc2, model, err2 = vlib.run_stream(ctx.driver, [a + " => " + b for a, b in zip(l2, i2)])
    if rc2 != 0 or len(model) != len(l2): raise RuntimeError("Lean driver failed in fat first-call stage: %s" % err2[-800:])
    out = []; seen = set()
    for _, ln, a, b in vlib.diff_streams(l2, i2, model):
        op = ln.split(" ", 1)[0]
        if op in seen: continue
        seen.add(op); p = replay_path(ctx.pid)
        with open(p, "w") as f:
            f.write("# property %s  seed %d  tier %s  stage rebuild (first call of a fresh process)\n# rebuild: table=-\n# rebuild-cflags: %s\n# rebuild-configure: %s\n" % (ctx.pid, ctx.seed, ctx.tier, cflags, " ".join(cfg)))
            f.write("# op: %s\n# implementation (this line alone in a fresh process of the fat library): %s\n# model/spec: %s\n%s\n" % (ln[:2000], a[:2000], b[:2000], ln))
        print("DISAGREE under %s, first call of a fresh process: %s\n  impl : %s\n  model: %s" % (desc, ln[:300], a[:300], b[:300]))
        out.append(("rebuild %s first call | %s | impl=%s | model=%s" % (desc, ln[:300], a[:200], b[:200]), p))
    info["first_call_processes"] = len(l2); info["first_call_disagreements"] = len(out)
    return out

def run_variant(ctx, var, jobs, cov):
    tag, desc, rel, cflags, cfg = var
    t0 = time.time(); tree = None; out = []; info = {"what": desc}
    try:
        tree, harness = build_variant(ctx, var, jobs)
        info["build_s"] = round(time.time() - t0, 1)
        if cfg and "--enable-fat" in cfg:
            info["fat_dispatch"], badsel = fat_dispatch(ctx, tree)
            for b in badsel:
                p = replay_path(ctx.pid); open(p, "w").write("# property %s stage rebuild (--enable-fat)\n# the fat library selects a kernel this CPU cannot execute: %s\n" % (ctx.pid, b))
                out.append(("fat dispatch selects a kernel the CPU cannot execute: " + b, p))
        have = harness_op_names()
        thr = dict(dict(getattr(ctx, "shipped_vectors", [])).get(rel, [])) if rel else sel_vector(ctx)
        if tag.startswith("cpu-"):
            class C2: pass
            c2 = C2(); c2.__dict__.update(ctx.__dict__); c2.build = tree
            thr = sel_vector(c2); info["table"] = os.path.relpath(os.path.realpath(os.path.join(tree, "gmp-mparam.h")), os.path.realpath(tree))
        rng = random.Random("C14-var-%s-%d" % (tag, ctx.seed))
        lines = value_lines(rng, "thorough" if rel or tag.startswith("cpu-") else "quick", thr, have)
        if not rel:        # option builds: also the kernels (fat: the dispatched ones) and the optional-kernel ops
            lines += kernel_lines(rng, "quick", have)
            probe_have = set(have)
            lines += [l for l in kext_lines(rng, "quick", probe_have)]
        ov = other_value_lines(ctx, tree, harness)
        if tag.startswith("cpu-"):
            # direct calls of internal algorithm entry points are generated for the size domains of the GENERIC kernels; native
            # helper kernels of a CPU configuration have their own minima (e.g. core2 karaadd: n >= 8), which the public
            # dispatchers respect through that CPU's thresholds: keep the public entry points and the c14_* crossover lines only
            ov = [l for l in ov if not INTERNAL_RE.match(l.split(" ", 1)[0])]
        lines += ov
        for f in sorted(glob.glob(os.path.join(vlib.VERIF, "corpus", ctx.pid, "*.ops"))):       # past failures, on every rebuilt library
            lines += [l.rstrip("\n") for l in open(f) if l.strip() and not l.startswith(("#", "@"))]
        if cfg and "--enable-fat" in cfg:
            out += fat_first_calls(ctx, harness, lines, desc, cflags, cfg, info)
        rc0, base, err0 = vlib.run_stream(ctx.harness, lines, timeout=3600)          # the default library on the same lines
        if rc0 == 0 and len(base) == len(lines):
            exc = re.compile(r"!(div0|sqrtneg|invalid|fpe)\b")
            n0 = len(lines); lines = [l for l, b in zip(lines, base) if not exc.search(b)]     # no value is returned there: an assertion build may abort earlier
            info["dropped_exception_lines"] = n0 - len(lines)
        rc, impl, err = vlib.run_stream(harness, lines, timeout=3600)
        ok_n = min(len(impl), len(lines))
        keep = [i for i in range(ok_n) if "!nokernel" not in impl[i]]
        l2 = [lines[i] for i in keep]; i2 = [impl[i] for i in keep]
        rc2, model, err2 = vlib.run_stream(ctx.driver, [a + " => " + b for a, b in zip(l2, i2)])
        if rc2 != 0 or len(model) != len(l2): raise RuntimeError("Lean driver failed in rebuild stage: %s" % err2[-800:])
        bad = [(ln, a, b, "") for _, ln, a, b in vlib.diff_streams(l2, i2, model)]
        if rc != 0 or len(impl) != len(lines):
            bad.insert(0, (lines[ok_n] if ok_n < len(lines) else "<eof>", "<crash rc=%d> %s" % (rc, (err.strip().split("\n") or [""])[-1][:300]), "<no crash>", err[-3000:]))
        info["lines"] = len(l2); info["disagreements"] = len(bad); info["ops"] = dict(collections.Counter(l.split(" ", 1)[0] for l in l2))
        seen = set()
        for ln, a, b, note in sorted(bad, key=lambda t: len(t[0])):
            op = ln.split(" ", 1)[0]
            if op in seen: continue
            seen.add(op)
            p = replay_path(ctx.pid)
            with open(p, "w") as f:
                f.write("# property %s  seed %d  tier %s  stage rebuild\n# rebuild: table=%s\n# rebuild-cflags: %s\n# rebuild-configure: %s\n" % (ctx.pid, ctx.seed, ctx.tier, rel or "-", cflags, " ".join(cfg or []) or "-"))
                f.write("# op: %s\n# implementation (library rebuilt as above): %s\n# model/spec: %s\n" % (ln[:2000], a[:2000], b[:2000]))
                if note: f.write("".join("# " + l + "\n" for l in note.split("\n")[-40:]))
                f.write(ln + "\n")
            print("DISAGREE under %s: %s\n  impl : %s\n  model: %s" % (desc, ln[:300], a[:300], b[:300]))
            out.append(("rebuild %s | %s | impl=%s | model=%s" % (desc, ln[:300], a[:200], b[:200]), p))
    finally:
        if tree: shutil.rmtree(tree, ignore_errors=True)
    info["wall_s"] = round(time.time() - t0, 1)
    cov.setdefault("rebuilds", {})[tag] = info
    log("rebuild %-60s %5d lines, %d disagreements, %.0fs" % (desc, info.get("lines", 0), info.get("disagreements", 0), time.time() - t0))
    return out

def rebuild_stage(ctx, cov):
    from concurrent.futures import ThreadPoolExecutor
    vs = variants(ctx); par = 4; jobs = max(2, vlib.NPROC // par)
    if ctx.tier != "thorough":
        chg = [f for f in changed_files(ctx.build) if f.endswith("gmp-mparam.h")]
        vs = [v for v in vs if v[2] in chg or (cpu_table(v[0]) in chg)]     # quick tier: only the tables whose text changed since the reference (+ that CPU's whole configuration)
        if not vs:
            cov["rebuilds"] = {"skipped": "thorough tier only (one library build per shipped gmp-mparam.h and per configure option); quick tier rebuilds only tables whose text changed"}
            return []
        cov["rebuilds_changed_tables"] = chg
    only = os.environ.get("C14_REBUILD_ONLY")          # debugging aid: comma-separated tags
    if only: vs = [v for v in vs if v[0] in only.split(",")]
    out = []
    with ThreadPoolExecutor(max_workers=par) as ex:
        for r in ex.map(lambda v: run_variant(ctx, v, jobs, cov), vs): out += r
    return out

def table_search(ctx, cov):
    """The executable side of `all_shipped_params_valid`: the driver evaluates every clause of Valid on every regenerated table.
    A table that violates a clause makes the theorem fail; here the library is rebuilt with that table and WANT_ASSERT and the
    crossover inputs are run on it, so that the broken proof comes with a concrete failing input when one exists."""
    files = [rel for rel, _ in getattr(ctx, "shipped_vectors", [])]
    if not files: return []
    rc, ans, err = vlib.run_stream(ctx.driver, ["c14_table_valid %s => x" % sbytes(f) for f in files])
    if rc != 0 or len(ans) != len(files): raise RuntimeError("driver failed on c14_table_valid: %s" % err[-500:])
    failing = {}
    for f, a in zip(files, ans):
        if a.startswith("s"):
            names = bytes.fromhex(a[1:]).decode()
            if names: failing[f] = names
        else: failing[f] = "driver answered " + a
    cov["tables"] = {"files": len(files), "invalid": failing}
    out = []
    for i, (f, names) in enumerate(sorted(failing.items())):
        log("table %s violates Valid (%s): rebuilding the library with it and WANT_ASSERT to look for a failing input" % (f, names))
        out += run_variant(ctx, ("inv%02d" % i, "table %s + WANT_ASSERT [violates Valid: %s]" % (f, names), f, BASE_CFLAGS + " -DWANT_ASSERT=1", None), vlib.NPROC, cov)
    return out

def extra(ctx, cov):
    out = []
    if getattr(ctx, "driver", None) is None: return out
    stages = os.environ.get("C14_STAGES", "deferred,kernel,rebuild").split(",")       # debugging aid; default = everything
    if "tables" in stages or "rebuild" in stages: out += table_search(ctx, cov)
    if "deferred" in stages: out += deferred_stage(ctx, cov)
    if "kernel" in stages: out += kernel_stage(ctx, cov)
    if "rebuild" in stages: out += rebuild_stage(ctx, cov)
    return out

# ------------------------------------------------------------------------------------------------ replay CLI
def main():
    import argparse
    ap = argparse.ArgumentParser(); ap.add_argument("--replay", required=True); a = ap.parse_args()
    txt = open(a.replay).read()
    paths = re.findall(r"^# kernel: (\S+)", txt, re.M); m = re.search(r"^# directory-harness: (\S+) round (\d+)", txt, re.M)
    lines = [l for l in txt.split("\n") if l.strip() and not l.startswith("#")]
    class C: pass
    ctx = C(); ctx.build = vlib.get_build("plain"); ctx.driver = vlib.get_driver(); ctx.pid = "C14"; ctx.seed = 0; ctx.tier = "replay"
    ks = asmkern.load(ctx.build)
    hs = [h for h in asmkern.dir_harnesses(ctx.build, ks, [m.group(1)]) if h.round == int(m.group(2))]
    if not hs or hs[0].error: print("cannot build the directory harness: %s" % (hs[0].error if hs else "no such directory")); sys.exit(2)
    ma = re.search(r"^# align: (\S+)", txt, re.M)
    n, bad = run_dir(ctx, hs[0], lines, ma.group(1) if ma else "0")
    for kk, ln, x, y, note in bad:
        print("DISAGREE kernel %s: %s\n  kernel: %s\n  model : %s" % (", ".join(k.path for k in kk), ln[:300], x[:300], y[:300]))
    if bad: print("VIOLATION property=C14 replay=%s" % a.replay); sys.exit(1)
    print("replay agrees on %d ops (kernels %s)" % (n, ", ".join(paths))); sys.exit(0)

if __name__ == "__main__":
    main()
