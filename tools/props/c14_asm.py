"""C14 part: assembly kernels of every x86-64 CPU directory against the Lean limb-level models, shipped threshold
tables (generated, `Valid` decided by the kernel), per-table / per-option rebuilds of the library (thorough tier).

Kernel stage (`extra`):  tools/asmkern.py assembles every mpn/x86_64/**/*.as{,m} of the tree under test, renames the
symbols of kernel N to k<N>_*, and builds one harness per CPU directory in which every `mpn_<fn>` the directory ships
is that directory's kernel.  Op lines come from the generators of ALL properties (tools/props/c*.py, filtered to the
ops whose C code reaches a redirected kernel — read back from the relocations of the recompiled ops objects) plus the
kernel-shaped generator below; they run through the directory harness and the Lean driver and are compared verbatim.

Replay of a kernel disagreement:  python3 tools/props/c14_asm.py --replay replay/C14-<n>.ops   (the file names the
kernel; `bin/check C14 --replay` would use the default library, whose C routine is not the one that failed)."""
import os, sys, re, glob, json, time, math, random, importlib, collections, shutil
sys.path.insert(0, os.path.dirname(os.path.dirname(os.path.abspath(__file__))))
import vlib, asmkern
from gen_mparams import gen_mparams
from vlib import log
from genlib import *

LEAN_MODULES = ["MpirProofs.Props.C14"]
THEOREMS = ["Mpir.Params.all_shipped_params_valid", "Mpir.Params.shipped_params_nonempty"]
GEN = [gen_mparams]
TRUSTED = ["tools/gen_mparams.py: threshold vectors are resolved by gcc from each shipped gmp-mparam.h + gmp-impl.h (regenerated every run); "
           "lean/Mpir/Model/ParamsValid.lean: hand-collected list of the requirements the sources state on thresholds (each clause cites file:line) — necessary conditions, not proved sufficient",
           "tools/asmkern.py: the assembly commands are re-read from the configured mpn/Makefile (.asm.o / .as.lo rules); objcopy symbol renaming; "
           "the op -> kernel map is computed from ELF relocations of the recompiled harness/ops_*.c",
           "ISA classification of kernels by disassembly mnemonics against /proc/cpuinfo flags (a misclassified kernel shows up as SIGILL = reported, not hidden)"]
ASSUMPTIONS = ["equivalence of an assembly kernel and the C routine is differential (both against the same Lean model), not a proof about assembly text",
               "only kernels whose entry point has a harness op with the same prototype are executed; the others are listed under coverage.kernels.no_model_op",
               "a kernel is exercised standalone (called from the harness), not as a callee inside a library built for that CPU; "
               "fat-binary dispatch on other CPUs is not executed"]
RULE = ("kernel stage: every generator of tools/props/c*.py filtered to ops that reach a redirected kernel + kernel-shaped lines (all n 1..140, n mod 8 sweeps around unroll "
        "boundaries, carry chains, all shift counts, overlap offsets, mul_basecase all (un,vn) <= 24); quick = directory '.' (pinned build) + a VERIF_SEED-rotated tenth of the "
        "CPU directories, thorough = all directories; distinct = distinct (directory, op line)")

# ------------------------------------------------------------------------------------------------ generators
def harness_op_names():
    names = set()
    for s in asmkern.ops_sources():
        names |= set(re.findall(r"\{\s*\"([^\"]+)\"\s*,", open(s).read()))
    return names

def kernel_lines(rng, tier, have):
    """kernel-shaped inputs for the limb-vector ops (assembly kernels: 4/8-way unrolled loops with separate tails,
    special cases for tiny n, SSE/AVX paths that depend on relative alignment)."""
    def emit(fmt, *a):
        ln = fmt % a
        return [ln] if ln.split(" ", 1)[0] in have else []
    out = []
    ns = list(range(1, 141)) + [rng.randrange(141, 600) for _ in range(6 if tier == "quick" else 30)] + ([1000, 1023, 1024, 1025, 4099] if tier != "quick" else [257])
    reps = 2 if tier == "quick" else 6
    for n in ns:
        for r in range(reps if n <= 140 else 1):
            cls = rng.choice(["uniform", "uniform", "runs", "ones", "sparse"])
            u, v = rand_limbs(rng, n, cls), rand_limbs(rng, n, rng.choice(["uniform", "runs", "ones", "sparse"]))
            out += emit("mpn_add_n %s %s", vec(u), vec(v)); out += emit("mpn_sub_n %s %s", vec(u), vec(v))
            out += emit("mpn_add_n_ov %x %s %s", rng.choice([1, 2]), vec(u), vec(v)); out += emit("mpn_add_n_ov 3 %s %s", vec(u), vec(u))   # mode 3: rp == up == vp
            out += emit("mpn_sub_n_ov %x %s %s", rng.choice([1, 2]), vec(u), vec(v)); out += emit("mpn_sub_n_ov 3 %s %s", vec(u), vec(u))
            c = rng.randrange(1, 64)
            out += emit("mpn_lshift %s %x", vec(u), c); out += emit("mpn_rshift %s %x", vec(u), c)
            k = rng.choice([0, 1, 1, 2, 3, 5, n - 1, n])
            out += emit("mpn_lshift %s %x %s", vec(u), rng.randrange(1, 64), hx(k)); out += emit("mpn_rshift %s %x %s", vec(u), rng.randrange(1, 64), hx(-k))
            out += emit("mpn_copyi %s %s", vec(u), hx(-k)); out += emit("mpn_copyd %s %s", vec(u), hx(k))
            out += emit("mpn_copyi %s", vec(u)); out += emit("mpn_copyd %s", vec(u)); out += emit("mpn_com %s", vec(u))
            x = rand_limb(rng)
            out += emit("mpn_mul_1 %s %x", vec(u), x); out += emit("mpn_mul_1_ip %s %x", vec(u), x)
            out += emit("mpn_addmul_1 %s %s %x", vec(v), vec(u), x); out += emit("mpn_submul_1 %s %s %x", vec(v), vec(u), x)
            out += emit("mpn_neg %s", vec(u)); out += emit("mpn_add %s %s", vec(u), vec(v[: rng.randrange(1, n + 1)])); out += emit("mpn_sub %s %s", vec(u), vec(v[: rng.randrange(1, n + 1)]))
        # carries that run through the whole unrolled loop and stop at every tail position
        for st in ([n] if n > 40 else sorted(set([0, n // 2, n - 1, n]))):
            u = [M] * n; v = [0] * n; v[0] = 1
            if st < n: u[st] = rng.getrandbits(63)
            out += emit("mpn_add_n %s %s", vec(u), vec(v)); out += emit("mpn_add_n %s %s", vec(v), vec(u))
            z = [0] * n
            if st < n: z[st] = 1 + rng.getrandbits(62)
            out += emit("mpn_sub_n %s %s", vec(z), vec(v))
            out += emit("mpn_addmul_1 %s %s %x", vec(u), vec([M] * n), M); out += emit("mpn_submul_1 %s %s %x", vec(z), vec([M] * n), M)
            out += emit("mpn_mul_1 %s %x", vec([M] * n), M)
    for c in range(1, 64):
        for n in (1, 2, 3, 4, 5, 8, 9, 17):
            u = rand_limbs(rng, n, rng.choice(["uniform", "ones", "runs"]))
            out += emit("mpn_lshift %s %x", vec(u), c); out += emit("mpn_rshift %s %x", vec(u), c)
    top = 24 if tier == "quick" else 40
    for un in range(1, top + 1):
        for vn in range(1, un + 1):
            for cls in (["uniform"] if tier == "quick" else ["uniform", "runs", "ones"]):
                out += emit("mpn_mul_basecase %s %s", vec(rand_limbs(rng, un, cls)), vec(rand_limbs(rng, vn, rng.choice(["uniform", "ones", "runs"]))))
    for un in [rng.randrange(top + 1, 90) for _ in range(12 if tier == "quick" else 60)]:
        vn = rng.randrange(1, un + 1)
        out += emit("mpn_mul_basecase %s %s", vec(rand_limbs(rng, un)), vec(rand_limbs(rng, vn)))
    for n in range(1, 34):
        out += emit("mpn_mul_basecase %s %s", vec([M] * n), vec([M] * n))
    return out

def pool_lines(ctx, tier, wanted, cov):
    """op lines from every property generator (filtered to `wanted` op names) + kernel_lines"""
    t0 = time.time(); lines = []; srcs = {}
    pdir = os.path.dirname(os.path.abspath(__file__))
    have = harness_op_names()
    mine = kernel_lines(random.Random("C14-kern-%d" % ctx.seed), tier, have & wanted)
    srcs["c14_asm.kernel_lines"] = len(mine); lines += mine
    for f in sorted(glob.glob(os.path.join(pdir, "c*.py"))):
        name = os.path.basename(f)[:-3]
        if name.startswith("c14"): continue
        txt = open(f).read()
        if "def gen_ops" not in txt or "mpn_" not in txt: continue
        try:
            m = importlib.import_module("props." + name)
            rng = random.Random("C14-%s-%d" % (name, ctx.seed)); n = 0; tg = time.time()
            for ln in m.gen_ops(rng, tier, ctx):
                if ln.split(" ", 1)[0] in wanted: lines.append(ln); n += 1
                if time.time() - tg > (40 if tier == "quick" else 300): break
            srcs["props." + name] = n
        except Exception as e:
            srcs["props." + name] = "generator failed: %s" % str(e)[:200]
    # drop exact duplicates, keep order
    seen = set(); uniq = []
    for ln in lines:
        if ln not in seen: seen.add(ln); uniq.append(ln)
    cov["kernel_generators"] = srcs; cov["kernel_pool_lines"] = len(uniq); cov["kernel_pool_gen_s"] = round(time.time() - t0, 1)
    return uniq

# ------------------------------------------------------------------------------------------------ kernel stage
def replay_path(pid):
    n = len(glob.glob(os.path.join(vlib.VERIF, "replay", pid + "-*.ops"))) + 1
    os.makedirs(os.path.join(vlib.VERIF, "replay"), exist_ok=True)
    return os.path.join(vlib.VERIF, "replay", "%s-%d.ops" % (pid, n))

def write_kernel_replay(ctx, h, ks, line, impl, model, note=""):
    p = replay_path(ctx.pid)
    with open(p, "w") as f:
        f.write("# property %s  seed %d  tier %s  stage asm-kernel\n" % (ctx.pid, ctx.seed, ctx.tier))
        for k in ks: f.write("# kernel: %s  (functions %s, symbols prefixed %s)\n" % (k.path, ",".join(k.funcs), k.prefix))
        f.write("# directory-harness: %s round %d\n" % (h.dir, h.round))
        f.write("# op: %s\n# kernel output: %s\n# model/spec:    %s\n" % (line[:2000], impl[:2000], model[:2000]))
        if note: f.write("".join("# " + l + "\n" for l in note.split("\n")[:40]))
        f.write("# rerun: python3 tools/props/c14_asm.py --replay %s\n" % os.path.relpath(p, vlib.VERIF))
        f.write(line + "\n")
    return p

def run_dir(ctx, h, lines):
    """-> (n evaluated, list of (kernels, line, impl, model, note))  — continues past a crashing kernel"""
    bad = []; done = 0; lines = list(lines); rounds = 0
    while lines and rounds < 8:
        rounds += 1
        rc, impl, err = vlib.run_stream(h.exe, lines, timeout=3600)
        crashed = rc != 0 or len(impl) != len(lines)
        ok_n = min(len(impl), len(lines))
        if ok_n:
            dl = [a + " => " + b for a, b in zip(lines[:ok_n], impl[:ok_n])]
            rc2, model, err2 = vlib.run_stream(ctx.driver, dl)
            if rc2 != 0 or len(model) != ok_n:
                raise RuntimeError("Lean driver failed (rc=%d) after %d lines: %s" % (rc2, len(model), err2[-1500:]))
            for i, ln, a, b in vlib.diff_streams(lines[:ok_n], impl[:ok_n], model):
                bad.append((h.opmap.get(ln.split(" ", 1)[0], []), ln, a, b, ""))
            done += ok_n
        if not crashed: break
        ln = lines[ok_n] if ok_n < len(lines) else "<eof>"
        op = ln.split(" ", 1)[0]; ks = h.opmap.get(op, [])
        bad.append((ks, ln, "<crash rc=%d>" % rc, "<no crash>", err[-1500:]))
        dead = set(o for o, kk in h.opmap.items() if set(kk) & set(ks)) | {op}
        lines = [l for l in lines[ok_n + 1:] if l.split(" ", 1)[0] not in dead]
    return done, bad

QUICK_EXTRA_BUDGET_S = 45      # quick tier: after the mandatory tenth, further directories (same rotation order) while the stage is younger than this

def choose_dirs(all_dirs, tier, seed):
    """-> (mandatory, optional): thorough = everything; quick = '.' (pinned build) + a seed-rotated tenth, the rest optional in rotation order"""
    if tier != "quick": return list(all_dirs), []
    rest = [d for d in all_dirs if d != "."]
    n = max(1, math.ceil(len(rest) / 10.0)); start = ((seed - 1) * n) % max(1, len(rest))
    order = [rest[(start + j) % len(rest)] for j in range(len(rest))]
    return (["."] if "." in all_dirs else []) + order[:n], order[n:]

def kernel_stage(ctx, cov):
    t0 = time.time()
    ks = asmkern.load(ctx.build)
    kc = cov.setdefault("kernels", {})
    kc["found"] = len(ks); kc["assembled"] = sum(k.assembled for k in ks); kc["executable_on_host"] = sum(k.executable for k in ks)
    kc["assemble_failures"] = [{"kernel": k.path, "error": k.error} for k in ks if not k.assembled]
    kc["skipped_isa"] = [{"kernel": k.path, "needs": k.missing} for k in ks if k.assembled and k.missing]
    kc["unclassified_mnemonics"] = {k.path: k.isa_unknown for k in ks if k.isa_unknown}
    kc["host_isa_used"] = sorted(set(f for k in ks for f in k.isa))
    kc["pinned_build_kernels"] = [k.path for k in asmkern.default_build_kernels(ctx.build, ks)]
    out = []
    for k in ks:
        if not k.assembled:
            p = replay_path(ctx.pid)
            open(p, "w").write("# property %s stage asm-kernel\n# kernel: %s does not assemble with the repo's own rule\n# command (cwd <build>/mpn): %s\n# %s\n" % (ctx.pid, k.path, k.cmd, (k.error or "").replace("\n", "\n# ")))
            out.append(("kernel %s does not assemble: %s" % (k.path, (k.error or "")[:200]), p))
    all_dirs = sorted(set(k.dir for k in ks if k.executable and k.funcs))
    dirs, optional = choose_dirs(all_dirs, ctx.tier, ctx.seed)
    kc["directories"] = all_dirs; kc["directories_mandatory"] = list(dirs)
    hs = asmkern.dir_harnesses(ctx.build, ks, dirs + optional)
    for h in hs:
        if h.error: raise vlib.BuildError(h.error)
    hs.sort(key=lambda h: ((dirs + optional).index(h.dir), h.round))
    # map over ALL directories (cheap: cached) is only needed for the inventory in the thorough tier; here: this run's
    wanted = set(op for h in hs for op in h.opmap)
    pool = pool_lines(ctx, ctx.tier, wanted, cov) if wanted else []
    by_op = collections.defaultdict(list)
    for ln in pool: by_op[ln.split(" ", 1)[0]].append(ln)
    kc["ops_without_generated_lines"] = sorted(op for op in wanted if not by_op.get(op))
    tested, per_dir, evals = {}, {}, 0
    for h in hs:
        if h.dir in optional:
            if time.time() - t0 > QUICK_EXTRA_BUDGET_S: continue
            dirs.append(h.dir) if h.dir not in dirs else None
        lines = [ln for op in sorted(h.opmap) for ln in by_op.get(op, [])]
        td = time.time()
        n, bad = run_dir(ctx, h, lines) if lines else (0, [])
        evals += n
        cnt = collections.Counter(ln.split(" ", 1)[0] for ln in lines)
        per_dir["%s#%d" % (h.dir, h.round)] = {"kernels_linked": len(h.kernels()), "kernels_with_ops": len(set(k for kk in h.opmap.values() for k in kk)),
                                               "lines": n, "ops": dict(cnt), "wall_s": round(time.time() - td, 1)}
        for k in h.kernels():
            ops = [op for op in h.ops_of(k) if cnt.get(op)]
            if ops: tested[k.path] = {"ops": ops, "lines": sum(cnt[o] for o in ops)}
        seen = set()
        for kk, ln, a, b, note in bad:
            key = tuple(k.path for k in kk) + (ln.split(" ", 1)[0],)
            if key in seen: continue            # one replay per (kernel, op)
            seen.add(key)
            p = write_kernel_replay(ctx, h, kk, ln, a, b, note)
            names = ", ".join(k.path for k in kk) or ("directory " + h.dir)
            log("KERNEL DISAGREEMENT %s: %s\n  kernel: %s\n  model : %s" % (names, ln[:200], a[:200], b[:200]))
            print("DISAGREE kernel %s: %s\n  kernel: %s\n  model : %s" % (names, ln[:300], a[:300], b[:300]))
            out.append(("asm kernel %s | %s | impl=%s | model=%s" % (names, ln[:300], a[:200], b[:200]), p))
    kc["directories_this_run"] = dirs
    kc["tested"] = len(tested); kc["tested_detail"] = tested; kc["per_directory"] = per_dir; kc["evaluations"] = evals
    in_run = [k for k in ks if k.executable and k.dir in dirs]
    kc["no_model_op"] = sorted(k.path + " (" + ",".join(k.funcs) + ")" for k in in_run if k.path not in tested)
    kc["not_in_this_run"] = sum(1 for k in ks if k.executable and k.dir not in dirs)
    kc["wall_s"] = round(time.time() - t0, 1)
    log("kernel stage: %d found, %d assembled, %d executable, dirs %s: %d kernels tested on %d lines, %d without op, %d disagreements (%.0fs)" % (
        kc["found"], kc["assembled"], kc["executable_on_host"], dirs, len(tested), evals, len(kc["no_model_op"]), len(out), time.time() - t0))
    return out

def extra(ctx, cov):
    out = []
    if getattr(ctx, "driver", None) is None: return out
    out += kernel_stage(ctx, cov)
    return out

# ------------------------------------------------------------------------------------------------ replay CLI
def main():
    import argparse
    ap = argparse.ArgumentParser(); ap.add_argument("--replay", required=True); a = ap.parse_args()
    txt = open(a.replay).read()
    paths = re.findall(r"^# kernel: (\S+)", txt, re.M); m = re.search(r"^# directory-harness: (\S+) round (\d+)", txt, re.M)
    lines = [l for l in txt.split("\n") if l.strip() and not l.startswith("#")]
    class C: pass
    ctx = C(); ctx.build = vlib.get_build("plain"); ctx.driver = vlib.get_driver(); ctx.pid = "C14"; ctx.seed = 0; ctx.tier = "replay"
    ks = asmkern.load(ctx.build)
    hs = [h for h in asmkern.dir_harnesses(ctx.build, ks, [m.group(1)]) if h.round == int(m.group(2))]
    if not hs or hs[0].error: print("cannot build the directory harness: %s" % (hs[0].error if hs else "no such directory")); sys.exit(2)
    n, bad = run_dir(ctx, hs[0], lines)
    for kk, ln, x, y, note in bad:
        print("DISAGREE kernel %s: %s\n  kernel: %s\n  model : %s" % (", ".join(k.path for k in kk), ln[:300], x[:300], y[:300]))
    if bad: print("VIOLATION property=C14 replay=%s" % a.replay); sys.exit(1)
    print("replay agrees on %d ops (kernels %s)" % (n, ", ".join(paths))); sys.exit(0)

if __name__ == "__main__":
    main()
