"""C19 — main module (parts: c19_*.py are merged automatically)."""
LEVEL = "proof"
LEAN_MODULES = []
THEOREMS = []
TRUSTED = []
ASSUMPTIONS = []
LEVEL_TEXT = 'Lean theorems: range of urandomb/urandomm for every generator output, shapes, call-pattern independence of bit extraction, only high-half LC bits delivered, copies equivalent. Bit-exact differential run of MT19937/LC models against the C generators.'
LEVEL_NOTE = 'Statistical uniformity is a frequency test (exploration).'
PLACEHOLDER = True
