"""C13 part — the accepted input language of mpf_set_str as a grammar (mpf/set_str.c:207-304, 352-376; doc/mpir.texi "mpf_set_str").

Model/MpfParse.lean describes the language left to right (space* '-'? mant (marker expo junk)?) independently of the scanner
model MpfStr.parse (which mirrors the C: marker searched from the right, mantissa walked afterwards).  Props/C13_parse.lean proves
that the two are the same function (parse_iff, parse_value).  The ops run the real mpf_set_str and compare
  fp_accept  the return value with the GRAMMAR recogniser,
  fp_scan    the return value with the scanner model,
  fp_set     the stored value with the conversion of what the grammar's derivation denotes,
so that grammar, scanner model and C are tied pairwise.  Strings are derived from the grammar (valid by construction) and then
mutated: one byte inserted / deleted / replaced anywhere, doubled points, marker without digits, signs in odd places, digits >= base,
upper / lower case in bases above 36, white space in the middle, NUL in the middle, trailing junk with and without a marker."""
import os, sys
sys.path.insert(0, os.path.dirname(os.path.dirname(os.path.abspath(__file__))))
from genlib import *

LEAN_MODULES = ["MpirProofs.Props.C13_parse"]
THEOREMS = ["Mpir.MpfParse." + t for t in """
    parse_eq_recog parse_iff parse_value recog_iff_lang parse_iff_lang set_str_accepts_iff_lang
""".split()]
PINS = [("mpf/set_str.c", "mpf_set_str")]
TRUSTED = ["grammar Mpir.MpfParse.Lang (inductive: Lang / Body / Mant / First / Expo / NoMarker in lean/Mpir/Model/MpfParse.lean) and its executable "
           "recogniser Mpir.MpfParse.recog, proved sound and complete for it (recog_iff_lang) and equal to the scanner model MpfStr.parse for every "
           "byte string and every base (parse_eq_recog); the recogniser is tied to the C by correspondence (fp_accept, fp_set)"]
ASSUMPTIONS = ["C locale (decimal point '.', isspace = space \\t \\n \\v \\f \\r): the harness never calls setlocale",
               "where the C and the manual disagree the grammar follows the C: (1) after the exponent digits anything that contains no further "
               "marker is ignored ('1e5xyz', '1e5 ', '1@2+3' return 0; '1e5xe' returns -1) although the manual says 0 only 'if the entire string is a "
               "valid number'; (2) with a zero mantissa the exponent is not examined at all ('0@', '0e+', '0.0@zz' return 0); (3) white space is "
               "accepted before the sign and between mantissa characters, not after the sign, not between an initial point and its digit, not in "
               "the exponent (the manual's bracketed note says so); (4) '+' is not accepted before the mantissa but is before the exponent; "
               "(5) base 0 means 10 (documented)"]
RULE = ("bases 2,3,8,9,10,11,16,35,36,37,61,62, their negatives, 0 and random; derivations: leading white space (each of the six bytes), sign, "
        "integer / fraction parts of length 0..6 incl. '1.', '.1', zero mantissas ('0', '0.0', '.0', '000'), interior white space, all three "
        "markers, exponent sign, 1..4 exponent digits in the exponent base, trailing junk; each derived string also with one byte inserted, "
        "deleted or replaced at every position (quick: sampled) from the alphabet . + - space tab @ e E 0 1 9 a A z Z g G NUL 0x80 / : [ ` {, "
        "largest digit and smallest non-digit of the base in both cases; hand-made list of odd strings; out-of-range bases; distinct = distinct op lines")

WS = [0x20, 0x09, 0x0a, 0x0b, 0x0c, 0x0d]
BASES = [2, 3, 8, 9, 10, 11, 16, 35, 36, 37, 61, 62]
ALPHA36 = b"0123456789abcdefghijklmnopqrstuvwxyz"
ALPHA62 = b"0123456789ABCDEFGHIJKLMNOPQRSTUVWXYZabcdefghijklmnopqrstuvwxyz"

def digit_char(rng, d, b):
    if b > 36: return ALPHA62[d]
    c = ALPHA36[d]
    return c - 32 if (c >= 97 and rng.random() < 0.5) else c

def digits(rng, n, b, zero=False):
    return bytes(digit_char(rng, 0 if zero else rng.randrange(b), b) for _ in range(n))

def sprinkle(rng, s, p):
    out = bytearray()
    for c in s:
        out.append(c)
        if rng.random() < p: out.append(rng.choice(WS))
    return bytes(out)

def derive(rng, base):
    """a string of the grammar for `base` (may contain junk after the exponent)"""
    b = 10 if base == 0 else abs(base)
    eb = 10 if base <= 0 else b
    zero = rng.random() < 0.15
    ni, nf = rng.choice([(1, 0), (0, 1), (1, 1), (3, 2), (2, 0), (0, 3), (6, 6), (1, None), (4, None)])
    ip = digits(rng, ni, b, zero)
    if nf is None: m = ip
    else: m = ip + b"." + digits(rng, nf, b, zero)
    # interior white space, never right after an initial point
    if rng.random() < 0.3:
        head = m[:2] if m[:1] == b"." else m[:1]
        m = head + sprinkle(rng, m[len(head):], 0.4)
        if rng.random() < 0.3: m = head + bytes([rng.choice(WS)]) + m[len(head):]
    s = bytes(rng.choice(WS) for _ in range(rng.choice([0, 0, 1, 2]))) + (b"-" if rng.random() < 0.4 else b"") + m
    k = rng.random()
    if k < 0.3: return s
    marks = b"@eE" if b <= 10 else b"@"
    s += bytes([rng.choice(marks)])
    if zero and rng.random() < 0.5:
        return s + bytes(rng.choice(b"+-zZ .9!") for _ in range(rng.randrange(0, 4)))
    s += rng.choice([b"", b"", b"+", b"-"])
    s += bytes(digit_char(rng, rng.randrange(eb), b if base > 0 else 10) for _ in range(rng.choice([1, 1, 2, 3, 4])))
    if rng.random() < 0.25:
        junk = b" +-.:!~xyzXYZ\t" if b <= 10 else b" +-.:!~\t"
        j = bytes(rng.choice(junk) for _ in range(rng.randrange(1, 4)))
        # the junk must not start with an exponent digit, or the exponent grows (still in the language; keep it small)
        s += j
    return s

def mut_alpha(b):
    a = [46, 43, 45, 32, 9, 64, 101, 69, 48, 49, 57, 97, 65, 122, 90, 103, 71, 0, 0x80, 0x2f, 0x3a, 0x5b, 0x60, 0x7b]
    table = ALPHA62 if b > 36 else ALPHA36
    if 2 <= b <= 62:
        a.append(table[b - 1])
        if b < len(table): a.append(table[b])
        if b <= 36 and b > 10: a += [table[b - 1] - 32] + ([table[b] - 32] if b < 36 else [])
    return a

def mutations(rng, s, b, frac):
    al = mut_alpha(b)
    for i in range(len(s) + 1):
        for c in al:
            if rng.random() < frac: yield s[:i] + bytes([c]) + s[i:]                    # insert
            if i < len(s) and rng.random() < frac: yield s[:i] + bytes([c]) + s[i + 1:]  # replace
        if i < len(s): yield s[:i] + s[i + 1:]                                          # delete
        if i < len(s) and rng.random() < 4 * frac: yield s[:i] + s[i:i + 1] + s[i:]    # double

ODD = [b"", b" ", b"-", b"--1", b"+1", b"-+1", b".", b"..", b"-.", b".5", b"-.5", b" .5", b". 5", b"- 5", b"-\t.5", b"5.", b"5 .", b"5 . 5", b"5..",
       b"5.5.", b"1.2.3", b".5.", b"e5", b"@5", b"1e", b"1@", b"1e+", b"1e-", b"1e+-1", b"1e++1", b"1e 5", b"1 e5", b"1 e 5", b"1e5 ", b"1e5x",
       b"1e5xyz", b"1e5xe", b"1e5e", b"1e5e3", b"1e5@3", b"1@5e3", b"1@@5", b"1@2+3", b"1e5.5", b"1e.5", b"1.e5", b".e5", b".1e5", b"0@", b"0e", b"0e+",
       b"0.0@zz", b"0@@", b"0@5@", b"00e", b".0e", b"0.e-", b"0 e", b" 0 . 0 e q", b"0x10", b"0b1", b"1_000", b"1,5", b"1\x005", b"\x001", b"1e\x005",
       b"1e5\x00e", b"e", b"E", b"@", b"1E5", b"1E+05", b"1e0005", b"1e-0", b"-0", b"-0e-0", b"z", b"Z", b"zZ", b"Zz.z@z", b"a", b"A", b"fF", b"1e1e",
       b"9", b"8", b"7", b"2", b"1", b"10", b"\x0b1", b"\x0c-1", b"1\x0b", b"1\x80", b"\xa01", b"\xff", b"1.\xa0", b"1\xc2\xa02", b"- .5", b"-. 5", b".-5"]

def acc(base, s): return "fp_accept %s %s" % (hx(base), sbytes(s))
def scn(base, s): return "fp_scan %s %s" % (hx(base), sbytes(s))
def stv(rng, base, s): return "fp_set %x %s %s" % (rng.choice([2, 3, 4]), hx(base), sbytes(s))

def emit(rng, base, s, pset=0.3):
    yield acc(base, s)
    yield scn(base, s)
    if rng.random() < pset: yield stv(rng, base, s)

def gen_ops(rng, tier, ctx=None):
    quick = tier == "quick"
    allb = BASES + [-x for x in BASES] + [0]
    # hand-made odd strings, every one in a handful of bases
    for s in ODD:
        for base in [10, 16, -16, 62, 0] + [rng.choice(allb) for _ in range(2)]:
            yield from emit(rng, base, s, 1.0)
    # every base value near the legal range
    for base in list(range(-65, 66)) + [1000, -1000]:
        yield from emit(rng, base, rng.choice([b"1", b"10.1@1", b"1e1", b"z", b"Z", b"1@z", b"1@Z"]), 0.5)
    # derivations and their one-byte mutations
    nder = 120 if quick else 3000
    frac = 0.04 if quick else 0.5
    for k in range(nder):
        base = allb[k % len(allb)] if k < 3 * len(allb) else rng.choice(allb + [rng.randrange(2, 63), -rng.randrange(2, 63)])
        b = 10 if base == 0 else abs(base)
        s = derive(rng, base)
        yield from emit(rng, base, s, 1.0)
        for t in mutations(rng, s, b, frac):
            yield from emit(rng, base, t, 0.15)
    # random short strings over the interesting alphabet
    alpha = b"0123456789abcdefzAFZ..@@eE+-- \t"
    for _ in range(400 if quick else 8000):
        t = bytes(rng.choice(alpha) for _ in range(rng.randrange(0, 9)))
        yield from emit(rng, rng.choice(allb), t, 0.2)

def nontrivial(line):
    return line if line.startswith(("fp_accept", "fp_set", "fp_scan")) else None
