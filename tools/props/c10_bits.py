"""C10 part `bits` — mpn logic kernels, popcount/hamdist/scan, and the mpz two's-complement layer
(and/ior/xor/com/setbit/clrbit/combit/tstbit/scan0/scan1/popcount/hamdist).  Merged into c10.py automatically."""
from genlib import *

LEAN_MODULES = ["MpirProofs.Props.C10"]
THEOREMS = ["Mpir.Bits." + t for t in [
    "and_n_spec", "ior_n_spec", "xor_n_spec", "andn_n_spec", "com_n_spec", "nand_n_spec", "nior_n_spec", "xnor_n_spec", "iorn_n_spec",
    "mpz_and_spec", "mpz_ior_spec", "mpz_xor_spec", "mpz_com_spec", "tstbit_spec", "setbit_spec", "clrbit_spec", "combit_spec", "mpn_popcount_spec", "mpn_hamdist_spec", "popcount_spec", "scan1_spec", "scan0_spec", "mpn_scan1_spec", "mpn_scan0_spec", "hamdist_spec", "bitops_on_all_integers",
]]
TRUSTED = ["hand-written models lean/Mpir/Model/Bits.lean (tied to mpz/{and,ior,xor,com,setbit,clrbit,combit,tstbit,scan0,scan1,hamdist}.c, "
           "mpn/generic/{*_n,com_n,popcount,hamdist,scan0,scan1}.c by differential execution on every run)",
           "popc_limb / count_trailing_zeros / the SWAR loop of mpn/generic/popcount.c are modelled by their meaning (bit count, lowest set bit), not step by step"]
ASSUMPTIONS = ["the mpz models follow the C control flow per sign case on sign+magnitude operands; allocation and aliasing are exercised by the harness (alias modes 0-4, pre-shrunk destinations) but not represented in the model",
               "mpn_scan0/mpn_scan1 are only called inside their documented precondition (a matching bit exists at or after the start)"]
RULE = ("C10 bits: operand pairs of all lengths 0..12 x 0..12 limbs x four sign combinations for and/ior/xor with alias modes 0-4; data classes uniform/runs/ones/sparse, "
        "negatives with 0..8 low zero limbs, -1, -2^k, -(B^k), -(B^k-1), +-(B^k+-1); operands built backwards so the result grows a limb "
        "(and of negatives with (|a|-1)|(|b|-1) all ones, xor/ior/com/clrbit/combit carries); bit indices 0,63,64,64k-1,64k,64k+1 for every k up to length+2, "
        "far above the length and ULONG_MAX-adjacent where the C does not have to allocate; mpn kernels on sizes 1..40 incl. permitted overlaps; "
        "mpn_scan only inside its precondition; distinct = distinct op lines")

ULMAX = (1 << 64) - 1

def mag_from(limbs):
    v = 0
    for i, x in enumerate(limbs): v |= x << (64 * i)
    return v

def rand_mag(rng, n, cls=None):
    """an n-limb magnitude with a non-zero high limb (0 for n == 0)"""
    if n == 0: return 0
    l = rand_limbs(rng, n, cls or rng.choice(["uniform", "runs", "ones", "sparse", "uniform", "top", "onebit"]))
    if l[-1] == 0: l[-1] = rng.choice([1, M, 1 << 63, rng.getrandbits(64) | 1])
    return mag_from(l)

def lowzero_mag(rng, n, k):
    """n limbs, the k low ones zero (k < n)"""
    k = min(k, n - 1)
    l = [0] * k + rand_limbs(rng, n - k, rng.choice(["uniform", "runs", "sparse", "ones", "lowbit"]))
    if l[k] == 0: l[k] = rng.choice([1, 1 << 63, M, rng.getrandbits(64) | 1])
    if l[-1] == 0: l[-1] = rng.choice([1, M, 1 << 63])
    return mag_from(l)

def specials(rng, maxk=12):
    """values around powers of two and of the limb base, both signs"""
    out = [0, 1, -1, 2, -2, M, -M, B, -B, B - 1, B + 1, -(B + 1)]
    for k in range(1, maxk + 1):
        bk = 1 << (64 * k)
        out += [bk, -bk, bk - 1, -(bk - 1), bk + 1, -(bk + 1), -(bk - 2), -(bk >> 1), bk >> 1]
    for _ in range(12):
        e = rng.randrange(1, 64 * maxk)
        out += [-(1 << e), (1 << e), -(1 << e) + 1, -(1 << e) - 1, (1 << e) - 1]
    return out

def indices_for(rng, v, far=True):
    """bit indices below, at and above the length of v"""
    n = (abs(v).bit_length() + 63) // 64
    s = {0, 1, 63, 64, 65, 127, 128}
    for k in range(0, n + 3):
        for d in (-1, 0, 1):
            if 64 * k + d >= 0: s.add(64 * k + d)
    if v:
        bl = abs(v).bit_length(); s |= {bl - 1, bl, bl + 1}
        tz = (abs(v) & -abs(v)).bit_length() - 1; s |= {tz, tz + 1, max(tz - 1, 0)}
    for _ in range(3): s.add(rng.randrange(0, 64 * (n + 2)))
    if far: s |= {64 * (n + 7) + rng.randrange(64), 64 * 40 - 1, 64 * 40, 64 * 40 + 1}
    return sorted(s)

HUGE = [ULMAX, ULMAX - 1, ULMAX - 63, ULMAX - 64, ULMAX - 65, 1 << 63, (1 << 63) - 1, 1 << 32, (1 << 32) - 1, 1 << 58, (1 << 58) + 7]

def gen_mpn(rng, tier):
    reps = 2 if tier == "quick" else 8
    logic = ["and_n", "andn_n", "nand_n", "ior_n", "iorn_n", "nior_n", "xor_n", "xnor_n"]
    for n in list(range(1, 41)) + ([100, 257] if tier == "thorough" else [67]):
        for _ in range(reps):
            u, v = rand_limbs(rng, n), rand_limbs(rng, n)
            for op in logic:
                yield "mpn_%s %s %s" % (op, vec(u), vec(v))
                if rng.random() < 0.5: yield "mpn_%s %s %s %x" % (op, vec(u), vec(v), rng.choice([1, 2, 3]))
            yield "mpn_com_n %s" % vec(u)
            yield "mpn_com_n %s 1" % vec(v)
            yield "mpn_popcount %s" % vec(u)
            yield "mpn_popcount %s" % vec(rand_limbs(rng, n, rng.choice(["ones", "onebit", "zero", "runs"])))
            yield "mpn_hamdist %s %s" % (vec(u), vec(v))
            yield "mpn_hamdist %s %s" % (vec(u), vec([x ^ M for x in u]))
            w = list(u); w[rng.randrange(n)] ^= 1 << rng.randrange(64)
            yield "mpn_hamdist %s %s" % (vec(u), vec(w))
            # scans: place the answer, clear (scan1) / fill (scan0) everything between start and it
            tgt = rng.randrange(64 * n); st = rng.randrange(tgt + 1)
            if rng.random() < 0.3: st = tgt
            if rng.random() < 0.3: st = (tgt // 64) * 64
            x = mag_from(u); mask = ((1 << tgt) - 1) ^ ((1 << st) - 1)
            yield "mpn_scan1 %s %x" % (vec(limbs_of((x & ~mask) | (1 << tgt), n)), st)
            yield "mpn_scan0 %s %x" % (vec(limbs_of((x | mask) & ~(1 << tgt), n)), st)
            yield "mpn_scan1 %s %x" % (vec(limbs_of(1 << tgt, n)), rng.choice([0, st]))
            yield "mpn_scan0 %s %x" % (vec(limbs_of(((1 << (64 * n)) - 1) ^ (1 << tgt), n)), rng.choice([0, st]))

def grow_pairs(rng, k):
    """operand pairs whose result needs k+1 limbs (or sits exactly on the carry boundary)"""
    ones = (1 << (64 * k)) - 1
    m = rng.getrandbits(64 * k); n_ = ones ^ m | rng.getrandbits(64 * k)      # m | n_ == ones
    yield "mpz_and", -(m + 1), -(n_ + 1)
    yield "mpz_and", -(ones + 1), -(rng.getrandbits(64 * k) + 1)
    yield "mpz_and", -(m + 1), -(((ones ^ m) & ~1) + 1)                        # one bit short of all ones
    a = rng.getrandbits(64 * k)
    yield "mpz_xor", a, -((a ^ ones) + 1)                                       # a ^ (|b|-1) == ones -> carry out
    yield "mpz_xor", -((a ^ ones) + 1), a
    yield "mpz_xor", a, -((a ^ ones ^ 1) + 1)
    yield "mpz_ior", a & ~ones, -(ones + 1)                                     # (~a & (|b|-1)) + 1 == B^k
    yield "mpz_ior", 0, -(ones + 1)
    yield "mpz_ior", a, -(ones + 1)
    yield "mpz_ior", -(ones + 1), -(ones + 1 + (rng.getrandbits(64) << (64 * k)))
    yield "mpz_and", ones, -(ones + 1)                                          # result 0
    yield "mpz_and", a, -(a + 1)                                                # x & ~x = 0 ... via -(a+1) = ~a
    yield "mpz_ior", a, -(a + 1)                                                # = -1
    yield "mpz_xor", a, -(a + 1)                                                # = -1
    yield "mpz_xor", -(a + 1), -(a + 1)                                         # = 0

def gen_pairs(rng, tier):
    maxn = 12 if tier == "quick" else 16
    reps = 1 if tier == "quick" else 3
    ops3 = ["mpz_and", "mpz_ior", "mpz_xor"]
    def emit(op, a, b, mode=None):
        if mode is None: mode = rng.choice([0, 0, 1, 2])
        return "%s %x %s %s" % (op, mode, hx(a), hx(b))
    # every length pair x every sign combination
    for n1 in range(0, maxn + 1):
        for n2 in range(0, maxn + 1):
            for s1 in (1, -1):
                for s2 in (1, -1):
                    for _ in range(reps):
                        a = s1 * rand_mag(rng, n1); b = s2 * rand_mag(rng, n2)
                        for op in ops3: yield emit(op, a, b)
                    # negatives with low zero limbs (borrow through the two's-complement conversion)
                    k1 = rng.randrange(0, 9); k2 = rng.randrange(0, 9)
                    a = s1 * (lowzero_mag(rng, n1, k1) if n1 else 0)
                    b = s2 * (lowzero_mag(rng, n2, k2) if n2 else 0)
                    for op in ops3: yield emit(op, a, b)
                    yield "mpz_hamdist %s %s" % (hx(a), hx(b))
                    a2 = s1 * rand_mag(rng, n1); b2 = s2 * rand_mag(rng, n2)
                    yield "mpz_hamdist %s %s" % (hx(a2), hx(b2))
    # same low-zero count on both sides, 0..8, and every (k1,k2) pair for the negative/negative paths
    for k1 in range(0, 9):
        for k2 in range(0, 9):
            for _ in range(reps):
                n1 = k1 + rng.randrange(1, 5); n2 = k2 + rng.randrange(1, 5)
                a = -lowzero_mag(rng, n1, k1); b = -lowzero_mag(rng, n2, k2)
                for op in ops3: yield emit(op, a, b)
                yield emit(rng.choice(ops3), -a, b); yield emit(rng.choice(ops3), a, -b)
                yield "mpz_hamdist %s %s" % (hx(a), hx(b))
                # u shorter than v's zero run (hamdist.c: step = MIN (step, usize))
                yield "mpz_hamdist %s %s" % (hx(-lowzero_mag(rng, min(n1, k2) or 1, min(k1, max(min(n1, k2) - 1, 0)))), hx(b))
    # special values against each other and against random operands
    sp = specials(rng, maxn)
    for a in sp:
        for b in rng.sample(sp, 10 if tier == "quick" else 30):
            op = rng.choice(ops3)
            yield emit(op, a, b)
        yield emit(rng.choice(ops3), a, rng.choice([1, -1]) * rand_mag(rng, rng.randrange(0, maxn + 1)))
        yield emit(rng.choice(ops3), rng.choice([1, -1]) * rand_mag(rng, rng.randrange(0, maxn + 1)), a)
        for op in ops3:
            yield emit(op, a, a, 3); yield emit(op, a, a, 4)
        yield "mpz_hamdist %s %s" % (hx(a), hx(rng.choice(sp)))
        yield "mpz_hamdist %s %s" % (hx(a), hx(a))
    # results that grow a limb
    for k in range(1, maxn + 1):
        for _ in range(2 * reps):
            for op, a, b in grow_pairs(rng, k):
                yield emit(op, a, b); yield emit(op, b, a, rng.choice([0, 1, 2]))
    # aliasing modes 3/4 on random operands
    for _ in range(60 * reps):
        a = rand_int(rng, maxn)
        for op in ops3:
            yield emit(op, a, a, 3); yield emit(op, a, a, 4)
            yield emit(op, a, rand_int(rng, maxn), rng.choice([1, 2]))

def unary_values(rng, tier):
    maxn = 12 if tier == "quick" else 16
    vals = list(specials(rng, maxn))
    for n in range(0, maxn + 1):
        for s in (1, -1):
            vals.append(s * rand_mag(rng, n))
            vals.append(s * rand_mag(rng, n, "ones"))
            if n:
                for k in sorted(set([0, 1, n - 1, rng.randrange(0, 9), rng.randrange(0, 9)])):
                    vals.append(s * lowzero_mag(rng, n, k))
    return vals

def gen_unary(rng, tier):
    for v in unary_values(rng, tier):
        yield "mpz_com %x %s" % (rng.choice([0, 1]), hx(v))
        yield "mpz_popcount %s" % hx(v)
        n = (abs(v).bit_length() + 63) // 64
        idx = indices_for(rng, v)
        sub = idx if len(idx) <= 14 else sorted(rng.sample(idx, 14))
        for i in idx:
            yield "mpz_tstbit %s %x" % (hx(v), i)
        for i in sub:
            yield "mpz_setbit %s %x" % (hx(v), i)
            yield "mpz_clrbit %s %x" % (hx(v), i)
            yield "mpz_combit %s %x" % (hx(v), i)
            yield "mpz_scan0 %s %x" % (hx(v), i)
            yield "mpz_scan1 %s %x" % (hx(v), i)
        for i in rng.sample(HUGE, 3):
            yield "mpz_tstbit %s %x" % (hx(v), i)
            yield "mpz_scan0 %s %x" % (hx(v), i)
            yield "mpz_scan1 %s %x" % (hx(v), i)
            # no allocation on these paths: setting a bit of the sign extension of a negative, clearing one of a non-negative
            if v < 0: yield "mpz_setbit %s %x" % (hx(v), i)
            else: yield "mpz_clrbit %s %x" % (hx(v), i)

def gen_bit_carries(rng, tier):
    """single-bit updates built backwards from a carry/borrow that runs to a chosen limb or off the end"""
    maxn = 10 if tier == "quick" else 16
    for n in range(1, maxn + 1):
        bn = 1 << (64 * n)
        for i in sorted(set([0, 1, 63, 64, 64 * n - 1, 64 * (n - 1), rng.randrange(64 * n), rng.randrange(64 * n)])):
            yield "mpz_clrbit %s %x" % (hx(-(bn - (1 << i))), i)          # -> -(B^n): grows a limb
            yield "mpz_combit %s %x" % (hx(-(bn - (1 << i))), i)
            yield "mpz_setbit %s %x" % (hx(-bn), i)                        # -> -(B^n - 2^i): borrow from the top limb
            yield "mpz_combit %s %x" % (hx(-bn), i)
            yield "mpz_setbit %s %x" % (hx(bn - 1 - (1 << i)), i)          # -> B^n - 1
            yield "mpz_combit %s %x" % (hx(bn - 1), i)
            yield "mpz_clrbit %s %x" % (hx(1 << i), i)                     # -> 0
            yield "mpz_combit %s %x" % (hx(1 << i), i)
            yield "mpz_setbit %s %x" % (hx(-(1 << i)), i)                  # unchanged (bit is set)
            yield "mpz_clrbit %s %x" % (hx(-(1 << i)), i)                  # -> -(2^(i+1))
            yield "mpz_combit %s %x" % (hx(-(1 << i)), i)
            yield "mpz_combit %s %x" % (hx(-(1 << (i + 1))), i)            # -> -(2^i)
            # carry stopping at limb `st`
            for st in range(i // 64 + 1, n + 1):
                mag = ((1 << (64 * st)) - (1 << i)) | (rng.getrandbits(64 * (n - st) + 1) << (64 * st + 1) if st < n else 0)
                if mag == 0: continue
                yield "mpz_clrbit %s %x" % (hx(-mag), i)
                yield "mpz_combit %s %x" % (hx(-mag), i)
                res = -mag & ~(1 << i)                                      # and back
                yield "mpz_setbit %s %x" % (hx(res), i)
                yield "mpz_combit %s %x" % (hx(res), i)
        # high limb becomes zero, normalisation runs over several zero limbs
        for z in range(0, n):
            v = (1 << (64 * n - 1 - rng.randrange(64))) | rng.getrandbits(64 * (n - 1 - z) if n - 1 - z > 0 else 1)
            top = v.bit_length() - 1
            yield "mpz_clrbit %s %x" % (hx(v), top)
            yield "mpz_combit %s %x" % (hx(v), top)
            if v & (v - 1):       # negative with a lower non-zero limb: setbit clears a magnitude bit
                yield "mpz_setbit %s %x" % (hx(-v), top)
                yield "mpz_combit %s %x" % (hx(-v), top)

def gen_ops(rng, tier, ctx=None):
    yield from gen_mpn(rng, tier)
    yield from gen_pairs(rng, tier)
    yield from gen_unary(rng, tier)
    yield from gen_bit_carries(rng, tier)

# source pins: the C the Lean model mirrors (see tools/pins.py)
PINS = [('mpz/and.c', None), ('mpz/ior.c', None), ('mpz/xor.c', None), ('mpz/com.c', None), ('mpz/setbit.c', None), ('mpz/clrbit.c', None), ('mpz/combit.c', None), ('mpz/tstbit.c', None), ('mpz/scan0.c', None), ('mpz/scan1.c', None), ('mpz/popcount.c', None), ('mpz/hamdist.c', None), ('mpn/generic/popcount.c', None), ('mpn/generic/hamdist.c', None), ('mpn/generic/scan0.c', None), ('mpn/generic/scan1.c', None), ('gmp-impl.h', 'mpn_and_n'), ('gmp-impl.h', 'mpn_andn_n'), ('gmp-impl.h', 'mpn_nand_n'), ('gmp-impl.h', 'mpn_ior_n'), ('gmp-impl.h', 'mpn_iorn_n'), ('gmp-impl.h', 'mpn_nior_n'), ('gmp-impl.h', 'mpn_xor_n'), ('gmp-impl.h', 'mpn_xnor_n'), ('gmp-impl.h', 'MPN_LOGOPS_N_INLINE')]
