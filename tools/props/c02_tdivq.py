"""C02 part: the glue of mpn_tdiv_q (mpn/generic/tdiv_q.c) — theorems about the statement-by-statement model
lean/Mpir/Model/TdivQ.lean (MpirProofs/Props/C02_tdivq.lean): GIVEN the contracts of the callees, mpn_tdiv_q writes the
nn-dn+1 limbs of floor(N/D) for all sizes, limb contents, thresholds and every admissible behaviour of the approximate
callees; plus directed inputs for every branch of the file.

Ops (harness/ops_tdivq.c, lean/Mpir/Ops/TdivQ.lean):
  tdiv_q_model [n] [d] DC_DIV_Q INV_DIV_Q DC_DIVAPPR_Q INV_DIVAPPR_Q   real mpn_tdiv_q vs the model (q, branch, callee)
  tdiv_q_guard [n] [d]      second-branch code with the real divappr functions; predicate on tp[], flags, qp

Directed recipes (from the case analysis of the proofs, MpirProofs/Lemmas/TdivQCore.lean):
 * second branch, N = Q*D + R: the truncated estimate is B*Q + floor(B*R/D) + t, 0 <= t <= 1 (+ callee error 0/1), so
   R = ceil(g*D/B) gives guard limb g (+t+e); R < D/B * 4 fires the multiply-back without decrement.
 * the estimate is one too large (decrement) when N = (Q+1)*D - 1 - small and the ignored low divisor limbs are non-zero
   (truncation) — with guard limb 1 only for dh = 1 (cnt = 63), low limbs all ones and Q+1 near B^qn (the tight case of
   guard_constant_tight) — or when the callee overshoots on N = (Q+1)*D - 1 with zero low limbs.
 * cy != 0 && qh != 0 (all-ones saturation): N = B^nn - 1, D = B^(dn-1) (+ small).
 * R = 0 makes np == rp in the multiply-back compare (the `< 0` of tdiv_q.c:289).
The python mirror of the model below is run on every generated input with callee error 0 and 1 to COUNT branches
(`python3 tools/props/c02_tdivq.py [quick|thorough]`; stored in the evidence as coverage.c02_tdivq_model_branches).
Quick tier, seed 1, standalone: 14171 ops (4.2 MB, 1 s to generate, 0.1 s harness, 1.2 s driver): dn = 1 149; first branch 5053 (unnormalised
cy = 0 / != 0 1445 / 2071, normalised qh = 0 / 1 1046 / 491; divrem_2 450, sb_div_q 4534, dc_div_q 69); second branch 3556 (normalised 853,
cy = 0 / != 0 746 / 1957; divrem_2 845, sb_divappr_q 2651, dc_divappr_q 60); with an exact callee guard limb 0/1/2/3/4/5/B-1: 1369/514/130/200/
283/283/222, multiply-back without decrement 1289, decrement 1207 (288 of them with guard limb 1), np == rp in the compare 238, saturation
(callee error 1) 28.  On the real library the tdiv_q_guard lines gave: no multiply-back 1673, multiply-back only 2071, decrement 1669 (guard
limb 0/1/2: 1261/336/72).  Mutants of tdiv_q.c caught by the tdiv_q_model lines alone (seed 1): `tp[0] <= 0` 384 lines, `tp[0] <= 1` 72,
dropped `new_dp[0] |= ...` 785, `mpn_cmp (...) <= 0` 238.  `tp[0] <= 2` and `<= 3` are equivalent to `<= 4` for callees that keep their
contract (truncated_quotient_budget with E = 1: a wrong high part has guard limb <= 2).
"""
import collections, os, random, re, sys
sys.path.insert(0, os.path.dirname(os.path.dirname(os.path.abspath(__file__))))
from genlib import *

LEAN_MODULES = ["MpirProofs.Props.C02_tdivq"]
THEOREMS = ["Mpir.TdivQ." + t for t in """
truncated_quotient_budget guard_constant_sound guard_constant_tight callee_oracle_complete tdivQF_spec tdiv_q_val
tdiv_q_contract tdiv_q_error_irrelevant first_branch_fill_unreachable saturation_within_budget second_branch_indices
dispatch_div_q_domain dispatch_divappr_q_domain second_branch_operands
""".split()]
PINS = [("mpn/generic/tdiv_q.c", None)]
TRUSTED = ["hand-written statement-by-statement model of mpn_tdiv_q in lean/Mpir/Model/TdivQ.lean (tied by correspondence on every run: "
           "ops tdiv_q_model, tdiv_q_guard)",
           "callee contracts used as parameters of that model: mpn_divrem_2, mpn_sb_div_q, mpn_dc_div_q, mpn_inv_div_q return qh and nn-dn limbs "
           "with qh*B^(nn-dn)+q = floor(N/D) exactly; mpn_sb_divappr_q, mpn_dc_divappr_q, mpn_inv_divappr_q return floor(N/D) or floor(N/D)+1 "
           "(the theorems hold for errors up to 3); mpn_mul = the product.  Proved elsewhere: mpn_divrem_1 (C02_word, limb level, used as is), "
           "mpn_sb_div_qr (C02_sb).  Assumed / differential only: mpn_divrem_2 (assembly), the sb/dc div_q and divappr_q functions (other C02 "
           "parts), all inv_* functions, mpn_mul (C01)"]
ASSUMPTIONS = ["64-bit limbs, no nails; FUDGE = 5 as in tdiv_q.c:79 (the theorems hold for every FUDGE >= 1)",
               "the thresholds DC_DIV_Q / INV_DIV_Q / DC_DIVAPPR_Q / INV_DIVAPPR_Q are plain numbers in gmp-mparam.h (read by the generator, "
               "checked by the harness against its compiled-in values); they only select the callee, no quotient depends on them"]
RULE = ("mpn_tdiv_q glue: qn+5 in {dn-2..dn+1} (both sides of the FUDGE split), dn = 1, 2, 3, qn+1 = 2; top divisor limb 2^63|r, 2^62|r, 1, "
        "random (cnt = 0, 1, 63, any) with dividend top limb small / large (cy = 0 / != 0); sizes +-2 of DC_DIV_Q_THRESHOLD and "
        "DC_DIVAPPR_Q_THRESHOLD read from the tree; dividends Q*D+R with R = ceil(g*D/B) (guard limb g in 0..5, B-1), R = 0, D-1, "
        "(Q+1)*D-1-small with ignored divisor limbs all ones / zero (decrement fires / does not), B^nn-1 over B^(dn-1) (saturation)")

FUDGE = 5
BR = collections.Counter()
SHIPPED = {"DC_DIV_Q_THRESHOLD": 65, "INV_DIV_Q_THRESHOLD": 998, "DC_DIVAPPR_Q_THRESHOLD": 21, "INV_DIVAPPR_Q_THRESHOLD": 14326}
TNAMES = ["DC_DIV_Q_THRESHOLD", "INV_DIV_Q_THRESHOLD", "DC_DIVAPPR_Q_THRESHOLD", "INV_DIVAPPR_Q_THRESHOLD"]
MAXT = (1 << 63) - 1

def thresholds(ctx):
    base = getattr(ctx, "build", None) or os.environ.get("VERIF_REPO", "/repo")
    t = dict(SHIPPED)
    try:
        for m in re.finditer(r"#define\s+(\w+_THRESHOLD)\s+(\d+|MP_SIZE_T_MAX)\b", open(os.path.join(base, "gmp-mparam.h")).read()):
            if m.group(1) in t: t[m.group(1)] = MAXT if m.group(2) == "MP_SIZE_T_MAX" else int(m.group(2))
    except OSError:
        pass
    return [t[k] for k in TNAMES]

# ---------------------------------------------------------------- python mirror of Mpir.TdivQ (values only)
def _val(l): return sum(x << (64 * i) for i, x in enumerate(l))
def clz(x): return 64 - x.bit_length()
def above(size, t): return t == 0 or (t != MAXT and size >= t)
def below(size, t): return not above(size, t)

def m_dispatch_div_q(T, dn, new_nn, nn):
    if dn == 2: return 1
    if below(dn, T[0]) or below(new_nn - dn, T[0]): return 2
    if below(dn, T[1]) or below(nn, MAXT if T[1] == MAXT else 2 * T[1]): return 3
    return 4
def m_dispatch_divappr_q(T, qn):
    if qn + 1 == 2: return 1
    if below(qn - 1, T[2]): return 5
    if below(qn - 1, T[3]): return 6
    return 7

def m_prep2(n, d):
    """operands of the approximate division: (N', D', cy, cnt, number of quotient limbs the callee stores)"""
    nn, dn = len(n), len(d); qn = nn - dn + 1
    new_nn = 2 * qn + 1
    top = _val(n[nn - new_nn:]); dh = d[-1]
    if dh >> 63: return top, _val(d[dn - (qn + 1):]), 0, 0, qn
    cnt = clz(dh)
    sh = top << cnt
    cy = sh >> (64 * new_nn)
    D1 = (_val(d[dn - (qn + 1):]) << cnt) | (d[dn - (qn + 1) - 1] >> (64 - cnt))
    return sh, D1, cy, cnt, qn + (1 if cy else 0)

def m_branch2(n, d, e):
    """mirror of tpOf + finish2: (qp value, guard limb, multiply-back, decrement, saturated)"""
    nn, dn = len(n), len(d); qn = nn - dn + 1
    N1, D1, cy, cnt, m = m_prep2(n, d)
    Q2 = N1 // D1 + e
    sat = False
    if cy and (Q2 >> (64 * m)): Q2 = (1 << (64 * m)) - 1; sat = True
    guard, qh = Q2 & M, Q2 >> 64
    mb = dec = False
    if guard <= 4:
        mb = True
        if _val(d) * qh > _val(n): dec = True; qh -= 1
    return qh, guard, mb, dec, sat

def m_tdiv_q(T, n, d, count=True):
    """mirror of Mpir.TdivQ.tdivQF FUDGE T e n d for e = 0: (q value, branch tag, callee tag); counts branches for e = 0, 1"""
    nn, dn = len(n), len(d); qn = nn - dn + 1
    if dn == 1:
        if count: BR["dn1"] += 1
        return _val(n) // d[0], 0, 0
    norm = d[-1] >> 63
    if qn + FUDGE >= dn:
        new_nn = nn
        if not norm:
            cy = n[-1] >> (64 - clz(d[-1]))
            new_nn = nn + (1 if cy else 0)
            if count: BR["b1.unnorm.cy" if cy else "b1.unnorm.nocy"] += 1
        elif count: BR["b1.norm.qh1" if _val(n[nn - dn:]) >= _val(d) else "b1.norm.qh0"] += 1
        c = m_dispatch_div_q(T, dn, new_nn, nn)
        if count: BR["b1.callee%d" % c] += 1
        return _val(n) // _val(d), 1 + norm, c
    c = m_dispatch_divappr_q(T, qn)
    q0, g0, mb0, dec0, sat0 = m_branch2(n, d, 0)
    assert q0 == _val(n) // _val(d), ("mirror e=0", n, d)
    if count:
        BR["b2.norm" if norm else "b2.unnorm.cy" if m_prep2(n, d)[2] else "b2.unnorm.nocy"] += 1
        BR["b2.callee%d" % c] += 1
        for e in ((0,) if c == 1 else (0, 1)):
            q, g, mb, dec, sat = m_branch2(n, d, e)
            assert q == q0, ("mirror e=1", n, d)
            k = "b2.e%d." % e
            BR[k + ("guard=%s" % ("B-1" if g == M else g if g <= 5 else ">5"))] += 1
            BR[k + ("decr" if dec else "mulback_nodecr" if mb else "nomulback")] += 1
            if dec: BR[k + "decr.guard=%d" % g] += 1
            if sat: BR[k + "saturated"] += 1
            if mb and not dec and _val(d) * q == _val(n): BR[k + "cmp_equal"] += 1
    return q0, 3 + norm, c

# ---------------------------------------------------------------- generators
def _mag(rng, k, cls=None):
    return _val(rand_limbs(rng, k, cls or rng.choice(["uniform", "runs", "ones", "sparse", "zero"]))) if k > 0 else 0

def tops(rng):
    """top divisor limbs: cnt = 0, 0, 1, 63, 63-ish, any"""
    r = rng.getrandbits(62)
    return [(1 << 63) | r, M, (1 << 62) | r, 1, 2 | rng.getrandbits(1), rng.getrandbits(rng.randrange(1, 64)) | 1]

def divisor(rng, dn, dh, lowcls, nxt=None):
    """dn-limb divisor with top limb dh; low limbs of class lowcls; `nxt` = the limb below the top qn+1 ones if given as (pos, value)"""
    l = rand_limbs(rng, dn - 1, lowcls) + [dh]
    if nxt is not None and 0 <= nxt[0] < dn - 1: l[nxt[0]] = nxt[1]
    return l

def dividends(rng, d, qn):
    """values < B^nn (nn = dn+qn-1) for the divisor d, built backwards"""
    dn = len(d); nn = dn + qn - 1; D = _val(d); top = 1 << (64 * nn)
    qmax = (top - 1) // D                      # largest quotient an nn-limb dividend can have
    out = []
    qs = {qmax, max(qmax - 1, 0), qmax >> 1, min(qmax, (1 << (64 * qn)) - 1), min(qmax, 1 << (64 * (qn - 1))), rng.randrange(qmax + 1),
          min(qmax, _mag(rng, qn, "runs")), 0, 1}
    for Q in sorted(qs):
        rs = [0, 1, D - 1, rng.randrange(D)]
        for g in (1, 2, 3, 4, 5, 6):                      # guard limb g: R = ceil(g*D/B) (+-1)
            r = -((-g * D) >> 64)
            rs += [r, r - 1] if g in (1, 4, 5) else [r]
        rs += [D - 1 - rng.randrange(1, 4), D - 1 - ((D >> 64) or 1)]
        for R in rs:
            if 0 <= R < D:
                N = Q * D + R
                if N < top: out.append(N)
    out += [top - 1, rng.getrandbits(64 * nn), rng.getrandbits(64 * (nn - 1) + rng.randrange(0, 64)), D if D < top else 0, max(D - 1, 0) % top]
    return out

def gen_ops(rng, tier, ctx=None):
    quick = tier == "quick"
    T = thresholds(ctx)
    tstr = " ".join("%x" % t for t in T)
    seen = set()
    def emit(N, nn, d, guard_op=None):
        n = limbs_of(N, nn); dn = len(d); qn = nn - dn + 1
        key = (N, nn, tuple(d))
        if key in seen: return
        seen.add(key)
        m_tdiv_q(T, n, d)                                        # counts branches, self-checks the mirror
        yield "tdiv_q_model %s %s %s" % (vec(n), vec(d), tstr)
        if dn >= 2 and qn + 2 <= dn and (guard_op if guard_op is not None else qn + FUDGE < dn or rng.random() < 0.5):
            if qn + FUDGE >= dn: BR["guard_op.fudge_lt_5_shape"] += 1
            yield "tdiv_q_guard %s %s" % (vec(n), vec(d))
    # 1. small shapes on both sides of the FUDGE split, every shift class, cy = 0 and != 0
    shapes = [(1, q) for q in (1, 2, 3, 5)] + [(2, q) for q in (1, 2, 3, 4)] + [(3, q) for q in (1, 2, 3, 7)]
    shapes += [(dn, qn) for qn in (1, 2, 3, 4) for dn in (qn + 3, qn + 4, qn + 5, qn + 6, qn + 7, qn + 9)] + [(5, 1), (6, 1), (9, 9), (4, 12)]
    if not quick: shapes += [(dn, qn) for qn in (5, 6, 8, 11) for dn in (qn + 2, qn + 4, qn + 5, qn + 6, qn + 7, 2 * qn + 3)]
    for dn, qn in shapes:
        nn = dn + qn - 1
        for dh in tops(rng):
            for lowcls in (("ones", "zero", "uniform") if dn > 1 else ("uniform",)):
                s = dn - qn - 1                                  # limbs of d ignored by the second branch
                d = divisor(rng, dn, dh, lowcls, (s - 1, rng.choice([M, 0, rng.getrandbits(64)])) if s >= 1 and rng.random() < 0.6 else None)
                ns = dividends(rng, d, qn)
                if quick: ns = rng.sample(ns[:-5], min(len(ns) - 5, 9 if dn > 2 else 4)) + rng.sample(ns[-5:], 2)
                for N in ns:
                    yield from emit(N, nn, d)
    # 2. the tight case: dh = 1, ignored limbs all ones, Q+1 near B^qn: estimate one too large with guard limb 1 (or 2)
    for qn in (1, 2, 3, 5) if quick else (1, 2, 3, 4, 5, 9, 22):
        for dn in (qn + FUDGE + 1, qn + FUDGE + 2, qn + 2, 2 * qn + 8):
            nn = dn + qn - 1; s = dn - qn - 1
            for d in ([M] * s + [0] * qn + [1], [M] * (s - 1) + [1] + [0] * qn + [1], [M] * s + [0] * qn + [2], [M] * s + [M] * qn + [1]):
                D = _val(d); qmax = ((1 << (64 * nn)) - 1) // D
                for Q1 in (qmax, qmax - 1, qmax - rng.randrange(2, 1000), qmax >> 1, (qmax >> 1) + 1):
                    for dl in (0, 1, 2, rng.randrange(3, 50)):
                        N = Q1 * D - 1 - dl
                        if 0 <= N: yield from emit(N, nn, d, True)
    # 3. saturation: cy != 0 and the callee returns B^n when it overshoots
    for qn in (2, 3, 4):
        for dn in (qn + FUDGE + 1, qn + 2, qn + 9):
            nn = dn + qn - 1
            for d in ([0] * (dn - 1) + [1], [1] + [0] * (dn - 2) + [1], [0] * (dn - 1) + [3], [0] * (dn - 2) + [1, 1]):
                for N in ((1 << (64 * nn)) - 1, (1 << (64 * nn)) - 1 - rng.getrandbits(64 * (nn - 2 * qn - 1)), ((1 << (64 * nn)) - 1) // 3 * 2):
                    yield from emit(N, nn, d, True)
    # 4. sizes at +-2 of the crossovers read from the tree
    cross = []
    if T[0] != MAXT and T[0] < 400:
        for a in (-2, -1, 0, 1, 2):
            for b in ((-2, -1, 0, 1, 2) if not quick else (-1, 0, 1)):
                cross.append((T[0] + a, T[0] + b + 1))           # first branch: dn, qn with new_nn - dn around the threshold
    if T[2] != MAXT and T[2] < 400:
        for a in (-2, -1, 0, 1, 2):
            qn = T[2] + 1 + a
            if qn >= 1: cross += [(qn + FUDGE + 1, qn), (qn + FUDGE, qn), (2 * qn + 5, qn)]
    for dn, qn in cross:
        if dn < 2 or qn < 1: continue
        nn = dn + qn - 1
        for dh in rng.sample(tops(rng), 2 if quick else 4):
            d = divisor(rng, dn, dh, rng.choice(["ones", "uniform", "runs"]))
            ns = dividends(rng, d, qn)
            for N in rng.sample(ns, min(len(ns), 5 if quick else 12)):
                yield from emit(N, nn, d)
    # 5. random shapes
    for _ in range(250 if quick else 4000):
        dn = rng.choice([1, 2, 3, 4, 5, 6, 7, 8, 10, 13, 20, 30]); qn = rng.choice([1, 1, 2, 3, 4, 5, 8, 14, 25])
        d = divisor(rng, dn, rng.choice(tops(rng)), rng.choice(["uniform", "runs", "ones", "sparse", "zero"]))
        nn = dn + qn - 1
        yield from emit(rng.choice(dividends(rng, d, qn)), nn, d)
    if not quick:
        # the Newton branches: INV_DIV_Q (first branch) and, if affordable, INV_DIVAPPR_Q
        if T[1] != MAXT and T[1] <= 2000:
            for dn, qn in ((T[1], T[1] + 1), (T[1] - 1, T[1] + 2), (T[1] + 1, T[1])):
                d = divisor(rng, dn, rng.choice(tops(rng)), "uniform"); nn = dn + qn - 1
                for N in rng.sample(dividends(rng, d, qn), 3): yield from emit(N, nn, d)
        if T[3] != MAXT and T[3] <= 2000:
            qn = T[3] + 1; dn = qn + FUDGE + 1
            d = divisor(rng, dn, 1, "ones"); nn = dn + qn - 1
            for N in rng.sample(dividends(rng, d, qn), 3): yield from emit(N, nn, d)
    # 6. the examples of MpirProofs/Props/C02_tdivq.lean
    exD = [M, M, M, M, 1, 0, 0, 1]
    for n, d in (([1, 2, 3], [7]), ([1, 2, 3, 4, 5], [7, 9]), ([0, 0, 0, M], [5, 7, 1]), ([0, 9, 9, M], [5, 7, M]), ([9, 9, 1], [5, 7, 2]),
                 (limbs_of((B * B - 1) * _val(exD) - 1, 9), exD), ([1, 2, 3, 4, 5, 6, 7, 8, 9], [1, 2, 3, 4, 5, 6, 7, M]),
                 ([0, 0, 0, 0, 0, 0, 3, 6, 0], [0, 0, 0, 0, 0, 0, 1, 2]), ([M] * 9, [0, 0, 0, 0, 0, 0, 0, 1])):
        yield from emit(_val(n), len(n), d, True)

def nontrivial(line):
    return line if line.startswith("tdiv_q_") and len(line) > 40 else None

def extra(ctx, cov):
    cov["c02_tdivq_model_branches"] = dict(sorted(BR.items()))
    return []

if __name__ == "__main__":
    tier = sys.argv[1] if len(sys.argv) > 1 else "quick"
    import time
    t0 = time.time()
    lines = list(gen_ops(random.Random(int(sys.argv[2]) if len(sys.argv) > 2 else 1), tier))
    print("ops:", len(lines), "bytes:", sum(len(l) + 1 for l in lines), "gen time %.1fs" % (time.time() - t0))
    for k, v in sorted(BR.items()): print("%-28s %d" % (k, v))
    if len(sys.argv) > 3: open(sys.argv[3], "w").write("\n".join(lines) + "\n")
