"""C01 (algorithm layer) — mpn_mul / mpn_mul_n / mpn_sqr and every internal multiplication algorithm:
dispatch crossovers, unbalanced ratio boundaries, the basecase chunk loop, FFT parameter choices."""
import os, sys
sys.path.insert(0, os.path.dirname(os.path.dirname(os.path.abspath(__file__))))
from genlib import *
import gen_params, gen_mul_dispatch

LEAN_MODULES = ["MpirProofs.Props.C01_algo"]
THEOREMS = [
    "Mpir.MulAlgo.kara_mul_n_val",
    "Mpir.MulAlgo.toom3_interp_exact", "Mpir.MulAlgo.toom3_mul_val", "Mpir.MulAlgo.toom42_exact", "Mpir.MulAlgo.toom32_exact",
    "Mpir.MulAlgo.toom3_eval_fits", "Mpir.MulAlgo.toom4_interp_exact", "Mpir.MulAlgo.toom4_mul_val", "Mpir.MulAlgo.toom53_exact",
    "Mpir.MulDispatch.mul_dispatch_safe", "Mpir.MulDispatch.mul_n_dispatch_safe", "Mpir.MulDispatch.sqr_dispatch_safe",
    "Mpir.FftParams.fft_params_sound_partial", "Mpir.FftParams.fft_params_sound", "Mpir.FftParams.fftTab_admissible",
    "Mpir.MulDispatch.params_are_valid",
    "Mpir.MulDispatch.mpn_mul_val_partial",
]
GEN = [gen_params.gen_params, gen_mul_dispatch.gen_mul_dispatch]
TRUSTED = ["tools/gen_params.py (gcc -E -dM + compiled constant printer) and tools/gen_mul_dispatch.py (C-subset parser -> Lean call skeletons)",
           "hand-written value-level models lean/Mpir/Model/MulAlgo.lean, FftParams.lean (run against the library on every check; FftParams only through its soundness predicate)"]
ASSUMPTIONS = ["limb-level carry/buffer bookkeeping inside Karatsuba/Toom/FFT code is covered by the differential run only",
               "the (depth,w) chosen inside mpn_mul_fft_main is not observed (no link-time interposition in the shared harness); the parameter model is a read mirror of mul_fft_main.c"]
RULE = ("sizes: all 1<=vn<=un<=40; for every un within +-2 of a dispatch crossover (parsed thresholds, also doubled/6x as mul.c uses them) every vn within +-2 of "
        "each ratio boundary of mul.c (k=ceil(un/4): k,2k,3k,9k/4; l=ceil(un/5): 2l,3l; ceil(un/3)*2; 4un<=13vn; vn>=86; 3vn>=FFT) and of each un+vn crossover; "
        "un in {499..502,999..1002,1499..1502} x small vn; each internal algorithm swept over its own size domain; FFT drivers for all small (n1,n2), "
        "around MUL/SQR_FFT_FULL_THRESHOLD and for every explicit (depth,w) up to depth 12 (thorough 14); data: uniform, 0/1 runs, all-ones, single bit, "
        "B^k-1, sparse, equal operands, same pointer; distinct = distinct op lines; total input limbs capped per tier")

_cache = {}
def thresholds(ctx):
    b = getattr(ctx, "build", None) if ctx is not None else None
    if b is None:
        import vlib; b = vlib.get_build("plain")
    if b not in _cache:
        names, vals, fft_tab, mm_tab, _ = gen_params.collect(b)
        _cache[b] = (vals, fft_tab, mm_tab)
    return _cache[b]

PAIR_CLASSES = ["uniform", "ones", "runs", "onebit", "bk1", "equal", "sparse", "top", "mixed"]
def operand(rng, n, cls):
    if cls == "bk1":
        k = rng.randrange(1, n + 1); return [M] * k + [0] * (n - k)
    if cls == "mixed": return rand_limbs(rng, n, rng.choice(["uniform", "ones", "runs", "sparse"]))
    if cls == "equal": cls = "uniform"
    return rand_limbs(rng, n, cls)
def pair(rng, un, vn, cls):
    u = operand(rng, un, cls)
    if cls == "equal": v = list(u[:vn])
    elif cls == "mixed": v = operand(rng, vn, "mixed")
    else: v = operand(rng, vn, cls)
    return u, v

def ceil_div(a, b): return -(-a // b)

def gen_ops(rng, tier, ctx=None):
    T, fft_tab, mm_tab = thresholds(ctx)
    quick = tier != "thorough"
    total = 3_200_000 if quick else 12_000_000
    budget = [0]
    def section(frac):
        """each section of the generator gets its own share of the limb budget (unused share is carried over)"""
        budget[0] = max(budget[0], 0) + int(total * frac)
    def spend(n):
        if budget[0] - n < 0: return False
        budget[0] -= n; return True
    cls_cycle = [0]
    def next_cls():
        cls_cycle[0] += 1; return PAIR_CLASSES[cls_cycle[0] % len(PAIR_CLASSES)]
    def mul_line(un, vn, cls=None):
        u, v = pair(rng, un, vn, cls or next_cls())
        return "mpn_mul %s %s" % (vec(u), vec(v))

    KAR, T3, T4, T8 = T["MUL_KARATSUBA_THRESHOLD"], T["MUL_TOOM3_THRESHOLD"], T["MUL_TOOM4_THRESHOLD"], T["MUL_TOOM8H_THRESHOLD"]
    FFT, SFFT, MAXUN = T["MUL_FFT_FULL_THRESHOLD"], T["SQR_FFT_FULL_THRESHOLD"], T["MUL_BASECASE_MAX_UN"]
    SQ = [T["SQR_BASECASE_THRESHOLD"], T["SQR_KARATSUBA_THRESHOLD"], T["SQR_TOOM3_THRESHOLD"], T["SQR_TOOM4_THRESHOLD"], T["SQR_TOOM8_THRESHOLD"]]
    big = lambda x: x >= T["MP_SIZE_T_MAX"] or x <= 0

    # ---- 1. full small sweep
    section(0.05)
    for un in range(1, 41):
        for vn in range(1, un + 1):
            yield mul_line(un, vn)
            if (un + vn) % 3 == 0: yield mul_line(un, vn, "ones")
    for n in range(1, 41):
        u = operand(rng, n, next_cls())
        yield "mpn_mul_same %s" % vec(u); yield "mpn_sqr %s" % vec(u); yield "mpn_mul_n_same %s" % vec(u)
        yield "mpn_mul_n %s %s" % (vec(u), vec(operand(rng, n, next_cls())))
        yield "mpn_mul %s %s" % (vec(u), vec(u))                    # equal content, distinct objects
        yield "mpn_mul_ov %s %x" % (vec(u), rng.randrange(0, n))

    # ---- 2. balanced crossovers: mpn_mul_n / mpn_sqr / mpn_mul(un == vn) / same pointer
    bal = set()
    for c in [KAR, T3, T4, T8] + SQ + [2 * KAR, T3 // 3, 86]:
        if big(c): continue
        for d in range(-2, 3):
            if c + d >= 1: bal.add(c + d)
    for n in sorted(bal):
        for cls in ("uniform", "ones", next_cls()):
            u, v = pair(rng, n, n, cls)
            if not spend(6 * n): break
            yield "mpn_mul_n %s %s" % (vec(u), vec(v)); yield "mpn_mul %s %s" % (vec(u), vec(v))
            yield "mpn_sqr %s" % vec(u); yield "mpn_mul_same %s" % vec(u)
    for c, same_only in ((FFT, False), (SFFT, True)):
        if big(c): continue
        for d in (range(-2, 3) if not quick else (-1, 0, 1)):
            n = c + d; cls = next_cls() if d else "ones"
            u, v = pair(rng, n, n, cls)
            if not spend(4 * n): break
            if not same_only: yield "mpn_mul_n %s %s" % (vec(u), vec(v))
            yield "mpn_sqr %s" % vec(u)
            if d == 0: yield "mpn_mul_same %s" % vec(u)

    section(0.40)
    # ---- 3. unbalanced: un at the crossovers (and in between), vn at every ratio boundary
    uns = set([120, 150, 200, 260, 300, 340, 400, 430, 520, 700, 890, 1100])
    for c in [KAR, T3, T4, T8, 2 * T3, 2 * T4, 2 * T8, 6 * T4, MAXUN, 2 * T3 - KAR, 2 * T4 - 86]:
        if big(c): continue
        for d in range(-2, 3):
            if c + d >= 2: uns.add(c + d)
    def vns_for(un):
        k = ceil_div(un, 4); l5 = ceil_div(un, 5); l3 = ceil_div(un, 3)
        out = set([1, 2, un, un - 1, un - 2])
        dd = range(-1, 2) if (quick and un > 2 * T4) else range(-2, 3)
        for c in [KAR, 86, k, 2 * k, 3 * k, 9 * k // 4, 2 * l5, 3 * l5, 2 * l3, l3, ceil_div(4 * un, 13),
                  2 * T3 - un, 2 * T4 - un, 2 * T8 - un, 6 * T4 - un, ceil_div(FFT, 3) if not big(FFT) else 0]:
            for d in dd: out.add(c + d)
        return sorted(v for v in out if 1 <= v <= un)
    for un in sorted(uns):
        for vn in vns_for(un):
            if not spend(un + vn): break
            yield mul_line(un, vn)
            if vn % 5 == 0:
                if not spend(un + vn): break
                yield mul_line(un, vn, "ones")

    section(0.05)
    # ---- 4. basecase chunk loop (vn < MUL_KARATSUBA_THRESHOLD, un > MUL_BASECASE_MAX_UN)
    for m in (1, 2, 3):
        for d in range(-1, 3):
            un = m * MAXUN + d
            for vn in sorted(set([1, 2, 3, max(1, KAR // 2), max(1, KAR - 1)])):
                for cls in (("ones", "uniform") if m < 3 else ("ones",)):
                    if not spend(un + vn): break
                    yield mul_line(un, vn, cls)
    # operand tail shorter than vn after the chunks (the `else` branch mul.c:131-135)
    for vn in (max(1, KAR - 1), max(1, KAR - 3)):
        for tail in (1, vn - 1, vn, vn + 1):
            if tail >= 1 and spend(MAXUN + tail + vn): yield mul_line(MAXUN + tail, vn, "ones")

    # ---- 5. un+vn at the FFT crossover with 3vn on both sides of MUL_FFT_FULL_THRESHOLD
    if not big(FFT):
        third = ceil_div(FFT, 3)
        cases = [(2 * FFT - third + d, third + e) for d in (-1, 0) for e in (-1, 0, 1)] + [(2 * FFT - FFT // 2 + d, FFT // 2) for d in (-1, 0, 1)]
        if not quick: cases += [(2 * FFT - 100 + d, 100) for d in (-1, 0, 1)] + [(3 * FFT, third + e) for e in (-1, 0, 1)]
        for un, vn in cases:
            if un >= vn >= 1 and spend(un + vn): yield mul_line(un, vn, rng.choice(["uniform", "ones", "runs"]))

    section(0.15)
    # ---- 6. each internal algorithm over its own domain
    def sweep(lo, hi, extra=()):
        return sorted(set(list(range(lo, hi + 1)) + [x for x in extra if x >= lo]))
    for n in sweep(2, 70 if quick else 140, [KAR * 2 + 1, T3 - 1, 97]):
        u, v = pair(rng, n, n, next_cls())
        if spend(3 * n): yield "mpn_kara_mul_n %s %s" % (vec(u), vec(v)); yield "mpn_kara_sqr_n %s" % vec(u)
    for n in sweep(17, 110 if quick else 240, [T3, T4 - 1, T4]):
        u, v = pair(rng, n, n, next_cls())
        if spend(3 * n): yield "mpn_toom3_mul_n %s %s" % (vec(u), vec(v)); yield "mpn_toom3_sqr_n %s" % vec(u)
        if n % 4 == 0 and spend(2 * n):
            u, v = pair(rng, n, n, "ones"); yield "mpn_toom3_mul_n %s %s" % (vec(u), vec(v))
    m4 = T["MPN_TOOM4_MUL_N_MINSIZE"]
    for n in sweep(m4, 120 if quick else 300, [T4, T8 - 1, T8]):
        u, v = pair(rng, n, n, next_cls())
        if spend(3 * n): yield "mpn_toom4_mul_n %s %s" % (vec(u), vec(v)); yield "mpn_toom4_sqr_n %s" % vec(u)
        if n % 4 == 1 and spend(2 * n):
            u, v = pair(rng, n, n, "ones"); yield "mpn_toom4_mul_n %s %s" % (vec(u), vec(v))
    for an in sweep(20, 64 if quick else 110, [T3, 2 * T3 - 60, 150, 151, 152, 153, 200]):
        full = an <= 44
        k3 = ceil_div(an, 3); k4 = ceil_div(an, 4)
        def pick(lo, hi):
            if lo > hi: return []
            return range(lo, hi + 1) if full else sorted(set([lo, lo + 1, (lo + hi) // 2, hi - 1, hi]) & set(range(lo, hi + 1)))
        for bn in pick(2 * k3 + 1, an):
            u, v = pair(rng, an, bn, next_cls())
            if spend(an + bn): yield "mpn_toom3_mul %s %s" % (vec(u), vec(v))
        for bn in pick(k4 + 1, 2 * k4):
            u, v = pair(rng, an, bn, next_cls())
            if spend(an + bn): yield "mpn_toom42_mul %s %s" % (vec(u), vec(v))
        for bn in pick(k3 + 1, 2 * k3):
            u, v = pair(rng, an, bn, next_cls())
            if spend(an + bn): yield "mpn_toom32_mul %s %s" % (vec(u), vec(v))
        if an >= m4:
            s4 = ceil_div(an, 4); s5 = ceil_div(an, 5)
            for bn in pick(3 * s4 + 1, an):
                u, v = pair(rng, an, bn, next_cls())
                if spend(an + bn): yield "mpn_toom4_mul %s %s" % (vec(u), vec(v))
            if an > 4 * s5:
                for bn in pick(2 * s5 + 1, 3 * s5):
                    u, v = pair(rng, an, bn, next_cls())
                    if spend(an + bn): yield "mpn_toom53_mul %s %s" % (vec(u), vec(v))
    m8 = T["MPN_TOOM8H_MUL_MINSIZE"]
    for bn in sweep(m8, m8 + (12 if quick else 80), [T8, 2 * T8 // 3, 300]):
        ans = sorted(set([bn, bn + 1, bn * 21 // 20, bn * 13 // 8, bn * 33 // 20, bn * 2, bn * 9 // 4, bn * 3, bn * 28 // 9, bn * 13 // 4]))
        for an in ans:
            if an >= bn and 4 * an <= 13 * bn:
                u, v = pair(rng, an, bn, next_cls())
                if spend(an + bn): yield "mpn_toom8h_mul %s %s" % (vec(u), vec(v))
    for n in sweep(T["MPN_TOOM8_SQR_N_MINSIZE"], 90 if quick else 200, [SQ[4] - 1, SQ[4], SQ[4] + 1] if not big(SQ[4]) else []):
        if spend(n): yield "mpn_toom8_sqr_n %s" % vec(operand(rng, n, next_cls()))

    section(0.20)
    # ---- 7. FFT drivers
    def fft_main_ok(n1, n2):      # ASSERT(j1 + j2 - 1 > 2*n) of mul_fft_main.c:53 (depth 6, w 1: 28-bit coefficients, n = 64)
        return n1 >= 1 and n2 >= 1 and ((n1 * 64 - 1) // 28 + 1) + ((n2 * 64 - 1) // 28 + 1) - 1 > 128
    # smallest admissible sizes: all (n1, n2) with 57 <= n1 + n2 <= 57 + span (these end at depth 2..5 through FFT_TAB)
    for tot in range(57, 57 + (12 if quick else 60)):
        for n2 in sorted(set([1, 2, 3, tot // 4, tot // 2])):
            n1 = tot - n2
            if n1 >= n2 >= 1 and fft_main_ok(n1, n2) and spend(tot):
                u, v = pair(rng, n1, n2, next_cls())
                yield "mpn_mul_fft_main %s %s" % (vec(u), vec(v))
    for _ in range(60 if quick else 400):
        n1 = int(30 * (1500 / 30) ** rng.random()); n2 = int(1 + (n1 - 1) * rng.random() ** 2) if rng.random() < 0.7 else n1
        if not fft_main_ok(n1, n2): continue
        u, v = pair(rng, n1, n2, next_cls())
        if spend(n1 + n2):
            yield "mpn_mul_fft_main %s %s" % (vec(u), vec(v))
            if n1 == n2 and rng.random() < 0.5: yield "mpn_mul_fft_main_same %s" % vec(u)
    def capacity(depth, w):          # largest total bits with j1 + j2 - 1 <= 4n
        n = 1 << depth; bits1 = (n * w - (depth + 1)) // 2
        return n, bits1
    def fits(depth, w, n1, n2):
        n, bits1 = capacity(depth, w)
        return bits1 >= 1 and ((n1 * 64 - 1) // bits1 + 1) + ((n2 * 64 - 1) // bits1 + 1) - 1 <= 4 * n
    def fft_cases(mfa):
        lim = 20_000 if quick else 60_000       # per-op cap: the Lean driver parses a line into a character list
        dmax = 12 if quick else 14
        for depth in range(6 if mfa else 2, dmax + 1):
            wadj = (1 << (6 - depth)) if depth < 6 else 1
            ws = [wadj * i for i in ((1, 2, 3) if (quick or mfa) else (1, 2, 3, 4, 5))]
            if mfa and depth >= 12: ws = ws[:2]
            for w in ws:
                n, bits1 = capacity(depth, w)
                if bits1 < 1: continue
                # total coefficient count j1 + j2 - 1 targets: minimal, just above 2n, 3n, exactly 4n
                for target in (1, 2 * n + 1, 3 * n, 4 * n):
                    j1 = (target + 1) // 2; j2 = target + 1 - j1
                    n1 = max(1, (j1 * bits1) // 64); n2 = max(1, (j2 * bits1) // 64)
                    while n1 >= 1 and n2 >= 1 and not fits(depth, w, n1, n2):
                        if n1 >= n2: n1 -= 1
                        else: n2 -= 1
                    if n1 < 1 or n2 < 1 or n1 + n2 > lim: continue
                    yield depth, w, n1, n2
                if rng.random() < 0.5:
                    n1, n2 = rng.randrange(1, 40), rng.randrange(1, 40)
                    if fits(depth, w, n1, n2): yield depth, w, n1, n2
    for mfa in (False, True):
        name = "mpn_mul_mfa_trunc_sqrt2" if mfa else "mpn_mul_trunc_sqrt2"
        for depth, w, n1, n2 in fft_cases(mfa):
            if not spend(n1 + n2): continue
            same = 1 if (n1 == n2 and rng.random() < 0.3) else 0
            u, v = pair(rng, n1, n2, rng.choice(["uniform", "ones", "runs", "sparse"]))
            yield "%s %x %x %x %s %s" % (name, same, depth, w, vec(u), vec(u if same else v))

    section(0.10)
    # ---- 8. mulmod 2^b-1 / 2^b+1, low / high / middle products
    def below(b, cls):
        n = (b + 63) // 64; x = operand(rng, n, cls); k = 64 * n - b
        if k: x[-1] &= M >> k
        return x
    bs = list(range(1, 200 if quick else 600)) + [64 * i for i in (4, 8, 11, 12, 13, 16, 24, 25, 32, 48, 64)] + [64 * 12 * 2 + 2, 64 * 30 + 6, 2 * 64 * 13 - 2]
    for b in bs:
        for cls in ("uniform", "ones") if b % 7 else ("uniform", "ones", "onebit", "sparse"):
            y, z = below(b, cls), below(b, cls if cls != "ones" or b % 2 else "uniform")
            if not spend(2 * len(y)): continue
            yield "mpn_mulmod_2expm1 %x %s %s" % (b, vec(y), vec(z))
            yield "mpn_mulmod_2expp1 0 %x %s %s" % (b, vec(y), vec(z))
        n = (b + 63) // 64; zero = [0] * n
        yield "mpn_mulmod_2expp1 1 %x %s %s" % (b, vec(below(b, "uniform")), vec(zero))
        yield "mpn_mulmod_2expp1 2 %x %s %s" % (b, vec(zero), vec(below(b, rng.choice(["uniform", "lowbit", "ones"]))))
        if b % 9 == 0: yield "mpn_mulmod_2expp1 3 %x %s %s" % (b, vec(zero), vec(zero))
        yield "mpn_mulmod_2expp1 0 %x %s %s" % (b, vec(below(b, "ones")), vec(below(b, "ones")))      # (2^b-1)^2 = 4 mod 2^b+1
    cut = T["FFT_MULMOD_2EXPP1_CUTOFF"]
    for n in ([cut + 1, 2 * cut, 2 * cut + 64] if quick else [cut + 1, cut + 2, 2 * cut, 2 * cut + 64, 4 * cut, 1024, 2048]):
        b = 64 * n
        for cls in ("uniform", "ones"):
            if spend(2 * n): yield "mpn_mulmod_2expp1 0 %x %s %s" % (b, vec(below(b, cls)), vec(below(b, cls)))
        if spend(2 * n): yield "mpn_mulmod_2expm1 %x %s %s" % (b, vec(below(b, "uniform")), vec(below(b, "runs")))
    lows = sweep(1, 70 if quick else 200, [T["MULLOW_DC_THRESHOLD"], T["MULHIGH_DC_THRESHOLD"], T["MULMID_TOOM42_THRESHOLD"], 100, 128, 255] +
                 ([T["MULLOW_MUL_THRESHOLD"] + d for d in (-1, 0)] if not big(T["MULLOW_MUL_THRESHOLD"]) and not quick else []))
    for n in lows:
        u, v = pair(rng, n, n, next_cls())
        if not spend(4 * n): continue
        yield "mpn_mullow_n %s %s" % (vec(u), vec(v)); yield "mpn_mulhigh_n %s %s" % (vec(u), vec(v))
        a = operand(rng, 2 * n - 1, next_cls())
        yield "mpn_mulmid_n %s %s" % (vec(a), vec(v))
        if n % 3 == 0:
            u, v = pair(rng, n, n, "ones"); yield "mpn_mulhigh_n %s %s" % (vec(u), vec(v)); yield "mpn_mullow_n %s %s" % (vec(u), vec(v))
            yield "mpn_mulmid_n %s %s" % (vec([M] * (2 * n - 1)), vec(v))
    for _ in range(30 if quick else 200):
        bn = rng.randrange(1, 60); an = bn + rng.randrange(0, 300 if rng.random() < 0.3 else 40)
        if spend(an + bn): yield "mpn_mulmid %s %s" % (vec(operand(rng, an, next_cls())), vec(operand(rng, bn, next_cls())))

    section(0.05)
    # ---- 9. remaining budget: random shapes across the whole dispatch, all data classes
    top = 1200 if quick else 9000
    while True:
        un = int(2 * (top / 2) ** rng.random()); vn = max(1, int(un * rng.random() ** rng.choice([1, 2, 3])))
        if not spend(un + vn): break
        yield mul_line(un, vn)

def nontrivial(line):
    return line if "," in line else None
