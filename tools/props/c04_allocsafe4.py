"""C04 part allocsafe4 (third continuation of c04_allocsafe..3): `mpz_cdiv_q_2exp_alloc_safe` / `mpz_fdiv_q_2exp_alloc_safe` composed
(refinement of the list-level result through `roundTail_spec`, and that result is the ceiling / floor quotient); size-aware models of
mpz/aorsmul_i.c (mpz_aorsmul_1 behind mpz_addmul_ui / mpz_submul_ui: `MPZ_REALLOC (w, new_wsize+1)`, the x-longer-than-w paths with
mpn_mul_1 + mpn_add_1 / MPN_MUL_1C, the borrow-out path that stores `wp[new_wsize]` and negates in two's complement, MPN_INCR_U /
MPN_DECR_U) and mpz/aorsmul.c (mpz_addmul / mpz_submul: the one-limb shortcut into mpz_aorsmul_1, the temporary product,
`MPZ_REALLOC (w, MAX (wsize, tsize) + 1)` and the carry store `wp[wsize] = c`) and mpz/mul.c (one-limb path, basecase shortcut, the generic
path: a block that is too small is replaced by a fresh one of exactly usize + vsize limbs whose contents are NOT copied — the old block is kept
until the end when w is an operand (`free_me`), freed at once otherwise —, an aliased operand copied to temporary space when the block is large
enough, squaring), mpz/tdiv_q.c and mpz/tdiv_r.c (`MPZ_REALLOC (quot, nl - dl + 1)` / `MPZ_REALLOC (rem, dl)` against the limbs mpn_tdiv_q / mpn_tdiv_qr store —
sufficient, and necessary: `mpz_tdiv_q_request_necessary` —, operands copied to temporary space when they are the output variable, the quotient of
mpz_tdiv_r in temporary space), and mpf/urandomb.c on an mpf destination (a block of PREC + 1 limbs that is never reallocated: the clamp
`nlimbs <= PREC + 1` keeps `_gmp_rand`, the in-place shift and the strip loop inside it; op `as4_mpf_urandomb` with the Mersenne Twister model of C19)
in lean/Mpir/Model/AllocSafeMpz4.lean; mpz/sqrt.c (fresh block of (op_size + 1) / 2 limbs / temporary copy when root is op; its `free_me`
arm proved dead); the two-destination functions mpz/tdiv_qr.c and mpz/sqrtrem.c (statement shape `Safe2`: both outputs well formed, every other
variable untouched); mpz/set_d.c (`_mpz_realloc (r, rn)`, zero fill + the two limbs of the double; value = C11's `Conv.mpz_set_d`); mpq/inv.c (blocks exchanged in place; `_mpz_realloc` after the size stores).  Ops `as4_*`
(harness/ops_allocsafe4.c) run the real function on objects of the GIVEN allocations in every alias mode and compare ALLOC(w), SIZ(w)
and the value with the model's run."""
from genlib import *

LEAN_MODULES = ["MpirProofs.Props.C04_allocsafe4"]
THEOREMS = ["Mpir.AllocSafe." + t for t in (
    "mpz_cdiv_q_2exp_alloc_safe", "mpz_fdiv_q_2exp_alloc_safe", "cfdiv_q_2exp_refines", "Spec.cfdiv_q_2exp_spec", "Spec.roundZ_spec",
    "specQ_signmag", "roundTail_refines", "Wrote.fresh",
    "mpz_addmul_ui_alloc_safe", "mpz_submul_ui_alloc_safe", "mpz_addmul_alloc_safe", "mpz_submul_alloc_safe",
    "aorsmul_1_refines", "aorsmul_1_add_refines", "aorsmul_1_sub_ge_refines", "aorsmul_1_sub_lt_refines", "subGeFix_refines",
    "aorsmul_1_zero_refines", "aorsmul_refines", "aorsmulCore_refines", "add_S_refines", "sub_S_refines", "mpn_mul_tmp_spec",
    "Wrote.rd_src", "mpz_mul_alloc_safe", "mul_refines", "mulGeneric_refines", "mulTail_refines", "tmp_copy_spec", "Den.fresh",
    "mpz_tdiv_q_alloc_safe", "mpz_tdiv_q_request_necessary", "mpz_tdiv_r_request_necessary", "mpz_tdiv_r_alloc_safe", "tdiv_q_refines", "tdiv_r_refines",
    "Spec.tdiv_q_spec", "Spec.tdiv_r_spec", "copyIfSame_spec",
    "mpf_urandomb_dest_safe", "mpf_urandomb_seeded_overruns", "mpf_urandomb_fin_spec",
    "mpz_tdiv_qr_alloc_safe", "tdiv_qr_refines", "Grown.owf",
    "mpq_inv_alloc_safe", "mpq_inv_inplace", "mpq_inv_distinct", "MPZ_REALLOC_grown2",
    "mpz_set_d_alloc_safe", "set_d_refines", "extract_double_limbs",
    "mpz_sqrtrem_alloc_safe", "sqrtrem_refines", "sqrtremTail_refines", "Spec.sqrtrem_rem_spec",
    "mpz_sqrt_alloc_safe", "mpz_sqrt_free_me_dead", "sqrt_refines", "Spec.sqrt_spec", "sqrtTail_refines")]
TRUSTED = ["hand-written size-aware models lean/Mpir/Model/AllocSafeMpz4.lean (mpz/aorsmul_i.c, aorsmul.c on the memory model of AllocSafe.lean; "
           "TMP_ALLOC_LIMBS (tsize) = a block of its own that no variable points to; mpn_mul = the schoolbook product written to "
           "[0, xn+yn) of its destination; mpn_tdiv_q / mpn_tdiv_qr = their contracts (C02 tdiv_q_contract / tdiv_qr_contract): exactly nl-dl+1 quotient "
           "limbs and dl remainder limbs stored), tied by exact comparison of ALLOC(w), SIZ(w), value in every alias mode, and by source pins"]
ASSUMPTIONS = ["_gmp_rand (rp, rstate, nbits) stores exactly BITS_TO_LIMBS (nbits) limbs (C19: randget_mt / the repaired randget_lc; op @mpn_urandomb there)",
               "MPN_INCR_U / MPN_DECR_U (gmp-impl.h: unbounded `while (++(*(p++)) == 0);`) are checked as a read and a write of the `size` limbs "
               "the caller names (aorsmul_i.c:151, 178); the carry stops inside them because of the limb stored just before"]
RULE = ("allocsafe4: addmul_ui/submul_ui/addmul/submul with every sign combination (the effective operation is an add or a sub of magnitudes), "
        "w shorter than / as long as / longer than x (resp. the product), w = 0, all-ones operands (carry into the extra limb), |w| < |x*y| with "
        "equal sizes (borrow out, two's-complement negate), w = x*y and w = x*y +- 1 (cancellation to zero / one limb), the held -1 of "
        "aorsmul_i.c:169, products with a zero top limb, one-limb multiplier in either position, all five alias modes, destination allocation "
        "exact / need-1 / need / generous")

PINS = [("mpz/aorsmul_i.c", None), ("mpz/aorsmul.c", None), ("mpz/mul.c", None), ("mpz/tdiv_q.c", None), ("mpz/tdiv_r.c", None), ("mpf/urandomb.c", None), ("mpz/sqrt.c", None), ("mpz/tdiv_qr.c", None), ("mpz/sqrtrem.c", None), ("mpz/set_d.c", None), ("mpq/inv.c", None)]

def nl(x): return (abs(x).bit_length() + 63) // 64

def obj(rng, v, need=None):
    n = max(nl(v), 1)
    cands = [n, n, n + 1, n + rng.randrange(0, 4)]
    if need: cands += [max(n, need - 1), max(n, need), max(n, need + 1)]
    return "%x %s" % (rng.choice(cands), hx(v))

def special(rng, k=None):
    k = k if k is not None else rng.randrange(1, 5)
    m = rng.randrange(0, 64 * k)
    v = rng.choice([B ** k - 1, B ** k - 1, B ** (k - 1), B ** k - (1 << m), 1 << m, 1 << (64 * k - 1), B ** (k - 1) + 1, (B ** k - 1) ^ (1 << m),
                    rng.getrandbits(64 * k), rng.getrandbits(64 * k) | (1 << (64 * k - 1)), rng.getrandbits(64) << (64 * (k - 1)),
                    (B ** k - 1) // 3, B ** k - 2])
    return v

def limb(rng):
    return rng.choice([1, 2, 3, M, M, M - 1, 1 << 63, (1 << 63) + 1, rng.getrandbits(64) | 1, (1 << 32) + 1, 0])

def sgnd(rng, v): return v * rng.choice([1, -1])

def ui_case(rng):
    """(w, x, y) for w +- x*y, rare branches on purpose"""
    c = rng.randrange(14)
    k = rng.randrange(1, 5)
    y = limb(rng)
    x = special(rng, k)
    if c == 0: return 0, sgnd(rng, x), y                                           # w = 0: plain mul_1
    if c == 1: return sgnd(rng, B ** k - 1), sgnd(rng, B ** k - 1), M              # all ones, same length: carry limb
    if c == 2: return sgnd(rng, B ** (k + rng.randrange(0, 3)) - 1), sgnd(rng, x), y   # w at least as long, all ones: carry through w
    if c == 3: return sgnd(rng, special(rng, rng.randrange(1, k + 1))), sgnd(rng, x), y    # w shorter or equal
    if c == 4: return sgnd(rng, x * y), sgnd(rng, x), y                            # cancels to zero (or doubles)
    if c == 5: return sgnd(rng, x * y + rng.choice([1, -1, B, -B])), sgnd(rng, x), y    # cancels to one limb / borrow out by one
    if c == 6: return sgnd(rng, rng.randrange(1, 10)), sgnd(rng, B ** (k - 1) * rng.randrange(1, 4) + rng.randrange(0, 3)), rng.choice([1, 2, y])   # held -1 region
    if c == 7: return sgnd(rng, special(rng, k)), sgnd(rng, special(rng, k)), y    # same length: borrow out or not
    if c == 8: return sgnd(rng, special(rng, k + rng.randrange(1, 3))), sgnd(rng, x), y   # w longer
    if c == 9: return sgnd(rng, special(rng, k)), 0, y
    if c == 10: return sgnd(rng, B ** k), sgnd(rng, B ** (k - 1)), rng.choice([1, M, 1 << 63])    # borrow propagates through zero limbs of w
    if c == 11: return sgnd(rng, x * y - (x * y) % B ** rng.randrange(1, k + 1)), sgnd(rng, x), y # low limbs differ only
    if c == 12: return sgnd(rng, (x * y) % B ** k), sgnd(rng, x), y                # w = low part: x longer after the product
    return rand_int(rng, 5), rand_int(rng, 5), limb(rng)

def gen_ui(rng, name):
    w, x, y = ui_case(rng)
    m = rng.randrange(2) if rng.random() < 0.3 else 0
    need = max(nl(w), nl(x)) + 1
    if m == 1: need = nl(x) + 1
    wo = obj(rng, w, need)
    return "%s %x %s %s %x" % (name, m, wo, obj(rng, x, need), y)

def mm_case(rng):
    """(w, x, y) for w +- x*y with multi-limb y"""
    c = rng.randrange(14)
    kx = rng.randrange(1, 5); ky = rng.randrange(1, 5)
    x = special(rng, kx); y = special(rng, ky)
    t = x * y
    if c == 0: return 0, sgnd(rng, x), sgnd(rng, y)
    if c == 1: return sgnd(rng, B ** (kx + ky - 1) - 1), sgnd(rng, B ** kx - 1), sgnd(rng, B ** ky - 1)     # all ones, w one limb shorter than t: carry limb
    if c == 2: return sgnd(rng, B ** (kx + ky + rng.randrange(0, 2)) - 1), sgnd(rng, B ** kx - 1), sgnd(rng, B ** ky - 1)
    if c == 3: return sgnd(rng, t), sgnd(rng, x), sgnd(rng, y)                                          # cancellation
    if c == 4: return sgnd(rng, t + rng.choice([1, -1, B, -B, B ** max(nl(t) - 1, 0), -(B ** max(nl(t) - 1, 0))])), sgnd(rng, x), sgnd(rng, y)
    if c == 5: return sgnd(rng, special(rng, max(nl(t), 1))), sgnd(rng, x), sgnd(rng, y)               # same length as t: compare decides
    if c == 6: return sgnd(rng, special(rng, rng.randrange(1, max(nl(t), 2)))), sgnd(rng, x), sgnd(rng, y)   # w shorter
    if c == 7: return sgnd(rng, special(rng, nl(t) + rng.randrange(1, 3))), sgnd(rng, x), sgnd(rng, y)  # w longer
    if c == 8: return sgnd(rng, special(rng)), sgnd(rng, B ** (kx - 1)), sgnd(rng, B ** (ky - 1))       # top product limb zero
    if c == 9: return sgnd(rng, special(rng)), sgnd(rng, x), sgnd(rng, limb(rng))                       # one-limb y: aorsmul_1
    if c == 10: return sgnd(rng, special(rng)), sgnd(rng, limb(rng)), sgnd(rng, y)                      # one-limb x: swap then aorsmul_1
    if c == 11: return sgnd(rng, special(rng)), 0, sgnd(rng, y)
    if c == 12: return sgnd(rng, B ** nl(t) - t), sgnd(rng, x), sgnd(rng, y)                            # sum = B^n exactly
    return rand_int(rng, 5), rand_int(rng, 4), rand_int(rng, 4)

def gen_mm(rng, name):
    w, x, y = mm_case(rng)
    m = rng.choice([0, 0, 0, 1, 2, 3, 4])
    if m == 1: w = x
    if m == 2: w = y
    if m == 3: y = x
    if m == 4: w = x; y = x
    need = max(nl(w), nl(x) + nl(y)) + 1
    return "%s %x %s %s %s" % (name, m, obj(rng, w, need), obj(rng, x, need), obj(rng, y, need))

def gen_mul(rng):
    """mpz_mul: the one-limb path, the basecase shortcut (w neither operand, usize + vsize <= MUL_KARATSUBA_THRESHOLD), the generic path
    (aliased, or longer): block too small and w an operand (free_me), too small and distinct (freed at once), large enough and aliased
    (temporary copy), squaring through one variable, top product limb zero"""
    c = rng.randrange(10)
    kx = rng.randrange(1, 6); ky = rng.randrange(1, 6)
    if c == 0: kx = rng.randrange(7, 12); ky = rng.randrange(7, 12)           # beyond the threshold
    if c == 1: ky = 1
    if c == 2: kx = 1
    x = special(rng, kx); y = special(rng, ky)
    if c == 3: x = B ** (kx - 1); y = B ** (ky - 1)                           # top limb of the product zero
    if c == 4: x = 0
    x = sgnd(rng, x); y = sgnd(rng, y)
    m = rng.choice([0, 0, 1, 1, 2, 2, 3, 4, 4])
    if m == 3: y = x
    need = nl(x) + nl(y)
    w = sgnd(rng, special(rng, rng.randrange(1, 4)))
    # an aliased destination with room for the product (temporary-copy path) or without (free_me path)
    def big(v):
        n = max(nl(v), 1)
        return "%x %s" % (max(n, rng.choice([n, need - 1, need, need + 2, n + 1])), hx(v))
    return "as4_mul %x %s %s %s" % (m, obj(rng, w, need), big(x), big(y))

def gen_div(rng, name):
    """mpz_tdiv_q / mpz_tdiv_r: numerator shorter than / as long as / longer than the denominator, quotient with a zero top limb,
    exact multiples (remainder 0), remainder with high zero limbs, d = 0, every alias mode (the output is the numerator, the denominator,
    both), destination allocation below / at / above ql resp. dl"""
    c = rng.randrange(12)
    kd = rng.randrange(1, 5); kq = rng.randrange(1, 5)
    d = special(rng, kd) or 1; q = special(rng, kq)
    if c == 0: n = q * d                                              # exact
    elif c == 1: n = q * d + rng.randrange(0, d)                      # any remainder
    elif c == 2: n = q * d + rng.randrange(0, min(d, B))              # remainder with high zero limbs
    elif c == 3: n = special(rng, rng.randrange(1, kd + 1))           # n shorter or as long as d
    elif c == 4: n = d                                                # quotient 1
    elif c == 5: n = d - 1 if d > 1 else 1
    elif c == 6: d = 0; n = q
    elif c == 7: n = B ** (kd + kq - 1); d = B ** kd - 1              # top quotient limb zero / non-zero boundary
    elif c == 8: n = (B ** kq - 1) * d + d - 1                        # all-ones quotient, maximal remainder
    elif c == 9: n = 0
    elif c == 10: n = special(rng, kd + kq)
    else: n = abs(rand_int(rng, 6)); d = abs(rand_int(rng, 4))
    n = sgnd(rng, n); d = sgnd(rng, d)
    m = rng.choice([0, 0, 0, 1, 1, 2, 2, 3, 4])
    if m >= 3: d = n
    need = max(nl(n) - nl(d) + 1, 1) if name == "as4_tdiv_q" else max(nl(d), 1)
    w = sgnd(rng, special(rng, rng.randrange(1, 4)))
    return "%s %x %s %s %s" % (name, m, obj(rng, w, need), obj(rng, n, need), obj(rng, d, need))

def gen_furandomb(rng):
    """mpf_urandomb: nbits below / at / above the (PREC + 1)-limb capacity, multiples of 64 and not, 0"""
    pb = rng.choice([1, 53, 64, 65, 128, 129, 192, 64 * rng.randrange(1, 8) + rng.randrange(64)])
    prec = (max(53, pb) + 127) // 64
    cap = 64 * (prec + 1)
    nb = rng.choice([0, 1, 63, 64, 65, cap - 64, cap - 1, cap, cap + 1, cap + 63, cap + 64, cap + 65, 2 * cap, rng.randrange(1, cap + 130)])
    return "as4_mpf_urandomb %x %x %x" % (rng.getrandbits(rng.choice([1, 32, 64])), pb, max(nb, 0))

def gen_sqrt(rng):
    """mpz_sqrt: odd / even limb counts, perfect squares and their neighbours (root at a limb boundary), all ones, 0, negative, in place
    (block large enough: temporary copy) and into blocks below / at / above (op_size + 1) / 2"""
    c = rng.randrange(9)
    k = rng.randrange(1, 8)
    r = special(rng, (k + 1) // 2) or 1
    if c == 0: u = r * r
    elif c == 1: u = r * r - 1
    elif c == 2: u = r * r + 2 * r                                    # (r+1)^2 - 1
    elif c == 3: u = B ** k - 1
    elif c == 4: u = B ** (k - 1)
    elif c == 5: u = 0
    elif c == 6: u = -special(rng, k) or -1
    else: u = abs(rand_int(rng, 9))
    need = (nl(u) + 1) // 2 or 1
    w = sgnd(rng, special(rng, rng.randrange(1, 4)))
    return "as4_sqrt %x %s %s" % (rng.randrange(2), obj(rng, w, need), obj(rng, u, need))

def gen_divqr(rng):
    """mpz_tdiv_qr: the cases of gen_div with two outputs and the ten alias modes"""
    line = gen_div(rng, "as4_tdiv_q").split()
    m = rng.choice([0, 0, 0, 1, 2, 3, 4, 5, 6, 7, 8, 9])
    w2 = sgnd(rng, special(rng, rng.randrange(1, 4)))
    n = int(line[5], 16); d = int(line[7], 16)
    return "as4_tdiv_qr %x %s %s %s %s %s %s" % (m, line[2], line[3], obj(rng, w2, max(nl(d), 1)), line[4], line[5], "%s %s" % (line[6], line[7]))

def gen_set_d(rng):
    """mpz_set_d: |d| < 1 (rn = 0), one limb, two limbs, exponents at limb boundaries (zero fill of rn - 2 limbs), denormals, NaN, Inf"""
    c = rng.randrange(8)
    e = rng.choice([0, 1, 1022, 1023, 1023 + 52, 1023 + 63, 1023 + 64, 1023 + 65, 1023 + 127, 1023 + 128, 1023 + 129, 1023 + 64 * rng.randrange(1, 15) + rng.randrange(-1, 2), 2046, 2047, rng.randrange(2048)])
    f = rng.choice([0, 1, (1 << 52) - 1, 1 << 51, rng.getrandbits(52)])
    b = (rng.getrandbits(1) << 63) | (e << 52) | f
    need = max((e - 1023) // 64 + 1, 1) if e >= 1023 else 1
    w = sgnd(rng, special(rng, rng.randrange(1, 4)))
    return "as4_set_d %s %x" % (obj(rng, w, need), b)

def gen_qinv(rng):
    """mpq_inv: in place (blocks exchanged) and into another variable with fields smaller / larger than needed; negative and zero numerator"""
    n = sgnd(rng, special(rng, rng.randrange(1, 5))) if rng.random() < 0.9 else 0
    d = special(rng, rng.randrange(1, 5)) or 1
    w1 = sgnd(rng, special(rng, rng.randrange(1, 4))); w2 = special(rng, rng.randrange(1, 4)) or 1
    return "as4_mpq_inv %x %s %s %s %s" % (rng.randrange(2), obj(rng, w1, nl(d)), obj(rng, w2, max(nl(n), 1)), obj(rng, n), obj(rng, d))

def gen_ops(rng, tier, ctx=None):
    n = 1000 if tier == "quick" else 12000
    for _ in range(n):
        yield gen_ui(rng, "as4_addmul_ui")
        yield gen_ui(rng, "as4_submul_ui")
        yield gen_mm(rng, "as4_addmul")
        yield gen_mm(rng, "as4_submul")
        yield gen_mul(rng)
        yield gen_div(rng, "as4_tdiv_q")
        yield gen_div(rng, "as4_tdiv_r")
        if _ % 4 == 0: yield gen_furandomb(rng)
        if _ % 2 == 0: yield gen_sqrt(rng)
        else:
            l = gen_sqrt(rng).split()
            w2 = sgnd(rng, special(rng, rng.randrange(1, 4)))
            yield "as4_sqrtrem %x %s %s %s %s %s" % (rng.randrange(3), l[2], l[3], obj(rng, w2, max(nl(int(l[5], 16)), 1)), l[4], l[5])
        yield gen_divqr(rng)
        if _ % 2 == 1: yield gen_set_d(rng)
        if _ % 4 == 1: yield gen_qinv(rng)

def nontrivial(line):
    return line if line.startswith("as4_") else None
