"""C10 part `swar` — the SWAR bit counting code of mpn/generic/popcount.c (= hamdist.c with POPHAM(u,v) = u ^ v) mirrored
statement by statement on 64-bit words (lean/Mpir/Model/Swar.lean) and proved equal, for every limb list, to the
"by meaning" model of part c10_bits (sum of per-limb bit counts), which closes that part's TRUSTED item about popcount.c.
Ops `sw_popcount [limbs]`, `sw_hamdist [u] [v]` are answered by the SWAR model and compared with the real
mpn_popcount / mpn_hamdist.  Merged into c10.py automatically."""
from genlib import *

LEAN_MODULES = ["MpirProofs.Props.C10_swar"]
THEOREMS = ["Mpir.Swar." + t for t in ["limb4_fields", "limb4_popc", "n4_range", "red2_fields", "red4_fields", "block_eq", "block_le_256", "tailLimb_fields", "tail_eq", "popcount_swar_eq_mod", "popcount_swar_eq", "hamdist_swar_eq", "popcount_swar_digits", "hamdist_swar_digits"]]
TRUSTED = ["hand-written model lean/Mpir/Model/Swar.lean (statement-by-statement mirror of mpn/generic/popcount.c for GMP_LIMB_BITS = 64; "
           "hamdist.c is the same text on u ^ v), tied to the library's mpn_popcount / mpn_hamdist by differential execution on every run",
           "nothing of popcount.c is modelled by meaning any more: Swar.mpn_popcount / mpn_hamdist (statement level) are PROVED equal to the c10_bits models "
           "for every limb list (popcount_swar_eq_mod / popcount_swar_eq / hamdist_swar_eq); mpn_hamdist is modelled as the popcount code on the limb-wise xor "
           "(the C is one text with POPHAM(u,v) = u ^ v), not as a second copy of the loop",
           "that the build links the generic C (no popcount/hamdist assembly is selected in this configuration)"]
ASSUMPTIONS = ["mp_limb_t and mp_bitcnt_t are 64-bit unsigned (every assignment is written % 2^64); equality with the exact bit count needs "
               "64*n < 2^64 (the count is representable in mp_bitcnt_t); without it the theorem states equality modulo 2^64"]
RULE = ("C10 swar: every n from 1 to 13 (all n mod 4) x data classes uniform/runs/ones/zero/sparse/onebit; 4-limb blocks with all 256 bits set / "
        "all 256 bits differing at every block position for 1..3 blocks plus 0..3 tail limbs; 255-bit blocks (every single cleared bit position of "
        "one block in quick tier: a stride); single set bits at every position of n <= 5 limbs; alternating 0xAAAA.../0x5555... patterns and their "
        "hamdist against each other, against zero and against ones; tails of 1..3 all-ones limbs (x reaches 192 before the folds); distinct = distinct op lines")

A = 0xAAAAAAAAAAAAAAAA
S = 0x5555555555555555

def both(u, rng):
    """popcount of u and the same count as a hamming distance (u ^ r against r)"""
    yield "sw_popcount %s" % vec(u)
    r = [rng.getrandbits(64) for _ in u]
    yield "sw_hamdist %s %s" % (vec([x ^ y for x, y in zip(u, r)]), vec(r))

def gen_ops(rng, tier, ctx=None):
    reps = 3 if tier == "quick" else 20
    maxn = 13 if tier == "quick" else 41
    # every n (all residues mod 4), every data class
    for n in range(1, maxn + 1):
        for cls in ["uniform", "runs", "ones", "zero", "sparse", "onebit", "top", "lowbit"]:
            for _ in range(reps):
                u = rand_limbs(rng, n, cls)
                yield from both(u, rng)
                v = rand_limbs(rng, n, rng.choice(["uniform", "runs", "sparse", "ones", "zero"]))
                yield "sw_hamdist %s %s" % (vec(u), vec(v))
                yield "sw_hamdist %s %s" % (vec(u), vec([x ^ M for x in u]))       # all 64n bits differ
                yield "sw_hamdist %s %s" % (vec(u), vec(u))                       # none differs
        # alternating patterns
        for pat in ([A] * n, [S] * n, [A, S] * n, [S, A] * n, [A, A, S, S] * n, [M, 0] * n, [0, M] * n):
            u = pat[:n]
            yield from both(u, rng)
            yield "sw_hamdist %s %s" % (vec(u), vec([x ^ M for x in u]))
            yield "sw_hamdist %s %s" % (vec(u), vec([0] * n))
            yield "sw_hamdist %s %s" % (vec(u), vec([M] * n))
    # full blocks (256 bits set / differing) at each block position, with every tail length
    for nb in (1, 2, 3) if tier == "quick" else (1, 2, 3, 4, 7):
        for tail in range(0, 4):
            n = 4 * nb + tail
            for pos in range(nb):
                for bg in ("zero", "uniform"):
                    u = rand_limbs(rng, n, bg)
                    u[4 * pos:4 * pos + 4] = [M] * 4
                    yield from both(u, rng)
                    # 255-bit blocks: one bit of the full block cleared
                    bits = range(0, 256, 37 if tier == "quick" else 1)
                    for b in list(bits) + [63, 64, 127, 128, 191, 192, 255]:
                        w = list(u); w[4 * pos + b // 64] ^= 1 << (b % 64)
                        yield from both(w, rng)
            # the tail after full blocks: all ones (x = 64*tail in one byte field before the folds)
            u = [0] * (4 * nb) + [M] * tail
            if tail: yield from both(u, rng)
            u = [M] * n
            yield from both(u, rng)
    # single bits at every position
    for n in range(1, 6 if tier == "quick" else 10):
        for b in range(64 * n):
            if tier == "quick" and n > 2 and b % 8 not in (0, 7) : continue
            u = limbs_of(1 << b, n)
            yield "sw_popcount %s" % vec(u)
            if b % 3 == 0: yield "sw_hamdist %s %s" % (vec(u), vec([M] * n))
    # byte-field extremes: each byte of each limb 0xff alone, and all but one
    for n in (1, 2, 3, 4, 5, 7):
        for i in range(n):
            for by in range(8):
                u = [0] * n; u[i] = 0xff << (8 * by)
                yield "sw_popcount %s" % vec(u)
                yield "sw_popcount %s" % vec([x ^ M for x in u])

def nontrivial(line):
    return line

# source pins: the C the Lean model mirrors (see tools/pins.py)
PINS = [('mpn/generic/popcount.c', None), ('mpn/generic/hamdist.c', None)]
