"""C04 — no call sequence corrupts memory, breaks the allocator contract or a variable."""
import os, re, random
import apigen, vlib, gen_tmpskel
from genlib import *
LEVEL = "proof"
LEAN_MODULES = ["MpirProofs.Props.C04", "MpirProofs.Props.C04_tmp", "MpirProofs.Props.C04_tmpsound"]
GEN = [gen_tmpskel.gen_tmpskel]
THEOREMS = ["Mpir.Life.inv_init", "Mpir.Life.inv_step", "Mpir.Life.inv_run", "Mpir.Life.no_breach", "Mpir.Life.clearAll_empties_ledger", "Mpir.Life.realloc2_value", "Mpir.Life.set_value", "Mpir.TmpSkel.tmp_balanced", "Mpir.TmpSkel.balanced_sound", "Mpir.TmpSkel.tmp_paths_safe"]
TRUSTED = ["tools/gen_tmpskel.py: clang-14 AST of every function using TMP_DECL with the TMP_* macros re-pointed at marker calls; control-flow skeleton construction (if/loops/switch/goto/return/noreturn calls)",
           "run-time monitors on the C side: recording allocator (exact old size on realloc/free, red zones, leak ledger), well-formedness check of every pool object after every call, ASan+UBSan build",
           "life-cycle/ledger model lean/Mpir/Model/Life.lean mirrors mpz/init.c, init2.c, realloc.c, realloc2.c, set.c, clear.c (tied by correspondence on value and _mp_alloc)"]
ASSUMPTIONS = ["memory safety of code below the object abstraction is bounded sanitizer exploration over generated histories, not proof",
               "mpz_random*, mpn_random*, mpf_random2, mpz_array_init are excluded as the property says"]
RULE = ("histories over a pool of 6 mpz / 3 mpq / 3 mpf variables: life-cycle histories (set/init2/realloc2 incl. truncation to zero) followed exactly by the Lean ledger model, "
        "and API-call histories (functions drawn from the table generated from mpir.h, ~35% aliased arguments) executed on two pools — one generously allocated, one pre-shrunk to the minimum "
        "before every call — whose values must agree after every call; distinct = distinct histories")
LEVEL_TEXT = ("Lean theorems: the life-cycle/ledger model keeps every object well formed and the ledger consistent over arbitrary operation histories (induction over the op list), never hands a wrong "
              "size to realloc/free, holds no block after clearing everything, and realloc2 changes a value only by clearing it when it no longer fits. The implementation is monitored over generated "
              "histories of all public functions with a recording allocator, a well-formedness check after every call, a twin pool with minimal allocations (allocation-history independence) and an ASan build. Every function that uses TMP_DECL has its MARK/ALLOC/FREE control-flow skeleton regenerated from the source with clang on each run; a kernel-checked theorem says every skeleton is accepted by a data-flow procedure whose soundness over all paths (any number of loop iterations) is proved, so no path allocates unmarked or returns with a temporary outstanding.")
LEVEL_NOTE = "Allocation safety is proved for the mirrored functions only (see DESIGN C04 (iv)); memory safety inside the kernels' ranges and of the functions not yet mirrored (n_pow_ui, mpq mul_2exp/div_2exp beyond the skip loop and set_f, the TMP traffic of mpf_sub, mpf set_q/set_d/div/sqrt, Toom/FFT scratch, doprnt) is sanitizer exploration."

SKIP = re.compile(r"divexact|jacobi|legendre|remove|prime|miller|sizeinbase|set_num|set_den|mpq_set_ui|mpq_set_si|canonicalize|mpq_set_d$|trial_division|mpq_inv|get_d")

def lifecycle(rng):
    yield "@reset"
    for _ in range(rng.randrange(5, 40)):
        k = rng.randrange(6); c = rng.random()
        if c < 0.4: yield "@setz %x %s" % (k, hx(apigen.fz(rng, big=rng.random() < 0.1)))
        elif c < 0.55: yield "@init2 %x %x" % (k, rng.choice([0, 1, 63, 64, 65, 128, 1000, rng.randrange(0, 700)]))
        elif c < 0.85: yield "@realloc2 %x %x" % (k, rng.choice([0, 1, 63, 64, 65, 128, 129, 192, 1000, rng.randrange(0, 700)]))
        else: yield "@getz %x" % k
    yield "@done"

def calls(rng, table, n):
    yield "@reset"
    for k in range(6): yield "@setz %x %s" % (k, hx(apigen.fz(rng, big=rng.random() < 0.15)))
    for k in range(3):
        nn, dd = apigen.fq(rng); yield "@setq %x %s %s" % (k, hx(nn), hx(dd))
    for k in range(3):
        p, s, e, l = apigen.ff(rng); yield "@setf %x %x %s %s %s" % (k, p, hx(s), hx(e), vec(l))
    cnt = {"z": 6, "q": 3, "f": 3}
    for _ in range(n):
        name, sig, ret = rng.choice(table)
        if SKIP.search(name): continue
        toks = apigen.gen_args(rng, name, sig)
        used_ptr = {"z": set(), "q": set(), "f": set()}
        args = []
        prev = {"z": [], "q": [], "f": []}
        ok = True
        for i, c in enumerate(sig):
            if c in "ZQF":
                kind = c.lower(); free = [s for s in range(cnt[kind]) if s not in used_ptr[kind]]
                if not free: ok = False; break
                s = rng.choice(free); used_ptr[kind].add(s); prev[kind].append(s); args.append("%x" % s)
            elif c in "zqf":
                kind = c
                if prev[kind] and rng.random() < 0.35: s = rng.choice(prev[kind])    # alias an earlier argument (output or input)
                else: s = rng.randrange(cnt[kind])
                prev[kind].append(s); args.append("%x" % s)
            else: args.append(toks[i][0])
        if ok: yield "@call %s %s" % (sbytes(name), " ".join(args))
        if rng.random() < 0.1: yield "@seed %x" % rng.randrange(1, 100)
    yield "@done"

def growth(rng, table):
    """directed histories: values at limb boundaries whose result needs one more limb than the (pre-shrunk) destination has"""
    B = 1 << 64
    sig = {n: s for n, s, r in table}
    yield "@reset"
    k = rng.randrange(1, 5); m = rng.randrange(0, 64 * k)
    specials = [B ** k - 1, -(B ** k - 1), B ** k, -(B ** k), -(B ** k - (1 << m)), B ** k - (1 << m), -(1 << (64 * k - 1)), (1 << (64 * k - 1)), -1, 1 - B ** k]
    for slot in range(6): yield "@setz %x %s" % (slot, hx(rng.choice(specials)))
    bits = [m, 64 * k - 1, 64 * k, 64 * k + 1, 0, 63, 64]
    cands = []
    for name in ("mpz_setbit", "mpz_clrbit", "mpz_combit"):
        if name in sig: cands += ["@call %s %x %x" % (sbytes(name), rng.randrange(6), rng.choice(bits)) for _ in range(4)]
    for name in ("mpz_com", "mpz_neg", "mpz_abs"):
        if name in sig: cands += ["@call %s %x %x" % (sbytes(name), d, rng.randrange(6)) for d in range(2)]
    for name in ("mpz_add_ui", "mpz_sub_ui", "mpz_mul_ui", "mpz_addmul_ui", "mpz_submul_ui"):
        if name in sig: cands += ["@call %s %x %x %x" % (sbytes(name), rng.randrange(6), rng.randrange(6), rng.choice([1, 2, B - 1, 1 << 63])) for _ in range(2)]
    for name in ("mpz_ui_sub",):
        if name in sig: cands += ["@call %s %x %x %x" % (sbytes(name), rng.randrange(6), rng.choice([0, 1, B - 1]), rng.randrange(6)) for _ in range(2)]
    for name in ("mpz_mul_2exp", "mpz_cdiv_q_2exp", "mpz_fdiv_q_2exp", "mpz_cdiv_r_2exp", "mpz_fdiv_r_2exp"):
        if name in sig: cands += ["@call %s %x %x %x" % (sbytes(name), rng.randrange(6), rng.randrange(6), rng.choice([1, 63, 64, 65, m])) for _ in range(2)]
    for name in ("mpz_add", "mpz_sub", "mpz_mul", "mpz_and", "mpz_ior", "mpz_xor", "mpz_addmul", "mpz_submul"):
        if name in sig: cands += ["@call %s %x %x %x" % (sbytes(name), rng.randrange(6), rng.randrange(6), rng.randrange(6)) for _ in range(2)]
    rng.shuffle(cands)
    for c in cands[:25]:
        yield c
        if rng.random() < 0.3: yield "@setz %x %s" % (rng.randrange(6), hx(rng.choice(specials)))
    yield "@done"

def limb_access(rng):
    """limb-level access (mpz_limbs_write/modify/finish, init_set family, default precision changes) mixed with ordinary calls"""
    yield "@reset"
    for k in range(6): yield "@setz %x %s" % (k, hx(apigen.fz(rng)))
    for k in range(3):
        p, s, e, l = apigen.ff(rng, prec=rng.choice([2, 5, 9])); yield "@setf %x %x %s %s %s" % (k, p, hx(s), hx(e), vec(l))
    for _ in range(rng.randrange(6, 25)):
        c = rng.random()
        if c < 0.45:
            n = rng.randrange(1, 7); l = rand_limbs(rng, n, rng.choice(["uniform", "sparse", "zero", "lowbit", "top"]))
            z = rng.choice([0, 0, 1, 2])                       # zero high limbs that finish must strip
            for i in range(min(z, n)): l[n - 1 - i] = 0
            size = rng.randrange(0, n + 1) * rng.choice([1, -1])
            yield "@limbs %x %x %x %s %s" % (rng.randrange(6), rng.randrange(2), n, vec(l), hx(size))
        elif c < 0.6: yield "@defprec %x" % rng.choice([53, 64, 65, 128, 200, 512])
        elif c < 0.8:
            kind = rng.randrange(6)
            if kind in (0, 3):
                d = rng.randrange(6 if kind == 0 else 3); s = (d + 1 + rng.randrange((6 if kind == 0 else 3) - 1)) % (6 if kind == 0 else 3)
                yield "@init_set %x %x %x" % (kind, d, s)
            elif kind in (1, 4): yield "@init_set %x %x %x" % (kind, rng.randrange(6 if kind == 1 else 3), rng.choice([0, 1, M, 1 << 63]))
            else: yield "@init_set %x %x %s" % (kind, rng.randrange(6 if kind == 2 else 3), hx(rng.choice([0, -1, 1, -(1 << 63), (1 << 63) - 1])))
        else:
            yield "@call %s %x %x %x" % (sbytes(rng.choice(["mpz_add", "mpz_mul", "mpz_sub"])), rng.randrange(6), rng.randrange(6), rng.randrange(6))
    yield "@done"

def gen_ops(rng, tier, ctx=None):
    build = ctx.build if ctx else vlib.REPO
    table, _ = apigen.table(build)
    nl, nc = (300, 400) if tier == "quick" else (3000, 6000)
    for _ in range(nl): yield from lifecycle(rng)
    for _ in range(nl): yield from growth(rng, table)
    for _ in range(nl): yield from limb_access(rng)
    for _ in range(nc): yield from calls(rng, table, rng.randrange(5, 60))

def nontrivial(line):
    return line if line.startswith("@call") or line.startswith("@realloc2") else None

def extra(ctx, cov):
    """the same kind of histories on an ASan+UBSan build of the working tree: any sanitizer report is a violation"""
    build = vlib.get_build("asan"); exe = vlib.get_harness(build, "asan")
    rng = random.Random("C04-asan-%d" % ctx.seed)
    table, _ = apigen.table(build)
    n = 250 if ctx.tier == "quick" else 4000
    lines = []
    for _ in range(n): lines += list(calls(rng, table, rng.randrange(5, 60)))
    env = {"ASAN_OPTIONS": "detect_leaks=0:abort_on_error=0:allocator_may_return_null=1", "UBSAN_OPTIONS": "print_stacktrace=1:halt_on_error=1"}
    rc, out, err = vlib.run_stream(exe, lines, env=env)
    cov["asan_history_ops"] = len(lines); cov["asan_exit"] = rc
    bad = [i for i, o in enumerate(out) if o not in ("0", "ok") and not re.match(r"^-?[0-9a-f]+( -?[0-9a-f]+| \[[0-9a-f,]*\])*$", o)]
    if rc == 0 and len(out) == len(lines) and not bad: return []
    k = bad[0] if bad else len(out)
    # replay = the history containing line k
    start = max(i for i in range(min(k, len(lines) - 1) + 1) if lines[i] == "@reset")
    path = os.path.join(vlib.VERIF, "replay", "C04-asan-%d.ops" % ctx.seed)
    os.makedirs(os.path.dirname(path), exist_ok=True)
    with open(path, "w") as f:
        f.write("# ASan/UBSan build: harness rc=%d, answers %d of %d\n" % (rc, len(out), len(lines)))
        f.write("".join("# " + l + "\n" for l in err.split("\n")[:80]))
        f.write("\n".join(lines[start:k + 1]) + "\n")
    return [("sanitizer report at op %s: %s" % (lines[k] if k < len(lines) else "?", (err.strip().split("\n") or [""])[0][:300]), path)]

# source pins: the C the Lean model mirrors (see tools/pins.py)
PINS = [('mpz/init.c', None), ('mpz/init2.c', None), ('mpz/realloc.c', None), ('mpz/realloc2.c', None), ('mpz/set.c', None), ('mpz/clear.c', None)]

def explain_broken(ctx, proof_broken):
    """when tmp_balanced fails, name the skeletons the decision procedure rejects (evaluated by Lean on the regenerated table)"""
    if not any("C04_tmp" in r for r in proof_broken): return ""
    import tempfile, subprocess
    src = "import Mpir.Model.TmpSkel\n#eval Mpir.TmpSkel.unbalanced\n"
    p = os.path.join(vlib.CACHE, "unbal-%d.lean" % os.getpid()); open(p, "w").write(src)
    try:
        rc, out = vlib.run(["lake", "env", "lean", p], cwd=vlib.LEAN, timeout=600)
    finally:
        os.unlink(p)
    return "TMP skeletons rejected by Mpir.TmpSkel.balanced (file:function) = " + out.strip()[:2000]
