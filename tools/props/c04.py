"""C04 — main module (parts: c04_*.py are merged automatically)."""
LEVEL = "proof"
LEAN_MODULES = []
THEOREMS = []
TRUSTED = []
ASSUMPTIONS = []
LEVEL_TEXT = 'Lean theorems: object well-formedness and allocator-ledger invariants are preserved by every modelled operation over arbitrary histories (induction over the op list), and values are independent of allocation history; every TMP_MARK/TMP_FREE skeleton extracted from the source is balanced. The implementation is monitored over generated histories with a recording allocator (exact sizes, red zones, leak ledger) and an ASan/UBSan build.'
LEVEL_NOTE = 'Memory safety of code below the object abstraction (Toom scratch, FFT buffers, doprnt) is bounded sanitizer exploration, not proof.'
PLACEHOLDER = True
