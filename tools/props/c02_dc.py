"""C02 part: divide-and-conquer division mpn_dc_div_qr_n / mpn_dc_div_qr / mpn_dc_div_q — theorems for all sizes and all
thresholds T >= 6 about the value-level recursive model lean/Mpir/Model/DcDiv.lean (MpirProofs/Props/C02_dc.lean), tied to
the real functions by the ops dc_div_qr_n / dc_div_qr_model / dc_div_q (harness/ops_dcdiv.c).

The number of add-backs of a correction loop `while (cy != 0)` is not observable from outside; the python mirror of the
model below is run on every generated input and COUNTS them per loop kind (coverage.c02_dc_model_branches):
  n_hi=k / n_lo=k     first / second loop of mpn_dc_div_qr_n at any recursion depth (k add-backs)
  qr_blk=k            the loop of mpn_dc_div_qr's first block (dc_div_qr.c:142 / :181)
  qr_one, qr_two, qr_sb, qr_dcn, qr_eq   which 2qn/qn division the first block used (qn == 1, mpn_divrem_2, sb, dc_div_qr_n; qn == dn)
Directed recipe (from the proof, MpirProofs/Lemmas/DcDiv.lean: add-backs = floor(Wt/Dt) - floor(W/D) and
(adds-1)*Dt < floor(W/D)+1): divisor B^n/2 + B^lo - 1 (top limb 0x8000…0, zeros, all-ones low half: the largest neglected part
against the smallest divided part) and dividend Q*D + R with the quotient block near 0, B^k/4, 3B^k/4 (0, 1, 2 add-backs) and, for the
first loop only, 5B^k/4 and 2B^k-1 (qh = 1: 3 and 4 add-backs); R in {0, D-1, random}.
Quick tier, seed 1, standalone (`python3 tools/props/c02_dc.py`) prints the counts.
"""
import collections, random, sys, os, re
sys.path.insert(0, os.path.dirname(os.path.dirname(os.path.abspath(__file__))))
from genlib import *

LEAN_MODULES = ["MpirProofs.Props.C02_dc"]
THEOREMS = ["Mpir.DcDiv." + t for t in """
mulSubCorr_exact dcDivQrN_exact dcDivQrN_floor dcDivQrN_addbacks dc_div_qr_n_contract
dcDivQr_exact dcDivQr_floor dcDivQr_addbacks dc_div_qr_contract dcDivQ_exact
""".split()]
PINS = [("mpn/generic/dc_div_qr_n.c", None), ("mpn/generic/dc_div_qr.c", None), ("mpn/generic/dc_div_q.c", None)]
TRUSTED = ["hand-written value-level model lean/Mpir/Model/DcDiv.lean of mpn_dc_div_qr_n / mpn_dc_div_qr / mpn_dc_div_q (limb areas as "
           "naturals with explicit limb counts; tied by correspondence on every run)",
           "callee contracts inside that model: mpn_sb_div_qr = exact quotient/remainder (proved for its limb-level model, part c02_sb), "
           "mpn_divrem_2 (4/2 limbs) and the qn == 1 schoolbook step of dc_div_qr.c:67-120 = exact quotient/remainder (differential only), "
           "mpn_mul = product, mpn_dc_divappr_q = floor or floor+1 (hypothesis of dcDivQ_exact, checked on every dc_div_q op)"]
ASSUMPTIONS = ["DC_DIV_QR_THRESHOLD is the value in gmp-mparam.h of the tree under test (checked inside the C ops; the theorems hold for every T >= 6)",
               "the dividend limbs above the remainder that the C leaves behind are scratch and not modelled"]
RULE = ("dc_div_qr_n: n in 6..13, T-2..T+2, 2T-3..2T+3, 4T-1..4T+1; dc_div_qr / dc_div_q: dn in {6,7,9,13,T-2,T,T+1,2T-1,2T,2T+1}, "
        "qn << dn, qn = dn, qn >> dn with qn mod dn in {1,2,3,small,dn-1,0}; divisors B^n/2+B^lo-1, all ones, random; dividends built "
        "backwards from (Q,D,R) to force 0,1,2 (and 3,4 with qh = 1) add-backs in every correction loop (counted by the python mirror)")

BR = collections.Counter()
LOOP_FUEL = 6

def threshold(ctx):
    base = getattr(ctx, "build", None) or os.environ.get("VERIF_REPO", "/repo")
    m = re.search(r"#define\s+DC_DIV_QR_THRESHOLD\s+(\d+)", open(os.path.join(base, "gmp-mparam.h")).read())
    return int(m.group(1))

# ---------------------------------------------------------------- python mirror of Mpir.DcDiv (values only)
def P(k): return 1 << (64 * k)
def subN(k, a, b): return (a + P(k) - b, 1) if a < b else (a - b, 0)
def addN(k, a, b): return (a + b - P(k), 1) if a + b >= P(k) else (a + b, 0)

def m_block(k, m, D, Q, qh, R1, Wl, kind):
    """mirror of mulSubCorr; returns (q, qh, r, adds)"""
    n = k + m; Dl = D % P(m)
    r, cy = subN(n, Wl + P(m) * R1, Q * Dl)
    if qh:
        t, c = subN(m, r >> (64 * k), Dl)
        r = r % P(k) + P(k) * t; cy += c
    q, adds = Q, 0
    while cy and adds < LOOP_FUEL:
        q, b = subN(k, q, 1); qh = (qh - b) % B
        r, c = addN(n, r, D); cy = (cy - c) % B
        adds += 1
    assert cy == 0
    BR["%s=%d" % (kind, adds)] += 1
    return q, qh, r, adds

def m_leaf(k, Nw, Dw):
    assert P(k) // 2 <= Dw < P(k) and Nw < P(2 * k)
    q = Nw // Dw
    return q % P(k), Nw % Dw, q >> (64 * k)

def m_dc_div_qr_n(T, n, N, D):
    lo = n // 2; hi = n - lo
    Nh, Dh = N >> (128 * lo), D >> (64 * lo)
    if hi < T: assert hi > 2; q1, r1, qh = m_leaf(hi, Nh, Dh); BR["n_sb"] += 1
    else: q1, r1, qh = m_dc_div_qr_n(T, hi, Nh, Dh); BR["n_rec"] += 1
    q1, qh, r, _ = m_block(hi, lo, D, q1, qh, r1, (N >> (64 * lo)) % P(lo), "n_hi")
    Pp = N % P(lo) + P(lo) * r
    Nl, Dl = Pp >> (64 * hi), D >> (64 * hi)
    if lo < T: assert lo > 2; q2, r2, ql = m_leaf(lo, Nl, Dl); BR["n_sb"] += 1
    else: q2, r2, ql = m_dc_div_qr_n(T, lo, Nl, Dl); BR["n_rec"] += 1
    q2, _, r, _ = m_block(lo, hi, D, q2, ql, r2, Pp % P(hi), "n_lo")
    return q2 + P(lo) * q1, r, qh

def m_block_qr(T, two, qn, dn, W, D):
    m = dn - qn; Wt, Dt = W >> (64 * m), D >> (64 * m)
    if two and qn == 2: q, r, qh = m_leaf(2, Wt, Dt); BR["qr_two"] += 1
    elif qn < T: assert qn > 2; q, r, qh = m_leaf(qn, Wt, Dt); BR["qr_sb"] += 1
    else: q, r, qh = m_dc_div_qr_n(T, qn, Wt, Dt); BR["qr_dcn"] += 1
    if qn != dn: q, qh, r, _ = m_block(qn, m, D, q, qh, r, W % P(m), "qr_blk")
    else: BR["qr_eq"] += 1
    return q, r, qh

def m_dc_div_qr(T, nn, dn, N, D):
    qn = nn - dn
    if qn > dn:
        j = 0
        while True:
            qn -= dn; j += 1
            if not qn > dn: break
        W = N >> (64 * j * dn)
        if qn == 1:
            BR["qr_one"] += 1
            qh = 1 if (W >> 64) >= D else 0
            if qh: W -= B * D
            q, r = divmod(W, D); assert q < B
        else:
            q, r, qh = m_block_qr(T, True, qn, dn, W, D)
        for i in reversed(range(j)):
            qq, r, h = m_dc_div_qr_n(T, dn, (N >> (64 * i * dn)) % P(dn) + P(dn) * r, D)
            assert h == 0
            q = qq + P(dn) * q
        BR["qr_loop_blocks=%d" % min(j, 3)] += 1
        return q, r, qh
    return m_block_qr(T, False, qn, dn, N, D)

# ---------------------------------------------------------------- generators
def _divisors(rng, n):
    lo = n // 2
    yield P(n) // 2 + P(lo) - 1                    # smallest top, largest neglected low half: most add-backs
    yield P(n) - 1                                 # all ones
    yield P(n) // 2                                # low half zero: never an add-back
    yield rng.getrandbits(64 * n) | P(n) // 2
    yield (1 << 63) * P(n - 1) + rrandomb(rng, 64 * (n - 1))

def _qblocks(rng, k, top):
    """values for a k-limb quotient block; `top`: may exceed B^k (qh = 1)"""
    f = [0, 1, P(k) // 4, P(k) // 4 * 3, P(k) - 1, rng.getrandbits(64 * k)]
    if top: f += [P(k) // 4 * 5, 2 * P(k) - 1, P(k), P(k) + 1]
    return f

def _rems(rng, D):
    return [0, D - 1, rng.randrange(D)]

def gen_ops(rng, tier, ctx=None):
    quick = tier == "quick"
    T = threshold(ctx)
    def emit_n(n, N, D):
        if not (0 <= N < P(2 * n)): return None
        q, r, qh = m_dc_div_qr_n(T, n, N, D)
        assert (qh * P(n) + q, r) == divmod(N, D) and qh <= 1
        return "dc_div_qr_n %x %s %s" % (T, vec(limbs_of(N, 2 * n)), vec(limbs_of(D, n)))
    def emit_qr(nn, dn, N, D, both=True, qr=True):
        if not (0 <= N < P(nn)): return
        if qr:
            q, r, qh = m_dc_div_qr(T, nn, dn, N, D)
            assert (qh * P(nn - dn) + q, r) == divmod(N, D) and qh <= 1
            yield "dc_div_qr_model %x %s %s" % (T, vec(limbs_of(N, nn)), vec(limbs_of(D, dn)))
        if both: yield "dc_div_q %s %s" % (vec(limbs_of(N, nn)), vec(limbs_of(D, dn)))
    # ---- mpn_dc_div_qr_n
    ns = sorted(set(list(range(6, 14)) + list(range(T - 2, T + 3)) + list(range(2 * T - 3, 2 * T + 4)) + list(range(4 * T - 1, 4 * T + 2))))
    ns = [n for n in ns if n >= 6]
    if not quick: ns += [3 * T, 8 * T + 1]
    for n in ns:
        lo = n // 2; hi = n - lo
        small = n <= 13
        for di, D in enumerate(_divisors(rng, n)):
            qhs = _qblocks(rng, hi, True); qls = _qblocks(rng, lo, False)
            if di == 0:
                combos = [(a, b) for a in qhs for b in ([qls[0], qls[3], qls[4]] if not small else qls)]
                if quick: combos = [c for i, c in enumerate(combos) if (i + n) % (2 if small else 3) == 0]
            else:
                combos = [(rng.choice(qhs), rng.choice(qls)) for _ in range(2 if quick else 8)]
            for a, b in combos:
                R = rng.choice(_rems(rng, D))
                ln = emit_n(n, (a * P(lo) + b) * D + R, D)
                if ln: yield ln
        for _ in range(1 if quick else 4):
            ln = emit_n(n, rng.getrandbits(128 * n), rng.getrandbits(64 * n) | P(n) // 2)
            if ln: yield ln
        D = P(n) // 2 + P(lo) - 1
        yield emit_n(n, P(2 * n) - 1, D)                                      # largest dividend
        yield emit_n(n, (P(2 * hi) - P(hi) // 2) * P(2 * lo), D)              # first loop: estimate 2B^hi - 1, four add-backs
        yield emit_n(n, (P(2 * hi) - P(hi) // 2) * P(2 * lo) + rng.getrandbits(128 * lo), D)
    # ---- mpn_dc_div_qr and mpn_dc_div_q
    dns = [6, 7, 9, 13, T - 2, T, T + 1, 2 * T - 1, 2 * T + 1] + ([] if quick else [2 * T, 3 * T + 1, 4 * T])
    for dn in sorted(set(d for d in dns if d >= 6)):
        qns = [3, 4, dn // 2, dn - 1, dn, dn + 1, dn + 2, dn + 3, dn + max(3, dn // 2), 2 * dn - 1, 2 * dn, 2 * dn + 1, 2 * dn + 2, 3 * dn + 1]
        for qn in sorted(set(q for q in qns if q >= 3)):
            nn = dn + qn
            q0 = qn if qn <= dn else (qn % dn or dn)                  # size of the first block
            for di, D in enumerate(_divisors(rng, dn)):
                if quick and di >= 2 and (dn > 13 or (di + qn) % 2): continue
                if di == 0:
                    # first block: divisor part D / B^(dn-q0), neglected part all ones as far as it goes
                    tops = _qblocks(rng, q0, True)
                    if quick: tops = [tops[i] for i in ((0, 3, 6, 7) if (dn + qn) % 2 else (2, 4, 6, 7))]
                else:
                    tops = [rng.choice(_qblocks(rng, q0, True))]
                for a in tops:
                    rest = qn - q0
                    low = rng.choice([0, P(rest) - 1, rng.getrandbits(64 * rest), (P(rest) // 4 * 3 + rng.getrandbits(32)) % P(rest)]) if rest else 0
                    R = rng.choice(_rems(rng, D))
                    yield from emit_qr(nn, dn, (a * P(rest) + low) * D + R, D, both=not quick)
                    # floor(N*B/D) just below / exactly a multiple of B: the guard limb wp[0] of mpn_dc_div_q is 0 with the callee one
                    # too large (decrement) or exact with tp == np (copy)
                    yield from emit_qr(nn, dn, (a * P(rest) + low) * D - 1, D, both=True)
                    yield from emit_qr(nn, dn, (a * P(rest) + low) * D, D, both=True, qr=False)
            yield from emit_qr(nn, dn, rng.getrandbits(64 * nn), rng.getrandbits(64 * dn) | P(dn) // 2)
            yield from emit_qr(nn, dn, P(nn) - 1, P(dn) // 2 + P(dn // 2) - 1)
            yield from emit_qr(nn, dn, P(nn) - 1, P(dn) // 2)          # floor(N*B/D) = 2*B^(qn+1) - 1: the callee of dc_div_q must not round up
    # the examples of MpirProofs/Props/C02_dc.lean are about T = 6 (not the compiled threshold); they are checked by the kernel only

def extra(ctx, cov):
    cov["c02_dc_model_branches"] = dict(sorted(BR.items()))
    return []

if __name__ == "__main__":
    tier = sys.argv[1] if len(sys.argv) > 1 else "quick"
    import time
    t0 = time.time(); nch = 0; n = 0; ops = collections.Counter()
    for l in gen_ops(random.Random(1), tier):
        n += 1; nch += len(l); ops[l.split()[0]] += 1
    print("ops:", n, dict(ops), "chars: %d" % nch, "%.1fs" % (time.time() - t0))
    for k, v in sorted(BR.items()): print("  %-20s %d" % (k, v))
