"""C13 part — mpf_cmp (directed), mpf_eq, mpf_reldiff, mpf_sgn.

mpf_cmp13 / mpf_cmp13? are the ops of part c13_mpf (bit-exact model Mpir.Mpf.cmp and the exact sign of the
difference evaluated by the driver); this part adds the directed cases (one operand a limb prefix of the other in
every sign combination, low zero limbs, raw states longer than prec+1, adjacent exponents, zeros) and the theorem
`Mpir.Mpf.cmp_spec`.  mpf_eq13 / mpf_reldiff / mpf_sgn13 are answered by Mpir/Model/MpfCmp.lean."""
from genlib import *
from props import c13_mpf as base
F = base.F; fs = base.fs; both = base.both; PRECS = base.PRECS
B = 1 << 64; M = B - 1

LEAN_MODULES = ["MpirProofs.Props.C13_cmp"]
THEOREMS = ["Mpir.MpfCmp." + t for t in """
    cmp_spec cmp_antisymm sgn_spec bitExp_bounds eq_spec eq_refl eq_wrapped_before_b2b40d5 reldiff_zero reldiff_spec
""".split()]
TRUSTED = ["hand-written model lean/Mpir/Model/MpfCmp.lean of mpf/eq.c (mp_bitcnt_t arithmetic mod 2^64, the n_bits clamp of b2b40d5), "
           "mpf/reldiff.c and the mpf_sgn macro — tied by correspondence on every run (ops mpf_eq13, mpf_reldiff, mpf_sgn13; mpf_cmp13 for Mpir.Mpf.cmp)"]
ASSUMPTIONS = ["mpf_eq: |size| < 2^31 limbs (`_mp_size` is an int) so that 64*max(usize,vsize) + 126 does not wrap; every n_bits of an mp_bitcnt_t",
               "mpf_reldiff: the bound proved is |r - |x-y|/x| < (eps(prec) + eps(prec+|x|) + product)*|exact| (two roundings), "
               "not 2^(2-p): the property text does not list mpf_reldiff among the 2^(2-p) functions; x = 0 gives 1 or 0 (reldiff.c:33-36)",
               "mpf_cmp_ui/_si/_d/_z, mpf_get_*/fits_*/integer_p: proved in C11 (Model/Conv.lean, operands of any length); not repeated here"]
RULE = ("mpf_cmp13: prefix pairs (c | tail) vs c, c vs c|0..0|x, equal values with different limb counts, flipped single bits, adjacent and "
        "huge exponent gaps, raw lengths prec+2.., x all sign/zero combinations x both argument orders, exact and predicate form; "
        "mpf_eq13: first differing bit at depth t from the leading bit (inside the shorter operand, in its zero extension, across limb "
        "boundaries) with n_bits in {0,1,t-1,t,t+1,t+2,64k,64k±1}, different clz / exponent / sign, zeros, n_bits near 2^64 and random 64-bit (clamp); "
        "mpf_reldiff: destination precisions {2,3,4,5,17}, alias modes 0-4, nearly equal operands, prefixes, zero operands, raw lengths; "
        "mpf_sgn13 on every operand class")

def val(l): return sum(x << (64 * i) for i, x in enumerate(l))

def opnd(rng, l, e, neg, own=None):
    return (own if own is not None else rng.choice(PRECS), neg, e, l)

def gen_cmp(rng, tier):
    reps = 12 if tier == "quick" else 80
    def pair(u, v):
        yield from both("mpf_cmp13 %s %s" % (F(u), F(v)))
        yield from both("mpf_cmp13 %s %s" % (F(v), F(u)))
    for _ in range(reps):
        for k in (1, 2, 3, 5):
            c = base.limbs_nz(rng, k, rng.choice([None, "ones", "uniform", "top"]))          # little-endian common top part
            e = rng.choice([0, 1, -1, k, rng.randrange(-50, 50), rng.randrange(-(1 << 40), 1 << 40)])
            t = base.tail(rng, rng.choice([1, 1, 2, 4]))
            if not any(t): t[rng.randrange(len(t))] = rng.choice([1, M, 1 << 63])
            variants = [
                (t + c, c),                                        # v is a limb prefix of u
                ([rng.choice([1, M])] + [0] * rng.randrange(1, 4) + c, c),      # prefix, then zero limbs, then one low limb
                ([0] * rng.randrange(1, 4) + c, c),                # equal values, different limb counts
                ([0] * rng.randrange(1, 3) + t + c, [0] * rng.randrange(0, 3) + c),
                (t + c, [x ^ (1 if i == 0 else 0) for i, x in enumerate(t)] + c),     # same length, lowest bit differs
                (t + c, t[1:] + c) if len(t) > 1 else (t + c, c),
            ]
            for (ul, vl) in variants:
                for (nu, nv) in ((False, False), (True, True), (False, True), (True, False)):
                    own = rng.choice([None, None, 2])                       # own prec 2 with many limbs = raw state
                    yield from pair(opnd(rng, ul, e, nu, own), opnd(rng, vl, e, nv, own))
                # neighbouring exponents: the comparison must be decided by the exponent alone
                yield from pair(opnd(rng, ul, e + 1, False), opnd(rng, vl, e, False))
                yield from pair(opnd(rng, ul, e, True), opnd(rng, vl, e + 1, True))
            # top limbs differ by one, everything below random
            c2 = list(c); c2[-1] = c2[-1] + 1 if c2[-1] < M else c2[-1] - 1
            for neg in (False, True):
                yield from pair(opnd(rng, base.tail(rng, 2) + c, e, neg), opnd(rng, base.tail(rng, 3) + c2, e, neg))
    z = (2, False, 0, [])
    for _ in range(reps):
        u = base.rand_opnd(rng, rng.choice(PRECS))
        yield from pair(u, z); yield from pair(z, z)
        yield "mpf_sgn13 %s" % F(u); yield "mpf_sgn13 %s" % F(z)

def gen_eq(rng, tier):
    reps = 150 if tier == "quick" else 1200
    W = 1 << 64
    for _ in range(reps):
        n = rng.choice([1, 1, 2, 3, 4, 6])
        ul = base.limbs_nz(rng, n, rng.choice([None, "uniform", "ones", "lowbit"]), rng.choice([0, 0, 1]))
        c = rng.choice([0, 0, 1, 5, 31, 62, 63, rng.randrange(64)])          # count of leading zeros of the top limb
        ul[-1] = (ul[-1] | (1 << 63)) >> c
        e = rng.choice([0, 1, -1, 7, rng.randrange(-(1 << 40), 1 << 40)]); neg = rng.random() < 0.4
        L = 64 * n - c                                                       # bits of u's mantissa
        # v: u with the bit at depth t (0 = leading bit) flipped, t possibly in the zero extension below u
        t = rng.choice([1, 2, 63 - c, 64 - c, 65 - c, L - 1, L, L + 1, L + 63, L + 64, rng.randrange(1, L + 130)])
        t = max(t, 1)
        ext = max(0, -(-(t + 1 - L) // 64))                                   # zero limbs to add below
        vl = [0] * ext + list(ul)
        pos = 64 * len(vl) - c - 1 - t
        vl[pos // 64] ^= 1 << (pos % 64)
        while vl and vl[0] == 0 and rng.random() < 0.5: vl = vl[1:]           # v need not keep its low zero limbs
        for nb in {0, 1, t - 1, t, t + 1, t + 2, 64 * ((t + c) // 64) - c, 64 * ((t + c) // 64) - c + 1, 64 * ((t + c) // 64 + 1) - c,
                   rng.randrange(0, L + 200), rng.choice([W - 1, W - 63, W - 62, W - 1 - c, W - c - 63, W - c - 64, W - 125, W - 127, 1 << 40, 1 << 63, rng.getrandbits(64)])}:
            if nb < 0: continue
            a, b = (F(opnd(rng, ul, e, neg)), F(opnd(rng, vl, e, neg)))
            if rng.random() < 0.5: a, b = b, a
            yield "mpf_eq13 %s %s %x" % (a, b, nb)
        # equal values written with different limb counts; truncations (prefixes)
        nb = rng.choice([0, 1, L - 1, L, L + 1, L + 64, 64 * n, 64 * n + 1, 64 * n - 1, rng.randrange(0, L + 200), (1 << 24), W - 1, W - 124, rng.getrandbits(64)])
        yield "mpf_eq13 %s %s %x" % (F(opnd(rng, ul, e, neg)), F(opnd(rng, [0] * rng.randrange(1, 3) + ul, e, neg)), nb)
        if n > 1:
            cut = rng.randrange(1, n)
            yield "mpf_eq13 %s %s %x" % (F(opnd(rng, ul, e, neg)), F(opnd(rng, ul[cut:], e, neg)), rng.choice([64 * (n - cut) - c, 64 * (n - cut) - c + 1, 64 * (n - cut) - c + 64, nb]))
        # different leading-bit position, exponent, sign; zeros
        wl = list(ul); wl[-1] = (wl[-1] >> 1) or 1
        yield "mpf_eq13 %s %s %x" % (F(opnd(rng, ul, e, neg)), F(opnd(rng, wl, e, neg)), rng.choice([0, 1, nb]))
        yield "mpf_eq13 %s %s %x" % (F(opnd(rng, ul, e, neg)), F(opnd(rng, ul, e + rng.choice([1, -1]), neg)), rng.choice([0, 1, nb]))
        yield "mpf_eq13 %s %s %x" % (F(opnd(rng, ul, e, neg)), F(opnd(rng, ul, e, not neg)), rng.choice([0, 1, nb]))
        z = (2, False, 0, [])
        yield "mpf_eq13 %s %s %x" % (F(opnd(rng, ul, e, neg)), F(z), rng.choice([0, nb]))
        yield "mpf_eq13 %s %s %x" % (F(z), F(opnd(rng, ul, e, neg)), rng.choice([0, nb]))
    yield "mpf_eq13 %s %s 0" % (fs(2, False, 0, []), fs(3, False, 0, []))
    yield "mpf_eq13 %s %s %x" % (fs(2, False, 0, []), fs(3, False, 0, []), W - 1)
    yield "mpf_eq13 %s %s %x" % (fs(2, False, 1, [5]), fs(2, False, 1, [7]), W - 1)     # the reported finding: answers 1
    yield "mpf_eq13 %s %s 2" % (fs(2, False, 1, [5]), fs(2, False, 1, [7]))

def gen_reldiff(rng, tier):
    reps = 50 if tier == "quick" else 400
    for rprec in PRECS + [rng.randrange(6, 14)]:
        z = (2, False, 0, [])
        for _ in range(reps):
            x = base.rand_opnd(rng, rprec, exp=rng.choice([0, 1, -2, 5, rng.randrange(-(1 << 40), 1 << 40)]))
            kind = rng.randrange(11)
            if kind == 0:   y = base.rand_opnd(rng, rprec, exp=x[2] + rng.choice([0, 0, 1, -1, 2, -40]))
            elif kind == 1: y = base.rand_opnd(rng, rprec, exp=x[2], neg=x[1])
            elif kind == 2:                                                  # one bit apart (cancellation in the mpf_sub)
                l = list(x[3]); i = rng.randrange(len(l)); l[i] ^= 1 << rng.randrange(64)
                y = (rng.choice(PRECS), x[1], x[2], l if l[-1] else list(x[3]))
            elif kind == 3: y = (rng.choice(PRECS), x[1], x[2], [0] * rng.randrange(0, 3) + list(x[3]))      # equal values
            elif kind == 4: y = (rng.choice(PRECS), x[1], x[2], list(x[3])[rng.randrange(len(x[3])):])          # prefix of x
            elif kind == 5: y = (rng.choice(PRECS), x[1], x[2], base.tail(rng, rng.randrange(1, 4)) + list(x[3]))   # x is a prefix of y
            elif kind == 6: y = (rng.choice(PRECS), not x[1], x[2], list(x[3]))                                 # y = -x: result 2
            elif kind in (7, 8, 9):                                          # the difference needs all prec+|x|+1 limbs of the temporary
                x = (x[0], x[1], x[2], base.limbs_nz(rng, rng.choice([1, 1, 2, 3])))
                ny = rprec + len(x[3]) + rng.choice([0, 1, 2, 3])
                y = (rng.choice(PRECS), rng.choice([x[1], x[1], not x[1]]), x[2] - rng.choice([0, 0, 1, 1, 2, rprec]), base.limbs_nz(rng, ny))
            else:           y = z
            mode = rng.choice([0, 0, 0, 1, 2, 3, 4])
            yield "mpf_reldiff %x %x %s %s" % (rprec, mode, F(x), F(y))
            if rng.random() < 0.3: yield "mpf_reldiff %x %x %s %s" % (rprec, rng.choice([0, 1, 2]), F(y), F(x))
        for m in (0, 1, 2, 3, 4):
            yield "mpf_reldiff %x %x %s %s" % (rprec, m, F(z), F(z))
        x = base.rand_opnd(rng, rprec)
        yield "mpf_reldiff %x 0 %s %s" % (rprec, F(z), F(x)); yield "mpf_reldiff %x 2 %s %s" % (rprec, F(z), F(x))
        yield "mpf_reldiff %x 1 %s %s" % (rprec, F(x), F(z))

def gen_ops(rng, tier, ctx=None):
    yield from gen_cmp(rng, tier)
    yield from gen_eq(rng, tier)
    yield from gen_reldiff(rng, tier)

PINS = [("mpf/cmp.c", None), ("mpf/eq.c", None), ("mpf/reldiff.c", None), ("mpir.h", "mpf_sgn")]
