"""C03 — add, subtract, negate, shift, copy: exact limb-vector functions."""
from genlib import *
LEVEL = "proof"
ASAN = True      # also run the op stream on an AddressSanitizer build (read/write footprint of the kernels)
LEAN_MODULES = ["MpirProofs.Props.C03"]
THEOREMS = ["Mpir.add_n_val", "Mpir.sub_n_val", "Mpir.add_1_val", "Mpir.sub_1_val", "Mpir.add_val", "Mpir.sub_val",
            "Mpir.neg_n_val", "Mpir.com_n_val", "Mpir.lshift_val", "Mpir.rshift_val", "Mpir.cmp_spec", "Mpir.zero_p_iff"]
TRUSTED = ["hand-written limb-level models lean/Mpir/Model/Kernels.lean (tied by correspondence on every run)",
           "assembly kernels add_err*/sub_err* are not modelled"]
ASSUMPTIONS = ["models mirror mpn/generic/{add_n,sub_n,lshift,rshift,com_n}.c and the mpir.h inline macros limb for limb; the tie is differential, not a translation"]
RULE = "sizes 1..70 exhaustively then log-spaced to 5000 limbs; data classes uniform/runs/ones/zero/onebit/...; carry chains stopping at every position; shifts 1..63; all permitted overlaps; distinct = distinct op lines"

def chain(rng, n, stop):
    """u,v such that a carry generated at limb 0 propagates exactly to limb `stop`"""
    u = [M] * n; v = [0] * n; v[0] = 1
    if stop < n: u[stop] = rng.getrandbits(63)
    return u, v

def gen_ops(rng, tier, ctx=None):
    reps = 3 if tier == "quick" else 10
    for n in sizes(rng, tier):
        for _ in range(reps if n <= 70 else 1):
            u, v = rand_limbs(rng, n), rand_limbs(rng, n)
            yield "mpn_add_n %s %s" % (vec(u), vec(v))
            yield "mpn_sub_n %s %s" % (vec(u), vec(v))
            yield "mpn_add_n_ov %x %s %s" % (rng.choice([1, 2]), vec(u), vec(v))
            yield "mpn_sub_n_ov %x %s %s" % (rng.choice([1, 2]), vec(u), vec(v))
            yield "mpn_add_n_ov 3 %s %s" % (vec(u), vec(u))
            yield "mpn_sub_n_ov 3 %s %s" % (vec(u), vec(u))
            yield "mpn_cmp %s %s" % (vec(u), vec(v))
            w = list(u); 
            if rng.random() < 0.5: w[rng.randrange(n)] ^= 1 << rng.randrange(64)
            yield "mpn_cmp %s %s" % (vec(u), vec(w))
            yield "mpn_zero_p %s" % vec(rand_limbs(rng, n, rng.choice(["zero", "onebit", "top", "lowbit"])))
            x = rand_limb(rng)
            ip = rng.choice(["", "_ip"])
            yield "mpn_add_1%s %s %x" % (ip, vec(u), x)
            yield "mpn_sub_1%s %s %x" % (ip, vec(u), x)
            m = rng.randrange(0, n + 1)
            y = rand_limbs(rng, m) if m else []
            yield "mpn_add%s %s %s" % (ip, vec(u), vec(y))
            yield "mpn_sub%s %s %s" % (ip, vec(u), vec(y))
            yield "mpn_neg%s %s" % (rng.choice(["", "_ip"]), vec(u))
            z = rng.randrange(0, n + 1)
            yield "mpn_neg %s" % vec([0] * z + rand_limbs(rng, n - z, "uniform"))
            yield "mpn_com %s" % vec(u)
            c = rng.randrange(1, 64)
            yield "mpn_lshift %s %x" % (vec(u), c)
            yield "mpn_rshift %s %x" % (vec(u), c)
            k = rng.choice([0, 0, 1, 2, 3, n, n + 1])
            yield "mpn_lshift %s %x %s" % (vec(u), c, hx(k))
            yield "mpn_rshift %s %x %s" % (vec(u), c, hx(-k))
            yield "mpn_copyi %s %s" % (vec(u), hx(-k))
            yield "mpn_copyd %s %s" % (vec(u), hx(k))
            yield "mpn_copyi %s" % vec(u)
        yield "mpn_zero %x" % n
        # carry / borrow chains stopping at each position (all for small n, sampled for large)
        stops = range(n + 1) if n <= 24 else [0, 1, n // 2, n - 1, n]
        for st in stops:
            u, v = chain(rng, n, st)
            yield "mpn_add_n %s %s" % (vec(u), vec(v))
            yield "mpn_add_1 %s 1" % vec(u)
            yield "mpn_add %s [1]" % vec(u)
            z = [0] * n
            if st < n: z[st] = 1 + rng.getrandbits(62)
            yield "mpn_sub_n %s %s" % (vec(z), vec(v))
            yield "mpn_sub_1 %s 1" % vec(z)
            yield "mpn_sub %s [1]" % vec(z)
    for c in range(1, 64):
        for n in (1, 2, 3, 9):
            u = rand_limbs(rng, n, rng.choice(["uniform", "ones", "runs"]))
            yield "mpn_lshift %s %x" % (vec(u), c)
            yield "mpn_rshift %s %x" % (vec(u), c)

def nontrivial(line):
    return line if "," in line else None

LEVEL_TEXT = ("Kernel-checked Lean theorems state, for every length and limb content, that the limb-for-limb models of the mpn kernels "
              "compute the exact vector function (value identity, carry range, limb bounds, length); the models are run against the rebuilt "
              "library on every check over all sizes 1..70, carry chains stopping at every position, all shift counts and all permitted overlaps.")
LEVEL_NOTE = ("Trusted: Lean kernel; the hand-written models are tied to the C by differential execution, not by translation; "
              "the mpz layer has its own value-level theorems (part c03_mpz); overlap behaviour is proved on memory-level models (part c03_overlap), "
              "which are again tied differentially.")

PINS = [("mpn/generic/add_n.c", "mpn_add_n"), ("mpn/generic/sub_n.c", "mpn_sub_n"), ("mpn/generic/lshift.c", "mpn_lshift"), ("mpn/generic/rshift.c", "mpn_rshift"),
        ("mpn/generic/com_n.c", "mpn_com_n"), ("mpir.h", "mpn_neg_n"), ("mpir.h", "__GMPN_AORS_1"), ("mpir.h", "__GMPN_AORS"), ("mpir.h", "__GMPN_ADD"), ("mpir.h", "__GMPN_SUB"),
        ("mpir.h", "__GMPN_CMP"), ("mpir.h", "__GMPN_ADDCB"), ("mpir.h", "__GMPN_SUBCB"), ("mpn/generic/copyi.c", None), ("mpn/generic/copyd.c", None), ("mpn/generic/zero.c", None)]
