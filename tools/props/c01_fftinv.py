"""C01 (part: the matrix Fourier multiplication) — mpir_fft_mfa_trunc_sqrt2_outer, mpir_fft_mfa_trunc_sqrt2_inner,
mpir_ifft_mfa_trunc_sqrt2_outer and mpn_mul_mfa_trunc_sqrt2 as a whole (the path every multiplication above ~32.6 K limbs takes),
plus the inverse twiddled column transforms and both paths of mpn_mul_fft_main.  Value-level models in lean/Mpir/Model/FftMfa.lean
(conventions of Model/FftX.lean); the theorems say: the inverse twiddled column transform undoes the forward one up to the factor 2n,
its truncated version recovers the coefficients, outer -> inner -> inverse outer is the acyclic convolution, and therefore
split -> ... -> combine = the product for every parameter record mpn_mul_fft_main can choose."""
import os, sys
sys.path.insert(0, os.path.dirname(os.path.dirname(os.path.abspath(__file__))))
from genlib import *

LEAN_MODULES = ["MpirProofs.Props.C01_fftinv"]
THEOREMS = ["Mpir.FftX.ifft_radix2_twiddle_inverts", "Mpir.FftX.ifft_trunc1_twiddle_recovers", "Mpir.FftX.ifft_mfa_trunc_sqrt2_inverts", "Mpir.FftX.ifft_mfa_outer_recovers",
            "Mpir.FftX.mfa_convolution_chain", "Mpir.FftX.mul_mfa_trunc_sqrt2_val", "Mpir.FftX.mul_fft_main_val"]
PINS = [("fft/fft_mfa_trunc_sqrt2.c", "mpir_fft_mfa_trunc_sqrt2_outer"),
        ("fft/fft_mfa_trunc_sqrt2_inner.c", "mpir_fft_mfa_trunc_sqrt2_inner"),
        ("fft/ifft_mfa_trunc_sqrt2.c", "mpir_ifft_mfa_trunc_sqrt2_outer"),
        ("fft/mul_mfa_trunc_sqrt2.c", "mpn_mul_mfa_trunc_sqrt2"),
        ("fft/mul_fft_main.c", "mpn_mul_fft_main")]
TRUSTED = ["hand-written value-level models of the outer/inner/inverse-outer passes and of mpn_mul_mfa_trunc_sqrt2 in lean/Mpir/Model/FftMfa.lean "
           "(run against the library on every check: whole coefficient array on canonical residues, whole product)"]
ASSUMPTIONS = ["mul_mfa_trunc_sqrt2_val is about the model whose pointwise product is mpn_mulmod_Bexpp1 in its branch limbs <= FFT_MULMOD_2EXPP1_CUTOFF "
               "(limb-level model Fft.mulmod_Bexpp1 with mpn_mul_n exact); for coefficient sizes above the cutoff (depth 12 with w = 3 and larger) the C "
               "enters mpir_fft_mulmod_2expp1, which is not modelled (run only: op mpn_mul_mfa_trunc_sqrt2 of part c01_algo against the product)",
               "the driver executes the MFA multiplication model at depth 2..7 only (exact integers, list-indexed matrices); at the depths "
               "mpn_mul_fft_main really uses (>= 10) the C is compared with the product, not with the model",
               "the transform theorems are about the value-level models; limb level per primitive only (part c01_fftring)"]
RULE = ("outer / inverse outer passes: every n1 = 2..n and every trunc multiple of 2*n1, w even at depth 1..4 and w odd (real sqrt2 butterflies) at depth 6; inner pass with two "
        "different arrays and with jj = ii (squaring), entries zero, one, -1, 2^(nw) (top limb 1: the negation branches of mpn_mulmod_Bexpp1), all-ones, uniform, top limbs +-1, +-2; "
        "mpn_mul_mfa_trunc_sqrt2 at depth 2..7 (even and odd depth: sqrt = 2^(depth/2)), operands filling j1+j2-1 = 4n, just above 2n, below 2n (trunc raised to 2n+1 and rounded "
        "up to a multiple of 2*sqrt), all-ones operands, same pointer and length (squaring path); mpn_mul_fft_main on sizes around every (depth, w) step of its first loop below 1000 limbs")

def tc(v): return v % B

def residue(rng, limbs, kind=None):
    kind = kind or rng.choice(["zero", "one", "m1", "pm1", "ones", "uniform", "uniform", "runs", "top"])
    if kind == "zero": return [0] * (limbs + 1)
    if kind == "one": return [1] + [0] * limbs
    if kind == "m1": return [M] * limbs + [tc(-1)]
    if kind == "pm1": return [0] * limbs + [1]
    if kind == "ones": return [M] * limbs + [0]
    if kind == "runs": return rand_limbs(rng, limbs, "runs") + [0]
    if kind == "top": return rand_limbs(rng, limbs, "uniform") + [tc(rng.choice([1, -1, 2, -2]))]
    return rand_limbs(rng, limbs, "uniform") + [0]

def array(rng, cnt, limbs, pattern, trunc=None):
    if pattern == "zero": a = [[0] * (limbs + 1) for _ in range(cnt)]
    elif pattern in ("one", "m1", "pm1", "ones"): a = [residue(rng, limbs, pattern) for _ in range(cnt)]
    elif pattern == "mixed": a = [residue(rng, limbs) for _ in range(cnt)]
    elif pattern == "special": a = [residue(rng, limbs, rng.choice(["zero", "one", "m1", "pm1"])) for _ in range(cnt)]
    else: a = [residue(rng, limbs, "uniform") for _ in range(cnt)]
    if trunc is not None:
        for i in range(trunc, cnt): a[i] = [0] * (limbs + 1)
    return [x for r in a for x in r]

def gen_ops(rng, tier, ctx=None):
    thorough = tier != "quick"
    rep = 3 if thorough else 1
    # ---- the three passes: every n1, every trunc multiple of 2*n1
    cases = [(d, 64 * limbs // (1 << d)) for d in range(1, 5) for limbs in ((1, 2) if not thorough else (1, 2, 3))] + [(6, 1)] + ([(6, 3), (7, 1)] if thorough else [])
    for d, w in cases:
        n = 1 << d; limbs = n * w // 64
        n1 = 2
        while n1 <= n:
            truncs = list(range(2 * n + 2 * n1, 4 * n + 1, 2 * n1))
            if d >= 6 and len(truncs) > 4: truncs = sorted(set(truncs[:1] + truncs[-1:] + [rng.choice(truncs) for _ in range(2 * rep)]))
            for trunc in truncs:
                for pat in (["mixed", "uniform"] if d < 6 else ["mixed"]):
                    yield "fftx_mfa_outer %x %x %x %x %s" % (d, w, n1, trunc, vec(array(rng, 4 * n, limbs, pat, trunc)))
                    yield "fftx_imfa_outer %x %x %x %x %s" % (d, w, n1, trunc, vec(array(rng, 4 * n, limbs, pat)))
                for pat, same in ([("mixed", 0), ("uniform", 1), ("special", 0), ("special", 1)] if d < 6 else [("mixed", rng.randrange(2))]):
                    yield "fftx_mfa_inner %x %x %x %x %x %s %s" % (d, w, n1, trunc, same, vec(array(rng, 4 * n, limbs, pat)),
                                                                   vec(array(rng, 4 * n, limbs, "zero" if same else pat)))
            n1 *= 2
    # ---- the whole multiplication through the three passes
    def mulcases(depth, w):
        n = 1 << depth; bits1 = (n * w - (depth + 1)) // 2
        tot = 4 * n * bits1 // 64
        out = []
        for (n1, n2) in [(tot // 2, tot - tot // 2), (tot - 1, 1), (1, 1), (max(tot // 4, 1), max(tot // 4, 1)), (max(tot // 4 + 1, 1), max(tot // 4, 1)),
                         (max(tot * 3 // 8, 1), max(tot * 3 // 8, 1)), (rng.randrange(1, tot), 0), (rng.randrange(1, tot), 0)]:
            if n2 == 0: n2 = rng.randrange(1, max(tot - n1, 1) + 1)
            j1 = (64 * n1 - 1) // bits1 + 1; j2 = (64 * n2 - 1) // bits1 + 1
            while j1 + j2 - 1 > 4 * n and n1 + n2 > 2:
                if n1 >= n2: n1 -= 1
                else: n2 -= 1
                j1 = (64 * n1 - 1) // bits1 + 1; j2 = (64 * n2 - 1) // bits1 + 1
            if j1 + j2 - 1 <= 4 * n and n1 >= 1 and n2 >= 1: out.append((n1, n2))
        return out
    for depth, w in [(2, 16), (2, 32), (3, 8), (3, 16), (4, 4), (4, 8), (4, 12), (5, 2), (5, 4), (6, 1), (6, 2), (6, 3)] + ([(5, 6), (7, 1), (7, 2)] if thorough else [(7, 1)]):
        for n1, n2 in mulcases(depth, w):
            for cls in (["ones", "uniform", "runs"] if depth <= 5 else ["ones", "uniform"] if depth == 6 else ["runs"]):
                u, v = rand_limbs(rng, n1, cls), rand_limbs(rng, n2, cls)
                yield "fftx_mul_mfa 0 %x %x %s %s" % (depth, w, vec(u), vec(v))
            if n1 == n2:
                u = rand_limbs(rng, n1, rng.choice(["ones", "uniform", "runs"]))
                yield "fftx_mul_mfa 1 %x %x %s %s" % (depth, w, vec(u), vec(u))
    # ---- mpn_mul_fft_main: the parameter choice followed by the selected multiplier (non-MFA at these sizes)
    tots = sorted(set([57, 58, 60, 64, 100, 128, 200, 256, 300] + [rng.randrange(57, 400) for _ in range(3 * rep)] + ([500, 700, 1000] if thorough else [])))
    for tot in tots:
        for n1 in sorted({tot // 2, max(tot - 3, 1), rng.randrange(1, tot)}):
            n2 = tot - n1
            if n2 < 1: continue
            j1 = (64 * n1 - 1) // 28 + 1; j2 = (64 * n2 - 1) // 28 + 1
            if j1 + j2 - 1 <= 128: continue
            cls = rng.choice(["ones", "uniform", "runs"])
            yield "fftx_mul_fft_main %s %s" % (vec(rand_limbs(rng, n1, cls)), vec(rand_limbs(rng, n2, cls)))

def nontrivial(line):
    op = line.split(" ", 1)[0]
    if not op.startswith("fftx_"): return None
    return line
