"""C04 part allocsafe3 (second continuation of c04_allocsafe / c04_allocsafe2): `mpz_ior_alloc_safe` in full (the -- and +-
cases of mpz/ior.c: blocks of MIN (sizes) / |op2| limbs cover the carry store after `mpn_add_1 (.., 1)`), size-aware models of
mpz/setbit.c, clrbit.c, combit.c (in place through the pointer `dp` taken on entry: negative operands with the borrow / carry
running past the top limb, bit index beyond the size, `dp = _mpz_realloc (d, limb_index + 1)` / `(d, dsize)`, MPZ_REALLOC (d, dsize + 1))
in lean/Mpir/Model/AllocSafeMpz3.lean with `<fn>_alloc_safe` theorems for all heaps, allocations and bit indices.  Ops `as3_*`
(harness/ops_allocsafe3.c) run the real function on objects of the GIVEN allocations and compare ALLOC(w), SIZ(w) and the value
with the model's run.  mpz/cfdiv_q_2exp.c (mpz_cdiv_q_2exp / mpz_fdiv_q_2exp) is mirrored and tied by ops in both alias modes; only its
rounding tail has a theorem (`roundTail_spec`), the function-level statement stays differential."""
from genlib import *

LEAN_MODULES = ["MpirProofs.Props.C04_allocsafe3"]
THEOREMS = ["Mpir.AllocSafe." + t for t in (
    "mpz_ior_alloc_safe", "mpz_setbit_alloc_safe", "mpz_clrbit_alloc_safe", "mpz_combit_alloc_safe",
    "ior_refines", "ior_nn_refines", "ior_pn_refines", "Wrote.addOne'",
    "setbit_refines", "clrbit_refines", "combit_refines", "combit_body_spec", "extendTail_spec", "clearTail_spec", "carryTail_spec",
    "Wrote.realloc", "MPZ_REALLOC_grown'", "roundTail_spec")]
TRUSTED = ["hand-written size-aware models lean/Mpir/Model/AllocSafeMpz3.lean (mpz/setbit.c, clrbit.c, combit.c on the memory model of "
           "AllocSafe.lean; the limb loops are kernels over an explicit index range applied to the limbs read), tied by exact comparison of "
           "ALLOC(w), SIZ(w), value, and by source pins"]
ASSUMPTIONS = ["mpz/combit.c:77 passes `dsize + limb_index` as the length of mpn_sub_1 (dp + limb_index, ..): the inline __GMPN_SUB_1 of mpir.h "
               "stops at the limb that absorbs the borrow and copies nothing when source and destination are the same pointer, so only limbs "
               "below dsize are touched; the model uses the touched length dsize - limb_index (a non-inline mpn_sub_1 would run past the block)",
               "the unbounded loops `for (zero_bound = 0; ; zero_bound++)` (setbit.c:65, clrbit.c:67) and mpn_decr_u (setbit.c:113) are checked "
               "as reads/writes of the range they touch on a non-zero operand"]
RULE = ("allocsafe3: setbit/clrbit/combit on both signs with the bit index below / at / above the lowest non-zero limb, in the top limb (top limb "
        "becomes zero, several zero limbs below it), one and many limbs beyond the size, d = -(B^k - 2^m) with bit m (carry out of the top limb) "
        "and -(B^k) (borrow through all limbs), allocation exact / +1 / generous")

PINS = [("mpz/setbit.c", None), ("mpz/clrbit.c", None), ("mpz/combit.c", None), ("mpz/cfdiv_q_2exp.c", None)]

def nl(x): return (abs(x).bit_length() + 63) // 64

def obj(rng, v, extra=None):
    n = max(nl(v), 1)
    return "%x %s" % (rng.choice([n, n, n, n + 1, n + (extra if extra is not None else rng.randrange(0, 4))]), hx(v))

def bitcase(rng):
    """(value, bit index) pairs that construct the rare branches on purpose"""
    k = rng.randrange(1, 5); m = rng.randrange(0, 64 * k); c = rng.randrange(16)
    z = rng.randrange(0, k)                       # number of low zero limbs
    hi = rng.getrandbits(64 * (k - z)) | 1 if k > z else 1
    if c == 0: return -(B ** k - (1 << m)), m                                # clrbit/combit: carry out of the top limb
    if c == 1: return -(B ** k), rng.randrange(0, 64 * k + 70)               # borrow through all limbs / at zero_bound
    if c == 2: return (1 << m), m                                            # clear the only bit
    if c == 3: return (1 << (64 * k - 1 - rng.randrange(64))) + rng.getrandbits(64 * max(k - 2, 0) or 1) % B ** max(k - 2, 0), None
    if c == 4: v = hi << (64 * z); return -v, rng.randrange(0, 64 * k + 64)  # negative with low zero limbs, any index
    if c == 5: v = hi << (64 * z); return -v, 64 * z + rng.randrange(64)     # at zero_bound
    if c == 6: v = hi << (64 * z); return -v, (64 * z + (v >> (64 * z) & -(v >> (64 * z))).bit_length() - 1)   # lowest set bit
    if c == 7: v = rng.getrandbits(64 * k) | (1 << (64 * k - 1)); return v * rng.choice([1, -1]), 64 * k + rng.choice([0, 1, 63, 64, 65, 64 * rng.randrange(1, 6) + rng.randrange(64)])
    if c == 8: return 0, rng.choice([0, 63, 64, 200])
    if c == 9: return -(((1 << m) | (1 << (64 * k - 1)))), 64 * k - 1         # setbit in the top limb of a negative: top limb clears
    if c == 10: return -((1 << (64 * k - 1)) + (1 << rng.randrange(0, 64))) if k > 2 else -(B ** k - 1), 64 * k - 1
    if c == 11: return (B ** k - 1) * rng.choice([1, -1]), rng.randrange(0, 64 * k + 2)
    if c == 12: return -(B ** k - B ** z) if k > z else -1, rng.randrange(0, 64 * k + 2)   # -(ones above z zero limbs): carries
    if c == 13: return -((hi << (64 * z)) | (B ** k - B ** (z + 1) if k > z + 1 else 0)), 64 * z + rng.randrange(64)
    v = rand_int(rng, 5)
    return v, rng.randrange(0, 64 * (nl(v) + 2))

def gen_ops(rng, tier, ctx=None):
    n = 500 if tier == "quick" else 8000
    for _ in range(n):
        for name in ("as3_setbit", "as3_clrbit", "as3_combit"):
            v, i = bitcase(rng)
            if i is None: i = abs(v).bit_length() - 1
            yield "%s %s %x" % (name, obj(rng, v), max(i, 0))
        yield gen_shift(rng, "as3_cdiv_q_2exp")
        yield gen_shift(rng, "as3_fdiv_q_2exp")

def wobj(rng, need):
    v = rng.choice([0, 0, rand_int(rng, 3), (B ** rng.randrange(1, 4) - 1) * rng.choice([1, -1])])
    n = max(nl(v), 1)
    return "%x %s" % (max(n, rng.choice([1, max(1, need - 1), need, need + 1, need + 3])), hx(v))

def shiftcase(rng):
    """(u, cnt): quotients that round up into a new top limb, low limbs zero / non-zero, cnt at limb boundaries, u < 2^cnt"""
    k = rng.randrange(1, 5); c = rng.randrange(10); sg = rng.choice([1, -1])
    if c == 0: return sg * (B ** k - 1), rng.choice([1, 63, 64, 65, 64 * (k - 1), 64 * (k - 1) + 1, 64 * k - 1, 64 * k, 64 * k + 5])
    if c == 1: return sg * (B ** k - 1), rng.randrange(0, 64 * k + 2)
    if c == 2: j = rng.randrange(0, k + 1); return sg * (B ** k - B ** j), 64 * rng.randrange(0, k + 1) + rng.choice([0, 0, 1, 63])   # low limbs zero: no rounding
    if c == 3: j = rng.randrange(0, k); return sg * (B ** k - B ** j + 1), 64 * j + rng.choice([0, 1, 63])      # only limb 0 non-zero below
    if c == 4: return sg * B ** k, rng.randrange(0, 64 * k + 66)
    if c == 5: return sg * (B ** k + 1), rng.randrange(0, 64 * k + 66)
    if c == 6: return 0, rng.randrange(0, 200)
    if c == 7: m = rng.randrange(1, 64 * k); return sg * ((B ** k - 1) >> m << m), m + rng.choice([0, -1, 1]) if m > 1 else m
    u = rand_int(rng, 5)
    return u, rng.randrange(0, 64 * (nl(u) + 1) + 2)

def gen_shift(rng, name):
    u, cnt = shiftcase(rng)
    need = max(nl(u) - cnt // 64, 0) + 1
    return "%s %x %s %s %x" % (name, rng.randrange(2), wobj(rng, need), obj(rng, u), max(cnt, 0))

def nontrivial(line):
    return line if line.startswith("as3_") else None
