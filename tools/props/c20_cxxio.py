"""C20 (part) — stream I/O of the C++ interface: `operator>>` / `operator<<` for mpz_class, mpq_class, mpf_class.
Theorems on lean/Mpir/Model/CxxIo.lean (a statement-by-statement mirror of cxx/is*.cc, os*.cc over a model of
std::istringstream / std::ostringstream).  Tie: the op lines `cxx_io_*` are executed by a C++ interpreter
(tools/cxxio_driver.cc, compiled against mpirxx.h and the cxx/*.cc objects of the tree under test) and by the Lean driver
(lean/Mpir/Ops/CxxIo.lean); text written, value read, state bits, stream position and next character are compared verbatim.
The I/O statements of the generated programs of c20_cxx.py (tools/cxxgen.py io_program) print the same op lines, which
c20_cxx.extra passes to the Lean driver as well."""
import os, random, hashlib, glob, collections, time
import vlib
from vlib import log
from genlib import hx, vec, sbytes, limbs_of, B

LEAN_MODULES = ["MpirProofs.Props.C20_io"]
THEOREMS = ["Mpir.CxxIo.insertZ_layout", "Mpir.CxxIo.insertQ_layout", "Mpir.CxxIo.insert_width_reset",
            "Mpir.CxxIo.extractZ_spec", "Mpir.CxxIo.extractZ_props", "Mpir.CxxIo.extractZ_not_good", "Mpir.CxxIo.extractQ_spec", "Mpir.CxxIo.roundtripZ_partial"]
PINS = [("cxx/isfuns.cc", None), ("cxx/ismpz.cc", None), ("cxx/ismpznw.cc", None), ("cxx/ismpq.cc", None), ("cxx/ismpf.cc", None),
        ("cxx/osfuns.cc", None), ("cxx/osdoprnti.cc", None), ("cxx/osmpz.cc", None), ("cxx/osmpq.cc", None), ("cxx/osmpf.cc", None)]
TRUSTED = ["lean/Mpir/Model/CxxIo.lean `IStream.get/putback/clear`, `OStream.write`: the meaning of std::istream::get(char&), putback, clear, setstate, operator!, good(), eof() and "
           "std::ostream::write/width/fill/precision/flags on string streams as implemented by libstdc++ 12 (sentry of an unformatted input function sets failbit on a stream that is not good(); "
           "end of input sets eofbit|failbit and leaves the character; ostream::sentry writes nothing unless good()); validated on every run by the cxx_io_* ops (entry states with eofbit/failbit/badbit included)",
           "tools/cxxio_driver.cc: C++ interpreter of the cxx_io_* op lines (hand-written hex parser/printer over the C structs)",
           "locale \"C\": decimal point '.', std::isspace = space, \\t \\n \\v \\f \\r"]
ASSUMPTIONS = ["the cxx_io_out_f ops model operator<< for mpf_class through Printf.doprntMpf (decimal streams, mantissas of at most two limbs, as for C18's %F); every base and every "
               "mantissa length is covered by cxx_io_out_fg of part c20_cxxio2 (Model/CxxIo2.lean `insertFG` on the bit-exact MpfStr.get_str)",
               "the value stored by operator>> is mpz_set_str / mpf_set_str of the collected string (Scanf.setStr, MpfStr.set_str: properties C18/C13)"]
RULE = ("cxx_io_* op lines: operator>> on [white space][sign][0/0x prefix][digits][delimiter][tail] for every body class (empty, 0, 0x alone, 08, hex letters, long), every delimiter kind "
        "(end, space, newline, comma, letters, '/', '/den' with sign / prefix / zero / missing), every basefield setting (dec, oct, hex, none, two and three bits), skipws on/off, entry states "
        "good/eof/fail/bad, for mpz, mpq and (decimal point, exponent forms) mpf; operator<< for every basefield setting x showbase x showpos x uppercase x adjustfield (none, left, right, internal, "
        "two bits) x width (0, narrow, wide, negative) x fill x value classes (0, +-small, 2^64, 10^30, random; mpq: denominators 1, small, with octal/hex prefixes, negative, non-canonical), "
        "mpf: floatfield x showpoint x precision x width; corpus/C20/cxxio/*.ops first")

F_DEC, F_OCT, F_HEX, F_SHOWBASE, F_SHOWPOS, F_UPPER, F_LEFT, F_RIGHT, F_INTERNAL, F_FIXED, F_SCI, F_SHOWPOINT, F_SKIPWS = [1 << i for i in range(13)]
BASEFIELDS = [F_DEC, F_OCT, F_HEX, 0, F_DEC | F_HEX, F_OCT | F_HEX, F_DEC | F_OCT, F_DEC | F_OCT | F_HEX]
ADJUSTS = [0, F_LEFT, F_RIGHT, F_INTERNAL, F_LEFT | F_RIGHT, F_INTERNAL | F_LEFT, F_LEFT | F_RIGHT | F_INTERNAL]
SENT = 0x7e57

def fval(m, e2):
    """tokens `exp size [limbs]` of the mpf with value m * 2^e2"""
    neg = m < 0; m = abs(m)
    if m == 0: return "0 0 []"
    sh = e2 % 64; m <<= sh; e2 -= sh
    while m % B == 0: m >>= 64; e2 += 64
    l = limbs_of(m); n = len(l)
    return "%s %s %s" % (hx(e2 // 64 + n), hx(-n if neg else n), vec(l))

WS = ["", " ", "\t\n ", "  \r\v\f"]
SIGNS = ["", "-", "+"]
BODIES = ["", "0", "7", "123", "08", "09", "0x", "0X", "0X1f", "0x1F", "0xabcdefABCDEF0123456789", "017", "0777", "ff", "FF", "9a", "78", "00", "007", "0xg", "0x0", "0x00", "0b1",
          "123456789012345678901234567890", "18446744073709551616", "ffffffffffffffffffff", "1777777777777777777777", "a", "x10", "X", "0x-1", "0-1", "8", "0x8", "0xx1"]
DELIMS = ["", " ", "\n", ",", ";", ")", "x", "e5", ".", ".5", "g", "z", "-", "+", "-1", "+1", "/", "//", "/3", "/ 3", "/0x10", "/0X1f", "/010", "/-2", "/+5", "/0", "/08", "/0x", "/x", "/-", "/+",
          "/ff", "/12 34", "/3/4", "/0xg", " /3", "\x00", "\x001", "\xff", "\x80"]

def in_line(ty, flags, state, text, rng):
    t = sbytes(text.encode("latin-1"))
    if ty == "z": return "cxx_io_in_z %x %x %s %x" % (flags, state, t, SENT)
    if ty == "q": return "cxx_io_in_q %x %x %s %x %x" % (flags, state, t, SENT, 7)
    return "cxx_io_in_f %x %x %x %s" % (flags, state, rng.choice([64, 64, 128, 53, 200]), t)

def gen_in(rng, tier):
    thorough = tier == "thorough"
    k = 0
    for body in BODIES:
        for delim in DELIMS:
            for bf in BASEFIELDS:
                k += 1
                if not thorough and bf not in (F_DEC, F_OCT, F_HEX, 0) and k % 7: continue
                combos = [(ws, sg, sk) for ws in WS for sg in SIGNS for sk in (0, 1)] if thorough else \
                         [(WS[k % 4] if k % 3 else "", SIGNS[(k // 2) % 3], 0 if k % 5 == 0 else 1)] + ([("", SIGNS[k % 3], 1)] if k % 2 else [])
                for ws, sg, sk in combos:
                    text = ws + sg + body + delim
                    fl = bf | (F_SKIPWS if sk else 0)
                    if thorough or k % 2: yield in_line("z", fl, 0, text, rng)
                    if thorough or (k % 2 == 0) or "/" in delim: yield in_line("q", fl, 0, text, rng)
    # entry states other than good; white space only; white space around the slash
    for st in range(1, 8):
        for text in ["123", "", " 5", "1/2", "0x"]:
            for ty in "zqf":
                yield in_line(ty, F_DEC | F_SKIPWS, st, text, rng)
    for text in ["", " ", "   ", "\n\n", " \t", "- 1", "+ 1", "-+1", "--1", "+-1", "1 /2", "1/ 2", "1/\n2"]:
        for bf in (F_DEC, 0, F_HEX, F_OCT):
            for sk in (0, F_SKIPWS):
                for ty in "zqf": yield in_line(ty, bf | sk, 0, text, rng)
    # random numbers written in each base, with and without prefix
    for _ in range(2000 if thorough else 150):
        v = rng.getrandbits(rng.choice([1, 8, 30, 64, 65, 200])); b = rng.choice([10, 16, 8])
        s = ("%d" if b == 10 else rng.choice(["%x", "%X"]) if b == 16 else "%o") % v
        pre = rng.choice(["", "", "0x" if b == 16 else "0" if b == 8 else ""])
        text = rng.choice(WS) + rng.choice(SIGNS) + pre + s + rng.choice(DELIMS)
        fl = rng.choice(BASEFIELDS[:4]) | rng.choice([F_SKIPWS, F_SKIPWS, 0])
        yield in_line(rng.choice("zq"), fl, 0, text, rng)
    # mpf: [ws][sign][digits][.digits][e[sign]digits][delimiter]
    ints = ["", "0", "1", "12", "007", "123456789012345678901234567890", "9" * 25]
    fracs = [None, "", "5", "25", "000", "0001", "123456789" * 3]
    exps = [None, "e", "E", "e5", "E+5", "e-5", "e+", "e-", "e05", "E12x", "e-0", "e+30", "e-30", "@5", "e 5", "ee5", "e5e5", "e5.5"]
    fdel = ["", " ", ",", "x", ".", "-", "+", "/2", "f", "\n"]
    k = 0
    for ip in ints:
        for fp in fracs:
            for ep in exps:
                k += 1
                if not thorough and (k % 3) and not (ip in ("", "1") and fp in (None, "", "5")): continue
                for j in range(4 if thorough else 1):
                    text = (WS[(k + j) % 4] if k % 2 else "") + SIGNS[(k + j) % 3] + ip + ("" if fp is None else "." + fp) + (ep or "") + fdel[(k + j) % len(fdel)]
                    yield in_line("f", rng.choice(BASEFIELDS[:5]) | (0 if (k + j) % 6 == 0 else F_SKIPWS), 0, text, rng)

ZVALS = [0, 1, -1, 7, 8, -8, 9, 10, 15, 16, -255, 255, 0o777, 1 << 63, -(1 << 63), (1 << 64) - 1, 1 << 64, -(1 << 64) - 1, 10 ** 30, -(10 ** 30) + 1]
WIDTHS = [0, 1, 2, 3, 5, 12, 30, -3]
FILLS = [32, 42, 48, 120, 45, 43, 0, 255]

def out_flags(thorough, rng):
    for bf in BASEFIELDS:
        for sb in (0, F_SHOWBASE):
            for sp in (0, F_SHOWPOS):
                for up in (0, F_UPPER):
                    for adj in ADJUSTS:
                        if not thorough and bf not in (F_DEC, F_OCT, F_HEX) and adj not in (0, F_INTERNAL): continue
                        yield bf | sb | sp | up | adj

def gen_out(rng, tier):
    thorough = tier == "thorough"
    k = 0
    for fl in out_flags(thorough, rng):
        reps = [(w, f) for w in WIDTHS for f in FILLS[:4]] if thorough else [(WIDTHS[(k + j * 3) % len(WIDTHS)], FILLS[(k + j) % 4]) for j in range(3)] + [(12, 42)]
        for w, f in reps:
            k += 1
            vs = [ZVALS[(k + i * 7) % len(ZVALS)] for i in range(3 if thorough else 1)] + [rng.getrandbits(rng.choice([3, 20, 64, 130])) * rng.choice([1, -1])]
            for v in vs:
                yield "cxx_io_out_z %x 0 %s %x %x %s" % (fl, hx(w), f, rng.choice([6, 0, 3]), hx(v))
            n = ZVALS[(k * 3) % len(ZVALS)]; d = [1, 2, 3, 8, 16, 255, 10 ** 20, 1 << 64, 7, 64][k % 10]
            yield "cxx_io_out_q %x 0 %s %x 6 %s %s" % (fl, hx(w), f, hx(n), hx(d))
            if k % 4 == 0: yield "cxx_io_out_q %x 0 %s %x 6 %s %s" % (fl, hx(w), f, hx(rng.getrandbits(70) - (1 << 69)), hx(rng.getrandbits(rng.choice([1, 4, 66])) + 1))
    # non-canonical and odd rationals, odd fills, entry states.  No negative denominators: they are outside the mpq contract and mpq_get_str
    # (mpq/get_str.c:41, `q->_mp_den._mp_size` without ABS) under-allocates its buffer for them — the recording allocator of the driver shows it
    for n, d in [(0, 1), (0, 5), (4, 2), (-4, 2), (1, 0), (0, 0), (5, 1), (8, 8), (1, 8), (-1, 16)]:
        for fl in (F_DEC, F_OCT | F_SHOWBASE, F_HEX | F_SHOWBASE | F_INTERNAL, F_HEX | F_SHOWBASE | F_UPPER | F_SHOWPOS | F_LEFT, F_OCT | F_SHOWBASE | F_INTERNAL | F_SHOWPOS):
            for w in (0, 9): yield "cxx_io_out_q %x 0 %x 2a 6 %s %s" % (fl, w, hx(n), hx(d))
    for st in range(1, 8):
        yield "cxx_io_out_z %x %x 8 2a 6 -ff" % (F_HEX | F_SHOWBASE, st)
        yield "cxx_io_out_q %x %x 8 2a 6 -ff 3" % (F_DEC, st)
        yield "cxx_io_out_f %x %x 8 2a 6 40 %s" % (F_DEC, st, fval(3, -1))
    for f in FILLS:
        for adj in (0, F_LEFT, F_INTERNAL):
            yield "cxx_io_out_z %x 0 9 %x 6 %s" % (F_HEX | F_SHOWBASE | F_SHOWPOS | adj, f, hx(-48879))
            yield "cxx_io_out_z %x 0 9 %x 6 %s" % (F_OCT | F_SHOWBASE | adj, f, hx(0))
    # mpf, decimal
    FV = [(0, 0), (1, 0), (-1, 0), (1, -1), (3, -1), (1, -3), (12345, -3), (-9999, -2), (999999, -1), (1, 10), (1, 64), (1, -64), (10 ** 15, 0), (3, -20), (255, -8),
          (123456789, -30), (10 ** 18 + 1, -5), (1999, -1), (9995, -2), (-99995, -10), (1, -14), (100000, 0), (999999, 0), (1000000, 0), (9999995, -1), (1, 127), (10 ** 19, 0)]
    k = 0
    for ff in (0, F_FIXED, F_SCI, F_FIXED | F_SCI):
        for spt in (0, F_SHOWPOINT):
            for sp in (0, F_SHOWPOS):
                for up in (0, F_UPPER):
                    for prec in (6, 0, 1, 3, 10, 30, -1):
                        for bf in (F_DEC, 0, F_DEC | F_HEX):
                            if bf != F_DEC and prec not in (6, 3): continue
                            k += 1
                            adj = ADJUSTS[k % 4]; w = [0, 20, 28, 3][k % 4]; f = FILLS[k % 3]
                            sb = F_SHOWBASE if k % 5 == 0 else 0
                            vals = FV if thorough else [FV[(k * 5 + i * 11) % len(FV)] for i in range(3)]
                            for (m, e) in vals + [(rng.getrandbits(rng.choice([20, 60, 64, 100])) * rng.choice([1, -1]) | 1, rng.randrange(-140, 70))]:
                                yield "cxx_io_out_f %x 0 %x %x %s %x %s" % (bf | ff | spt | sp | up | adj | sb, w, f, hx(prec), rng.choice([64, 80, 128, 256]), fval(m, e))

def gen_io_ops(rng, tier):
    yield from gen_in(rng, tier)
    yield from gen_out(rng, tier)

def corpus_lines():
    out = []
    for f in sorted(glob.glob(os.path.join(vlib.VERIF, "corpus", "C20", "cxxio", "*.ops"))):
        out += [l.rstrip("\n") for l in open(f) if l.strip() and not l.startswith("#")]
    return out

def get_cxx_driver(build):
    """the C++ interpreter, compiled once per (tree build, source text)"""
    import cxxgen
    src = os.path.join(vlib.VERIF, "tools", "cxxio_driver.cc")
    h = hashlib.sha256(open(src, "rb").read()).hexdigest()[:12]
    exe = os.path.join(build, "cxxobj", "cxxio_driver-" + h)
    if os.path.exists(exe): return exe
    try: objs = cxxgen.cxx_objects(build, vlib.run)
    except cxxgen.CompileError as e: raise vlib.BuildError(str(e))
    tmp = "%s.tmp%d" % (exe, os.getpid())
    rc, out = vlib.run("g++ -O1 -w -I%s %s %s %s/.libs/libmpir.a -o %s && mv %s %s" % (build, src, " ".join(objs), build, tmp, tmp, exe))
    if rc != 0: raise vlib.BuildError("tools/cxxio_driver.cc does not compile against the tree:\n" + out[-3000:])
    return exe

def run_lines(ctx, exe, lines):
    """[(index, line, impl, model)] of the disagreements"""
    rc, impl, err = vlib.run_stream(exe, lines, timeout=1200)
    if len(impl) < len(lines): impl = impl + ["<no output: the C++ program died, rc=%s %s>" % (rc, err.strip()[:200])] + ["<no output>"] * (len(lines) - len(impl) - 1)
    rc2, model, err2 = vlib.run_stream(ctx.driver, ["%s => %s" % (l, a) for l, a in zip(lines, impl)])
    if rc2 != 0 or len(model) != len(lines):
        raise RuntimeError("Lean driver failed on cxx_io lines (rc=%d, %d of %d answers): %s" % (rc2, len(model), len(lines), err2[-1000:]))
    return [(i, l, a, m) for i, (l, a, m) in enumerate(zip(lines, impl, model)) if a != m or a.startswith("?")]

def describe(line):
    w = line.split(" ")
    try:
        if w[0].startswith("cxx_io_in"):
            t = w[4] if w[0].endswith("_f") else w[3]
            return "%s flags=%s state=%s input=%r" % (w[0], w[1], w[2], bytes.fromhex(t[1:]).decode("latin-1"))
        return line
    except Exception: return line

def extra(ctx, cov):
    t0 = time.time()
    exe = get_cxx_driver(ctx.build)
    rp = os.environ.get("C20_IO_REPLAY")
    if rp:
        lines = [l.rstrip("\n") for l in open(rp) if l.strip() and not l.startswith("#")]
        bad = run_lines(ctx, exe, lines)
        for b in bad: print("DISAGREE line %d: %s\n  impl : %s\n  model: %s" % b)
        return [("cxx-io replay %s: %s impl=%s model=%s" % (os.path.basename(rp), describe(bad[0][1]), bad[0][2], bad[0][3]), rp)] if bad else []
    rng = random.Random("C20-cxxio-%d-%s" % (ctx.seed, ctx.tier))
    cl = corpus_lines(); gl = list(gen_io_ops(rng, ctx.tier))
    lines = cl + gl
    bad = run_lines(ctx, exe, lines)
    st = collections.Counter(l.split(" ", 1)[0] for l in lines)
    cov["cxxio_ops"] = dict(st); cov["cxxio_corpus_lines"] = len(cl); cov["cxxio_disagreements"] = len(bad)
    cov["cxxio_distinct"] = len(set(lines)); cov["cxxio_wall_s"] = round(time.time() - t0, 1)
    log("cxxio: %d op lines (%d corpus), %d disagreements, %.0fs" % (len(lines), len(cl), len(bad), time.time() - t0))
    out = []
    seen = set()
    for i, l, a, m in bad:
        key = l.split(" ", 1)[0]
        if key in seen or len(out) >= 4: continue
        seen.add(key)
        d = os.path.join(vlib.VERIF, "replay"); os.makedirs(d, exist_ok=True)
        path = os.path.join(d, "C20-cxxio-%d-%d.ops" % (ctx.seed, len(out) + 1))
        with open(path, "w") as f:
            f.write("# property C20 (stream I/O) seed %d tier %s\n# %s\n# implementation (C++): %s\n# model (Lean):         %s\n# rerun: C20_IO_REPLAY=%s bin/check C20\n%s\n" % (
                ctx.seed, ctx.tier, describe(l), a, m, path, l))
        out.append(("cxx-io: %s impl=%s model=%s" % (describe(l), a, m), path))
    return out
