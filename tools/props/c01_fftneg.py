"""C01 (part: the negacyclic transforms of mpir_fft_mulmod_2expp1) — mpir_fft_negacyclic, mpir_ifft_negacyclic,
mpir_fft_naive_convolution_1 with value-level models (lean/Mpir/Model/FftNeg.lean), and mpn_mulmod_Bexpp1 in its FFT branch
(mpir_fft_mulmod_2expp1, the pointwise product of transforms whose coefficients exceed FFT_MULMOD_2EXPP1_CUTOFF limbs) against its
specification.  Theorems: the forward transform is the radix-2 transform of the weighted vector x_k*(sqrt2)^(k*w) (hence the DFT at the
odd powers of the 4n-th root of unity), the inverse undoes it up to 2n, transform -> pointwise product -> inverse -> scale is the
negacyclic convolution modulo 2^(n*w)+1, the word convolution is the same convolution modulo 2^64, and the two residues determine
the coefficient (the CRT step of mulmod_2expp1.c:127-139)."""
import os, sys
sys.path.insert(0, os.path.dirname(os.path.dirname(os.path.abspath(__file__))))
from genlib import *

LEAN_MODULES = ["MpirProofs.Props.C01_fftneg"]
THEOREMS = ["Mpir.FftX.fft_negacyclic_weighted", "Mpir.FftX.ifft_negacyclic_inverts", "Mpir.FftX.negacyclic_convolution_chain",
            "Mpir.FftX.naive_convolution_1_val", "Mpir.FftX.negacyclic_crt", "Mpir.FftX.negacyclic_sum_is_product", "Mpir.FftX.recombine_corrected"]
PINS = [("fft/fft_negacyclic.c", "mpir_fft_negacyclic"), ("fft/ifft_negacyclic.c", "mpir_ifft_negacyclic"),
        ("fft/mulmod_2expp1.c", "mpir_fft_naive_convolution_1"), ("fft/mulmod_2expp1.c", "mpir_fft_mulmod_2expp1")]
TRUSTED = ["hand-written value-level models of mpir_(i)fft_negacyclic and the limb-level model of mpir_fft_naive_convolution_1 in lean/Mpir/Model/FftNeg.lean "
           "(run against the library on every check)"]
ASSUMPTIONS = ["mpir_fft_mulmod_2expp1 as a whole has a value-level model (lean/Mpir/Model/FftMulmod.lean, op fftx_fft_mulmod_2expp1 with explicit depth, w; r1 as a number "
               "modulo B^(r_limbs+1)) that is RUN against the C, and is also compared with the specification through mpn_mulmod_Bexpp1 (op fftx_mulmod_Bexpp1_fft); the "
               "theorem 'model = product modulo B^r_limbs+1' is NOT proved as a whole: proved are its ingredients — the transforms, the convolution theorem modulo "
               "2^(nw)+1, the word convolution modulo 2^64, the recombination of the two residues (negacyclic_crt) and the sign correction of one coefficient "
               "(recombine_corrected); missing: the fold over the coefficients (assembly modulo B^(r_limbs+1)), the wrap-around of the last coefficient and the "
               "size bound |sum| < B^(r_limbs+1)/2"]
RULE = ("negacyclic transforms: depth 1..5 with w even (limbs 1, 2) and depth 6 with w = 1, 3 (sqrt2 weights), arrays zero / one / -1 / 2^(nw) / all-ones / uniform / "
        "top limbs +-1, +-2; mpir_fft_mulmod_2expp1 with explicit parameters at depth 1..5 (6 thorough), limb_add 1, 2 (3), operands 0, 1, B^R-1, B^R-2, single top limb, "
        "low block only, single non-zero coefficients X^k times X^(2n-1) (every sign pattern of the negacyclic sums: negative with overflow word, negative with sign bit, zero), "
        "uniform, runs, sparse, same pointer; word convolution: every m = 1..20 with limbs 0, 1, 2^63, 2^64-1, uniform; mpn_mulmod_Bexpp1 through mpir_fft_mulmod_2expp1 at "
        "limbs = 256, 512 (1024, 2048 thorough), operands 0, 1, B^limbs - 1 (= -2), all-ones, uniform, runs, same pointer")

def tc(v): return v % B

def residue(rng, limbs, kind=None):
    kind = kind or rng.choice(["zero", "one", "m1", "pm1", "ones", "uniform", "uniform", "runs", "top"])
    if kind == "zero": return [0] * (limbs + 1)
    if kind == "one": return [1] + [0] * limbs
    if kind == "m1": return [M] * limbs + [tc(-1)]
    if kind == "pm1": return [0] * limbs + [1]
    if kind == "ones": return [M] * limbs + [0]
    if kind == "runs": return rand_limbs(rng, limbs, "runs") + [0]
    if kind == "top": return rand_limbs(rng, limbs, "uniform") + [tc(rng.choice([1, -1, 2, -2]))]
    return rand_limbs(rng, limbs, "uniform") + [0]

def array(rng, cnt, limbs, pattern):
    if pattern == "mixed": a = [residue(rng, limbs) for _ in range(cnt)]
    else: a = [residue(rng, limbs, pattern) for _ in range(cnt)]
    return [x for r in a for x in r]

def gen_ops(rng, tier, ctx=None):
    thorough = tier != "quick"
    rep = 3 if thorough else 1
    cases = [(d, 64 * limbs // (1 << d)) for d in range(1, 6) for limbs in (1, 2)] + [(6, 1), (6, 3)] + ([(7, 1), (6, 2), (6, 5)] if thorough else [])
    for d, w in cases:
        n = 1 << d; limbs = n * w // 64
        if (n * w) % 64: continue
        for pat in ["zero", "one", "m1", "pm1", "ones", "uniform"] + ["mixed"] * (2 * rep):
            yield "fftx_negacyclic %x %x %s" % (d, w, vec(array(rng, 2 * n, limbs, pat)))
            yield "fftx_inegacyclic %x %x %s" % (d, w, vec(array(rng, 2 * n, limbs, pat)))
    for m in range(1, 21):
        for cls in ["uniform", "ones", "sparse"] + (["uniform"] * 2 if thorough else []):
            yield "fftx_naive_convolution_1 %s %s" % (vec(rand_limbs(rng, m, cls)), vec(rand_limbs(rng, m, cls)))
    # ---- mpir_fft_mulmod_2expp1 with explicit (depth, w): r_limbs = 2n*la, n*w = 128*la; the whole-function model
    for depth, la in [(1, 1), (1, 2), (2, 1), (2, 2), (3, 1), (3, 2), (4, 1), (5, 1)] + ([(2, 3), (4, 2), (6, 1)] if thorough else []):
        n = 1 << depth; R = 2 * n * la
        if (128 * la) % n: continue
        w = 128 * la // n
        specials = [[0] * R, [1] + [0] * (R - 1), [M] * R, [M - 1] + [M] * (R - 1), [0] * (R - 1) + [M], [M] * la + [0] * (R - la)]
        for a in specials:
            for b in specials[1:]:
                if depth >= 3 and rng.random() < 0.5: continue
                yield "fftx_fft_mulmod_2expp1 0 %x %x %s %s" % (depth, w, vec(a), vec(b))
        for cls in ["uniform", "runs", "sparse", "uniform"] * rep:
            a, b = rand_limbs(rng, R, cls), rand_limbs(rng, R, cls)
            yield "fftx_fft_mulmod_2expp1 0 %x %x %s %s" % (depth, w, vec(a), vec(b))
            yield "fftx_fft_mulmod_2expp1 1 %x %x %s %s" % (depth, w, vec(a), vec(a))
        # coefficients built so that negacyclic sums are negative / small negative / zero: a = X^k, b = X^(2n-1) etc.
        for k in range(0, 2 * n, max(1, n // 2)):
            a = [0] * R; a[k * la] = rng.choice([1, M, 2])
            b = [0] * R; b[(2 * n - 1) * la] = rng.choice([1, M, 3])
            yield "fftx_fft_mulmod_2expp1 0 %x %x %s %s" % (depth, w, vec(a), vec(b))
            yield "fftx_fft_mulmod_2expp1 0 %x %x %s %s" % (depth, w, vec(b), vec(a))
    for limbs in [256, 512] + ([1024, 2048] if thorough else []):
        specials = [[0] * limbs, [1] + [0] * (limbs - 1), [M] * limbs, [M - 1] + [M] * (limbs - 1)]
        for a in specials:
            for b in specials[1:] + [rand_limbs(rng, limbs, "uniform")]:
                if limbs > 256 and rng.random() < 0.6: continue
                yield "fftx_mulmod_Bexpp1_fft 0 %s %s" % (vec(a + [0]), vec(b + [0]))
        for cls in ["uniform", "runs", "sparse"] * rep:
            a, b = rand_limbs(rng, limbs, cls), rand_limbs(rng, limbs, cls)
            yield "fftx_mulmod_Bexpp1_fft 0 %s %s" % (vec(a + [0]), vec(b + [0]))
            yield "fftx_mulmod_Bexpp1_fft 1 %s %s" % (vec(a + [0]), vec(a + [0]))

def nontrivial(line):
    op = line.split(" ", 1)[0]
    if not op.startswith("fftx_"): return None
    return line
