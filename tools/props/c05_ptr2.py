"""C05 part: pointer-level alias theorems, second batch (continues c05_ptr on the same memory model,
lean/Mpir/Model/AliasMem.lean; new files only).  mpz: mpz_rootrem (theorem for the model of c05_ptr), mpz_mul (hand-made block
management of mul.c: free + allocate, `free_me`, TMP copy of an aliased operand), mpz_gcdext (NULL outputs, three local mpz
variables), mpz_powm / mpz_powm_ui, mpz_addmul / mpz_submul, mpz_sqrt, mpz_lcm, mpz_invert, mpz_root, mpz_remove, mpz_bin_ui
(lean/Mpir/Model/AliasMul.lean, AliasGcdext.lean, AliasPowm.lean, AliasMisc.lean).  mpf: a pointer-level mpf model (header
{prec, size, exp, ptr}, block never reallocated, operands possibly longer than PREC + 1 limbs: mpf_set_prec_raw) with mpf_div,
mpf_mul, mpf_sqrt, mpf_div_ui, mpf_floor / ceil / trunc, mpf_mul_2exp / div_2exp, mpf_ui_div (lean/Mpir/Model/AliasMpf.lean,
AliasMpf3.lean), each bit-exact against the C13 model lean/Mpir/Model/Mpf.lean.  Theorems: lean/MpirProofs/Props/C05_ptr2.lean.
Tie: ops `alias_*` of harness/ops_alias2.c / lean/Mpir/Ops/Alias2.lean — the real function on four mpz (three mpf) variables
with EVERY index assignment; value, ALLOC and "block changed" (mpf: prec, size, exp, limbs) of all variables are compared."""
from genlib import *

LEAN_MODULES = ["MpirProofs.Props.C05_ptr2"]
THEOREMS = ["Mpir.AliasMem.rootrem_ptr_spec", "Mpir.AliasMem.rootrem_exceptions",
            "Mpir.AliasMem.mpz_mul_ptr_spec", "Mpir.AliasMem.gcdext_ptr_spec",
            "Mpir.AliasMem.mpf_div_ptr_spec", "Mpir.AliasMem.mpf_div_by_zero", "Mpir.AliasMem.mpf_mul_ptr_spec", "Mpir.AliasMem.mpf_sqrt_ptr_spec",
            "Mpir.AliasMem.mpf_div_ui_ptr_spec", "Mpir.AliasMem.mpf_sqrt_div_ui_exceptions",
            "Mpir.AliasMem.powm_ptr_spec", "Mpir.AliasMem.powm_ui_ptr_spec", "Mpir.AliasMem.addmul_ptr_spec", "Mpir.AliasMem.submul_ptr_spec",
            "Mpir.AliasMem.mpz_sqrt_ptr_spec", "Mpir.AliasMem.mpz_lcm_ptr_spec", "Mpir.AliasMem.mpz_invert_ptr_spec",
            "Mpir.AliasMem.mpz_root_ptr_spec", "Mpir.AliasMem.mpz_remove_ptr_spec", "Mpir.AliasMem.mpz_bin_ui_ptr_spec_partial",
            "Mpir.AliasMem.mpf_floor_ceil_trunc_ptr_spec", "Mpir.AliasMem.mpf_2exp_ptr_spec", "Mpir.AliasMem.mpf_ui_div_ptr_spec"]
PINS = [("mpz/mul.c", None), ("gmp-mparam.h", "MUL_KARATSUBA_THRESHOLD"), ("mpz/gcdext.c", None), ("mpz/powm.c", None), ("mpz/powm_ui.c", None),
        ("mpz/aorsmul.c", None), ("mpz/aorsmul_i.c", None), ("mpz/sqrt.c", None), ("mpz/lcm.c", None), ("mpz/invert.c", None), ("mpf/div.c", None), ("mpf/mul.c", None), ("mpf/sqrt.c", None), ("mpf/div_ui.c", None),
        ("mpz/root.c", None), ("mpz/remove.c", None), ("mpz/bin_ui.c", None), ("mpf/ceilfloor.c", None), ("mpf/trunc.c", None),
        ("mpf/mul_2exp.c", None), ("mpf/div_2exp.c", None), ("mpf/ui_div.c", None)]
TRUSTED = ["hand-written pointer-level models lean/Mpir/Model/AliasMul.lean, AliasGcdext.lean, AliasPowm.lean, AliasMisc.lean, AliasMpf.lean, AliasMpf3.lean "
           "(tied by the ops alias_* of harness/ops_alias2.c on every index assignment: values, ALLOC and which blocks were replaced; mpf: every header "
           "field and the limbs of all three variables; source pins on the mirrored C files and MUL_KARATSUBA_THRESHOLD)"]
ASSUMPTIONS = ["pointer-level models: the mpn callees (mpn_mul, mpn_mul_1, mpn_tdiv_qr, mpn_rootrem, mpn_sqrtrem, mpn_gcdext, mpn_powm …) are taken at their contract on "
               "values (limb-level proofs: C01, C02, C07, C08, C09); an operand overlap their contract forbids is an error of the model, in-place operation the "
               "contract allows is not; TMP areas carved out of one TMP block in the C (mpf/div.c:114-119) are separate blocks in the model",
               "mpz_powm / mpz_powm_ui / mpz_remove / mpz_bin_ui / mpz_invert: the result VALUE is that of the value-level models (Powm.mpz_powm, Numth.mpz_remove, "
               "Numth.mpz_bin_ui, Gcd.mpz_invert: C08, C07, C11); the pointer-level theorem is about which block is read after which was written",
               "mpz_bin_ui: the theorem is partial (`mpz_bin_ui_ptr_spec_partial`): the ASSERT SIZ (r) > 0 of the DIVIDE() macro along the run is a (decidable) hypothesis",
               "mpf pointer model: the block length is kept in the model (C does not store it); object invariant PREC + 1 <= block length (mpf_init2 allocates "
               "PREC + 1 limbs, mpf_set_prec_raw only lowers PREC); mpf_sqrt needs 1 <= PREC (the library never makes a smaller one)"]

def _mag(rng, limbs):
    if limbs == 0: return 0
    v = 0
    for i, x in enumerate(rand_limbs(rng, limbs, rng.choice(["uniform", "runs", "ones", "sparse"]))): v |= x << (64 * i)
    v |= 1 << (64 * limbs - 1 - rng.randrange(0, 3))
    if v >> (64 * (limbs - 1)) == 0: v |= 1 << (64 * (limbs - 1))
    return v

def _sg(rng, v): return v if rng.random() < 0.5 else -v

def _mulvals(rng, big):
    """four values for mpz_mul: sizes on both sides of MUL_KARATSUBA_THRESHOLD = 17 for usize + vsize (16, 17, 18 limbs in
    total), one-limb v (the mpn_mul_1 arm), one-limb u with a long v (swap), zero operands, top product limb zero (small
    top limbs) and non-zero (large top limbs), destination smaller / larger than the product."""
    k = rng.randrange(10)
    if k == 0: ul, vl = rng.choice([1, 2, 5, big]), 1
    elif k == 1: ul, vl = 1, rng.choice([2, 5, big])
    elif k == 2: ul = rng.randrange(1, 17); vl = 17 - ul                  # wsize == threshold
    elif k == 3: ul = rng.randrange(1, 18); vl = 18 - ul                  # wsize == threshold + 1
    elif k == 4: ul = rng.randrange(1, 16); vl = 16 - ul
    elif k == 5: ul, vl = rng.choice([(9, 9), (10, 8), (8, 10), (12, 12)])
    elif k == 6: ul, vl = rng.choice([(0, 3), (3, 0), (0, 0)])
    else: ul, vl = rng.randrange(1, big + 4), rng.randrange(1, big + 4)
    def top(l):
        v = _mag(rng, l)
        if l and rng.random() < 0.3:                                       # small top limb: the product's top limb is zero
            v = (v & ((1 << (64 * (l - 1))) - 1)) | (rng.choice([1, 2, 3]) << (64 * (l - 1)))
        if l and rng.random() < 0.2: v = (1 << (64 * l)) - 1
        return v
    vals = [top(ul), top(vl), _mag(rng, rng.choice([0, 1, 1, 2, 20, 2 * big + 9])), _mag(rng, rng.choice([0, 1, 3, 18, 40]))]
    return [_sg(rng, v) for v in vals]

def gen_ops(rng, tier, ctx=None):
    reps = 6 if tier == "quick" else 80
    big = 12 if tier == "quick" else 40
    # mpz_mul: every (w, u, v): w = u, w = v, u = v, all equal, all distinct; the constructed pair sits in the variables
    # used as factors, the destination is one of them or a variable of unrelated size (smaller: free + allocate; larger: TMP copy)
    for w in range(4):
        for u in range(4):
            for v in range(4):
                for _ in range(reps):
                    x = _mulvals(rng, big)
                    vals = [x[2], x[3], x[2], x[3]]
                    rng.shuffle(vals)
                    vals[u] = x[0]
                    if v != u: vals[v] = x[1]
                    if w != u and w != v and rng.random() < 0.5:
                        vals[w] = _sg(rng, _mag(rng, rng.choice([0, 1, 2, 17, 18, 2 * big + 9])))
                    yield "alias_mul %x %x %x 0 %s" % (w, u, v, " ".join(hx(t) for t in vals))
    # mpz_addmul / mpz_submul: every (w, x, y); one-limb y (mpz_aorsmul_1), w = 0 (product straight into w), w = x, w = y, x = y,
    # cancellation w = -+x*y (zero result), |w| < |x*y| (the sign flips), carry into a new limb, all sign combinations
    for fn in ("addmul", "submul"):
        for w in range(4):
            for x in range(4):
                for y in range(4):
                    for _ in range(reps):
                        xv = _sg(rng, _mag(rng, rng.choice([0, 1, 1, 2, 3, big])))
                        yv = _sg(rng, _mag(rng, rng.choice([0, 1, 1, 2, 3, big])))
                        if rng.random() < 0.15: xv = _sg(rng, (1 << (64 * rng.choice([1, 2, 3]))) - 1)
                        if rng.random() < 0.15: yv = _sg(rng, (1 << (64 * rng.choice([1, 2]))) - 1)
                        vals = [_sg(rng, _mag(rng, rng.choice([0, 1, 2, 5, 2 * big + 2]))) for _ in range(4)]
                        vals[x] = xv
                        if y != x: vals[y] = yv
                        if w != x and w != y:
                            k = rng.randrange(6)
                            p = vals[x] * vals[y]
                            if k == 0: vals[w] = 0
                            elif k == 1: vals[w] = p if fn == "submul" else -p
                            elif k == 2: vals[w] = (p if fn == "submul" else -p) + rng.choice([1, -1, 1 << 64, -(1 << 64)])
                            elif k == 3: vals[w] = _sg(rng, abs(p) >> rng.choice([1, 64, 65]))
                            elif k == 4: vals[w] = _sg(rng, (1 << (64 * max(1, (abs(p).bit_length() + 63) // 64))) - 1)
                        yield "alias_%s %x %x %x 0 %s" % (fn, w, x, y, " ".join(hx(t) for t in vals))
    # mpz_gcdext: every (g, s, t, a, b) with g, s, t pairwise distinct, s / t possibly NULL (7): four variables only, so the
    # outputs are the operands most of the time.  asize < bsize (swap), b = 0 / a = 0 exit, |a| = |b|, b | a (s = 0), common factors,
    # one-limb operands, all signs
    def gx():
        k = rng.randrange(14)                      # 6..13: the general case (both cofactors non-trivial)
        c = _mag(rng, rng.choice([0, 0, 1, 1, 2])) or 1
        a = c * (_mag(rng, rng.choice([1, 1, 2, 3, big // 2])))
        b = c * (_mag(rng, rng.choice([1, 1, 2, 3, big // 2])))
        if k == 0: b = 0
        elif k == 1: a = 0
        elif k == 2: b = a
        elif k == 3: a = b * (_mag(rng, rng.choice([1, 2])))
        elif k == 4: a, b = rng.choice([1, 2, 6, (1 << 64) - 1]), rng.choice([1, 3, 4, 1 << 63])
        elif k == 5 and a and b: b = 2 * __import__("math").gcd(a, b) if rng.random() < 0.5 else b
        if rng.random() < 0.03: a = b = 0
        return _sg(rng, a), _sg(rng, b)
    outs = [0, 1, 2, 3]
    for g in outs:
        for s in outs + [7]:
            if s == g: continue
            for t in outs + [7]:
                if t == g or (t == s and t != 7): continue
                for a in range(4):
                    for b in range(4):
                        for _ in range(2 if tier == "quick" else 12):
                            av, bv = gx()
                            vals = [_sg(rng, _mag(rng, rng.choice([0, 1, 1, 2, 4]))) for _ in range(4)]
                            vals[a] = av
                            if b != a: vals[b] = bv
                            yield "alias_gcdext %x %x %x %x %x %s" % (g, s, t, a, b, " ".join(hx(v) for v in vals))
    # mpz_powm: every (r, b, e, m); odd / even modulus / modulus with low zero limbs, m = +-1, m = 0 (DIVIDE_BY_ZERO), e = 0, 1,
    # negative (inverse exists or not), two limbs; b = 0, negative, longer than m
    def modulus():
        k = rng.randrange(7)
        m = _mag(rng, rng.choice([1, 1, 2, 3, 5]))
        if k == 0: m |= 1
        elif k == 1: m = (m | 1) << rng.choice([1, 5, 63])
        elif k == 2: m = (m | 1) << (64 * rng.choice([1, 2]) + rng.choice([0, 3]))
        elif k == 3: m = rng.choice([1, 1, 2, 3, 1 << 64])
        if rng.random() < 0.02: m = 0
        return _sg(rng, m)
    def expo():
        k = rng.randrange(8)
        if k == 0: return 0
        if k == 1: return 1
        if k == 2: return -rng.choice([1, 2, 3, 65537])
        if k == 3: return rng.getrandbits(rng.choice([65, 100, 128])) | 1
        return rng.getrandbits(rng.randrange(1, 64)) + 2
    for r in range(4):
        for b in range(4):
            for e in range(4):
                for m in range(4):
                    for _ in range(2 if tier == "quick" else 20):
                        vals = [_sg(rng, _mag(rng, rng.choice([0, 1, 1, 2, 6]))) for _ in range(4)]
                        vals[b] = _sg(rng, _mag(rng, rng.choice([0, 1, 1, 2, 3, 7])))
                        vals[m] = modulus()
                        if e != m:
                            vals[e] = expo()
                            if e == b and rng.random() < 0.5: vals[e] = abs(vals[e]) + 3
                        yield "alias_powm %x %x %x %x %s" % (r, b, e, m, " ".join(hx(v) for v in vals))
    for r in range(4):
        for b in range(4):
            for m in range(4):
                for _ in range(3 if tier == "quick" else 30):
                    vals = [_sg(rng, _mag(rng, rng.choice([0, 1, 1, 2, 6]))) for _ in range(4)]
                    vals[b] = _sg(rng, _mag(rng, rng.choice([0, 1, 1, 2, 3, 7])))
                    vals[m] = modulus()
                    el = rng.choice([0, 1, 2, 3, 7, 18, 19, 20, 21, 1000, 65537, (1 << 64) - 1, rng.getrandbits(rng.randrange(1, 65))])
                    yield "alias_powm_ui %x %x %x %x %s" % (r, b, m, el, " ".join(hx(v) for v in vals))
    # mpf_div / mpf_mul / mpf_sqrt / mpf_div_ui on three mpf variables, every (r, u, v); each variable has its own precision and
    # possibly MORE limbs than prec + 1 (mpf_set_prec_raw): r = u with a long u (the dividend is chopped AND must be copied),
    # r = v, u = v, short operands (zero padding), operand sizes around prec, 2 prec, quotient / product / root with a zero top limb
    def fop(prec=None, n=None):
        prec = prec if prec is not None else rng.choice([2, 2, 3, 4, 6])
        n = n if n is not None else rng.choice([0, 1, 1, 2, prec, prec + 1, prec + 2, 2 * prec, 2 * prec + 1, 2 * prec + 3])
        limbs = rand_limbs(rng, n, rng.choice(["uniform", "runs", "ones", "sparse"])) if n else []
        if n:
            k = rng.randrange(5)
            if k == 0: limbs[-1] = 1
            elif k == 1: limbs[-1] = (1 << 64) - 1
            elif k == 2: limbs[-1] = 1 << 63
            if limbs[-1] == 0: limbs[-1] = 1
            if rng.random() < 0.2:
                for i in range(n // 2): limbs[i] = 0
        size = n if rng.random() < 0.5 else -n
        e = rng.choice([0, 1, 2, -1, -2, 3, 7, -5, n, n + 1]) if n else 0
        return "%x %s %s %s" % (prec, hx(size), hx(e), vec(limbs))
    for fn in ("fdiv", "fmul"):
        for r in range(3):
            for u in range(3):
                for v in range(3):
                    for _ in range(reps * 2):
                        yield "alias_%s %x %x %x 0 %s %s %s" % (fn, r, u, v, fop(), fop(), fop())
    for r in range(3):
        for u in range(3):
            for _ in range(reps * 4):
                ops3 = [fop(), fop(), fop()]
                if rng.random() < 0.9 and ops3[u].split()[1].startswith("-"):
                    f = ops3[u].split(); f[1] = f[1][1:]; ops3[u] = " ".join(f)
                yield "alias_fsqrt %x %x 0 0 %s" % (r, u, " ".join(ops3))
                ui = rng.choice([1, 2, 3, 10, 1 << 63, (1 << 64) - 1, rng.getrandbits(rng.randrange(1, 65)) | 1])
                if rng.random() < 0.03: ui = 0
                yield "alias_fdiv_ui %x %x 0 %x %s %s %s" % (r, u, ui, fop(), fop(), fop())
    # mpz_sqrt (root, op): root = op, squares / squares - 1, odd and even limb counts, a root block that must grow; negative operand
    for r in range(4):
        for o in range(4):
            for _ in range(reps * 3):
                vals = [_sg(rng, _mag(rng, rng.choice([0, 1, 1, 2, 5]))) for _ in range(4)]
                tt = _mag(rng, rng.choice([1, 1, 2, 3, big // 2 + 1]))
                k = rng.randrange(5)
                vals[o] = [tt * tt, tt * tt - 1, tt * tt + 2 * tt, _mag(rng, rng.choice([1, 2, 3, 4, big])), 0][k]
                if rng.random() < 0.03: vals[o] = -abs(vals[o]) - 1
                yield "alias_sqrt %x %x 0 0 %s" % (r, o, " ".join(hx(v) for v in vals))
    # mpz_lcm (r, u, v): one-limb arms (either operand), general arm, r = u, r = v, u = v, common factors, zero operands
    for r in range(4):
        for u in range(4):
            for v in range(4):
                for _ in range(reps):
                    vals = [_sg(rng, _mag(rng, rng.choice([0, 1, 1, 2, 5]))) for _ in range(4)]
                    c = _mag(rng, rng.choice([1, 1, 2]))
                    vals[u] = _sg(rng, c * _mag(rng, rng.choice([0, 1, 1, 2, 3, big // 2])))
                    if v != u: vals[v] = _sg(rng, c * _mag(rng, rng.choice([0, 1, 1, 2, 3])))
                    if rng.random() < 0.2: vals[u] = _sg(rng, rng.choice([1, 2, 6, (1 << 64) - 1]))
                    yield "alias_lcm %x %x %x 0 %s" % (r, u, v, " ".join(hx(t) for t in vals))
    # mpz_invert (inverse, x, n): inverse = x, inverse = n, x = n; invertible or not; n = +-1, x = 0, negative n, x > n
    for r in range(4):
        for x in range(4):
            for n in range(4):
                for _ in range(reps):
                    vals = [_sg(rng, _mag(rng, rng.choice([0, 1, 1, 2, 5]))) for _ in range(4)]
                    vals[n] = _sg(rng, rng.choice([1, 1, 2, _mag(rng, 1) | 1, _mag(rng, 2), _mag(rng, 3) | 1, 1 << 64, 3 * 5 * 7 * 11]))
                    if x != n: vals[x] = _sg(rng, rng.choice([0, 1, 3, 5, _mag(rng, 1), _mag(rng, 2) | 1, _mag(rng, 4)]))
                    yield "alias_invert %x %x %x 0 %s" % (r, x, n, " ".join(hx(t) for t in vals))
    # mpz_root (root, u, nth): root = u, exact powers / power +- 1, nth = 1, 2, 3, 5, 64, beyond the bit length; exceptions
    for r in range(4):
        for u in range(4):
            for _ in range(reps * 2):
                vals = [_sg(rng, _mag(rng, rng.choice([0, 1, 1, 2, 5]))) for _ in range(4)]
                nth = rng.choice([1, 2, 2, 3, 3, 5, 7, 64, 1000])
                tt = _mag(rng, rng.choice([1, 1, 2]))
                k = rng.randrange(5)
                vals[u] = _sg(rng, _mag(rng, rng.choice([0, 1, 2, 3, big])))
                if nth <= 7 and k < 3: vals[u] = _sg(rng, tt ** nth + [0, -1, 1][k])
                if nth % 2 == 0 and rng.random() < 0.9: vals[u] = abs(vals[u])
                if rng.random() < 0.02: nth = 0
                yield "alias_root %x %x 0 %x %s" % (r, u, nth, " ".join(hx(v) for v in vals))
    # mpz_remove (dest, src, f): dest = src, dest = f, src = f; f = 2 (scan / shift arm), f | src several times (squaring chain), f ∤ src,
    # src = 0, f <= 1 (DIVIDE_BY_ZERO)
    for d in range(4):
        for sv in range(4):
            for f in range(4):
                for _ in range(reps):
                    vals = [_sg(rng, _mag(rng, rng.choice([0, 1, 1, 2, 5]))) for _ in range(4)]
                    fv = rng.choice([2, 2, 3, 6, 10, (1 << 64) + 1, _mag(rng, 1) | 1, _mag(rng, 2)])
                    if rng.random() < 0.04: fv = rng.choice([0, 1, -1, -3])
                    vals[f] = fv
                    if sv != f:
                        vals[sv] = _sg(rng, abs(fv) ** rng.choice([0, 1, 2, 3, 5, 8]) * _mag(rng, rng.choice([0, 1, 1, 2, 3])))
                    yield "alias_remove %x %x %x 0 %s" % (d, sv, f, " ".join(hx(v) for v in vals))
    # mpz_bin_ui (r, n, k): r = n, n negative, n < k, k = 0, 1, small and medium
    for r in range(4):
        for n in range(4):
            for _ in range(reps * 2):
                vals = [_sg(rng, _mag(rng, rng.choice([0, 1, 1, 2, 5]))) for _ in range(4)]
                k = rng.choice([0, 1, 2, 3, 5, 10, 30, 31, 64, 100])
                vals[n] = rng.choice([_sg(rng, _mag(rng, rng.choice([0, 1, 2, 3]))), rng.randrange(0, 2 * k + 2), -rng.randrange(0, 40), k, k + 1])
                yield "alias_bin_ui %x %x 0 %x %s" % (r, n, k, " ".join(hx(v) for v in vals))
    # mpf_floor / mpf_ceil / mpf_trunc (r, u): r = u with limbs below the radix point (all zero: no adjustment; non-zero: +-1 with carry),
    # fraction only, integer only, all-ones integer part (carry into a new limb), long operands under a lowered precision;
    # mpf_mul_2exp / mpf_div_2exp (r, u, cnt): whole limbs, bit counts, carry out, in place on long operands; mpf_ui_div (r, ui, v): r = v
    def fopi(prec=None):
        prec = prec if prec is not None else rng.choice([2, 2, 3, 4, 6])
        n = rng.choice([0, 1, 1, 2, prec, prec + 1, prec + 2, 2 * prec + 1])
        limbs = rand_limbs(rng, n, rng.choice(["uniform", "runs", "ones", "sparse"])) if n else []
        e = rng.choice([0, 1, 2, -1, n - 1, n, n + 1, n // 2]) if n else 0
        if n:
            if limbs[-1] == 0: limbs[-1] = 1
            k = rng.randrange(6)
            fr = max(0, min(n, n - e))
            if k == 0:
                for i in range(fr): limbs[i] = 0
            elif k == 1:
                for i in range(fr, n): limbs[i] = (1 << 64) - 1
            elif k == 2 and fr:
                for i in range(fr): limbs[i] = 0
                limbs[rng.randrange(fr)] = rng.choice([1, 1 << 63])
            if limbs[-1] == 0: limbs[-1] = 1
        size = n if rng.random() < 0.5 else -n
        return "%x %s %s %s" % (prec, hx(size), hx(e), vec(limbs))
    for r in range(3):
        for u in range(3):
            for _ in range(reps * 4):
                fn = rng.choice(["ffloor", "fceil", "ftrunc"])
                yield "alias_%s %x %x 0 0 %s %s %s" % (fn, r, u, fopi(), fopi(), fopi())
                cnt = rng.choice([0, 1, 63, 64, 65, 127, 128, 130, rng.randrange(0, 400)])
                yield "alias_%s %x %x 0 %x %s %s %s" % (rng.choice(["fmul_2exp", "fdiv_2exp"]), r, u, cnt, fop(), fop(), fop())
                ui = rng.choice([0, 1, 2, 7, 1 << 63, (1 << 64) - 1, rng.getrandbits(rng.randrange(1, 65)) | 1])
                yield "alias_fui_div %x 0 %x %x %s %s %s" % (r, u, ui, fop(), fop(), fop())
