"""C05 part: pointer-level alias theorems, second batch (continues c05_ptr on the same memory model,
lean/Mpir/Model/AliasMem.lean): mpz_rootrem (theorem for the model of c05_ptr), mpz_mul (the hand-made block management
of mul.c: free + allocate, `free_me` when the destination block is an operand, TMP copy of an aliased operand), and
further functions in lean/Mpir/Model/AliasGcdext.lean / AliasPowm.lean.  Theorems: lean/MpirProofs/Props/C05_ptr2.lean.
Tie: ops `alias_*` of harness/ops_alias2.c / lean/Mpir/Ops/Alias2.lean — the real function on four variables in
exact-size blocks with EVERY index assignment; value, ALLOC and "block changed" of all four variables are compared."""
from genlib import *

LEAN_MODULES = ["MpirProofs.Props.C05_ptr2"]
THEOREMS = ["Mpir.AliasMem.rootrem_ptr_spec", "Mpir.AliasMem.rootrem_exceptions",
            "Mpir.AliasMem.mpz_mul_ptr_spec"]
PINS = [("mpz/mul.c", None), ("gmp-mparam.h", "MUL_KARATSUBA_THRESHOLD")]
TRUSTED = ["hand-written pointer-level models lean/Mpir/Model/AliasMul.lean (tied by the ops alias_mul … of harness/ops_alias2.c on every "
           "index assignment: values, ALLOC and which blocks were replaced; source pins on mul.c and MUL_KARATSUBA_THRESHOLD)"]
ASSUMPTIONS = ["pointer-level model: mpn_mul / mpn_mul_basecase / mpn_sqr / mpn_mul_1 are taken at their contract on values (limb-level proofs: C01); "
               "a product that overlaps a factor is an error of the model (mpn/generic/mul.c ASSERTs), mpn_mul_1 in place is not"]

def _mag(rng, limbs):
    if limbs == 0: return 0
    v = 0
    for i, x in enumerate(rand_limbs(rng, limbs, rng.choice(["uniform", "runs", "ones", "sparse"]))): v |= x << (64 * i)
    v |= 1 << (64 * limbs - 1 - rng.randrange(0, 3))
    if v >> (64 * (limbs - 1)) == 0: v |= 1 << (64 * (limbs - 1))
    return v

def _sg(rng, v): return v if rng.random() < 0.5 else -v

def _mulvals(rng, big):
    """four values for mpz_mul: sizes on both sides of MUL_KARATSUBA_THRESHOLD = 17 for usize + vsize (16, 17, 18 limbs in
    total), one-limb v (the mpn_mul_1 arm), one-limb u with a long v (swap), zero operands, top product limb zero (small
    top limbs) and non-zero (large top limbs), destination smaller / larger than the product."""
    k = rng.randrange(10)
    if k == 0: ul, vl = rng.choice([1, 2, 5, big]), 1
    elif k == 1: ul, vl = 1, rng.choice([2, 5, big])
    elif k == 2: ul = rng.randrange(1, 17); vl = 17 - ul                  # wsize == threshold
    elif k == 3: ul = rng.randrange(1, 18); vl = 18 - ul                  # wsize == threshold + 1
    elif k == 4: ul = rng.randrange(1, 16); vl = 16 - ul
    elif k == 5: ul, vl = rng.choice([(9, 9), (10, 8), (8, 10), (12, 12)])
    elif k == 6: ul, vl = rng.choice([(0, 3), (3, 0), (0, 0)])
    else: ul, vl = rng.randrange(1, big + 4), rng.randrange(1, big + 4)
    def top(l):
        v = _mag(rng, l)
        if l and rng.random() < 0.3:                                       # small top limb: the product's top limb is zero
            v = (v & ((1 << (64 * (l - 1))) - 1)) | (rng.choice([1, 2, 3]) << (64 * (l - 1)))
        if l and rng.random() < 0.2: v = (1 << (64 * l)) - 1
        return v
    vals = [top(ul), top(vl), _mag(rng, rng.choice([0, 1, 1, 2, 20, 2 * big + 9])), _mag(rng, rng.choice([0, 1, 3, 18, 40]))]
    return [_sg(rng, v) for v in vals]

def gen_ops(rng, tier, ctx=None):
    reps = 6 if tier == "quick" else 80
    big = 12 if tier == "quick" else 40
    # mpz_mul: every (w, u, v): w = u, w = v, u = v, all equal, all distinct; the constructed pair sits in the variables
    # used as factors, the destination is one of them or a variable of unrelated size (smaller: free + allocate; larger: TMP copy)
    for w in range(4):
        for u in range(4):
            for v in range(4):
                for _ in range(reps):
                    x = _mulvals(rng, big)
                    vals = [x[2], x[3], x[2], x[3]]
                    rng.shuffle(vals)
                    vals[u] = x[0]
                    if v != u: vals[v] = x[1]
                    if w != u and w != v and rng.random() < 0.5:
                        vals[w] = _sg(rng, _mag(rng, rng.choice([0, 1, 2, 17, 18, 2 * big + 9])))
                    yield "alias_mul %x %x %x 0 %s" % (w, u, v, " ".join(hx(t) for t in vals))
