"""C05 part: alias theorems on the POINTER-LEVEL model (lean/Mpir/Model/AliasMem.lean): an mpz_t is a header
{alloc, size, ptr} plus a numbered limb block, MPZ_REALLOC moves the block (stale pointers read a freed block), TMP
copies are fresh blocks, mpn entry points refuse forbidden operand overlaps.  The mpz division wrappers are mirrored at
the granularity "header reads / reallocs / pointer fetches / temporary copies / mpn call / size stores in source order",
and for every id assignment the manual allows the call is proved to succeed and to leave the specified values
(lean/MpirProofs/Props/C05_div.lean; negative examples there show that removing one of the C's precautions breaks the
statement).  Tie: ops `alias_<fn>` (harness/ops_alias.c, lean/Mpir/Ops/Alias.lean) run the real function on four
variables in exact-size blocks with EVERY index assignment and compare value, ALLOC and "PTR moved" of all four
variables — the sequence of reallocations is an observable the value-level models do not have."""
from genlib import *

LEAN_MODULES = ["MpirProofs.Props.C05_div", "MpirProofs.Props.C05_mpz", "MpirProofs.Props.C05_mpf"]
THEOREMS = ["Mpir.AliasMem.ofInts_ok",
            "Mpir.AliasMem.tdiv_qr_ptr_spec", "Mpir.AliasMem.tdiv_qr_alias", "Mpir.AliasMem.tdiv_q_ptr_spec", "Mpir.AliasMem.tdiv_r_ptr_spec",
            "Mpir.AliasMem.cfdiv_qr_ptr_spec", "Mpir.AliasMem.cfdiv_qr_alias", "Mpir.AliasMem.cfdiv_q_ptr_spec", "Mpir.AliasMem.cfdiv_r_ptr_spec",
            "Mpir.AliasMem.mod_ptr_spec", "Mpir.AliasMem.divexact_ptr_spec", "Mpir.AliasMem.div3_alias", "Mpir.AliasMem.div_q_ui_ptr_spec", "Mpir.AliasMem.divexact_ui_ptr_spec", "Mpir.AliasMem.div_r_ui_ptr_spec", "Mpir.AliasMem.div_qr_ui_ptr_spec",
            "Mpir.AliasMem.mul_2exp_ptr_spec", "Mpir.AliasMem.tdiv_q_2exp_ptr_spec", "Mpir.AliasMem.cfdiv_q_2exp_ptr_spec", "Mpir.AliasMem.tdiv_r_2exp_ptr_spec", "Mpir.AliasMem.cfdiv_r_2exp_ptr_spec",
            "Mpir.AliasMem.mpz_and_ptr_spec", "Mpir.AliasMem.mpz_xor_ptr_spec", "Mpir.AliasMem.mpz_ior_ptr_spec", "Mpir.AliasMem.logic_ptr_spec", "Mpir.AliasMem.mpz_com_ptr_spec",
            "Mpir.AliasMem.sqrtrem_ptr_spec", "Mpir.AliasMem.mpz_gcd_ptr_spec", "Mpir.AliasMem.mpz_neg_ptr_spec", "Mpir.AliasMem.mpz_abs_ptr_spec", "Mpir.AliasMem.mpz_set_ptr_spec",
            "Mpir.Mpf.mpf_neg_alias", "Mpir.Mpf.mpf_abs_alias", "Mpir.Mpf.mpf_add_alias", "Mpir.Mpf.mpf_sub_alias",
            "Mpir.Mpf.mpf_add_ui_alias", "Mpir.Mpf.mpf_sub_ui_alias", "Mpir.Mpf.mpf_ui_sub_alias"]
PINS = [("mpz/tdiv_qr.c", None), ("mpz/tdiv_q.c", None), ("mpz/tdiv_r.c", None),
        ("mpz/fdiv_qr.c", None), ("mpz/cdiv_qr.c", None), ("mpz/fdiv_q.c", None), ("mpz/cdiv_q.c", None),
        ("mpz/fdiv_r.c", None), ("mpz/cdiv_r.c", None), ("mpz/mod.c", None), ("mpz/divexact.c", None), ("mpz/dive_ui.c", None), ("mpz/tdiv_q_ui.c", None), ("mpz/fdiv_q_ui.c", None), ("mpz/cdiv_q_ui.c", None),
        ("mpz/tdiv_r_ui.c", None), ("mpz/fdiv_r_ui.c", None), ("mpz/cdiv_r_ui.c", None),
        ("mpz/tdiv_qr_ui.c", None), ("mpz/fdiv_qr_ui.c", None), ("mpz/cdiv_qr_ui.c", None),
        ("mpz/mul_2exp.c", None), ("mpz/tdiv_q_2exp.c", None), ("mpz/cfdiv_q_2exp.c", None), ("mpz/tdiv_r_2exp.c", None), ("mpz/cfdiv_r_2exp.c", None),
        ("mpz/sqrtrem.c", None), ("mpz/rootrem.c", None), ("mpz/gcd.c", None), ("mpz/neg.c", None), ("mpz/abs.c", None), ("mpz/and.c", None), ("mpz/ior.c", None), ("mpz/xor.c", None), ("mpz/com.c", None),
        ("mpf/neg.c", None), ("mpf/abs.c", None), ("mpf/add.c", None), ("mpf/sub.c", None), ("mpf/add_ui.c", None),
        ("mpf/sub_ui.c", None), ("mpf/ui_sub.c", None),
        ("mpz/realloc.c", None), ("gmp-impl.h", "MPZ_REALLOC"), ("gmp-impl.h", "MPZ_TMP_INIT"),
        ("mpz/set.c", None), ("mpz/aors.h", None), ("mpz/aors_ui.h", None)]
TRUSTED = ["hand-written pointer-level model lean/Mpir/Model/AliasMem.lean (tied by the ops alias_* on every index assignment: values, ALLOC and "
           "which blocks moved; source pins on the mpz division wrappers, realloc.c, MPZ_REALLOC, MPZ_TMP_INIT, set.c, aors.h, aors_ui.h)"]
ASSUMPTIONS = ["mpz_rootrem: pointer-level model and ops alias_rootrem only (differential tie of the TMP root / TMP remainder and the copies back); no theorem yet",
               "mpf: the alias theorems are about the bit-exact model lean/Mpir/Model/Mpf.lean (tied by the C13 ops): they cover the pointer tests the C makes "
               "(r == u, r == v); functions without a pointer test (mul, div, sqrt, floor, ceil, trunc, mul_2exp, div_2exp) are functions of the operand values in "
               "that model, their in-place limb traffic rests on the differential run",
               "pointer-level model: mpn_tdiv_qr / mpn_tdiv_q / mpn_add / mpn_sub are taken at their contract on values (limb-level proofs: C02, C03); "
               "an operand overlap their contract forbids is an error of the model, in-place operation the contract allows is not",
               "SIZ of a local MPZ_TMP_INIT variable is uninitialised in C and 0 in the model (no mirrored function reads it before writing it)"]

F4 = ["tdiv_qr", "fdiv_qr", "cdiv_qr"]
F3 = ["tdiv_q", "tdiv_r", "fdiv_q", "fdiv_r", "cdiv_q", "cdiv_r", "mod"]

def _mag(rng, limbs):
    if limbs == 0: return 0
    v = 0
    for i, x in enumerate(rand_limbs(rng, limbs, rng.choice(["uniform", "runs", "ones", "sparse"]))): v |= x << (64 * i)
    v |= 1 << (64 * limbs - 1 - rng.randrange(0, 3))
    if v >> (64 * (limbs - 1)) == 0: v |= 1 << (64 * (limbs - 1))
    return v

def _values(rng, big):
    """four values; any of them may be used as dividend/divisor/output.  Constructed cases: |x| < |y| by limb count, equal
    limb counts, quotient with a zero top limb and with a non-zero one, exact division (remainder 0 -> no floor/ceil
    adjust), all signs, small values (an output that must be reallocated) and large ones (no realloc)."""
    kind = rng.randrange(8)
    dl = rng.choice([1, 1, 2, 3, big])
    d = _mag(rng, dl)
    if kind == 0:                                   # exact multiple
        n = d * _mag(rng, rng.choice([1, 2, 3]))
    elif kind == 1:                                 # top quotient limb zero: n's top limb < d's top limb
        ql = rng.choice([1, 2, 3])
        n = ((d >> (64 * (dl - 1))) - 1 if (d >> (64 * (dl - 1))) > 1 else 1) << (64 * (dl + ql - 1)) | rng.getrandbits(64 * (dl + ql - 1))
    elif kind == 2:                                 # top quotient limb non-zero
        ql = rng.choice([1, 2, 3])
        n = ((1 << 64) - 1) << (64 * (dl + ql - 2)) | rng.getrandbits(64 * (dl + ql - 2) if dl + ql > 2 else 1)
    elif kind == 3:                                 # fewer limbs than the divisor
        n = _mag(rng, rng.randrange(0, dl + 1) if dl > 1 else 0)
    elif kind == 4:                                 # same limb count
        n = _mag(rng, dl)
    else:
        n = _mag(rng, rng.choice([1, 2, 4, 5, big + 2]))
    vals = [n, d, _mag(rng, rng.choice([0, 0, 1, 1, 2, 6, big + 3])), _mag(rng, rng.choice([0, 1, 1, 3, 7]))]
    vals = [v if rng.random() < 0.5 else -v for v in vals]
    if rng.random() < 0.04: vals[1] = 0           # DIVIDE_BY_ZERO
    return vals

def gen_ops(rng, tier, ctx=None):
    reps = 3 if tier == "quick" else 40
    big = 9 if tier == "quick" else 40
    for fn in F4:
        for q in range(4):
            for r in range(4):
                if q == r: continue
                for n in range(4):
                    for d in range(4):
                        for _ in range(reps):
                            v = _values(rng, big)
                            # make the variables used as dividend / divisor the constructed pair most of the time
                            if rng.random() < 0.8: v[n], v[d] = (v[0], v[1]) if n != d else (v[1], v[1])
                            yield "alias_%s %x %x %x %x %s" % (fn, q, r, n, d, " ".join(hx(x) for x in v))
    for fn in F3:
        for w in range(4):
            for n in range(4):
                for d in range(4):
                    for _ in range(reps * 2):
                        v = _values(rng, big)
                        if rng.random() < 0.8: v[n], v[d] = (v[0], v[1]) if n != d else (v[1], v[1])
                        yield "alias_%s %x %x %x 0 %s" % (fn, w, n, d, " ".join(hx(x) for x in v))
    # mpz_divexact: inside the documented domain only (den != 0, den | num); q = n, q = d, n = d, all distinct
    for w in range(4):
        for n in range(4):
            for d in range(4):
                for _ in range(reps * 2):
                    v = _values(rng, big)
                    if v[d] == 0: v[d] = rng.choice([1, -1, 3, (1 << 64) + 1])
                    if n != d:
                        k = _mag(rng, rng.choice([0, 1, 1, 2, 3, big])) * rng.choice([1, -1])
                        if rng.random() < 0.2: k = rng.choice([1, -1, (1 << 64) - 1, 1 << 64, 1 << 63])     # quotient top limb zero / non-zero
                        v[n] = v[d] * k
                    yield "alias_divexact %x %x %x 0 %s" % (w, n, d, " ".join(hx(x) for x in v))
    # in-place shifts: every (w, u), bit counts around limb boundaries, carry limb / no carry limb, top limb zero after the right shift
    for fn in ("mul_2exp", "tdiv_q_2exp", "cdiv_q_2exp", "fdiv_q_2exp", "tdiv_r_2exp", "cdiv_r_2exp", "fdiv_r_2exp"):
        for w in range(4):
            for u in range(4):
                for _ in range(reps * 6):
                    v = _values(rng, big)
                    if rng.random() < 0.5: v[u] = rng.choice([1, -1]) * _mag(rng, rng.choice([1, 2, 3, big]))
                    if rng.random() < 0.15: v[u] = rng.choice([1, -1]) * ((1 << (64 * rng.choice([1, 2, 3]))) - 1)
                    if rng.random() < 0.15:      # only a LOW limb is non-zero below the cut (rounding decided by a skipped limb)
                        v[u] = rng.choice([1, -1]) * ((_mag(rng, rng.choice([1, 2])) << (64 * rng.choice([2, 3]))) + rng.choice([1, 5, 1 << 63]))
                    cnt = rng.choice([0, 1, 63, 64, 65, 127, 128, 129, 191, 192, rng.randrange(0, 64 * (big + 3))])
                    yield "alias_%s %x %x %x %s" % (fn, w, u, cnt, " ".join(hx(x) for x in v))
    # bit operations: every (res, op1, op2), all four sign cases, sizes equal / longer / shorter, low zero limbs (borrow through
    # |op| - 1), all-ones (carry into a new limb), result that does not fit the old block of an aliased res
    def bitval(lim):
        k = rng.randrange(6)
        if k == 0: v = _mag(rng, lim)
        elif k == 1: v = (1 << (64 * lim)) - 1
        elif k == 2: v = 1 << (64 * (lim - 1)) if lim else 0
        elif k == 3: v = (_mag(rng, lim) >> (64 * (lim // 2))) << (64 * (lim // 2))
        elif k == 4: v = (1 << (64 * lim)) - (1 << rng.randrange(0, 64 * lim)) if lim else 0
        else: v = _mag(rng, lim)
        return v if rng.random() < 0.5 else -v
    for fn in ("and", "ior", "xor"):
        for w in range(4):
            for a in range(4):
                for b in range(4):
                    for _ in range(reps * 3):
                        v = [bitval(rng.choice([0, 1, 1, 2, 3, 4, big])) for _ in range(4)]
                        yield "alias_%s %x %x %x 0 %s" % (fn, w, a, b, " ".join(hx(x) for x in v))
    for w in range(4):
        for a in range(4):
            for _ in range(reps * 6):
                v = [bitval(rng.choice([0, 1, 1, 2, 3, big])) for _ in range(4)]
                yield "alias_com %x %x 0 0 %s" % (w, a, " ".join(hx(x) for x in v))
                yield "alias_%s %x %x 0 0 %s" % (rng.choice(["neg", "abs", "set"]), w, a, " ".join(hx(x) for x in v))
    # mpz_sqrtrem: every (root, rem, op) with root != rem; perfect squares (remainder 0), squares minus one (largest remainder),
    # odd / even limb counts, outputs that must grow, a negative operand now and then
    for r in range(4):
        for m in range(4):
            if r == m: continue
            for o in range(4):
                for _ in range(reps * 3):
                    v = [abs(x) if rng.random() < 0.9 else x for x in _values(rng, big)]
                    k = rng.randrange(5)
                    t = _mag(rng, rng.choice([1, 1, 2, 3, big // 2 + 1]))
                    if k == 0: v[o] = t * t
                    elif k == 1: v[o] = t * t - 1
                    elif k == 2: v[o] = t * t + 2 * t
                    elif k == 3: v[o] = _mag(rng, rng.choice([1, 2, 3, 4, big]))
                    if rng.random() < 0.03: v[o] = -abs(v[o]) - 1
                    yield "alias_sqrtrem %x %x %x 0 %s" % (r, m, o, " ".join(hx(x) for x in v))
    # mpz_{t,f,c}div_q_ui: q = n in place; divisors 1, 2, 2^63, 2^64-1, random; exact multiples (no adjust), dividend with a top limb that
    # vanishes in the quotient, zero dividend, zero divisor
    def _uival(v, u):
        d = rng.choice([1, 2, 3, 1 << 63, (1 << 64) - 1, rng.getrandbits(64) | 1, rng.getrandbits(rng.randrange(1, 65)) | 1])
        k = rng.randrange(6)
        if k == 0: v[u] = rng.choice([1, -1]) * d * _mag(rng, rng.choice([1, 2, 3]))
        elif k == 1: v[u] = rng.choice([1, -1]) * ((rng.randrange(1, d) if d > 1 else 1) << (64 * rng.choice([1, 2, 3])) | rng.getrandbits(64))
        elif k == 2: v[u] = 0
        if rng.random() < 0.03: d = 0
        return d
    for fn in ("tdiv_qr_ui", "fdiv_qr_ui", "cdiv_qr_ui"):
        for q in range(4):
            for r in range(4):
                if q == r: continue
                for u in range(4):
                    for _ in range(reps):
                        v = _values(rng, big); d = _uival(v, u)
                        yield "alias_%s %x %x %x %x %s" % (fn, q, r, u, d, " ".join(hx(x) for x in v))
    for fn in ("tdiv_r_ui", "fdiv_r_ui", "cdiv_r_ui"):
        for w in range(4):
            for u in range(4):
                for _ in range(reps * 2):
                    v = _values(rng, big); d = _uival(v, u)
                    yield "alias_%s %x %x %x %s" % (fn, w, u, d, " ".join(hx(x) for x in v))
    for fn in ("tdiv_q_ui", "fdiv_q_ui", "cdiv_q_ui"):
        for w in range(4):
            for u in range(4):
                for _ in range(reps * 4):
                    v = _values(rng, big)
                    d = rng.choice([1, 2, 3, 1 << 63, (1 << 64) - 1, rng.getrandbits(64) | 1, rng.getrandbits(rng.randrange(1, 65)) | 1])
                    k = rng.randrange(6)
                    if k == 0: v[u] = rng.choice([1, -1]) * d * _mag(rng, rng.choice([1, 2, 3]))
                    elif k == 1: v[u] = rng.choice([1, -1]) * ((rng.randrange(1, d) if d > 1 else 1) << (64 * rng.choice([1, 2, 3])) | rng.getrandbits(64))
                    elif k == 2: v[u] = 0
                    if rng.random() < 0.03: d = 0
                    yield "alias_%s %x %x %x %s" % (fn, w, u, d, " ".join(hx(x) for x in v))
    # mpz_gcd: every (g, u, v); zero operands, one-limb operands, common low zero limbs / bits, common odd factor
    for g in range(4):
        for a in range(4):
            for b in range(4):
                for _ in range(reps * 3):
                    v = _values(rng, big)
                    k = rng.randrange(6)
                    c = _mag(rng, rng.choice([1, 1, 2])) | 1
                    sh = rng.choice([0, 1, 63, 64, 65, 130])
                    if k == 0: v[a] = 0
                    elif k == 1: v[b] = 0
                    elif k == 2: v[a] = rng.choice([1, -1]) * rng.choice([1, 2, 6, (1 << 64) - 1, 1 << 63])
                    elif k == 3: v[b] = rng.choice([1, -1]) * rng.choice([1, 2, 6, (1 << 64) - 1, 1 << 63])
                    else:
                        v[a] = rng.choice([1, -1]) * ((c * (_mag(rng, rng.choice([1, 2, 3])) | 1)) << (sh + rng.choice([0, 3, 64])))
                        if a != b: v[b] = rng.choice([1, -1]) * ((c * (_mag(rng, rng.choice([1, 2, 4])) | 1)) << (sh + rng.choice([0, 5, 128])))
                    yield "alias_gcd %x %x %x 0 %s" % (g, a, b, " ".join(hx(x) for x in v))
    for w in range(4):
        for u in range(4):
            for _ in range(reps * 3):
                v = _values(rng, big)
                d = rng.choice([1, 2, 3, 7, 1 << 63, (1 << 64) - 1, rng.getrandbits(64) | 1, rng.getrandbits(rng.randrange(1, 65)) | 1])
                v[u] = rng.choice([1, -1, 0]) * d * _mag(rng, rng.choice([0, 1, 1, 2, 3, big]))
                yield "alias_divexact_ui %x %x %x %s" % (w, u, d, " ".join(hx(x) for x in v))
    # mpz_rootrem (model + differential only): root = u, rem = u, perfect powers, power minus one, nth = 1, 2, 3, 5, 64, larger than the bit length
    for r in range(4):
        for m in range(4):
            if r == m: continue
            for o in range(4):
                for _ in range(reps):
                    v = _values(rng, big)
                    nth = rng.choice([1, 2, 2, 3, 3, 5, 7, 64, 1000])
                    t = _mag(rng, rng.choice([1, 1, 2]))
                    k = rng.randrange(5)
                    if nth <= 7:
                        if k == 0: v[o] = t ** nth
                        elif k == 1: v[o] = t ** nth - 1
                        elif k == 2: v[o] = t ** nth + 1
                    if nth % 2 == 0 and rng.random() < 0.9: v[o] = abs(v[o])
                    if rng.random() < 0.02: nth = 0
                    yield "alias_rootrem %x %x %x %x %s" % (r, m, o, nth, " ".join(hx(x) for x in v))
