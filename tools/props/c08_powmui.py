"""C08 part: mpz_powm_ui (el < 20) at the memory level — the flags of lean/Mpir/Model/PowmUiMem.lean beside the size-aware
value model.  Merged into c08.py."""
from genlib import *

LEAN_MODULES = ["MpirProofs.Props.C08_powmui"]
THEOREMS = ["Mpir.PowmUi.mpz_powm_ui_mem_ok", "Mpir.PowmUi.powm_ui_loop_mem_ok"]
TRUSTED = ["hand-written flags lean/Mpir/Model/PowmUiMem.lean (area sizes from the TMP_ALLOC_LIMBS calls of mpz/powm_ui.c, operand "
           "conditions of mpn_mul / the division kernels / mpn_lshift / mpn_rshift) over the states of Powm.mpz_powm_ui; op mpz_powm_ui_m"]
ASSUMPTIONS = ["the flags are not observable in the library (TMP areas are internal): they are tied to the code through the values "
               "and sizes of the exact op and the source pin of mpz/powm_ui.c"]
RULE = ("mpz_powm_ui_m: every el in 0..21, moduli with the top bit set / one leading zero / 63 leading zeros, 1..6 limbs, bases shorter "
        "than, as long as and longer than the modulus (reduce), base >= modulus of the same size (the c == 0 subtraction), results that "
        "vanish, negative bases with odd exponents")
PINS = [("mpz/powm_ui.c", None)]

def gen_ops(rng, tier, ctx=None):
    thor = tier == "thorough"
    for mn in (1, 2, 3, 4, 6) + ((9, 17, 40) if thor else (9,)):
        for zc in (0, 1, 63, rng.randrange(2, 63)):
            top = 1 << (64 * mn - 1 - zc)
            ms = [top | rng.getrandbits(64 * mn - 1 - zc), top, (top << 1) - 1 if zc or True else top]
            for m in ms:
                if m == 0: continue
                for el in (list(range(0, 22)) if mn <= 2 or thor else [1, 2, 3, 7, 16, 19, 20]):
                    bl = rng.choice([1, max(1, mn - 1), mn, mn, mn + 1, 2 * mn + 3])
                    b = rng.getrandbits(64 * bl) | 1
                    if rng.random() < 0.2: b = m + rng.randrange(3)            # same size, not below m
                    if rng.random() < 0.1: b = m * rng.randrange(1, 1 << 70)   # multiple of m: result 0
                    if rng.random() < 0.5: b = -b
                    yield "mpz_powm_ui_m 0 %s %x %s" % (hx(b), el, hx(m if rng.random() < 0.8 else -m))

    # mpz_powm_m: even moduli of every shape (whole zero limbs, bit shifts, nodd < ncnt, nodd > ncnt), the CRT index flags
    for n in (1, 2, 3, 5, 8) + ((20, 60) if thor else ()):
        for ncnt in sorted(set([0, 1, n // 2, max(0, n - 1)])):
            for cnt in (0, 1, 63):
                nodd_bits = 64 * (n - ncnt) - cnt
                if nodd_bits < 2: continue
                odd = (1 << (nodd_bits - 1)) | rng.getrandbits(nodd_bits - 1) | 1
                m = odd << (64 * ncnt + cnt)
                if m.bit_length() > 64 * n or (ncnt == 0 and cnt == 0): continue
                for e in (2, 3, rng.getrandbits(70) | 1, rng.getrandbits(9) * 2):
                    b = rng.getrandbits(64 * rng.choice([1, n, n + 1])) | rng.choice([0, 1])
                    yield "mpz_powm_m 0 %s %s %s" % (hx(b if rng.random() < 0.7 else -b), hx(e), hx(m))
