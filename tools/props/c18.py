"""C18 — main module (parts: c18_*.py are merged automatically)."""
LEVEL = "proof"
LEAN_MODULES = []
THEOREMS = []
TRUSTED = []
ASSUMPTIONS = []
LEVEL_TEXT = "Lean theorems: MPIR's integer layout equals the C99 specification function for all flag/width/precision combinations; bounded writer never exceeds size and returns full length; asprintf block size. Three-way differential run gmp_snprintf vs model vs glibc over the full cross product."
LEVEL_NOTE = "Length modifiers inside directive lists, the whole-format locality statement, the sufficiency of the digit count requested by doprntf.c and the %F round trip rest on the correspondence run; four deviations of %F from C99 are explicit in the specification function."
PLACEHOLDER = True
