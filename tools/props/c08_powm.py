"""C08 part: mpz_powm / mpz_powm_ui / mpz_pow_ui / mpz_ui_pow_ui and the mpn layer below them
(mpn_powm, mpn_powlo, mpn_redc_1/2/n, mpn_binvert, mpn_pow_1).  Merged into c08.py by check.py."""
import os, re
from genlib import *

LEAN_MODULES = ["MpirProofs.Props.C08"]
THEOREMS = [
    "Mpir.Powm.window_exp_correct",
    "Mpir.Powm.powmE1_spec",
    "Mpir.Powm.mpz_powm_wf",
    "Mpir.Powm.mpz_powm_small_paths_spec",
    "Mpir.Powm.even_modulus_crt",
    "Mpir.Powm.redc_1_spec",
    "Mpir.Powm.mpz_powm_spec",
    "Mpir.Powm.mpn_powm_spec",
    "Mpir.Powm.powlo_spec",
    "Mpir.Powm.binvert_correct",
    "Mpir.Powm.n_pow_ui_spec",
    "Mpir.Powm.powm_ui_spec",
    "Mpir.Powm.powmSpec_char",
    "Mpir.Powm.pow_1_spec",
]
TRUSTED = ["hand-written models lean/Mpir/Model/Powm.lean, tied to the C by differential execution on every run (not by translation): "
           "mpz_powm follows mpz/powm.c statement by statement with the result kept as limb vector + size (MPN_NORMALIZE is the C loop); "
           "win_size/getbits/getbit/modlimb_invert/count_*_zeros are modelled exactly; redc_1/redc_2 are limb-level loops over the kernel "
           "models addmul_1/add_n/sub_n; mpn_powm/powlo/pow_1/n_pow_ui/powm_ui follow the C control flow at value level",
           "kernel models add/sub/rshift/addmul_1 (lean/Mpir/Model/Kernels.lean, C03/C01 correspondence)"]
ASSUMPTIONS = ["in the models mpn_tdiv_qr, mpn_mul/sqr/mullow_n/mul_basecase and mpz_invert (mpz_gcdext) are replaced by their mathematical "
               "meaning (% , *, modular inverse in [0,m)); their own correctness is C01/C02/C07",
               "redc_n, mpn_binvert, redc_2: model results are tied by correspondence; theorems cover redc_n and binvert at value level, redc_2 has no theorem",
               "theorem hypotheses: operands in normal form; modulus below 2^58 limbs (SIZ is a 32-bit int); for pow_ui with |b| >= 2, e < 2^58 (result addressable)"]
RULE = ("moduli: odd, 2^k*odd for k=1..63,64,65,128, 2^k, +-1, +-2, square factors, B^k+small, sizes +-2 around the REDC/Karatsuba "
        "thresholds read from the built tree; bases 0,+-1,m-1,-(m-1),>m, negative shorter than m with m-|b| small, multiples of the odd "
        "part / of the radical, even bases with 1,2,3+ low zero bits, non-invertible with negative e; exponents 0,1,2, every bit "
        "length 1..70, every win_size boundary +-1, all-ones, single bit, multi-limb; alias modes 0..3; distinct = distinct op lines")

# ---------------------------------------------------------------- thresholds of the tree under test
_DEFAULTS = {"REDC_1_TO_REDC_2_THRESHOLD": 15, "REDC_2_TO_REDC_N_THRESHOLD": 100, "REDC_1_TO_REDC_N_THRESHOLD": 100,
             "POWM_THRESHOLD": 146, "BINV_NEWTON_THRESHOLD": 300, "MUL_KARATSUBA_THRESHOLD": 32, "SQR_KARATSUBA_THRESHOLD": 64,
             "MULLOW_DC_THRESHOLD": 32, "DC_BDIV_Q_THRESHOLD": 96, "MUL_TOOM3_THRESHOLD": 128, "DC_DIV_QR_THRESHOLD": 96}

def thresholds(ctx):
    """values of the thresholds that steer the powm code: <build>/gmp-mparam.h, else the gmp-impl.h default"""
    t = dict(_DEFAULTS)
    root = getattr(ctx, "build", None) if ctx is not None else None
    if not root: root = os.environ.get("VERIF_REPO", "/repo")
    def defs(path):
        try: s = open(path, errors="replace").read()
        except OSError: return {}
        d = {}
        for m in re.finditer(r"^#\s*define\s+(\w+_THRESHOLD)\s+(\d+)\b", s, re.M):
            d.setdefault(m.group(1), int(m.group(2)))          # first numeric definition = the #ifndef default
        return d
    impl, tuned = defs(os.path.join(root, "gmp-impl.h")), defs(os.path.join(root, "gmp-mparam.h"))
    for k in t:
        if k in impl: t[k] = impl[k]
    for k in ("DC_BDIV_Q_THRESHOLD", "DC_DIV_QR_THRESHOLD"):    # gmp-impl.h: 3 * MUL_KARATSUBA_THRESHOLD
        if k not in tuned: t[k] = 3 * tuned.get("MUL_KARATSUBA_THRESHOLD", t["MUL_KARATSUBA_THRESHOLD"])
    if "SQR_KARATSUBA_THRESHOLD" not in tuned: t["SQR_KARATSUBA_THRESHOLD"] = 2 * tuned.get("MUL_KARATSUBA_THRESHOLD", t["MUL_KARATSUBA_THRESHOLD"])
    for k in t:
        if k in tuned: t[k] = tuned[k]
    return t

def around(ts, lo=1, hi=10 ** 9):
    s = set()
    for x in ts:
        for d in (-2, -1, 0, 1, 2):
            if lo <= x + d <= hi: s.add(x + d)
    return sorted(s)

# ---------------------------------------------------------------- number makers
def val_of(l):
    v = 0
    for i, x in enumerate(l): v |= x << (64 * i)
    return v

def rnd_n(rng, n, cls=None):
    """a value with exactly n limbs (top limb non-zero)"""
    if n <= 0: return 0
    l = rand_limbs(rng, n, cls)
    if l[-1] == 0: l[-1] = rng.choice([1, 1 << 63, M, rng.getrandbits(64) | 1])
    return val_of(l)

def odd_n(rng, n, cls=None):
    return rnd_n(rng, n, cls) | 1

def exps(rng, tier):
    """the exponent family: 0,1,2, every bit length 1..70, all-ones, single bit, window boundaries, multi-limb"""
    out = [0, 1, 2, 3]
    for k in range(1, 71):
        out.append((1 << (k - 1)) | rng.getrandbits(k - 1) if k > 1 else 1)
        if k in (7, 8, 25, 26, 63, 64, 65, 70) or rng.random() < 0.15:
            out.append((1 << k) - 1); out.append(1 << (k - 1))
    return out

WIN_BOUNDS = [7, 25, 81, 241, 673, 1793, 4609, 11521, 28161]

def exp_bits(rng, bits, cls=None):
    cls = cls or rng.choice(["uniform", "uniform", "runs", "ones", "onebit", "sparse"])
    if bits <= 1: return 1
    top = 1 << (bits - 1)
    if cls == "uniform": return top | rng.getrandbits(bits - 1)
    if cls == "runs": return top | rrandomb(rng, bits - 1)
    if cls == "ones": return (1 << bits) - 1
    if cls == "onebit": return top
    v = top
    for _ in range(rng.randrange(1, 6)): v |= 1 << rng.randrange(bits)
    return v

def moduli(rng, tier, T):
    """list of (tag, m) — m > 0; signs are applied by the caller"""
    out = [("one", 1), ("two", 2)]
    for n in (1, 2, 3, 4):
        out.append(("odd", odd_n(rng, n)))
    for k in list(range(1, 64)) + [64, 65, 127, 128, 129, 192]:
        out.append(("even%d" % k, odd_n(rng, rng.choice([1, 1, 2, 3])) << k))
    for k in [1, 2, 3, 31, 32, 33, 63, 64, 65, 127, 128, 129, 130, 200]:
        out.append(("pow2", 1 << k))
    # odd part shorter / longer than the power-of-two part, odd part = 1 limb with zero top after shift
    for k in (1, 7, 63):
        out.append(("evenshrink", ((1 << rng.randrange(1, k + 1)) | 1) << (64 + k)))   # rshift makes the top limb zero
    for n in (2, 3, 5):
        out.append(("bk+small", (1 << (64 * n)) + rng.choice([1, 2, 3, 5, 0xff, M])))
        out.append(("bk", 1 << (64 * n)))
        out.append(("bk-1", (1 << (64 * n)) - 1))
    # square factors: b = multiple of the radical gives b^e = 0 with non-zero Montgomery residues on the way
    for _ in range(4):
        p = odd_n(rng, 1) ; q = odd_n(rng, rng.choice([1, 2]))
        out.append(("sq", p * p * q)); out.append(("sqeven", (p * p * q) << rng.choice([1, 5, 64, 70])))
        RADICAL[out[-2][1]] = p * q; RADICAL[out[-1][1]] = p * q
    return out

RADICAL = {}   # modulus with a square factor -> p*q with (p*q)^2 = 0 mod odd part: reaches the value m before the final subtraction

def bases_for(rng, m, modd):
    n = (m.bit_length() + 63) // 64
    bs = [0, 1, -1, 2, -2, m - 1, -(m - 1), m, -m, m + 1, 2 * m - 1, -(2 * m - 1), m * m - 1,
          rnd_n(rng, n + rng.choice([1, 2, 5])), -rnd_n(rng, n + 1), rnd_n(rng, max(1, n - 1)), -rnd_n(rng, max(1, n - 1)),
          rng.randrange(m) if m > 1 else 0, -(rng.randrange(m)) if m > 1 else 0]
    if modd > 1:
        bs += [modd, -modd, modd * rng.getrandbits(70), 2 * modd, -(modd * (2 * rng.getrandbits(10) + 1))]
    # even bases with 1, 2, 3, many low zero bits
    for z in (1, 2, 3, 4, 64, 66):
        bs.append((rng.getrandbits(100) | 1) << z); bs.append(-((rng.getrandbits(30) | 1) << z))
    # negative with fewer limbs than m and m - |b| small
    if n >= 2:
        low = m - (1 << (64 * (n - 1)))          # m = B^(n-1) * top + ...
        for eps in (1, 2, rng.getrandbits(20) + 1):
            bb = (1 << (64 * (n - 1))) - eps      # n-1 limbs
            if 0 < bb < m: bs.append(-bb)
    return bs

def minv(m, bits):
    return pow(m, -1, 1 << bits)

# ---------------------------------------------------------------- the op stream
def gen_ops(rng, tier, ctx=None):
    T = thresholds(ctx)
    thor = tier == "thorough"
    E = exps(rng, tier)
    redc_thr = sorted(set([T["REDC_1_TO_REDC_N_THRESHOLD"], T["REDC_1_TO_REDC_2_THRESHOLD"], T["REDC_2_TO_REDC_N_THRESHOLD"]]))
    mul_thr = sorted(set([T["MUL_KARATSUBA_THRESHOLD"], T["SQR_KARATSUBA_THRESHOLD"], T["MULLOW_DC_THRESHOLD"], T["DC_BDIV_Q_THRESHOLD"],
                          T["POWM_THRESHOLD"], T["MUL_TOOM3_THRESHOLD"], T["DC_DIV_QR_THRESHOLD"]]))

    # --- the section-6 defect and its neighbours (always)
    yield "mpz_powm 0 -ffffffffffffffffffffffffffffffff 1 100000000000000000000000000000000"
    for n in (2, 3, 4, 6):
        for eps in (1, 2, 1 << 63, M):
            for delta in (0, 1, rng.getrandbits(64)):
                m = (1 << (64 * (n - 1))) + delta
                b = -((1 << (64 * (n - 1))) - eps)
                for mode in (0, 1, 3):
                    yield "mpz_powm %d %s 1 %s" % (mode, hx(b), hx(rng.choice([m, -m])))
                yield "mpz_powm_ui 0 %s 1 %s" % (hx(b), hx(m))
                yield "mpz_powm 0 %s 3 %s" % (hx(b), hx(m))

    # --- mpz_powm over the modulus / base / exponent families
    mods = moduli(rng, tier, T)
    reps = 3 if thor else 1
    for _ in range(reps):
        for tag, m in mods:
            modd = m
            while modd % 2 == 0: modd //= 2
            bs = bases_for(rng, m, modd)
            if m in RADICAL:
                r = RADICAL[m]
                for b in (r, -r, r * (2 * rng.getrandbits(20) + 1), r + m, 2 * r):
                    for e in (2, 3, 4, 5, 64, 65, rng.choice(E[4:])):
                        yield "mpz_powm %d %s %s %s" % (rng.choice([0, 1, 2, 3]), hx(b), hx(e), hx(rng.choice([m, -m])))
            # every base with a few exponents, every exponent with a few bases
            for b in bs:
                for e in [0, 1, 2, rng.choice(E), rng.choice(E), exp_bits(rng, rng.choice([3, 64, 65, 100, 130]))]:
                    yield "mpz_powm %d %s %s %s" % (rng.choice([0, 0, 1, 2, 3]), hx(b), hx(e), hx(rng.choice([m, m, -m])))
            for e in rng.sample(E, 12 if not thor else 40):
                b = rng.choice(bs)
                yield "mpz_powm %d %s %s %s" % (rng.choice([0, 1, 2, 3]), hx(b), hx(e), hx(rng.choice([m, -m])))
            # negative exponents: invertible and not
            for e in (-1, -2, -3, -rng.choice(E) - 1, -exp_bits(rng, 70)):
                for b in rng.sample(bs, 4) + [modd + 2, -(modd + 2), 3, rnd_n(rng, 3) | 1]:
                    yield "mpz_powm %d %s %s %s" % (rng.choice([0, 1, 2, 3]), hx(b), hx(e), hx(rng.choice([m, -m])))
    # every exponent of the family at least once with an odd and an even modulus (all window widths 1..70 bits)
    for e in E:
        m = odd_n(rng, rng.choice([1, 2, 3]))
        yield "mpz_powm 0 %s %s %s" % (hx(rand_int(rng, 3)), hx(e), hx(m))
        yield "mpz_powm 0 %s %s %s" % (hx(rand_int(rng, 3) | 1), hx(e), hx(m << rng.randrange(1, 140)))
        yield "mpz_powm 0 %s %s %s" % (hx(rand_int(rng, 2)), hx(e), hx(1 << rng.randrange(1, 140)))
    # m = 0
    for b, e in ((0, 0), (5, 0), (5, 1), (-5, 7), (0, 3), (3, -1)):
        yield "mpz_powm 0 %s %s 0" % (hx(b), hx(e))
        if e >= 0: yield "mpz_powm_ui 0 %s %s 0" % (hx(b), hx(e))

    # --- window-size boundaries (exponent bit lengths x[k], x[k]+1) with small moduli: mpz and mpn level
    bounds = WIN_BOUNDS if thor else WIN_BOUNDS[:7]
    for wb in bounds + ([] if thor else [11521]):
        for bits in (wb - 1, wb, wb + 1, wb + 2):
            if bits < 2: continue
            e = exp_bits(rng, bits, rng.choice(["uniform", "runs"]))
            el = limbs_of(e)
            m1 = odd_n(rng, rng.choice([1, 2]))
            yield "mpn_powm %s %s %s" % (vec(limbs_of(rnd_n(rng, 1))), vec(el), vec(limbs_of(m1)))
            yield "mpn_powlo %s %s %x" % (vec(rand_limbs(rng, 2, "uniform")), vec(el), rng.choice([1, 2]))
            if bits <= 2000 or thor:
                yield "mpz_powm 0 %s %s %s" % (hx(rand_int(rng, 2) | 1), hx(e), hx(m1 << rng.choice([0, 3, 64])))

    # --- sizes around the REDC / multiplication thresholds
    for n in around(redc_thr + mul_thr, 1, 400):
        big = n > 40
        for _ in range(1 if big and not thor else 2):
            m = odd_n(rng, n, rng.choice(["uniform", "runs", "ones", "top"]))
            e = exp_bits(rng, rng.choice([2, 5, 9, 30] if big else [2, 8, 26, 70, 130]))
            b = rnd_n(rng, rng.choice([1, n, n + 1]))
            yield "mpn_powm %s %s %s" % (vec(limbs_of(b)), vec(limbs_of(e)), vec(limbs_of(m)))
            yield "mpz_powm 0 %s %s %s" % (hx(-b), hx(e | 1), hx(m))
            yield "mpz_powm 0 %s %s %s" % (hx(m - 1), hx(e | 1), hx(m))             # result m-1: just below the final subtract
            yield "mpz_powm 0 %s %s %s" % (hx(b), hx(e), hx(m << rng.choice([1, 64, 64 * n + 3])))
    # --- mpn_powm small sizes, Montgomery band (b = m-1, 1, m+1; square factors)
    for n in list(range(1, 13)):
        for _ in range(2 if not thor else 6):
            m = odd_n(rng, n)
            for b in (m - 1, 1, m + 1, rnd_n(rng, n), rnd_n(rng, n + 2), rnd_n(rng, max(1, n - 1)), (1 << (64 * n)) - 1):
                e = rng.choice(E[2:]) if rng.random() < 0.7 else exp_bits(rng, rng.randrange(71, 200))
                if e < 2: e = 2
                yield "mpn_powm %s %s %s" % (vec(limbs_of(b) or [0]), vec(limbs_of(e)), vec(limbs_of(m)))
        p = odd_n(rng, max(1, n // 2)); m = p * p * (rnd_n(rng, 1) | 1)
        if (m.bit_length() + 63) // 64 >= 1:
            yield "mpn_powm %s %s %s" % (vec(limbs_of(p * (m // (p * p)))), vec(limbs_of(rng.choice([2, 3, 5, 64]))), vec(limbs_of(m)))

    # --- redc_1 / redc_2 / redc_n
    for n in list(range(1, 21)) + around(redc_thr, 9, 200):
        for _ in range(3 if n <= 20 else 1):
            m = odd_n(rng, n, rng.choice(["uniform", "ones", "runs", "top", "lowbit"])) | 1
            ml = limbs_of(m, n)
            for ucls in ("uniform", "ones", "runs", "zero"):
                u = rand_limbs(rng, 2 * n, ucls)
                inv1 = (-minv(m, 64)) % B
                yield "mpn_redc_1 %s %s %x" % (vec(u), vec(ml), inv1)
                inv2 = (-minv(m, 128)) % (1 << 128)
                yield "mpn_redc_2 %s %s %s" % (vec(u), vec(ml), vec(limbs_of(inv2, 2)))
                if n > 8:
                    yield "mpn_redc_n %s %s %s" % (vec(u), vec(ml), vec(limbs_of(minv(m, 64 * n), n)))
            # u = x * B^n for x < B^n: the last REDC of mpn_powm (high half zero); x = 0, multiples of m
            for x in (0, m, rng.randrange(1 << (64 * n))):
                if x < (1 << (64 * n)):
                    yield "mpn_redc_1 %s %s %x" % (vec(limbs_of(x, 2 * n)), vec(ml), (-minv(m, 64)) % B)
            yield "mpn_redc_1 %s %s %x" % (vec(rand_limbs(rng, 2 * n, "uniform")), vec(ml), rng.getrandbits(64))   # any Nprim
            yield "mpn_redc_2 %s %s %s" % (vec(rand_limbs(rng, 2 * n, "uniform")), vec(ml), vec(rand_limbs(rng, 2, "uniform")))

    # --- binvert
    bsz = list(range(1, 41)) + around([T["DC_BDIV_Q_THRESHOLD"], T["BINV_NEWTON_THRESHOLD"], 2 * T["BINV_NEWTON_THRESHOLD"]], 1, 700)
    for n in sorted(set(bsz)):
        d = rand_limbs(rng, n + rng.choice([0, 0, 1]), rng.choice(["uniform", "ones", "runs", "lowbit", "sparse"]))
        d[0] |= 1
        yield "mpn_binvert %s %x" % (vec(d), n)

    # --- powlo
    for n in list(range(1, 9)) + around([T["MULLOW_DC_THRESHOLD"], T["MUL_KARATSUBA_THRESHOLD"]], 1, 80):
        for _ in range(3):
            b = rand_limbs(rng, n + rng.choice([0, 0, 2]))
            e = rng.choice(E[2:]) if rng.random() < 0.6 else exp_bits(rng, rng.randrange(65, 200))
            if e < 2: e = 2
            yield "mpn_powlo %s %s %x" % (vec(b), vec(limbs_of(e)), n)

    # --- pow_1
    for bn in (1, 2, 3, 5):
        for e in list(range(0, 20)) + [31, 32, 33, 63, 64]:
            if bn * e > 200: continue
            b = limbs_of(rnd_n(rng, bn, rng.choice(["uniform", "ones", "lowbit", "top"])), bn)
            yield "mpn_pow_1 %s %x" % (vec(b), e)
    for b in (1, 2, 3, M, 1 << 32, (1 << 32) - 1):
        for e in (0, 1, 2, 3, 7, 8, 64, 65, 100):
            yield "mpn_pow_1 [%x] %x" % (b, e)

    # --- mpz_powm_ui: both sides of the e = 20 deflection, normalised and unnormalised moduli, huge bases
    for el in list(range(0, 26)) + [63, 64, 1 << 32, M]:
        for _ in range(4 if not thor else 12):
            n = rng.choice([1, 1, 2, 3, 5])
            m = rnd_n(rng, n, rng.choice(["uniform", "ones", "top", "lowbit", "runs"]))
            if rng.random() < 0.3: m |= 1 << (64 * n - 1)          # already normalised
            if rng.random() < 0.2: m = rng.choice([1, 2, 1 << 63, 1 << 64, (1 << 64) - 1, 1 << (64 * n - 1)])
            nn = (m.bit_length() + 63) // 64
            for b in (rng.choice([0, 1, -1, m - 1, -(m - 1), m, m + 1]), rnd_n(rng, nn), -rnd_n(rng, nn), rnd_n(rng, nn + rng.choice([1, 3])),
                      (1 << (64 * nn)) - 1, -((1 << (64 * nn)) - 1), rnd_n(rng, max(1, nn - 1))):
                yield "mpz_powm_ui %d %s %x %s" % (rng.choice([0, 0, 1, 3]), hx(b), el, hx(rng.choice([m, m, -m])))

    # --- mpz_pow_ui / mpz_ui_pow_ui
    smalls = [0, 1, 2, 3, 5, 10, (1 << 16) - 1, 1 << 16, (1 << 32) - 1, 1 << 32, (1 << 32) + 1, M, M - 1, 1 << 63, 3 << 40, 12 << 20]
    for b in smalls:
        for e in [0, 1, 2, 3, 4, 5, 7, 8, 15, 16, 17, 31, 32, 33, 40, 63, 64, 65, 100]:
            if b > 3 and b.bit_length() * e > 20000: continue
            yield "mpz_ui_pow_ui %x %x" % (b, e)
            yield "mpz_pow_ui %s %x" % (hx(-b), e)
            yield "mpz_pow_ui %s %x 1" % (hx(b), e)
    for b in (0, 1, -1):
        for e in (1 << 32, M, M - 1, 1 << 63):
            yield "mpz_pow_ui %s %x" % (hx(b), e)
            if b >= 0: yield "mpz_ui_pow_ui %x %x" % (b, e)
    for _ in range(150 if not thor else 600):
        n = rng.choice([1, 1, 2, 2, 3, 4, 6])
        b = rnd_n(rng, n)
        z = rng.choice([0, 0, 1, 3, 31, 32, 33, 63, 64, 65, 128, 130])
        b = (b | rng.choice([0, 1])) << z
        if rng.random() < 0.3: b = ((rng.getrandbits(rng.randrange(1, 40)) | 1) << rng.randrange(0, 130))   # 2-3 limbs that shrink to one after the shift
        e = rng.choice([0, 1, 2, 3, 4, 5, 6, 7, 9, 12, 16, 21, 33])
        if b.bit_length() * e > 40000: e = 2
        yield "mpz_pow_ui %s %x%s" % (hx(rng.choice([b, -b])), e, rng.choice(["", "", " 1"]))
        if b < B: yield "mpz_ui_pow_ui %x %x" % (b, e)

def nontrivial(line):
    op = line.split(" ", 1)[0]
    if op in ("mpz_powm", "mpz_powm_ui"):
        t = line.split(" ")
        return line if (t[3] not in ("0", "1") and t[4] not in ("0", "1", "-1")) else None
    return line
