"""C14 — main module (parts: c14_*.py are merged automatically)."""
LEVEL = "proof"
LEAN_MODULES = []
THEOREMS = []
TRUSTED = []
ASSUMPTIONS = []
LEVEL_TEXT = 'Every assembly kernel the host can execute is assembled from the source and run against the same Lean limb-level model as its C counterpart; threshold-parametric theorems are instantiated for every shipped gmp-mparam.h vector (regenerated) and the library is rebuilt per tuning table / build option in the thorough tier.'
LEVEL_NOTE = 'Equivalence of assembly and C is differential, not a proof about assembly text; kernels the host cannot run are listed, not checked.'
PLACEHOLDER = True
