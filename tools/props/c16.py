"""C16 — main module (parts: c16_*.py are merged automatically)."""
LEVEL = "proof"
LEAN_MODULES = []
THEOREMS = []
TRUSTED = []
ASSUMPTIONS = []
LEVEL_TEXT = 'Lean theorems: regenerated tables (Fibonacci, factorial, inverse, primes) are correct for every entry; fib2_ui doubling formulas; factorial/binomial small algorithms; Miller-Rabin never rejects a prime. Differential run across every table/algorithm crossover.'
LEVEL_NOTE = "Probabilistic compositeness (a composite surviving the Miller-Rabin rounds) and BPSW below 2^64 rest on the correspondence with a deterministic oracle; callees of the bdiv binomial model are taken at their meaning."
PLACEHOLDER = True
