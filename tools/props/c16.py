"""C16 — main module (parts: c16_*.py are merged automatically)."""
LEVEL = "proof"
LEAN_MODULES = []
THEOREMS = []
TRUSTED = []
ASSUMPTIONS = []
LEVEL_TEXT = 'Lean theorems: regenerated tables (Fibonacci, factorial, inverse, primes) are correct for every entry; fib2_ui doubling formulas; factorial/binomial small algorithms; Miller-Rabin never rejects a prime. Differential run across every table/algorithm crossover.'
LEVEL_NOTE = "Probabilistic compositeness (a composite surviving the Miller-Rabin rounds), BPSW below 2^64, the small-k and bdiv binomial algorithms and mpz_mfac_uiui beyond a grid rest on the correspondence with a deterministic oracle."
PLACEHOLDER = True
