"""C18, float layout — printf/doprntf.c = the C99-style specification specF (part of C18, merged by check.py)."""
from fractions import Fraction
from genlib import *

LEAN_MODULES = ["MpirProofs.Props.C18_flayout"]
THEOREMS = ["Mpir.PrintfF.doprntf_eq_spec", "Mpir.PrintfF.doprntf_eq_spec_any", "Mpir.PrintfF.doprntf_eq_spec_string",
            "Mpir.PrintfF.doFloat_is_floatParams"]
TRUSTED = ["hand-written model lean/Mpir/Model/PrintfF.lean of printf/doprntf.c (request, layoutOn) and of the float part of printf/doprnt.c (floatParams), "
           "tied by the ops doprnt_mpf_direct (__gmp_doprnt_mpf2 called with an arbitrary struct doprnt_params_t; Lean: layoutOn on the bit-exact mpf_get_str model "
           "MpfStr.get_digits, any number of limbs) and gmp_snprintf_Fspec (gmp_snprintf; Lean: specF on the same digits, `!getok` if the hypothesis of doprntf_eq_spec "
           "fails for them); harness/ops_flayout.c, lean/Mpir/Ops/PrintfF.lean",
           "specF is written from ISO C99 7.19.6.1 (f e E g G a A); its four deviations from C99 (D-F1 %#g of values below 1, D-F2 double rounding, D-F3 ties away "
           "from zero, D-F4 %#a without a point) are part of the definition and documented there"]
ASSUMPTIONS = ["doprntf_eq_spec: the digits come from mpf_get_str meeting its specification MpfStr.GetOk for the digit count worked to (C13 owns mpf_get_str); "
               "the layout equality itself only uses `the empty string comes with exponent 0` (doprntf_eq_spec_any)",
               "the decimal point is `.` (GMP_DECIMAL_POINT in the C locale)"]
RULE = ("%F grid: 12 flag lists x width {none,12,30,*,-*} x precision {none,.,.0,.1,.3,.10,.25,.*,.* negative} x f e E g G a A x values: 0, exact ties 0.5*10^k and "
        "x.5, x.125, carries 9.99..->10.0 at every precision used (style change of %g), 10^k boundaries of the %g rule (1e-5..1e-4, 10^P), mantissas of 1..6 limbs "
        "(the Lean side runs the bit-exact mpf_get_str model), tiny values with limb exponent <= -2 and precisions reaching their digits; doprnt_mpf_direct: random "
        "struct doprnt_params_t (bases 10, -10, 16, -16, every justify/showbase value, conv 1..3, prec -1..60); distinct = distinct op lines")

def fval(m, e2):
    """tokens `exp size [limbs]` of the mpf with value m * 2^e2"""
    neg = m < 0; m = abs(m)
    if m == 0: return "0 0 []"
    sh = e2 % 64; m <<= sh; e2 -= sh
    while m % B == 0: m >>= 64; e2 += 64
    l = limbs_of(m); n = len(l)
    return "%s %s %s" % (hx(e2 // 64 + n), hx(-n if neg else n), vec(l))

def approx(fr, bits):
    """(m, e2) with m * 2^e2 the `bits`-bit truncation of the positive fraction fr (exact when fr is dyadic and fits)"""
    fr = Fraction(fr)
    if fr == 0: return (0, 0)
    sgn = -1 if fr < 0 else 1; fr = abs(fr)
    e = 0
    while fr >= (1 << bits): fr /= 2; e += 1
    while fr < (1 << (bits - 1)): fr *= 2; e -= 1
    m = fr.numerator // fr.denominator
    while m % 2 == 0 and m: m >>= 1; e += 1
    return (sgn * m, e)

def line(fmt, stars, bits, m, e2, size=0x400):
    nl = len(limbs_of(abs(m) << (e2 % 64))) if m else 0
    bits = max(bits, 64 * (nl - 1)) if nl else bits          # n <= prec + 1
    return "gmp_snprintf_Fspec %x %s %s%x %s" % (size, sbytes(fmt), "".join(hx(x) + " " for x in stars), bits, fval(m, e2))

FLS = ["", "-", "+", " ", "#", "0", "-#", "+0", " #0", "-0", "+ ", "#0+"]
def widths(rng): return [("", None), ("12", None), ("30", None), ("*", rng.choice([0, 9, 20])), ("*", -rng.choice([7, 15]))]
def precs(rng): return [("", None), (".", None), (".0", None), (".1", None), (".3", None), (".10", None), (".25", None), (".*", rng.choice([0, 2, 7])), (".*", -rng.choice([1, 5]))]

def special_values(rng):
    F = Fraction
    vals = [F(0), F(1), F(-1), F(1, 2), F(5, 2), F(25, 2), F(3, 2), F(1, 8), F(5), F(50), F(5000), F(1, 16), F(-5, 8), F(7, 2) * 10 ** 3, F(15, 2),
            F(999999, 1), F(9999995, 10), F(99999, 1), F(100000, 1), F(1000000, 1), F(10 ** 15), F(10 ** 19), F(2 ** 64), F(2 ** 64 - 1), F(1, 2 ** 64), F(2 ** 127),
            F(1, 10 ** 4), F(1, 10 ** 5), F(99996, 10 ** 9), F(99995, 10 ** 9), F(1, 3), F(2, 3), F(-1, 7)]
    for k in range(0, 12):                                   # 9.99..96: carries at every precision
        vals.append(F(10 ** (k + 1) - 4, 10 ** k)); vals.append(F(10 ** (k + 1) - 5, 10 ** (k + 1))); vals.append(-F(10 ** (k + 2) - 5, 10 ** k))
    for k in (-6, -5, -4, -3, 0, 1, 5, 6, 7, 10, 25):        # boundaries of the %g rule
        vals.append(F(10) ** k); vals.append(F(10) ** k * F(99999995, 10 ** 8)); vals.append(F(10) ** k * F(15, 10))
    return vals

def fgrid(rng, tier):
    vals = special_values(rng)
    nv = 2 if tier == "quick" else 14
    for fl in FLS:
        for (w, ws) in widths(rng):
            for (p, ps) in precs(rng):
                for c in "feEgGaA":
                    stars = [x for x in (ws, ps) if x is not None]
                    for v in rng.sample(vals, nv):
                        bits = rng.choice([64, 80, 128, 256])
                        m, e = approx(v, rng.choice([53, 64, 100, 128, bits]))
                        yield line("%" + fl + w + p + "F" + c, stars, bits, m, e, rng.choice([0x400, 0x400, 0x400, 9, 1, 0]))
                    # a mantissa of several limbs: only the bit-exact mpf_get_str model can follow
                    n = rng.choice([1, 2, 3, 4, 6])
                    m = (rng.getrandbits(64 * n) | 1 | (1 << (64 * n - 1))) * rng.choice([1, -1])
                    yield line("%" + fl + w + p + "F" + c, stars, 64 * n, m, rng.randrange(-64 * n - 130, 130 - 64 * n))

def corners(rng, tier):
    F = Fraction
    # every special value under the precisions where the proof splits: 0 with and without #, ties, carries
    for v in special_values(rng):
        for fmt in ("%.0Ff", "%#.0Ff", "%.1Ff", "%.3Ff", "%Ff", "%.Ff", "%.0Fe", "%#.0Fe", "%.2Fe", "%.Fe", "%Fg", "%#Fg", "%.0Fg", "%#.0Fg", "%.1Fg", "%#.3Fg",
                    "%.5Fg", "%.Fg", "%#.Fg", "%Fa", "%.0Fa", "%#.0FA", "%.3Fa", "%+012.4Ff", "%-12.2Fe", "% 012Fg"):
            m, e = approx(v, 128)
            yield line(fmt, [], 128, m, e)
    # tiny values (limb exponent <= -2) with precisions that reach their digits: the digit-count estimate of doprntf.c:95-97
    for e in range(-70, -470, -37 if tier == "quick" else -9):
        for m in (1, 11, 12345, rng.getrandbits(40) | 1, rng.getrandbits(64) | 1, rng.getrandbits(150) | 1):
            for p in (".25", ".59", ".60", ".80", ".120", ".150"):
                bits = rng.choice([64, 128, 256])
                yield line("%" + rng.choice(["", "#", "+"]) + p + "Ff", [], bits, m * rng.choice([1, -1]), e)
    # large values: the integer part estimate (EXP(f) >= 1) and the cap at MPF_SIGNIFICANT_DIGITS
    for e in (0, 1, 63, 64, 65, 127, 128, 200, 700):
        for m in (1, 3, 10 ** 19 + 1, rng.getrandbits(128) | 1):
            for fmt in ("%.0Ff", "%.3Ff", "%Ff", "%.40Ff", "%Fg", "%.30Fg", "%.25Fe"):
                yield line(fmt, [], rng.choice([64, 256, 512]), m, e)

def direct(rng, tier):
    n = 1500 if tier == "quick" else 12000
    for _ in range(n):
        base = rng.choice([10, 10, -10, 16, -16])          # charsPerLimb of the model covers the bases printf uses
        conv = rng.choice([1, 2, 3])
        hexp = int(abs(base) == 16 and rng.random() < 0.7)
        fill = rng.choice([0x20, 0x20, 0x30, 0x2a])
        just = rng.randrange(0, 4)
        prec = rng.choice([-1, -1, 0, 1, 2, 3, 6, 10, 17, 25, 60])
        sign = rng.choice([0, 0, 0x2b, 0x20])
        width = rng.choice([0, 0, 1, 5, 12, 30, 60])
        bits = rng.choice([64, 128, 256])
        if rng.random() < 0.5:
            v = rng.choice(special_values(rng)); m, e = approx(v, rng.choice([53, 64, 128]))
        else:
            nl = rng.choice([1, 2, 3]); m = (rng.getrandbits(64 * nl) | 1) * rng.choice([1, -1]); e = rng.randrange(-64 * nl - 200, 200 - 64 * nl)
        nl = len(limbs_of(abs(m) << (e % 64))) if m else 0
        if nl: bits = max(bits, 64 * (nl - 1))
        yield "doprnt_mpf_direct %s %x %x %x %x %x %x %s %x %x %x %x %x %x %s" % (
            hx(base), conv, hexp, rng.randrange(2), int(hexp and rng.random() < 0.8), fill, just, hx(prec), rng.choice([1, 2, 2, 3]), rng.randrange(2), rng.randrange(2),
            sign, width, bits, fval(m, e))

def gen_ops(rng, tier, ctx=None):
    yield from corners(rng, tier)
    yield from fgrid(rng, tier)
    yield from direct(rng, tier)

PINS = [('printf/doprntf.c', None), ('printf/doprnt.c', '__gmp_doprnt')]
