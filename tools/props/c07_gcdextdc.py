"""C07 part: the divide-and-conquer range of mpn_gcdext proved from the mpn_hgcd contract (lean/MpirProofs/Props/C07_gcdextdc.lean).
The model is `Mpir.Gcdext.mpnGcdextS` of part c07_gcdext (ops mpn_gcdext_sz / mpn_gcdext_sz_p of harness/ops_gcdext.c); this part adds the
theorems and inputs for the exits the proof distinguishes after the loop: a = b, gcd found by the hook inside the first round / the loop,
lehmer_un == 0, compute_v == 0, hgcd failing in the first round (one operand much shorter at the top)."""
from props import c07_gcd as base
from props import c07_gcdext as gx
from genlib import *

LEAN_MODULES = ["MpirProofs.Props.C07_gcdextdc"]
THEOREMS = ["Mpir.C07dc.hgcd_mul_matrix_vector_correct", "Mpir.C07dc.compute_v_correct",
            "Mpir.C07dc.mpn_gcdext_dc_correct_partial", "Mpir.C07dc.mpn_gcdext_dc_build_partial"]
TRUSTED = []
ASSUMPTIONS = ["mpn_gcdext_dc_correct_partial: divisors with n - n/3 >= HGCD_REDUCE_THRESHOLD limbs (n > 10276 on this build) rest on the run (mpn_hgcd_appr's "
               "truncation analysis is not proved); the flag `no store outside the (n+1)-limb cofactor buffers` is proved from the C's own "
               "ASSERT (M.n <= (n - p - 1)/2) on mpn_hgcd's result (hypothesis HgcdMn: needs the normalisation argument of mpn_hgcd_matrix_mul) — "
               "values, sizes and the contract do not depend on it"]
PINS = [("mpn/generic/gcdext.c", "hgcd_mul_matrix_vector"), ("mpn/generic/gcdext.c", "compute_v"), ("mpn/generic/gcdext.c", "mpn_gcdext")]

def nl(x): return (x.bit_length() + 63) // 64

def gen_ops(rng, tier, ctx=None):
    th = base.thresholds(ctx)
    DC = th["GCDEXT_DC_THRESHOLD"]
    if DC > 1200: return
    T = "%x %x %x %x %x" % (th["HGCD_THRESHOLD"], th["HGCD_APPR_THRESHOLD"], th["HGCD_REDUCE_THRESHOLD"], th["MATRIX22_STRASSEN_THRESHOLD"], DC)
    def emit(a, b):
        if b <= 0 or nl(a) < nl(b): return
        line = "%s %s %s" % (T, gx.V(a), gx.V(b))
        yield "mpn_gcdext_sz " + line
        yield "mpn_gcdext_sz_p " + line
    def rl(n): return rng.getrandbits(64 * n) | 1 << (64 * n - 1) | 1
    reps = 1 if tier == "quick" else 4
    for _ in range(reps):
        for n in (DC, DC + 1, DC + 7):
            # hgcd fails in the FIRST round (huge first quotient at the top: b = q a' + small with a' short): subdiv step with u0 = 0, u1 = 1
            s = rl(n // 3); q = rl(n - n // 3)
            yield from emit(q * s + rl(2), s * (1 << (64 * (n - nl(s)))) + rl(3))
            # gcd found by the hook inside the first round: a = k b
            b = rl(n)
            yield from emit(b * rl(1), b)
            yield from emit(b + b, b)
            # a = b after the loop / b = 2g at the loop exit
            g = rl(DC - 1)
            for k in (1, 2, 5): yield from emit((2 * k + 1) * g, 2 * g)
            # the loop is left with {q g, g}: lehmer_un == 0 or compute_v == 0 (both orientations)
            for flip in (0, 1):
                a, b = gx.dc_exit_div(rng, DC, flip)
                yield from emit(a, b)
            # one round exactly: Fibonacci-like chain so that the size drops below DC after the first round
            a, b = gx.chain(rng, n, huge=0.0)
            yield from emit(a, b)
            # a cofactor at its bound: b odd, a = b - 2 (+ multiples): S = (b-1)/2
            bo = rl(n) | 1
            yield from emit(bo - 2 + bo * rng.randrange(0, 3), bo)
