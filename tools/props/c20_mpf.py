"""C20 (part) — mpf_class expressions: theorems on lean/Mpir/Model/CxxF.lean (function objects and the
expression-template strategy over the bit-exact mpf model of C13).  The tie to mpirxx.h is made by the
generated C++ programs of c20_cxx.py: every mpf statement is answered by the driver op `cxx_evalf`
(lean/Mpir/Ops/CxxF.lean) limb for limb (mantissa limbs, exponent, _mp_prec, |_mp_size|) and compared with
the C++ result and with the explicit C evaluation."""
LEAN_MODULES = ["MpirProofs.Props.C20_mpf"]
THEOREMS = ["Mpir.CxxF.fnobj_spec_f", "Mpir.CxxF.fnobj_spec_f_un", "Mpir.CxxF.expr_eval_correct_f", "Mpir.CxxF.alias_independent_f"]
# the model is a hand transcription of the mpf overloads of the function objects, of __gmp_temp<mpf_t>, of the __gmp_set_expr(mpf_ptr, ...)
# conversions and of the get_prec() members of this header
PINS = [("mpirxx.h", None)]
TRUSTED = ["lean/Mpir/Model/CxxF.lean part 2: hand transcription of the mpf overloads of __gmp_unary_*/__gmp_binary_*/__gmp_hypot_function::eval, of "
           "__gmp_temp<mpf_t>, __gmp_set_expr(mpf_ptr, ...) and get_prec() (validated on every run: the driver executes execF next to execTmpF for both answers of "
           "__builtin_constant_p and answers !strategy on any difference; every answer is compared limb for limb with the C++ program)",
           "lean/Mpir/Model/Mpf.lean: the bit-exact meaning of mpf_add/sub/mul/div/sqrt/set/neg/abs/floor/ceil/trunc/mul_2exp/div_2exp/*_ui/set_z/set_q/set_d "
           "(tied to the C by property C13's correspondence run) and that these functions read their sources before writing the destination (C05)",
           "value-level meaning of mpz_set_f / mpq_set_f (truncation / exact value) and of mpf_cmp_ui/si/d (exact comparison) in CxxF.fTrunc/fRat/cmpFV"]
ASSUMPTIONS = ["mpf theorems (fnobj_spec_f, expr_eval_correct_f, alias_independent_f) assume the mpf format rules for every variable (at most prec+1 limbs: violated only after "
               "mpf_set_prec_raw) and prec >= 2 limbs (every mpf_init2); they cover assignments and compound assignments into an mpf_class target; constructors from expressions, "
               "conversions of an mpf expression into mpz_class/mpq_class, comparisons and sgn on mpf operands (temporaries of get_prec() of the expression) are modelled "
               "(execF/execTmpF, same op) and tied by the correspondence run only",
               "mpf_get_default_prec() is 64 bits in the generated programs (never changed)"]
