"""C07 part: gcd / gcdext / lcm / invert / Jacobi–Kronecker — generators, theorem registry."""
import os, re
from genlib import *

LEAN_MODULES = ["MpirProofs.Props.C07"]
THEOREMS = ["Mpir.C07.red_preserves", "Mpir.C07.gcd_loop_correct", "Mpir.C07.gcd_loop_terminates",
            "Mpir.C07.mpn_gcd_correct_partial", "Mpir.C07.mpn_gcdext_identity_partial",
            "Mpir.C07.hgcd2_exact", "Mpir.C07.hgcd2_contract", "Mpir.C07.mpn_gcd_correct", "Mpir.C07.mpn_gcdext_identity", "Mpir.C07.mpz_gcd_lcm_correct",
            "Mpir.C07.gcd_1_spec", "Mpir.C07.div1_div2_spec", "Mpir.C07.gcdext_1_spec",
            "Mpir.C07.mpz_gcd_spec", "Mpir.C07.mpz_gcdext_spec", "Mpir.C07.gcdext_unique", "Mpir.C07.invert_spec", "Mpir.C07.mpz_gcd_ui_spec", "Mpir.C07.lcm_spec",
            "Mpir.C07.jacobi_base_spec", "Mpir.C07.kronecker_spec",
            "Mpir.C07.kronecker_wrappers_spec", "Mpir.C07.mpz_jacobi_spec"]
TRUSTED = ["hand-written models lean/Mpir/Model/Gcd.lean (tied by correspondence on every run)",
           "assembly kernel mpn_modexact_1c_odd is modelled by its documented contract (r < d, r*B^n + a = 0 mod d) and compared on every run",
           "mpn_hgcd / hgcd_appr / hgcd_reduce / matrix22_mul (sizes above the DC thresholds) are covered by the differential run and the abstract step theorem (red_preserves / gcd_loop_correct) only",
           "the contract of mpn_hgcd2 (Hgcd2Contract: unimodular, not identity, M^-1(a;b) positive, at most one limb lost) is PROVED for the hgcd2 model (hgcd2_contract, hgcd2_exact) and additionally checked at run time on every hgcd2 call of the model's Lehmer loop and on every mpn_hgcd2 op; the hgcd2 model itself is compared bit-exactly (mpn_hgcd2_x)"]
ASSUMPTIONS = ["mpz_gcd_spec / lcm_spec assume MpnGcdContract, which is proved outright for the Lehmer model (mpn_gcd_correct, using hgcd2_contract; mpz_gcd_lcm_correct is the hypothesis-free corollary); mpz_gcdext_spec / invert_spec assume MpnGcdextContract (mpn_gcdext's documented normalisation |S| < V/(2G); only the identity part is proved for the model (mpn_gcdext_identity, no hgcd2 assumption left), the bound is checked by the predicate op mpn_gcdext on every run)",
               "mpn_gcdext for n >= GCDEXT_DC_THRESHOLD and mpn_jacobi_n are modelled by their specification (unique answer), not step by step; mpn_jacobi_2 is mirrored and asserted equal to the specification at run time"]
RULE = ("gcd-family operand pairs: consecutive Fibonacci numbers and perturbations, continued fractions run backwards from (g, q_1..q_k) with "
        "quotients 1/2/B-1/B/B+1/2^63/2^32/multi-limb, a=b, b|a, |b|=2g, |a|=2g, zeros, huge common factors, powers of two, limb-size differences 0..3 and large, "
        "sizes +-2 around HGCD/GCD_DC/GCDEXT_DC/MATRIX22_STRASSEN/HGCD_APPR thresholds of the build, all sign combinations, all alias modes; "
        "Kronecker: residues mod 8 x signs x zero x even lower argument x low zero limbs, primes squared, (a/1), (a/-1), (0/+-1), (a/0), long/ulong extremes; "
        "distinct = distinct op lines")

DEFAULTS = {"HGCD_THRESHOLD": 400, "HGCD_APPR_THRESHOLD": 400, "HGCD_REDUCE_THRESHOLD": 1000, "GCD_DC_THRESHOLD": 1000,
            "GCDEXT_DC_THRESHOLD": 600, "MATRIX22_STRASSEN_THRESHOLD": 30}

def thresholds(ctx):
    th = dict(DEFAULTS)
    build = getattr(ctx, "build", None) if ctx is not None else None
    for root in ([build] if build else []) + [os.environ.get("VERIF_REPO", "/repo")]:
        for fn in ("gmp-impl.h", "gmp-mparam.h"):      # mparam overrides the gmp-impl.h defaults
            try: txt = open(os.path.join(root, fn)).read()
            except OSError: continue
            for k in DEFAULTS:
                m = re.findall(r"^#define\s+%s\s+(\d+)\s*(?:/\*.*)?$" % k, txt, re.M)
                if m: th[k] = int(m[0] if fn == "gmp-impl.h" else m[-1])
        if build: break
    return th

def fib_pair(k):
    a, b = 0, 1
    for _ in range(k): a, b = b, a + b
    return b, a          # F(k+1), F(k)

QSPECIAL = [1, 1, 1, 2, 3, B - 1, B, B + 1, 1 << 63, (1 << 63) - 1, (1 << 63) + 1, 1 << 32, (1 << 32) - 1, (1 << 32) + 1, 1 << 31, 1 << 33]
def rand_q(rng, big=True):
    r = rng.random()
    if r < 0.45: return 1
    if r < 0.6: return rng.randrange(2, 8)
    if r < 0.8 or not big: return rng.choice(QSPECIAL)
    if r < 0.9: return rng.getrandbits(rng.randrange(1, 200)) + 1
    return 1 << rng.randrange(1, 130)

def cf_back(g, qs):
    """run the continued fraction backwards: remainders r_k = g, r_{k+1} = 0, r_{i-1} = q_i r_i + r_{i+1}"""
    a, b = g, 0
    for q in reversed(qs): a, b = q * a + b, a
    return a, b          # a >= b, gcd = g, quotient sequence qs (last q >= 2 for it to be the canonical expansion)

def rand_nat(rng, limbs):
    if limbs <= 0: return 0
    v = 0
    for i, x in enumerate(rand_limbs(rng, limbs)): v |= x << (64 * i)
    return v

def nat_bits(rng, bits):
    return rng.getrandbits(bits) | (1 << (bits - 1)) if bits > 0 else 0

def cf_limbs(rng, limbs, g=1, allones=False):
    """pair of about `limbs` limbs with chosen quotients"""
    qs = []; a, b = g, 0
    target = 64 * limbs
    while a.bit_length() < target:
        q = 1 if allones else rand_q(rng)
        if a.bit_length() + q.bit_length() > target + 8: q = 1 + rng.getrandbits(3)
        a, b = q * a + b, a
    return a, b

def sized_pair(rng, n, d=0):
    """(a, b): a has n + d limbs, b has n limbs, various structure"""
    k = rng.randrange(6)
    if k == 0: return rand_nat(rng, n + d) | (1 << (64 * (n + d) - 1)), rand_nat(rng, n) | (1 << (64 * n - 1))
    if k == 1:
        a, b = cf_limbs(rng, n)
        return a + (rand_nat(rng, d) << (64 * n) if d else 0), b
    if k == 2:
        g = rand_nat(rng, max(1, n // 2)) | 1
        a, b = cf_limbs(rng, max(1, n - n // 2))
        return a * g * (rand_nat(rng, d) + 1 if d else 1), b * g
    if k == 3:
        a, b = cf_limbs(rng, n, allones=True)
        return a, b
    if k == 4: return rrandomb(rng, 64 * (n + d)) | (1 << (64 * (n + d) - 1)), rrandomb(rng, 64 * n) | 1 << (64 * n - 1)
    g = 1 << rng.randrange(0, 64 * max(1, n // 2))
    return (rand_nat(rng, max(1, n + d - n // 2)) | 1) * g, (rand_nat(rng, max(1, n - n // 2)) | 1) * g

def signs(rng, a, b):
    s = rng.randrange(4)
    return (-a if s & 1 else a), (-b if s & 2 else b)

def gcd_pairs(rng, tier, th):
    """(a, b) integer pairs for the mpz gcd family"""
    quick = tier == "quick"
    # small exhaustive grid with all signs
    for a in range(-9, 10):
        for b in range(-9, 10): yield a, b
    # zeros, equal, divisibility, |b| = 2g, |a| = 2g
    for _ in range(30 if quick else 150):
        n = rng.choice([1, 1, 2, 3, 5, 9])
        x = rand_nat(rng, n) or 1; g = rand_nat(rng, rng.choice([1, 1, 2, 4])) or 1; k = rand_q(rng)
        for p in [(0, 0), (0, x), (x, 0), (x, x), (x, -x), (-x, x), (k * x, x), (x, k * x), (-k * x, x),
                  ((2 * k + 1) * g, 2 * g), ((2 * k + 1) * g, -2 * g), (-(2 * k + 1) * g, 2 * g), (2 * g, (2 * k + 1) * g), (-2 * g, (2 * k + 1) * g),
                  (2 * g, g), (g, 2 * g), (3 * g, 2 * g), (2 * g, 3 * g), (g, 1), (1, g), (g, -1), (-1, g), (g + 1, g), (g, g + 1), (2 * g + 1, g),
                  (x << 64, x), (x << 128, x << 64), (x * B, B), (B, x * B)]:
            yield p
    # Fibonacci: all quotients 1 (plus perturbations and common factors)
    ks = list(range(1, 100)) + [rng.randrange(100, 2000) for _ in range(8 if quick else 60)]
    for k in ks:
        a, b = fib_pair(k)
        yield a, b
        yield signs(rng, b, a)
        if k % 7 == 0 or k > 100:
            yield signs(rng, a + rng.choice([-1, 1, 2, -2]), b)
            yield signs(rng, a, b + rng.choice([-1, 1]))
            g = rand_nat(rng, rng.choice([1, 2, 5]))  or 3
            yield signs(rng, a * g, b * g)
    # explicit quotient sequences
    for _ in range(400 if quick else 6000):
        g = rng.choice([1, 1, 2, 3, B - 1, B, 1 << 63, rand_nat(rng, rng.choice([1, 2, 3])) or 1])
        qs = [rand_q(rng) for _ in range(rng.randrange(1, rng.choice([4, 12, 40])))]
        if qs[-1] == 1: qs[-1] = 2
        a, b = cf_back(g, qs)
        yield signs(rng, a, b)
        if rng.random() < 0.3: yield signs(rng, b, a)
    # powers of two and mixed
    for _ in range(40 if quick else 300):
        i, j = rng.randrange(0, 400), rng.randrange(0, 400)
        x, y = rand_nat(rng, rng.choice([1, 2, 3])) | 1, rand_nat(rng, rng.choice([1, 2, 3])) | 1
        yield signs(rng, 1 << i, 1 << j)
        yield signs(rng, x << i, y << j)
        yield signs(rng, x << i, 1 << j)
        yield signs(rng, (x << i) * y, y << j)
    # size differences
    for n in list(range(1, 12)) + ([20, 40] if quick else [20, 40, 80, 150]):
        for d in (0, 1, 2, 3, 10) if quick else (0, 1, 2, 3, 7, 10, 50):
            for _ in range(2 if quick else 6):
                a, b = sized_pair(rng, n, d)
                yield signs(rng, a, b)
                yield signs(rng, b, a)
    # thresholds +-2
    ts = sorted(set(th[k] for k in ("HGCD_THRESHOLD", "GCD_DC_THRESHOLD", "GCDEXT_DC_THRESHOLD", "MATRIX22_STRASSEN_THRESHOLD", "HGCD_APPR_THRESHOLD")))
    ts = [t for t in ts if t <= 1200]
    extra = []
    for t in ts:
        # sizes at which the mpn_hgcd call inside mpn_gcd (n - 2n/3) and mpn_gcdext (n - n/2, n - n/3) crosses t
        extra += [3 * t, 2 * t] if not quick and t <= 200 else []
    for t in ts + extra:
        for dn in (-2, -1, 0, 1, 2) if not quick else (-1, 0, 1):
            n = t + dn
            if n < 1: continue
            a, b = sized_pair(rng, n, rng.choice([0, 0, 1]))
            yield signs(rng, a, b)
    if not quick and th["HGCD_REDUCE_THRESHOLD"] <= 8000:
        a, b = sized_pair(rng, th["HGCD_REDUCE_THRESHOLD"] + 1, 0); yield a, b

PRIMES = [3, 5, 7, 11, 13, 17, 19, 23, 29, 31, 37, 41, 43, 47, 97, 101, 65537, 4294967291, 4294967311, 18446744073709551557,
          (1 << 61) - 1, (1 << 89) - 1, (1 << 127) - 1, (1 << 521) - 1]

def kron_pairs(rng, tier):
    quick = tier == "quick"
    for a in range(-17, 18):
        for b in range(-17, 18): yield a, b
    base = [0, 1, -1, 2, -2, 4, 8, 1 << 63, -(1 << 63), B, -B, B - 1, B + 1, 1 << 62, (1 << 63) - 1, (1 << 63) + 1, 1 << 64, 3 << 63, 1 << 127, 1 << 128, (1 << 63) * B, 5 * B * B]
    for a in base:
        for b in base: yield a, b
    # residues mod 8 x signs x zero limbs x twos in the lower argument
    for ra in range(8):
        for rb in range(8):
            for _ in range(2 if quick else 8):
                na, nb = rng.choice([1, 1, 2, 3, 6]), rng.choice([1, 1, 2, 3, 6])
                a = (rand_nat(rng, na) & ~7) | ra; b = (rand_nat(rng, nb) & ~7) | rb
                for sa in (1, -1):
                    for sb in (1, -1):
                        yield sa * a, sb * b
                t = rng.choice([1, 2, 3, 63, 64, 65, 127, 128, rng.randrange(1, 200)])
                yield signs(rng, a, b << t)
                yield signs(rng, a << t, b)
                yield signs(rng, a | 1, (b | 1) << t)
                yield signs(rng, (a | 1) << 64, b | 1)
    for p in PRIMES:
        for _ in range(3 if quick else 12):
            a = rand_nat(rng, rng.choice([1, 2, 3])) 
            yield signs(rng, a, p); yield signs(rng, a, p * p); yield signs(rng, a * a, p); yield signs(rng, a * p, p * p); yield signs(rng, p, a)
            yield signs(rng, a % p, p); yield signs(rng, a, 2 * p); yield signs(rng, a | 1, 4 * p)
    for _ in range(150 if quick else 1500):
        a = rand_int(rng, 6); b = rand_int(rng, 6)
        yield a, b
        yield a, 1; yield a, -1; yield a, 0; yield 0, b; yield 1, b; yield -1, b; yield a, 2; yield 2, b
    for n in ([1, 2, 3, 4, 5, 8, 20] if quick else [1, 2, 3, 4, 5, 8, 20, 60, 200, 470]):
        for d in (0, 1, 3):
            for _ in range(3):
                a, b = sized_pair(rng, n, d)
                yield signs(rng, a, b); yield signs(rng, b, a); yield signs(rng, a, b | 1); yield signs(rng, b | 1, a)

LONGS = [0, 1, -1, 2, -2, 3, -3, 4, 7, 8, (1 << 63) - 1, -(1 << 63), -(1 << 63) + 1, 1 << 62, -(1 << 62), (1 << 32), (1 << 32) - 1, 6, -6, 12, 1 << 31, 15, -15, 9, 25]
ULONGS = [0, 1, 2, 3, 4, 7, 8, B - 1, B - 2, 1 << 63, (1 << 63) + 1, (1 << 63) - 1, 1 << 62, 1 << 32, 6, 12, 3 << 62, 15, 9, 25]

def rand_long(rng):
    r = rng.random()
    if r < 0.3: return rng.choice(LONGS)
    v = rng.getrandbits(rng.randrange(1, 64))
    if rng.random() < 0.3: v <<= rng.randrange(0, 63 - v.bit_length() + 1) if v.bit_length() < 63 else 0
    return -v if rng.random() < 0.5 else v

def rand_ulong(rng):
    r = rng.random()
    if r < 0.3: return rng.choice(ULONGS)
    v = rng.getrandbits(rng.randrange(1, 65))
    if rng.random() < 0.3 and v.bit_length() < 64: v <<= rng.randrange(0, 64 - v.bit_length() + 1)
    return v

def hgcd2_inputs(rng, tier):
    quick = tier == "quick"
    H = 1 << 63
    for _ in range(800 if quick else 16000):
        k = rng.randrange(12)
        if k == 0: ah, al, bh, bl = [rng.getrandbits(64) for _ in range(4)]
        elif k == 1: ah, al, bh, bl = rng.getrandbits(64) | H, rng.getrandbits(64), rng.getrandbits(64) | H, rng.getrandbits(64)
        elif k == 2:   # Fibonacci-like top words
            a, b = fib_pair(rng.randrange(90, 184)); s = 128 - a.bit_length()
            a <<= max(0, s); b <<= max(0, s); a += rng.getrandbits(max(1, s)) if s > 0 else 0
            ah, al, bh, bl = (a >> 64) & M, a & M, (b >> 64) & M, b & M
        elif k == 3:   # chosen quotients
            a, b = 1, 0
            while a.bit_length() < 126:
                q = rand_q(rng, big=False)
                if a.bit_length() + q.bit_length() > 128: break
                a, b = q * a + b, a
            s = 128 - a.bit_length(); a <<= s; b <<= s
            if rng.random() < 0.5: a, b = b, a
            ah, al, bh, bl = (a >> 64) & M, a & M, (b >> 64) & M, b & M
        elif k == 4: ah = rng.getrandbits(64) | H; al = rng.getrandbits(64); bh = ah; bl = rng.getrandbits(64)       # equal high limbs
        elif k == 5: ah = rng.getrandbits(64) | H; al = rng.getrandbits(64); bh = ah - rng.randrange(0, 3); bl = rng.getrandbits(64)
        elif k == 6: ah, al, bh, bl = rng.getrandbits(64) | H, rng.getrandbits(64), rng.randrange(0, 5), rng.getrandbits(64)   # tiny b
        elif k == 7: ah, al, bh, bl = rng.randrange(0, 5), rng.getrandbits(64), rng.getrandbits(64) | H, rng.getrandbits(64)
        elif k == 8: ah, al, bh, bl = rng.getrandbits(64) | H, rng.getrandbits(64), rng.getrandbits(rng.randrange(2, 64)), rng.getrandbits(64)  # huge first quotient
        elif k == 9: ah, al, bh, bl = rng.getrandbits(rng.randrange(2, 64)), rng.getrandbits(64), rng.getrandbits(64) | H, rng.getrandbits(64)
        elif k == 10: ah, al, bh, bl = rng.choice([H, M, H + 1]), rng.choice([0, M, 1]), rng.choice([H, M, H - 1, 2, 1 << 32, (1 << 32) - 1]), rng.choice([0, M, 1])
        else:          # ah just around 2^32 (switch to single precision immediately)
            ah, al, bh, bl = (1 << 32) + rng.randrange(-2, 3), rng.getrandbits(64), rng.getrandbits(33), rng.getrandbits(64)
        yield ah & M, al & M, bh & M, bl & M

def gen_ops(rng, tier, ctx=None):
    th = thresholds(ctx)
    quick = tier == "quick"
    NGX = 13
    # ---------- mpz gcd family
    for a, b in gcd_pairs(rng, tier, th):
        big = max(abs(a), abs(b)).bit_length() > 64 * 60
        yield "mpz_gcd %x %s %s" % (rng.randrange(3), hx(a), hx(b))
        yield "mpz_gcdext %x %s %s" % (rng.randrange(NGX) if rng.random() < 0.5 else 0, hx(a), hx(b))
        if not big or rng.random() < 0.3:
            yield "mpz_gcdext_x %x %s %s" % (rng.randrange(NGX), hx(a), hx(b))
            yield "mpz_gcdext_nt %x %s %s" % (rng.choice([0, 1, 2, 3, 4, 7, 8]), hx(a), hx(b))
            yield "mpz_gcdext_nt_x %x %s %s" % (rng.choice([0, 1, 2, 3, 4, 7, 8]), hx(a), hx(b))
            yield "mpz_lcm %x %s %s" % (rng.randrange(3), hx(a), hx(b))
            yield "mpz_invert %x %s %s" % (rng.randrange(3), hx(a), hx(b))
            yield "mpz_invert_x %x %s %s" % (rng.randrange(3), hx(a), hx(b))
        if not big and b != 0:
            g = 1
            # coprime variants so that the inverse exists often
            import math
            g = math.gcd(a, b)
            if g > 1 and a != 0:
                yield "mpz_invert %x %s %s" % (rng.randrange(3), hx(a // g), hx(b // g))
                yield "mpz_invert_x %x %s %s" % (rng.randrange(3), hx(a // g), hx(b // g))
        # mpn level on the magnitudes
        A, Bv = abs(a), abs(b)
        if A < Bv: A, Bv = Bv, A
        if Bv > 0:
            ul, vl = limbs_of(A), limbs_of(Bv)
            yield "mpn_gcdext %s %s" % (vec(ul), vec(vl))
            if not big or rng.random() < 0.3: yield "mpn_gcdext_x %s %s" % (vec(ul), vec(vl))
            if len(ul) == len(vl):     # same limb count: either order is allowed by the code's precondition (an >= n)
                yield "mpn_gcdext %s %s" % (vec(vl), vec(ul))
                yield "mpn_gcdext_x %s %s" % (vec(vl), vec(ul))
            # mpn_gcd needs V odd and bits(U) >= bits(V): strip twos of V
            Vo = Bv >> ((Bv & -Bv).bit_length() - 1)
            U2, V2 = (A, Vo) if A.bit_length() >= Vo.bit_length() else (Vo, A)
            if V2 & 1 and V2 > 0: yield "mpn_gcd %s %s" % (vec(limbs_of(U2)), vec(limbs_of(V2)))
            if len(vl) == 1:
                yield "mpn_gcd_1 %s %x" % (vec(ul), Bv)
                if len(ul) == 1: yield "mpn_gcdext_1 %x %x" % (A, Bv); yield "mpn_gcdext_1 %x %x" % (Bv, A)
    # ---------- ui variants
    for _ in range(600 if quick else 6000):
        a = rand_int(rng, rng.choice([1, 1, 2, 4, 8])); u = rand_ulong(rng)
        if rng.random() < 0.2 and u: a = u * rand_int(rng, 2)
        yield "mpz_gcd_ui %x %s %x" % (rng.randrange(3), hx(a), u)
        yield "mpz_lcm_ui %x %s %x" % (rng.randrange(2), hx(a), u)
    for a in (0, 1, -1, B - 1, B, -B, B * B, 1 << 63):
        for u in ULONGS:
            yield "mpz_gcd_ui %x %s %x" % (rng.randrange(3), hx(a), u)
            yield "mpz_lcm_ui %x %s %x" % (rng.randrange(2), hx(a), u)
    # ---------- mpn_gcd_1 / gcdext_1 directed
    for _ in range(1500 if quick else 15000):
        n = rng.choice([1, 1, 1, 2, 2, 3, 5, 9, 17])
        u = rand_limbs(rng, n); v = rand_limb(rng)
        k = rng.randrange(8)
        if k == 0: v = 1 << rng.randrange(64)
        if k == 1: u = limbs_of(rand_nat(rng, n) << rng.randrange(0, 64), n)
        if k == 2 and n > 1: u[0] = 0
        if k == 3: g = rng.getrandbits(rng.randrange(1, 33)) | 1; v = g * (rng.getrandbits(31) | 1); u = limbs_of(g * (rand_nat(rng, n) >> 34 or 1), n)
        if k == 4 and n == 1: u = [v * rng.randrange(1, 70000) & M]           # (ulimb >> 16) > vlimb branch
        if k == 5 and n == 1: a, b = fib_pair(rng.randrange(2, 92)); u, v = [a], b
        if k == 6: v = (v >> rng.randrange(0, 64)) << rng.randrange(0, 20) & M
        if all(x == 0 for x in u) or v == 0: continue
        yield "mpn_gcd_1 %s %x" % (vec(u), v)
        if n == 1:
            yield "mpn_gcdext_1 %x %x" % (u[0], v)
        if v & 1: yield "mpn_modexact_1_odd %s %x" % (vec(u), v)
    for a in range(1, 33):
        for b in range(1, 33):
            yield "mpn_gcd_1 [%x] %x" % (a, b); yield "mpn_gcdext_1 %x %x" % (a, b)
    for k in range(1, 93):
        a, b = fib_pair(k)
        if a < B: yield "mpn_gcdext_1 %x %x" % (a, b); yield "mpn_gcdext_1 %x %x" % (b, a) if b else "mpn_gcdext_1 1 1"
    for x in (1, 2, 3, M, M - 1, 1 << 63, (1 << 63) - 1, (1 << 63) + 1):
        for y in (1, 2, 3, M, M - 1, 1 << 63, (1 << 63) - 1, (1 << 63) + 1):
            yield "mpn_gcdext_1 %x %x" % (x, y); yield "mpn_gcd_1 [%x] %x" % (x, y)
    # ---------- hgcd2
    for ah, al, bh, bl in hgcd2_inputs(rng, tier):
        yield "mpn_hgcd2 %x %x %x %x" % (ah, al, bh, bl)
        yield "mpn_hgcd2_x %x %x %x %x" % (ah, al, bh, bl)
    # ---------- Jacobi / Kronecker
    for a, b in kron_pairs(rng, tier):
        yield "mpz_kronecker %s %s" % (hx(a), hx(b))
        if b & 1: yield "mpz_jacobi %s %s" % (hx(a), hx(b))
        if -(1 << 63) <= b < (1 << 63): yield "mpz_kronecker_si %s %s" % (hx(a), hx(b))
        if 0 <= b < B: yield "mpz_kronecker_ui %s %x" % (hx(a), b)
        if -(1 << 63) <= a < (1 << 63): yield "mpz_si_kronecker %s %s" % (hx(a), hx(b))
        if 0 <= a < B: yield "mpz_ui_kronecker %x %s" % (a, hx(b))
        if 0 <= a < B and 1 < b < B and b & 1:
            yield "mpn_jacobi_base %x %x %x" % (a, b, rng.choice([0, 2, 0, 2, 1, 3]))
        if b > 0 and b & 1 and a >= 0:
            n = max(len(limbs_of(a)), len(limbs_of(b)), 1)
            yield "mpn_jacobi_n %s %s %x" % (vec(limbs_of(a, n)), vec(limbs_of(b, n)), rng.randrange(2))
            if n <= 2: yield "mpn_jacobi_2 %s %s %x" % (vec(limbs_of(a, 2)), vec(limbs_of(b, 2)), rng.randrange(2))
    for p in PRIMES:
        for _ in range(3 if quick else 10):
            yield "mpz_legendre %s %s" % (hx(rand_int(rng, 3)), hx(p))
    for _ in range(1500 if quick else 15000):
        a = rand_int(rng, rng.choice([1, 1, 2, 3, 6])); s = rand_long(rng); u = rand_ulong(rng)
        if rng.random() < 0.2: a <<= 64 * rng.randrange(1, 3)
        yield "mpz_kronecker_si %s %s" % (hx(a), hx(s))
        yield "mpz_kronecker_ui %s %x" % (hx(a), u)
        yield "mpz_si_kronecker %s %s" % (hx(s), hx(a))
        yield "mpz_ui_kronecker %x %s" % (u, hx(a))
        b = u | 1
        if b > 1: yield "mpn_jacobi_base %x %x %x" % (rand_limb(rng), b, rng.choice([0, 2]))
    for s in LONGS:
        for a in (0, 1, -1, 2, -2, 3, -3, 1 << 63, -(1 << 63), B, -B, B - 1, 3 * B, (1 << 63) * B, -(1 << 63) * B * B, 7 << 64, 5, -5, 15, 9):
            yield "mpz_kronecker_si %s %s" % (hx(a), hx(s)); yield "mpz_si_kronecker %s %s" % (hx(s), hx(a))
    for u in ULONGS:
        for a in (0, 1, -1, 2, -2, 3, -3, 1 << 63, -(1 << 63), B, -B, B - 1, 3 * B, (1 << 63) * B, -(1 << 63) * B * B, 7 << 64, 5, -5, 15, 9):
            yield "mpz_kronecker_ui %s %x" % (hx(a), u); yield "mpz_ui_kronecker %x %s" % (u, hx(a))
    for a in range(0, 40):
        for b in range(3, 40, 2):
            yield "mpn_jacobi_base %x %x %x" % (a, b, (a ^ b) & 2)
    # ---------- mpn_jacobi_2 directed: every entry/exit of the two-limb loops
    for _ in range(2500 if quick else 30000):
        k = rng.randrange(10)
        al, ah, bl, bh = rand_limb(rng), rand_limb(rng), rand_limb(rng) | 1, rand_limb(rng)
        if k == 0: al = 0
        elif k == 1: bh = ah
        elif k == 2: bh = 0
        elif k == 3: ah = 0
        elif k == 4: al = rng.getrandbits(64) << rng.randrange(1, 64) & M
        elif k == 5: bh = ah; bl = (al | 1) if rng.random() < 0.5 else bl       # cancel_hi with al - bl = 0 or small
        elif k == 6:
            a, b = fib_pair(rng.randrange(93, 185)); a <<= rng.randrange(0, 128 - a.bit_length() + 1); al, ah, bl, bh = a & M, a >> 64, (b & M) | 1, b >> 64
        elif k == 7:                                                             # multiples: result 0
            g = rng.getrandbits(rng.randrange(2, 60)) | 1; x = g * (rng.getrandbits(60)); y = g * (rng.getrandbits(60) | 1); al, ah, bl, bh = x & M, x >> 64, y & M, y >> 64
        elif k == 8: bh = 0; bl = rng.choice([1, 3, 5, 7, M])
        al &= M; ah &= M; bl = (bl & M) | 1; bh &= M
        yield "mpn_jacobi_2 [%x,%x] [%x,%x] %x" % (al, ah, bl, bh, rng.randrange(2))
    for n in ([1, 2, 3, 4, 7] if quick else [1, 2, 3, 4, 7, 15, 30, 114, 461]):
        for _ in range(40 if quick else 100):
            a = rand_limbs(rng, n); b = rand_limbs(rng, n); b[0] |= 1
            if a[n - 1] | b[n - 1] == 0: b[n - 1] = 1
            yield "mpn_jacobi_n %s %s %x" % (vec(a), vec(b), rng.randrange(2))

def nontrivial(line):
    op = line.split(" ", 1)[0]
    return line if len(line) > len(op) + 8 else None
