"""C04 part allocsafe2 (continuation of c04_allocsafe): the two `_partial` theorems completed (mpz_com, mpz_tdiv_q_2exp:
well-formedness and the integer identity), size-aware models of mpz/and.c, ior.c, xor.c (every sign case, the operands
decremented into temporary space, the result-one-limb-longer carry cases, the pointer re-reads after _mpz_realloc) and of
mpz/mul_i.h (mpz_mul_ui) in lean/Mpir/Model/AllocSafeMpz2.lean; `mpz_and_alloc_safe`, `mpz_xor_alloc_safe`,
`mpz_mul_ui_alloc_safe` for all heaps, allocations and alias ids.  Ops `as2_*` (harness/ops_allocsafe2.c) run the real function
on objects of the GIVEN allocations and compare ALLOC(w), SIZ(w) and the value with the model's run (mpz_ior: mirrored and
tied in every sign case and alias mode; theorem `_partial`: both operands non-negative)."""
from genlib import *

LEAN_MODULES = ["MpirProofs.Props.C04_allocsafe2"]
THEOREMS = ["Mpir.AllocSafe." + t for t in (
    "mpz_com_alloc_safe", "mpz_tdiv_q_2exp_alloc_safe", "mpz_and_alloc_safe", "mpz_xor_alloc_safe", "mpz_mul_ui_alloc_safe", "mpz_ior_alloc_safe_partial",
    "Spec.com_spec", "Spec.tdiv_q_2exp_spec", "and_refines", "xor_refines", "cat_pp_wrote", "Wrote.wr", "Wrote.cat", "Den.wr")]
TRUSTED = ["hand-written size-aware models lean/Mpir/Model/AllocSafeMpz2.lean (mpz/and.c, ior.c, xor.c, mul_i.h on the memory model of "
           "AllocSafe.lean; TMP_ALLOC blocks = blocks of their own that no variable points to; the element-wise loops "
           "`res_ptr[i] = op1_ptr[i] OP op2_ptr[i]` = a kernel reading index i before storing index i), tied by exact comparison of "
           "ALLOC(w), SIZ(w), value in every alias mode, and by source pins"]
ASSUMPTIONS = ["the scanning loops of and.c / ior.c (`for (i = n - 1; i >= 0; i--) if (...) break;`) are checked as reads of [0, n) "
               "(they read a suffix of it)"]
RULE = ("allocsafe2: and/ior/xor in all five alias modes x four sign combinations, operands at limb boundaries (-(B^k), -(B^k - 1), B^k - 1, "
        "low zero limbs so that |op| - 1 borrows through limbs, equal magnitudes, disjoint bit patterns so that the scanned result size "
        "drops to 0), destination allocation from 1 over need-1 / need to generous; mul_ui with carries into a new top limb")

PINS = [("mpz/and.c", None), ("mpz/ior.c", None), ("mpz/xor.c", None), ("mpz/mul_i.h", None)]

def nl(x): return (abs(x).bit_length() + 63) // 64

def special(rng, k=None):
    k = k if k is not None else rng.randrange(1, 5)
    m = rng.randrange(0, 64 * k)
    c = rng.randrange(14)
    v = [B ** k - 1, B ** k, B ** k - (1 << m), 1 << m, (1 << (64 * k - 1)), B ** k + 1, (B ** k - 1) ^ (1 << m), 0, 1,
         rng.getrandbits(64 * k), rng.getrandbits(64 * k) | (1 << (64 * k - 1)), B ** (k - 1),
         rng.getrandbits(64) << (64 * (k - 1)), (rng.getrandbits(64 * k) >> 64) << 64][c]
    return v * rng.choice([1, -1])

def obj(rng, v, need=None):
    n = max(nl(v), 1)
    cands = [n, n, n + 1, n + rng.randrange(0, 4)]
    if need: cands += [max(n, need - 1), max(n, need), max(n, need + 1)]
    return "%x %s" % (rng.choice(cands), hx(v))

def wobj(rng, need):
    v = rng.choice([0, 0, special(rng), rng.getrandbits(64 * rng.randrange(1, 4)) * rng.choice([1, -1])])
    n = max(nl(v), 1)
    a = max(n, rng.choice([1, max(1, need - 1), need, need + 1, need + 3]))
    return "%x %s" % (a, hx(v))

def pair(rng):
    c = rng.random()
    if c < 0.35:
        k = rng.randrange(1, 5); return special(rng, k), special(rng, rng.choice([k, k, max(1, k - 1), k + 1]))
    if c < 0.45: u = special(rng); return u, -u
    if c < 0.55: u = special(rng); return u, u
    if c < 0.65:   # disjoint bits: and = 0, xor = ior
        k = rng.randrange(1, 4); x = rng.getrandbits(64 * k); m = rng.getrandbits(64 * k)
        return (x & m) * rng.choice([1, -1]), (x & ~m) * rng.choice([1, -1])
    if c < 0.75:   # -(B^k) with -(B^j - 1): the -- case of and carries into a new limb; ior/xor borrow chains
        k = rng.randrange(1, 4); j = rng.choice([k, k, k + 1, max(1, k - 1)])
        p = [(-(B ** k), -(B ** j - 1)), (-(B ** k), B ** j - 1), (B ** k - 1, -(B ** j)), (-(B ** k) + 1, -(B ** j) + 1), (-(B ** k - 1), -(B ** j - 1) - 1)]
        u, v = rng.choice(p)
        return rng.choice([(u, v), (v, u)])
    if c < 0.85:   # complementary: u ^ v = all ones / u | v = -1
        k = rng.randrange(1, 4); x = rng.getrandbits(64 * k)
        return rng.choice([(x, ~x), (x, (B ** k - 1) ^ x), (-x, x - 1), (x, -x)])
    return rand_int(rng, 6), rand_int(rng, 6)

def gen3(rng, name):
    u, v = pair(rng)
    m = rng.randrange(5)
    if m >= 3: v = u
    nd = max(nl(u), nl(v)) + 1
    nd = rng.choice([nd, nd - 1, max(nl(u & v), 1), max(nl(u ^ v), 1), max(nl(u | v), 1), min(nl(u), nl(v)) or 1])
    return "%s %x %s %s %s" % (name, m, wobj(rng, nd), obj(rng, u, nd), obj(rng, v, nd))

def limb_k(rng, u):
    return rng.choice([0, 1, 2, M, 1 << 63, rng.getrandbits(64), (1 << 32) + 1])

def gen_ops(rng, tier, ctx=None):
    n = 400 if tier == "quick" else 6000
    for _ in range(n):
        yield gen3(rng, "as2_and")
        yield gen3(rng, "as2_ior")
        yield gen3(rng, "as2_xor")
        u = special(rng) if rng.random() < 0.8 else rand_int(rng, 6)
        k = limb_k(rng, u)
        nd = nl(u) + 1
        yield "as2_mul_ui %x %s %s %x" % (rng.randrange(2), wobj(rng, nd), obj(rng, u, nd), k)

def nontrivial(line):
    return line if line.startswith("as2_") else None
