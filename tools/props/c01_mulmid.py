"""C01 (part: middle product) — mpn_mulmid_basecase (generic C; the linked assembly is tied to it by C14), mpn_mulmid_n and the
chunked driver mpn_mulmid: limb-level executable models (lean/Mpir/Model/MulMid.lean), every output limb compared (ops mm_*), and
theorems: the models compute MP(a,m,b,n) = sum_{n-1 <= i+j <= m-1} a_i b_j B^(i+j-n+1) exactly, in m-n+3 limbs, for all lengths,
every MULMID_TOOM42_THRESHOLD, every chunk orientation of mulmid.c (add-backs exact, no carry lost), mpn_toom42_mulmid entering
by its specification."""
import os, sys
sys.path.insert(0, os.path.dirname(os.path.dirname(os.path.abspath(__file__))))
from genlib import *

LEAN_MODULES = ["MpirProofs.Props.C01_mulmid"]
THEOREMS = ["Mpir.MulMid.mulmid_basecase_spec", "Mpir.MulMid.mulmid_n_spec", "Mpir.MulMid.mulmid_spec", "Mpir.MulMid.tmSpec_ok",
            "Mpir.MulMid.mp_pairs_spec", "Mpir.MulMid.mulmid_pairs_spec", "Mpir.MulMid.toom42_odd_fixup_partial",
            "Mpir.MulMid.toom42_mulmid_spec_partial"]
PINS = [("mpn/generic/toom42_mulmid.c", None), ("gmp-impl.h", "SUBC_LIMB"), ("mpn/generic/add_err1_n.c", "mpn_add_err1_n"),
        ("mpn/generic/add_err2_n.c", "mpn_add_err2_n"), ("mpn/generic/sub_err2_n.c", "mpn_sub_err2_n"),
        ("mpn/generic/mulmid_basecase.c", "mpn_mulmid_basecase"), ("mpn/generic/mulmid_n.c", "mpn_mulmid_n"),
        ("mpn/generic/mulmid.c", None), ("gmp-impl.h", "ADDC_LIMB")]
TRUSTED = ["hand-written limb-level models of mpn_mulmid_basecase / mpn_mulmid_n / mpn_mulmid in lean/Mpir/Model/MulMid.lean (run against the "
           "library, all output limbs, on every check with MULMID_TOOM42_THRESHOLD of the tree)",
           "the linked mpn_mulmid_basecase is assembly; the generic C modelled here is its reference (differential tie: op mm_basecase here, k_mulmid_basecase in C14)"]
ASSUMPTIONS = ["mpn_toom42_mulmid (toom42_mulmid.c) is modelled limb for limb (Mpir/Model/MulMidToom.lean, op mm_toom42, and it is the callee of the "
               "driver's mulmid_n / mulmid), its recursion, dispatch and odd row/diagonal are proved (toom42_odd_fixup_partial, toom42_mulmid_spec_partial); its even core (e0..e5 "
               "corrections, neg, evaluation: hypothesis `EvenCore`) is run only, so mulmid_n_spec / mulmid_spec hold for the real callee modulo `EvenCore`",
               "mpn_mul_1 / mpn_addmul_1 / mpn_add_n / mpn_add_1 by the kernel models of Mpir/Model/Kernels.lean (theorems of C03/C01 leaves)",
               "documented size restriction `vn << GMP_NUMB_MAX` taken as bn <= 2^64"]
RULE = ("mm_basecase: every (un, vn) with vn <= un <= 12 and around 2^k; mm_mulmid_n: n = 1..T+3 (T = MULMID_TOOM42_THRESHOLD) and 2T; mm_mulmid: the "
        "four regions of mulmid.c with an at CHUNK-1, CHUNK, CHUNK+1 and at every chunk boundary j*k-1, j*k, j*k+1 (wide), bn at j*CHUNK-1..+1 (tall), "
        "bn = q*rn + r and rn = q*bn + r for r in {0, 1, rn-1} (toom42 regions incl. the recursive last chunk); operands all ones (maximal carries "
        "into the two top limbs and through the add-backs), uniform, runs")

def _T(ctx):
    try:
        from props.c01_algo import thresholds
        return int(thresholds(ctx)[0]["MULMID_TOOM42_THRESHOLD"])
    except Exception:
        return 36

def _pairs(rng, an, bn, classes=("ones", "uniform", "runs")):
    for cls in classes:
        yield vec(rand_limbs(rng, an, cls)), vec(rand_limbs(rng, bn, cls))
    yield vec([M] * an), vec(rand_limbs(rng, bn, "uniform"))

def gen_ops(rng, tier, ctx=None):
    thorough = tier != "quick"
    T = _T(ctx); CH = 200 + T
    # basecase
    for un in list(range(1, 13)) + [16, 17, 31, 33, 64, 65]:
        for vn in sorted(set([v for v in list(range(1, 13)) + [un // 2, un - 1, un] if 1 <= v <= un])):
            for a, b in _pairs(rng, un, vn): yield "mm_basecase %s %s" % (a, b)
    # mulmid_n around the threshold
    for n in list(range(1, T + 4)) + [2 * T, 2 * T + 1] + ([4 * T, 301] if thorough else []):
        for a, b in _pairs(rng, 2 * n - 1, n): yield "mm_mulmid_n %s %s" % (a, b)
    # toom42_mulmid directly: n = 4..40 odd and even (one level at the tree's threshold), 2T..4T+1 (recursion), all-ones / runs / uniform / sparse
    for n in list(range(4, 41)) + [2 * T, 2 * T + 1, 2 * T + 9, 4 * T, 4 * T + 1] + ([8 * T + 3, 301] if thorough else []):
        for a, b in _pairs(rng, 2 * n - 1, n, ("ones", "uniform", "runs", "sparse")): yield "mm_toom42 %s %s" % (a, b)
        yield "mm_toom42 %s %s" % (vec(rand_limbs(rng, 2 * n - 1, "uniform")), vec([M] * n))
        yield "mm_toom42 %s %s" % (vec(rand_limbs(rng, 2 * n - 1, "runs")), vec(rand_limbs(rng, n // 2, "uniform") + rand_limbs(rng, n - n // 2, "zero")))
    shapes = set()
    # small, all regions direct
    for an in range(1, 10):
        for bn in range(1, an + 1): shapes.add((an, bn))
    # region 1 (bn < T): wide, basecase chunks
    for bn in sorted(set([1, 2, 7, T - 1])):
        if not 1 <= bn < T: continue
        k = CH - bn + 1
        for an in [CH - 1, CH, CH + 1, CH + 2, CH + bn, CH + k - 1, CH + k, CH + k + 1, CH + 2 * k - 1, CH + 2 * k, CH + 2 * k + bn, 3 * CH + 5]:
            if an >= bn: shapes.add((an, bn))
    # region 2 (bn >= T, rn < T): tall, basecase chunks
    for rn in sorted(set([1, 2, T - 1])):
        if not 1 <= rn < T: continue
        for bn in [T, T + 1, CH - 1, CH, CH + 1, 2 * CH - 1, 2 * CH, 2 * CH + 1, 3 * CH + 7]:
            shapes.add((rn + bn - 1, bn))
    # region 3 (bn > rn >= T) and region 4 (T <= bn <= rn): toom42 chunks + recursive last chunk
    for x in [T, T + 1, T + 9]:
        for q in [1, 2, 3]:
            for r in [0, 1, 2, T - 1, T, x - 1]:
                y = q * x + r
                if y > x: shapes.add((x + y - 1, y))      # rn = x, bn = y
                if y >= x: shapes.add((y + x - 1, x))     # rn = y, bn = x
    if thorough:
        for _ in range(60):
            bn = rng.choice([rng.randrange(1, T), rng.randrange(T, 3 * CH)]); rn = rng.choice([rng.randrange(1, T), rng.randrange(T, 3 * CH)])
            shapes.add((rn + bn - 1, bn))
    for an, bn in sorted(shapes):
        for a, b in _pairs(rng, an, bn, ("ones", "uniform") if an > 300 else ("ones", "uniform", "runs")):
            yield "mm_mulmid %s %s" % (a, b)

def nontrivial(line):
    op = line.split(" ", 1)[0]
    if not op.startswith("mm_"): return None
    return line
