"""C01 (part: FFT ring layer) — residues modulo p = 2^(64*limbs)+1 in limbs+1 limbs with a signed top limb:
normalisation, multiplication/division by powers of two, limb rotations (adjust), the radix-2 / sqrt2 / twiddle
butterflies, bit splitting and recombination, the basecase pointwise product.  Limb-level models
(lean/Mpir/Model/FftRing.lean) answer bit-exact; the theorems say the models compute the ring operations."""
import os, sys
sys.path.insert(0, os.path.dirname(os.path.dirname(os.path.abspath(__file__))))
from genlib import *

LEAN_MODULES = ["MpirProofs.Props.C01_fftring"]
THEOREMS = ["Mpir.Fft.normmod_val", "Mpir.Fft.mul_2expmod_val", "Mpir.Fft.div_2expmod_val", "Mpir.Fft.adjust_val",
            "Mpir.Fft.butterfly_val", "Mpir.Fft.ifft_butterfly_val",
            "Mpir.Fft.split_bits_val", "Mpir.Fft.combine_bits_eval", "Mpir.Fft.rval_of_small", "Mpir.Fft.split_combine_id",
            "Mpir.Fft.mulmod_2expp1_basecase_val", "Mpir.Fft.mulmod_Bexpp1_val",
            "Mpir.Fft.sqrt2_sq", "Mpir.Fft.adjust_sqrt2_val", "Mpir.Fft.butterfly_sqrt2_val", "Mpir.Fft.ifft_butterfly_sqrt2_val",
            "Mpir.Fft.sqrt2_twiddle_inverse"]
PINS = [("gmp-impl.h", "mpn_addmod_2expp1_1"),
        ("fft/normmod_2expp1.c", None), ("fft/mul_2expmod_2expp1.c", None), ("fft/div_2expmod_2expp1.c", None),
        ("fft/adjust.c", None), ("fft/adjust_sqrt2.c", None), ("fft/butterfly_lshB.c", None), ("fft/butterfly_rshB.c", None),
        ("fft/fft_radix2.c", "mpir_fft_butterfly"), ("fft/ifft_radix2.c", "mpir_ifft_butterfly"),
        ("fft/fft_trunc_sqrt2.c", "mpir_fft_butterfly_sqrt2"), ("fft/ifft_trunc_sqrt2.c", "mpir_ifft_butterfly_sqrt2"),
        ("fft/fft_mfa_trunc_sqrt2.c", "mpir_fft_butterfly_twiddle"), ("fft/ifft_mfa_trunc_sqrt2.c", "mpir_ifft_butterfly_twiddle"),
        ("fft/split_bits.c", None), ("fft/combine_bits.c", None),
        ("mpn/generic/sumdiff_n.c", "mpn_sumdiff_n"),
        ("mpn/generic/mulmod_2expp1_basecase.c", "mpn_mulmod_2expp1_basecase"),
        ("mpn/generic/mulmod_2expp1_basecase.c", "mpn_mulmod_2expp1_internal"),
        ("mpn/generic/mulmod_bexpp1.c", "mpn_mulmod_Bexpp1")]
TRUSTED = ["hand-written limb-level models of the fft/ ring primitives in lean/Mpir/Model/FftRing.lean (run bit-exact against the library on every check)",
           "GCC's arithmetic >> on mp_limb_signed_t (the C files carry that warning) is modelled as floor division of the signed reading"]
ASSUMPTIONS = ["theorems cover: normmod, mul/div_2expmod, adjust, adjust_sqrt2, the radix-2 and sqrt2 butterflies (butterfly_lshB/rshB with x = 0), split/combine, "
               "mulmod_2expp1_basecase (all b) and mulmod_Bexpp1; the general limb-shift butterflies (x != 0) and the MFA twiddle butterflies are modelled and run "
               "bit-exact against the library (every (x,y) pair at limbs <= 5) but carry no theorem",
               "the FFT transforms themselves (fft_trunc_sqrt2, ifft_*, MFA, negacyclic) and mpir_fft_mulmod_2expp1 are outside this part; "
               "mpn_mulmod_2expp1_basecase is modelled on the branch that does not enter the FFT (k != 0 or n <= FFT_MULMOD_2EXPP1_CUTOFF), with mpn_mul_n taken as the exact product"]
RULE = ("fft ring: limbs 1..12 and a few larger; every shift 0..63 at small sizes and {0,1,31,32,33,62,63} above; every twiddle exponent class "
        "(0, multiples of 64, 64k+-1, the maximum); every (x,y) limb-shift pair of both butterflies at limbs<=5; residues with top limb "
        "0,+-1,+-2,+-3,+-2^62 and random, low part zero/ones/uniform/runs/sparse, and every representation of -1, 0, 1, p-1, p, p+1; "
        "normmod inputs built to take each of its three correction steps; split/combine at every bits 1..130 and around multiples of 64, "
        "round trips and accumulation into non-zero destinations, truncated and oversized totals; basecase product for every top-bit flag c "
        "and b around limb boundaries")

def tc(v): return v % B                      # two's complement limb
SMALL_TOPS = [0, 1, 2, 3, -1, -2, -3]
WIDE_TOPS = SMALL_TOPS + [(1 << 62) - 1, -(1 << 62), 5, -7, 1 << 40, -(1 << 40)]
LOW_CLASSES = ["zero", "ones", "uniform", "runs", "sparse", "lowbit", "top"]

def residue(rng, limbs, top=None, cls=None, tops=SMALL_TOPS):
    low = rand_limbs(rng, limbs, cls or rng.choice(LOW_CLASSES))
    t = rng.choice(tops) if top is None else top
    return low + [tc(t)]

def reps(limbs, v, tops=SMALL_TOPS):
    """every representation low + B^limbs*top of an integer congruent to v mod p with top in `tops`"""
    p = B ** limbs + 1; out = []
    for t in tops:
        for k in range(-4, 5):
            low = v + k * p - t * B ** limbs
            if 0 <= low < B ** limbs: out.append(limbs_of(low, limbs) + [tc(t)])
    return out

def special_residues(rng, limbs, tops=SMALL_TOPS):
    p = B ** limbs + 1; out = []
    for v in (0, 1, -1, 2, B ** limbs - 1, 1 << (64 * limbs - 1)):
        out += reps(limbs, v % p, tops)
    return out

def exponents(limbs, maxe):
    """0, 1, multiples of 64 and 64k+-1 up to maxe (inclusive), and maxe itself"""
    s = {0, 1, 2, 31, 32, 33, 62, 63, maxe, max(maxe - 1, 0)}
    for k in range(1, limbs + 1):
        for d in (-1, 0, 1):
            s.add(64 * k + d)
    return sorted(e for e in s if 0 <= e <= maxe)

def factor_iw(rng, e):
    """(i, w) with i*w == e"""
    if e == 0: return rng.choice([(0, 1), (0, 7), (5, 0)])
    ws = [w for w in (1, 2, 3, 4, 5, 7, 8, 16, 64) if e % w == 0]
    w = rng.choice(ws); return (e // w, w)

def gen_ops(rng, tier, ctx=None):
    thorough = tier != "quick"
    SIZES = list(range(1, 13)) + [16, 33] + ([64, 100] if thorough else [])
    rep = 3 if thorough else 1
    # ---- normmod
    for limbs in SIZES:
        rs = special_residues(rng, limbs, WIDE_TOPS)
        for t in WIDE_TOPS + [rng.getrandbits(63), -rng.getrandbits(63), (1 << 63) - 1, -(1 << 63) + 1]:
            for cls in LOW_CLASSES: rs.append(residue(rng, limbs, t, cls))
        for k in (1, 2, 3, 1 << 62, (1 << 63) - 1):
            rs.append(limbs_of(B ** limbs - k, limbs) + [tc(-k)])         # first correction lands exactly on B^limbs
            rs.append(limbs_of(k - 1, limbs) + [tc(k)])                    # low - k borrows, then +1 carries out
            rs.append(limbs_of(B ** limbs - k - 1, limbs) + [tc(-k)])      # ... one short of it
            rs.append(limbs_of(k, limbs) + [tc(k)]); rs.append(limbs_of(max(k - 2, 0), limbs) + [tc(k)])
            rs.append([M] * limbs + [tc(-k)]); rs.append([0] * limbs + [tc(k)]); rs.append([0] * limbs + [tc(-k)])
        for r in rs: yield "fft_normmod %s" % vec(r)
    # ---- mul / div by 2^d
    for limbs in SIZES:
        ds = range(64) if limbs <= 4 else (0, 1, 2, 31, 32, 33, 62, 63)
        for d in ds:
            rs = [residue(rng, limbs, None, None, WIDE_TOPS + [rng.getrandbits(64) - (1 << 63), -(1 << 63), (1 << 63) - 1]) for _ in range(2 * rep)]
            rs += [[M] * limbs + [tc(t)] for t in (0, -1, 1, (1 << 63) - 1, -(1 << 63))] + [[0] * limbs + [tc(t)] for t in (1, -1, -(1 << 63))]
            if limbs <= 3 or d in (1, 63): rs += special_residues(rng, limbs)[:: (1 if limbs <= 2 else 3)]
            for r in rs:
                yield "fft_mul_2expmod %s %x" % (vec(r), d)
                yield "fft_div_2expmod %s %x" % (vec(r), d)
            yield "fft_mul_2expmod_ip %s %x" % (vec(rs[0]), d)
            yield "fft_div_2expmod_ip %s %x" % (vec(rs[0]), d)
    # ---- adjust: r = i1 * 2^(i*w), i*w <= 64*limbs
    for limbs in SIZES:
        for e in exponents(limbs, 64 * limbs):
            i, w = factor_iw(rng, e)
            rs = [residue(rng, limbs, None, None, WIDE_TOPS) for _ in range(2 * rep)] + [[M] * limbs + [tc(-1)], [0] * limbs + [1], [M] * limbs + [0]]
            if limbs <= 3: rs += special_residues(rng, limbs)[::2]
            for r in rs: yield "fft_adjust %s %x %x" % (vec(r), i, w)
    # ---- adjust_sqrt2 / sqrt2 butterflies: b1 = i/2 + wn/4 + i*(w/2) < 2*wn
    for limbs in SIZES:
        wn = 64 * limbs
        for w in (1, 2, 3, 4, 8, 64):
            n = max(wn // w, 1)
            idx = sorted({1, 3, 5, n - 1 | 1, n + 1 | 1, 2 * n - 1, rng.randrange(2 * n) | 1, rng.randrange(2 * n) | 1})
            for i in idx:
                if not (i // 2 + wn // 4 + i * (w // 2) < 2 * wn): continue
                for _ in range(rep):
                    yield "fft_adjust_sqrt2 %s %x %x" % (vec(residue(rng, limbs, None, None, WIDE_TOPS)), i, w)
                    a, b = residue(rng, limbs), residue(rng, limbs)
                    yield "fft_butterfly_sqrt2 %s %s %x %x" % (vec(a), vec(b), i, w)
                    if i // 2 + i * (w // 2) + 1 <= wn:
                        yield "ifft_butterfly_sqrt2 %s %s %x %x" % (vec(a), vec(b), i, w)
                yield "fft_adjust_sqrt2 %s %x %x" % (vec([M] * limbs + [tc(rng.choice(SMALL_TOPS))]), i, w)
    # ---- limb-shift butterflies: every (x, y) at small sizes
    for limbs in SIZES:
        if limbs <= 5: pairs = [(x, y) for x in range(limbs + 1) for y in range(limbs + 1)]
        else:
            pairs = [(0, 0), (0, 1), (1, 0), (1, 1), (0, limbs), (limbs, 0), (limbs - 1, limbs - 1), (1, limbs - 1), (limbs - 1, 1), (limbs, limbs), (2, 1), (1, 2)]
            pairs += [(rng.randrange(limbs + 1), rng.randrange(limbs + 1)) for _ in range(6 * rep)]
        for x, y in pairs:
            ab = [(residue(rng, limbs), residue(rng, limbs)) for _ in range(2 * rep)]
            ab.append(([M] * limbs + [tc(rng.choice(SMALL_TOPS))], [0] * limbs + [tc(rng.choice(SMALL_TOPS))]))
            ab.append(([0] * limbs + [tc(rng.choice(SMALL_TOPS))], [M] * limbs + [tc(rng.choice(SMALL_TOPS))]))
            r = residue(rng, limbs); ab.append((r, list(r)))
            ab.append((residue(rng, limbs, None, "sparse", WIDE_TOPS), residue(rng, limbs, None, "sparse", WIDE_TOPS)))
            for a, b in ab:
                yield "fft_butterfly_lshB %s %s %x %x" % (vec(a), vec(b), x, y)
                yield "fft_butterfly_rshB %s %s %x %x" % (vec(a), vec(b), x, y)
    # ---- radix-2 butterflies: (s, t) = (a + b, (a - b) 2^(i w)) and the inverse
    for limbs in SIZES:
        for e in exponents(limbs, 64 * limbs):
            i, w = factor_iw(rng, e)
            ab = [(residue(rng, limbs), residue(rng, limbs)) for _ in range(2 * rep)]
            ab.append(([M] * limbs + [tc(1)], [M] * limbs + [tc(-2)]))
            ab.append(([0] * limbs + [tc(-1)], [M] * limbs + [tc(1)]))
            ab.append((residue(rng, limbs, None, None, WIDE_TOPS), residue(rng, limbs, None, None, WIDE_TOPS)))
            if limbs <= 2:
                sp = special_residues(rng, limbs); ab += [(rng.choice(sp), rng.choice(sp)) for _ in range(6)]
            for a, b in ab:
                yield "fft_butterfly %s %s %x %x" % (vec(a), vec(b), i, w)
                yield "ifft_butterfly %s %s %x %x" % (vec(a), vec(b), i, w)
    # ---- twiddle butterflies: b1, b2 < 2*nw
    for limbs in SIZES:
        nw = 64 * limbs
        es = [e for e in exponents(limbs, nw - 1) + [nw, nw + 1, nw + 63, nw + 64, 2 * nw - 1] if e < 2 * nw]
        for _ in range(14 * rep):
            b1, b2 = rng.choice(es), rng.choice(es)
            a, b = residue(rng, limbs), residue(rng, limbs)
            yield "fft_butterfly_twiddle %s %s %x %x" % (vec(a), vec(b), b1, b2)
            yield "ifft_butterfly_twiddle %s %s %x %x" % (vec(a), vec(b), b1, b2)
    # ---- split / combine
    def split_py(xv, total, bits):
        length = (64 * total - 1) // bits + 1
        return [(xv >> (j * bits)) & ((1 << bits) - 1) for j in range(length)]
    for total in list(range(1, 13)) + [17, 40]:
        if total <= 3: bl = list(range(1, 131)) + [191, 192, 193]
        else: bl = sorted({1, 7, 28, 63, 64, 65, 100, 127, 128, 129, 64 * total - 1, 64 * total, 64 * total + 1, 64 * total + 64,
                           rng.randrange(1, 64 * total), rng.randrange(1, 64 * total), 64 * rng.randrange(1, total + 1)})
        for bits in bl:
            coeff = (bits + 63) // 64
            if (64 * total - 1) // bits + 1 > 400: continue
            fits = (64 * total - 1) // bits + 1 <= 58                # harness/main.c keeps at most 64 tokens per line
            for cls in (["uniform", "ones", "runs"] if total <= 6 else ["uniform", "ones"]):
                x = rand_limbs(rng, total, cls); xv = sum(l << (64 * i) for i, l in enumerate(x))
                ol = coeff + rng.choice([0, 0, 1, 2]) - (1 if rng.random() < 0.1 else 0)
                yield "fft_split_bits %s %x %x" % (vec(x), bits, ol)
                # round trip and accumulation: combine the true coefficients (top limb zero) into zero / non-zero destinations
                ol = max(coeff + rng.choice([0, 1]), 1)
                cs = [limbs_of(c, ol + 1) for c in split_py(xv, total, bits)]
                for res in ([0] * total, rand_limbs(rng, total, "uniform"), [0] * max(total - 1, 1), [0] * (total + 2), [M] * (total + ol + 2)) if fits else ():
                    yield "fft_combine_bits %s %x %x %s" % (vec(res), bits, ol, " ".join(vec(c) for c in cs))
            # coefficients as the FFT leaves them: ol limbs of data (overlapping sums), sometimes a non-zero top limb
            ol = coeff + rng.choice([0, 1, 2]); ol = max(ol, 1)
            ncoef = rng.choice([1, 2, 3, (64 * total - 1) // bits + 1, (64 * total - 1) // bits + 2])
            for topv in (0, 0, rng.choice([1, M, 5])):
                cs = [rand_limbs(rng, ol, rng.choice(["uniform", "ones", "runs"])) + [topv if rng.random() < 0.5 else 0] for _ in range(min(ncoef, 58))]
                res = rng.choice([[0] * total, rand_limbs(rng, total, "uniform"), [M] * total])
                yield "fft_combine_bits %s %x %x %s" % (vec(res), bits, ol, " ".join(vec(c) for c in cs))
    # ---- basecase product modulo 2^b+1
    bs = sorted(set(list(range(1, 70)) + [b for n in (2, 3, 4, 5, 8, 12) for b in (64 * n - 63, 64 * n - 1, 64 * n, 64 * n - 32)] + [64 * 40, 64 * 128, 64 * 130 - 5]))
    for b in bs:
        n = (b + 63) // 64
        if n > 20 and not thorough and b % 64 and b != 64 * 130 - 5: continue
        def opnd(kind):
            if kind == "zero": return 0
            if kind == "one": return 1
            if kind == "max": return (1 << b) - 1
            if kind == "half": return 1 << (b - 1)
            return rrandomb(rng, b) if kind == "runs" else rng.getrandbits(b)
        kinds = ["zero", "one", "max", "half", "runs", "uniform"]
        pairs = [(opnd(k1), opnd(k2)) for k1 in kinds for k2 in kinds] if b <= 70 or b % 64 == 0 else [(opnd(rng.choice(kinds)), opnd(rng.choice(kinds))) for _ in range(8)]
        if n > 20: pairs = pairs[-6:] + [((1 << b) - 1, (1 << b) - 1), (1, (1 << b) - 1)]
        for y, z in pairs:
            yield "fft_mulmod_2expp1 0 %x %s %s" % (b, vec(limbs_of(y, n)), vec(limbs_of(z, n)))
        # operands built backwards from the answer: y*z = -1, 0, 1 modulo 2^b+1
        p = (1 << b) + 1
        for _ in range(2 * rep):
            y = rng.randrange(1, 1 << b)
            try: yi = pow(y, -1, p)
            except ValueError: continue
            for z in (yi, p - yi):
                if z < (1 << b): yield "fft_mulmod_2expp1 0 %x %s %s" % (b, vec(limbs_of(y, n)), vec(limbs_of(z, n)))
        for y in sorted({0, 1, 2 % (1 << b), (1 << b) - 1, rng.getrandbits(b)}):
            yield "fft_mulmod_2expp1 1 %x %s %s" % (b, vec(limbs_of(y, n)), vec([0] * n))
            yield "fft_mulmod_2expp1 2 %x %s %s" % (b, vec([0] * n), vec(limbs_of(y, n)))
        yield "fft_mulmod_2expp1 3 %x %s %s" % (b, vec([0] * n), vec([0] * n))
    for limbs in list(range(1, 13)) + [40, 128]:
        norm = lambda: rng.choice([rand_limbs(rng, limbs, rng.choice(["uniform", "ones", "runs", "lowbit", "zero"])) + [0], [0] * limbs + [1]])
        for _ in range(8 if limbs <= 12 else 3):
            yield "fft_mulmod_Bexpp1 %s %s" % (vec(norm()), vec(norm()))
        yield "fft_mulmod_Bexpp1 %s %s" % (vec([0] * limbs + [1]), vec([0] * limbs + [1]))
        yield "fft_mulmod_Bexpp1 %s %s" % (vec([M] * limbs + [0]), vec([M] * limbs + [0]))
        yield "fft_mulmod_Bexpp1 %s %s" % (vec([M] * limbs + [0]), vec([0] * limbs + [1]))

def nontrivial(line):
    op = line.split(" ", 1)[0]
    if not (op.startswith("fft_") or op.startswith("ifft_")): return None
    return line
