"""C10 — main module (parts: c10_*.py are merged automatically)."""
LEVEL = "proof"
LEAN_MODULES = []
THEOREMS = []
TRUSTED = []
ASSUMPTIONS = []
LEVEL_TEXT = "Lean theorems: each mpn logic kernel is the bitwise function; mpz_and/ior/xor/com/setbit/clrbit/combit/tstbit/scan/popcount/hamdist models equal Mathlib's two's-complement Int operations for all four sign combinations and any lengths, results well formed. Differential run on negatives with low zero limbs, -1, -2^k, growing results, far bit indices."
LEVEL_NOTE = 'Hand-written models tied by differential execution; the SWAR code of popcount.c is mirrored statement by statement and proved equal to the bit count for every limb list.'
PLACEHOLDER = True
